(* C17 -- unit-cell lengths/angles and box vectors describe the same cell; cell presence through histories.
   Only statements, closed by [exact], and Print Assumptions.
   The conversion formulas are MD.Gen.CellFormulas, regenerated from mdtraj/utils/unitcell.py on every run;
   la lb lc are the stored lengths, ca cb cg the cosines of the stored alpha beta gamma, sg the sine of gamma.
   The real-number theorems depend on the axioms of Coq's standard real numbers (listed by Print Assumptions);
   the polynomial identities over Z and the history theorems are closed under the global context. *)
From Coq Require Import Reals List ZArith Bool.
Import ListNotations.
Require Import MD.Cell.Model MD.Cell.Proofs MD.Cell.ZAlgebra MD.Cell.Formats MD.Cell.FormatsProofs.
Require Import MD.Cell.Frames MD.Cell.DegProofs MD.Cell.InverseProofs MD.Cell.SnapProofs MD.Cell.FrameProofs.
Require Import MD.Traj.Model MD.Traj.Proofs MD.Traj.CellHist.
Open Scope R_scope.

(* ---- the reported vectors have the stored lengths ... *)
Theorem vectors_have_lengths : forall la lb lc ca cb cg sg,
  0 < sg -> sg * sg + cg * cg = 1 -> 0 <= radicand lc ca cb cg sg ->
  let '(va, vb, vc) := to_vectors la lb lc ca cb cg sg in
  dot va va = la * la /\ dot vb vb = lb * lb /\ dot vc vc = lc * lc.
Proof.
  intros la lb lc ca cb cg sg Hs Hu Hr.
  exact (conj (len_a la lb lc ca cb cg sg) (conj (len_b la lb lc ca cb cg sg Hu) (len_c la lb lc ca cb cg sg Hr))).
Qed.
Print Assumptions vectors_have_lengths.

(* ---- ... and the stored mutual angles: alpha between b and c, beta between c and a, gamma between a and b *)
Theorem vectors_have_angles : forall la lb lc ca cb cg sg,
  0 < sg ->
  let '(va, vb, vc) := to_vectors la lb lc ca cb cg sg in
  dot vb vc = lb * lc * ca /\ dot vc va = lc * la * cb /\ dot va vb = la * lb * cg.
Proof.
  intros la lb lc ca cb cg sg Hs.
  exact (conj (angle_alpha la lb lc ca cb cg sg Hs) (conj (angle_beta la lb lc ca cb cg sg) (angle_gamma la lb lc ca cb cg sg))).
Qed.
Print Assumptions vectors_have_angles.

(* ---- standard orientation: a along +x, b in the xy half-plane y > 0, c above the plane, positive volume *)
Theorem standard_orientation : forall la lb lc ca cb cg sg,
  0 < la -> 0 < lb -> 0 < sg -> 0 < radicand lc ca cb cg sg ->
  let '(va, vb, vc) := to_vectors la lb lc ca cb cg sg in
  va = (la, 0, 0) /\ snd vb = 0 /\ 0 < snd (fst vb) /\ 0 < snd vc /\ 0 < det3 va vb vc.
Proof.
  intros la lb lc ca cb cg sg Ha Hb Hs Hr.
  destruct (orientation la lb lc ca cb cg sg Hb Hs) as [O1 [O2 [O3 [O4 _]]]].
  exact (conj O1 (conj O2 (conj O3 (conj (O4 Hr) (volume_positive la lb lc ca cb cg sg Ha Hb Hs Hr))))).
Qed.
Print Assumptions standard_orientation.

(* the radicand under the square root is the Gram determinant: the construction is defined exactly for the angle
   triples satisfying the positivity condition *)
Theorem valid_cell_iff_gram_positive : forall lc ca cb cg sg,
  0 < lc -> 0 < sg -> sg * sg + cg * cg = 1 -> (0 < radicand lc ca cb cg sg <-> 0 < gram ca cb cg).
Proof. exact radicand_pos_iff. Qed.
Print Assumptions valid_cell_iff_gram_positive.

(* ---- volumes: np.linalg.det of the row matrix is the triple product; closed form of its square *)
Theorem volume_is_triple : forall a b c, det3 a b c = dot a (cross b c).
Proof. exact det_is_triple. Qed.
Print Assumptions volume_is_triple.

Theorem volume_closed_form : forall la lb lc ca cb cg sg,
  0 < lb -> 0 < sg -> sg * sg + cg * cg = 1 -> 0 <= radicand lc ca cb cg sg ->
  let '(va, vb, vc) := to_vectors la lb lc ca cb cg sg in
  det3 va vb vc * det3 va vb vc = (la * lb * lc) * (la * lb * lc) * gram ca cb cg.
Proof. intros la lb lc ca cb cg sg. exact (volume_squared la lb lc ca cb cg sg). Qed.
Print Assumptions volume_closed_form.

(* ---- what unitcell_volumes returns (np.linalg.det of the reported row matrix) is positive exactly when the angle triple
        satisfies the Gram condition of valid_cell_iff_gram_positive, and then it is la lb lc sqrt(gram).
        _check_valid_unitcell itself only demands lengths and angles both present and non-negative (histories:
        half_set_cell_needs_part_assignment); a triple with non-positive Gram determinant passes it and gets volume 0 *)
Theorem volume_positive_iff_gram_positive : forall la lb lc ca cb cg sg,
  0 < la -> 0 < lb -> 0 < lc -> 0 < sg -> sg * sg + cg * cg = 1 ->
  let '(va, vb, vc) := to_vectors la lb lc ca cb cg sg in
  0 < det3 va vb vc <-> 0 < gram ca cb cg.
Proof. intros la lb lc ca cb cg sg. exact (volume_pos_iff la lb lc ca cb cg sg). Qed.
Print Assumptions volume_positive_iff_gram_positive.

Theorem volume_is_lengths_times_sqrt_gram : forall la lb lc ca cb cg sg,
  0 < lb -> 0 < lc -> 0 < sg -> sg * sg + cg * cg = 1 -> 0 <= gram ca cb cg ->
  let '(va, vb, vc) := to_vectors la lb lc ca cb cg sg in
  det3 va vb vc = la * lb * lc * sqrt (gram ca cb cg).
Proof. intros la lb lc ca cb cg sg. exact (volume_formula la lb lc ca cb cg sg). Qed.
Print Assumptions volume_is_lengths_times_sqrt_gram.

(* ---- reading the vectors back: the stored lengths, and each named angle separately *)
Theorem roundtrip_lengths_and_named_angles : forall la lb lc ca cb cg sg,
  0 < la -> 0 < lb -> 0 < lc -> 0 < sg -> sg * sg + cg * cg = 1 -> 0 <= radicand lc ca cb cg sg ->
  let '(va, vb, vc) := to_vectors la lb lc ca cb cg sg in
  from_vectors va vb vc = ((la, lb, lc), (ca, cb, cg)).
Proof. intros la lb lc ca cb cg sg. exact (MD.Cell.Proofs.roundtrip la lb lc ca cb cg sg). Qed.
Print Assumptions roundtrip_lengths_and_named_angles.

Theorem angle_naming : forall a b c,
  from_vectors a b c =
  ((sqrt (dot a a), sqrt (dot b b), sqrt (dot c c)), (cos_between b c, cos_between c a, cos_between a b)).
Proof. exact from_vectors_convention. Qed.
Print Assumptions angle_naming.

(* ---- any rotated description of a cell reads back the same lengths, angles and volume *)
Theorem rotated_description_same_cell : forall m a b c,
  orthogonal m -> from_vectors (mapply m a) (mapply m b) (mapply m c) = from_vectors a b c.
Proof. exact rotated_same_cell. Qed.
Print Assumptions rotated_description_same_cell.

Theorem rotated_description_same_volume : forall m a b c,
  mdet m = 1 -> det3 (mapply m a) (mapply m b) (mapply m c) = det3 a b c.
Proof. exact rotated_same_volume. Qed.
Print Assumptions rotated_description_same_volume.

(* ---- the 1e-6 snap perturbs a component by less than 1e-6 and keeps exact zeros and larger components *)
Theorem snap_bounded : forall x, Rabs (snap x - x) < gen_snap_tol.
Proof. exact snap_close. Qed.
Print Assumptions snap_bounded.

Theorem snap_keeps_large : forall x, gen_snap_tol <= Rabs x -> snap x = x.
Proof. exact snap_keeps. Qed.
Print Assumptions snap_keeps_large.

(* ---- the same polynomial identities over Z (no axioms) *)
Theorem dot_rot_Z : forall m x y,
  zdot (zcol m 0) (zcol m 0) = 1%Z -> zdot (zcol m 1) (zcol m 1) = 1%Z -> zdot (zcol m 2) (zcol m 2) = 1%Z ->
  zdot (zcol m 0) (zcol m 1) = 0%Z -> zdot (zcol m 0) (zcol m 2) = 0%Z -> zdot (zcol m 1) (zcol m 2) = 0%Z ->
  zdot (zapply m x) (zapply m y) = zdot x y.
Proof. exact zdot_rot. Qed.
Print Assumptions dot_rot_Z.

Theorem volume_is_triple_Z : forall a b c, zdet3 a b c = zdot a (zcross b c).
Proof. exact zdet_is_triple. Qed.
Print Assumptions volume_is_triple_Z.

Theorem det_multiplicative_Z : forall m a b c,
  zdet3 (zapply m a) (zapply m b) (zapply m c) = ((let '(r1, r2, r3) := m in zdet3 r1 r2 r3) * zdet3 a b c)%Z.
Proof. exact zdet_apply. Qed.
Print Assumptions det_multiplicative_Z.

Theorem construction_identities_Z : forall la lb lc ca cb cg sg cy cz2 : Z,
  (sg * sg + cg * cg = 1 -> cy * sg = lc * (ca - cb * cg) -> cz2 = lc * lc - (lc * cb) * (lc * cb) - cy * cy ->
   la * (lb * cg) = la * lb * cg /\ la * (lc * cb) = lc * la * cb /\
   (lb * cg) * (lb * cg) + (lb * sg) * (lb * sg) = lb * lb /\
   ((lb * cg) * (lc * cb) + (lb * sg) * cy) = lb * lc * ca /\
   (lc * cb) * (lc * cb) + cy * cy + cz2 = lc * lc /\
   sg * sg * cz2 = lc * lc * (1 - ca * ca - cb * cb - cg * cg + 2 * ca * cb * cg))%Z.
Proof. exact zconstruction. Qed.
Print Assumptions construction_identities_Z.

(* ---- histories: slicing, joining, stacking, atom subsetting give a complete cell exactly when the input had one *)
Theorem have_cell_iff : forall v w o w' r t,
  wf w -> structural_source o = Some r -> nth_error (trajs w) r = Some t -> step v w o = (w', ROk) ->
  exists t',
    (if is_inplace o then nth_error (trajs w') r = Some t' else trajs w' = trajs w ++ [t']) /\
    have_cell t' = have_cell t /\
    match o with
    | OSlice _ _ _ | OStack _ _ => is_some (ul t') = is_some (ul t) /\ is_some (ua t') = is_some (ua t)
    | OJoin _ _ _ _ | OMdJoin _ _ => complete_or_none t' = true
    | _ => if is_inplace o then ul t' = ul t /\ ua t' = ua t else complete_or_none t' = true
    end.
Proof. exact structural_have_cell. Qed.
Print Assumptions have_cell_iff.

Theorem join_refuses_mixed_cells : forall v w r others ct dis w' t os,
  wf w -> nth_error (trajs w) r = Some t -> get_all w others = Some os ->
  step v w (OJoin r others ct dis) = (w', ROk) ->
  forallb (fun o => Bool.eqb (have_cell t) (have_cell o)) os = true.
Proof. exact join_operands_agree. Qed.
Print Assumptions join_refuses_mixed_cells.

(* ---- per-frame completeness: after ANY history of the operation alphabet (slice, join, md.join, stack, atom_slice, remove_solvent,
        the setters, ...; xyz assignments that keep the number of frames, the one assignment mdtraj does not check) every
        trajectory's stored lengths and angles have exactly one row per frame *)
Theorem cell_has_one_row_per_frame_after_any_history : forall v sps ops,
  guarded xyz_guard v (init_world sps) ops = true ->
  Forall cell_rows_per_frame (trajs (fst (run v (init_world sps) ops))).
Proof. exact per_frame_cell_after_any_history. Qed.
Print Assumptions cell_has_one_row_per_frame_after_any_history.

(* ---- the getters are observers: in the model no derived cell quantity is stored, so whatever is read between two
        assignments, the next read is computed from the stored lengths and angles of that moment (the runs interleave reads of
        vectors / volumes / lengths / angles / periodic distances with single-field assignments and compare after every step) *)
Theorem reading_the_cell_changes_nothing : forall v w r w' x, step v w (OReadCell r) = (w', x) -> w' = w.
Proof. exact read_cell_pure. Qed.
Print Assumptions reading_the_cell_changes_nothing.

(* ---- half-set cells (lengths without angles or the reverse): after ANY history without a part assignment no
        trajectory has one; the three part assignments that create them; slice/stack keep them, join/atom_slice drop them *)
Theorem half_set_cell_needs_part_assignment : forall v sps ops,
  forallb (fun o => negb (part_assignment o)) ops = true ->
  all_complete (fst (run v (init_world sps) ops)).
Proof. intros v sps ops H. exact (run_complete v ops _ (init_wf sps) (init_complete sps) H). Qed.
Print Assumptions half_set_cell_needs_part_assignment.

Theorem half_set_cell_witnesses :
  reg_state (fst (run v_fix (init_world specs_cell) [OSetAngles 0 None])) 0 = Some (true, false) /\
  reg_state (fst (run v_fix (init_world specs_cell) [OSetLengths 1 (Some 3%nat)])) 1 = Some (true, false) /\
  reg_state (fst (run v_fix (init_world specs_cell) [OSetLengths 0 None])) 0 = Some (false, true) /\
  (let w := fst (run v_fix (init_world specs_cell)
                  [OSetAngles 0 None; OSlice 0 (KSlice (Some 1%Z) None None) true; OStack 0 1; OSetAngles 1 None;
                   OJoin 0 [0%nat] true false; OAtomSlice 0 [0%Z] false]) in
   reg_state w 2 = Some (true, false) /\ reg_state w 3 = Some (true, false) /\
   reg_state w 4 = Some (false, false) /\ reg_state w 5 = Some (false, false)).
Proof. exact half_set_witnesses. Qed.
Print Assumptions half_set_cell_witnesses.

(* ---- saving and loading: what each writable format carries (table MD.Cell.Formats.format_table, pinned against
        Trajectory._savers / save_* by MD.Gen.CellFormats on every run).  For every format that has a place for a cell:
        if the writer accepts the trajectory, the loaded one has a complete per-frame cell exactly when the saved one
        had; the writers refuse exactly in the two documented situations; the formats without a place for a cell
        (.xyz, .xyz.gz, .lh5) drop it.  [roundtrip] has no argument for the save options (force_overwrite, header, ter,
        bfactors, precision, mode): none of them may change the outcome; MD.Gen.CellFormats.saver_options_known pins that
        list against the save_* signatures and the runs switch each option away from its default *)
Theorem save_load_have_cell_iff : forall k have rect h,
  k <> NoCell -> roundtrip k have rect = Some h -> h = have.
Proof. exact roundtrip_iff. Qed.
Print Assumptions save_load_have_cell_iff.

Theorem save_refuses_exactly : forall k have rect,
  roundtrip k have rect = None <->
  (k = RequiresCell /\ have = false) \/ (k = RectilinearOnly /\ have = true /\ rect = false).
Proof. exact roundtrip_refuses. Qed.
Print Assumptions save_refuses_exactly.

(* the box-vector formats (.xtc, .trr, .gro) write "no cell" as zeros and rely on the unitcell_vectors setter of the
   trajectory model when loading *)
Theorem zero_box_formats_use_the_vectors_setter : forall v w r t m zero w',
  nth_error (trajs w) r = Some t -> m = nframes t -> (0 < m)%nat ->
  step v w (OSetVectors r (Some m) zero) = (w', ROk) ->
  exists t', nth_error (trajs w') r = Some t' /\ have_cell t' = negb zero /\ complete_or_none t' = true.
Proof. exact load_through_vectors_setter. Qed.
Print Assumptions zero_box_formats_use_the_vectors_setter.

(* ======================================================================================================================
   Second layer (MD.Cell.Frames): the angles themselves in degrees (Coq's cos, sin, acos), every valid cell, both
   directions, the tilt factors, the snap, and the per-frame glue of the Trajectory getters and setters.
   valid_cell (la, lb, lc) (alpha, beta, gamma): positive lengths, 0 < angle < 180, positive Gram determinant.
   ====================================================================================================================== *)

(* ---- the positivity condition on the cosines IS the triangle condition on the angles *)
Theorem gram_is_a_product_of_four_sines : forall A B C,
  gram (cos A) (cos B) (cos C) =
  4 * (sin ((A + B + C) / 2) * sin ((B + C - A) / 2)) * (sin ((C + A - B) / 2) * sin ((A + B - C) / 2)).
Proof. exact gram_factorisation. Qed.
Print Assumptions gram_is_a_product_of_four_sines.

Theorem positivity_condition_is_triangle_condition : forall alpha beta gamma,
  angle_ok alpha -> angle_ok beta -> angle_ok gamma ->
  (0 < gram_deg alpha beta gamma <-> triangle_condition alpha beta gamma).
Proof. exact gram_pos_iff_triangle. Qed.
Print Assumptions positivity_condition_is_triangle_condition.

(* ---- for EVERY valid cell, in degrees: stored lengths and angles, standard orientation, volume, round trip *)
Theorem valid_cell_vectors_have_lengths_and_angles : forall la lb lc alpha beta gamma,
  valid_cell (la, lb, lc) (alpha, beta, gamma) ->
  let '(va, vb, vc) := to_vectors_deg la lb lc alpha beta gamma in
  dot va va = la * la /\ dot vb vb = lb * lb /\ dot vc vc = lc * lc /\
  dot vb vc = lb * lc * cos (deg2rad alpha) /\ dot vc va = lc * la * cos (deg2rad beta) /\
  dot va vb = la * lb * cos (deg2rad gamma).
Proof. exact deg_vectors_gram. Qed.
Print Assumptions valid_cell_vectors_have_lengths_and_angles.

Theorem valid_cell_standard_orientation_and_volume : forall la lb lc alpha beta gamma,
  valid_cell (la, lb, lc) (alpha, beta, gamma) ->
  let '(va, vb, vc) := to_vectors_deg la lb lc alpha beta gamma in
  (va = (la, 0, 0) /\ snd vb = 0 /\ 0 < snd (fst vb) /\ 0 < snd vc /\ 0 < det3 va vb vc) /\
  det3 va vb vc = la * lb * lc * sqrt (gram_deg alpha beta gamma).
Proof. exact deg_orientation_volume. Qed.
Print Assumptions valid_cell_standard_orientation_and_volume.


Theorem valid_cell_roundtrip_in_degrees : forall la lb lc alpha beta gamma,
  valid_cell (la, lb, lc) (alpha, beta, gamma) ->
  let '(va, vb, vc) := to_vectors_deg la lb lc alpha beta gamma in
  from_vectors_deg va vb vc = ((la, lb, lc), (alpha, beta, gamma)).
Proof. exact deg_roundtrip. Qed.
Print Assumptions valid_cell_roundtrip_in_degrees.

Theorem reported_angles_lie_in_0_180 : forall c, 0 <= rad2deg (acos c) <= 180.
Proof. exact reported_angle_range. Qed.
Print Assumptions reported_angles_lie_in_0_180.

(* ---- the other direction: ANY three independent vectors (any orientation, either handedness) assigned to one frame give
        a valid stored cell whose reported vectors have the same six dot products, volume |det|, and lie in the standard
        orientation; a description already in the standard orientation is returned unchanged *)
Theorem square_of_volume_is_gram_determinant : forall a b c,
  det3 a b c * det3 a b c =
  dot a a * dot b b * dot c c - dot a a * (dot b c * dot b c) - dot b b * (dot c a * dot c a) - dot c c * (dot a b * dot a b)
  + 2 * (dot a b * dot b c * dot c a).
Proof. exact gram_det. Qed.
Print Assumptions square_of_volume_is_gram_determinant.

Theorem any_independent_description_same_cell : forall m,
  volume_frame m <> 0 ->
  let '(l, a) := setter_frame m in
  valid_cell l a /\ same_gram (getter_frame_exact l a) m /\
  volume_frame (getter_frame_exact l a) = Rabs (volume_frame m) /\ std_oriented (getter_frame_exact l a).
Proof. exact frame_inverse. Qed.
Print Assumptions any_independent_description_same_cell.

Theorem standard_description_is_returned_unchanged :
  (forall a b c, std_oriented (a, b, c) ->
     let '((x, y, z), (al, be, ga)) := from_vectors_deg a b c in to_vectors_deg x y z al be ga = (a, b, c)) /\
  (* two standard-orientation descriptions with the same six dot products are equal *)
  (forall m n, std_oriented m -> std_oriented n -> same_gram m n -> m = n).
Proof. exact (conj std_roundtrip std_unique). Qed.
Print Assumptions standard_description_is_returned_unchanged.


(* ---- tilt factors (lx, ly, lz, xy, xz, yz) are the components (a_x, b_y, c_z, b_x, c_x, c_y) of the box vectors *)
Theorem tilt_factors_are_vector_components : forall la lb lc alpha beta gamma,
  0 < lb -> angle_ok gamma ->
  let '((ax, _, _), (bx, by_, _), (cx, cy, cz)) := to_vectors_deg la lb lc alpha beta gamma in
  tilt_factors_deg la lb lc alpha beta gamma = (ax, by_, cz, bx, cx, cy).
Proof. exact tilt_matches_vectors_deg. Qed.
Print Assumptions tilt_factors_are_vector_components.

(* ---- the 1e-6 snap: every dot product moves by at most 1e-6 (|u|_1 + |v|_1); with diagonal entries of at least 1e-6 the
        reported (snapped) frame is still in the standard orientation and its volume is exactly la lb lc sqrt(gram) *)
Theorem snap_moves_dot_products_by_at_most : forall u v,
  Rabs (dot (snap_vec u) (snap_vec v) - dot u v) <= gen_snap_tol * (norm1 u + norm1 v).
Proof. exact snap_dot_bound. Qed.
Print Assumptions snap_moves_dot_products_by_at_most.

Theorem reported_frame_volume_and_orientation : forall la lb lc alpha beta gamma,
  valid_cell (la, lb, lc) (alpha, beta, gamma) ->
  (let '((a1, _, _), (_, b2, _), (_, _, c3)) := getter_frame_exact (la, lb, lc) (alpha, beta, gamma) in
   gen_snap_tol <= a1 /\ gen_snap_tol <= b2 /\ gen_snap_tol <= c3) ->
  volume_frame (getter_frame (la, lb, lc) (alpha, beta, gamma)) = la * lb * lc * sqrt (gram_deg alpha beta gamma) /\
  std_oriented (getter_frame (la, lb, lc) (alpha, beta, gamma)).
Proof. exact frame_volume. Qed.
Print Assumptions reported_frame_volume_and_orientation.

(* ---- the Trajectory glue (regenerated from trajectory.py): columns and rows reach the arguments of the same name *)
Theorem trajectory_glue_keeps_names :
  (forall la lb lc alpha beta gamma,
     getter_frame_exact (la, lb, lc) (alpha, beta, gamma) = to_vectors_deg la lb lc alpha beta gamma) /\
  (forall a b c, setter_frame (a, b, c) = from_vectors_deg a b c).
Proof. exact (conj glue_getter glue_setter). Qed.
Print Assumptions trajectory_glue_keeps_names.

(* one frame: whatever orthogonal re-description (rotation or mirror image) of a valid cell is assigned, exactly the
   stored lengths and angles come back *)
Theorem frame_roundtrip_through_any_redescription : forall r l a,
  orthogonal r -> valid_cell l a -> setter_frame (rotate r (getter_frame_exact l a)) = (l, a).
Proof. exact frame_rotated_roundtrip. Qed.
Print Assumptions frame_roundtrip_through_any_redescription.

(* all frames, each with its own re-description: the unitcell_vectors setter stores exactly the described cells
   (hypothesis on the first length: the description must not be mistaken for the all-zero "no cell" matrix) *)
Theorem assigning_described_cells_stores_them : forall s rs cells out,
  length rs = length cells -> length cells = n_frames s -> Forall orthogonal rs ->
  Forall (fun c => valid_cell (fst c) (snd c)) cells ->
  (exists l a cells', cells = (l, a) :: cells' /\ 3 * (gen_zero_tol * gen_zero_tol) <= (fst (fst l)) * (fst (fst l))) ->
  set_vectors s (Some (describe rs cells)) out ->
  out = Val (mkCell (n_frames s) (Some (map fst cells)) (Some (map snd cells))).
Proof. exact set_described_vectors. Qed.
Print Assumptions assigning_described_cells_stores_them.

Theorem vectors_setter_complete_or_empty_per_frame : forall s arg s',
  set_vectors s arg (Val s') ->
  n_frames s' = n_frames s /\ per_frame s' /\ (lengths s' = None <-> angles s' = None).
Proof. exact set_vectors_complete. Qed.
Print Assumptions vectors_setter_complete_or_empty_per_frame.

Theorem only_none_or_all_zero_vectors_remove_the_cell :
  (forall s out, set_vectors s None out -> out = Val (mkCell (n_frames s) None None)) /\
  (forall s ms s', set_vectors s (Some ms) (Val s') -> (lengths s' = None /\ angles s' = None <-> all_tiny ms)) /\
  (forall m, (let '(a, _, _) := m in 3 * (gen_zero_tol * gen_zero_tol) <= dot a a) -> ~ tiny_mat m) /\
  gen_zero_tol <= / 1000000000000.
Proof. exact (conj set_vectors_none (conj set_vectors_removes_iff (conj not_tiny_of_norm zero_tol_small))). Qed.
Print Assumptions only_none_or_all_zero_vectors_remove_the_cell.

(* ---- unitcell_vectors / unitcell_volumes over all frames *)
Theorem vectors_reported_iff_complete_cell_one_matrix_per_frame :
  (forall s, (exists ms, get_vectors s = Some ms) <-> have_unitcell s) /\
  (forall s ms, per_frame s -> get_vectors s = Some ms -> length ms = n_frames s).
Proof. exact (conj get_vectors_some_iff get_vectors_per_frame). Qed.
Print Assumptions vectors_reported_iff_complete_cell_one_matrix_per_frame.


Theorem volumes_are_triple_products_frame_by_frame :
  (forall s vs, get_volumes s = Val (Some vs) ->
     exists ms, get_vectors s = Some ms /\ vs = map (fun m => let '(a, b, c) := m in dot a (cross b c)) ms) /\
  (forall s, (lengths s = None -> get_volumes s = Val None) /\
             (lengths s <> None -> angles s = None -> get_volumes s = ErrType) /\
             (have_unitcell s -> exists vs, get_volumes s = Val (Some vs))) /\
  (* the computable table the runs compare the implementation with says what the getter does *)
  (forall s (hl ha : bool), (hl = true <-> lengths s <> None) -> (ha = true <-> angles s <> None) ->
     match get_volumes s with
     | Val None => volumes_code hl ha = 0%nat
     | Val (Some _) => volumes_code hl ha = 4%nat
     | ErrType => volumes_code hl ha = 3%nat
     | _ => False
     end).
Proof. exact (conj volumes_are_triple_products (conj volumes_outcomes volumes_code_spec)). Qed.
Print Assumptions volumes_are_triple_products_frame_by_frame.


(* ---- _check_valid_unitcell: valid cells pass; half-set cells are refused; passing does NOT imply the triangle condition *)
Theorem check_valid_passes_valid_cells_refuses_half_set_ones :
  (forall s cells, lengths s = Some (map fst cells) -> angles s = Some (map snd cells) ->
     Forall (fun c => valid_cell (fst c) (snd c)) cells -> check_valid s (Val tt)) /\
  (forall s out, (lengths s = None <-> angles s <> None) -> check_valid s out -> out = ErrAttribute) /\
  (forall s, check_valid s (Val tt) ->
     (lengths s = None /\ angles s = None) \/
     (exists l a, lengths s = Some l /\ angles s = Some a /\ ~ Exists neg_vec l /\ ~ Exists neg_vec a)).
Proof. exact (conj check_valid_passes_valid_cells (conj check_valid_half_set check_valid_ok_means)). Qed.
Print Assumptions check_valid_passes_valid_cells_refuses_half_set_ones.



Theorem check_valid_accepts_angles_no_cell_can_have :
  check_valid (mkCell 1 (Some [(3, 4, 5)]) (Some [(100, 100, 170)])) (Val tt) /\ ~ triangle_condition 100 100 170.
Proof. exact check_valid_accepts_impossible_angles. Qed.
Print Assumptions check_valid_accepts_angles_no_cell_can_have.

(* ---- the computable guard tables the runs compare the implementation with say what the relations say *)
Theorem check_valid_table_is_the_relation : forall s out (hl ha nl na : bool),
  (hl = true <-> lengths s <> None) -> (ha = true <-> angles s <> None) ->
  (nl = true <-> exists l, lengths s = Some l /\ Exists neg_vec l) ->
  (na = true <-> exists a, angles s = Some a /\ Exists neg_vec a) ->
  check_valid s out -> outcome_code out = check_valid_code hl ha nl na.
Proof. exact check_valid_code_spec. Qed.
Print Assumptions check_valid_table_is_the_relation.


(* ---- non-vacuity of the hypotheses of the second layer *)
Example a_valid_cell_an_independent_description_an_orthogonal_matrix :
  valid_cell (3, 4, 5) (70, 80, 100) /\ det3 (0, 3, 0) (4, 1, 0) (1, 1, 5) <> 0 /\ orthogonal identity_mat /\
  3 * (gen_zero_tol * gen_zero_tol) <= 3 * 3.
Proof. exact (conj example_valid_cell (conj example_independent (conj identity_orthogonal example_not_tiny))). Qed.
Print Assumptions a_valid_cell_an_independent_description_an_orthogonal_matrix.



(* ---- non-vacuity of the hypotheses of the real-number theorems: a cell with three different angles *)
Example valid_cell_exists :
  0 < (4 / 5) /\ (4 / 5) * (4 / 5) + (3 / 5) * (3 / 5) = 1 /\ 0 < gram (1 / 5) (1 / 4) (3 / 5).
Proof. exact example_cell. Qed.
Print Assumptions valid_cell_exists.
