(* C05 — periodic distances and displacements are true minimum-image values.
   Only statements, closed by [exact]/[apply] of lemmas from PBC/Proofs.v, and Print Assumptions.
   Units: every number is an integer in a common dyadic unit (float32 values are dyadic rationals);
   lengths are compared as squared norms.  Float32 rounding inside the kernels is outside these
   theorems (bounded by the correspondence run).  Cells are in mdtraj's standard orientation
   (a along x, b in the xy plane: [lower_tri_pos]). *)
From Coq Require Import ZArith List Bool Lia.
Import ListNotations.
Require Import MD.PBC.Model MD.PBC.Rounding MD.PBC.Proofs MD.PBC.GenTie MD.PBC.Check MD.PBC.CheckSound.
Open Scope Z_scope.

(* the four rounding rules found in the code (roundf, floorf(x+.5), the SSE round, python round) all
   leave a remainder of at most half the divisor *)
Theorem rounding_modes_round : forall m, is_rounding (rnd m).
Proof. exact rnd_rounding. Qed.
Print Assumptions rounding_modes_round.

(* ---- orthorhombic cells *)
Theorem ortho_congruent : forall B r, ortho_pos B ->
  path_disp POrthoSSE B r = vadd r (comb B (path_coef POrthoSSE B r)).
Proof. intros B r H. exact (Proofs.ortho_congruent rnd_htz B r H). Qed.
Print Assumptions ortho_congruent.

(* for EVERY separation the result is no longer than any image, on all four periodic code paths *)
Theorem ortho_minimal : forall p B r n, p <> PPlain -> ortho_pos B ->
  norm2 (path_disp p B r) <= norm2 (vadd r (comb B n)).
Proof. exact ortho_minimal_all_paths. Qed.
Print Assumptions ortho_minimal.

(* ---- box reduction *)
Theorem reduce_same_lattice : forall rn B v,
  (exists n, v = comb B n) <-> (exists n, v = comb (reduce rn B) n).
Proof. exact Proofs.reduce_same_lattice. Qed.
Print Assumptions reduce_same_lattice.

Theorem reduce_keeps_diag : forall rn B, lower_tri_pos B ->
  lower_tri_pos (reduce rn B) /\
  vx (ba (reduce rn B)) = vx (ba B) /\ vy (bb (reduce rn B)) = vy (bb B) /\ vz (bc (reduce rn B)) = vz (bc B).
Proof. exact reduce_keeps_shape. Qed.
Print Assumptions reduce_keeps_diag.

(* ---- triclinic cells, every code path: result = plain difference + integer combination of the
   ORIGINAL cell vectors, with the coefficients the model computes *)
Theorem tric_congruent : forall p B r, (p = POrthoSSE -> ortho_pos B) ->
  path_disp p B r = vadd r (comb B (path_coef p B r)).
Proof. exact all_paths_congruent. Qed.
Print Assumptions tric_congruent.

(* hence never below the smallest image distance *)
Theorem tric_never_below : forall p B r m, (p = POrthoSSE -> ortho_pos B) ->
  (forall n, m <= norm2 (vadd r (comb B n))) -> m <= norm2 (path_disp p B r).
Proof. intros p B r m Hp Hm. rewrite (all_paths_congruent p B r Hp). apply Hm. Qed.
Print Assumptions tric_never_below.

(* each cell width V/|b x c|, V/|c x a|, V/|a x b| is at most the diagonal entry a_x, b_y, c_z *)
Theorem width_le_diag : forall B, lower_tri_pos B ->
  vol B = vx (ba B) * vy (bb B) * vz (bc B) /\
  vol B * vol B <= (vx (ba B) * vx (ba B)) * norm2 (cross (bb B) (bc B)) /\
  vol B * vol B <= (vy (bb B) * vy (bb B)) * norm2 (cross (bc B) (ba B)) /\
  vol B * vol B = (vz (bc B) * vz (bc B)) * norm2 (cross (ba B) (bb B)).
Proof. exact Proofs.width_le_diag. Qed.
Print Assumptions width_le_diag.

(* the region the sequential wrap maps into is a fundamental domain *)
Theorem wrap_unique : forall B w1 w2 n, lower_tri_pos B -> strict_region B w1 -> strict_region B w2 ->
  w1 = vadd w2 (comb B n) -> w1 = w2.
Proof. exact Proofs.wrap_unique. Qed.
Print Assumptions wrap_unique.

Theorem wrap_lands_in_region : forall m B r, lower_tri_pos B -> in_region B (wrap (rnd m) B r).
Proof. intros m B r HB. apply wrap_in_region; [apply rnd_rounding | exact HB]. Qed.
Print Assumptions wrap_lands_in_region.

(* the result of the 27-image search is one of the 27 candidates and no longer than any of them *)
Theorem search27_best : forall B w,
  (exists c, argmin_last (cands B w) = Some c /\ In c (cands B w) /\
             forall o, In o offsets27 -> norm2 (snd c) <= norm2 (vadd w (comb B o))) /\
  (let c := argmin_first (vzero, w) (cands B w) in
   In (fst c) offsets27 /\ snd c = vadd w (comb B (fst c)) /\
   forall o, In o offsets27 -> norm2 (snd c) <= norm2 (vadd w (comb B o))).
Proof. intros B w. split; [apply search27_last | apply search27_first]. Qed.
Print Assumptions search27_best.

(* MAIN: if some image v of the separation is shorter than half of every cell width, the triclinic
   code (C++ and numpy) returns exactly v and v is the shortest of ALL images *)
Theorem tric_minimal_halfwidth : forall p B r n, p = PTricCpp \/ p = PTricNp -> lower_tri_pos B ->
  let v := vadd r (comb B n) in
  below_half_widths B v ->
  path_disp p B r = v /\ forall n', norm2 v <= norm2 (vadd r (comb B n')).
Proof. exact tric_paths_minimal_halfwidth. Qed.
Print Assumptions tric_minimal_halfwidth.

(* the standard-orientation hypothesis of tric_minimal_halfwidth cannot be dropped: a cubic cell rotated about z
   (positive diagonal, positive volume) makes the triclinic code return a non-minimal image although the minimum
   is below half of every cell width.  Only compute_distances_core accepts such a cell (a Trajectory always
   regenerates its vectors in standard orientation); known finding C05-core-nonstandard-orientation. *)
Theorem minimal_halfwidth_nonstandard_orientation_refuted :
  exists B r n, diag_posb B = true /\ lower_trib B = false /\ 0 < vol B /\
    below_half_widths B (vadd r (comb B n)) /\
    norm2 (vadd r (comb B n)) < norm2 (path_disp PTricCpp B r) /\
    path_disp PTricCpp B r = vadd r (comb B (path_coef PTricCpp B r)).
Proof. exact nonstandard_orientation_counterexample. Qed.
Print Assumptions minimal_halfwidth_nonstandard_orientation_refuted.

(* without a cell or with periodic=False: the plain difference *)
Theorem nopbc_plain : forall opt boxes r B,
  path_disp (dispatch opt false boxes) B r = r /\ path_disp (dispatch opt true None) B r = r.
Proof. exact Proofs.nopbc_plain. Qed.
Print Assumptions nopbc_plain.

(* optimised and reference paths: same distance when no rounding tie occurs; same displacement when,
   in addition, the shortest of the 27 candidates is unique *)
Theorem paths_agree : forall B r, lower_tri_pos B -> tie_free rnd_haz B r ->
  norm2 (path_disp PTricCpp B r) = norm2 (path_disp PTricNp B r) /\
  ((forall o1 o2, In o1 offsets27 -> In o2 offsets27 ->
      let w := wrap rnd_haz (reduce rnd_haz B) r in let B' := reduce rnd_haz B in
      norm2 (vadd w (comb B' o1)) = norm2 (vadd w (comb B' o2)) ->
      (forall o, In o offsets27 -> norm2 (vadd w (comb B' o1)) <= norm2 (vadd w (comb B' o))) -> o1 = o2) ->
   path_disp PTricCpp B r = path_disp PTricNp B r).
Proof. exact tric_paths_agree. Qed.
Print Assumptions paths_agree.

Theorem ortho_paths_agree : forall B r, ortho_pos B ->
  norm2 (path_disp POrthoSSE B r) = norm2 (path_disp POrthoNp B r) /\
  norm2 (path_disp POrthoSSE B r) = norm2 (path_disp PTricCpp B r) /\
  norm2 (path_disp POrthoSSE B r) = norm2 (path_disp PTricNp B r).
Proof. exact Proofs.ortho_paths_agree. Qed.
Print Assumptions ortho_paths_agree.

(* moving either atom by any lattice vector leaves the result unchanged (tie-free hypothesis:
   the wrapped vector is not on the boundary of the wrap region) *)
Theorem shift_invariant : forall p B r t,
  match p with
  | PPlain => True
  | POrthoSSE => ortho_pos B -> strict_region B (path_disp p B r) -> path_disp p B (vadd r (comb B t)) = path_disp p B r
  | _ => lower_tri_pos B ->
         strict_region (reduce (rmode_of_path p) B) (wrap (rmode_of_path p) (reduce (rmode_of_path p) B) r) ->
         path_disp p B (vadd r (comb B t)) = path_disp p B r
  end.
Proof. exact all_paths_shift_invariant. Qed.
Print Assumptions shift_invariant.

(* find_closest_contact wraps on the unreduced cell without an image search: in the half-width range
   that is already the minimum image *)
Theorem closest_contact_halfwidth : forall B d n, lower_tri_pos B ->
  let v := vadd d (comb B n) in below_half_widths B v -> fcc_disp B d = v.
Proof. exact fcc_minimal_halfwidth. Qed.
Print Assumptions closest_contact_halfwidth.

(* distance.py passes box.transpose(0,2,1); the kernel's column reads give back the rows a, b, c *)
Theorem kernel_reads_rows : forall B,
  kernel_box tric_idx1 tric_idx2 tric_idx3 (transpose9 (box_to_mat B)) = B.
Proof. exact Proofs.kernel_reads_rows. Qed.
Print Assumptions kernel_reads_rows.

(* compute_distances_t: the entry for time pair (t1,t2) and atom pair (p1,p2) is the path's result on
   xyz[t2][p2] - xyz[t1][p1] with the cell of frame t1 *)
Theorem distances_t_entry : forall opt periodic xyz boxes pairs times out i j t pr f1 f2 B x1 x2,
  displacements_t opt periodic xyz boxes pairs times = Some out ->
  nth_error times i = Some t -> nth_error pairs j = Some pr ->
  nth_error xyz (fst t) = Some f1 -> nth_error xyz (snd t) = Some f2 -> box_at boxes (fst t) = Some B ->
  nth_error f1 (fst pr) = Some x1 -> nth_error f2 (snd pr) = Some x2 ->
  exists row, nth_error out i = Some row /\
    nth_error row j = Some (path_disp (dispatch opt periodic boxes) B
                              (if opt then vsub x2 x1 else vneg (vsub x2 x1))).
Proof. exact displacements_t_entry. Qed.
Print Assumptions distances_t_entry.

(* ---- the definitions regenerated from today's source text coincide with the model *)
Theorem source_matches_model : gen_tie_statement.
Proof. exact gen_tie. Qed.
Print Assumptions source_matches_model.

(* ---- the comparison evaluated by the correspondence run (PBC/Check.v) compares with the functions above:
   outside a tie of the box reduction, verdict 0 = "lattice shift equals path_coef" resp. "squared norm of
   path_disp lies in the interval derived from the reported float" *)
Theorem checker_compares_with_model : forall p G B r,
  reduce_tie G (reduce (rmode_of p) B) = false ->
  (forall n, shift_verdict p G B r n = 0 -> n = path_coef p B r) /\
  (forall lo hi, norm_verdict p G B r (lo, hi) = 0 -> lo <= norm2 (path_disp p B r) <= hi).
Proof.
  intros p G B r Ht. split; [intros n; apply shift_verdict_sound | intros lo hi; apply norm_verdict_sound]; exact Ht.
Qed.
Print Assumptions checker_compares_with_model.

(* ---- non-vacuity: a skewed, unreduced cell and a far-away separation satisfy every hypothesis used above *)
Example hypotheses_satisfiable :
  let B := mkbox (3072, 0, 0) (5120, 3000, 0) (-7000, 8100, 2900) in
  let r := (117204, -30050, -28940) in
  lower_tri_pos B /\ tie_free rnd_haz B r /\
  (exists n, below_half_widths B (vadd r (comb B n))) /\
  is_orthob B = false /\ path_disp PTricCpp B r = (100, -50, 60) /\ path_disp PTricNp B r = (100, -50, 60).
Proof. exact example_hyps. Qed.
Print Assumptions hypotheses_satisfiable.

Example ortho_hypotheses_satisfiable :
  let B := mkbox (3072, 0, 0) (0, 4000, 0) (0, 0, 2900) in
  ortho_pos B /\ strict_region B (path_disp POrthoSSE B (40000, -51234, 30011)).
Proof. exact example_ortho. Qed.
Print Assumptions ortho_hypotheses_satisfiable.
