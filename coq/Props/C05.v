(* C05 — periodic distances and displacements are true minimum-image values.
   Only statements, closed by [exact]/[apply] of lemmas from PBC/Proofs.v, and Print Assumptions.
   Units: every number is an integer in a common dyadic unit (float32 values are dyadic rationals);
   lengths are compared as squared norms.  Float32 rounding inside the kernels is outside these
   theorems (bounded by the correspondence run).  Cells are in mdtraj's standard orientation
   (a along x, b in the xy plane: [lower_tri_pos]). *)
From Coq Require Import ZArith List Bool Lia.
Import ListNotations.
Require Import MD.PBC.Model MD.PBC.Rounding MD.PBC.Proofs MD.PBC.GenTie MD.PBC.Check MD.PBC.CheckSound.
Require Import MD.PBC.Kernel MD.PBC.KernelProofs MD.PBC.KernelTie.
Open Scope Z_scope.

(* the four rounding rules found in the code (roundf, floorf(x+.5), the SSE round, python round) all
   leave a remainder of at most half the divisor *)
Theorem rounding_modes_round : forall m, is_rounding (rnd m).
Proof. exact rnd_rounding. Qed.
Print Assumptions rounding_modes_round.

(* ---- orthorhombic cells *)
Theorem ortho_congruent : forall B r, ortho_pos B ->
  path_disp POrthoSSE B r = vadd r (comb B (path_coef POrthoSSE B r)).
Proof. intros B r H. exact (Proofs.ortho_congruent rnd_htz B r H). Qed.
Print Assumptions ortho_congruent.

(* for EVERY separation the result is no longer than any image, on all four periodic code paths *)
Theorem ortho_minimal : forall p B r n, p <> PPlain -> ortho_pos B ->
  norm2 (path_disp p B r) <= norm2 (vadd r (comb B n)).
Proof. exact ortho_minimal_all_paths. Qed.
Print Assumptions ortho_minimal.

(* ---- box reduction *)
Theorem reduce_same_lattice : forall rn B v,
  (exists n, v = comb B n) <-> (exists n, v = comb (reduce rn B) n).
Proof. exact Proofs.reduce_same_lattice. Qed.
Print Assumptions reduce_same_lattice.

Theorem reduce_keeps_diag : forall rn B, lower_tri_pos B ->
  lower_tri_pos (reduce rn B) /\
  vx (ba (reduce rn B)) = vx (ba B) /\ vy (bb (reduce rn B)) = vy (bb B) /\ vz (bc (reduce rn B)) = vz (bc B).
Proof. exact reduce_keeps_shape. Qed.
Print Assumptions reduce_keeps_diag.

(* ---- triclinic cells, every code path: result = plain difference + integer combination of the
   ORIGINAL cell vectors, with the coefficients the model computes *)
Theorem tric_congruent : forall p B r, (p = POrthoSSE -> ortho_pos B) ->
  path_disp p B r = vadd r (comb B (path_coef p B r)).
Proof. exact all_paths_congruent. Qed.
Print Assumptions tric_congruent.

(* hence never below the smallest image distance *)
Theorem tric_never_below : forall p B r m, (p = POrthoSSE -> ortho_pos B) ->
  (forall n, m <= norm2 (vadd r (comb B n))) -> m <= norm2 (path_disp p B r).
Proof. intros p B r m Hp Hm. rewrite (all_paths_congruent p B r Hp). apply Hm. Qed.
Print Assumptions tric_never_below.

(* each cell width V/|b x c|, V/|c x a|, V/|a x b| is at most the diagonal entry a_x, b_y, c_z *)
Theorem width_le_diag : forall B, lower_tri_pos B ->
  vol B = vx (ba B) * vy (bb B) * vz (bc B) /\
  vol B * vol B <= (vx (ba B) * vx (ba B)) * norm2 (cross (bb B) (bc B)) /\
  vol B * vol B <= (vy (bb B) * vy (bb B)) * norm2 (cross (bc B) (ba B)) /\
  vol B * vol B = (vz (bc B) * vz (bc B)) * norm2 (cross (ba B) (bb B)).
Proof. exact Proofs.width_le_diag. Qed.
Print Assumptions width_le_diag.

(* the region the sequential wrap maps into is a fundamental domain *)
Theorem wrap_unique : forall B w1 w2 n, lower_tri_pos B -> strict_region B w1 -> strict_region B w2 ->
  w1 = vadd w2 (comb B n) -> w1 = w2.
Proof. exact Proofs.wrap_unique. Qed.
Print Assumptions wrap_unique.

Theorem wrap_lands_in_region : forall m B r, lower_tri_pos B -> in_region B (wrap (rnd m) B r).
Proof. intros m B r HB. apply wrap_in_region; [apply rnd_rounding | exact HB]. Qed.
Print Assumptions wrap_lands_in_region.

(* the result of the 27-image search is one of the 27 candidates and no longer than any of them *)
Theorem search27_best : forall B w,
  (exists c, argmin_last (cands B w) = Some c /\ In c (cands B w) /\
             forall o, In o offsets27 -> norm2 (snd c) <= norm2 (vadd w (comb B o))) /\
  (let c := argmin_first (vzero, w) (cands B w) in
   In (fst c) offsets27 /\ snd c = vadd w (comb B (fst c)) /\
   forall o, In o offsets27 -> norm2 (snd c) <= norm2 (vadd w (comb B o))).
Proof. intros B w. split; [apply search27_last | apply search27_first]. Qed.
Print Assumptions search27_best.

(* MAIN: if some image v of the separation is shorter than half of every cell width, the triclinic
   code (C++ and numpy) returns exactly v and v is the shortest of ALL images *)
Theorem tric_minimal_halfwidth : forall p B r n, p = PTricCpp \/ p = PTricNp -> lower_tri_pos B ->
  let v := vadd r (comb B n) in
  below_half_widths B v ->
  path_disp p B r = v /\ forall n', norm2 v <= norm2 (vadd r (comb B n')).
Proof. exact tric_paths_minimal_halfwidth. Qed.
Print Assumptions tric_minimal_halfwidth.

(* the standard-orientation hypothesis of tric_minimal_halfwidth cannot be dropped: a cubic cell rotated about z
   (positive diagonal, positive volume) makes the triclinic code return a non-minimal image although the minimum
   is below half of every cell width.  Only compute_distances_core accepts such a cell (a Trajectory always
   regenerates its vectors in standard orientation); known finding C05-core-nonstandard-orientation. *)
Theorem minimal_halfwidth_nonstandard_orientation_refuted :
  exists B r n, diag_posb B = true /\ lower_trib B = false /\ 0 < vol B /\
    below_half_widths B (vadd r (comb B n)) /\
    norm2 (vadd r (comb B n)) < norm2 (path_disp PTricCpp B r) /\
    path_disp PTricCpp B r = vadd r (comb B (path_coef PTricCpp B r)).
Proof. exact nonstandard_orientation_counterexample. Qed.
Print Assumptions minimal_halfwidth_nonstandard_orientation_refuted.

(* without a cell or with periodic=False: the plain difference *)
Theorem nopbc_plain : forall opt boxes r B,
  path_disp (dispatch opt false boxes) B r = r /\ path_disp (dispatch opt true None) B r = r.
Proof. exact Proofs.nopbc_plain. Qed.
Print Assumptions nopbc_plain.

(* optimised and reference paths: same distance when no rounding tie occurs; same displacement when,
   in addition, the shortest of the 27 candidates is unique *)
Theorem paths_agree : forall B r, lower_tri_pos B -> tie_free rnd_haz B r ->
  norm2 (path_disp PTricCpp B r) = norm2 (path_disp PTricNp B r) /\
  ((forall o1 o2, In o1 offsets27 -> In o2 offsets27 ->
      let w := wrap rnd_haz (reduce rnd_haz B) r in let B' := reduce rnd_haz B in
      norm2 (vadd w (comb B' o1)) = norm2 (vadd w (comb B' o2)) ->
      (forall o, In o offsets27 -> norm2 (vadd w (comb B' o1)) <= norm2 (vadd w (comb B' o))) -> o1 = o2) ->
   path_disp PTricCpp B r = path_disp PTricNp B r).
Proof. exact tric_paths_agree. Qed.
Print Assumptions paths_agree.

Theorem ortho_paths_agree : forall B r, ortho_pos B ->
  norm2 (path_disp POrthoSSE B r) = norm2 (path_disp POrthoNp B r) /\
  norm2 (path_disp POrthoSSE B r) = norm2 (path_disp PTricCpp B r) /\
  norm2 (path_disp POrthoSSE B r) = norm2 (path_disp PTricNp B r).
Proof. exact Proofs.ortho_paths_agree. Qed.
Print Assumptions ortho_paths_agree.

(* moving either atom by any lattice vector leaves the result unchanged (tie-free hypothesis:
   the wrapped vector is not on the boundary of the wrap region) *)
Theorem shift_invariant : forall p B r t,
  match p with
  | PPlain => True
  | POrthoSSE => ortho_pos B -> strict_region B (path_disp p B r) -> path_disp p B (vadd r (comb B t)) = path_disp p B r
  | _ => lower_tri_pos B ->
         strict_region (reduce (rmode_of_path p) B) (wrap (rmode_of_path p) (reduce (rmode_of_path p) B) r) ->
         path_disp p B (vadd r (comb B t)) = path_disp p B r
  end.
Proof. exact all_paths_shift_invariant. Qed.
Print Assumptions shift_invariant.

(* find_closest_contact wraps on the unreduced cell without an image search: in the half-width range
   that is already the minimum image *)
Theorem closest_contact_halfwidth : forall B d n, lower_tri_pos B ->
  let v := vadd d (comb B n) in below_half_widths B v -> fcc_disp B d = v.
Proof. exact fcc_minimal_halfwidth. Qed.
Print Assumptions closest_contact_halfwidth.

(* distance.py passes box.transpose(0,2,1); the kernel's column reads give back the rows a, b, c *)
Theorem kernel_reads_rows : forall B,
  kernel_box tric_idx1 tric_idx2 tric_idx3 (transpose9 (box_to_mat B)) = B.
Proof. exact Proofs.kernel_reads_rows. Qed.
Print Assumptions kernel_reads_rows.

(* compute_distances_t: the entry for time pair (t1,t2) and atom pair (p1,p2) is the path's result on
   xyz[t2][p2] - xyz[t1][p1] with the cell of frame t1 *)
Theorem distances_t_entry : forall opt periodic xyz boxes pairs times out i j t pr f1 f2 B x1 x2,
  displacements_t opt periodic xyz boxes pairs times = Some out ->
  nth_error times i = Some t -> nth_error pairs j = Some pr ->
  nth_error xyz (fst t) = Some f1 -> nth_error xyz (snd t) = Some f2 -> box_at boxes (fst t) = Some B ->
  nth_error f1 (fst pr) = Some x1 -> nth_error f2 (snd pr) = Some x2 ->
  exists row, nth_error out i = Some row /\
    nth_error row j = Some (path_disp (dispatch opt periodic boxes) B
                              (if opt then vsub x2 x1 else vneg (vsub x2 x1))).
Proof. exact displacements_t_entry. Qed.
Print Assumptions distances_t_entry.

(* ---- the definitions regenerated from today's source text coincide with the model *)
Theorem source_matches_model : gen_tie_statement.
Proof. exact gen_tie. Qed.
Print Assumptions source_matches_model.

(* ---- the comparison evaluated by the correspondence run (PBC/Check.v) compares with the functions above:
   outside a tie of the box reduction, verdict 0 = "lattice shift equals path_coef" resp. "squared norm of
   path_disp lies in the interval derived from the reported float" *)
Theorem checker_compares_with_model : forall p G B r,
  reduce_tie G (reduce (rmode_of p) B) = false ->
  (forall n, shift_verdict p G B r n = 0 -> n = path_coef p B r) /\
  (forall lo hi, norm_verdict p G B r (lo, hi) = 0 -> lo <= norm2 (path_disp p B r) <= hi).
Proof.
  intros p G B r Ht. split; [intros n; apply shift_verdict_sound | intros lo hi; apply norm_verdict_sound]; exact Ht.
Qed.
Print Assumptions checker_compares_with_model.

(* ---- non-vacuity: a skewed, unreduced cell and a far-away separation satisfy every hypothesis used above *)
Example hypotheses_satisfiable :
  let B := mkbox (3072, 0, 0) (5120, 3000, 0) (-7000, 8100, 2900) in
  let r := (117204, -30050, -28940) in
  lower_tri_pos B /\ tie_free rnd_haz B r /\
  (exists n, below_half_widths B (vadd r (comb B n))) /\
  is_orthob B = false /\ path_disp PTricCpp B r = (100, -50, 60) /\ path_disp PTricNp B r = (100, -50, 60).
Proof. exact example_hyps. Qed.
Print Assumptions hypotheses_satisfiable.

Example ortho_hypotheses_satisfiable :
  let B := mkbox (3072, 0, 0) (0, 4000, 0) (0, 0, 2900) in
  ortho_pos B /\ strict_region B (path_disp POrthoSSE B (40000, -51234, 30011)).
Proof. exact example_ortho. Qed.
Print Assumptions ortho_hypotheses_satisfiable.

(* ======================================================================================================
   The code AS LOOPS OVER FLAT BUFFERS and the Python glue (PBC/Kernel.v) refine the model used above. *)

(* the three nested image loops of geometry.cpp (min_dist2 = FLT_MAX, "<=") and of distance.py (start value r12,
   "<" resp. min()) compute the arg-min folds of the model, candidate for candidate in the same order *)
Theorem image_loops_refine_search : forall B w,
  image_search_cpp image_lo image_hi (ba B) (bb B) (bc B) w = proj_last w (argmin_last (cands B w)) /\
  image_search_np image_lo image_hi (ba B) (bb B) (bc B) w = proj_first (argmin_first (vzero, w) (cands B w)) /\
  image_min_np image_lo image_hi (ba B) (bb B) (bc B) w = norm2 (snd (argmin_first (vzero, w) (cands B w))).
Proof. intros B w. split; [apply image_search_cpp_spec | split; [apply image_search_np_spec | apply image_min_np_spec]]. Qed.
Print Assumptions image_loops_refine_search.

(* _distance_mic(_t) report the length of the vector _displacement_mic reports *)
Theorem reference_distance_is_displacement_length : forall o B r, Some (np_pair_dist o B r) = fst (np_pair o B r).
Proof. exact np_pair_dist_spec. Qed.
Print Assumptions reference_distance_is_displacement_length.

(* ValueError exactly for an atom (frame) index outside [0, n) or a cell array of the wrong length *)
Theorem api_validation : forall a opt periodic n_atoms (xyz : list frame) boxes pairs times,
  api_call a opt periodic n_atoms xyz boxes pairs times = Err ValueError <->
  (valid_pairs n_atoms pairs = false \/
   (a = ApiDistancesT /\ valid_pairs (zlen xyz) times = false) \/
   (pairs <> [] /\ periodic = true /\ exists bs, boxes = Some bs /\ length bs <> length xyz)).
Proof. exact api_error_iff. Qed.
Print Assumptions api_validation.

Theorem api_validation_meaning : forall n pairs, valid_pairs n pairs = true <->
  forall pr, In pr pairs -> 0 <= fst pr < n /\ 0 <= snd pr < n.
Proof. exact valid_pairs_spec. Qed.
Print Assumptions api_validation_meaning.

(* compute_displacements / compute_distances(_core), validated input: the frame loop, the pair loop, the offsets
   3*pairs[2j+k] into the flat coordinate buffer, xyz += n_atoms*3, box_matrix += 9 and the column reads of the
   transposed cell deliver, for frame i and pair (p1,p2), the dispatched path of the model on xyz[i][p2]-xyz[i][p1]
   with the cell of frame i -- and no read leaves a buffer (the data is Some ...) *)
Theorem api_frames : forall a opt periodic n (xyz : list frame) boxes pairs times,
  a <> ApiDistancesT -> Forall (fun f : frame => length f = n) xyz ->
  valid_pairs (Z.of_nat n) pairs = true -> pairs <> [] ->
  (forall bs, periodic = true -> boxes = Some bs -> length bs = length xyz) ->
  api_call a opt periodic (Z.of_nat n) xyz boxes pairs times =
  Ok (api_shape a (zlen xyz) (zlen pairs))
     (Some (flat_map (fun fB => map (fun pr =>
              entry (dispatch opt periodic boxes) (snd fB) (vsub (atom (fst fB) (snd pr)) (atom (fst fB) (fst pr)))) pairs)
            (frame_items periodic xyz boxes))).
Proof. exact api_frames_refines. Qed.
Print Assumptions api_frames.

(* compute_distances_t: time_offset = 3*n_atoms*times[2i+k], box_offset = times[2i]*9 added before the cell is
   loaded and taken back after the pair loop: entry (t1,t2),(p1,p2) = path on xyz[t2][p2]-xyz[t1][p1], cell of t1 *)
Theorem api_times : forall opt periodic n (xyz : list frame) boxes pairs times,
  Forall (fun f : frame => length f = n) xyz ->
  valid_pairs (Z.of_nat n) pairs = true -> valid_pairs (zlen xyz) times = true -> pairs <> [] ->
  (forall bs, periodic = true -> boxes = Some bs -> length bs = length xyz) ->
  api_call ApiDistancesT opt periodic (Z.of_nat n) xyz boxes pairs times =
  Ok [zlen times; zlen pairs]
     (Some (flat_map (fun t => map (fun pr =>
              let r := vsub (atom (frame_at xyz (snd t)) (snd pr)) (atom (frame_at xyz (fst t)) (fst pr)) in
              entry (dispatch opt periodic boxes) (cell_at periodic boxes (fst t)) (if opt then r else vneg r)) pairs)
            times)).
Proof. exact api_times_refines. Qed.
Print Assumptions api_times.

Theorem api_empty : forall a opt periodic n_atoms (xyz : list frame) boxes times,
  (a = ApiDistancesT -> valid_pairs (zlen xyz) times = true) ->
  api_call a opt periodic n_atoms xyz boxes [] times =
  Ok (map (gdim_val (zlen xyz) (zlen times)) (api_empty_shape a)) (Some []).
Proof. exact empty_shape_is_modelled. Qed.
Print Assumptions api_empty.

(* without the validation the kernels read outside the coordinate buffer *)
Theorem validation_is_needed :
  kernel_frames KPlain (flat_xyz [[(0, 0, 0); (1, 1, 1)]]) (flat_pairs [(0, 2)]) [] 1 2 1 = None /\
  kernel_frames KPlain (flat_xyz [[(0, 0, 0); (1, 1, 1)]]) (flat_pairs [(-1, 1)]) [] 1 2 1 = None /\
  valid_pairs 2 [(0, 2)] = false /\ valid_pairs 2 [(-1, 1)] = false.
Proof. exact kernel_unvalidated_reads_outside. Qed.
Print Assumptions validation_is_needed.

(* loop bounds, strides, offsets, pointer advances and their places, store order, validation comparisons,
   statement order and empty shapes regenerated from today's source text are those of PBC/Kernel.v *)
Theorem loops_match_source : kernel_tie_statement.
Proof. exact kernel_tie. Qed.
Print Assumptions loops_match_source.

Example api_hypotheses_satisfiable :
  let B := mkbox (3072, 0, 0) (5120, 3000, 0) (-7000, 8100, 2900) in
  let xyz := [[(0, 0, 0); (117204, -30050, -28940)]; [(5, 5, 5); (100, -50, 60)]] in
  api_call ApiDisplacements true true 2 xyz (Some [B; B]) [(0, 1); (1, 1)] [] =
    Ok [2; 2; 3] (Some [(Some 16100, (100, -50, 60)); (Some 0, (0, 0, 0));
                        (Some 15075, (95, -55, 55)); (Some 0, (0, 0, 0))]) /\
  api_call ApiDistancesT false true 2 xyz (Some [B; B]) [(0, 1)] [(1, 0)] =
    Ok [1; 1] (Some [(Some 15075, (-95, 55, -55))]) /\
  api_call ApiDistancesCore true true 2 xyz (Some [B]) [(0, 1)] [] = Err ValueError /\
  api_call ApiDistancesCore true true 2 xyz (Some [B; B]) [(0, 2)] [] = Err ValueError.
Proof. exact api_example. Qed.
Print Assumptions api_hypotheses_satisfiable.
