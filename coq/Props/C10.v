(* C10 -- neighbour searches return exactly the atoms within the cutoff.
   Only statements, closed by [exact], and Print Assumptions.  Model: MD.Neigh.Model (exact-arithmetic
   logic of neighbors.cpp and neighborlist.cpp; float32 rounding inside the kernels is not modelled). *)
From Coq Require Import ZArith List Bool.
Import ListNotations.
Require Import MD.Neigh.Model MD.Neigh.Arith MD.Neigh.NeighborsProofs MD.Neigh.NlistProofs MD.Neigh.Complete
  MD.Neigh.Complete2 MD.Neigh.CompleteOpen.
Open Scope Z_scope.

(* compute_neighbors (one frame) = the haystack, in its order, filtered by "some query atom j <> i has
   wrapped squared distance below the squared cutoff"; duplicate-free for a duplicate-free haystack. *)
Theorem neighbors_spec : forall cell cn cd xyz query hay,
  neighbors_frame cell cn cd xyz query hay =
    filter (fun i => existsb (fun j => negb (Nat.eqb i j) && within cell cn cd xyz i j) query) hay
  /\ (NoDup hay -> NoDup (neighbors_frame cell cn cd xyz query hay)).
Proof. exact neighbors_spec_both. Qed.
Print Assumptions neighbors_spec.

(* the Python wrapper returns that list when all indices are valid *)
Theorem neighbors_valid_indices : forall cell cn cd xyz query hay,
  (forall i, In i (query ++ hay) -> (i < length xyz)%nat) ->
  compute_neighbors cell cn cd xyz query hay = Some (neighbors_frame cell cn cd xyz query hay).
Proof. exact compute_neighbors_some. Qed.
Print Assumptions neighbors_valid_indices.

(* and refuses (ValueError) when one is not *)
Theorem neighbors_invalid_index : forall cell cn cd xyz query hay i,
  In i (query ++ hay) -> (length xyz <= i)%nat -> compute_neighbors cell cn cd xyz query hay = None.
Proof. exact compute_neighbors_none. Qed.
Print Assumptions neighbors_invalid_index.

(* For a cell with positive diagonal and cutoff <= half of every diagonal entry (which holds whenever
   cutoff <= half the shortest cell width) the result is exactly: haystack atoms having a query atom
   j <> i with SOME lattice image of the displacement shorter than the cutoff, i.e. minimum-image distance
   below the cutoff.  Triclinic cells included (box reduction + successive rounding). *)
Theorem neighbors_is_mic : forall B cn cd xyz query hay i,
  box_ok B -> 0 < cd -> 0 <= cn -> half_width_ok B cn cd ->
  (In i (neighbors_frame (Some B) cn cd xyz query hay) <->
   In i hay /\ exists j, In j query /\ j <> i /\
     exists k1 k2 k3, norm2 (vsub (vsub (pos xyz i) (pos xyz j)) (lat B k1 k2 k3)) * (cd * cd) < cn * cn).
Proof. exact neighbors_mic_char. Qed.
Print Assumptions neighbors_is_mic.

(* orthorhombic cells: the same for every cutoff *)
Theorem neighbors_is_mic_orthorhombic : forall B cn cd xyz query hay i,
  box_ok B -> offdiag_nonzero B = false -> 0 < cd ->
  (In i (neighbors_frame (Some B) cn cd xyz query hay) <->
   In i hay /\ exists j, In j query /\ j <> i /\
     exists k1 k2 k3, norm2 (vsub (vsub (pos xyz i) (pos xyz j)) (lat B k1 k2 k3)) * (cd * cd) < cn * cn).
Proof. exact neighbors_ortho_char. Qed.
Print Assumptions neighbors_is_mic_orthorhombic.

(* no cell: plain distance *)
Theorem neighbors_no_cell : forall cn cd xyz query hay i,
  In i (neighbors_frame None cn cd xyz query hay) <->
  In i hay /\ exists j, In j query /\ j <> i /\ norm2 (vsub (pos xyz i) (pos xyz j)) * (cd * cd) < cn * cn.
Proof. exact neighbors_nocell_char. Qed.
Print Assumptions neighbors_no_cell.

(* compute_neighborlist, as found: the relation is symmetric, irreflexive, duplicate-free and only
   mentions existing atoms -- for every input (any cell, any positions) *)
Theorem nlist_sym_irrefl_nodup : forall cell c xyz i j,
  let N := nlist_cur cell c xyz in
  (In j (nth i N []) -> In i (nth j N [])) /\ ~ In i (nth i N []) /\ NoDup (nth i N []) /\
  (In j (nth i N []) -> (i < length xyz)%nat /\ (j < length xyz)%nat).
Proof. exact nlist_cur_relation. Qed.
Print Assumptions nlist_sym_irrefl_nodup.

(* every pair found by the voxel search (before symmetric completion: j < i) has a lattice image of its
   displacement (the plain displacement when there is no cell) of squared length <= cutoff^2: nothing
   beyond the cutoff is ever listed -- any cell (triclinic included), any positions *)
Theorem nlist_sound : forall cell c xyz i j,
  In j (nth i (nlist_half cell c xyz) []) ->
  (j < i)%nat /\ (i < length xyz)%nat /\ image_within cell c (pos xyz i) (pos xyz j).
Proof. exact (nlist_half_sound false). Qed.
Print Assumptions nlist_sound.

(* no cell: every pair closer than the cutoff is listed (both directions) *)
Theorem nlist_complete_nopbc : forall c xyz i j,
  0 < c -> (i < length xyz)%nat -> (j < length xyz)%nat -> i <> j ->
  norm2 (vsub (pos xyz j) (pos xyz i)) < c * c ->
  In j (nth i (nlist_cur None c xyz) []).
Proof. exact nlist_cur_complete_nocell. Qed.
Print Assumptions nlist_complete_nopbc.

(* orthorhombic cell, cutoff <= half of each edge, all atoms inside the primary cell: every pair whose
   minimum-image distance is below the cutoff is listed (both directions) *)
Theorem nlist_complete_ortho_incell : forall B c xyz i j k1 k2 k3,
  box_ok B -> ortho B -> 0 < c ->
  2 * c <= b_ax B /\ 2 * c <= b_by B /\ 2 * c <= b_cz B ->
  (forall k, (k < length xyz)%nat -> in_cell B (pos xyz k)) ->
  (i < length xyz)%nat -> (j < length xyz)%nat -> i <> j ->
  norm2 (vsub (vsub (pos xyz j) (pos xyz i)) (lat B k1 k2 k3)) < c * c ->
  In j (nth i (nlist_cur (Some B) c xyz) []).
Proof. exact nlist_cur_complete_ortho_incell. Qed.
Print Assumptions nlist_complete_ortho_incell.

(* Full statement "the same without the in-cell hypothesis" is FALSE of the code as found: two atoms 0.195 nm
   apart (one of them one cell up in y), cutoff 1 nm, cubic 4 nm cell -- not listed.  Known defect
   (neighborlist.cpp never wraps positions into the cell; KNOWN_FINDINGS C10-neighborlist-outside-primary-cell). *)
Theorem nlist_complete_outside_cell_refuted :
  exists B c xyz i j k1 k2 k3,
    box_ok B /\ ortho B /\ 0 < c /\ (2 * c <= b_ax B /\ 2 * c <= b_by B /\ 2 * c <= b_cz B) /\
    (i < length xyz)%nat /\ (j < length xyz)%nat /\ i <> j /\
    norm2 (vsub (vsub (pos xyz j) (pos xyz i)) (lat B k1 k2 k3)) < c * c /\
    ~ In j (nth i (nlist_cur (Some B) c xyz) []).
Proof. exact nlist_cur_outside_cell_counterexample. Qed.
Print Assumptions nlist_complete_outside_cell_refuted.

(* minimal repair (wrap every position into the primary cell first): complete wherever the atoms sit *)
Theorem nlist_fixed_complete_ortho : forall B c xyz i j k1 k2 k3,
  box_ok B -> ortho B -> 0 < c ->
  2 * c <= b_ax B /\ 2 * c <= b_by B /\ 2 * c <= b_cz B ->
  (i < length xyz)%nat -> (j < length xyz)%nat -> i <> j ->
  norm2 (vsub (vsub (pos xyz j) (pos xyz i)) (lat B k1 k2 k3)) < c * c ->
  In j (nth i (nlist_fix (Some B) c xyz) []).
Proof. exact nlist_fix_complete_ortho. Qed.
Print Assumptions nlist_fixed_complete_ortho.

(* ... and still symmetric, irreflexive, duplicate-free and sound (w.r.t. the original positions), any cell *)
Theorem nlist_fixed_sym_irrefl_nodup : forall cell c xyz i j,
  let N := nlist_fix cell c xyz in
  (In j (nth i N []) -> In i (nth j N [])) /\ ~ In i (nth i N []) /\ NoDup (nth i N []) /\
  (In j (nth i N []) -> (i < length xyz)%nat /\ (j < length xyz)%nat).
Proof. exact nlist_fix_relation. Qed.
Print Assumptions nlist_fixed_sym_irrefl_nodup.

Theorem nlist_fixed_sound : forall cell c xyz i j,
  In j (nth i (nlist_half_fix cell c xyz) []) ->
  (j < i)%nat /\ (i < length xyz)%nat /\ image_within cell c (pos xyz i) (pos xyz j).
Proof. exact nlist_half_fix_sound. Qed.
Print Assumptions nlist_fixed_sound.

(* TRICLINIC cells: the statement "atoms inside the primary cell [0,ax)x[0,by)x[0,cz), cutoff <= half of every
   diagonal entry => every pair closer than the cutoff is listed" is FALSE of the code, as found and repaired alike
   (found by the thorough correspondence run, reproduced on md.compute_neighborlist): in a flat skewed cell with only
   three voxels along z a direct neighbour two voxels away is reached only as its periodic image, whose y window is
   shifted by c_y.  Known defect (KNOWN_FINDINGS C10-neighborlist-triclinic-three-voxels); see the second repair below.  What IS proved for
   triclinic cells: nlist_sound, nlist_sym_irrefl_nodup; completeness for triclinic cells with more voxels is
   exercised by the correspondence run and the oracle only (PARTIAL). *)
Theorem nlist_complete_triclinic_incell_refuted :
  exists B c xyz i j,
    box_ok B /\ reduce_box B = B /\ 0 < c /\ half_width_ok B c 1 /\
    (forall k, (k < length xyz)%nat -> in_cell B (pos xyz k)) /\
    (i < length xyz)%nat /\ (j < length xyz)%nat /\ i <> j /\
    norm2 (vsub (pos xyz j) (pos xyz i)) < c * c /\
    ~ In j (nth i (nlist_cur (Some B) c xyz) []) /\ ~ In j (nth i (nlist_fix (Some B) c xyz) []).
Proof. exact nlist_triclinic_incell_counterexample. Qed.
Print Assumptions nlist_complete_triclinic_incell_refuted.

(* SECOND REPAIR (on top of the first): in a triclinic cell with fewer than 5 voxels along z scan every y voxel
   (fixes/C10-neighborlist-triclinic-few-voxels.diff).  Proved: still symmetric/irreflexive/duplicate-free, sound for
   every cell, complete without a cell and for orthorhombic cells wherever the atoms sit, and it lists the
   refutation witness above.  PARTIAL: completeness for triclinic cells (atoms anywhere, cutoff <= half of every
   diagonal entry) is NOT proved -- the four-corner x-range logic of the triclinic branch is modelled
   (Model.vox_range) but only exercised by the correspondence run and the exact oracle (no miss on any triclinic
   frame once this repair is applied). *)
Theorem nlist_fixed2_sym_irrefl_nodup : forall cell c xyz i j,
  let N := nlist_fix2 cell c xyz in
  (In j (nth i N []) -> In i (nth j N [])) /\ ~ In i (nth i N []) /\ NoDup (nth i N []) /\
  (In j (nth i N []) -> (i < length xyz)%nat /\ (j < length xyz)%nat).
Proof. exact nlist_fix2_relation. Qed.
Print Assumptions nlist_fixed2_sym_irrefl_nodup.

Theorem nlist_fixed2_sound : forall cell c xyz i j,
  In j (nth i (nlist_half_fix_gen true cell c xyz) []) ->
  (j < i)%nat /\ (i < length xyz)%nat /\ image_within cell c (pos xyz i) (pos xyz j).
Proof. exact (nlist_half_fix_gen_sound true). Qed.
Print Assumptions nlist_fixed2_sound.

Theorem nlist_fixed2_complete_ortho : forall B c xyz i j k1 k2 k3,
  box_ok B -> ortho B -> 0 < c ->
  2 * c <= b_ax B /\ 2 * c <= b_by B /\ 2 * c <= b_cz B ->
  (i < length xyz)%nat -> (j < length xyz)%nat -> i <> j ->
  norm2 (vsub (vsub (pos xyz j) (pos xyz i)) (lat B k1 k2 k3)) < c * c ->
  In j (nth i (nlist_fix2 (Some B) c xyz) []).
Proof. exact nlist_fix2_complete_ortho. Qed.
Print Assumptions nlist_fixed2_complete_ortho.

Theorem nlist_fixed2_complete_nopbc : forall c xyz i j,
  0 < c -> (i < length xyz)%nat -> (j < length xyz)%nat -> i <> j ->
  norm2 (vsub (pos xyz j) (pos xyz i)) < c * c ->
  In j (nth i (nlist_fix2 None c xyz) []).
Proof. exact nlist_fix2_complete_nocell. Qed.
Print Assumptions nlist_fixed2_complete_nopbc.

Theorem nlist_fixed2_on_triclinic_witness :
  In 0%nat (nth 1 (nlist_fix2 (Some tric_box) 676 tric_xyz) []) /\ In 1%nat (nth 0 (nlist_fix2 (Some tric_box) 676 tric_xyz) []).
Proof. exact nlist_fix2_on_triclinic_witness. Qed.
Print Assumptions nlist_fixed2_on_triclinic_witness.

(* non-vacuity of the hypothesis sets *)
Example ortho_incell_hypotheses_satisfiable :
  box_ok example_box /\ ortho example_box /\ 0 < 1024 /\
  (2 * 1024 <= b_ax example_box /\ 2 * 1024 <= b_by example_box /\ 2 * 1024 <= b_cz example_box) /\
  (forall k, (k < length example_xyz)%nat -> in_cell example_box (pos example_xyz k)) /\
  norm2 (vsub (vsub (pos example_xyz 1) (pos example_xyz 0)) (lat example_box 1 0 1)) < 1024 * 1024 /\
  In 1%nat (nth 0 (nlist_cur (Some example_box) 1024 example_xyz) []).
Proof. exact example_hyps. Qed.
Print Assumptions ortho_incell_hypotheses_satisfiable.

Example triclinic_half_width_hypotheses_satisfiable :
  box_ok example_tric /\ offdiag_nonzero example_tric = true /\ half_width_ok example_tric 1900 1 /\
  In 1%nat (neighbors_frame (Some example_tric) 1900 1 [(100, 2200, 100); (600 + 1700, 2500 + 1200, 300 + 4500)] [0%nat] [1%nat]).
Proof. exact example_tric_hyps. Qed.
Print Assumptions triclinic_half_width_hypotheses_satisfiable.
