(* C10 -- neighbour searches return exactly the atoms within the cutoff.
   Only statements, closed by [exact], and Print Assumptions.  Model: MD.Neigh.Model (exact-arithmetic
   logic of neighbors.cpp and neighborlist.cpp; float32 rounding inside the kernels is not modelled). *)
From Coq Require Import ZArith List Bool.
Import ListNotations.
Require Import MD.Neigh.Model MD.Neigh.Arith MD.Neigh.NeighborsProofs MD.Neigh.NlistProofs.
Open Scope Z_scope.

(* compute_neighbors (one frame) = the haystack, in its order, filtered by "some query atom j <> i has
   wrapped squared distance below the squared cutoff"; duplicate-free for a duplicate-free haystack. *)
Theorem neighbors_spec : forall cell cn cd xyz query hay,
  neighbors_frame cell cn cd xyz query hay =
    filter (fun i => existsb (fun j => negb (Nat.eqb i j) && within cell cn cd xyz i j) query) hay
  /\ (NoDup hay -> NoDup (neighbors_frame cell cn cd xyz query hay)).
Proof. intros. split; [exact (neighbors_frame_filter _ _ _ _ _ _)|exact (neighbors_nodup _ _ _ _ _ _)]. Qed.
Print Assumptions neighbors_spec.

(* the Python wrapper returns that list when all indices are valid *)
Theorem neighbors_valid_indices : forall cell cn cd xyz query hay,
  (forall i, In i (query ++ hay) -> (i < length xyz)%nat) ->
  compute_neighbors cell cn cd xyz query hay = Some (neighbors_frame cell cn cd xyz query hay).
Proof. exact compute_neighbors_some. Qed.
Print Assumptions neighbors_valid_indices.

(* and refuses (ValueError) when one is not *)
Theorem neighbors_invalid_index : forall cell cn cd xyz query hay i,
  In i (query ++ hay) -> (length xyz <= i)%nat -> compute_neighbors cell cn cd xyz query hay = None.
Proof. exact compute_neighbors_none. Qed.
Print Assumptions neighbors_invalid_index.

(* For a cell with positive diagonal and cutoff <= half of every diagonal entry (which holds whenever
   cutoff <= half the shortest cell width) the result is exactly: haystack atoms having a query atom
   j <> i with SOME lattice image of the displacement shorter than the cutoff, i.e. minimum-image distance
   below the cutoff.  Triclinic cells included (box reduction + successive rounding). *)
Theorem neighbors_is_mic : forall B cn cd xyz query hay i,
  box_ok B -> 0 < cd -> 0 <= cn -> half_width_ok B cn cd ->
  (In i (neighbors_frame (Some B) cn cd xyz query hay) <->
   In i hay /\ exists j, In j query /\ j <> i /\
     exists k1 k2 k3, norm2 (vsub (vsub (pos xyz i) (pos xyz j)) (lat B k1 k2 k3)) * (cd * cd) < cn * cn).
Proof. exact neighbors_mic_char. Qed.
Print Assumptions neighbors_is_mic.

(* orthorhombic cells: the same for every cutoff *)
Theorem neighbors_is_mic_orthorhombic : forall B cn cd xyz query hay i,
  box_ok B -> offdiag_nonzero B = false -> 0 < cd ->
  (In i (neighbors_frame (Some B) cn cd xyz query hay) <->
   In i hay /\ exists j, In j query /\ j <> i /\
     exists k1 k2 k3, norm2 (vsub (vsub (pos xyz i) (pos xyz j)) (lat B k1 k2 k3)) * (cd * cd) < cn * cn).
Proof. exact neighbors_ortho_char. Qed.
Print Assumptions neighbors_is_mic_orthorhombic.

(* no cell: plain distance *)
Theorem neighbors_no_cell : forall cn cd xyz query hay i,
  In i (neighbors_frame None cn cd xyz query hay) <->
  In i hay /\ exists j, In j query /\ j <> i /\ norm2 (vsub (pos xyz i) (pos xyz j)) * (cd * cd) < cn * cn.
Proof. exact neighbors_nocell_char. Qed.
Print Assumptions neighbors_no_cell.

(* compute_neighborlist, as found and repaired: the relation is symmetric, irreflexive, duplicate-free
   and only mentions existing atoms -- for every input (any cell, any positions) *)
Theorem nlist_sym_irrefl_nodup : forall cell c xyz i j,
  let N := nlist_cur cell c xyz in
  (In j (nth i N []) -> In i (nth j N [])) /\ ~ In i (nth i N []) /\ NoDup (nth i N []) /\
  (In j (nth i N []) -> (i < length xyz)%nat /\ (j < length xyz)%nat).
Proof.
  intros cell c xyz i j N. pose proof (nlist_half_ok cell c xyz) as Hok. unfold N, nlist_cur.
  split; [exact (complete_sym _ i j Hok)|]. split; [exact (complete_irrefl _ i Hok)|].
  split; [exact (complete_nodup _ i Hok)|].
  intros H. rewrite <- (nlist_half_length cell c xyz). exact (complete_range _ i j Hok H).
Qed.
Print Assumptions nlist_sym_irrefl_nodup.

(* every pair found by the voxel search (before symmetric completion: j < i) has a lattice image of its
   displacement (the plain displacement when there is no cell) of squared length <= cutoff^2 *)
Theorem nlist_sound : forall cell c xyz i j,
  In j (nth i (nlist_half cell c xyz) []) ->
  (j < i)%nat /\ (i < length xyz)%nat /\ image_within cell c (pos xyz i) (pos xyz j).
Proof. exact nlist_half_sound. Qed.
Print Assumptions nlist_sound.
