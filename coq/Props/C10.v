(* C10 -- neighbour searches return exactly the atoms within the cutoff.
   Only statements, closed by [exact], and Print Assumptions.  Model: MD.Neigh.Model (exact-arithmetic
   logic of neighbors.cpp and neighborlist.cpp; float32 rounding inside the kernels is not modelled). *)
From Coq Require Import ZArith List Bool.
Import ListNotations.
From Coq Require Import Sorted Permutation.
Require Import MD.Neigh.Model MD.Neigh.Arith MD.Neigh.NeighborsProofs MD.Neigh.NlistProofs MD.Neigh.Complete
  MD.Neigh.Complete2 MD.Neigh.CompleteOpen MD.Neigh.Bins MD.Neigh.BinsProofs MD.Neigh.BinsRefine MD.Neigh.Api MD.Neigh.ApiProofs MD.Neigh.Windows.
Open Scope Z_scope.

(* compute_neighbors (one frame) = the haystack, in its order, filtered by "some query atom j <> i has
   wrapped squared distance below the squared cutoff"; duplicate-free for a duplicate-free haystack. *)
Theorem neighbors_spec : forall cell cn cd xyz query hay,
  neighbors_frame cell cn cd xyz query hay =
    filter (fun i => existsb (fun j => negb (Nat.eqb i j) && within cell cn cd xyz i j) query) hay
  /\ (NoDup hay -> NoDup (neighbors_frame cell cn cd xyz query hay)).
Proof. exact neighbors_spec_both. Qed.
Print Assumptions neighbors_spec.

(* the Python wrapper returns that list when all indices are valid *)
Theorem neighbors_valid_indices : forall cell cn cd xyz query hay,
  (forall i, In i (query ++ hay) -> (i < length xyz)%nat) ->
  compute_neighbors cell cn cd xyz query hay = Some (neighbors_frame cell cn cd xyz query hay).
Proof. exact compute_neighbors_some. Qed.
Print Assumptions neighbors_valid_indices.

(* and refuses (ValueError) when one is not *)
Theorem neighbors_invalid_index : forall cell cn cd xyz query hay i,
  In i (query ++ hay) -> (length xyz <= i)%nat -> compute_neighbors cell cn cd xyz query hay = None.
Proof. exact compute_neighbors_none. Qed.
Print Assumptions neighbors_invalid_index.

(* For a cell with positive diagonal and cutoff <= half of every diagonal entry (which holds whenever
   cutoff <= half the shortest cell width) the result is exactly: haystack atoms having a query atom
   j <> i with SOME lattice image of the displacement shorter than the cutoff, i.e. minimum-image distance
   below the cutoff.  Triclinic cells included (box reduction + successive rounding). *)
Theorem neighbors_is_mic : forall B cn cd xyz query hay i,
  box_ok B -> 0 < cd -> 0 <= cn -> half_width_ok B cn cd ->
  (In i (neighbors_frame (Some B) cn cd xyz query hay) <->
   In i hay /\ exists j, In j query /\ j <> i /\
     exists k1 k2 k3, norm2 (vsub (vsub (pos xyz i) (pos xyz j)) (lat B k1 k2 k3)) * (cd * cd) < cn * cn).
Proof. exact neighbors_mic_char. Qed.
Print Assumptions neighbors_is_mic.

(* orthorhombic cells: the same for every cutoff *)
Theorem neighbors_is_mic_orthorhombic : forall B cn cd xyz query hay i,
  box_ok B -> offdiag_nonzero B = false -> 0 < cd ->
  (In i (neighbors_frame (Some B) cn cd xyz query hay) <->
   In i hay /\ exists j, In j query /\ j <> i /\
     exists k1 k2 k3, norm2 (vsub (vsub (pos xyz i) (pos xyz j)) (lat B k1 k2 k3)) * (cd * cd) < cn * cn).
Proof. exact neighbors_ortho_char. Qed.
Print Assumptions neighbors_is_mic_orthorhombic.

(* no cell: plain distance *)
Theorem neighbors_no_cell : forall cn cd xyz query hay i,
  In i (neighbors_frame None cn cd xyz query hay) <->
  In i hay /\ exists j, In j query /\ j <> i /\ norm2 (vsub (pos xyz i) (pos xyz j)) * (cd * cd) < cn * cn.
Proof. exact neighbors_nocell_char. Qed.
Print Assumptions neighbors_no_cell.

(* compute_neighborlist, as found: the relation is symmetric, irreflexive, duplicate-free and only
   mentions existing atoms -- for every input (any cell, any positions) *)
Theorem nlist_sym_irrefl_nodup : forall cell c xyz i j,
  let N := nlist_cur cell c xyz in
  (In j (nth i N []) -> In i (nth j N [])) /\ ~ In i (nth i N []) /\ NoDup (nth i N []) /\
  (In j (nth i N []) -> (i < length xyz)%nat /\ (j < length xyz)%nat).
Proof. exact nlist_cur_relation. Qed.
Print Assumptions nlist_sym_irrefl_nodup.

(* every pair found by the voxel search (before symmetric completion: j < i) has a lattice image of its
   displacement (the plain displacement when there is no cell) of squared length <= cutoff^2: nothing
   beyond the cutoff is ever listed -- any cell (triclinic included), any positions *)
Theorem nlist_sound : forall cell c xyz i j,
  In j (nth i (nlist_half cell c xyz) []) ->
  (j < i)%nat /\ (i < length xyz)%nat /\ image_within cell c (pos xyz i) (pos xyz j).
Proof. exact (nlist_half_sound false). Qed.
Print Assumptions nlist_sound.

(* no cell: every pair closer than the cutoff is listed (both directions) *)
Theorem nlist_complete_nopbc : forall c xyz i j,
  0 < c -> (i < length xyz)%nat -> (j < length xyz)%nat -> i <> j ->
  norm2 (vsub (pos xyz j) (pos xyz i)) < c * c ->
  In j (nth i (nlist_cur None c xyz) []).
Proof. exact nlist_cur_complete_nocell. Qed.
Print Assumptions nlist_complete_nopbc.

(* orthorhombic cell, cutoff <= half of each edge, all atoms inside the primary cell: every pair whose
   minimum-image distance is below the cutoff is listed (both directions) *)
Theorem nlist_complete_ortho_incell : forall B c xyz i j k1 k2 k3,
  box_ok B -> ortho B -> 0 < c ->
  2 * c <= b_ax B /\ 2 * c <= b_by B /\ 2 * c <= b_cz B ->
  (forall k, (k < length xyz)%nat -> in_cell B (pos xyz k)) ->
  (i < length xyz)%nat -> (j < length xyz)%nat -> i <> j ->
  norm2 (vsub (vsub (pos xyz j) (pos xyz i)) (lat B k1 k2 k3)) < c * c ->
  In j (nth i (nlist_cur (Some B) c xyz) []).
Proof. exact nlist_cur_complete_ortho_incell. Qed.
Print Assumptions nlist_complete_ortho_incell.

(* Full statement "the same without the in-cell hypothesis" is FALSE of the code as found: two atoms 0.195 nm
   apart (one of them one cell up in y), cutoff 1 nm, cubic 4 nm cell -- not listed.  Known defect
   (neighborlist.cpp never wraps positions into the cell; KNOWN_FINDINGS C10-neighborlist-outside-primary-cell). *)
Theorem nlist_complete_outside_cell_refuted :
  exists B c xyz i j k1 k2 k3,
    box_ok B /\ ortho B /\ 0 < c /\ (2 * c <= b_ax B /\ 2 * c <= b_by B /\ 2 * c <= b_cz B) /\
    (i < length xyz)%nat /\ (j < length xyz)%nat /\ i <> j /\
    norm2 (vsub (vsub (pos xyz j) (pos xyz i)) (lat B k1 k2 k3)) < c * c /\
    ~ In j (nth i (nlist_cur (Some B) c xyz) []).
Proof. exact nlist_cur_outside_cell_counterexample. Qed.
Print Assumptions nlist_complete_outside_cell_refuted.

(* minimal repair (wrap every position into the primary cell first): complete wherever the atoms sit *)
Theorem nlist_fixed_complete_ortho : forall B c xyz i j k1 k2 k3,
  box_ok B -> ortho B -> 0 < c ->
  2 * c <= b_ax B /\ 2 * c <= b_by B /\ 2 * c <= b_cz B ->
  (i < length xyz)%nat -> (j < length xyz)%nat -> i <> j ->
  norm2 (vsub (vsub (pos xyz j) (pos xyz i)) (lat B k1 k2 k3)) < c * c ->
  In j (nth i (nlist_fix (Some B) c xyz) []).
Proof. exact nlist_fix_complete_ortho. Qed.
Print Assumptions nlist_fixed_complete_ortho.

(* ... and still symmetric, irreflexive, duplicate-free and sound (w.r.t. the original positions), any cell *)
Theorem nlist_fixed_sym_irrefl_nodup : forall cell c xyz i j,
  let N := nlist_fix cell c xyz in
  (In j (nth i N []) -> In i (nth j N [])) /\ ~ In i (nth i N []) /\ NoDup (nth i N []) /\
  (In j (nth i N []) -> (i < length xyz)%nat /\ (j < length xyz)%nat).
Proof. exact nlist_fix_relation. Qed.
Print Assumptions nlist_fixed_sym_irrefl_nodup.

Theorem nlist_fixed_sound : forall cell c xyz i j,
  In j (nth i (nlist_half_fix cell c xyz) []) ->
  (j < i)%nat /\ (i < length xyz)%nat /\ image_within cell c (pos xyz i) (pos xyz j).
Proof. exact nlist_half_fix_sound. Qed.
Print Assumptions nlist_fixed_sound.

(* TRICLINIC cells: the statement "atoms inside the primary cell [0,ax)x[0,by)x[0,cz), cutoff <= half of every
   diagonal entry => every pair closer than the cutoff is listed" is FALSE of the code, as found and repaired alike
   (found by the thorough correspondence run, reproduced on md.compute_neighborlist): in a flat skewed cell with only
   three voxels along z a direct neighbour two voxels away is reached only as its periodic image, whose y window is
   shifted by c_y.  Known defect (KNOWN_FINDINGS C10-neighborlist-triclinic-three-voxels); see the second repair below.  What IS proved for
   triclinic cells: nlist_sound, nlist_sym_irrefl_nodup; completeness for triclinic cells with more voxels is
   exercised by the correspondence run and the oracle only (PARTIAL). *)
Theorem nlist_complete_triclinic_incell_refuted :
  exists B c xyz i j,
    box_ok B /\ reduce_box B = B /\ 0 < c /\ half_width_ok B c 1 /\
    (forall k, (k < length xyz)%nat -> in_cell B (pos xyz k)) /\
    (i < length xyz)%nat /\ (j < length xyz)%nat /\ i <> j /\
    norm2 (vsub (pos xyz j) (pos xyz i)) < c * c /\
    ~ In j (nth i (nlist_cur (Some B) c xyz) []) /\ ~ In j (nth i (nlist_fix (Some B) c xyz) []).
Proof. exact nlist_triclinic_incell_counterexample. Qed.
Print Assumptions nlist_complete_triclinic_incell_refuted.

(* SECOND REPAIR (on top of the first): in a triclinic cell with fewer than 5 voxels along z scan every y voxel
   (fixes/C10-neighborlist-triclinic-few-voxels.diff).  Proved: still symmetric/irreflexive/duplicate-free, sound for
   every cell, complete without a cell and for orthorhombic cells wherever the atoms sit, and it lists the
   refutation witness above.  PARTIAL: completeness for triclinic cells (atoms anywhere, cutoff <= half of every
   diagonal entry) is NOT proved -- the four-corner x-range logic of the triclinic branch is modelled
   (Model.vox_range) but only exercised by the correspondence run and the exact oracle (no miss on any triclinic
   frame once this repair is applied). *)
Theorem nlist_fixed2_sym_irrefl_nodup : forall cell c xyz i j,
  let N := nlist_fix2 cell c xyz in
  (In j (nth i N []) -> In i (nth j N [])) /\ ~ In i (nth i N []) /\ NoDup (nth i N []) /\
  (In j (nth i N []) -> (i < length xyz)%nat /\ (j < length xyz)%nat).
Proof. exact nlist_fix2_relation. Qed.
Print Assumptions nlist_fixed2_sym_irrefl_nodup.

Theorem nlist_fixed2_sound : forall cell c xyz i j,
  In j (nth i (nlist_half_fix_gen true cell c xyz) []) ->
  (j < i)%nat /\ (i < length xyz)%nat /\ image_within cell c (pos xyz i) (pos xyz j).
Proof. exact (nlist_half_fix_gen_sound true). Qed.
Print Assumptions nlist_fixed2_sound.

Theorem nlist_fixed2_complete_ortho : forall B c xyz i j k1 k2 k3,
  box_ok B -> ortho B -> 0 < c ->
  2 * c <= b_ax B /\ 2 * c <= b_by B /\ 2 * c <= b_cz B ->
  (i < length xyz)%nat -> (j < length xyz)%nat -> i <> j ->
  norm2 (vsub (vsub (pos xyz j) (pos xyz i)) (lat B k1 k2 k3)) < c * c ->
  In j (nth i (nlist_fix2 (Some B) c xyz) []).
Proof. exact nlist_fix2_complete_ortho. Qed.
Print Assumptions nlist_fixed2_complete_ortho.

Theorem nlist_fixed2_complete_nopbc : forall c xyz i j,
  0 < c -> (i < length xyz)%nat -> (j < length xyz)%nat -> i <> j ->
  norm2 (vsub (pos xyz j) (pos xyz i)) < c * c ->
  In j (nth i (nlist_fix2 None c xyz) []).
Proof. exact nlist_fix2_complete_nocell. Qed.
Print Assumptions nlist_fixed2_complete_nopbc.

Theorem nlist_fixed2_on_triclinic_witness :
  In 0%nat (nth 1 (nlist_fix2 (Some tric_box) 676 tric_xyz) []) /\ In 1%nat (nth 0 (nlist_fix2 (Some tric_box) 676 tric_xyz) []).
Proof. exact nlist_fix2_on_triclinic_witness. Qed.
Print Assumptions nlist_fixed2_on_triclinic_witness.

(* non-vacuity of the hypothesis sets *)
Example ortho_incell_hypotheses_satisfiable :
  box_ok example_box /\ ortho example_box /\ 0 < 1024 /\
  (2 * 1024 <= b_ax example_box /\ 2 * 1024 <= b_by example_box /\ 2 * 1024 <= b_cz example_box) /\
  (forall k, (k < length example_xyz)%nat -> in_cell example_box (pos example_xyz k)) /\
  norm2 (vsub (vsub (pos example_xyz 1) (pos example_xyz 0)) (lat example_box 1 0 1)) < 1024 * 1024 /\
  In 1%nat (nth 0 (nlist_cur (Some example_box) 1024 example_xyz) []).
Proof. exact example_hyps. Qed.
Print Assumptions ortho_incell_hypotheses_satisfiable.

Example triclinic_half_width_hypotheses_satisfiable :
  box_ok example_tric /\ offdiag_nonzero example_tric = true /\ half_width_ok example_tric 1900 1 /\
  In 1%nat (neighbors_frame (Some example_tric) 1900 1 [(100, 2200, 100); (600 + 1700, 2500 + 1200, 300 + 4500)] [0%nat] [1%nat]).
Proof. exact example_tric_hyps. Qed.
Print Assumptions triclinic_half_width_hypotheses_satisfiable.

(* ===================================================================================================================
   REFINEMENT of the loops and buffers of neighborlist.cpp (MD.Neigh.Bins: bins sorted by std::sort on (x, index),
   findLowerBound / findUpperBound as the binary searches they are, rangeStart/rangeEnd/numRanges with their min/max
   clamps, the item loop, the nested push_back completion) to the abstract voxel list used above. *)

(* std::sort: a sorted permutation of the bin *)
Theorem sorted_bin_is_sorted_permutation : forall l,
  Permutation l (sort_bin l) /\ StronglySorted (fun a b => ent_x a <= ent_x b) (sort_bin l).
Proof. exact (fun l => conj (sort_bin_perm l) (sort_bin_sorted l)). Qed.
Print Assumptions sorted_bin_is_sorted_permutation.

(* findLowerBound on a bin whose first k items (and only they) lie below the bound returns k, clamped to [lower, upper] *)
Theorem find_lower_bound_correct : forall below bin k,
  (forall i, (i < length bin)%nat -> below (ent_x (nth i bin ent0)) = (i <? k)%nat) ->
  forall fuel lo hi, (lo <= hi <= length bin)%nat -> (hi - lo <= fuel)%nat ->
    find_lower fuel below bin lo hi = Nat.max lo (Nat.min hi k).
Proof. exact find_lower_spec. Qed.
Print Assumptions find_lower_bound_correct.

Theorem find_upper_bound_correct : forall above bin k,
  (forall i, (i < length bin)%nat -> above (ent_x (nth i bin ent0)) = (k <=? i)%nat) ->
  forall fuel lo hi, (lo <= hi <= length bin)%nat -> (hi - lo <= fuel)%nat ->
    find_upper fuel above bin lo hi = Nat.max lo (Nat.min hi k).
Proof. exact find_upper_spec. Qed.
Print Assumptions find_upper_bound_correct.

(* item idx of a sorted bin lies in one of the one-or-two index ranges exactly when its x satisfies the range predicate
   of the abstract model (two x-ranges under periodic wrap included) *)
Theorem voxel_index_ranges_are_the_x_ranges : forall g px r bin idx,
  StronglySorted (fun a b => ent_x a <= ent_x b) bin -> (idx < length bin)%nat ->
  ((exists se, In se (ranges_ll g px r bin) /\ (fst se <= idx < snd se)%nat) <->
   in_ranges g px r (has_below g px r bin) (has_above g px r bin) (ent_x (nth idx bin ent0)) = true).
Proof. exact ranges_cover. Qed.
Print Assumptions voxel_index_ranges_are_the_x_ranges.

(* and the ranges never overlap (the min(.., rangeStart[0]) / max(.., rangeEnd[0]) clamps): no item is visited twice *)
Theorem voxel_index_ranges_never_overlap : forall g px r bin,
  StronglySorted (fun a b => ent_x a <= ent_x b) bin ->
  (exists a, ranges_ll g px r bin = [a]) \/
  (exists a b, ranges_ll g px r bin = [a; b] /\ ((snd b <= fst a)%nat \/ (snd a <= fst b)%nat)).
Proof. exact ranges_disjoint. Qed.
Print Assumptions voxel_index_ranges_never_overlap.

(* "Add in the symmetric entries": the nested push_back loop computes the closed form of the model, row by row and in
   the same order, whenever every row holds smaller indices only and no duplicates (which getNeighbors guarantees) *)
Theorem pushback_completion_is_closed_form : forall H,
  (forall i j, In j (nth i H []) -> (j < i)%nat) /\ (forall i, NoDup (nth i H [])) -> complete_ll H = complete H.
Proof. exact complete_ll_eq. Qed.
Print Assumptions pushback_completion_is_closed_form.

(* THE REFINEMENT, every input (any cell or none, any positions, any cutoff): the kernel with its loops and buffers
   returns for every atom a permutation of the abstract model's row (fl = false: every-y-voxel repair off) *)
Theorem nlist_lowlevel_refines : forall fl cell c xyz i,
  Permutation (nth i (nlist_ll_gen fl cell c xyz) []) (nth i (complete (nlist_half_fix_gen fl cell c xyz)) []).
Proof. exact nlist_ll_refines. Qed.
Print Assumptions nlist_lowlevel_refines.

(* hence, for the loops as written: symmetric, irreflexive, duplicate-free, existing atoms only ... *)
Theorem nlist_lowlevel_sym_irrefl_nodup : forall cell c xyz i j,
  let N := nlist_ll cell c xyz in
  (In j (nth i N []) -> In i (nth j N [])) /\ ~ In i (nth i N []) /\ NoDup (nth i N []) /\
  (In j (nth i N []) -> (i < length xyz)%nat /\ (j < length xyz)%nat).
Proof. exact nlist_ll_relation. Qed.
Print Assumptions nlist_lowlevel_sym_irrefl_nodup.

(* ... nothing beyond the cutoff ... *)
Theorem nlist_lowlevel_sound : forall cell c xyz i j, In j (nth i (nlist_ll cell c xyz) []) ->
  i <> j /\ (image_within cell c (pos xyz i) (pos xyz j) \/ image_within cell c (pos xyz j) (pos xyz i)).
Proof. exact nlist_ll_sound. Qed.
Print Assumptions nlist_lowlevel_sound.

(* ... and everything within it (orthorhombic cell, cutoff <= half of each edge, atoms anywhere; no cell) *)
Theorem nlist_lowlevel_complete_ortho : forall B c xyz i j k1 k2 k3,
  box_ok B -> ortho B -> 0 < c ->
  2 * c <= b_ax B /\ 2 * c <= b_by B /\ 2 * c <= b_cz B ->
  (i < length xyz)%nat -> (j < length xyz)%nat -> i <> j ->
  norm2 (vsub (vsub (pos xyz j) (pos xyz i)) (lat B k1 k2 k3)) < c * c ->
  In j (nth i (nlist_ll (Some B) c xyz) []).
Proof. exact nlist_ll_complete_ortho. Qed.
Print Assumptions nlist_lowlevel_complete_ortho.

Theorem nlist_lowlevel_complete_nopbc : forall c xyz i j,
  0 < c -> (i < length xyz)%nat -> (j < length xyz)%nat -> i <> j ->
  norm2 (vsub (pos xyz j) (pos xyz i)) < c * c ->
  In j (nth i (nlist_ll None c xyz) []).
Proof. exact nlist_ll_complete_nocell. Qed.
Print Assumptions nlist_lowlevel_complete_nopbc.

(* non-vacuity / the order inside a row: on this 5-atom frame md.compute_neighborlist returns exactly the first list *)
Example nlist_lowlevel_row_order_example :
  nlist_ll (Some (mkBox 4096 0 4096 0 0 4096)) 700 ll_example_xyz = [[1; 2; 3]; [0; 2; 3]; [0; 1; 3]; [0; 2; 1]; []]%nat /\
  nlist_fix2 (Some (mkBox 4096 0 4096 0 0 4096)) 700 ll_example_xyz = [[1; 2; 3]; [0; 2; 3]; [0; 1; 3]; [0; 1; 2]; []]%nat.
Proof. exact ll_example. Qed.
Print Assumptions nlist_lowlevel_row_order_example.

(* ===================================================================================================================
   The Cython wrappers neighbors.pyx / neighborlist.pyx (MD.Neigh.Api) *)

(* ValueError exactly when some index of the query or of the (explicit) haystack is negative or >= n_atoms *)
Theorem neighbors_api_valueerror_iff : forall t cn cd query hay periodic,
  compute_neighbors_api t cn cd query hay periodic = NbValueError <->
  exists i, In i (query ++ default_hay t hay) /\ (i < 0 \/ Z.of_nat (nt_natoms t) <= i).
Proof. exact nb_api_valueerror_iff. Qed.
Print Assumptions neighbors_api_valueerror_iff.

(* otherwise one answer per frame; the answer of frame k is the haystack, in its order, filtered by "some query atom
   j <> i is closer than the cutoff" on the coordinates and the cell of frame k alone *)
Theorem neighbors_api_frames_independent : forall t cn cd query hay periodic,
  (forall i, In i (query ++ default_hay t hay) -> 0 <= i < Z.of_nat (nt_natoms t)) ->
  exists R, compute_neighbors_api t cn cd query hay periodic = NbFrames R /\
    length R = length (nt_xyz t) /\
    forall k, (k < length (nt_xyz t))%nat ->
      nth k R [] =
      filter (fun i => existsb (fun j => negb (Nat.eqb i j) && within (cell_used t periodic k) cn cd (nth k (nt_xyz t) []) i j)
                               (map Z.to_nat query))
             (map Z.to_nat (default_hay t hay)).
Proof. exact nb_api_frames. Qed.
Print Assumptions neighbors_api_frames_independent.

Theorem neighbors_api_default_haystack : forall t cn cd query periodic,
  compute_neighbors_api t cn cd query None periodic =
  compute_neighbors_api t cn cd query (Some (map Z.of_nat (seq 0 (nt_natoms t)))) periodic.
Proof. exact nb_api_default_haystack. Qed.
Print Assumptions neighbors_api_default_haystack.

(* periodic=False = the same call on the trajectory stripped of its unit cells (whatever the flag is then) *)
Theorem neighbors_api_periodic_flag : forall t cn cd query hay p,
  compute_neighbors_api t cn cd query hay false =
  compute_neighbors_api (mkNT (nt_natoms t) (nt_xyz t) None) cn cd query hay p.
Proof. exact nb_api_not_periodic. Qed.
Print Assumptions neighbors_api_periodic_flag.

(* order and repetitions in query_indices are immaterial *)
Theorem neighbors_query_is_a_set : forall cell cn cd xyz q1 q2 hay,
  (forall j, In j q1 <-> In j q2) ->
  neighbors_frame cell cn cd xyz q1 hay = neighbors_frame cell cn cd xyz q2 hay.
Proof. exact nb_query_as_set. Qed.
Print Assumptions neighbors_query_is_a_set.

(* a haystack atom is reported as often as it occurs in the haystack (when it has a close query atom) *)
Theorem neighbors_multiplicity : forall cell cn cd xyz query hay i,
  count_occ Nat.eq_dec (neighbors_frame cell cn cd xyz query hay) i =
  if existsb (fun j => negb (Nat.eqb i j) && within cell cn cd xyz i j) query
  then count_occ Nat.eq_dec hay i else 0%nat.
Proof. exact nb_multiplicity. Qed.
Print Assumptions neighbors_multiplicity.

(* a pair at EXACTLY the cutoff: not reported by compute_neighbors (strict <), reported by compute_neighborlist
   (not >): the two searches differ there -- inside the property's 1e-5 exclusion band *)
Example boundary_pair_strictness_of_the_two_searches :
  neighbors_frame None 500 1 [(0, 0, 0); (300, 400, 0)] [0%nat] [1%nat] = [] /\
  neighbors_frame None 501 1 [(0, 0, 0); (300, 400, 0)] [0%nat] [1%nat] = [1%nat] /\
  nlist_fix2 None 500 [(0, 0, 0); (300, 400, 0)] = [[1%nat]; [0%nat]] /\
  nlist_fix2 None 499 [(0, 0, 0); (300, 400, 0)] = [[]; []].
Proof. exact boundary_pair_strictness. Qed.
Print Assumptions boundary_pair_strictness_of_the_two_searches.

(* compute_neighborlist(frame=...): numpy indexing -- negative frames count from the end, outside: IndexError *)
Theorem neighborlist_api_frame_selection : forall t c frame periodic,
  let nf := Z.of_nat (length (nt_xyz t)) in
  (- nf <= frame < 0 -> compute_neighborlist_api t c frame periodic = compute_neighborlist_api t c (frame + nf) periodic) /\
  ((frame < - nf \/ nf <= frame) <-> compute_neighborlist_api t c frame periodic = NlIndexError).
Proof. exact nl_api_frame_selection. Qed.
Print Assumptions neighborlist_api_frame_selection.

Theorem neighborlist_api_frame_local : forall t c frame periodic f,
  frame_index (length (nt_xyz t)) frame = Some f ->
  compute_neighborlist_api t c frame periodic = NlRows (nlist_fix2 (cell_used t periodic f) c (nth f (nt_xyz t) [])).
Proof. exact nl_api_frame. Qed.
Print Assumptions neighborlist_api_frame_local.

Theorem neighborlist_api_periodic_flag : forall t c frame p,
  compute_neighborlist_api t c frame false = compute_neighborlist_api (mkNT (nt_natoms t) (nt_xyz t) None) c frame p.
Proof. exact nl_api_not_periodic. Qed.
Print Assumptions neighborlist_api_periodic_flag.

Theorem neighborlist_api_relation : forall t c frame periodic N i j,
  compute_neighborlist_api t c frame periodic = NlRows N ->
  (In j (nth i N []) -> In i (nth j N [])) /\ ~ In i (nth i N []) /\ NoDup (nth i N []).
Proof. exact nl_api_relation. Qed.
Print Assumptions neighborlist_api_relation.

Example wrapper_model_runs :
  compute_neighbors_api api_example 700 1 [0] None true = NbFrames [[1%nat]; []] /\
  compute_neighbors_api api_example 700 1 [0] None false = NbFrames [[]; []] /\
  compute_neighbors_api api_example 700 1 [0; -1] None true = NbValueError /\
  compute_neighbors_api api_example 700 1 [0] (Some [3]) true = NbValueError /\
  compute_neighborlist_api api_example 700 (-2) true = NlRows [[1%nat]; [0%nat]; []] /\
  compute_neighborlist_api api_example 700 (-1) true = NlRows [[]; []; []] /\
  compute_neighborlist_api api_example 700 2 true = NlIndexError.
Proof. exact api_example_runs. Qed.
Print Assumptions wrapper_model_runs.

(* ===================================================================================================================
   The voxel WINDOWS of Voxels::getNeighbors as written (part of the triclinic completeness that is otherwise still PARTIAL:
   the four-corner x-range logic of the triclinic branch remains unproved).
   The y window of the image cell reached at loop value z is the centre's window moved by yoffset = boxz*c_y and widened
   (starty -= ceil(yoffset/voxelSizeY), endy -= floor(yoffset/voxelSizeY)): it contains the loop index of every voxel of that
   image cell holding a point whose y coordinate is within the cutoff of the centre's -- whenever there are enough y voxels
   that neither cap applies (2*(floor(cutoff/voxelSizeY)+1)+2 <= ny). *)
Theorem triclinic_ywindow_covers_the_cutoff : forall g c vyi z yp Y,
  g_per g = true -> (g_fully g && g_tric g && (g_nz g <? 5)) = false ->
  0 < g_syn g -> 0 < g_syd g -> 0 <= c ->
  2 * (c * g_syd g / g_syn g + 1) + 2 <= g_ny g ->
  vyi = yp * g_syd g / g_syn g ->
  yp - c <= Y <= yp + c ->
  In ((Y - yoffset g z) * g_syd g / g_syn g) (ywindow g c vyi z).
Proof. exact ywindow_covers. Qed.
Print Assumptions triclinic_ywindow_covers_the_cutoff.

Theorem zwindow_covers_the_cutoff : forall g c vzi zp Zc,
  g_per g = true -> 0 < g_szn g -> 0 < g_szd g -> 0 <= c ->
  2 * (c * g_szd g / g_szn g + 1) + 1 <= g_nz g ->
  vzi = zp * g_szd g / g_szn g ->
  zp - c <= Zc <= zp + c ->
  In (Zc * g_szd g / g_szn g) (zwindow g c vzi).
Proof. exact zwindow_covers. Qed.
Print Assumptions zwindow_covers_the_cutoff.

(* a y window moved rigidly by floor(yoffset/voxelSizeY) at both ends does NOT have the property (it drops the lowest voxel
   whenever yoffset is not a whole number of voxels): same hypotheses, a point at exactly the cutoff in y *)
Theorem triclinic_ywindow_rigid_shift_refuted :
  exists g c yp Y z,
    g_per g = true /\ (g_fully g && g_tric g && (g_nz g <? 5)) = false /\
    2 * (c * g_syd g / g_syn g + 1) + 2 <= g_ny g /\ yp - c <= Y <= yp + c /\
    existsb (Z.eqb ((Y - yoffset g z) * g_syd g / g_syn g)) (ywindow g c (yp * g_syd g / g_syn g) z) = true /\
    existsb (Z.eqb ((Y - yoffset g z) * g_syd g / g_syn g)) (ywindow_rigid g c (yp * g_syd g / g_syn g) z) = false.
Proof. exact ywindow_rigid_counterexample. Qed.
Print Assumptions triclinic_ywindow_rigid_shift_refuted.
