(* C18 — an open trajectory file behaves as a cursor over its frames.
   Only statements, closed by [exact], and Print Assumptions. *)
From Coq Require Import List Arith ZArith Bool.
Import ListNotations.
Require Import MD.Cursor.Model MD.Cursor.Proofs.

(* For every file and every sequence of in-range operations the reader produces exactly the
   abstract cursor's outputs (frames returned, positions reported, len). *)
Theorem cursor_refines_h5 : forall f ops, all_in_range (length f) 0 ops = true ->
  run arr_step f (0, 0) ops = spec_run f 0 ops.
Proof. intros f ops. exact (run_refines arr_step arr_ok f ops 0 (Nat.le_0_l _)). Qed.
Print Assumptions cursor_refines_h5.

Theorem cursor_refines_sequential : forall f ops, all_in_range (length f) 0 ops = true ->
  run seq_step f (0, 0) ops = spec_run f 0 ops.
Proof. intros f ops. exact (run_refines seq_step seq_ok f ops 0 (Nat.le_0_l _)). Qed.
Print Assumptions cursor_refines_sequential.

Theorem cursor_refines_xtc : forall f ops, all_in_range (length f) 0 ops = true ->
  run xdr_step f (0, 0) ops = spec_run f 0 ops.
Proof. intros f ops. exact (run_refines xdr_step xdr_ok f ops 0 (Nat.le_0_l _)). Qed.
Print Assumptions cursor_refines_xtc.

Theorem cursor_refines_netcdf_fixed : forall f ops, all_in_range (length f) 0 ops = true ->
  run nc_fix_step f (0, 0) ops = spec_run f 0 ops.
Proof. intros f ops. exact (run_refines nc_fix_step nc_fix_ok f ops 0 (Nat.le_0_l _)). Qed.
Print Assumptions cursor_refines_netcdf_fixed.

(* the readers as they were found: full statement is false, with in-range witnesses *)
Theorem cursor_refines_netcdf_current_refuted : refuted nc_cur_step.
Proof. exact nc_cur_refuted. Qed.
Print Assumptions cursor_refines_netcdf_current_refuted.

Theorem cursor_refines_trr_current_refuted : refuted trr_cur_step.
Proof. exact trr_cur_refuted. Qed.
Print Assumptions cursor_refines_trr_current_refuted.

Theorem handles_independent : forall (st : stepper) f ops s0 s1 h,
  outs_of h ops (run2 st f s0 s1 ops) = run st f (if h then s1 else s0) (proj h ops).
Proof. exact Proofs.handles_independent. Qed.
Print Assumptions handles_independent.

Theorem len_stable : forall f s,
  snd (arr_step f s Len) = Pos (length f) /\ snd (seq_step f s Len) = Pos (length f) /\
  snd (xdr_step f s Len) = Pos (length f) /\ snd (nc_cur_step f s Len) = Pos (length f) /\
  snd (nc_fix_step f s Len) = Pos (length f) /\ snd (trr_cur_step f s Len) = Pos (length f).
Proof. exact len_any_state. Qed.
Print Assumptions len_stable.

(* non-vacuity: a non-trivial history satisfies the hypothesis *)
Example in_range_history_exists :
  all_in_range 10 0 [Read 3; SeekRel (-2); Read 2; Tell; ReadAll; Seek 9; Read 1; Tell; Len] = true.
Proof. reflexivity. Qed.
Print Assumptions in_range_history_exists.
