(* C18 — an open trajectory file behaves as a cursor over its frames.
   Only statements, closed by [exact], and Print Assumptions. *)
From Coq Require Import List Arith ZArith Bool.
Import ListNotations.
Require Import MD.Cursor.Model MD.Cursor.Proofs MD.Cursor.Extended MD.Cursor.ChunkModel MD.Cursor.ChunkProofs.
Require MD.Load.Model MD.Load.Reflect MD.Load.CursorLink.

(* For every file and every sequence of in-range operations the reader produces exactly the
   abstract cursor's outputs (frames returned, positions reported, len). *)
Theorem cursor_refines_h5 : forall f ops, all_in_range (length f) 0 ops = true ->
  run arr_step f (0, 0) ops = spec_run f 0 ops.
Proof. intros f ops. exact (run_refines arr_step arr_ok f ops 0 (Nat.le_0_l _)). Qed.
Print Assumptions cursor_refines_h5.

Theorem cursor_refines_sequential : forall f ops, all_in_range (length f) 0 ops = true ->
  run seq_step f (0, 0) ops = spec_run f 0 ops.
Proof. intros f ops. exact (run_refines seq_step seq_ok f ops 0 (Nat.le_0_l _)). Qed.
Print Assumptions cursor_refines_sequential.

Theorem cursor_refines_xtc : forall f ops, all_in_range (length f) 0 ops = true ->
  run xdr_step f (0, 0) ops = spec_run f 0 ops.
Proof. intros f ops. exact (run_refines xdr_step xdr_ok f ops 0 (Nat.le_0_l _)). Qed.
Print Assumptions cursor_refines_xtc.

Theorem cursor_refines_netcdf_fixed : forall f ops, all_in_range (length f) 0 ops = true ->
  run nc_fix_step f (0, 0) ops = spec_run f 0 ops.
Proof. intros f ops. exact (run_refines nc_fix_step nc_fix_ok f ops 0 (Nat.le_0_l _)). Qed.
Print Assumptions cursor_refines_netcdf_fixed.

(* the readers as they were found: full statement is false, with in-range witnesses *)
Theorem cursor_refines_netcdf_current_refuted : refuted nc_cur_step.
Proof. exact nc_cur_refuted. Qed.
Print Assumptions cursor_refines_netcdf_current_refuted.

Theorem cursor_refines_trr_current_refuted : refuted trr_cur_step.
Proof. exact trr_cur_refuted. Qed.
Print Assumptions cursor_refines_trr_current_refuted.

Theorem handles_independent : forall (st : stepper) f ops s0 s1 h,
  outs_of h ops (run2 st f s0 s1 ops) = run st f (if h then s1 else s0) (proj h ops).
Proof. exact Proofs.handles_independent. Qed.
Print Assumptions handles_independent.

Theorem len_stable : forall f s,
  snd (arr_step f s Len) = Pos (length f) /\ snd (seq_step f s Len) = Pos (length f) /\
  snd (xdr_step f s Len) = Pos (length f) /\ snd (nc_cur_step f s Len) = Pos (length f) /\
  snd (nc_fix_step f s Len) = Pos (length f) /\ snd (trr_cur_step f s Len) = Pos (length f).
Proof. exact len_any_state. Qed.
Print Assumptions len_stable.

(* ================================================================== beyond the in-range alphabet
   ext range = in range, plus read(n) for ANY n >= 1: with fewer than n frames left the rest is returned and the
   position is len; at the end of the file nothing is returned and the position stays (spec_out / spec_pos say so).
   This is the theorem behind the correspondence's "overread" stream. *)
Theorem cursor_refines_ext_h5 : forall f ops, all_ext_range (length f) 0 ops = true ->
  run arr_step f (0, 0) ops = spec_run f 0 ops.
Proof. intros f ops. exact (run_refines_ext arr_step arr_ok_ext f ops 0 (Nat.le_0_l _)). Qed.
Print Assumptions cursor_refines_ext_h5.

Theorem cursor_refines_ext_sequential : forall f ops, all_ext_range (length f) 0 ops = true ->
  run seq_step f (0, 0) ops = spec_run f 0 ops.
Proof. intros f ops. exact (run_refines_ext seq_step seq_ok_ext f ops 0 (Nat.le_0_l _)). Qed.
Print Assumptions cursor_refines_ext_sequential.

Theorem cursor_refines_ext_xtc : forall f ops, all_ext_range (length f) 0 ops = true ->
  run xdr_step f (0, 0) ops = spec_run f 0 ops.
Proof. intros f ops. exact (run_refines_ext xdr_step xdr_ok_ext f ops 0 (Nat.le_0_l _)). Qed.
Print Assumptions cursor_refines_ext_xtc.

Theorem cursor_refines_ext_netcdf_fixed : forall f ops, all_ext_range (length f) 0 ops = true ->
  run nc_fix_step f (0, 0) ops = spec_run f 0 ops.
Proof. intros f ops. exact (run_refines_ext nc_fix_step nc_fix_ok_ext f ops 0 (Nat.le_0_l _)). Qed.
Print Assumptions cursor_refines_ext_netcdf_fixed.

(* ================================================================== the two defective readers, characterised exactly
   over ALL histories (no range condition): every output is the abstract cursor's output at the abstract position p,
   except tell = p + e; the rules for the excess e (Extended.trr_upd / nc_upd) are the defect.  Frames are always right. *)
Theorem trr_current_characterised : forall f, length f < trr_chunk -> forall ops p e, p <= length f ->
  run trr_cur_step f (p, p + e) ops = off_run trr_upd f (p, e) ops.
Proof. exact trr_cur_characterised. Qed.
Print Assumptions trr_current_characterised.

Theorem netcdf_current_characterised : forall f ops r,
  run nc_cur_step f (r, r) ops = off_run nc_upd f (Nat.min r (length f), r - Nat.min r (length f)) ops.
Proof. exact nc_cur_characterised. Qed.
Print Assumptions netcdf_current_characterised.

(* ================================================================== the read-ahead loops of xtc.pyx / trr.pyx read()
   read() without n_frames loops over _read(chunk), chunk = max(|int((approx_n_frames - frame_counter) * multiplier)|,
   min_chunk_size): a function [ch] of the reported counter, at least 1 (chunk_ok).  The theorems hold for EVERY such
   function, so for every min_chunk_size / chunk_size_multiplier / file size. *)

(* xtc: the loop code is the one-shot reader of Model.xdr_step on every state and operation ... *)
Theorem xtc_read_ahead_loop_is_one_read : forall ch, chunk_ok ch ->
  forall f s o, xtc_ch_step ch f s o = xdr_step f s o.
Proof. exact xtc_ch_step_is_xdr_step. Qed.
Print Assumptions xtc_read_ahead_loop_is_one_read.

(* ... hence refines the abstract cursor on every ext-range history *)
Theorem cursor_refines_ext_xtc_any_chunk : forall ch, chunk_ok ch -> forall f ops,
  all_ext_range (length f) 0 ops = true -> run (xtc_ch_step ch) f (0, 0) ops = spec_run f 0 ops.
Proof. exact xtc_chunked_refines_cursor. Qed.
Print Assumptions cursor_refines_ext_xtc_any_chunk.

(* trr: Model.trr_cur_step is the loop with the default constant chunk 100 *)
Theorem trr_model_is_the_loop_with_default_chunk : forall f s o,
  trr_ch_step (fun _ => trr_chunk) f s o = trr_cur_step f s o.
Proof. exact trr_default_chunk_is_model. Qed.
Print Assumptions trr_model_is_the_loop_with_default_chunk.

(* trr as found, characterised for EVERY file (no bound on its length) and every chunk function: the offset cursor
   trr_upd_ch; read() adds trr_tail to the reported position *)
Theorem trr_current_characterised_any_file_any_chunk : forall ch f, chunk_ok ch -> forall ops p e, p <= length f ->
  run (trr_ch_step ch) f (p, p + e) ops = off_run (trr_upd_ch ch) f (p, e) ops.
Proof. exact trr_chunked_characterised. Qed.
Print Assumptions trr_current_characterised_any_file_any_chunk.

(* with a constant chunk c: read() leaves tell() at len + 1 when c divides the number of remaining frames, at len + 2
   otherwise (so a 100-frame TRR file read with the defaults reports 101, a 10-frame one 12) *)
Theorem trr_read_to_end_excess_constant_chunk : forall c rem r, 1 <= c ->
  trr_tail (fun _ => c) rem r = if rem mod c =? 0 then 1 else 2.
Proof. exact trr_tail_constant_chunk. Qed.
Print Assumptions trr_read_to_end_excess_constant_chunk.

Example read_ahead_witnesses :
  run (trr_ch_step (const_chunk 3)) (seq 0 6) (0, 0) [ReadAll; Tell] = [Frames (seq 0 6); Pos 7] /\
  run (trr_ch_step (const_chunk 4)) (seq 0 6) (0, 0) [ReadAll; Tell] = [Frames (seq 0 6); Pos 8] /\
  run (xtc_ch_step (const_chunk 4)) (seq 0 6) (0, 0) [ReadAll; Tell] = [Frames (seq 0 6); Pos 6].
Proof. exact trr_chunk_witnesses. Qed.
Print Assumptions read_ahead_witnesses.

(* non-vacuity of chunk_ok: every constant chunk the runs use *)
Example constant_chunks_are_chunk_functions : forall c, chunk_ok (const_chunk c).
Proof. exact const_chunk_ok. Qed.
Print Assumptions constant_chunks_are_chunk_functions.

(* ================================================================== per-run tie by translation
   a reader description extracted from the Python source (coq/Gen/LoadReaders.v) that is assigned one of the conforming
   cursor families (Gen/CursorReaders.v proves the assignment of C18's FORMATS table on every run) refines the
   abstract cursor on every ext-range history *)
Theorem reflected_reader_refines_cursor : forall r v (f : list nat),
  MD.Load.CursorLink.cursor_family r = Some v -> v <> 7 ->
  forall ops, all_ext_range (length f) 0 ops = true ->
  MD.Load.CursorLink.rrun r f MD.Load.Model.st0 ops = spec_run f 0 ops.
Proof.
  intros r v f Hv H7 ops Hr.
  apply (MD.Load.CursorLink.reflected_reader_refines_cursor r v f Hv H7 ops MD.Load.Model.st0 0);
    [split; reflexivity|apply Nat.le_0_l|exact Hr].
Qed.
Print Assumptions reflected_reader_refines_cursor.

(* ================================================================== file variants
   The model sees a file as the list of its frames and nothing else, and the contract is natural in the frames:
   whatever a frame carries (cell or no cell; all atoms or, in a CHARMM fixed-atom DCD, only the free ones after the
   first frame) the same positions, counts and frames-by-index come out.  The variants of the correspondence differ
   only below that abstraction:
     no-cell files   the per-frame record is shorter (dcd: no 48-byte cell block; xtc/trr: zero box; nc/h5: no cell arrays);
     dcd0.dcd        NSET = 0 in the header: len() comes from the file size instead of the header, the list is the same;
     dcdfix.dcd      fixed atoms: frames after the first store only the free atoms, so a backward seek must re-read
                     frame 0 (finding C18-dcd-fixed-atoms-backward-seek, repaired) - the frame LIST is unchanged;
     xyznonl.xyz     no final newline: the last frame ends at EOF instead of at a newline - one more frame, not a
                     different cursor.
   That each of these really yields the same list is what the correspondence checks on real files. *)
Theorem cursor_contract_natural_in_frames : forall (g : frame -> frame) (f : file) ops p,
  spec_run (map g f) p ops = map (map_out g) (spec_run f p ops).
Proof. exact spec_run_natural. Qed.
Print Assumptions cursor_contract_natural_in_frames.

(* non-vacuity of the ext range: a history with over-reads and reads at the end of the file *)
Example ext_range_history_exists :
  all_ext_range 10 0 [Read 7; Read 5; Tell; Read 2; ReadAll; SeekRel (-3); Read 9; Tell; Seek 9; Read 1; Read 1] = true.
Proof. reflexivity. Qed.
Print Assumptions ext_range_history_exists.

(* non-vacuity: a non-trivial history satisfies the hypothesis *)
Example in_range_history_exists :
  all_in_range 10 0 [Read 3; SeekRel (-2); Read 2; Tell; ReadAll; Seek 9; Read 1; Tell; Len] = true.
Proof. reflexivity. Qed.
Print Assumptions in_range_history_exists.
