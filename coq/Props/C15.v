(* C15 -- secondary-structure codes follow the DSSP rules on the backbone H-bonds.
   Statements only, closed by [exact]; vocabulary in Dssp/Rules.v, Dssp/Bridges.v, Dssp/Layer.v.

   The model (Dssp/Model.v) is a transliteration of dssp.cpp / dssp.py.  The theorems below say that
   its output, for EVERY input (n, chain ids, incomplete-residue mask, H-bond table, bend flags),
   is what the published DSSP rules prescribe:

     code r            = the model's enum value for residue r      (sec_at (dssp_frame ...) r)
     turn_at s i       = H-bond NH(i+s) -> CO(i), same chain        ("n-turn at i")
     minimal_helix s i = turns at i-1 and i                          (first residue i)
     alpha_at r        = r in [i, i+3] of a minimal 4-helix
     g_at r / i_at r   = same for 3 / 5 with the emptiness test of the C++ loops spelled out
     sheet_code r      = E / B / blank from the ladder list
     plain r           = no helix and no sheet code                                               *)
From Coq Require Import List Arith Bool String Lia Sorting.Permutation.
Import ListNotations.
Require Import MD.Gen.DsspTables MD.Dssp.Model MD.Dssp.Proofs MD.Dssp.Rules MD.Dssp.Bridges MD.Dssp.Layer MD.Dssp.Merge.
Local Open Scope string_scope.
Local Open Scope nat_scope.

(* one code per residue per frame, from the stated alphabets *)
Theorem one_code_per_residue : forall simp n ch skip hb geom,
  List.length (compute_dssp simp n ch skip hb geom) = n /\
  forall c, In c (compute_dssp simp n ch skip hb geom) ->
    if simp then In c ["H"; "E"; "C"; "NA"] else In c ["H"; "B"; "E"; "G"; "I"; "T"; "S"; " "; "NA"].
Proof. intros. split; [apply compute_dssp_length | apply codes_alphabet]. Qed.
Print Assumptions one_code_per_residue.

(* the helix_flags bookkeeping (START / END / START_AND_END / MIDDLE, chain by chain) marks i as the
   start of an s-turn exactly when the H-bond (i+s -> i) exists inside one chain *)
Theorem n_turn_flags : forall n ch hb s i, 1 <= s ->
  is_start (helix_flags n ch hb s) i = turnb n ch hb s i.
Proof. exact is_start_spec. Qed.
Print Assumptions n_turn_flags.

Theorem helix_rule : forall n ch skip hb geom r, r < n ->
  (sec_at (dssp_frame n ch skip hb geom) r = SS_ALPHAHELIX <->
   alpha_at n ch hb r /\ ~ i_at n ch skip hb r).
Proof. exact Rules.helix_rule. Qed.
Print Assumptions helix_rule.

Theorem g_rule : forall n ch skip hb geom r, r < n ->
  (sec_at (dssp_frame n ch skip hb geom) r = SS_HELIX_3 <-> g_at n ch skip hb r).
Proof. exact Rules.g_rule. Qed.
Print Assumptions g_rule.

Theorem i_rule : forall n ch skip hb geom r, r < n ->
  (sec_at (dssp_frame n ch skip hb geom) r = SS_HELIX_5 <-> i_at n ch skip hb r).
Proof. exact Rules.i_rule. Qed.
Print Assumptions i_rule.

(* priority: G never inside H, I never over G *)
Theorem helix_priority : forall n ch skip hb r,
  (g_at n ch skip hb r -> ~ alpha_at n ch hb r) /\ (i_at n ch skip hb r -> ~ g_at n ch skip hb r).
Proof. intros. split; [apply g_excludes_alpha | apply i_excludes_g]. Qed.
Print Assumptions helix_priority.

Theorem turn_bend_rule : forall n ch skip hb geom r, r < n ->
  (sec_at (dssp_frame n ch skip hb geom) r = SS_TURN <->
     1 <= r /\ r + 1 < n /\ skip_at skip r = false /\ plain n ch skip hb r /\ turn_inside n ch hb r) /\
  (sec_at (dssp_frame n ch skip hb geom) r = SS_BEND <->
     1 <= r /\ r + 1 < n /\ skip_at skip r = false /\ plain n ch skip hb r /\
     ~ turn_inside n ch hb r /\ is_bend n ch skip geom r = true).
Proof. exact Rules.turn_bend_rule. Qed.
Print Assumptions turn_bend_rule.

Theorem blank_rule : forall n ch skip hb geom r, r < n ->
  (sec_at (dssp_frame n ch skip hb geom) r = SS_LOOP <->
     plain n ch skip hb r /\
     (r = 0 \/ n <= r + 1 \/ skip_at skip r = true \/
      (~ turn_inside n ch hb r /\ is_bend n ch skip geom r = false))).
Proof. exact Rules.blank_rule. Qed.
Print Assumptions blank_rule.

(* sheets: E and B are kept unless an alpha helix covers the residue *)
Theorem sheet_survives_rule : forall n ch skip hb geom r c, r < n ->
  (c = SS_STRAND \/ c = SS_BETABRIDGE) ->
  (sec_at (dssp_frame n ch skip hb geom) r = c <-> sheet_code n ch skip hb r = c /\ ~ alpha_at n ch hb r).
Proof. exact Rules.sheet_rule. Qed.
Print Assumptions sheet_survives_rule.

(* E / B from the final bridge list (bulge-merged ladders included): E iff covered by a record with
   at least two bridges, B iff covered only by single bridges *)
Theorem strand_marking : forall n ch skip hb r, r < n ->
  sheet_code n ch skip hb r =
  if existsb (fun b => covers b r && is_ladder b) (ladders n ch skip hb) then SS_STRAND
  else if existsb (fun b => covers b r) (ladders n ch skip hb) then SS_BETABRIDGE else SS_LOOP.
Proof. exact secB_at. Qed.
Print Assumptions strand_marking.

Theorem bridge_symmetric : forall i j n ch hb,
  residue_test_bridge i j n ch hb = residue_test_bridge j i n ch hb.
Proof. exact bridge_test_symmetric. Qed.
Print Assumptions bridge_symmetric.

(* every record built by the bridge loop is a run of consecutive residues paired one to one with a
   run of consecutive partners, every pair passing the bridge test with the record's type *)
Theorem bridge_records_are_ladders : forall n ch skip hb,
  Forall (bridge_ok n ch skip hb) (initial_bridges n ch skip hb).
Proof. exact initial_bridges_ok. Qed.
Print Assumptions bridge_records_are_ladders.

(* ... and every visited residue pair (i, j), j >= i+3, that passes the bridge test and has no incomplete
   member, sits in some record of its type at matching positions *)
Theorem bridge_records_complete : forall n ch skip hb ij, In ij (bridge_pairs n) ->
  qualifies n ch skip hb ij = true -> held n ch hb (initial_bridges n ch skip hb) ij.
Proof. exact initial_bridges_complete. Qed.
Print Assumptions bridge_records_complete.

(* ---- bulge merging, for ALL ladder sets --------------------------------------------------------
   The "Extend ladders" loop is greedy: the records are scanned in sorted order, the current record
   absorbs, in order, every later record that satisfies the bulge rule against the ladder ACCUMULATED SO
   FAR, absorbed records are erased, then the next surviving record becomes current.
   [ladder_groups] names the outcome: the members of every final ladder record, in order. *)

(* the final ladder list is the list of merged groups *)
Theorem ladders_are_merged_groups : forall n ch skip hb,
  ladders n ch skip hb = map merge_group (ladder_groups n ch skip hb).
Proof. exact ladders_are_groups. Qed.
Print Assumptions ladders_are_merged_groups.

(* the groups partition the un-merged records *)
Theorem merge_groups_partition : forall n ch skip hb,
  Permutation (List.concat (ladder_groups n ch skip hb)) (initial_bridges n ch skip hb).
Proof. exact ladder_groups_partition. Qed.
Print Assumptions merge_groups_partition.

(* how they arise: the first group is the first record plus what a scan of the remaining records absorbs
   (Scan: every absorbed record satisfied the bulge rule against the ladder accumulated when it was
   examined, every record passed over failed it at that moment); the other groups are the groups of
   what was passed over *)
Theorem merge_groups_scan : forall ch f b rest,
  exists ab lf, groups (S f) ch (b :: rest) = (b :: ab) :: groups f ch lf /\ Scan ch [b] rest ab lf.
Proof. exact groups_scan. Qed.
Print Assumptions merge_groups_scan.

(* the bulge rule in the published form: same type, each strand within one chain, the candidate's i
   strand starts after the ladder's with at most 4 residues in between, its j strand continues the
   ladder's in the direction of the type, and the gaps are (<= 4 on j and <= 1 on i) or (<= 1 on j) *)
Theorem bulge_rule : forall ch a b,
  let ibi := front (b_i a) in let iei := back (b_i a) in
  let jbi := front (b_j a) in let jei := back (b_j a) in
  let ibj := front (b_i b) in let iej := back (b_i b) in
  let jbj := front (b_j b) in let jej := back (b_j b) in
  should_merge ch a b = true <->
  b_type a = b_type b /\
  chain_at ch (Nat.min ibi ibj) = chain_at ch (Nat.max iei iej) /\
  chain_at ch (Nat.min jbi jbj) = chain_at ch (Nat.max jei jej) /\
  gap_le iei ibj 4 /\ ~ (ibj <= iei /\ ibi <= iej) /\
  ((b_type a = BRIDGE_PARALLEL /\ jbi < jbj /\
      ((gap_le jei jbj 4 /\ gap_le iei ibj 1) \/ gap_le jei jbj 1)) \/
   (b_type a <> BRIDGE_PARALLEL /\ jbj < jbi /\
      ((gap_le jej jbi 4 /\ gap_le iei ibj 1) \/ gap_le jej jbi 1))).
Proof. exact should_merge_spec. Qed.
Print Assumptions bulge_rule.

(* the accumulated ladder the rule is tested against is determined by the first and the last member *)
Theorem merged_ladder_ends : forall c r, Forall strands_nonempty (c :: r) ->
  let m := merge_group (c :: r) in let l := last r c in
  b_type m = b_type c /\
  (front (b_i m), back (b_i m)) = ends_i c l /\ (front (b_j m), back (b_j m)) = ends_j c l.
Proof. exact group_ends. Qed.
Print Assumptions merged_ladder_ends.

(* strand_vs_bridge, FULL (every ladder set, any number of merges per ladder): r is E iff it lies in the
   span of a merge group that is a ladder (two or more members, or one record of two or more bridges) --
   the span runs from the first residue of the first member to the last residue of the last member on
   each strand, bulge residues included; r is B iff it lies only in spans of isolated bridges *)
Theorem strand_vs_bridge : forall n ch skip hb r, r < n ->
  (sheet_code n ch skip hb r = SS_STRAND <->
     exists g, In g (ladder_groups n ch skip hb) /\ span g r = true /\ group_is_ladder g) /\
  (sheet_code n ch skip hb r = SS_BETABRIDGE <->
     (exists g, In g (ladder_groups n ch skip hb) /\ span g r = true) /\
     ~ exists g, In g (ladder_groups n ch skip hb) /\ span g r = true /\ group_is_ladder g).
Proof. exact sheet_rule_all. Qed.
Print Assumptions strand_vs_bridge.

(* special case without bulges: membership in the records themselves *)
Theorem strand_vs_bridge_merge_free : forall n ch skip hb r, r < n ->
  (forall a b, In a (initial_bridges n ch skip hb) -> In b (initial_bridges n ch skip hb) ->
               should_merge ch a b = false) ->
  (sheet_code n ch skip hb r = SS_STRAND <->
     exists b, In b (initial_bridges n ch skip hb) /\ 2 <= List.length (b_i b) /\ member b r) /\
  (sheet_code n ch skip hb r = SS_BETABRIDGE <->
     (exists b, In b (initial_bridges n ch skip hb) /\ member b r) /\
     ~ exists b, In b (initial_bridges n ch skip hb) /\ 2 <= List.length (b_i b) /\ member b r).
Proof. exact sheet_rule_merge_free. Qed.
Print Assumptions strand_vs_bridge_merge_free.

(* incomplete residues: never a member of a bridge or ladder, never an end of an n-turn ... *)
Theorem skip_never_pairs : forall n ch skip hb b x, In b (ladders n ch skip hb) ->
  In x (b_i b) \/ In x (b_j b) -> skip_at skip x = false.
Proof. exact Layer.skip_never_pairs. Qed.
Print Assumptions skip_never_pairs.

Theorem skip_never_turns : forall n ch skip hb s i, hb_respects_skip skip hb ->
  turnb n ch hb s i = true -> skip_at skip i = false /\ skip_at skip (i + s) = false.
Proof. exact skip_no_turn. Qed.
Print Assumptions skip_never_turns.

(* ... never T or S (turn_bend_rule), always shown as 'NA' and nothing else is ... *)
Theorem na_overlay : forall simp n ch skip hb geom r, r < n ->
  (nth r (compute_dssp simp n ch skip hb geom) "" = "NA" <-> skip_at skip r = true).
Proof. exact Layer.na_overlay. Qed.
Print Assumptions na_overlay.

(* ... but at the C++ level "an incomplete residue keeps the blank code" is false: a helix or ladder
   range fill covers it (hidden by the overlay above) *)
Theorem skip_never_marked_refuted : exists n ch skip hb geom r,
  hb_respects_skip skip hb /\ r < n /\ skip_at skip r = true /\
  sec_at (dssp_frame n ch skip hb geom) r <> SS_LOOP.
Proof. exact Layer.skip_never_marked_refuted. Qed.
Print Assumptions skip_never_marked_refuted.

(* the character switch and the simplified translation regenerated from today's source are the
   fixed tables of the property, and simplified output is the image of the full output *)
Theorem char_map : forall s, ss_char s = char_spec s.
Proof. exact char_map_spec. Qed.
Print Assumptions char_map.

Theorem simplified_map : forall s, simplify (ss_char s) = simplified_spec s.
Proof. exact simplified_map_spec. Qed.
Print Assumptions simplified_map.

Theorem simplified_is_image : forall n ch skip hb geom,
  compute_dssp true n ch skip hb geom = map simplify_code (compute_dssp false n ch skip hb geom).
Proof. exact Layer.simplified_is_image. Qed.
Print Assumptions simplified_is_image.

Theorem bend_threshold_is_70_degrees : bend_angle_degrees = 70.
Proof. exact bend_angle_spec. Qed.
Print Assumptions bend_threshold_is_70_degrees.

(* ---------------------------------------------------------------- non-vacuity *)
Definition ex_helix_hb : hbtable := map (fun d => if 4 <=? d then [d - 4] else []) (seq 0 12).
Example helix_example :
  dssp_chars 12 (repeat 0 12) (repeat false 12) ex_helix_hb (repeat false 12) =
  [" "; "H"; "H"; "H"; "H"; "H"; "H"; "H"; "H"; "H"; "H"; " "].
Proof. vm_compute. reflexivity. Qed.
Print Assumptions helix_example.

(* alpha_at is inhabited in that example *)
Example alpha_at_example : alpha_at 12 (repeat 0 12) ex_helix_hb 3.
Proof. exists 1. split; [|lia]. split; [lia|]. split; vm_compute; reflexivity. Qed.
Print Assumptions alpha_at_example.

(* an antiparallel hairpin 2-4 / 7-9: a ladder of three bridges, no merging possible *)
Definition ex_hairpin_hb : hbtable := [[]; []; [9]; []; [7]; []; []; [4]; []; [2]; []; []].
Example hairpin_example :
  dssp_chars 12 (repeat 0 12) (repeat false 12) ex_hairpin_hb (repeat false 12) =
  [" "; " "; "E"; "E"; "E"; "T"; "T"; "E"; "E"; "E"; " "; " "].
Proof. vm_compute. reflexivity. Qed.
Print Assumptions hairpin_example.

Example merge_free_hypothesis_satisfiable :
  initial_bridges 12 (repeat 0 12) (repeat false 12) ex_hairpin_hb <> [] /\
  forall a b, In a (initial_bridges 12 (repeat 0 12) (repeat false 12) ex_hairpin_hb) ->
              In b (initial_bridges 12 (repeat 0 12) (repeat false 12) ex_hairpin_hb) ->
              should_merge (repeat 0 12) a b = false.
Proof.
  split; [vm_compute; discriminate|].
  assert (H : forallb (fun a => forallb (fun b => negb (should_merge (repeat 0 12) a b))
                 (initial_bridges 12 (repeat 0 12) (repeat false 12) ex_hairpin_hb))
                 (initial_bridges 12 (repeat 0 12) (repeat false 12) ex_hairpin_hb) = true)
    by (vm_compute; reflexivity).
  intros a b Ha Hb. rewrite forallb_forall in H. specialize (H a Ha). rewrite forallb_forall in H.
  specialize (H b Hb). now destruct (should_merge (repeat 0 12) a b).
Qed.
Print Assumptions merge_free_hypothesis_satisfiable.

(* two antiparallel ladders (2-4 / 13-15 and 5-6 / 10-11) joined across a one-residue bulge at 12:
   merged into one record, the bulge residue 12 is E too; 7-9 lie inside the 4-turn 10 -> 6 *)
Definition ex_bulge_hb : hbtable :=
  [[]; []; [15]; []; [13]; [11]; [10]; []; []; []; [6]; [5]; []; [4]; []; [2]; []; []].
Example bulge_example :
  dssp_chars 18 (repeat 0 18) (repeat false 18) ex_bulge_hb (repeat false 18) =
  [" "; " "; "E"; "E"; "E"; "E"; "E"; "T"; "T"; "T"; "E"; "E"; "E"; "E"; "E"; "E"; " "; " "] /\
  map (fun b => (b_i b, b_j b)) (ladders 18 (repeat 0 18) (repeat false 18) ex_bulge_hb) =
  [([2; 3; 4; 5; 6], [10; 11; 13; 14; 15])] /\
  map (map (fun b => (b_i b, b_j b))) (ladder_groups 18 (repeat 0 18) (repeat false 18) ex_bulge_hb) =
  [[([2; 3; 4], [13; 14; 15]); ([5; 6], [10; 11])]].
Proof. repeat split; vm_compute; reflexivity. Qed.
Print Assumptions bulge_example.

(* ================================================================= bends from the C-alpha geometry *)
(* The kappa > 70 degrees test of calculate_bends on EXACT coordinates (Dssp/Bend.v): every float32 coordinate is
   a dyadic rational, the CA coordinates of a frame are integers in a common unit, and the decision is made on the
   integers D = (CA_i - CA_i-2).(CA_i+2 - CA_i), A, B = the squared lengths of these two virtual-bond vectors,
   against a rational enclosure of cos(70 degrees +- guard) that is PROVED against the real numbers (Hbond/AngleR.v:
   3141592653e-9 < pi < 3141592654e-9, partial sums 7 / 8 of the cosine series, monotonicity of cos and acos).
   kappa_real D A B = acos(clip(D / sqrt(A B))) is the angle the C code computes, in exact arithmetic.
   (Statements over R: standard-library real-number axioms and classic.) *)
From Coq Require Import ZArith QArith Qreals Reals.
Require Import MD.Hbond.Angle MD.Hbond.AngleR MD.Dssp.Bend MD.Dssp.BendR.
Local Open Scope nat_scope.

(* the three numbers: dot product and squared lengths of the successive CA(i-2)->CA(i), CA(i)->CA(i+2) vectors *)
Theorem bend_vectors : forall px py pz tx ty tz nx ny nz : Z,
  kappa_terms (px, py, pz) (tx, ty, tz) (nx, ny, nz) =
  (((tx - px) * (nx - tx) + (ty - py) * (ny - ty) + (tz - pz) * (nz - tz))%Z,
   ((tx - px) * (tx - px) + (ty - py) * (ty - py) + (tz - pz) * (tz - pz))%Z,
   ((nx - tx) * (nx - tx) + (ny - ty) * (ny - ty) + (nz - tz) * (nz - tz))%Z).
Proof. exact kappa_dot_meaning. Qed.
Print Assumptions bend_vectors.

(* sure side: a positive answer implies kappa > deg degrees over the reals *)
Theorem bend_sure_is_sound : forall deg p t nx D A B, kappa_terms p t nx = (D, A, B) ->
  (0 < A)%Z -> (0 < B)%Z -> (0 <= Q2R deg < 180)%R ->
  kappa_gt true deg p t nx = true -> (Q2R deg * PI / 180 < kappa_real D A B)%R.
Proof. exact kappa_sure_sound. Qed.
Print Assumptions bend_sure_is_sound.

(* maybe side: kappa > deg degrees over the reals implies a positive answer *)
Theorem bend_maybe_is_complete : forall deg p t nx D A B, kappa_terms p t nx = (D, A, B) ->
  (0 < A)%Z -> (0 < B)%Z -> (0 <= Q2R deg < 180)%R ->
  (Q2R deg * PI / 180 < kappa_real D A B)%R -> kappa_gt false deg p t nx = true.
Proof. exact kappa_maybe_complete. Qed.
Print Assumptions bend_maybe_is_complete.

(* as found: with coinciding CA atoms the C code's 0/0 passes through the CLIP macro as -1, kappa = pi: a bend *)
Theorem bend_degenerate_as_found : forall sure deg p t nx D A B, kappa_terms p t nx = (D, A, B) ->
  (A * B = 0)%Z -> kappa_gt sure deg p t nx = true.
Proof. exact kappa_degenerate. Qed.
Print Assumptions bend_degenerate_as_found.

(* the bend condition of the rule model (turn_bend_rule) with the flags computed from the coordinates *)
Theorem bend_from_coordinates : forall sure deg n ch skip ca r, List.length ca = n ->
  (is_bend n ch skip (geom_flags sure deg ca) r = true <->
   2 <= r /\ r + 2 < n /\ chain_at ch (r - 2) = chain_at ch (r + 2) /\
   skip_at skip (r - 2) = false /\ skip_at skip r = false /\ skip_at skip (r + 2) = false /\
   exists p t nx, ca_at ca (r - 2) = Some p /\ ca_at ca r = Some t /\ ca_at ca (r + 2) = Some nx /\
                  kappa_gt sure deg p t nx = true).
Proof. exact is_bend_xyz. Qed.
Print Assumptions bend_from_coordinates.

(* the two rational bounds compiled into the correspondence are the ends of the enclosure at 70 +- 1/1000 degree *)
Theorem bend_bounds : 
  bend_k_sure = cos_bound true (Qplus bend_deg bend_guard) /\
  bend_k_maybe = cos_bound false (Qminus bend_deg bend_guard).
Proof. exact bend_bounds_are_the_enclosure. Qed.
Print Assumptions bend_bounds.

(* non-vacuity: a right angle is certainly a bend, a straight continuation certainly is not *)
Example bend_example :
  kappa_gt true 70 (1, 0, 0)%Z (0, 0, 0)%Z (0, 1, 0)%Z = true /\
  kappa_gt false 70 (0, 0, 0)%Z (1, 0, 0)%Z (2, 0, 0)%Z = false /\
  kappa_terms (1, 0, 0)%Z (0, 0, 0)%Z (0, 1, 0)%Z = (0, 1, 1)%Z.
Proof. repeat split; vm_compute; reflexivity. Qed.
Print Assumptions bend_example.

(* ================================================================= 'NA' from the topology's atom names *)
(* The incomplete-residue mask is not an input of the end-to-end model any more: it is derived from the residues'
   atom names by the model of _prep_kabsch_sander_arrays (Hbond/KsWrap.v, shared with C14).  compute_dssp reports
   'NA' for residue r iff the residue has no atom named N, or CA, or C, or O.  (Closed.) *)
Require Import MD.Hbond.KsWrap MD.Hbond.KsWrapProofs.
Theorem na_iff_backbone_name_missing : forall simp ch rs hb geom r d, r < List.length rs ->
  (nth r (compute_dssp simp (List.length rs) ch (skip_of rs) hb geom) ""%string = "NA"%string <->
   ~ (has_atom "N" (nth r rs d) /\ has_atom "CA" (nth r rs d) /\ has_atom "C" (nth r rs d) /\ has_atom "O" (nth r rs d))).
Proof. exact BendR.na_iff_backbone_name_missing. Qed.
Print Assumptions na_iff_backbone_name_missing.
