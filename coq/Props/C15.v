(* C15 -- secondary-structure codes follow the DSSP rules.  Statements only. *)
From Coq Require Import List Arith Bool String.
Import ListNotations.
Require Import MD.Gen.DsspTables MD.Dssp.Model MD.Dssp.Proofs.

Theorem update_range_keeps_length : forall A lo hi (f : A -> A) l,
  List.length (update_range lo hi f l) = List.length l.
Proof. exact update_range_length. Qed.
Print Assumptions update_range_keeps_length.
