(* C08 - per-frame results depend only on that frame, not on neighbouring frames, frame order or threads.
   Only statements, closed by [exact], and Print Assumptions.

   What these theorems are about: the loop DISCIPLINE.  A parallel (or serial) per-frame loop is a schedule of
   iterations over threads, each thread threading a private scratch through its iterations (MD.Sched.ParFor).  If what
   an iteration writes does not depend on the scratch it receives, every admissible schedule produces the same output
   array, each slot being the iteration evaluated on its own.  MD.Sched.Scratch gives a checkable sufficient
   condition; MD.Sched.Kernels holds hand-written skeletons of mdtraj's loops.  That the compiled C++/Cython follows
   the skeletons is NOT proved: it is tested, bit for bit, by the schedule sweep of harness/props/C08.py (and for the
   SASA loop by a skeleton regenerated from sasa.cpp).  Floating-point reproducibility inside a frame is a run-time
   fact outside any theorem here. *)
From Coq Require Import String.
From Coq Require Import List Arith ZArith Bool.
Import ListNotations.
Require Import MD.Sched.ParFor MD.Sched.Proofs MD.Sched.Scratch MD.Sched.ScratchProofs MD.Sched.Kernels MD.Sched.KernelProofs.
Require Import MD.Sched.FrameLoop MD.Sched.FrameLoopProofs MD.Sched.FrameLoopPar MD.Gen.SchedPyx.
Require Import MD.Sasa.Model MD.Sasa.Proofs MD.Sasa.LowLevel MD.Sasa.LowLevelProofs MD.Gen.SchedSasa MD.Gen.SchedKernels.
Open Scope Z_scope.

(* ---- the general statement ---- *)
Theorem parfor_schedule_free : forall (I S O : Type) (body : S -> I -> S * O) (s0 : S) (dflt : I),
  body_ignores_scratch body ->
  forall inputs sched, covers (length inputs) sched ->
  parfor body s0 dflt inputs sched = reference body s0 inputs.
Proof. exact Proofs.parfor_schedule_free. Qed.
Print Assumptions parfor_schedule_free.

(* any two thread counts / schedules give the same array *)
Theorem thread_count_independent : forall (I S O : Type) (body : S -> I -> S * O) (s0 : S) (dflt : I),
  body_ignores_scratch body ->
  forall inputs sc1 sc2, covers (length inputs) sc1 -> covers (length inputs) sc2 ->
  parfor body s0 dflt inputs sc1 = parfor body s0 dflt inputs sc2.
Proof. exact parfor_any_two_schedules. Qed.
Print Assumptions thread_count_independent.

(* a frame inside a trajectory = the frame alone *)
Theorem frame_local : forall (I S O : Type) (body : S -> I -> S * O) (s0 : S) (dflt : I),
  body_ignores_scratch body ->
  forall inputs sched i, covers (length inputs) sched -> (i < length inputs)%nat ->
  nth i (parfor body s0 dflt inputs sched) None =
  nth 0 (parfor body s0 dflt [nth i inputs dflt] (sched_serial 1)) None.
Proof. exact parfor_frame_local. Qed.
Print Assumptions frame_local.

(* reordering the frames reorders the results *)
Theorem permutation_equivariant : forall (I S O : Type) (body : S -> I -> S * O) (s0 : S) (dflt : I),
  body_ignores_scratch body ->
  forall inputs sigma sched sched',
  covers (length inputs) sched -> covers (length sigma) sched' ->
  (forall j, In j sigma -> (j < length inputs)%nat) ->
  parfor body s0 dflt (map (fun j => nth j inputs dflt) sigma) sched' =
  map (fun j => nth j (parfor body s0 dflt inputs sched) None) sigma.
Proof. exact parfor_permutation. Qed.
Print Assumptions permutation_equivariant.

(* with one iteration per thread nothing is carried, whatever the body does (why many threads hide a carried buffer) *)
Theorem one_thread_per_frame_needs_no_discipline : forall (I S O : Type) (body : S -> I -> S * O) (s0 : S) (dflt : I) inputs,
  parfor body s0 dflt inputs (sched_one_each (length inputs)) = reference body s0 inputs.
Proof. exact parfor_one_each. Qed.
Print Assumptions one_thread_per_frame_needs_no_discipline.

(* the schedules OpenMP actually uses for these loops are admissible *)
Theorem static_schedule_admissible : forall n t, (1 <= t)%nat -> covers n (sched_static n t).
Proof. exact static_covers. Qed.
Print Assumptions static_schedule_admissible.

(* ---- a checkable discipline ---- *)
Theorem scratch_discipline_sound : forall p, ok_prog p = true -> body_ignores_scratch (body_of p).
Proof. exact ok_prog_ignores_scratch. Qed.
Print Assumptions scratch_discipline_sound.

(* ---- mdtraj's loops (skeletons) ---- *)
Theorem kernel_skeletons_disciplined : forallb ok_prog skeletons = true.
Proof. exact skeletons_ok. Qed.
Print Assumptions kernel_skeletons_disciplined.

Theorem kernel_skeletons_schedule_free : forall p, In p skeletons -> forall s0 inputs sched,
  covers (length inputs) sched -> parfor (body_of p) s0 [] inputs sched = reference (body_of p) s0 inputs.
Proof. exact skeleton_schedule_free. Qed.
Print Assumptions kernel_skeletons_schedule_free.

(* ---- the SASA loop: as found and repaired ---- *)
(* as found: the skeleton is rejected by the checker, and indeed its output depends on the incoming buffer *)
Theorem sasa_body_ignores_scratch_current_refuted :
  ok_prog sasa_cur_prog = false /\ ~ body_ignores_scratch (body_of sasa_cur_prog) /\
  parfor (body_of sasa_cur_prog) [0] [] [[3; 2]; [3; 2]] (sched_serial 2) <>
  parfor (body_of sasa_cur_prog) [0] [] [[3; 2]; [3; 2]] (sched_one_each 2).
Proof. exact (conj sasa_cur_prog_rejected (conj sasa_cur_prog_refuted sasa_cur_prog_schedule_dependent)). Qed.
Print Assumptions sasa_body_ignores_scratch_current_refuted.

(* the same for the full model of sasa.cpp (MD.Sasa.Model), not just the skeleton *)
Theorem sasa_model_body_current_refuted : exists K M pts radii mask mapping row0,
  ~ body_ignores_scratch (body_cur K M pts radii mask mapping row0).
Proof. exact sasa_body_cur_refuted. Qed.
Print Assumptions sasa_model_body_current_refuted.

Theorem sasa_model_body_fixed : forall K M pts radii mask mapping row0,
  body_ignores_scratch (body_fix K M pts radii mask mapping row0).
Proof. exact body_fix_ignores. Qed.
Print Assumptions sasa_model_body_fixed.

Theorem sasa_model_fixed_schedule_free : forall K M pts radii mask mapping row0 frames sched,
  covers (length frames) sched ->
  sasa_kernel K M pts radii mask mapping row0 true frames sched =
  map (fun fr => Some (frame_row K M pts radii mask mapping row0 fr)) frames.
Proof. exact sasa_fix_frame_fresh. Qed.
Print Assumptions sasa_model_fixed_schedule_free.

(* the skeleton is the per-atom update of the full model *)
Theorem sasa_skeleton_abstracts_model : forall K M pts ats i a prev,
  snd (run sasa_cur_prog [atom_count M pts ats i a; K * snd a * snd a] [prev]) = [atom_area K M pts ats i a prev].
Proof. exact sasa_skeleton_is_atom_area. Qed.
Print Assumptions sasa_skeleton_abstracts_model.

(* the loop as written in sasa.cpp in THIS run (regenerated): disciplined, or exactly the recorded as-found loop *)
Theorem sasa_source_loop_classified : ok_prog sasa_prog = true \/ sasa_prog = sasa_cur_prog.
Proof. exact sasa_prog_classified. Qed.
Print Assumptions sasa_source_loop_classified.

(* the other two per-thread buffers of sasa() - wb1 (neighbor_indices) and wb2 (centered_sphere_points) - are handed to
   asa_frame with whatever the thread's previous frame left in them: in the buffer-level model of asa_frame
   (MD.Sasa.LowLevel) the areas do not depend on that content *)
Theorem sasa_work_buffers_carry_nothing : forall K M pts ats mask buf wb1 wb2 wb1' wb2',
  (length ats <= length wb1)%nat -> (length pts <= length wb2)%nat ->
  (length ats <= length wb1')%nat -> (length pts <= length wb2')%nat ->
  fst (asa_frame_ll K M pts ats mask buf wb1 wb2) = fst (asa_frame_ll K M pts ats mask buf wb1' wb2').
Proof. exact asa_frame_ll_ignores_work_buffers. Qed.
Print Assumptions sasa_work_buffers_carry_nothing.

(* ---- serial frame loops with carried pointers (dssp, kabsch_sander, distance/angle/dihedral kernels, centering) ---- *)
(* A loop body over scratch cells and self-advanced cursors that (a) never reads a cell before writing it in the same
   iteration and (b) advances every cursor it uses exactly once per iteration, after the last use, leaves at output
   position j exactly what it writes when run on frame j alone, from any scratch. *)
Theorem frame_loop_local : forall G A p, fdisc p = true -> forall n s0 s0' j, (j < n)%nat ->
  writes_at j (floop G A p n 0 (s0, [])) = map snd (snd (frun G (shift A j) p 0 (s0', []))).
Proof. exact FrameLoopProofs.frame_loop_local. Qed.
Print Assumptions frame_loop_local.

(* the terms regenerated in THIS run from dssp.cpp, geometry.cpp, kernels/*.h, center_sse.h, neighbors.cpp,
   dridkernels.cpp and moments.cpp all obey the discipline ... *)
Theorem mdtraj_frame_loops_disciplined : forallb (fun k => fdisc (snd k)) scanned_kernels = true.
Proof. exact scanned_kernels_disciplined. Qed.
Print Assumptions mdtraj_frame_loops_disciplined.

(* ... hence each of them is frame-local in the sense above ... *)
Theorem mdtraj_frame_loops_local : forall name p, In (name, p) scanned_kernels ->
  forall G A n s0 s0' j, (j < n)%nat ->
  writes_at j (floop G A p n 0 (s0, [])) = map snd (snd (frun G (shift A j) p 0 (s0', []))).
Proof.
  intros name p Hin G A. apply (FrameLoopProofs.frame_loop_local G A p).
  exact (proj1 (forallb_forall _ _) scanned_kernels_disciplined (name, p) Hin).
Qed.
Print Assumptions mdtraj_frame_loops_local.

(* ... and the kernels called once per frame / per atom write no static or file-scope state *)
Theorem percall_kernels_keep_no_state : percall_static_written = [].
Proof. exact percall_kernels_stateless. Qed.
Print Assumptions percall_kernels_keep_no_state.

(* ... and no kernel source file holds state that outlives a call (mutable file-scope variables, static locals):
   nothing a call computes can depend on what the process computed before *)
Theorem kernel_sources_keep_no_state_between_calls : kernel_files_static_state = [].
Proof. exact kernel_files_stateless. Qed.
Print Assumptions kernel_sources_keep_no_state_between_calls.


(* ---- PARALLEL frame loops (cython prange, omp for) written as FrameLoop terms ---- *)
(* A body that obeys the discipline and uses no self-advanced cursor (par_ok) run as a parallel loop: under every
   schedule that runs each iteration, from any initial private state, slot i of the result holds exactly what the body
   writes on frame i alone from the empty state. *)
Theorem parallel_frame_loop_schedule_free : forall G A p, par_ok p = true -> forall n s0 sched, covers n sched ->
  parfor (fbody G A p) s0 0%nat (seq 0 n) sched =
  map (fun i => Some (map (lift i) (snd (frun G (shift A i) p 0 ([], []))))) (seq 0 n).
Proof. exact par_loop_schedule_free. Qed.
Print Assumptions parallel_frame_loop_schedule_free.

(* the parallel loop leaves what the serial loop leaves (the parallel= flag of md.rmsd / superpose changes nothing) *)
Theorem parallel_frame_loop_eq_serial : forall G A p, par_ok p = true -> forall n s0 sched j, covers n sched -> (j < n)%nat ->
  nth j (parfor (fbody G A p) s0 0%nat (seq 0 n) sched) None =
  Some (map (fun v => (j, v)) (writes_at j (floop G A p n 0 (fst s0, [])))).
Proof. exact par_loop_eq_serial. Qed.
Print Assumptions parallel_frame_loop_eq_serial.

(* no two iterations write the same output slot *)
Theorem parallel_iteration_writes_own_slot : forall G A p, par_ok p = true -> forall i st,
  Forall (fun w => fst w = i) (snd (frun G A p i st)).
Proof. exact par_ok_writes_own_slot. Qed.
Print Assumptions parallel_iteration_writes_own_slot.

(* the terms regenerated in THIS run from _rmsd.pyx, drid.pyx, neighbors.pyx (one per control-flow path of each prange /
   range loop over frames) and from the hand-written omp loops of sasa.cpp and center_sse.h obey the discipline ... *)
Theorem cython_frame_loops_disciplined : forallb (fun k => fdisc (snd k)) pyx_loops = true.
Proof. exact pyx_loops_disciplined. Qed.
Print Assumptions cython_frame_loops_disciplined.

Theorem cython_frame_loops_local : forall name p, In (name, p) pyx_loops ->
  forall G A n s0 s0' j, (j < n)%nat ->
  writes_at j (floop G A p n 0 (s0, [])) = map snd (snd (frun G (shift A j) p 0 (s0', []))).
Proof.
  intros name p Hin G A. apply (FrameLoopProofs.frame_loop_local G A p).
  exact (proj1 (forallb_forall _ _) pyx_loops_disciplined (name, p) Hin).
Qed.
Print Assumptions cython_frame_loops_local.

(* ... and the parallel ones among them give the same result under any two schedules / thread counts *)
Theorem mdtraj_parallel_loops_schedule_free : forall name p, In (name, p) parallel_loops ->
  forall G A n s0 s0' sc1 sc2, covers n sc1 -> covers n sc2 ->
  parfor (fbody G A p) s0 0%nat (seq 0 n) sc1 = parfor (fbody G A p) s0' 0%nat (seq 0 n) sc2.
Proof.
  intros name p Hin G A. apply (par_loop_any_two_schedules G A p).
  exact (proj1 (forallb_forall _ _) parallel_loops_par_ok (name, p) Hin).
Qed.
Print Assumptions mdtraj_parallel_loops_schedule_free.

(* OpenMP clauses, per run: the C++ cython generated has one `omp for` per prange of the .pyx, none with a reduction clause
   (no prange body updates a scalar in place), every scalar a prange body assigns is lastprivate there; every variable
   an omp loop body of sasa.cpp / center_sse.h writes and that lives outside the region is in a private clause *)
Theorem prange_loops_have_no_reduction : prange_reductions = [].
Proof. exact no_reductions. Qed.
Print Assumptions prange_loops_have_no_reduction.

Theorem prange_assigned_scalars_are_private : prange_unprivatised = [] /\ prange_generated_mismatch = [].
Proof. exact (conj prange_scalars_private prange_generated_in_step). Qed.
Print Assumptions prange_assigned_scalars_are_private.

Theorem omp_loop_written_variables_are_private : omp_unprivatised = [].
Proof. exact omp_written_variables_private. Qed.
Print Assumptions omp_loop_written_variables_are_private.

(* a scalar accumulated across iterations (what cython would compile to a reduction), a shared slot written by every
   iteration and a self-advanced cursor are all rejected for a parallel loop; the rmsd body is accepted and evaluates *)
Example parallel_discipline_not_vacuous :
  par_ok [FSet 1 (FAdd (FCell 1) (FIdx 0)); FOutIdx (FCell 1)] = false /\
  par_ok [FSet 1 (FVia 0 0); FOutVia 0 (FCell 1); FAdv 0] = false /\
  par_ok [FSet 1 (FAdd (FIdx 0) (FGlob 0)); FOutIdx (FCell 1)] = true /\
  covers 3 (sched_static 3 2) /\
  parfor (fbody (fun _ => 100) (fun _ i => Z.of_nat i) [FSet 1 (FAdd (FIdx 0) (FGlob 0)); FOutIdx (FCell 1)])
         ([7; 7], []) 0%nat (seq 0 3) (sched_static 3 2) =
  [Some [(0%nat, 100)]; Some [(1%nat, 101)]; Some [(2%nat, 102)]].
Proof.
  split; [reflexivity|]. split; [reflexivity|]. split; [reflexivity|].
  split; [apply static_covers; repeat constructor|reflexivity].
Qed.
Print Assumptions parallel_discipline_not_vacuous.

(* a loop that stops advancing a pointer it reads through, or reads a buffer before refilling it, is rejected *)
Example undisciplined_loops_rejected :
  (fdisc [FSet 1 (FVia 0 0); FOutVia 1 (FCell 1); FAdv 1] = false) /\
  (fdisc [FSet 1 (FAdd (FCell 1) (FIdx 0)); FOutIdx (FCell 1)] = false) /\
  (fdisc [FSet 1 (FVia 0 0); FOutVia 1 (FCell 1); FAdv 1; FAdv 0] = true).
Proof. repeat split. Qed.
Print Assumptions undisciplined_loops_rejected.

(* ---- non-vacuity ---- *)
Example schedules_exist :
  covers 7 (sched_static 7 3) /\ covers 7 (sched_serial 7) /\ covers 7 (sched_one_each 7) /\
  sched_static 7 3 = [[0; 1; 2]; [3; 4]; [5; 6]]%nat /\
  body_ignores_scratch (body_of sasa_fix_prog) /\
  parfor (body_of sasa_fix_prog) [9] [] [[3; 2]; [4; 5]; [1; 1]] (sched_static 3 2) = [Some [6]; Some [20]; Some [1]].
Proof.
  split; [apply static_covers; repeat constructor|].
  split; [apply serial_covers|].
  split; [apply one_each_covers|].
  split; [reflexivity|].
  split; [apply ok_prog_ignores_scratch; reflexivity|reflexivity].
Qed.
Print Assumptions schedules_exist.
