(* C14 -- reported hydrogen bonds are exactly those meeting the stated criteria.
   Statements only, closed by [exact]; definitions in Hbond/Model.v, Hbond/KsModel.v, proofs in
   Hbond/Proofs.v, Hbond/KsProofs.v, Hbond/KsSpec.v, Hbond/CosR.v. *)
From Coq Require Import String.
From Coq Require Import List ZArith QArith Qreals Bool Reals Lia Arith Sorting.Permutation.

Import ListNotations.
Require Import MD.Gen.HbondTables MD.Gen.HbondFormulas MD.Hbond.Model MD.Hbond.KsModel MD.Hbond.Run
               MD.Hbond.Proofs MD.Hbond.KsProofs MD.Hbond.KsSpec MD.Hbond.CosR MD.Hbond.KsFormula MD.Hbond.WnR
               MD.Hbond.Angle MD.Hbond.AngleR MD.Hbond.KsWrap MD.Hbond.KsWrapProofs.
Local Open Scope Z_scope.

(* ---------------------------------------------------------------- candidate triplets *)
(* (d, h, a) is a candidate iff d is an N or O bonded in the topology to the hydrogen h, a is an N or O
   atom, all three pass the water / sidechain filters, and d <> a *)
Theorem triplets_spec : forall ew sc t l d h a, bond_triplets ew sc t = Ok l ->
  (In (d, h, a) l <->
   (donor_pair ew sc t EN d h \/ donor_pair ew sc t EO d h) /\ acceptor_atom ew sc t a /\ d <> a).
Proof. exact Proofs.triplets_spec. Qed.
Print Assumptions triplets_spec.

Theorem triplets_error_iff_no_bonds : forall ew sc t, bond_triplets ew sc t = ErrNoBonds <-> t_bonds t = [].
Proof. exact triplets_error. Qed.
Print Assumptions triplets_error_iff_no_bonds.

(* ---------------------------------------------------------------- Baker-Hubbard *)
(* the two-stage computation (distance prefilter by frequency, then the full criterion on the
   survivors) returns exactly what the one-stage criterion returns *)
Theorem prefilter_harmless : forall p t fs, 0 <= snd (bh_freq p) ->
  baker_hubbard p t fs =
  match bond_triplets (bh_ew p) (bh_sc p) t with
  | ErrNoBonds => ErrNoBonds
  | Ok trip => Ok (filter (fun tr => often p fs (fun f => bh_presence p f tr)) trip)
  end.
Proof. exact bh_prefilter_harmless. Qed.
Print Assumptions prefilter_harmless.

(* a triplet is returned iff it is a candidate and the number of frames in which BOTH
   d(H,A) < cutoff and angle(D,H,A) > angle_cutoff hold exceeds freq * n_frames -- all strict *)
Theorem bh_spec : forall p t fs l tr, 0 <= snd (bh_freq p) -> baker_hubbard p t fs = Ok l ->
  (In tr l <->
   exists trip, bond_triplets (bh_ew p) (bh_sc p) t = Ok trip /\ In tr trip /\ fs <> [] /\
     fst (bh_freq p) * Z.of_nat (length fs) <
     snd (bh_freq p) * count (fun f => bh_close p f tr && bh_wide p f tr) fs).
Proof. exact Proofs.bh_spec. Qed.
Print Assumptions bh_spec.

(* the distance test on exact squared distances *)
Theorem distance_test_strict : forall d2 cn cd, dist_lt d2 cn cd = true <-> 0 < cn /\ d2 * (cd * cd) < cn * cn.
Proof. exact dist_lt_spec. Qed.
Print Assumptions distance_test_strict.

(* the angle test: cos_lt decides  N / (2 sqrt(A B)) < kn / kd  exactly (angle > theta <=> cos < cos theta
   on [0, pi]); N = a^2 + b^2 - c^2 is twice the dot product of the sides meeting at H.
   Over R: depends on the standard-library axioms of the reals. *)
Theorem angle_test_exact : forall N A B kn kd : Z, 0 < A -> 0 < B -> 0 < kd ->
  (cos_lt N A B kn kd = true <-> (IZR N / (2 * sqrt (IZR A * IZR B)) < IZR kn / IZR kd)%R).
Proof. exact cos_lt_correct. Qed.
Print Assumptions angle_test_exact.

Theorem law_of_cosines : forall px py pz ux uy uz vx vy vz : Z,
  (sq (ux - px) + sq (uy - py) + sq (uz - pz)) + (sq (vx - px) + sq (vy - py) + sq (vz - pz))
  - (sq (vx - ux) + sq (vy - uy) + sq (vz - uz))
  = 2 * ((ux - px) * (vx - px) + (uy - py) * (vy - py) + (uz - pz) * (vz - pz)).
Proof. exact law_of_cosines_numerator. Qed.
Print Assumptions law_of_cosines.

(* ---- the angle cutoff in degrees: enclosed, not approximated -------------------------------------------
   angles > np.radians(angle_cutoff) is decided as cos < cos(angle_cutoff); cos(deg degrees) is irrational in
   general and is replaced by the two ends of a PROVED rational enclosure (about 4e-10 wide: 3141592653e-9 < pi <
   3141592654e-9, partial sums 7 / 8 of the cosine series, cos(deg) = -cos(180 - deg) beyond 90 degrees).
   bh_angle_real is the angle as mdtraj defines it: acos(clip((a^2 + b^2 - c^2) / (2 a b), -1, 1)) on the three
   (periodic) distances.  The correspondence evaluates the strict side with bh_cos_sure(angle_cutoff + guard)
   and the lenient side with bh_cos_maybe(angle_cutoff - guard): the guard only covers mdtraj's float32 rounding.
   (Over R: standard-library real-number axioms and classic.) *)
Theorem cos_of_degrees_enclosed : forall deg : Q, (0 <= Q2R deg <= 180)%R ->
  (Q2R (qcosdeg_lo deg) <= cos (Q2R deg * PI / 180) <= Q2R (qcosdeg_hi deg))%R.
Proof. exact cosdeg_enclosure. Qed.
Print Assumptions cos_of_degrees_enclosed.

Theorem bh_angle_sure_is_sound : forall p f d h a deg,
  bh_cos p = bh_cos_sure deg -> (0 <= Q2R (q_of_pair deg) < 180)%R ->
  0 < dist2 (bh_periodic p) f d h -> 0 < dist2 (bh_periodic p) f h a ->
  bh_wide p f (d, h, a) = true -> (Q2R (q_of_pair deg) * PI / 180 < bh_angle_real p f (d, h, a))%R.
Proof. exact bh_wide_sure_sound. Qed.
Print Assumptions bh_angle_sure_is_sound.

Theorem bh_angle_maybe_is_complete : forall p f d h a deg,
  bh_cos p = bh_cos_maybe deg -> (0 <= Q2R (q_of_pair deg) < 180)%R ->
  0 < dist2 (bh_periodic p) f d h -> 0 < dist2 (bh_periodic p) f h a ->
  (Q2R (q_of_pair deg) * PI / 180 < bh_angle_real p f (d, h, a))%R -> bh_wide p f (d, h, a) = true.
Proof. exact bh_wide_maybe_complete. Qed.
Print Assumptions bh_angle_maybe_is_complete.

(* ---------------------------------------------------------------- Wernet-Nilsson *)
Theorem wn_prefilter_harmless : forall p t fs,
  wernet_nilsson p t fs =
  match bond_triplets (wn_ew p) (wn_sc p) t with
  | ErrNoBonds => ErrNoBonds
  | Ok trip => Ok (map (fun f => filter (fun tr => wn_presence p f tr) trip) fs)
  end.
Proof. exact Proofs.wn_prefilter_harmless. Qed.
Print Assumptions wn_prefilter_harmless.

(* ---- what is exact and what is enclosed --------------------------------------------------------------
   Exact (integers): the squared distances a2 = |DA|^2, b2 = |DH|^2, c2 = |HA|^2 (minimum image included),
   the stage-one mask and the apex test  r_DA < cut  (a2 * cd^2 < (cn G)^2), the numerator a2 + b2 - c2.
   Enclosed (rational lower/upper bounds, PROVED against the real numbers in Hbond/WnR.v): r = sqrt(a2)/G,
   the half-angle bound phi = sqrt((cut - r)/const) * pi/180 (Z.sqrt rounded down/up, 3141592653e-9 < pi <
   3141592654e-9, outward rounding to 2^-10 resp. 2^-24), cos(phi) (partial sums 7 / 8 of the alternating
   series, exact in Q) and cos(delta) = N / (2 sqrt(a2 b2)).
   wn_real_triplet is the criterion over R as mdtraj states it:
       sqrt(a2)/G < cut - const * (acos(clip(N/(2 sqrt(a2 b2)))) * 180/pi)^2 .
   The correspondence uses wn_sure with the apex pulled in by the guard as the strict side and wn_maybe with the
   apex pushed out as the lenient side: by the two theorems below the model's own numerical error is
   enclosed rigorously, and the guard (2e-5 nm) only has to cover mdtraj's float32 rounding.
   (Over R: standard-library real-number axioms and classic.) *)
Theorem wn_sure_is_sound : forall p f t, wn_wf p -> wn_sure p f t = true -> wn_real_triplet p f t.
Proof. exact wn_sure_sound. Qed.
Print Assumptions wn_sure_is_sound.

Theorem wn_maybe_is_complete : forall p f d h a, wn_wf p ->
  0 < dist2 (wn_periodic p) f d a -> 0 < dist2 (wn_periodic p) f d h ->
  wn_real_triplet p f (d, h, a) -> wn_maybe p f (d, h, a) = true.
Proof. exact wn_maybe_complete. Qed.
Print Assumptions wn_maybe_is_complete.

(* the prefilter is harmless for both sides of the sandwich as well *)
Theorem wn_sandwich_prefilter_harmless : forall p t fs,
  wernet_nilsson_with wn_sure p t fs =
    match bond_triplets (wn_ew p) (wn_sc p) t with
    | ErrNoBonds => ErrNoBonds
    | Ok trip => Ok (map (fun f => filter (fun tr => wn_sure p f tr) trip) fs)
    end /\
  wernet_nilsson_with wn_maybe p t fs =
    match bond_triplets (wn_ew p) (wn_sc p) t with
    | ErrNoBonds => ErrNoBonds
    | Ok trip => Ok (map (fun f => filter (fun tr => wn_maybe p f tr) trip) fs)
    end.
Proof.
  intros p t fs. split; apply wn_with_prefilter_harmless; intros f tr; [apply wn_sure_close | apply wn_maybe_close].
Qed.
Print Assumptions wn_sandwich_prefilter_harmless.

(* the nominal 2^-44 fixed-point evaluation of the same decision (not used by the correspondence any more):
   its structure, every comparison strict *)
(* the cone decision spelled out (strictness of every comparison); the angle part is the fixed-point
   evaluation of  delta < sqrt((cut - r)/const) degrees  as  cos(delta) > cos(bound)  -- numerical *)
Theorem wn_nominal_spec : forall p f d h a,
  let a2 := dist2 (wn_periodic p) f d a in
  let b2 := dist2 (wn_periodic p) f d h in
  let c2 := dist2 (wn_periodic p) f h a in
  wn_presence p f (d, h, a) = true <->
  dist_lt a2 (fst (wn_cut p) * wn_G p) (snd (wn_cut p)) = true /\
  0 < wn_slack p a2 /\ 0 < a2 * b2 /\
  (PI_fx <= wn_phi p a2 \/ wn_cosphi (wn_phi p a2) < wn_cosd a2 b2 c2).
Proof. exact Proofs.wn_spec. Qed.
Print Assumptions wn_nominal_spec.

(* the cone never accepts a donor-acceptor pair at or beyond the 0.33 nm apex distance (exact test) *)
Theorem wn_cone_inside_cutoff : forall p f tr, wn_presence p f tr = true -> wn_close p f tr = true.
Proof. exact wn_presence_close. Qed.
Print Assumptions wn_cone_inside_cutoff.

(* ---------------------------------------------------------------- store_energies *)
(* after ANY sequence of calls the two slots hold the first two calls in the ranking by energy
   (earlier call first among equal energies): induction over the call sequence *)
Theorem best_two : forall calls,
  fold_left (fun s c => store s (fst c) (snd c)) calls empty_nan = slots_of (firstn 2 (ranked calls)).
Proof. exact Proofs.best_two. Qed.
Print Assumptions best_two.

(* the ranking is a sorted permutation of the calls: the slots hold the two lowest energies in order *)
Theorem best_two_are_the_lowest : forall calls x y rest, ranked calls = x :: y :: rest ->
  snd x <= snd y /\ (forall z, In z rest -> snd y <= snd z) /\ Permutation calls (x :: y :: rest).
Proof. exact best_two_lowest. Qed.
Print Assumptions best_two_are_the_lowest.

(* dssp() starts from energies 0.0 instead of NaN: same bonds, since only negative energies are stored *)
Theorem best_two_zero_init : forall calls : list call, (forall c, In c calls -> snd c < 0) ->
  slot_list (fold_left (fun s c => store s (fst c) (snd c)) calls empty_zero) =
  slot_list (fold_left (fun s c => store s (fst c) (snd c)) calls empty_nan).
Proof. exact init_zero_equiv. Qed.
Print Assumptions best_two_zero_init.

(* ---------------------------------------------------------------- Kabsch-Sander energy formula *)
(* Gen/HbondFormulas.v is the translation of ks_donor_acceptor() of today's geometry.cpp (fail closed).
   With the four inverse distances as free variables the translated expression IS the documented formula
   E = 0.42 * 0.2 * 33.2 kcal nm/mol * (1/r_ON + 1/r_CH - 1/r_OH - 1/r_CN)      (identity over Q) *)
Theorem ks_formula_is_documented : forall inv : ks_site -> ks_site -> Q,
  (ks_energy_expr inv == (42 # 100) * (2 # 10) * (332 # 10) *
                         (inv KS_N KS_O + inv KS_H KS_C - inv KS_H KS_O - inv KS_N KS_C))%Q.
Proof. exact ks_formula_documented. Qed.
Print Assumptions ks_formula_is_documented.

(* the positions are N and H of the donor residue, C and O of the acceptor residue *)
Theorem ks_sites_are_documented :
  ks_site_source KS_N = (true, 0%nat) /\ ks_site_source KS_H = (true, 3%nat) /\
  ks_site_source KS_C = (false, 1%nat) /\ ks_site_source KS_O = (false, 2%nat).
Proof. exact ks_sites_documented. Qed.
Print Assumptions ks_sites_are_documented.

(* the term list the model evaluates is that expression, and the model's energy is the clamp of the sum
   of these terms (each 1/distance and each product rounded down in 2^-44 fixed point) *)
Theorem ks_model_terms_are_the_formula : forall inv : ks_site -> ks_site -> Q,
  (terms_value inv (c_ks_terms gen_consts) == ks_energy_expr inv)%Q.
Proof. exact ks_terms_are_the_expression. Qed.
Print Assumptions ks_model_terms_are_the_formula.

Theorem ks_model_energy_from_terms : forall K G xyz oob hs rs d a h,
  nth d hs None = Some h ->
  ks_energy_h K G xyz oob hs rs d a =
  let rd := nth d rs (mkRes None None None None false) in
  let ra := nth a rs (mkRes None None None None false) in
  let site := fun s => match s with
                       | KS_N => to_fx (at_idx xyz oob (r_n rd)) | KS_H => h
                       | KS_C => to_fx (at_idx xyz oob (r_c ra)) | KS_O => to_fx (at_idx xyz oob (r_o ra))
                       end in
  option_map (ks_clamp K) (sum_terms (map (ks_term G site) (c_ks_terms K))).
Proof. exact ks_energy_h_terms. Qed.
Print Assumptions ks_model_energy_from_terms.

(* the threshold test is the documented one: with the translated clamp (test and value -9.9) and cutoff,
   "clamped energy < cutoff" holds iff E < -0.5; the floor never decides whether a bond exists.
   (mdtraj has no minimal-distance guard such as DSSP's 0.5 A; it only clamps the energy.) *)
Theorem ks_threshold_is_documented : forall e : Q,
  (clampQ (q_of ks_clamp_test) (q_of ks_clamp_value) e < q_of ks_energy_cutoff <-> e < -1 # 2)%Q.
Proof. exact ks_threshold_test_documented. Qed.
Print Assumptions ks_threshold_is_documented.

Theorem ks_clamp_never_decides : forall K e thr,
  fst (c_ks_clamp_value K) * SC / snd (c_ks_clamp_value K) <= fst (c_ks_clamp_test K) * SC / snd (c_ks_clamp_test K) ->
  fst (c_ks_clamp_test K) * SC / snd (c_ks_clamp_test K) <= thr ->
  fst (c_ks_clamp_value K) * SC / snd (c_ks_clamp_value K) < thr ->
  (ks_clamp K e <? thr) = (e <? thr).
Proof. exact ks_clamp_Z_keeps_threshold. Qed.
Print Assumptions ks_clamp_never_decides.

(* ---------------------------------------------------------------- Kabsch-Sander pair loop *)
(* for EVERY (total) energy function E: the loop over residue pairs reports for donor d the two
   lowest-energy acceptors, in order, among the acceptors a that are complete, different from d and from
   d-1, with CA(d)-CA(a) closer than the prefilter, E d a below the threshold, d not a proline and complete *)
Theorem ks_spec_any_energy : forall p xyz rs (E : nat -> nat -> Z),
  ks_loop p empty_nan rs xyz (fun d a => Some (E d a)) =
  Some (map (fun d => slots_of (firstn 2 (ranked (map (fun a => (a, E d a))
                                                    (filter (eligible p xyz rs E d) (seq 0 (length rs)))))))
            (seq 0 (length rs))).
Proof. exact ks_spec. Qed.
Print Assumptions ks_spec_any_energy.

(* ks_spec: the same for one frame of kabsch_sander with the model's own energy (frame_energy = the clamp
   of the translated formula evaluated at the frame's N, H, C, O positions, hydrogen placed by
   ks_assign_hydrogens), for every non-degenerate frame (no coinciding atoms).
   What remains outside the theorems: frame_energy is a 2^-44 fixed-point evaluation (inverse square
   roots by Z.sqrt, floors); that it is within the comparison tolerance of the real-valued formula is
   checked by the correspondence (|model - mdtraj| <= 1e-3 kcal/mol on every reported bond), not proved. *)
Theorem ks_spec : forall p rs xyz oob, nondegenerate p rs xyz oob ->
  kabsch_sander_frame p empty_nan rs xyz oob =
  Some (map (fun d => slots_of (firstn 2 (ranked (map (fun a => (a, frame_energy p rs xyz oob d a))
              (filter (eligible p xyz rs (frame_energy p rs xyz oob) d) (seq 0 (length rs)))))))
            (seq 0 (length rs))).
Proof. exact ks_spec_concrete. Qed.
Print Assumptions ks_spec.

(* ---------------------------------------------------------------- the Python layer of kabsch_sander *)
(* _prep_kabsch_sander_arrays: the index handed to the kernel for N / CA / C / O is that of the FIRST atom of the
   residue with that name; a residue takes part iff it has all four; the proline flag is the residue NAME "PRO" *)
Theorem prep_first_atom_with_name : forall nm atoms i,
  first_named nm atoms = Some i <->
  exists l1 l2, atoms = l1 ++ (i, nm) :: l2 /\ forall j s, In (j, s) l1 -> s <> nm.
Proof. exact first_named_some. Qed.
Print Assumptions prep_first_atom_with_name.

Theorem prep_complete_iff_four_names : forall r,
  r_skip (prep_residue r) = false <-> has_atom "N"%string r /\ has_atom "CA"%string r /\ has_atom "C"%string r /\ has_atom "O"%string r.
Proof. exact prep_complete_iff. Qed.
Print Assumptions prep_complete_iff_four_names.

Theorem prep_proline_by_residue_name : forall r, r_pro (prep_residue r) = true <-> fst r = "PRO"%string.
Proof. exact prep_proline_iff. Qed.
Print Assumptions prep_proline_by_residue_name.

(* the sparse-matrix assembly: decoding (indptr, indices, data) as a CSR matrix gives back, row by row, the
   filled slots of every donor (cumulative-sum and mask arithmetic of the wrapper) ... *)
Theorem csr_arrays_encode_the_slots : forall l,
  csr_decode (csr_indptr l) (csr_indices l) (csr_data l) = map csr_row l.
Proof. exact csr_decode_roundtrip. Qed.
Print Assumptions csr_arrays_encode_the_slots.

(* ... so the transposed matrix has (row = acceptor a, column = donor d) = e exactly for the filled slots of d *)
Theorem ks_matrix_entries : forall l a d e,
  In (a, d, e) (matrix_entries l) <-> (d < List.length l)%nat /\ In (a, e) (csr_row (nth d l empty_nan)).
Proof. exact matrix_entries_spec. Qed.
Print Assumptions ks_matrix_entries.

(* md.kabsch_sander for one non-degenerate frame, from the topology's names to the matrix: entry (a, d) = e iff
   a is one of the two lowest-energy eligible acceptors of donor d (ks_spec) and e is that energy *)
Theorem ks_matrix_is_the_best_two : forall p rs xyz oob, nondegenerate p (prep rs) xyz oob ->
  exists M, kabsch_sander_py p rs xyz oob = Some M /\
  forall a d e, In (a, d, e) M <->
    (d < List.length rs)%nat /\
    exists c, In c (firstn 2 (ranked (map (fun a' => (a', frame_energy p (prep rs) xyz oob d a'))
                (filter (eligible p xyz (prep rs) (frame_energy p (prep rs) xyz oob) d) (seq 0 (List.length rs)))))) /\
              a = fst c /\ e = Some (snd c).
Proof. exact ks_matrix_spec. Qed.
Print Assumptions ks_matrix_is_the_best_two.

(* ---------------------------------------------------------------- Kabsch-Sander hydrogen position *)
(* as found: the result of a frame depends on data outside the frame (index -1) *)
Theorem ks_h_position_refuted : exists p init rs xyz oob1 oob2,
  ks_hv p = h_cur /\
  kabsch_sander_frame p init rs xyz oob1 <> kabsch_sander_frame p init rs xyz oob2.
Proof. exact KsProofs.ks_h_position_refuted. Qed.
Print Assumptions ks_h_position_refuted.

(* minimal repair: the result of a frame is a function of that frame alone *)
Theorem ks_h_position_fixed : forall K G thr ca2 init rs xyz oob1 oob2,
  kabsch_sander_frame (mkKS K G h_fix thr ca2) init rs xyz oob1 =
  kabsch_sander_frame (mkKS K G h_fix thr ca2) init rs xyz oob2.
Proof. exact ks_fix_frame_local. Qed.
Print Assumptions ks_h_position_fixed.

(* ---------------------------------------------------------------- constants of today's source *)
Definition qeq (a b : Z * Z) : Prop := fst a * snd b = fst b * snd a /\ 0 < snd a.
Theorem constants_as_documented :
  qeq bh_distance_cutoff (25, 100) /\ qeq bh_angle_cutoff (120, 1) /\
  qeq wn_distance_cutoff (33, 100) /\ qeq wn_angle_const (44, 1000000) /\
  qeq ks_energy_cutoff (-5, 10) /\ qeq ks_minimal_ca_distance2 (81, 100) /\
  qeq ks_coupling (27888, 10000) /\ ks_coupling_signs = [-1; -1; 1; 1] /\
  qeq ks_nh_length (1, 10) /\ qeq ks_energy_floor (-99, 10).
Proof. unfold qeq. repeat split; reflexivity. Qed.
Print Assumptions constants_as_documented.

(* ---------------------------------------------------------------- non-vacuity *)
Example store_example : run_store true [(7%nat, -2); (8%nat, -3); (9%nat, -1); (10%nat, -3)] =
  ((Some 8%nat, Some (-3)), (Some 10%nat, Some (-3))).
Proof. reflexivity. Qed.
Print Assumptions store_example.

(* a water dimer: O-H...O with H 0.2 nm from the acceptor on the O...O axis is a Baker-Hubbard bond *)
Definition ex_topo : topo :=
  mkTopo [mkAtom EO false false; mkAtom EH false false; mkAtom EH false false; mkAtom EO false false]
         [(0%nat, 1%nat); (2%nat, 0%nat)].
Definition ex_frame : frame := mkFrame [(0, 0, 0); (100, 0, 0); (-30, 95, 0); (300, 0, 0)] None.
Example bh_example :
  baker_hubbard (mkBH false false false (1, 10) (256, 1) (-1, 2)) ex_topo [ex_frame] = Ok [(0%nat, 1%nat, 3%nat)].
Proof. vm_compute. reflexivity. Qed.
Print Assumptions bh_example.

(* the hypothesis of ks_spec is satisfiable: the three-residue witness frame is non-degenerate *)
Example nondegenerate_example : nondegenerate (nominal h_fix) w_rs w_xyz (0, 0, 0).
Proof.
  intros d a Sd Sa.
  assert (Hd : (d < 3)%nat).
  { destruct (Nat.lt_ge_cases d 3) as [H | H]; [assumption|]. rewrite nth_overflow in Sd by exact H. discriminate. }
  assert (Ha : (a < 3)%nat).
  { destruct (Nat.lt_ge_cases a 3) as [H | H]; [assumption|]. rewrite nth_overflow in Sa by exact H. discriminate. }
  destruct d as [|[|[|d]]]; [discriminate Sd | | | exfalso; clear - Hd; lia];
  (destruct a as [|[|[|a]]]; [discriminate Sa | | | exfalso; clear - Ha; lia]);
  vm_compute; intros E; discriminate E.
Qed.
Print Assumptions nondegenerate_example.

(* wn_sure is not vacuous: a straight O-H...O with the oxygens 0.28 nm apart is certainly inside the cone,
   one with a 40 degree H-D-A angle at the same distance is certainly outside (wn_maybe = false) *)
Example wn_sure_example :
  cone_sure 1024 (33 # 100) (44 # 1000000) 82204 10486 33857 = true /\
  cone_maybe 1024 (33 # 100) (44 # 1000000) 82204 10486 60000 = false.
Proof. split; vm_compute; reflexivity. Qed.
Print Assumptions wn_sure_example.

(* the enclosure is tight and the two sides bracket the threshold: 119 / 121 degrees at cutoff 120 *)
Example bh_angle_example :
  angle_gt_sure 120 (-2 * 515) 1000 1000 = true /\ angle_gt_maybe 120 (-2 * 485) 1000 1000 = false /\
  (Qnum (qcosdeg_hi 120 - qcosdeg_lo 120) * 1000000000 < QDen (qcosdeg_hi 120 - qcosdeg_lo 120))%Z.
Proof. repeat split; vm_compute; reflexivity. Qed.
Print Assumptions bh_angle_example.

(* a residue with two atoms named CA: the first one is taken; without O the residue does not take part *)
Example prep_example :
  prep_residue ("PRO"%string, [(4%nat, "N"%string); (5%nat, "CA"%string); (6%nat, "CA"%string); (7%nat, "C"%string)]) =
  mkRes (Some 4%nat) (Some 5%nat) (Some 7%nat) None true.
Proof. reflexivity. Qed.
Print Assumptions prep_example.

Example csr_example :
  let l := [((Some 3%nat, Some (-7)), (None, None)); empty_nan; ((Some 0%nat, Some (-9)), (Some 1%nat, Some (-8)))] in
  csr_indptr l = [0; 1; 1; 3]%nat /\ csr_indices l = [3; 0; 1]%nat /\
  matrix_entries l = [(3%nat, 0%nat, Some (-7)); (0%nat, 2%nat, Some (-9)); (1%nat, 2%nat, Some (-8))].
Proof. repeat split; reflexivity. Qed.
Print Assumptions csr_example.
