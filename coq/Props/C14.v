(* C14 -- reported hydrogen bonds are exactly those meeting the stated criteria.  Statements only. *)
From Coq Require Import List ZArith Bool.
Import ListNotations.
Require Import MD.Gen.HbondTables MD.Hbond.Model MD.Hbond.KsModel MD.Hbond.Run.

Example store_example : run_store true [(7%nat, (-2)%Z); (8%nat, (-3)%Z); (9%nat, (-1)%Z)] =
  ((Some 8%nat, Some (-3)%Z), (Some 7%nat, Some (-2)%Z)).
Proof. reflexivity. Qed.
Print Assumptions store_example.
