(* C01 -- save then load reproduces the trajectory; files hold native-unit numbers an independent
   reader extracts.  Only statements, closed by [exact], and Print Assumptions.
   Model: Codec/Model.v (+ Gen/CodecTables.v regenerated from /repo); lemmas: Codec/*Proofs.v. *)
From Coq Require Import Reals QArith Qabs.
From Coq Require Import ZArith Ascii String Bool List Lia.
Import ListNotations.
Require Import MD.Gen.CodecTables MD.Codec.Model MD.Codec.Proofs MD.Codec.RestartProofs.
Require Import MD.Codec.XtcModel MD.Codec.XtcProofs MD.Codec.XtcFrameProofs MD.Codec.NumProofs MD.Codec.MdcrdProofs.
Require Import MD.Codec.XtcBitsProofs MD.Codec.XtcLiftProofs MD.Codec.XtcQuantProofs MD.Codec.DcdModel MD.Codec.DcdProofs.
Require Import MD.Codec.GlueModel MD.Codec.GlueProofs MD.Codec.FixedCols MD.Codec.FixedColsProofs MD.Codec.Glue64Proofs.
Open Scope Z_scope.

(* Python "%w.pf" % x followed by float(): for EVERY width, precision and binary number the reader gets
   back exactly the printed integer round_half_even(|x| * 10^p), its sign and p decimals. *)
Theorem fmt_parse_roundtrip : forall w p x, 0 <= dmag x ->
  parse_num (py_fmt w p x) = Some (dneg x, quant p x, p).
Proof. exact Proofs.fmt_parse_roundtrip. Qed.
Print Assumptions fmt_parse_roundtrip.

(* ... and that integer is within 1/2 unit of the last place of the exact value *)
Theorem quantise_error : forall p x,
  2 * Z.abs (quant p x * dden x - dnum x * 10 ^ Z.of_nat p) <= dden x.
Proof. exact Proofs.quant_error. Qed.
Print Assumptions quantise_error.

(* a number that fits occupies exactly w columns *)
Theorem fmt_width : forall w p x, 0 <= dmag x ->
  (1 <= int_room w p (dneg x))%nat ->
  quant p x < 10 ^ Z.of_nat (int_room w p (dneg x) + p) ->
  length (py_fmt w p x) = w /\ field w p x = Some (py_fmt w p x).
Proof. exact Proofs.fmt_width_in_range. Qed.
Print Assumptions fmt_width.

(* a number that does not fit is refused by the checked field writer (mdcrd's "Overflow error"),
   the text is longer than w: digits are never silently dropped *)
Theorem fmt_width_overflow : forall w p x, 0 <= dmag x ->
  10 ^ Z.of_nat (int_room w p (dneg x) + p) <= quant p x ->
  (sign_len (dneg x) + frac_len p <= w)%nat ->
  (w < length (py_fmt w p x))%nat /\ field w p x = None.
Proof. exact Proofs.fmt_width_overflow. Qed.
Print Assumptions fmt_width_overflow.

Theorem field_sound : forall w p x s, 0 <= dmag x -> field w p x = Some s ->
  length s = w /\ parse_num s = Some (dneg x, quant p x, p).
Proof. exact Proofs.field_sound. Qed.
Print Assumptions field_sound.

(* ---------------------------------------------------------------- unit conversion *)
(* in_units_of(float32 array, "nanometers", "angstroms"): the number stored is k*x rounded to binary32, i.e.
   m' * 2^(e+sh) with |m'*2^sh - k*m| <= 2^sh / 2, and within a relative 2^-24 of k*x in the normal range *)
Theorem units_exact : forall k x, 0 < k -> 0 <= dmag x ->
  exists sh m', 0 <= sh /\ f32_mul k x = Dy (dneg x) m' (dexp x + sh) /\
    2 * Z.abs (m' * 2 ^ sh - k * dmag x) <= 2 ^ sh /\
    (-149 - dexp x <= bitlen (dmag x * k) - 24 -> 2 ^ 24 * Z.abs (m' * 2 ^ sh - k * dmag x) <= k * dmag x).
Proof. exact NumProofs.unit_scaling_error. Qed.
Print Assumptions units_exact.

(* every writable extension of the property is dispatched by Trajectory._savers to a file class with a known
   distance unit (finite statement about the tables regenerated from /repo) *)
Theorem units_table_complete :
  map unit_of_ext [".h5"; ".xtc"; ".trr"; ".dcd"; ".nc"; ".netcdf"; ".ncdf"; ".mdcrd"; ".crd"; ".xyz"; ".xyz.gz";
                   ".lammpstrj"; ".gro"; ".pdb"; ".pdb.gz"; ".dtr"; ".rst7"; ".ncrst"]%string =
  map Some [false; false; false; true; true; true; true; true; true; true; true; true; false; true; true; true; true; true].
Proof. vm_compute. reflexivity. Qed.
Print Assumptions units_table_complete.

(* widths and precisions the formats are stated to have (AMBER crd F8.3, PDB 8.3 / CRYST1 9.3 7.2, gro
   precision+5, rst7 F12.7): a change of any of them in /repo breaks this obligation *)
Theorem format_standards :
  (mdcrd_w, mdcrd_p, mdcrd_per_line, mdcrd_rw, mdcrd_box_w, mdcrd_box_p) = (8, 3, 10, 8, 8, 3)%nat /\
  (pdb_w, pdb_p, f83_cut, cryst_len_w, cryst_len_p, cryst_ang_w, cryst_ang_p) = (8, 3, 8, 9, 3, 7, 2)%nat /\
  (gro_extra, gro_box_w, gro_box_p, gro_coord_col, xyz_w, xyz_p, lammps_w, lammps_p, rst7_w, rst7_p)
    = (5, 10, 5, 20, 8, 3, 8, 3, 12, 7)%nat /\
  ang_per_nm = 10.
Proof. repeat split. Qed.
Print Assumptions format_standards.

(* the constants of the XTC format found in /repo (magicints[] of xdrfile.c, FIRSTIDX, the raw-float atom limit,
   MAGIC of xdrfile_xtc.c, the precision xtc.pyx writes with) are those of the format standard the Gallina
   decoder/encoder are written with: a table that differs in one entry round-trips inside mdtraj but is no
   longer XTC -- it breaks this obligation (and the decoder, which keeps the standard table, on files that use
   the entry) *)
Theorem xtc_format_standard :
  src_xtc_magicints = xtc_magicints /\ src_xtc_firstidx = xtc_firstidx /\ src_xtc_prec = xtc_prec /\
  src_xtc_raw_max_atoms = xtc_raw_max_atoms /\ src_xtc_magic = xtc_magic /\ lastidx = 73.
Proof. repeat split. Qed.
Print Assumptions xtc_format_standard.

(* ---------------------------------------------------------------- DCD unit cell block (over R) *)
(* the writer stores sin((pi/2)/90 * (90 - angle)) in the CHARMM slot order, the reader returns
   90 - asin(.) * 90 / (pi/2): exact round trip of lengths and angles for angles in (0, 180) degrees *)
Theorem dcd_cell_angles : forall c,
  (0 < calpha c < 180 -> 0 < cbeta c < 180 -> 0 < cgamma c < 180 ->
   dcd_read_cell (dcd_write_cell c) = Some c)%R.
Proof. exact DcdProofs.dcd_cell_angles. Qed.
Print Assumptions dcd_cell_angles.

(* ... and the numbers in slots 1, 3, 4 are the cosines of gamma, beta, alpha an independent DCD reader expects *)
Theorem dcd_slots_hold_cosines : forall c,
  (dcd_write_cell c = [cA c; cos (cgamma c * PI / 180); cB c; cos (cbeta c * PI / 180);
                       cos (calpha c * PI / 180); cC c])%R.
Proof. exact DcdProofs.dcd_slots_hold_cosines. Qed.
Print Assumptions dcd_slots_hold_cosines.

(* the slot order found in dcdplugin.c (write_timestep and read_next_timestep) is the format's
   [A, cos gamma, B, cos beta, cos alpha, C] *)
Theorem dcd_format_standard : src_dcd_write_slots = dcd_slots_std /\ src_dcd_read_slots = dcd_slots_std.
Proof. split; reflexivity. Qed.
Print Assumptions dcd_format_standard.

(* the units attributes written into HDF5 / NetCDF / NetCDF-restart files are those of the format conventions *)
Theorem unit_attributes_standard : src_unit_attrs = unit_attrs_std.
Proof. reflexivity. Qed.
Print Assumptions unit_attributes_standard.

(* ---------------------------------------------------------------- PDB *)
(* _format_83: always 8 characters; the reader gets the sign and the digits that survive the cut
   (f83_kept decimals), truncated from the correctly rounded 3-decimal value -- never anything else *)
Theorem format_83_sound : forall x s, 0 <= dmag x -> format_83 x = Some s ->
  length s = 8%nat /\ parse_num s = Some (f83_num x) /\ (f83_kept x <= 3)%nat /\
  let d := 10 ^ Z.of_nat (3 - f83_kept x) in
  let q' := quant 3 x / d in
  q' * d <= quant 3 x < (q' + 1) * d.
Proof. exact NumProofs.format_83_sound. Qed.
Print Assumptions format_83_sound.

Theorem pdb_cols_roundtrip : forall x y z cols,
  0 <= dmag x -> 0 <= dmag y -> 0 <= dmag z ->
  pdb_atom_cols [x; y; z] = Some cols ->
  length cols = 24%nat /\ pdb_read_cols cols = Some [f83_num x; f83_num y; f83_num z].
Proof. exact NumProofs.pdb_cols_roundtrip. Qed.
Print Assumptions pdb_cols_roundtrip.

(* ---------------------------------------------------------------- xyz / lammpstrj / gro lines *)
Theorem tok_roundtrip : forall w p xyz, (1 <= p)%nat -> Forall (fun x => 0 <= dmag x) xyz ->
  tok_read (tok_coords w p xyz) = Some (map (qnum p) xyz).
Proof. exact MdcrdProofs.tok_roundtrip. Qed.
Print Assumptions tok_roundtrip.

Theorem gro_cols_roundtrip : forall p x y z fx fy fz, (1 <= p)%nat ->
  0 <= dmag x -> 0 <= dmag y -> 0 <= dmag z ->
  field (p + gro_extra) p x = Some fx -> field (p + gro_extra) p y = Some fy -> field (p + gro_extra) p z = Some fz ->
  gro_coord_cols p [x; y; z] = fx ++ fy ++ fz /\
  gro_read_cols (fx ++ fy ++ fz) = Some [qnum p x; qnum p y; qnum p z].
Proof. exact MdcrdProofs.gro_cols_roundtrip. Qed.
Print Assumptions gro_cols_roundtrip.

(* ---------------------------------------------------------------- mdcrd *)
(* The repaired reader (a peeked line that is not three numbers is not a box line) returns exactly the
   quantised numbers of every frame the writer wrote: with boxes for every atom count, without boxes for
   n_atoms >= 2 under has_box="detect" and for every atom count when has_box=False is given. *)
Theorem mdcrd_layout : forall n hb frames lines,
  (1 <= n)%nat -> Forall (frame_wf n) frames -> mdcrd_file_lines frames = Some lines ->
  ((Forall has_box frames /\ hb <> HBfalse) \/
   (Forall no_box frames /\ hb <> HBtrue /\ (hb = HBdetect -> (2 <= n)%nat))) ->
  mdcrd_read_fix hb n lines = Ok (map mdcrd_expect frames).
Proof. exact MdcrdProofs.mdcrd_layout. Qed.
Print Assumptions mdcrd_layout.

(* as found and repaired alike: one atom, no box, "detect": the next frame's line is taken for a box
   (the format is ambiguous; md.load cannot pass has_box) *)
Theorem mdcrd_layout_one_atom_refuted : forall strict,
  exists lines, mdcrd_file_lines one_atom_frames = Some lines /\
    mdcrd_read strict HBdetect 1 lines <> Ok (map mdcrd_expect one_atom_frames) /\
    mdcrd_read strict HBfalse 1 lines = Ok (map mdcrd_expect one_atom_frames).
Proof. exact MdcrdProofs.mdcrd_layout_one_atom_refuted. Qed.
Print Assumptions mdcrd_layout_one_atom_refuted.

(* as found: a full-width field in the next frame's first line makes float() of the joined token raise *)
Theorem mdcrd_layout_current_refuted :
  exists lines, mdcrd_file_lines wide_field_frames = Some lines /\
    mdcrd_read_cur HBdetect 2 lines = Er EValue /\
    mdcrd_read_fix HBdetect 2 lines = Ok (map mdcrd_expect wide_field_frames).
Proof. exact MdcrdProofs.mdcrd_layout_current_refuted. Qed.
Print Assumptions mdcrd_layout_current_refuted.

(* non-vacuity of mdcrd_layout: a well-formed 2-atom, 2-frame file without box *)
Example mdcrd_layout_example :
  Forall (frame_wf 2) wide_field_frames /\ Forall no_box wide_field_frames /\
  exists lines, mdcrd_file_lines wide_field_frames = Some lines.
Proof.
  split; [|split; [repeat constructor|eexists; vm_compute; reflexivity]].
  repeat constructor; cbn; lia.
Qed.
Print Assumptions mdcrd_layout_example.

(* multi-file restart writers, repaired variant: file i holds frame i's payload, time and cell *)
Theorem restart_indexing : forall (P T C : Type) (cells : option (list C)) (frames : list (P * T)),
  (2 <= length frames)%nat -> cells_ok C cells (length frames) ->
  exists files,
    save_restart RstFix false cells frames = Some files /\
    map (rf_frame P T C) files = frames /\
    map (rf_cell P T C) files = map (cell_at C cells) (seq 0 (length frames)) /\
    map (rf_suffix P T C) files =
      map (fun j => Some (zero_pad (ndigits (Z.of_nat (length frames))) (Z.of_nat (S j)))) (seq 0 (length frames)).
Proof. exact restart_indexing_fix. Qed.
Print Assumptions restart_indexing.

(* as found: save_amberrst7 writes time[0] into every numbered file *)
Theorem restart_indexing_current_refuted :
  exists (cells : option (list nat)) (frames : list (nat * nat)) files,
    (2 <= length frames)%nat /\ cells_ok nat cells (length frames) /\
    save_restart RstCur true cells frames = Some files /\
    map (rf_frame nat nat nat) files <> frames.
Proof. exact RestartProofs.restart_indexing_current_refuted. Qed.
Print Assumptions restart_indexing_current_refuted.

(* as found: both restart writers refuse a multi-frame trajectory without unit cell *)
Theorem restart_nocell_current_refuted :
  exists (frames : list (nat * nat)),
    (2 <= length frames)%nat /\ save_restart (C := nat) RstCur false None frames = None.
Proof. exact RestartProofs.restart_nocell_current_refuted. Qed.
Print Assumptions restart_nocell_current_refuted.

(* ---------------------------------------------------------------- XTC integer codec (xdrfile.c) *)
(* a value written in n bits (most significant first) is read back, for every value that fits *)
Theorem bits_roundtrip : forall n v rest, 0 <= v < 2 ^ Z.of_nat n ->
  get_bits n (bits_of n v ++ rest) = Some (v, rest).
Proof. exact XtcProofs.bits_roundtrip. Qed.
Print Assumptions bits_roundtrip.

(* the C bit buffer of encodebits (bytes, lastbits, lastbyte kept modulo 2^32, the unmasked
   (lastbyte << 8) | (num >> (nb - 8)) included) appends exactly the num_of_bits low bits of num, most
   significant first; xdrfile_write_opaque then gets those bits padded with zeros to a whole byte *)
Theorem encodebits_refines : forall b n v, wok b -> 0 <= n <= 32 -> 0 <= v < 2 ^ n ->
  wok (c_encodebits b n v) /\ wbits (c_encodebits b n v) = wbits b ++ bits_of (Z.to_nat n) v.
Proof. exact XtcBitsProofs.c_encodebits_spec. Qed.
Print Assumptions encodebits_refines.

Theorem flush_refines : forall b, wok b -> Forall (fun x => 0 <= x < 256) (cb_bytes b) ->
  bytes_to_bits (c_flush b) = wbits b ++ repeat false (Z.to_nat ((8 - cb_lastbits b) mod 8)).
Proof. exact XtcBitsProofs.c_flush_spec. Qed.
Print Assumptions flush_refines.

(* the reader side: decodebits (unmasked (lastbyte >> lastbits) << k ORed into num, lastbyte kept modulo 2^32,
   final mask) returns exactly the next n bits of the stream its buffer stands for, as the abstract reader does *)
Theorem decodebits_refines : forall r n, rok r -> 0 <= n <= 32 ->
  n <= rb_lastbits r + 8 * Z.of_nat (length (rb_bytes r)) ->
  get_bits (Z.to_nat n) (rbits r) = Some (fst (c_decodebits r n), rbits (snd (c_decodebits r n))) /\
  rok (snd (c_decodebits r n)).
Proof. exact XtcBitsProofs.c_decodebits_get_bits. Qed.
Print Assumptions decodebits_refines.

(* decodeints inverts encodeints (mixed radix, multi-byte layout) whenever the group fits the bits used *)
Theorem ints_roundtrip : forall nbits s0 sr n0 nr rest,
  in_sizes sr nr -> 0 <= n0 -> 0 <= nbits <= 320 ->
  mixed_radix (s0 :: sr) (n0 :: nr) < 2 ^ nbits ->
  decodeints nbits (s0 :: sr) (encodeints nbits (s0 :: sr) (n0 :: nr) ++ rest) = Some (n0 :: nr, rest).
Proof. exact XtcProofs.ints_roundtrip. Qed.
Print Assumptions ints_roundtrip.

(* sizeofints: the bit count the C code computes is enough for every group below the sizes *)
Theorem sizeofints_sufficient : forall sizes nums, in_sizes sizes nums ->
  0 <= mixed_radix sizes nums < 2 ^ sizeofints sizes.
Proof. exact XtcProofs.sizeofints_sufficient. Qed.
Print Assumptions sizeofints_sufficient.

(* small groups use smallidx itself as the bit count: valid for every entry of magicints[] from FIRSTIDX on
   (statement about the table found in xdrfile.c today; re-proved whenever the translator sees another table) *)
Theorem smallidx_bits_sufficient : forall i, xtc_firstidx <= i < lastidx -> magic i ^ 3 <= 2 ^ i /\ 0 < magic i.
Proof. exact XtcProofs.magic_cube. Qed.
Print Assumptions smallidx_bits_sufficient.

(* the frame codec: for every list of integer triples (any number of atoms, any pattern of runs of small
   differences, every adaptive change of smallidx) that the encoder accepts, the decoder returns exactly that
   list from the bytes the encoder produced *)
Theorem xtc_frame_roundtrip : forall cs p, xtc_encode cs = Some p ->
  xtc_decode (Z.of_nat (length cs)) p = Some cs.
Proof. exact XtcFrameProofs.xtc_frame_roundtrip. Qed.
Print Assumptions xtc_frame_roundtrip.

(* the whole encoder run on the C buffer -- encodebits for the separate fields and the flag bits, encodeints as
   bytes[] of the mixed-radix value sent byte by byte (zero padding or partial top byte), final flush -- yields
   the same header and the same bytes as the abstract encoder, for every list of integer triples; so the round
   trip holds for the byte string xdrfile's buffer manipulation produces *)
Theorem c_buffer_encoder_eq : forall cs, c_xtc_encode cs = xtc_encode cs.
Proof. exact XtcLiftProofs.c_xtc_encode_eq. Qed.
Print Assumptions c_buffer_encoder_eq.

Theorem xtc_c_buffer_roundtrip : forall cs p, c_xtc_encode cs = Some p ->
  xtc_decode (Z.of_nat (length cs)) p = Some cs.
Proof. exact XtcLiftProofs.xtc_c_buffer_roundtrip. Qed.
Print Assumptions xtc_c_buffer_roundtrip.

(* the quantisation itself: lint = (int)(float(x * 1000) +- 0.5 stored to a float).  For every binary number x
   whose product with the precision is a normal float32 (or zero), over the rationals:
       |x * prec - lint|  <=  1/2 + (|x| * prec + 1) / 2^22
   i.e. |x - lint/prec| <= (1/2 + eps)/prec with eps the two single-precision roundings (explicit
   round-to-nearest-even on dyadic rationals, [rnd32]; not Flocq).  With xtc_frame_roundtrip: the coordinates an
   XTC file holds are within the format's stated precision of the coordinates saved. *)
Theorem xtc_quantise_error : forall x, 0 <= dmag x -> xtc_normal x ->
  (Qabs (inject_Z xtc_prec * dyQ x - inject_Z (xtc_lint x)) <=
    (1 # 2) + (inject_Z xtc_prec * Qabs (dyQ x) + 1) / inject_Z (2 ^ 22))%Q.
Proof. exact XtcQuantProofs.xtc_quantise_error. Qed.
Print Assumptions xtc_quantise_error.

(* non-vacuity: 0.3f is in the normal range and quantises to 300 *)
Example xtc_quantise_example :
  let x := Dy false 10066330 (-25) in 0 <= dmag x /\ xtc_normal x /\ xtc_lint x = 300.
Proof. cbv zeta. split; [vm_compute; discriminate|]. split; [right; vm_compute; discriminate|vm_compute; reflexivity]. Qed.
Print Assumptions xtc_quantise_example.

(* non-vacuity: twelve atoms with a run of close atoms (a "water") are accepted by the encoder *)
Example xtc_encode_accepts :
  exists p, xtc_encode [(100, 200, 300); (105, 203, 298); (98, 199, 305); (1500, -2200, 40); (1503, -2195, 44);
                        (-700, 900, 1200); (-702, 905, 1190); (-695, 898, 1207); (2000, 2100, 2200);
                        (2004, 2098, 2203); (0, 0, 0); (5, -3, 2)] = Some p /\ (1 <= length (xp_bytes p))%nat.
Proof. eexists. split; [vm_compute; reflexivity|cbn; lia]. Qed.
Print Assumptions xtc_encode_accepts.

(* non-vacuity: a float32 (0.3f = 10066330 * 2^-25) in an 8.3 field *)
Example fmt_in_range_example :
  let x := Dy true 10066330 (-25) in
  0 <= dmag x /\ (1 <= int_room 8 3 (dneg x))%nat /\ quant 3 x < 10 ^ Z.of_nat (int_room 8 3 (dneg x) + 3) /\
  string_of_list_ascii (py_fmt 8 3 x) = "  -0.300"%string.
Proof. cbv zeta. split; [vm_compute; discriminate|]. split; [vm_compute; auto|].
  split; vm_compute; reflexivity. Qed.
Print Assumptions fmt_in_range_example.

Example fmt_overflow_example :
  let x := Dy true 1000 0 in
  10 ^ Z.of_nat (int_room 8 3 (dneg x) + 3) <= quant 3 x /\ field 8 3 x = None.
Proof. vm_compute. split; [discriminate|reflexivity]. Qed.
Print Assumptions fmt_overflow_example.

(* ---------------------------------------------------------------- save/load glue (Trajectory.save_* / read_as_traj) *)
(* the factors in_units_of multiplies with, evaluated by mdtraj's unit package on every run: the float 10.0 for
   nanometers -> angstroms, the float 0.1 (cast to the float32 13421773 * 2^-27 by NumPy) for the way back *)
Theorem unit_factors_standard :
  dy_eqb (rnd32 nm_to_ang) (Dy false 10 0) = true /\ ang_per_nm = 10 /\
  dy_eqb ang_to_nm (Dy false 3602879701896397 (-55)) = true /\
  rnd32 ang_to_nm = Dy false 13421773 (-27).
Proof. exact GlueProofs.unit_factors_standard. Qed.
Print Assumptions unit_factors_standard.

(* every write call of the saver of every writable extension (AST of Trajectory.save_*, regenerated on every run)
   hands over the coordinates, hands distances (coordinates, cell lengths, box vectors) over converted from the
   Trajectory unit to the file class's unit (or unconverted when that unit is the nanometre) and time stamps and
   angles as they are; a dropped, reversed or foreign conversion breaks this obligation *)
Theorem save_glue_standard : forallb save_glue_ok writable_exts = true.
Proof. exact GlueProofs.save_glue_standard. Qed.
Print Assumptions save_glue_standard.

(* ... what the boolean says about one argument *)
Theorem save_arg_meaning : forall u role c x, arg_ok u (role, c) = true ->
  apply_conv (conv_of c) u x = Some (if is_distance role then to_file_unit_f u x else x).
Proof. exact GlueProofs.arg_ok_meaning. Qed.
Print Assumptions save_arg_meaning.

(* the loader of every writable format converts file unit -> Trajectory unit and nothing else; an angstrom class
   converts exactly the coordinates and the cell (xyz: the coordinates) *)
Theorem load_glue_standard : forallb load_glue_ok writable_exts = true.
Proof. exact GlueProofs.load_glue_standard. Qed.
Print Assumptions load_glue_standard.

(* "the time stamps and unit cell whenever the format stores them": the quantities each saver hands to its file
   class are those of the format conventions (h5, nc, dtr, rst7, ncrst: coordinates, time, cell lengths, angles;
   xtc, trr, gro: coordinates, time, box vectors; dcd, lammpstrj, pdb: coordinates and cell; mdcrd: coordinates and
   box lengths; xyz: coordinates) *)
Theorem format_stores_standard :
  map (fun e => (e, stored_roles e)) writable_exts = map (fun p => (fst p, Some (snd p))) stores_std.
Proof. exact GlueProofs.stores_standard. Qed.
Print Assumptions format_stores_standard.

(* precision of the float32 angstrom containers (DCD, NetCDF, NetCDF restart, DTR): x -> float32(10.0f * x) on save,
   float32(0.1f * .) on load; over the rationals |load(save x) - x| <= |x| / 2^22 for every x in the normal range *)
Theorem unit_roundtrip_error : forall x, 0 <= dmag x -> units_normal x ->
  (Qabs (dyQ (from_file_unit true (to_file_unit_f true x)) - dyQ x) <= Qabs (dyQ x) / inject_Z (2 ^ 22))%Q.
Proof. exact GlueProofs.unit_roundtrip_error. Qed.
Print Assumptions unit_roundtrip_error.

(* ... and every float32 of magnitude >= 2^-120 is in that range *)
Theorem unit_roundtrip_applies : forall x, 1 <= dmag x -> -120 <= dexp x -> units_normal x.
Proof. exact GlueProofs.units_normal_float32. Qed.
Print Assumptions unit_roundtrip_applies.

(* non-vacuity: 0.3f goes to 3.0f and comes back as 0.3f *)
Example unit_roundtrip_example :
  let x := Dy false 10066330 (-25) in
  units_normal x /\ dy_eqb (to_file_unit_f true x) (to_file_unit true x) = true /\
  dy_eqb (from_file_unit true (to_file_unit_f true x)) (Dy false 10066330 (-25)) = true.
Proof. cbv zeta. split; [apply GlueProofs.units_normal_float32; cbn; lia|]. split; vm_compute; reflexivity. Qed.
Print Assumptions unit_roundtrip_example.

(* stated precision of the text fields, over the rationals: a nanometre field with p decimals (gro) holds the
   coordinate to half a unit of the last place ... *)
Theorem nm_field_precision : forall p x, 0 <= dmag x ->
  (Qabs (inject_Z (quant p x) / inject_Z (10 ^ Z.of_nat p) - absQ x) <= (1 # 2) / inject_Z (10 ^ Z.of_nat p))%Q.
Proof. exact GlueProofs.nm_field_precision. Qed.
Print Assumptions nm_field_precision.

(* ... an angstrom field with p decimals (mdcrd, pdb, xyz, lammpstrj: 3; rst7: 7) holds ten times the nanometre
   coordinate to half a unit of the last place plus the float32 rounding of the conversion *)
Theorem angstrom_field_precision : forall p x, 0 <= dmag x ->
  -149 - dexp x <= bitlen (dmag x * ang_per_nm) - 24 ->
  (Qabs (inject_Z (quant p (to_file_unit true x)) / inject_Z (10 ^ Z.of_nat p) - 10 * absQ x)
    <= (1 # 2) / inject_Z (10 ^ Z.of_nat p) + 10 * absQ x / inject_Z (2 ^ 24))%Q.
Proof. exact GlueProofs.angstrom_field_precision. Qed.
Print Assumptions angstrom_field_precision.

(* ---------------------------------------------------------------- fixed-column readers *)
(* k consecutive fields of equal width that fit are read back by slicing at that width (any width, precision, count) *)
Theorem fixed_fields_roundtrip : forall w p xs fs rest, Forall (fun x => 0 <= dmag x) xs ->
  map_opt (field w p) xs = Some fs ->
  map_opt parse_num (slices w (length xs) (concat fs ++ rest)) = Some (map (qnum p) xs).
Proof. exact FixedColsProofs.slices_fields. Qed.
Print Assumptions fixed_fields_roundtrip.

(* AMBER restart (rst7): every line -- two atoms, the last atom of an odd count, or the box line -- is read back by
   float(line[j : j + 12]) as the quantised numbers; reader width regenerated from amberrst.py *)
Theorem rst7_line_roundtrip : forall xs fs, Forall (fun x => 0 <= dmag x) xs ->
  map_opt (field rst7_w rst7_p) xs = Some fs ->
  rst7_line xs = concat fs /\ rst7_line_read (length xs) (rst7_line xs) = Some (map (qnum rst7_p) xs).
Proof. exact FixedColsProofs.rst7_line_roundtrip. Qed.
Print Assumptions rst7_line_roundtrip.

(* PDB: PdbStructure's six column pairs (regenerated from pdbstructure.py) read the CRYST1 record the writer's format
   string produces back as the quantised lengths and angles, whenever they fit their fields *)
Theorem cryst1_roundtrip : forall a b c al be ga fa fb fc fal fbe fga,
  0 <= dmag a -> 0 <= dmag b -> 0 <= dmag c -> 0 <= dmag al -> 0 <= dmag be -> 0 <= dmag ga ->
  field cryst_len_w cryst_len_p a = Some fa -> field cryst_len_w cryst_len_p b = Some fb ->
  field cryst_len_w cryst_len_p c = Some fc ->
  field cryst_ang_w cryst_ang_p al = Some fal -> field cryst_ang_w cryst_ang_p be = Some fbe ->
  field cryst_ang_w cryst_ang_p ga = Some fga ->
  cryst1_read (cryst1_line [a; b; c] [al; be; ga]) =
    Some [qnum cryst_len_p a; qnum cryst_len_p b; qnum cryst_len_p c;
          qnum cryst_ang_p al; qnum cryst_ang_p be; qnum cryst_ang_p ga].
Proof. exact FixedColsProofs.cryst1_roundtrip. Qed.
Print Assumptions cryst1_roundtrip.

(* non-vacuity: a 30 x 40.5 x 50 angstrom cell with angles 90, 75.5, 120 fits and reads back *)
Example cryst1_example :
  let l := [Dy false 30 0; Dy false 81 (-1); Dy false 50 0] in let a := [Dy false 90 0; Dy false 151 (-1); Dy false 120 0] in
  map_opt (field cryst_len_w cryst_len_p) l <> None /\ map_opt (field cryst_ang_w cryst_ang_p) a <> None /\
  string_of_list_ascii (cryst1_line l a) = "CRYST1   30.000   40.500   50.000  90.00  75.50 120.00 P 1           1 "%string /\
  cryst1_read (cryst1_line l a) = Some [(false, 30000, 3%nat); (false, 40500, 3%nat); (false, 50000, 3%nat);
                                        (false, 9000, 2%nat); (false, 7550, 2%nat); (false, 12000, 2%nat)].
Proof. cbv zeta. repeat split; vm_compute; try discriminate; reflexivity. Qed.
Print Assumptions cryst1_example.

(* ---------------------------------------------------------------- NetCDF loader (product formed in binary64) *)
(* netCDF4 hands out masked arrays, numpy.ma multiplies them by the 0-d float64 array 0.1: the loaded number is
   float32(float64(0.1 * y)).  Same bound as unit_roundtrip_error, for that path. *)
Theorem unit_roundtrip_error_via64 : forall x, 0 <= dmag x -> units_normal_via64 x ->
  (Qabs (dyQ (from_file_unit_via64 true (to_file_unit_f true x)) - dyQ x) <= Qabs (dyQ x) / inject_Z (2 ^ 22))%Q.
Proof. exact Glue64Proofs.unit_roundtrip_error_via64. Qed.
Print Assumptions unit_roundtrip_error_via64.

Example unit_roundtrip_via64_example :
  let x := Dy false 10066330 (-25) in
  units_normal_via64 x /\ dy_eqb (from_file_unit_via64 true (to_file_unit_f true x)) (Dy false 10066330 (-25)) = true.
Proof. cbv zeta. split; [repeat split; vm_compute; discriminate|vm_compute; reflexivity]. Qed.
Print Assumptions unit_roundtrip_via64_example.
