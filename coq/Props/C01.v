(* C01 -- save then load reproduces the trajectory; files hold native-unit numbers an independent
   reader extracts.  Only statements, closed by [exact], and Print Assumptions.
   Model: Codec/Model.v (+ Gen/CodecTables.v regenerated from /repo); lemmas: Codec/*Proofs.v. *)
From Coq Require Import ZArith Ascii String Bool List.
Import ListNotations.
Require Import MD.Gen.CodecTables MD.Codec.Model MD.Codec.Proofs MD.Codec.RestartProofs.
Open Scope Z_scope.

(* Python "%w.pf" % x followed by float(): for EVERY width, precision and binary number the reader gets
   back exactly the printed integer round_half_even(|x| * 10^p), its sign and p decimals. *)
Theorem fmt_parse_roundtrip : forall w p x, 0 <= dmag x ->
  parse_num (py_fmt w p x) = Some (dneg x, quant p x, p).
Proof. exact Proofs.fmt_parse_roundtrip. Qed.
Print Assumptions fmt_parse_roundtrip.

(* ... and that integer is within 1/2 unit of the last place of the exact value *)
Theorem quantise_error : forall p x,
  2 * Z.abs (quant p x * dden x - dnum x * 10 ^ Z.of_nat p) <= dden x.
Proof. exact Proofs.quant_error. Qed.
Print Assumptions quantise_error.

(* a number that fits occupies exactly w columns *)
Theorem fmt_width : forall w p x, 0 <= dmag x ->
  (1 <= int_room w p (dneg x))%nat ->
  quant p x < 10 ^ Z.of_nat (int_room w p (dneg x) + p) ->
  length (py_fmt w p x) = w /\ field w p x = Some (py_fmt w p x).
Proof. exact Proofs.fmt_width_in_range. Qed.
Print Assumptions fmt_width.

(* a number that does not fit is refused by the checked field writer (mdcrd's "Overflow error"),
   the text is longer than w: digits are never silently dropped *)
Theorem fmt_width_overflow : forall w p x, 0 <= dmag x ->
  10 ^ Z.of_nat (int_room w p (dneg x) + p) <= quant p x ->
  (sign_len (dneg x) + frac_len p <= w)%nat ->
  (w < length (py_fmt w p x))%nat /\ field w p x = None.
Proof. exact Proofs.fmt_width_overflow. Qed.
Print Assumptions fmt_width_overflow.

Theorem field_sound : forall w p x s, 0 <= dmag x -> field w p x = Some s ->
  length s = w /\ parse_num s = Some (dneg x, quant p x, p).
Proof. exact Proofs.field_sound. Qed.
Print Assumptions field_sound.

(* multi-file restart writers, repaired variant: file i holds frame i's payload, time and cell *)
Theorem restart_indexing : forall (P T C : Type) (cells : option (list C)) (frames : list (P * T)),
  (2 <= length frames)%nat -> cells_ok C cells (length frames) ->
  exists files,
    save_restart RstFix false cells frames = Some files /\
    map (rf_frame P T C) files = frames /\
    map (rf_cell P T C) files = map (cell_at C cells) (seq 0 (length frames)) /\
    map (rf_suffix P T C) files =
      map (fun j => Some (zero_pad (ndigits (Z.of_nat (length frames))) (Z.of_nat (S j)))) (seq 0 (length frames)).
Proof. exact restart_indexing_fix. Qed.
Print Assumptions restart_indexing.

(* as found: save_amberrst7 writes time[0] into every numbered file *)
Theorem restart_indexing_current_refuted :
  exists (cells : option (list nat)) (frames : list (nat * nat)) files,
    (2 <= length frames)%nat /\ cells_ok nat cells (length frames) /\
    save_restart RstCur true cells frames = Some files /\
    map (rf_frame nat nat nat) files <> frames.
Proof. exact RestartProofs.restart_indexing_current_refuted. Qed.
Print Assumptions restart_indexing_current_refuted.

(* as found: both restart writers refuse a multi-frame trajectory without unit cell *)
Theorem restart_nocell_current_refuted :
  exists (frames : list (nat * nat)),
    (2 <= length frames)%nat /\ save_restart (C := nat) RstCur false None frames = None.
Proof. exact RestartProofs.restart_nocell_current_refuted. Qed.
Print Assumptions restart_nocell_current_refuted.

(* non-vacuity: a float32 (0.3f = 10066330 * 2^-25) in an 8.3 field *)
Example fmt_in_range_example :
  let x := Dy true 10066330 (-25) in
  0 <= dmag x /\ (1 <= int_room 8 3 (dneg x))%nat /\ quant 3 x < 10 ^ Z.of_nat (int_room 8 3 (dneg x) + 3) /\
  string_of_list_ascii (py_fmt 8 3 x) = "  -0.300"%string.
Proof. cbv zeta. split; [vm_compute; discriminate|]. split; [vm_compute; auto|].
  split; vm_compute; reflexivity. Qed.
Print Assumptions fmt_in_range_example.

Example fmt_overflow_example :
  let x := Dy true 1000 0 in
  10 ^ Z.of_nat (int_room 8 3 (dneg x) + 3) <= quant 3 x /\ field 8 3 x = None.
Proof. vm_compute. split; [discriminate|reflexivity]. Qed.
Print Assumptions fmt_overflow_example.
