(* C01 -- save then load reproduces the trajectory; files hold native-unit numbers an independent
   reader extracts.  Only statements, closed by [exact], and Print Assumptions.
   Model: Codec/Model.v (+ Gen/CodecTables.v regenerated from /repo); lemmas: Codec/*Proofs.v. *)
From Coq Require Import ZArith Ascii String Bool List Lia.
Import ListNotations.
Require Import MD.Gen.CodecTables MD.Codec.Model MD.Codec.Proofs MD.Codec.RestartProofs.
Require Import MD.Codec.XtcModel MD.Codec.XtcProofs MD.Codec.XtcFrameProofs.
Open Scope Z_scope.

(* Python "%w.pf" % x followed by float(): for EVERY width, precision and binary number the reader gets
   back exactly the printed integer round_half_even(|x| * 10^p), its sign and p decimals. *)
Theorem fmt_parse_roundtrip : forall w p x, 0 <= dmag x ->
  parse_num (py_fmt w p x) = Some (dneg x, quant p x, p).
Proof. exact Proofs.fmt_parse_roundtrip. Qed.
Print Assumptions fmt_parse_roundtrip.

(* ... and that integer is within 1/2 unit of the last place of the exact value *)
Theorem quantise_error : forall p x,
  2 * Z.abs (quant p x * dden x - dnum x * 10 ^ Z.of_nat p) <= dden x.
Proof. exact Proofs.quant_error. Qed.
Print Assumptions quantise_error.

(* a number that fits occupies exactly w columns *)
Theorem fmt_width : forall w p x, 0 <= dmag x ->
  (1 <= int_room w p (dneg x))%nat ->
  quant p x < 10 ^ Z.of_nat (int_room w p (dneg x) + p) ->
  length (py_fmt w p x) = w /\ field w p x = Some (py_fmt w p x).
Proof. exact Proofs.fmt_width_in_range. Qed.
Print Assumptions fmt_width.

(* a number that does not fit is refused by the checked field writer (mdcrd's "Overflow error"),
   the text is longer than w: digits are never silently dropped *)
Theorem fmt_width_overflow : forall w p x, 0 <= dmag x ->
  10 ^ Z.of_nat (int_room w p (dneg x) + p) <= quant p x ->
  (sign_len (dneg x) + frac_len p <= w)%nat ->
  (w < length (py_fmt w p x))%nat /\ field w p x = None.
Proof. exact Proofs.fmt_width_overflow. Qed.
Print Assumptions fmt_width_overflow.

Theorem field_sound : forall w p x s, 0 <= dmag x -> field w p x = Some s ->
  length s = w /\ parse_num s = Some (dneg x, quant p x, p).
Proof. exact Proofs.field_sound. Qed.
Print Assumptions field_sound.

(* multi-file restart writers, repaired variant: file i holds frame i's payload, time and cell *)
Theorem restart_indexing : forall (P T C : Type) (cells : option (list C)) (frames : list (P * T)),
  (2 <= length frames)%nat -> cells_ok C cells (length frames) ->
  exists files,
    save_restart RstFix false cells frames = Some files /\
    map (rf_frame P T C) files = frames /\
    map (rf_cell P T C) files = map (cell_at C cells) (seq 0 (length frames)) /\
    map (rf_suffix P T C) files =
      map (fun j => Some (zero_pad (ndigits (Z.of_nat (length frames))) (Z.of_nat (S j)))) (seq 0 (length frames)).
Proof. exact restart_indexing_fix. Qed.
Print Assumptions restart_indexing.

(* as found: save_amberrst7 writes time[0] into every numbered file *)
Theorem restart_indexing_current_refuted :
  exists (cells : option (list nat)) (frames : list (nat * nat)) files,
    (2 <= length frames)%nat /\ cells_ok nat cells (length frames) /\
    save_restart RstCur true cells frames = Some files /\
    map (rf_frame nat nat nat) files <> frames.
Proof. exact RestartProofs.restart_indexing_current_refuted. Qed.
Print Assumptions restart_indexing_current_refuted.

(* as found: both restart writers refuse a multi-frame trajectory without unit cell *)
Theorem restart_nocell_current_refuted :
  exists (frames : list (nat * nat)),
    (2 <= length frames)%nat /\ save_restart (C := nat) RstCur false None frames = None.
Proof. exact RestartProofs.restart_nocell_current_refuted. Qed.
Print Assumptions restart_nocell_current_refuted.

(* ---------------------------------------------------------------- XTC integer codec (xdrfile.c) *)
(* a value written in n bits (most significant first) is read back, for every value that fits *)
Theorem bits_roundtrip : forall n v rest, 0 <= v < 2 ^ Z.of_nat n ->
  get_bits n (bits_of n v ++ rest) = Some (v, rest).
Proof. exact XtcProofs.bits_roundtrip. Qed.
Print Assumptions bits_roundtrip.

(* decodeints inverts encodeints (mixed radix, multi-byte layout) whenever the group fits the bits used *)
Theorem ints_roundtrip : forall nbits s0 sr n0 nr rest,
  in_sizes sr nr -> 0 <= n0 -> 0 <= nbits <= 320 ->
  mixed_radix (s0 :: sr) (n0 :: nr) < 2 ^ nbits ->
  decodeints nbits (s0 :: sr) (encodeints nbits (s0 :: sr) (n0 :: nr) ++ rest) = Some (n0 :: nr, rest).
Proof. exact XtcProofs.ints_roundtrip. Qed.
Print Assumptions ints_roundtrip.

(* sizeofints: the bit count the C code computes is enough for every group below the sizes *)
Theorem sizeofints_sufficient : forall sizes nums, in_sizes sizes nums ->
  0 <= mixed_radix sizes nums < 2 ^ sizeofints sizes.
Proof. exact XtcProofs.sizeofints_sufficient. Qed.
Print Assumptions sizeofints_sufficient.

(* small groups use smallidx itself as the bit count: valid for every entry of magicints[] from FIRSTIDX on
   (statement about the table found in xdrfile.c today; re-proved whenever the translator sees another table) *)
Theorem smallidx_bits_sufficient : forall i, xtc_firstidx <= i < lastidx -> magic i ^ 3 <= 2 ^ i /\ 0 < magic i.
Proof. exact XtcProofs.magic_cube. Qed.
Print Assumptions smallidx_bits_sufficient.

(* the frame codec: for every list of integer triples (any number of atoms, any pattern of runs of small
   differences, every adaptive change of smallidx) that the encoder accepts, the decoder returns exactly that
   list from the bytes the encoder produced *)
Theorem xtc_frame_roundtrip : forall cs p, xtc_encode cs = Some p ->
  xtc_decode (Z.of_nat (length cs)) p = Some cs.
Proof. exact XtcFrameProofs.xtc_frame_roundtrip. Qed.
Print Assumptions xtc_frame_roundtrip.

(* non-vacuity: twelve atoms with a run of close atoms (a "water") are accepted by the encoder *)
Example xtc_encode_accepts :
  exists p, xtc_encode [(100, 200, 300); (105, 203, 298); (98, 199, 305); (1500, -2200, 40); (1503, -2195, 44);
                        (-700, 900, 1200); (-702, 905, 1190); (-695, 898, 1207); (2000, 2100, 2200);
                        (2004, 2098, 2203); (0, 0, 0); (5, -3, 2)] = Some p /\ (1 <= length (xp_bytes p))%nat.
Proof. eexists. split; [vm_compute; reflexivity|cbn; lia]. Qed.
Print Assumptions xtc_encode_accepts.

(* non-vacuity: a float32 (0.3f = 10066330 * 2^-25) in an 8.3 field *)
Example fmt_in_range_example :
  let x := Dy true 10066330 (-25) in
  0 <= dmag x /\ (1 <= int_room 8 3 (dneg x))%nat /\ quant 3 x < 10 ^ Z.of_nat (int_room 8 3 (dneg x) + 3) /\
  string_of_list_ascii (py_fmt 8 3 x) = "  -0.300"%string.
Proof. cbv zeta. split; [vm_compute; discriminate|]. split; [vm_compute; auto|].
  split; vm_compute; reflexivity. Qed.
Print Assumptions fmt_in_range_example.

Example fmt_overflow_example :
  let x := Dy true 1000 0 in
  10 ^ Z.of_nat (int_room 8 3 (dneg x) + 3) <= quant 3 x /\ field 8 3 x = None.
Proof. vm_compute. split; [discriminate|reflexivity]. Qed.
Print Assumptions fmt_overflow_example.
