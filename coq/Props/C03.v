(* C03 -- statements only. *)
From Coq Require Import List Arith ZArith Bool.
Import ListNotations.
Require Import MD.Traj.Model MD.Traj.Proofs.

Theorem cache_inv_current_refuted_slice : exists t, nth_error (trajs w_d1) 1 = Some t /\ cache_ok w_d1 t = false.
Proof. exact d1_witness. Qed.
Print Assumptions cache_inv_current_refuted_slice.
