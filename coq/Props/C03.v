(* C03 -- slicing, joining, stacking and atom subsetting act like numpy indexing on every field, hand out no
   shared memory where the property forbids it, and no history leaves the RMSD cache stale.
   Only statements, closed by [exact], and Print Assumptions.  Model: MD.Traj.Model (anchors there).

   Reading guide.  [frames w t] are the symbolic coordinates of register t in world w, [a_val (tm t)] its times,
   [ul]/[ua] its unit-cell lengths/angles; [sel d l idx] is numpy's l[idx] for an index list, [key_positions n k]
   the index list numpy uses for key k on an axis of length n (CPython slice.indices, negative indices, masks).
   [wf w]: every register's xyz view points at distinct existing positions of an existing buffer and mentions only
   identities already handed out; it holds initially and after every step (run_wf). *)
From Coq Require Import List Arith ZArith Bool.
Import ListNotations.
Require Import MD.Traj.Model MD.Traj.Lists MD.Traj.Proofs MD.Traj.NoSharing MD.Traj.Flow MD.Traj.FlowProofs.
Require Import MD.Traj.Extra MD.Traj.ExtraProofs.

(* ---- numpy index semantics used by the specifications *)
Theorem key_positions_in_range : forall n k idx s,
  key_positions n k = inr (idx, s) -> Forall (fun p => p < n) idx.
Proof. exact key_positions_lt. Qed.
Print Assumptions key_positions_in_range.

Theorem slice_positions_distinct_in_range : forall n a b c idx,
  slice_indices n a b c = Some idx -> Forall (fun p => p < n) idx /\ NoDup idx.
Proof. exact slice_indices_spec. Qed.
Print Assumptions slice_positions_distinct_in_range.

(* ---- t[key] / t.slice(key, copy): every field is indexed with the same key, as numpy would *)
Theorem getitem_spec : forall v w r k copy w' t,
  wf w -> nth_error (trajs w) r = Some t -> step v w (OSlice r k copy) = (w', ROk) ->
  exists t' xi xs,
    key_positions (nframes t) k = inr (xi, xs) /\
    trajs w' = trajs w ++ [t'] /\ hext w w' /\
    frames w' t' = sel dfr (frames w t) xi /\
    (exists ti s, key_positions (length (a_val (tm t))) k = inr (ti, s) /\ a_val (tm t') = sel (TAr 0) (a_val (tm t)) ti) /\
    cell_sliced k (ul t) (ul t') /\ cell_sliced k (ua t) (ua t') /\
    na t' = na t /\ chains t' = chains t /\ lengths_ok t' = true /\
    reg_ok w' t' /\ traces_sliced v k w (tr t) (tr t') /\
    (copy = true -> fresh_reg w t').
Proof. exact slice_ok. Qed.
Print Assumptions getitem_spec.

(* ---- t.join(others, discard_overlapping_frames=dis) / t + o / md.join: every field is the concatenation, in operand
        order, of the operand fields, operand i having lost its last entry exactly when dis is set and its last frame
        has the coordinates of the first frame of operand i+1 ([join_plan], [jparts]); see [join_facts] *)
Theorem join_spec : forall v w r others ct dis w',
  step v w (OJoin r others ct dis) = (w', ROk) ->
  exists t os t' plan, nth_error (trajs w) r = Some t /\ get_all w others = Some os /\ join_facts v w t os dis w' t' plan.
Proof. exact join_step_full. Qed.
Print Assumptions join_spec.

(* md.join(list) is the reduction it is in the source: first.join(second).join(third)..., every step a complete
   two-operand join with its own fresh copies; only the last result is reachable.  Its result has the first operand's
   atom count, topology and cell presence, equal field lengths, nothing in common with any existing trajectory
   (mdjoin_facts), and its coordinates and times are the left fold of the two-operand join (red_parts) *)
Theorem mdjoin_spec : forall v w rs dis w',
  step v w (OMdJoin rs dis) = (w', ROk) ->
  exists t o rest t', get_all w rs = Some (t :: o :: rest) /\ mdjoin_facts w t w' t'.
Proof. exact mdjoin_step_full. Qed.
Print Assumptions mdjoin_spec.

Theorem mdjoin_values_are_the_fold : forall v w rs dis w' t o rest,
  wf w -> get_all w rs = Some (t :: o :: rest) -> step v w (OMdJoin rs dis) = (w', ROk) ->
  exists t', trajs w' = trajs w ++ [t'] /\
    red_parts dis (frames w t) (a_val (tm t)) (map (fun x => (frames w x, a_val (tm x))) (o :: rest))
    = Some (frames w' t', a_val (tm t')).
Proof. exact mdjoin_values. Qed.
Print Assumptions mdjoin_values_are_the_fold.

Theorem join_without_trimming_is_concatenation : forall A (ls : list (list A)),
  jparts (map (fun _ => false) ls) ls = concat ls.
Proof. exact @jparts_all_false. Qed.
Print Assumptions join_without_trimming_is_concatenation.

(* ---- t.stack(o): coordinates hstacked frame by frame; time and cell are the left operand's (the same arrays,
        or a contiguous copy of a Fortran-ordered cell array) *)
Theorem stack_spec : forall w r r' t o w',
  wf w -> nth_error (trajs w) r = Some t -> nth_error (trajs w) r' = Some o -> do_stack w r r' = (w', ROk) ->
  exists t',
    trajs w' = trajs w ++ [t'] /\ hext w w' /\
    frames w' t' = zip_stk (frames w t) (frames w o) /\
    tm t' = tm t /\ cell_passed w (ul t) (ul t') /\ cell_passed w (ua t) (ua t') /\
    na t' = na t + na o /\ chains t' = chains t ++ chains o /\
    tr t' = None /\ lengths_ok t' = true /\ reg_ok w' t' /\
    length (hx w) <= xb t' /\ ntop w <= tloc t' /\ nframes t = nframes o.
Proof. exact stack_ok. Qed.
Print Assumptions stack_spec.

(* stacking more than two trajectories is done by chaining: t.stack(o).stack(o2) *)
Theorem stack_chain_spec : forall w r r' r'' t o o2 w1 w2,
  wf w -> nth_error (trajs w) r = Some t -> nth_error (trajs w) r' = Some o -> nth_error (trajs w) r'' = Some o2 ->
  do_stack w r r' = (w1, ROk) -> do_stack w1 (length (trajs w)) r'' = (w2, ROk) ->
  exists t2, trajs w2 = trajs w1 ++ [t2] /\
    frames w2 t2 = zip_stk (zip_stk (frames w t) (frames w o)) (frames w o2) /\
    na t2 = na t + na o + na o2 /\ chains t2 = (chains t ++ chains o) ++ chains o2 /\
    tm t2 = tm t /\ tr t2 = None /\ lengths_ok t2 = true /\ (forall x, In x (trajs w) -> xb x <> xb t2).
Proof. exact stack_chain. Qed.
Print Assumptions stack_chain_spec.

(* ---- atom_slice: numpy take on the atom axis of every frame; other fields copied (inplace=False) or kept *)
Theorem atom_slice_spec : forall v w r idx t w',
  wf w -> nth_error (trajs w) r = Some t -> do_atom_slice v w r idx false = (w', ROk) ->
  exists t' ni,
    norm_indices (na t) idx = Some ni /\
    trajs w' = trajs w ++ [t'] /\ hext w w' /\
    frames w' t' = map (Sub ni) (frames w t) /\
    a_val (tm t') = a_val (tm t) /\ cell_copied w t t' /\
    na t' = length ni /\ chains t' = subset_chains 0 (chains t) idx /\
    tr t' = None /\ lengths_ok t' = true /\ reg_ok w' t' /\ fresh_reg w t'.
Proof. exact atom_slice_new_ok. Qed.
Print Assumptions atom_slice_spec.

Theorem atom_slice_inplace_spec : forall v w r idx t w',
  wf w -> nth_error (trajs w) r = Some t -> do_atom_slice v w r idx true = (w', ROk) ->
  exists t' ni,
    norm_indices (na t) idx = Some ni /\
    trajs w' = set_nth r t' (trajs w) /\ hext w w' /\
    frames w' t' = map (Sub ni) (frames w t) /\
    tm t' = tm t /\ ul t' = ul t /\ ua t' = ua t /\
    na t' = length ni /\ chains t' = subset_chains 0 (chains t) idx /\
    tr t' = (if aslice_inplace_resets v then None else tr t) /\
    nframes t' = nframes t /\ reg_ok w' t' /\ length (hx w) <= xb t'.
Proof. exact atom_slice_inplace_ok. Qed.
Print Assumptions atom_slice_inplace_spec.

(* ---- reflection for the data-flow terms re-extracted from mdtraj/core/trajectory.py on every run (MD.Gen.TrajFlow):
        the terms have a semantics (MD.Traj.Flow: slice_sem, join_sem, stack_sem, atom_slice_sem, effects_sem) defined for
        right and wrong terms alike; a term that passes the checker denotes exactly the model's operation, so every
        theorem of this file is about what the source text says today.  Each run proves check_* = true for the extracted terms. *)
Theorem flow_reflection_slice : forall f, check_slice f = true ->
  exists g, slice_sem f = Some g /\
            forall v w r k copy, slice_indexes_traces v = true -> g w r k copy = do_slice v w r k copy.
Proof. exact check_slice_sound. Qed.
Print Assumptions flow_reflection_slice.

Theorem flow_reflection_join : forall f, check_join f = true ->
  exists g, join_sem f = Some g /\ forall w t others ct dis, g w t others ct dis = join_trajs w t others ct dis.
Proof. exact check_join_sound. Qed.
Print Assumptions flow_reflection_join.

Theorem flow_reflection_stack : forall f, check_stack f = true ->
  exists g, stack_sem f = Some g /\ forall w r r', g w r r' = do_stack w r r'.
Proof. exact check_stack_sound. Qed.
Print Assumptions flow_reflection_stack.

Theorem flow_reflection_atom_slice : forall f, check_atom_slice f = true ->
  exists g, atom_slice_sem f = Some g /\ forall v w r idx, g w r idx = do_atom_slice v w r idx false.
Proof. exact check_atom_slice_sound. Qed.
Print Assumptions flow_reflection_atom_slice.

(* the in-place methods (xyz setter, atom_slice(inplace=True), center_coordinates, superpose; remove_solvent delegating to
   atom_slice; time / unitcell setters not touching coordinates or cache): their extracted cache effects *)
Theorem flow_reflection_inplace : forall e, check_effects e = true ->
  exists ops, effects_sem e = Some ops /\
    (forall w r m natoms, op_set_xyz_new ops w r m natoms = do_set_xyz_new w r m natoms) /\
    (forall v w r idx, aslice_inplace_resets v = true -> op_atom_slice_inplace ops w r idx = do_atom_slice v w r idx true) /\
    (forall w r mw, op_center ops w r mw = do_center w r mw) /\
    (forall w r ref frame, op_superpose ops w r ref frame = do_superpose w r ref frame).
Proof. exact check_effects_sound. Qed.
Print Assumptions flow_reflection_inplace.

(* what the interpreter says about a wrong term: a slice whose time is not copied shares its time buffer with the
   source; an atom_slice(inplace=True) that keeps the cache leaves it stale *)
Example wrong_terms_have_wrong_meanings : dropped_copy_shares_stmt /\ missing_reset_is_stale_stmt.
Proof. exact (conj dropped_copy_shares missing_reset_is_stale). Qed.
Print Assumptions wrong_terms_have_wrong_meanings.

(* ---- a refused operation changes nothing (the one exception, a superpose that raises after centring in
        place, is modelled and covered by run_wf / the cache theorem) *)
Theorem refused_slice_changes_nothing : forall v w r k copy w' e, do_slice v w r k copy = (w', RErr e) -> w' = w.
Proof. exact slice_err. Qed.
Print Assumptions refused_slice_changes_nothing.

(* ---- well-formedness is an invariant of every history, in both variants *)
Theorem wf_inv : forall v sps ops, wf (fst (run v (init_world sps) ops)).
Proof. intros v sps ops. exact (run_wf v ops _ (init_wf sps)). Qed.
Print Assumptions wf_inv.

(* ---- all per-frame fields keep equal lengths in every reachable state (xyz assignment is the one unchecked
        setter, so histories must keep the number of frames when assigning xyz) *)
Theorem lengths_inv : forall v sps ops,
  guarded xyz_guard v (init_world sps) ops = true -> lens (fst (run v (init_world sps) ops)).
Proof. exact run_lens_init. Qed.
Print Assumptions lengths_inv.

Theorem lengths_inv_from : forall v ops w,
  wf w -> lens w -> guarded xyz_guard v w ops = true -> lens (fst (run v w ops)).
Proof. exact run_lens. Qed.
Print Assumptions lengths_inv_from.

Theorem lengths_guard_needed :
  lensb (fst (run v_fix (init_world specs1) [OSetXyzNew 0 5 3])) = false /\
  snd (run v_fix (init_world specs1) [OSetXyzNew 0 5 3]) = [ROk].
Proof. exact xyz_assignment_unchecked. Qed.
Print Assumptions lengths_guard_needed.

(* ---- results never share coordinate memory with an input (every op that returns a new object, except
        slice(copy=False)) *)
Theorem fresh_xyz : forall v w o w',
  wf w -> makes_new_xyz o = true -> step v w o = (w', ROk) ->
  exists t', trajs w' = trajs w ++ [t'] /\
             forall t, In t (trajs w) -> xb t <> xb t' /\ overlap (xb t') (xp t') (xb t) (xp t) = false.
Proof. exact step_fresh_xyz. Qed.
Print Assumptions fresh_xyz.

(* ---- slice(copy=True), join, md.join, atom_slice(inplace=False), remove_solvent(inplace=False):
        no array buffer (xyz, time, cell, traces) and no topology object in common with any existing trajectory.
        The topology is ONE identity [tloc] here: deepcopy(topology), Topology.subset and Topology.join are taken to
        return an object graph (chains, residues, atoms, the atoms that bonds point to) disjoint from their input, which
        is exactly C04's copy_independent / subset_* / join theorems (coq/Props/C04.v) -- C03 depends on them and adds
        nothing to them; the runs check it on topologies with bonds and two-atom residues (object identities of every
        Chain, Residue, Atom and bonded Atom of a result against all earlier topologies) *)
Theorem no_shared_mutable : forall v w o w',
  wf w -> makes_independent o = true -> step v w o = (w', ROk) ->
  exists t', trajs w' = trajs w ++ [t'] /\ forall t, In t (trajs w) -> independent t t'.
Proof. exact step_independent. Qed.
Print Assumptions no_shared_mutable.

(* ---- the cache invariant, repaired code: after EVERY finite history every trajectory's _rmsd_traces is absent or
        holds, for each frame, the trace of that (centred) frame.  Guard: see Proofs.inplace_guard. *)
Theorem cache_inv : forall sps ops,
  guarded inplace_guard v_fix (init_world sps) ops = true -> cinv (fst (run v_fix (init_world sps) ops)).
Proof. exact run_cinv_init. Qed.
Print Assumptions cache_inv.

Theorem cache_inv_from : forall ops w,
  wf w -> cinv w -> guarded inplace_guard v_fix w ops = true -> cinv (fst (run v_fix w ops)).
Proof. exact run_cinv. Qed.
Print Assumptions cache_inv_from.

(* the same without any condition on the states met: histories that never put two trajectories over one xyz
   buffer (no slice(copy=False), no t.xyz = u.xyz); of the guard only "superpose on a register whose topology and
   coordinates agree on the atom count" remains *)
Theorem cache_inv_no_shared_buffers : forall sps ops,
  forallb plain_op ops = true -> guarded top_guard v_fix (init_world sps) ops = true ->
  cinv (fst (run v_fix (init_world sps) ops)).
Proof. exact run_cinv_plain. Qed.
Print Assumptions cache_inv_no_shared_buffers.

Example plain_history_exists :
  forallb plain_op ops_plain_demo = true /\ guarded top_guard v_fix (init_world specs1) ops_plain_demo = true /\
  snd (run v_fix (init_world specs1) ops_plain_demo) = [ROk; ROk; ROk; ROk; ROk; ROk; ROk; ROk; ROk; ROk] /\
  cinvb (fst (run v_fix (init_world specs1) ops_plain_demo)) = true.
Proof. exact plain_demo. Qed.
Print Assumptions plain_history_exists.

(* the code gives a joined trajectory no cache.  An implementation that instead hands the operands' caches on,
   concatenated AFTER the overlap trimming, keeps the invariant too (the property is consistency, not absence);
   the correspondence accepts either behaviour *)
Theorem cache_inv_join_keeping_cache : forall sps ops,
  guarded inplace_guard v_keep (init_world sps) ops = true -> cinv (fst (run v_keep (init_world sps) ops)).
Proof. exact run_cinv_keep_init. Qed.
Print Assumptions cache_inv_join_keeping_cache.

Example overlapping_join_trims_and_stays_consistent :
  guarded inplace_guard v_keep (init_world specs1) ops_overlap = true /\
  snd (run v_keep (init_world specs1) ops_overlap) = [ROk; ROk; ROk; ROk; ROk; ROk] /\
  (let w := fst (run v_keep (init_world specs1) ops_overlap) in
   reg_frames_cache w 3 = Some (4, Some 4) /\ reg_frames_cache w 4 = Some (5, Some 5) /\
   reg_frames_cache w 5 = Some (8, Some 8) /\ cinvb w = true) /\
  (let w := fst (run v_fix (init_world specs1) ops_overlap) in
   reg_frames_cache w 3 = Some (4, None) /\ reg_frames_cache w 4 = Some (5, None) /\ cinvb w = true).
Proof. exact overlap_demo. Qed.
Print Assumptions overlapping_join_trims_and_stays_consistent.

(* consequently the precentred shortcut reads exactly what a from-scratch computation computes *)
Theorem rmsd_precentered_eq : forall w t c,
  tr t = Some c -> cache_ok w t = true ->
  length (a_val c) = nframes t /\
  forall i x, nth_error (frames w t) i = Some x -> nth_error (a_val c) i = Some (cen x) /\ cen x = x.
Proof. exact precentered_reads_scratch. Qed.
Print Assumptions rmsd_precentered_eq.

(* ---- the code as found: the invariant fails although the guard holds *)
Theorem cache_inv_slice_as_found_refuted :
  guarded inplace_guard (mkVar false true false) (init_world specs1) ops_d1 = true /\
  cinvb (fst (run (mkVar false true false) (init_world specs1) ops_d1)) = false.
Proof. exact d1_refuted. Qed.
Print Assumptions cache_inv_slice_as_found_refuted.

Theorem cache_inv_atom_slice_inplace_as_found_refuted :
  guarded inplace_guard (mkVar true false false) (init_world specs1) ops_d2 = true /\
  cinvb (fst (run (mkVar true false false) (init_world specs1) ops_d2)) = false.
Proof. exact d2_refuted. Qed.
Print Assumptions cache_inv_atom_slice_inplace_as_found_refuted.

(* ---- the guard cannot be dropped, even for the repaired code: writing through a shared xyz buffer *)
Theorem cache_inv_without_guard_refuted :
  guarded inplace_guard v_fix (init_world specs2) ops_alias = false /\
  cinvb (fst (run v_fix (init_world specs2) ops_alias)) = false.
Proof. exact alias_refuted. Qed.
Print Assumptions cache_inv_without_guard_refuted.

(* ---- non-vacuity: one history that satisfies both guards, succeeds at every step and uses every kind of op *)
Example guarded_history_exists :
  guarded inplace_guard v_fix (init_world specs1) ops_demo = true /\
  guarded xyz_guard v_fix (init_world specs1) ops_demo = true /\
  snd (run v_fix (init_world specs1) ops_demo) = [ROk; ROk; ROk; ROk; ROk; ROk; ROk; ROk; ROk; ROk; ROk].
Proof. exact demo_guards. Qed.
Print Assumptions guarded_history_exists.

(* ================================================================== second layer (MD.Traj.Extra / ExtraProofs)
   restrict_atoms, make_molecules_whole / image_molecules, smooth, and analysis / save calls as operations of the
   history.  What the imaging and filter kernels compute is NOT modelled (their result is a fresh opaque data source);
   the theorems are about the bookkeeping: which memory is written, what happens to the cache, what is shared. *)

(* ---- every history over the extended alphabet keeps the world well formed *)
Theorem xwf_inv : forall v xv sps ops, wf (fst (xrun v xv (init_world sps) ops)).
Proof. exact xrun_wf_init. Qed.
Print Assumptions xwf_inv.

(* ---- the extended run restricted to the base alphabet is the run the theorems above speak about *)
Theorem xrun_extends_run : forall v xv ops w, xrun v xv w (map XBase ops) = run v w ops.
Proof. exact xrun_base. Qed.
Print Assumptions xrun_extends_run.

(* ---- the cache invariant over the extended alphabet, imaging methods repaired (result._rmsd_traces = None after the
        kernel): after EVERY finite history of base operations, restrict_atoms, make_molecules_whole / image_molecules
        (inplace False and True), smooth (inplace False and True) and observers, from any initial trajectories, every
        _rmsd_traces is absent or equals frame by frame the trace of the current centred frame.  Guard: as for cache_inv;
        an imaging call with inplace=True is an in-place write like center_coordinates, the copying form needs nothing *)
Theorem xcache_inv : forall sps ops,
  xguarded v_fix xv_fix (init_world sps) ops = true -> cinv (fst (xrun v_fix xv_fix (init_world sps) ops)).
Proof. exact xrun_cinv_init. Qed.
Print Assumptions xcache_inv.

Theorem xcache_inv_from : forall ops w,
  wf w -> cinv w -> xguarded v_fix xv_fix w ops = true -> cinv (fst (xrun v_fix xv_fix w ops)).
Proof. exact xrun_cinv. Qed.
Print Assumptions xcache_inv_from.

Example extended_guarded_history_exists :
  xguarded v_fix xv_fix (init_world specs_img) xops_demo = true /\
  snd (xrun v_fix xv_fix (init_world specs_img) xops_demo) = map (fun _ => ROk) xops_demo.
Proof. exact xdemo_guards. Qed.
Print Assumptions extended_guarded_history_exists.

(* ---- the code as found: both imaging methods leave the cache behind *)
Theorem xcache_inv_imaging_inplace_as_found_refuted :
  xguarded v_fix xv_cur (init_world specs_img) [XBase (OCenter 0 false); XImage 0 true] = true /\
  xcinvb (fst (xrun v_fix xv_cur (init_world specs_img) [XBase (OCenter 0 false); XImage 0 true])) = false.
Proof. exact imaging_inplace_as_found_refuted. Qed.
Print Assumptions xcache_inv_imaging_inplace_as_found_refuted.

Theorem xcache_inv_imaging_copy_as_found_refuted :
  xguarded v_fix xv_cur (init_world specs_img) [XBase (OCenter 0 false); XImage 0 false] = true /\
  let w := fst (xrun v_fix xv_cur (init_world specs_img) [XBase (OCenter 0 false); XImage 0 false]) in
  map (cache_ok w) (trajs w) = [true; false].
Proof. exact imaging_copy_as_found_refuted. Qed.
Print Assumptions xcache_inv_imaging_copy_as_found_refuted.

(* ---- make_molecules_whole(inplace=False) / image_molecules(inplace=False): the returned trajectory has no array
        buffer and no topology identity in common with any existing trajectory (it is self[:] before the kernel runs) *)
Theorem imaging_copy_shares_nothing : forall v xv w r w',
  wf w -> do_image v xv w r false = (w', ROk) ->
  exists t', trajs w' = trajs w ++ [t'] /\ forall t, In t (trajs w) -> independent t t'.
Proof. exact image_copy_independent. Qed.
Print Assumptions imaging_copy_shares_nothing.

(* ---- smooth(inplace=False): fresh coordinates, no cache, equal field lengths -- but the time array and the topology
        object ARE the source's (and the cell arrays unless ensure_type copied them): stated, not forbidden by C03, whose
        no-sharing clause lists slicing, joining and atom subsetting *)
Theorem smooth_copy_spec : forall w r t w',
  wf w -> nth_error (trajs w) r = Some t -> do_smooth w r false = (w', ROk) ->
  exists t',
    trajs w' = trajs w ++ [t'] /\ hext w w' /\
    frames w' t' = opaque_frames (nsrc w) (nframes t) (na t) /\
    tm t' = tm t /\ tloc t' = tloc t /\ cell_passed w (ul t) (ul t') /\ cell_passed w (ua t) (ua t') /\
    na t' = na t /\ chains t' = chains t /\ tr t' = None /\ lengths_ok t' = true /\ reg_ok w' t' /\
    length (hx w) <= xb t'.
Proof. exact smooth_copy_ok. Qed.
Print Assumptions smooth_copy_spec.

(* ---- analysis and save calls are observers of the model: they leave the whole world as it is.  (That the REAL
        functions are observers is what the runs test: hashes of every trajectory object before and after.) *)
Theorem observers_leave_the_world_identical : forall v xv w o, is_observer o = true -> fst (xstep v xv w o) = w.
Proof. exact observers_change_nothing. Qed.
Print Assumptions observers_leave_the_world_identical.

(* ---- restrict_atoms is atom_slice (same in-place flag): every theorem about atom_slice applies *)
Theorem restrict_atoms_delegates : forall v xv w r idx ip,
  xstep v xv w (XRestrictAtoms r idx ip) = xstep v xv w (XBase (OAtomSlice r idx ip)).
Proof. exact restrict_atoms_is_atom_slice. Qed.
Print Assumptions restrict_atoms_delegates.

(* ---- a call that raises leaves every trajectory as it was (all operations except superpose, which centres its
        target in place before the atom-count check can raise: see do_superpose) *)
Theorem refused_call_changes_nothing : forall w o w' e,
  match o with XBase (OSuperpose _ _ _) => False | _ => True end ->
  xstep v_fix xv_fix w o = (w', RErr e) -> w' = w.
Proof. exact xstep_refused_changes_nothing. Qed.
Print Assumptions refused_call_changes_nothing.
