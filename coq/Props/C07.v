(* C07 -- angles and dihedrals equal their geometric definitions; named torsions use the documented atoms.
   Only statements, closed by [exact], and Print Assumptions.
   Zg / Rg / Tables are regenerated from anglekernels.h, dihedralkernels.h, dihedral.py, angle.py on every run. *)
From Coq Require Import ZArith Reals List String Permutation Sorted.
Import ListNotations.
Require Import MD.Geom.Vec MD.Gen.GeomFormulas MD.Geom.Model MD.Geom.Proofs MD.Geom.Topo MD.Geom.TopoProofs.
Require Import MD.PBC.Model MD.PBC.Proofs MD.Geom.Periodic MD.Geom.PeriodicProofs.
Require Import MD.Geom.GlueTypes MD.Gen.GeomGlue MD.Geom.Glue MD.Geom.GlueProofs.

(* ================= polynomial identities over Z (closed) ===================================== *)
Section OverZ. Import ZV ZG. Local Open Scope Z_scope.

(* with n1 = b1 x b2, n2 = b2 x b3:  p2 = n1.n2,  p1 |b2| = (n1 x n2).b2,  p1^2 + p2^2 = |n1|^2 |n2|^2 *)
Theorem dihedral_is_iupac_poly : forall b1 b2 b3 d1 d2 d3, d2 * d2 = dot b2 b2 ->
  Zg.dih_p2 b1 b2 b3 d1 d2 d3 = dot (cross b1 b2) (cross b2 b3) /\
  Zg.dih_p1 b1 b2 b3 d1 d2 d3 * d2 = dot (cross (cross b1 b2) (cross b2 b3)) b2 /\
  Zg.dih_p1 b1 b2 b3 d1 d2 d3 * Zg.dih_p1 b1 b2 b3 d1 d2 d3 + Zg.dih_p2 b1 b2 b3 d1 d2 d3 * Zg.dih_p2 b1 b2 b3 d1 d2 d3
    = dot (cross b1 b2) (cross b1 b2) * dot (cross b2 b3) (cross b2 b3).
Proof.
  intros b1 b2 b3 d1 d2 d3 H.
  exact (conj (ZP.dihedral_p2_normals b1 b2 b3 d1 d2 d3)
              (conj (ZP.dihedral_p1_triple b1 b2 b3 d1 d2 d3 H) (ZP.dihedral_pythagoras b1 b2 b3 d1 d2 d3 H))).
Qed.
Print Assumptions dihedral_is_iupac_poly.

Theorem reverse_invariant_poly : forall b1 b2 b3 d1 d2 d3,
  (Zg.dih_p1 (vneg b3) (vneg b2) (vneg b1) d3 d2 d1 = Zg.dih_p1 b1 b2 b3 d1 d2 d3 /\
   Zg.dih_p2 (vneg b3) (vneg b2) (vneg b1) d3 d2 d1 = Zg.dih_p2 b1 b2 b3 d1 d2 d3) /\
  (Zg.ang_num b2 b1 d2 d1 = Zg.ang_num b1 b2 d1 d2 /\ Zg.ang_den b2 b1 d2 d1 = Zg.ang_den b1 b2 d1 d2).
Proof. intros. exact (conj (ZP.reverse_dihedral b1 b2 b3 d1 d2 d3) (ZP.reverse_angle b1 b2 d1 d2)). Qed.
Print Assumptions reverse_invariant_poly.

(* without a cell, on the atoms themselves *)
Theorem reverse_invariant_atoms : forall x0 x1 x2 x3,
  dih_obs_atoms [x3; x2; x1; x0] = dih_obs_atoms [x0; x1; x2; x3] /\
  ang_obs_atoms [x2; x1; x0] = (match ang_obs_atoms [x0; x1; x2] with Some (n, a, b) => Some (n, b, a) | None => None end).
Proof. intros. exact (conj (ZP.reverse_dihedral_atoms x0 x1 x2 x3) (ZP.reverse_angle_atoms x0 x1 x2)). Qed.
Print Assumptions reverse_invariant_atoms.

Theorem mirror_negates_poly : forall b1 b2 b3 d1 d2 d3,
  Zg.dih_p1 (mirror_x b1) (mirror_x b2) (mirror_x b3) d1 d2 d3 = - Zg.dih_p1 b1 b2 b3 d1 d2 d3 /\
  Zg.dih_p2 (mirror_x b1) (mirror_x b2) (mirror_x b3) d1 d2 d3 = Zg.dih_p2 b1 b2 b3 d1 d2 d3.
Proof. exact ZP.mirror_dihedral. Qed.
Print Assumptions mirror_negates_poly.

Theorem paths_agree_poly : (Zg.py_dih_pairs = Zg.dih_pairs /\ Zg.py_ang_pairs = Zg.ang_pairs) /\
  forall b1 b2 b3 d1 d2 d3,
    Zg.dih_p1 b1 b2 b3 d1 d2 d3 = Zg.py_p1_factor b1 b2 b3 * d2 /\ Zg.py_p1_radicand b1 b2 b3 = dot b2 b2 /\
    Zg.dih_p2 b1 b2 b3 d1 d2 d3 = Zg.py_p2 b1 b2 b3.
Proof. exact (conj (conj (proj1 ZP.paths_agree_dihedral) ZP.paths_agree_angle_pairs) (proj2 ZP.paths_agree_dihedral)). Qed.
Print Assumptions paths_agree_poly.

Theorem pairs_documented : Zg.dih_pairs = [(0, 1); (1, 2); (2, 3)]%nat /\ Zg.ang_pairs = [(1, 0); (1, 2)]%nat.
Proof. exact ZP.pairs_documented. Qed.
Print Assumptions pairs_documented.
End OverZ.

(* ================= named torsions (closed) ==================================================== *)
Section Named. Local Open Scope Z_scope.

(* _atom_sequence (dictionary look-ups, two all(...) tests) = the list-level specification *)
Theorem atom_sequence_spec : forall t names, atom_sequence t names = Topo.atom_sequence_spec t names.
Proof. exact atom_sequence_refines. Qed.
Print Assumptions atom_sequence_spec.

(* exactly the residues whose offset neighbours lie in the same chain and contain the named atoms *)
Theorem atom_sequence_sound_complete : forall t names rid idx,
  let pat := combine (map strip_offset names) (map parse_offset names) in
  In (rid, idx) (atom_sequence t names) <->
  exists c r, In c t /\ In r c /\ r_index r = rid /\
    Forall2 (fun ao i => exists r', find_res c (rid + snd ao) = Some r' /\ find_atom r' (fst ao) = Some i) pat idx.
Proof. exact atom_sequence_characterised. Qed.
Print Assumptions atom_sequence_sound_complete.

(* ... in chain order, then residue order *)
Theorem atom_sequence_in_order : forall t names,
  sublist (map fst (atom_sequence t names)) (map r_index (List.concat t)).
Proof. exact atom_sequence_order. Qed.
Print Assumptions atom_sequence_in_order.

Theorem tables_are_documented :
  same_patterns Tables.PHI_ATOMS DOC_PHI = true /\ same_patterns Tables.PSI_ATOMS DOC_PSI = true /\
  same_patterns Tables.OMEGA_ATOMS DOC_OMEGA = true /\ same_patterns Tables.CHI1_ATOMS DOC_CHI1 = true /\
  same_patterns Tables.CHI2_ATOMS DOC_CHI2 = true /\ same_patterns Tables.CHI3_ATOMS DOC_CHI3 = true /\
  same_patterns Tables.CHI4_ATOMS DOC_CHI4 = true /\ same_patterns Tables.CHI5_ATOMS DOC_CHI5 = true.
Proof. exact tables_documented. Qed.
Print Assumptions tables_are_documented.

(* chi tables: all matches of all patterns, ordered by residue *)
Theorem indices_chi_sorted_permutation : forall tab t,
  exists l, indices_chi tab t = map snd l /\ Permutation (flat_map (Topo.atom_sequence_spec t) tab) l /\ LocallySorted rid_le l.
Proof. exact indices_chi_spec. Qed.
Print Assumptions indices_chi_sorted_permutation.
End Named.

(* ================= periodic kernels on top of the minimum-image model of C05 (closed) ========== *)
Section Periodic. Local Open Scope Z_scope.

(* periodic_uses_mic: while frame j is processed, the kernels hand the cell OF FRAME j (read from the source:
   the definitions of module Calls) to dist_mic / dist_mic_triclinic, so their bond vectors are PBC.displacements of the
   same atom pairs in the kernel's pair order *)
Theorem periodic_uses_mic : forall opt periodic xyz boxes q t,
  kernel_rows opt periodic xyz boxes (atom_pairs Zg.dih_pairs q) Calls.dih_box_frame_ortho Calls.dih_box_frame_tric
    = displacements opt periodic xyz boxes (atom_pairs Zg.dih_pairs q) /\
  kernel_rows opt periodic xyz boxes (atom_pairs Zg.ang_pairs t) Calls.ang_box_frame_ortho Calls.ang_box_frame_tric
    = displacements opt periodic xyz boxes (atom_pairs Zg.ang_pairs t).
Proof. exact periodic_uses_mic_rows. Qed.
Print Assumptions periodic_uses_mic.

(* ... hence in every frame the observables are those of the C05 displacements x1-x0, x2-x1, x3-x2 (resp.
   x0-x1, x2-x1 at the middle atom) taken with that frame's cell on the dispatched code path *)
Theorem periodic_entry :
  (forall opt periodic xyz boxes a0 a1 a2 a3 out j f B x0 x1 x2 x3,
     dihedral_traj opt periodic xyz boxes [a0; a1; a2; a3] = Some out ->
     nth_error xyz j = Some f -> box_at boxes j = Some B ->
     nth_error f a0 = Some x0 -> nth_error f a1 = Some x1 -> nth_error f a2 = Some x2 -> nth_error f a3 = Some x3 ->
     let p := dispatch opt periodic boxes in
     nth_error out j = Some (ZG.dih_obs (path_disp p B (vsub x1 x0)) (path_disp p B (vsub x2 x1)) (path_disp p B (vsub x3 x2)))) /\
  (forall opt periodic xyz boxes a0 a1 a2 out j f B x0 x1 x2,
     angle_traj opt periodic xyz boxes [a0; a1; a2] = Some out ->
     nth_error xyz j = Some f -> box_at boxes j = Some B ->
     nth_error f a0 = Some x0 -> nth_error f a1 = Some x1 -> nth_error f a2 = Some x2 ->
     let p := dispatch opt periodic boxes in
     nth_error out j = Some (ZG.ang_obs (path_disp p B (vsub x0 x1)) (path_disp p B (vsub x2 x1)))).
Proof. exact (conj periodic_uses_mic_dihedral periodic_uses_mic_angle). Qed.
Print Assumptions periodic_entry.

(* with C05's tric_minimal_halfwidth: the bond vectors ARE the shortest images (dihedrals and angles) *)
Theorem periodic_bonds_are_minimum_images : forall p B, tric_path p -> lower_tri_pos B ->
  (forall r1 r2 r3 n1 n2 n3,
     let v1 := vadd r1 (comb B n1) in let v2 := vadd r2 (comb B n2) in let v3 := vadd r3 (comb B n3) in
     below_half_widths B v1 -> below_half_widths B v2 -> below_half_widths B v3 ->
     ZG.dih_obs (path_disp p B r1) (path_disp p B r2) (path_disp p B r3) = ZG.dih_obs v1 v2 v3 /\
     (forall n, norm2 v1 <= norm2 (vadd r1 (comb B n))) /\ (forall n, norm2 v2 <= norm2 (vadd r2 (comb B n))) /\
     (forall n, norm2 v3 <= norm2 (vadd r3 (comb B n)))) /\
  (forall r1 r2 n1 n2,
     let v1 := vadd r1 (comb B n1) in let v2 := vadd r2 (comb B n2) in
     below_half_widths B v1 -> below_half_widths B v2 ->
     ZG.ang_obs (path_disp p B r1) (path_disp p B r2) = ZG.ang_obs v1 v2 /\
     (forall n, norm2 v1 <= norm2 (vadd r1 (comb B n))) /\ (forall n, norm2 v2 <= norm2 (vadd r2 (comb B n)))).
Proof.
  intros p B Hp HB. split; [intros r1 r2 r3 n1 n2 n3; exact (dihedral_of_minimum_images p B r1 r2 r3 n1 n2 n3 Hp HB)
                          | intros r1 r2 n1 n2; exact (angle_of_minimum_images p B r1 r2 n1 n2 Hp HB)].
Qed.
Print Assumptions periodic_bonds_are_minimum_images.

(* corollary: translating every atom by its own lattice vector changes neither dihedrals nor angles (triclinic
   paths: bonds below the half widths; orthorhombic SSE kernel: unless a wrapped bond lies exactly on a cell face) *)
Theorem lattice_shift_invariant : forall B,
  (forall p x0 x1 x2 x3 t0 t1 t2 t3 n1 n2 n3, tric_path p -> lower_tri_pos B ->
     below_half_widths B (vadd (vsub x1 x0) (comb B n1)) -> below_half_widths B (vadd (vsub x2 x1) (comb B n2)) ->
     below_half_widths B (vadd (vsub x3 x2) (comb B n3)) ->
     let s := fun x t => vadd x (comb B t) in
     ZG.dih_obs (path_disp p B (vsub (s x1 t1) (s x0 t0))) (path_disp p B (vsub (s x2 t2) (s x1 t1))) (path_disp p B (vsub (s x3 t3) (s x2 t2)))
     = ZG.dih_obs (path_disp p B (vsub x1 x0)) (path_disp p B (vsub x2 x1)) (path_disp p B (vsub x3 x2))) /\
  (forall p x0 x1 x2 t0 t1 t2 n1 n2, tric_path p -> lower_tri_pos B ->
     below_half_widths B (vadd (vsub x0 x1) (comb B n1)) -> below_half_widths B (vadd (vsub x2 x1) (comb B n2)) ->
     let s := fun x t => vadd x (comb B t) in
     ZG.ang_obs (path_disp p B (vsub (s x0 t0) (s x1 t1))) (path_disp p B (vsub (s x2 t2) (s x1 t1)))
     = ZG.ang_obs (path_disp p B (vsub x0 x1)) (path_disp p B (vsub x2 x1))) /\
  (forall x0 x1 x2 x3 t0 t1 t2 t3, ortho_pos B ->
     let p := POrthoSSE in
     strict_region B (path_disp p B (vsub x1 x0)) -> strict_region B (path_disp p B (vsub x2 x1)) ->
     strict_region B (path_disp p B (vsub x3 x2)) ->
     let s := fun x t => vadd x (comb B t) in
     ZG.dih_obs (path_disp p B (vsub (s x1 t1) (s x0 t0))) (path_disp p B (vsub (s x2 t2) (s x1 t1))) (path_disp p B (vsub (s x3 t3) (s x2 t2)))
     = ZG.dih_obs (path_disp p B (vsub x1 x0)) (path_disp p B (vsub x2 x1)) (path_disp p B (vsub x3 x2))).
Proof.
  intros B. split; [|split].
  - intros p x0 x1 x2 x3 t0 t1 t2 t3 n1 n2 n3. exact (dihedral_lattice_shift_invariant p B x0 x1 x2 x3 t0 t1 t2 t3 n1 n2 n3).
  - intros p x0 x1 x2 t0 t1 t2 n1 n2. exact (angle_lattice_shift_invariant p B x0 x1 x2 t0 t1 t2 n1 n2).
  - intros x0 x1 x2 x3 t0 t1 t2 t3. exact (dihedral_lattice_shift_invariant_ortho B x0 x1 x2 x3 t0 t1 t2 t3).
Qed.
Print Assumptions lattice_shift_invariant.

(* non-vacuity of the half-width hypotheses: C05's skewed, unreduced example cell *)
Example periodic_hypotheses_satisfiable : exists p B r n,
  tric_path p /\ lower_tri_pos B /\ below_half_widths B (vadd r (comb B n)).
Proof. exact periodic_example. Qed.
Print Assumptions periodic_hypotheses_satisfiable.
End Periodic.

(* ================= the Python front ends compute_angles / compute_dihedrals (closed) =========== *)
(* angles_front / dihedrals_front are regenerated from the bodies of the two functions on every run *)
Section Front. Local Open Scope Z_scope.

(* the index array is accepted iff every row has the right width and every index lies in [0, n_atoms) *)
Theorem front_validates_documented_range : forall n rows,
  (validate angles_front n rows = None <-> good_rows 3 n rows) /\
  (validate dihedrals_front n rows = None <-> good_rows 4 n rows).
Proof. intros. exact (conj (angles_validate_iff n rows) (dihedrals_validate_iff n rows)). Qed.
Print Assumptions front_validates_documented_range.

Theorem front_raises_iff : forall fr pp obs so st opt p close n xyz boxes rows, documented_range fr ->
  (exists e, api fr pp obs so st opt p close n xyz boxes rows = Raise e) <-> ~ good_rows (f_width fr) n rows.
Proof. exact api_raises_iff. Qed.
Print Assumptions front_raises_iff.

Theorem front_shape_error_first : forall fr n rows,
  validate fr n rows = Some EShape <-> exists r, In r rows /\ List.length r <> f_width fr.
Proof. exact validate_shape_iff. Qed.
Print Assumptions front_shape_error_first.

(* accepted indices never leave the coordinate arrays: one defined result per index tuple (an empty index array
   gives the empty result), given one usable cell per frame on the periodic paths *)
Theorem front_defined_when_valid : forall fr opt p close n xyz boxes,
  documented_range fr -> frames_have n xyz -> cells_fit (front_path fr opt p boxes close) xyz boxes ->
  (forall rows, f_width fr = 4%nat -> good_rows 4 n rows ->
     exists out, compute_dihedrals_with fr opt p close n xyz boxes rows = Value (Some out) /\ List.length out = List.length rows) /\
  (forall rows, f_width fr = 3%nat -> good_rows 3 n rows ->
     exists out, compute_angles_with fr opt p close n xyz boxes rows = Value (Some out) /\ List.length out = List.length rows).
Proof.
  intros fr opt p close n xyz boxes Hd Hf Hc. split; intros rows Hw Hg.
  - exact (dihedrals_defined_when_valid fr opt p close n xyz boxes rows Hw Hd Hg Hf Hc).
  - exact (angles_defined_when_valid fr opt p close n xyz boxes rows Hw Hd Hg Hf Hc).
Qed.
Print Assumptions front_defined_when_valid.

(* a repaired front end is PBC.dispatch with periodic := truth value of the argument, so the public functions
   are Periodic.dihedral_traj / angle_traj (for which periodic_uses_mic ... lattice_shift_invariant are proved) *)
Theorem front_repaired_is_periodic_model : forall fr opt p close n xyz boxes rows, repaired fr ->
  validate fr n rows = None ->
  compute_dihedrals_with fr opt p close n xyz boxes rows =
    Value (opt_all (map (fun q => dihedral_traj opt (truth p) xyz boxes (map Z.to_nat q)) rows)) /\
  compute_angles_with fr opt p close n xyz boxes rows =
    Value (opt_all (map (fun q => angle_traj opt (truth p) xyz boxes (map Z.to_nat q)) rows)).
Proof.
  intros fr opt p close n xyz boxes rows Hr Hv.
  exact (conj (dihedrals_repaired_is_traj fr opt p close n xyz boxes rows Hr Hv)
              (angles_repaired_is_traj fr opt p close n xyz boxes rows Hr Hv)).
Qed.
Print Assumptions front_repaired_is_periodic_model.

Theorem front_paths_same_kind_repaired : forall fr p boxes close, repaired fr ->
  same_kind (front_path fr true p boxes close) (front_path fr false p boxes close).
Proof. exact paths_same_kind_repaired. Qed.
Print Assumptions front_paths_same_kind_repaired.

Theorem front_ortho_kernel_only_on_ortho_cells_repaired : forall fr opt p bs close, repaired fr ->
  front_path fr opt p (Some bs) close = POrthoSSE -> forallb is_orthob bs = true.
Proof. exact ortho_kernel_only_on_ortho_cells_repaired. Qed.
Print Assumptions front_ortho_kernel_only_on_ortho_cells_repaired.

(* two-variant rule: the source is the as-found or the repaired description; the repaired ones satisfy the hypotheses above *)
Theorem front_is_cur_or_fix :
  (angles_front = angles_cur \/ angles_front = angles_fix) /\ (dihedrals_front = dihedrals_cur \/ dihedrals_front = dihedrals_fix) /\
  repaired angles_fix /\ repaired dihedrals_fix /\ documented_range angles_fix /\ documented_range dihedrals_fix.
Proof. exact (conj angles_front_known (conj dihedrals_front_known fix_fronts_repaired)). Qed.
Print Assumptions front_is_cur_or_fix.

Theorem front_angles_cur_flag_refuted : exists p bs close,
  truth p = true /\ front_path angles_cur true p (Some bs) close = PPlain /\ front_path angles_cur false p (Some bs) close <> PPlain.
Proof. exact angles_cur_flag_refuted. Qed.
Print Assumptions front_angles_cur_flag_refuted.

Theorem front_cur_near_ortho_refuted :
  front_path dihedrals_cur true PyTrue (Some [near_B]) true = POrthoSSE /\
  front_path dihedrals_fix true PyTrue (Some [near_B]) true = PTricCpp /\
  norm2 (path_disp PTricCpp near_B near_r) < norm2 (path_disp POrthoSSE near_B near_r) /\
  path_disp PTricCpp near_B near_r = vsub near_r (vscale 20 (bb near_B)).
Proof. exact cur_near_ortho_refuted. Qed.
Print Assumptions front_cur_near_ortho_refuted.

Example front_hypotheses_satisfiable :
  good_rows 4 4 [[0; 1; 2; 3]] /\ frames_have 4 ex_xyz /\
  cells_fit (front_path dihedrals_fix true PyTruthy ex_boxes false) ex_xyz ex_boxes /\
  validate dihedrals_fix 4 [[0; 1; 2; 3]] = None /\
  compute_dihedrals_with dihedrals_fix true PyTruthy false 4 ex_xyz ex_boxes [[0; 1; 2; 3]]
    <> compute_dihedrals_with dihedrals_fix true PyFalsy false 4 ex_xyz ex_boxes [[0; 1; 2; 3]].
Proof. exact front_example. Qed.
Print Assumptions front_hypotheses_satisfiable.
End Front.

(* ================= statements over R (standard real-number axioms) ============================ *)
Section OverR. Import RV RG. Local Open Scope R_scope.

(* the kernel returns THE IUPAC torsion of the bond vectors (non-degenerate geometry) *)
Theorem dihedral_is_iupac : forall b1 b2 b3 phi,
  0 < norm b2 -> 0 < norm (cross b1 b2) -> 0 < norm (cross b2 b3) ->
  is_iupac_torsion b1 b2 b3 phi -> dihedral_k b1 b2 b3 = phi.
Proof. exact RP.dihedral_is_iupac. Qed.
Print Assumptions dihedral_is_iupac.

Theorem dihedral_range : forall b1 b2 b3, - PI < dihedral_k b1 b2 b3 <= PI.
Proof. exact RP.dihedral_range. Qed.
Print Assumptions dihedral_range.

Theorem angle_range : forall b1 b2, 0 <= angle_k b1 b2 <= PI.
Proof. exact RP.angle_range. Qed.
Print Assumptions angle_range.

Theorem angle_is_geometric : forall u v theta, 0 < norm u -> 0 < norm v ->
  is_angle_between u v theta -> angle_k u v = theta.
Proof. exact RP.angle_is_geometric. Qed.
Print Assumptions angle_is_geometric.

Theorem reverse_invariant : forall b1 b2 b3,
  dihedral_k (vneg b3) (vneg b2) (vneg b1) = dihedral_k b1 b2 b3 /\ angle_k b2 b1 = angle_k b1 b2.
Proof. intros. exact (conj (RP.reverse_invariant_dihedral b1 b2 b3) (RP.reverse_invariant_angle b1 b2)). Qed.
Print Assumptions reverse_invariant.

Theorem mirror_negates : forall b1 b2 b3,
  Rg.dih_p1 b1 b2 b3 (norm b1) (norm b2) (norm b3) <> 0 ->
  dihedral_k (mirror_x b1) (mirror_x b2) (mirror_x b3) = - dihedral_k b1 b2 b3.
Proof. exact RP.mirror_negates. Qed.
Print Assumptions mirror_negates.

Theorem paths_agree : forall b1 b2 b3,
  dihedral_py b1 b2 b3 = dihedral_k b1 b2 b3 /\ (0 < norm b1 -> 0 < norm b2 -> angle_py b1 b2 = angle_k b1 b2).
Proof. intros. exact (conj (RP.paths_agree_dihedral b1 b2 b3) (RP.paths_agree_angle b1 b2)). Qed.
Print Assumptions paths_agree.

(* non-vacuity: a right-handed quarter turn is an IUPAC torsion of +pi/2 *)
Example iupac_hypotheses_satisfiable :
  let b1 := (1, 0, 0) in let b2 := (0, 1, 0) in let b3 := (0, 0, 1) in
  0 < norm b2 /\ 0 < norm (cross b1 b2) /\ 0 < norm (cross b2 b3) /\ is_iupac_torsion b1 b2 b3 (PI / 2).
Proof. exact RP.iupac_example. Qed.
Print Assumptions iupac_hypotheses_satisfiable.
End OverR.
