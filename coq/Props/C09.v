(* C09 — observables are invariant under rigid motion and lattice translation.
   Only statements, closed by [exact], and Print Assumptions.

   Rigid motion: x |-> M x + t.  General form (section "GENERAL FORM"): ANY integer matrix with M^T M = s I
   (R = M/sqrt s orthogonal; proper iff det M > 0), plus the literal real-number statements for any real R
   with R^T R = I.  First the special case M = rotq a b c d (Euler-Rodrigues matrix of an integer
   quaternion, R = M/n, n = a^2+b^2+c^2+d^2): squared lengths pick up n^2, triple products n^3.
   Float32 rounding of transformed coordinates is covered only by the metamorphic runs.
   Lattice translation: statements about the C05 model of the minimum-image code, reused here. *)
From Coq Require Import ZArith List Bool Lia.
Import ListNotations.
Require Import MD.PBC.Model MD.PBC.Proofs MD.Invar.Model MD.Invar.Proofs MD.Invar.Orth.
From Coq Require Import Rdefinitions Raxioms RIneq.
Close Scope R_scope.
Require MD.Invar.RealRot MD.Invar.NeighShift MD.Neigh.Model MD.Invar.RealDerived.
Require Import MD.Invar.DerivedModel MD.Invar.Derived.
Open Scope Z_scope.

(* ---- the algebra *)
Theorem rotq_is_scaled_rotation : forall a b c d,
  mm (transp (rotq a b c d)) (rotq a b c d) = mscale (qn a b c d * qn a b c d) ident /\
  det3 (rotq a b c d) = qn a b c d * qn a b c d * qn a b c d.
Proof. intros. split; [apply rotq_orthogonal | apply rotq_det]. Qed.
Print Assumptions rotq_is_scaled_rotation.

Theorem dot_rot : forall a b c d u v,
  dot (mv (rotq a b c d) u) (mv (rotq a b c d) v) = qn a b c d * qn a b c d * dot u v.
Proof. exact Proofs.dot_rot. Qed.
Print Assumptions dot_rot.

Theorem triple_rot : forall M u v w, triple (mv M u) (mv M v) (mv M w) = det3 M * triple u v w.
Proof. exact triple_mat. Qed.
Print Assumptions triple_rot.

Theorem cross_dot_binet : forall p q r s, dot (cross p q) (cross r s) = dot p r * dot q s - dot p s * dot q r.
Proof. exact Proofs.cross_dot_binet. Qed.
Print Assumptions cross_dot_binet.

(* ---- observables of a non-periodic system under x |-> M x + t *)
Theorem distance_rigid_invariant : forall a b c d tx ty tz x y,
  let g := rigid (rotq a b c d) (tx, ty, tz) in let n := qn a b c d in
  dist2_obs (g x) (g y) = n * n * dist2_obs x y.
Proof. exact dist2_rigid. Qed.
Print Assumptions distance_rigid_invariant.

(* numerator and both squared lengths of the cosine scale by n^2: the cosine is unchanged *)
Theorem angle_rigid_invariant : forall a b c d tx ty tz xa xb xc,
  let g := rigid (rotq a b c d) (tx, ty, tz) in let n := qn a b c d in
  angle_obs (g xa) (g xb) (g xc) = let '(p, l1, l2) := angle_obs xa xb xc in (n * n * p, n * n * l1, n * n * l2).
Proof. exact angle_rigid. Qed.
Print Assumptions angle_rigid_invariant.

(* (|b2|^2, b1.(b2xb3), (b1xb2).(b2xb3)) scale by (n^2, n^3, n^4): both atan2 arguments scale by n^4 > 0,
   so magnitude AND sign of the dihedral are unchanged by a proper rotation *)
Theorem dihedral_rigid_invariant : forall a b c d tx ty tz x0 x1 x2 x3,
  let g := rigid (rotq a b c d) (tx, ty, tz) in let n := qn a b c d in
  dihedral_obs (g x0) (g x1) (g x2) (g x3) =
  let '(l2, tr, pp) := dihedral_obs x0 x1 x2 x3 in (n * n * l2, n * n * n * tr, n * n * n * n * pp).
Proof. exact dihedral_rigid. Qed.
Print Assumptions dihedral_rigid_invariant.

Theorem rg_rigid_invariant : forall a b c d tx ty tz l,
  rg_obs (map (rigid (rotq a b c d) (tx, ty, tz)) l) = qn a b c d * qn a b c d * rg_obs l.
Proof. exact rg_rigid. Qed.
Print Assumptions rg_rigid_invariant.

(* the gyration tensor transforms by congruence; trace, second invariant and determinant (hence the principal
   moments, asphericity, acylindricity, relative shape anisotropy) are unchanged up to the scale *)
Theorem gyration_rigid_invariant : forall a b c d tx ty tz l,
  let g := rigid (rotq a b c d) (tx, ty, tz) in let n := qn a b c d in
  gyration (map g l) = mm (mm (rotq a b c d) (gyration l)) (transp (rotq a b c d)) /\
  trace (gyration (map g l)) = n * n * trace (gyration l) /\
  minor2 (gyration (map g l)) = n * n * n * n * minor2 (gyration l) /\
  det3 (gyration (map g l)) = n * n * n * n * n * n * det3 (gyration l).
Proof. intros. split; [apply gyration_rigid | apply gyration_invariants_rigid]. Qed.
Print Assumptions gyration_rigid_invariant.

(* every pairwise squared distance scales by n^2: contacts, DRID, neighbour tests without a cell and the
   Kabsch-Sander energies (given the covariant hydrogen placement) are functions of these.  That these
   kernels ARE such functions is not proved here: it is what the metamorphic runs test. *)
Theorem pair_distances_rigid_invariant : forall a b c d tx ty tz l,
  pair_dists (map (rigid (rotq a b c d) (tx, ty, tz)) l) =
  map (fun q => qn a b c d * qn a b c d * q) (pair_dists l).
Proof. exact pair_dists_rigid. Qed.
Print Assumptions pair_distances_rigid_invariant.

(* mean-centring removes the translation and commutes with the rotation (input of the RMSD kernel).  The
   optimal-superposition RMSD itself is C06's subject; its invariance is only tested here. *)
Theorem centering_rigid_covariant_partial : forall a b c d tx ty tz l,
  centered (map (rigid (rotq a b c d) (tx, ty, tz)) l) = map (mv (rotq a b c d)) (centered l).
Proof. exact centered_rigid. Qed.
Print Assumptions centering_rigid_covariant_partial.

(* ==== GENERAL FORM: any 3x3 matrix M with M^T M = s I (six polynomial equations; s = 1 is R^T R = I, the
   scale makes the statements cover rotations with rational entries, R = M/sqrt s).  det M > 0: proper rigid
   motion; det M < 0: improper (mirror image).  All closed under the global context. *)
Theorem dot_rot_general : forall M s x y, orth_scaled M s -> dot (mv M x) (mv M y) = s * dot x y.
Proof. exact dot_orth. Qed.
Print Assumptions dot_rot_general.

Theorem det_of_orthogonal : forall M s, orth_scaled M s -> det3 M * det3 M = s * s * s.
Proof. exact det_orth. Qed.
Print Assumptions det_of_orthogonal.

(* s (Mx) x (My) = det M . M (x x y): with s = 1, det = 1 this is R(x x y) = (Rx) x (Ry); det = -1 flips the sign *)
Theorem cross_rot_general : forall M s x y, orth_scaled M s ->
  vscale s (cross (mv M x) (mv M y)) = vscale (det3 M) (mv M (cross x y)).
Proof. exact cross_orth. Qed.
Print Assumptions cross_rot_general.

Theorem distance_invariant_general : forall M s, orth_scaled M s -> forall tx ty tz x y,
  dist2_obs (rigid M (tx, ty, tz) x) (rigid M (tx, ty, tz) y) = s * dist2_obs x y.
Proof. exact dist2_orth. Qed.
Print Assumptions distance_invariant_general.

Theorem angle_invariant_general : forall M s, orth_scaled M s -> forall tx ty tz xa xb xc,
  let g := rigid M (tx, ty, tz) in
  angle_obs (g xa) (g xb) (g xc) = let '(p, l1, l2) := angle_obs xa xb xc in (s * p, s * l1, s * l2).
Proof. exact angle_orth. Qed.
Print Assumptions angle_invariant_general.

(* dihedral: (|b2|^2, T, P) -> (s |b2|^2, det M T, s^2 P) and det^2 = s^3, so both atan2 arguments are multiplied
   by s^2 > 0 up to the SIGN of det on the first: a proper motion keeps the dihedral, a mirror image negates it *)
Theorem dihedral_general : forall M s, orth_scaled M s -> forall tx ty tz x0 x1 x2 x3,
  let g := rigid M (tx, ty, tz) in
  dihedral_obs (g x0) (g x1) (g x2) (g x3) =
  let '(l2, tr, pp) := dihedral_obs x0 x1 x2 x3 in (s * l2, det3 M * tr, s * s * pp).
Proof. exact dihedral_orth. Qed.
Print Assumptions dihedral_general.

Theorem dihedral_sign_proper_and_mirror : forall M tr,
  (0 < det3 M -> Z.sgn (det3 M * tr) = Z.sgn tr) /\ (det3 M < 0 -> Z.sgn (det3 M * tr) = - Z.sgn tr).
Proof. intros M tr. split; [apply dihedral_sign | apply dihedral_sign_mirror]. Qed.
Print Assumptions dihedral_sign_proper_and_mirror.

(* Rg, gyration-tensor invariants and all pair distances: invariant under proper AND improper motions *)
Theorem rg_invariant_general : forall M s, orth_scaled M s -> forall tx ty tz l,
  rg_obs (map (rigid M (tx, ty, tz)) l) = s * rg_obs l.
Proof. exact rg_orth. Qed.
Print Assumptions rg_invariant_general.

Theorem gyration_invariant_general : forall M s tx ty tz l, orth_scaled M s ->
  let g := rigid M (tx, ty, tz) in
  trace (gyration (map g l)) = s * trace (gyration l) /\
  minor2 (gyration (map g l)) = s * s * minor2 (gyration l) /\
  det3 (gyration (map g l)) = s * s * s * det3 (gyration l).
Proof. exact gyration_invariants_orth. Qed.
Print Assumptions gyration_invariant_general.

Theorem pair_distances_invariant_general : forall M s, orth_scaled M s -> forall tx ty tz l,
  pair_dists (map (rigid M (tx, ty, tz)) l) = map (fun q => s * q) (pair_dists l).
Proof. exact pair_dists_orth. Qed.
Print Assumptions pair_distances_invariant_general.

(* the hypotheses are satisfiable: quaternion rotations (s = n^2, det = n^3), a proper and an improper integer
   matrix with s = 9, and the mirror z -> -z with s = 1 *)
Example orthogonal_matrices_exist :
  (forall a b c d, orth_scaled (rotq a b c d) (qn a b c d * qn a b c d)) /\
  ((orth_scaled improper_example 9 /\ det3 improper_example = -27) /\
   (orth_scaled proper_example 9 /\ det3 proper_example = 27)) /\
  (orth_scaled mirror_z 1 /\ det3 mirror_z = -1).
Proof. split; [exact rotq_orth_scaled | split; [exact orth_example | exact mirror_orth]]. Qed.
Print Assumptions orthogonal_matrices_exist.

(* ==== over the REAL numbers: any real matrix with R^T R = I (these list the standard real-number axioms) *)
Theorem dot_rot_real : forall M x y, RealRot.orthogonal M -> RealRot.rdot (RealRot.rmv M x) (RealRot.rmv M y) = RealRot.rdot x y.
Proof. exact RealRot.rdot_orth. Qed.
Print Assumptions dot_rot_real.

Theorem cross_rot_real : forall M x y, RealRot.orthogonal M -> RealRot.rdet M = 1%R ->
  RealRot.rcross (RealRot.rmv M x) (RealRot.rmv M y) = RealRot.rmv M (RealRot.rcross x y).
Proof. exact RealRot.rcross_orth. Qed.
Print Assumptions cross_rot_real.

Theorem triple_rot_real : forall M u v w,
  RealRot.rtriple (RealRot.rmv M u) (RealRot.rmv M v) (RealRot.rmv M w) = (RealRot.rdet M * RealRot.rtriple u v w)%R.
Proof. exact RealRot.rtriple_mat. Qed.
Print Assumptions triple_rot_real.

(* the distance WITH its square root, any orthogonal matrix (proper or not) and any translation *)
Theorem distance_rigid_invariant_real : forall M t x y, RealRot.orthogonal M ->
  RealRot.rdist (RealRot.rrigid M t x) (RealRot.rrigid M t y) = RealRot.rdist x y.
Proof. exact RealRot.rdist_rigid. Qed.
Print Assumptions distance_rigid_invariant_real.

(* ---- periodic systems: per-atom lattice shifts t_i and a whole-system translation s *)
Theorem mic_displacement_shift_invariant : forall p B x1 x2 t1 t2 s, tie_free_path p B (vsub x2 x1) ->
  path_disp p B (vsub (moved B s x2 t2) (moved B s x1 t1)) = path_disp p B (vsub x2 x1).
Proof. exact mic_disp_shift_invariant. Qed.
Print Assumptions mic_displacement_shift_invariant.

Theorem mic_distance_shift_invariant : forall p B s x1 x2 t1 t2, tie_free_path p B (vsub x2 x1) ->
  mic_dist2 p B (moved B s x1 t1) (moved B s x2 t2) = mic_dist2 p B x1 x2.
Proof. exact mic_dist2_shift_invariant. Qed.
Print Assumptions mic_distance_shift_invariant.

Theorem mic_angle_shift_invariant : forall p B s xa xb xc ta tb tc,
  tie_free_path p B (vsub xa xb) -> tie_free_path p B (vsub xc xb) ->
  mic_angle_obs p B (moved B s xa ta) (moved B s xb tb) (moved B s xc tc) = mic_angle_obs p B xa xb xc.
Proof. exact Proofs.mic_angle_shift_invariant. Qed.
Print Assumptions mic_angle_shift_invariant.

Theorem mic_dihedral_shift_invariant : forall p B s x0 x1 x2 x3 t0 t1 t2 t3,
  tie_free_path p B (vsub x1 x0) -> tie_free_path p B (vsub x2 x1) -> tie_free_path p B (vsub x3 x2) ->
  mic_dihedral_obs p B (moved B s x0 t0) (moved B s x1 t1) (moved B s x2 t2) (moved B s x3 t3) =
  mic_dihedral_obs p B x0 x1 x2 x3.
Proof. exact Proofs.mic_dihedral_shift_invariant. Qed.
Print Assumptions mic_dihedral_shift_invariant.

(* ---- neighbour list (one-bin x-range search of Voxels::getNeighbors, see Invar/Model.v) *)
(* as found: a per-atom lattice shift changes the neighbour relation *)
Theorem neighborlist_shift_invariant_refuted :
  exists L c xs ks, 0 < L /\ 0 < c /\ 2 * c < L /\ length ks = length xs /\
    nl_cur L c (shift1d L xs ks) <> nl_cur L c xs.
Proof. exact nl_cur_shift_refuted. Qed.
Print Assumptions neighborlist_shift_invariant_refuted.

(* minimal repair (coordinates wrapped into the primary cell before binning and scanning) *)
Theorem neighborlist_fixed_shift_invariant : forall L c xs ks, 0 < L -> length ks = length xs ->
  nl_fix L c (shift1d L xs ks) = nl_fix L c xs.
Proof. exact nl_fix_shift_invariant. Qed.
Print Assumptions neighborlist_fixed_shift_invariant.

(* ---- the same two statements over C10's FULL voxel model of _compute_neighborlist (coq/Neigh/Model.v):
   every cell (triclinic included), every cutoff, arbitrary per-atom lattice shifts *)
Theorem neighborlist_voxel_shift_invariant_refuted :
  exists B c xyz ks, NeighShift.box_pos B /\ 0 < c /\
    2 * c <= Neigh.Model.b_ax B /\ 2 * c <= Neigh.Model.b_by B /\ 2 * c <= Neigh.Model.b_cz B /\
    length ks = length xyz /\
    Neigh.Model.nlist_cur (Some B) c (NeighShift.shift_atoms B xyz ks) <> Neigh.Model.nlist_cur (Some B) c xyz.
Proof. exact NeighShift.nlist_cur_shift_refuted. Qed.
Print Assumptions neighborlist_voxel_shift_invariant_refuted.

Theorem neighborlist_voxel_fixed_shift_invariant : forall B c xyz ks, NeighShift.box_pos B -> length ks = length xyz ->
  Neigh.Model.nlist_fix (Some B) c (NeighShift.shift_atoms B xyz ks) = Neigh.Model.nlist_fix (Some B) c xyz.
Proof. exact NeighShift.nlist_fix_shift_invariant. Qed.
Print Assumptions neighborlist_voxel_fixed_shift_invariant.

(* ---- non-vacuity *)
Example rotation_example :
  rotq 1 2 3 4 = ((-20, 4, 22), (20, -10, 20), (10, 28, 4)) /\ qn 1 2 3 4 = 30 /\
  dist2_obs (rigid (rotq 1 2 3 4) (7, -8, 9) (1, 0, 2)) (rigid (rotq 1 2 3 4) (7, -8, 9) (-3, 5, 1)) = 900 * 42.
Proof. vm_compute. repeat split; reflexivity. Qed.
Print Assumptions rotation_example.

Example tie_free_satisfiable :
  let B := mkbox (3072, 0, 0) (5120, 3000, 0) (-7000, 8100, 2900) in
  tie_free_path PTricCpp B (117204, -30050, -28940) /\ tie_free_path PTricNp B (117204, -30050, -28940) /\
  tie_free_path POrthoSSE (mkbox (3072, 0, 0) (0, 4000, 0) (0, 0, 2900)) (40000, -51234, 30011).
Proof. exact example_tie_free. Qed.
Print Assumptions tie_free_satisfiable.

Example neighborlist_example :
  nl_cur 10 2 [5; 6] = [[false; true]; [true; false]] /\ nl_cur 10 2 [15; 6] = [[false; false]; [false; false]] /\
  nl_fix 10 2 [15; 6] = [[false; true]; [true; false]] /\
  nl_cur 10 2 [1; 9; 5] = [[false; true; false]; [true; false; false]; [false; false; false]].
Proof. exact nl_example. Qed.
Print Assumptions neighborlist_example.

(* ======================================================================================================
   DERIVED OBSERVABLES named by the statement (neighbour sets, contacts, hydrogen bonds, DRID, secondary structure):
   exact integer predicates where the code's decision is polynomial in squared distances, and "every function of
   the pair distances" over the reals for the rest. *)

(* compute_neighbors without a cell: the reported index list is unchanged (cutoff^2 in the moved unit = s c^2) *)
Theorem neighbors_invariant_general : forall M s, orth_scaled M s -> 0 < s -> forall tx ty tz c2 l query hay,
  Forall (fun i => (i < length l)%nat) query -> Forall (fun i => (i < length l)%nat) hay ->
  neighbors_obs (s * c2) (map (rigid M (tx, ty, tz)) l) query hay = neighbors_obs c2 l query hay.
Proof. intros M s H Hs tx ty tz c2 l q h. exact (neighbors_orth M s H Hs tx ty tz c2 l q h). Qed.
Print Assumptions neighbors_invariant_general.

(* compute_contacts ('closest' schemes): the minimum pair distance of two atom groups scales like every distance *)
Theorem contacts_invariant_general : forall M s, orth_scaled M s -> 0 < s -> forall tx ty tz l A B,
  Forall (fun i => (i < length l)%nat) A -> Forall (fun i => (i < length l)%nat) B ->
  contact_obs (map (rigid M (tx, ty, tz)) l) A B = option_map (Z.mul s) (contact_obs l A B).
Proof. intros M s H Hs tx ty tz l A B. exact (contact_orth M s H Hs tx ty tz l A B). Qed.
Print Assumptions contacts_invariant_general.

(* baker_hubbard: d(H..A) < cutoff and angle(D-H..A) > 120 degrees, decided from the three squared distances
   (law of cosines, as hbond.py does): the Boolean is unchanged, also under improper motions *)
Theorem hbond_criterion_invariant_general : forall M s, orth_scaled M s -> 0 < s -> forall tx ty tz c2 l d h a,
  (d < length l)%nat -> (h < length l)%nat -> (a < length l)%nat ->
  hbond_obs (s * c2) (map (rigid M (tx, ty, tz)) l) d h a = hbond_obs c2 l d h a.
Proof. intros M s H Hs tx ty tz c2 l d h a. exact (hbond_orth M s H Hs tx ty tz c2 l d h a). Qed.
Print Assumptions hbond_criterion_invariant_general.

(* over the reals: the whole matrix of pair distances, hence EVERY function of it (DRID, Kabsch-Sander energies and
   the DSSP pattern, soft-min contacts, Wernet-Nilsson) is unchanged by x |-> R x + t, R^T R = I *)
Theorem pair_distance_matrix_rigid_invariant_real : forall M t l, RealRot.orthogonal M ->
  RealDerived.rpair_dists (map (RealRot.rrigid M t) l) = RealDerived.rpair_dists l.
Proof. exact RealDerived.rpair_dists_rigid. Qed.
Print Assumptions pair_distance_matrix_rigid_invariant_real.

Theorem every_function_of_distances_rigid_invariant_real :
  forall (A : Type) (F : list Rdefinitions.R -> A) M t l, RealRot.orthogonal M ->
  F (RealDerived.rpair_dists (map (RealRot.rrigid M t) l)) = F (RealDerived.rpair_dists l).
Proof. intros A F M t l. exact (RealDerived.function_of_distances_rigid F M t l). Qed.
Print Assumptions every_function_of_distances_rigid_invariant_real.

(* periodic systems: ALL minimum-image pair distances of the system are unchanged when every atom i is moved by its
   own lattice vector t_i and the whole system by w (tie-free hypothesis for the pairs), hence every function of
   them: periodic neighbour sets, contacts, hydrogen bonds *)
Theorem mic_pair_distances_shift_invariant : forall p B (l ts : list vec) w, length ts = length l ->
  (forall x y, In x l -> In y l -> tie_free_path p B (vsub y x)) ->
  mic_pair_dists p B (map (fun xt => moved B w (fst xt) (snd xt)) (combine l ts)) = mic_pair_dists p B l.
Proof. exact mic_pair_dists_shift_invariant. Qed.
Print Assumptions mic_pair_distances_shift_invariant.

Definition derived_l : list vec := [(0, 0, 0); (3, 0, 0); (-2, 1, 0); (0, 0, 9); (10, 10, 10)].
Definition derived_g : vec -> vec := rigid (rotq 1 2 3 4) (7, -8, 9).
Example derived_observables_example :
  orth_scaled (rotq 1 2 3 4) 900 /\
  (neighbors_obs 16 derived_l [0%nat] [1%nat; 2%nat; 3%nat; 4%nat] = [1%nat; 2%nat]) /\
  (neighbors_obs (900 * 16) (map derived_g derived_l) [0%nat] [1%nat; 2%nat; 3%nat; 4%nat] = [1%nat; 2%nat]) /\
  (contact_obs derived_l [0%nat; 1%nat] [3%nat; 4%nat] = Some 81) /\
  (contact_obs (map derived_g derived_l) [0%nat; 1%nat] [3%nat; 4%nat] = Some (900 * 81)) /\
  (hbond_obs 16 derived_l 2%nat 0%nat 1%nat = true) /\
  (hbond_obs (900 * 16) (map derived_g derived_l) 2%nat 0%nat 1%nat = true) /\
  (hbond_obs 16 derived_l 3%nat 0%nat 1%nat = false).
Proof. split; [apply rotq_orth_scaled | vm_compute; repeat split; reflexivity]. Qed.
Print Assumptions derived_observables_example.
