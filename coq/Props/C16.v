(* C16 -- derived descriptors equal their defining formulas; index bookkeeping matches the labels.
   Only statements, closed by [exact], and Print Assumptions.

   Contacts / squareform / RDF bins / DRID partners: nat, Z, list models (closed proofs).
   Centres, Rg, gyration tensor, shape descriptors, density, RDF shells, online moments, Karplus:
   closed forms over Q (Coq's rationals, setoid equality ==); the formula blocks are regenerated from
   /repo into Gen/DescFormulas.v on every run, so these theorems are about today's source text.
   Only [karplus_double_angle] and [karplus_periodic] are over R (standard real-number axioms).
   Float evaluation (float32 kernels, eigvalsh, exp/log/sqrt/cbrt/cos) is outside every theorem: it is
   covered by the correspondence run with stated bounds (harness/props/C16.py). *)
From Coq Require Import String Ascii List Arith ZArith QArith Qabs Bool Reals Sorting.Sorted.
Import ListNotations.
Require Import MD.Gen.DescTables MD.Gen.DescFormulas MD.Gen.DescFormulasR.
Require Import MD.Desc.ContactsModel MD.Desc.ContactsProofs.
Require Import MD.Desc.AlgebraModel MD.Desc.AlgebraProofs.
Require Import MD.Desc.MomentsModel MD.Desc.MomentsProofs.
Require Import MD.Desc.RdfModel MD.Desc.RdfProofs.
Require Import MD.Desc.KarplusProofs.
Require Import MD.Desc.SchemeDsl MD.Gen.DescSchemes MD.Desc.SchemeSem.
Require Import MD.Desc.OrderModel MD.Desc.OrderProofs.
Require Import MD.Gen.DescOptions MD.Desc.FrontModel MD.Desc.FrontProofs MD.Desc.DipoleModel MD.Desc.DipoleProofs.
Require Import MD.Desc.DensityModel MD.Desc.DensityProofs.
Close Scope Q_scope. Close Scope R_scope. Open Scope nat_scope.

(* ================================================================== contacts *)
(* slice i of the flattened atom-pair distances is exactly the row of the cartesian product of the two
   residues' memberships, whatever the (unequal, possibly zero) residue sizes *)
Theorem contacts_offsets : forall (mem : nat -> list nat) (A : Type) (D : nat * nat -> A) pairs i p,
  nth_error pairs i = Some p ->
  slice mem pairs (map D (flat_pairs mem pairs)) i = map D (pair_product mem p).
Proof. exact slice_is_product. Qed.
Print Assumptions contacts_offsets.

(* compute_contacts (non-CA schemes): residue_pairs is the resolved request, and entry (frame, k) is
   computed from exactly the atom pairs membership(p0) x membership(p1) of residue pair k *)
Theorem contacts_labels : forall strict top s c box per frames rp,
  s <> SCa -> resolve top c = inr rp -> flat_pairs (membership s top) rp <> [] ->
  contacts strict top s c box per frames =
  COk rp (map (fun f => map (product_row top s box per f) rp) frames).
Proof. exact contacts_slices_spec. Qed.
Print Assumptions contacts_labels.

(* the reported value is attained on a designated atom pair and is a lower bound of all of them; the
   call is refused exactly when some designated set is empty *)
Theorem contacts_value_is_minimum : forall strict top s c box per frames rp,
  s <> SCa -> resolve top c = inr rp -> flat_pairs (membership s top) rp <> [] ->
  match contacts_min strict top s c box per frames with
  | HOk rp' d2 =>
      rp' = rp /\ length d2 = length frames /\
      forall fi f k p row v,
        nth_error frames fi = Some f -> nth_error rp k = Some p ->
        nth_error d2 fi = Some row -> nth_error row k = Some v ->
        (exists a b, In a (membership s top (fst p)) /\ In b (membership s top (snd p)) /\
                     v = dist2 box per f (a, b)) /\
        (forall a b, In a (membership s top (fst p)) -> In b (membership s top (snd p)) ->
                     (v <= dist2 box per f (a, b))%Z)
  | HErr e => e = EZeroSize /\ frames <> [] /\
              exists p, In p rp /\ (membership s top (fst p) = [] \/ membership s top (snd p) = [])
  end.
Proof. exact contacts_min_spec. Qed.
Print Assumptions contacts_value_is_minimum.

(* contacts='all': exactly the pairs i+3 <= j of kept residues of one chain, in increasing order *)
Theorem contacts_all_pairs : forall ig top i j,
  In (i, j) (all_pairs ig top) <->
  (i + 3 <= j /\ j < length top /\ keep_res ig top i = true /\ keep_res ig top j = true /\
   r_chain (res top i) = r_chain (res top j)).
Proof. exact all_pairs_spec. Qed.
Print Assumptions contacts_all_pairs.

Theorem contacts_all_pairs_sorted : forall ig top, sorted_lex (all_pairs ig top).
Proof. exact all_pairs_sorted. Qed.
Print Assumptions contacts_all_pairs_sorted.

Theorem contacts_explicit_pairs : forall top l,
  (forallb (in_range_pair (length top)) l = true ->
     exists rp, resolve top (CExplicit l) = inr rp /\
                map (fun p => (Z.of_nat (fst p), Z.of_nat (snd p))) rp = l) /\
  (forallb (in_range_pair (length top)) l = false -> resolve top (CExplicit l) = inl ERange).
Proof. exact resolve_explicit. Qed.
Print Assumptions contacts_explicit_pairs.

(* scheme 'ca' (repaired reading of `contacts`): kept pairs = those with exactly one CA in both residues,
   in input order; atom pair k = (CA, CA) of kept pair k; refused iff several CA and no CA-less partner *)
Theorem ca_scheme_filter : forall top pairs,
  match ca_scan false top pairs with
  | inr (rp, ap) =>
      rp = filter (ca_keep top) pairs /\
      ap = map (fun p => (ca_of top (fst p), ca_of top (snd p))) rp /\
      existsb (ca_bad top) pairs = false
  | inl e => e = EManyCA /\ existsb (ca_bad top) pairs = true
  end.
Proof. exact ca_scan_spec. Qed.
Print Assumptions ca_scheme_filter.

(* as found: with `contacts` passed as an array a CA-less pair makes the call fail instead of being skipped *)
Theorem ca_scheme_filter_array_refuted :
  exists top pairs rp ap, ca_scan false top pairs = inr (rp, ap) /\ rp <> [] /\
                          ca_scan true top pairs = inl EAmbiguous.
Proof. exact ca_scan_strict_refuted. Qed.
Print Assumptions ca_scheme_filter_array_refuted.

(* the atom sets of the schemes, the CA test and the constants of contacts='all' used by the model are the
   ones written in contact.py today (predicates regenerated into Gen/DescSchemes.v on every run) *)
Theorem contact_schemes_match_source :
  (forall s r, src_membership1 s r = membership1 s r) /\
  (forall r, src_ca_atoms r = ca_atoms r) /\
  (forall r, src_has_ca r = has_ca r) /\
  all_min_separation = 3 /\ all_same_chain = true.
Proof. exact schemes_match_source. Qed.
Print Assumptions contact_schemes_match_source.

(* triclinic cells: the model distance is the squared length of a lattice image of the separation and no image
   with |i|,|j|,|k| <= K is shorter *)
Theorem contacts_triclinic_min_image : forall K a b c x y, (0 <= K)%Z ->
  (forall i j k, (- K <= i <= K)%Z -> (- K <= j <= K)%Z -> (- K <= k <= K)%Z ->
     (d2_tri K a b c x y <= image_d2 a b c x y i j k)%Z) /\
  (exists i j k, d2_tri K a b c x y = image_d2 a b c x y i j k).
Proof. exact d2_tri_min_image. Qed.
Print Assumptions contacts_triclinic_min_image.

(* squareform: entry (i,j) and (j,i) hold the distance of the pair labelled (i,j); all others are 0 *)
Theorem squareform_labels : forall d pairs,
  length d = length pairs -> unordered_nodup pairs ->
  (forall k i j v, nth_error pairs k = Some (i, j) -> nth_error d k = Some v ->
     squareform_fn d pairs i j = v /\ squareform_fn d pairs j i = v) /\
  (forall a b, (forall k, nth_error pairs k <> Some (a, b) /\ nth_error pairs k <> Some (b, a)) ->
     squareform_fn d pairs a b = 0%Z).
Proof. exact squareform_spec. Qed.
Print Assumptions squareform_labels.

(* ---- option handling of compute_contacts (FrontModel.v): keywords, scheme names and signature defaults of the
   model are the ones written in contact.py / rdf.py / order.py today (Gen/DescOptions.v, regenerated on every run) *)
Theorem descriptor_options_match_source :
  src_scheme_names = m_scheme_names /\ m_scheme_names = map scheme_name all_schemes /\
  src_scheme_lowered = true /\ src_contacts_keyword = m_contacts_keyword /\
  dflt_contacts = m_dflt_contacts /\ dflt_scheme = m_dflt_scheme /\
  dflt_ignore_nonprotein = m_dflt_ignore_nonprotein /\ dflt_periodic = m_dflt_periodic /\
  dflt_soft_min = m_dflt_soft_min /\
  (fst dflt_r_range == fst m_dflt_r_range)%Q /\ (snd dflt_r_range == snd m_dflt_r_range)%Q /\
  (dflt_bin_width == m_dflt_bin_width)%Q /\
  src_order_chains = m_order_chains /\ src_order_residues = m_order_residues /\
  dflt_order_indices = m_dflt_order_indices.
Proof. exact options_match_source. Qed.
Print Assumptions descriptor_options_match_source.

(* a scheme string is accepted iff (after case folding by the caller) it is the name of one of the five schemes *)
Theorem contacts_scheme_names : forall s k, scheme_of_string s = Some k <-> s = scheme_name k.
Proof. exact scheme_of_string_spec. Qed.
Print Assumptions contacts_scheme_names.

(* the `contacts` argument: the keyword (any spelling of 'all') resolves to all pairs under ignore_nonprotein; an
   array is accepted iff it is (n, 2), and row k becomes residue pair k *)
Theorem contacts_argument_forms : forall ig cs,
  (forall s, front_spec (IStr s) ig = inr cs <-> lower s = m_contacts_keyword /\ cs = CAll ig) /\
  (forall a, front_spec (IArr a) ig = inr cs <->
     exists rows, a = A2 2 rows /\ forallb (fun r => length r =? 2) rows = true /\ cs = CExplicit (map row_pair rows)).
Proof. intros ig cs. split; [intros s; exact (front_spec_keyword s ig cs)|intros a; exact (front_spec_array a ig cs)]. Qed.
Print Assumptions contacts_argument_forms.

(* which refusal compute_contacts gives and in which order the arguments are examined: topology, `contacts`
   (keyword / array shape), pair resolution (no acceptable pair, range), then the scheme name *)
Theorem contacts_dispatch_order : forall top o,
  let ci := dflt (o_contacts o) (IStr m_dflt_contacts) in
  let ig := dflt (o_ignore o) m_dflt_ignore_nonprotein in
  let sn := lower (dflt (o_scheme o) m_dflt_scheme) in
  match contacts_dispatch top o with
  | inl FNoTop => o_has_top o = false
  | inl (FCore e) => o_has_top o = true /\ exists cs, front_spec ci ig = inr cs /\ resolve top cs = inl e
  | inl FBadScheme =>
      o_has_top o = true /\ (exists cs rp, front_spec ci ig = inr cs /\ resolve top cs = inr rp) /\
      (forall k, sn <> scheme_name k)
  | inl e => o_has_top o = true /\ front_spec ci ig = inl e
  | inr (s, cs) =>
      o_has_top o = true /\ front_spec ci ig = inr cs /\ (exists rp, resolve top cs = inr rp) /\ sn = scheme_name s
  end.
Proof. exact contacts_dispatch_spec. Qed.
Print Assumptions contacts_dispatch_order.

Theorem contacts_case_insensitive : forall top ht c1 c2 s1 s2 ig per soft,
  lower c1 = lower c2 -> lower s1 = lower s2 ->
  contacts_dispatch top (mkCopts ht (Some (IStr c1)) (Some s1) ig per soft) =
  contacts_dispatch top (mkCopts ht (Some (IStr c2)) (Some s2) ig per soft).
Proof. exact contacts_dispatch_case_insensitive. Qed.
Print Assumptions contacts_case_insensitive.

(* end to end, from the raw arguments: entry (frame fi, column k) is the minimum over membership(p0) x membership(p1)
   of the residue pair labelled by row k of the returned residue_pairs, in frame fi *)
Theorem contacts_api_value_is_minimum : forall strict top o box frames rp d2,
  contacts_api strict top o box frames = FOk rp d2 ->
  let per := dflt (o_periodic o) m_dflt_periodic in
  exists s cs, contacts_dispatch top o = inr (s, cs) /\
    lower (dflt (o_scheme o) m_dflt_scheme) = scheme_name s /\
    (s <> SCa ->
     resolve top cs = inr rp /\ length d2 = length frames /\
     forall fi f k p row v,
       nth_error frames fi = Some f -> nth_error rp k = Some p ->
       nth_error d2 fi = Some row -> nth_error row k = Some v ->
       (exists a b, In a (membership s top (fst p)) /\ In b (membership s top (snd p)) /\
                    v = dist2 box per f (a, b)) /\
       (forall a b, In a (membership s top (fst p)) -> In b (membership s top (snd p)) ->
                    (v <= dist2 box per f (a, b))%Z)).
Proof. exact contacts_api_value. Qed.
Print Assumptions contacts_api_value_is_minimum.

(* squareform when a pair may also occur reversed: entry (a, b) holds the distance labelled (b, a) if that label
   occurs (the assignment contact_maps[:, p1, p0] runs last), else the one labelled (a, b), else 0 *)
Theorem squareform_reversed_labels : forall d pairs,
  length d = length pairs -> oriented_nodup pairs ->
  (forall k a b v, nth_error pairs k = Some (b, a) -> nth_error d k = Some v -> squareform_fn d pairs a b = v) /\
  (forall k a b v, nth_error pairs k = Some (a, b) -> nth_error d k = Some v ->
     (forall k', nth_error pairs k' <> Some (b, a)) -> squareform_fn d pairs a b = v) /\
  (forall a b, (forall k, nth_error pairs k <> Some (a, b) /\ nth_error pairs k <> Some (b, a)) ->
     squareform_fn d pairs a b = 0%Z).
Proof. exact squareform_oriented. Qed.
Print Assumptions squareform_reversed_labels.

(* n_residues = max label + 1: every label fits, and some label touches the last row/column *)
Theorem squareform_size : forall pairs,
  (forall p, In p pairs -> fst p < sq_size pairs /\ snd p < sq_size pairs) /\
  (pairs <> [] -> exists p, In p pairs /\ (S (fst p) = sq_size pairs \/ S (snd p) = sq_size pairs)).
Proof. exact sq_size_spec. Qed.
Print Assumptions squareform_size.

(* argument checks of squareform on an (n, 2) label array, in the order of the code *)
Theorem squareform_argument_checks : forall n_cols d nc rows,
  forallb (fun r => length r =? nc) rows = true -> nc = 2 ->
  let zp := map row_pair rows in
  match squareform_api n_cols d (A2 nc rows) with
  | SErr SNegative => exists q, In q zp /\ (fst q < 0 \/ snd q < 0)%Z
  | SErr SMismatch => (forall q, In q zp -> (0 <= fst q /\ 0 <= snd q)%Z) /\ n_cols <> length rows
  | SErr SEmpty => rows = [] /\ n_cols = 0
  | SErr _ => False
  | SOk maps =>
      (forall q, In q zp -> (0 <= fst q /\ 0 <= snd q)%Z) /\ n_cols = length rows /\ rows <> [] /\
      maps = map (fun row => squareform row (map (fun q => (Z.to_nat (fst q), Z.to_nat (snd q))) zp)) d
  end.
Proof. exact squareform_api_spec. Qed.
Print Assumptions squareform_argument_checks.

(* ================================================================== centres, Rg, tensor *)
Open Scope Q_scope.

(* centre of mass: translation equivariant, homogeneous, depends on mass ratios only, and combines over groups *)
Theorem com_linear : forall ms xs t k,
  length ms = length xs -> ~ qsum ms == 0 ->
  wmean ms (map (fun x => x + t) xs) == wmean ms xs + t /\
  wmean ms (map (fun x => k * x) xs) == k * wmean ms xs.
Proof. intros ms xs t k HL HM. split; [exact (wmean_translate ms xs t HL HM) | exact (wmean_scale ms xs k)]. Qed.
Print Assumptions com_linear.

Theorem com_groups : forall ms1 xs1 ms2 xs2,
  length ms1 = length xs1 -> ~ qsum ms1 == 0 -> ~ qsum ms2 == 0 -> ~ qsum ms1 + qsum ms2 == 0 ->
  wmean (ms1 ++ ms2) (xs1 ++ xs2) * (qsum ms1 + qsum ms2) ==
  wmean ms1 xs1 * qsum ms1 + wmean ms2 xs2 * qsum ms2.
Proof. exact wmean_groups. Qed.
Print Assumptions com_groups.

Theorem com_unit_masses_is_cog : forall xs, wmean (ones (length xs)) xs == mean xs.
Proof. exact wmean_ones. Qed.
Print Assumptions com_unit_masses_is_cog.

(* Rg^2 (default masses) is the trace of the gyration tensor *)
Theorem rg2_is_trace : forall pts, rg2_cur (ones (length pts)) pts == tr3 (gyration pts).
Proof. exact AlgebraProofs.rg2_is_trace. Qed.
Print Assumptions rg2_is_trace.

(* compute_rg(masses): as found the weighted second moment is taken about the geometric centre; it exceeds
   the mass-weighted Rg^2 (about the centre of mass) by the squared distance between the two centres *)
Theorem rg2_masses_parallel_axis : forall ms pts,
  length ms = length pts -> ~ qsum ms == 0 ->
  let d k := wmean ms (map (comp k) pts) - mean (map (comp k) pts) in
  rg2_cur ms pts == rg2_fix ms pts + (d 0%nat * d 0%nat + d 1%nat * d 1%nat + d 2%nat * d 2%nat).
Proof. exact rg2_cur_vs_fix. Qed.
Print Assumptions rg2_masses_parallel_axis.

Theorem rg2_masses_refuted :
  exists ms pts, length ms = length pts /\ ~ qsum ms == 0 /\ ~ rg2_cur ms pts == rg2_fix ms pts.
Proof. exact rg2_cur_refuted. Qed.
Print Assumptions rg2_masses_refuted.

Theorem rg2_default_masses_agree : forall pts,
  rg2_cur (ones (length pts)) pts == rg2_fix (ones (length pts)) pts.
Proof. exact rg2_cur_unit_masses. Qed.
Print Assumptions rg2_default_masses_agree.

(* principal moments: a triple is the spectrum of S iff its elementary symmetric functions are
   tr S, e2 S, det S (coefficients of det(xI - S)); this is what the correspondence checks.
   _partial: that numpy's eigvalsh returns such a triple is tested, not proved. *)
Theorem principal_moments_characterisation_partial : forall s l,
  sf1 l == tr3 s -> sf2 l == e2_3 s -> sf3 l == det3 s ->
  forall x, det3 (shift3 x s) == (x - vx l) * (x - vy l) * (x - vz l).
Proof. exact eigen_characterisation. Qed.
Print Assumptions principal_moments_characterisation_partial.

(* relative shape anisotropy is a function of the tensor invariants (no eigen-decomposition needed) *)
Theorem kappa2_from_invariants : forall s l,
  sf1 l == tr3 s -> sf2 l == e2_3 s -> ~ tr3 s == 0 ->
  shape_kappa2 (vx l) (vy l) (vz l) == kappa2_of_tensor s.
Proof. exact AlgebraProofs.kappa2_from_invariants. Qed.
Print Assumptions kappa2_from_invariants.

(* the formulas regenerated from shape.py are the documented ones:
   b = l2 - (l0+l1)/2,  c = l1 - l0,  kappa^2 = 3/2 (l0^2+l1^2+l2^2)/(l0+l1+l2)^2 - 1/2 *)
Theorem shape_descriptor_forms : forall l0 l1 l2,
  shape_asphericity l0 l1 l2 == spec_asphericity l0 l1 l2 /\
  shape_acylindricity l0 l1 l2 == spec_acylindricity l0 l1 l2 /\
  (~ l0 + l1 + l2 == 0 -> shape_kappa2 l0 l1 l2 == spec_kappa2 l0 l1 l2).
Proof. exact shape_forms. Qed.
Print Assumptions shape_descriptor_forms.

Theorem shape_descriptor_relation : forall l0 l1 l2,
  shape_asphericity l0 l1 l2 * shape_asphericity l0 l1 l2 +
  (3 # 4) * (shape_acylindricity l0 l1 l2 * shape_acylindricity l0 l1 l2) ==
  (l0 + l1 + l2) * (l0 + l1 + l2) - (3 # 1) * (l0 * l1 + l0 * l2 + l1 * l2).
Proof. exact asphericity_acylindricity_relation. Qed.
Print Assumptions shape_descriptor_relation.

Theorem shape_descriptor_ranges : forall l0 l1 l2,
  0 <= l0 -> l0 <= l1 -> l1 <= l2 -> 0 < l0 + l1 + l2 ->
  0 <= shape_asphericity l0 l1 l2 /\ 0 <= shape_acylindricity l0 l1 l2 /\
  0 <= shape_kappa2 l0 l1 l2 /\ shape_kappa2 l0 l1 l2 <= 1.
Proof. exact shape_ranges. Qed.
Print Assumptions shape_descriptor_ranges.

(* density = total mass / volume * (1 Da/nm^3 in kg/m^3) *)
Theorem density_closed_form : forall ms v,
  density ms v == qsum ms / v * density_conversion /\
  Qabs (density_conversion - (166053906660 # 100000000000)) <= (1 # 1000000).
Proof. intros ms v. split; [exact (density_form ms v) | exact density_conversion_value]. Qed.
Print Assumptions density_closed_form.

(* ---- density with a general cell: the volume is the determinant a . (b x c) of the cell vectors *)
Theorem density_cell_closed_form : forall ms a b c,
  density_cell ms a b c == qsum ms / triple3 a b c * density_conversion.
Proof. exact density_cell_form. Qed.
Print Assumptions density_cell_closed_form.

Theorem cell_volume_is_determinant : forall a b c,
  triple3 b a c == - triple3 a b c /\ triple3 a c b == - triple3 a b c /\ triple3 b c a == triple3 a b c.
Proof. exact triple3_alternating. Qed.
Print Assumptions cell_volume_is_determinant.

(* standard orientation (a along x, b in the xy plane): volume = ax * by * cz; orthorhombic: product of the lengths *)
Theorem cell_volume_standard_orientation : forall ax bx by_ cx cy cz lx ly lz,
  triple3 (ax, 0, 0) (bx, by_, 0) (cx, cy, cz) == ax * by_ * cz /\
  triple3 (lx, 0, 0) (0, ly, 0) (0, 0, lz) == lx * ly * lz.
Proof. intros. split; [apply triple3_lower_triangular|apply triple3_orthorhombic]. Qed.
Print Assumptions cell_volume_standard_orientation.

(* the product of the cell lengths is never below the volume and equals it only for orthorhombic cells: a density
   taken from the lengths is too low for every triclinic cell *)
Theorem cell_lengths_product_overestimates_volume : forall ax bx by_ cx cy cz,
  0 < ax -> 0 < by_ -> 0 < cz ->
  let a := (ax, 0, 0) in let b := (bx, by_, 0) in let c := (cx, cy, cz) in
  triple3 a b c * triple3 a b c <= lengths_product_sq a b c /\
  (triple3 a b c * triple3 a b c == lengths_product_sq a b c -> bx == 0 /\ cx == 0 /\ cy == 0).
Proof. exact lengths_product_overestimates. Qed.
Print Assumptions cell_lengths_product_overestimates_volume.

Theorem cell_lengths_product_is_not_volume :
  exists a b c, ~ triple3 a b c * triple3 a b c == lengths_product_sq a b c /\ 0 < triple3 a b c.
Proof. exact lengths_product_refuted. Qed.
Print Assumptions cell_lengths_product_is_not_volume.

Theorem dipole_neutral_origin_independent : forall a qs xs,
  length qs = length xs -> qsum qs == 0 -> dipole_about a qs xs == dipole_about 0 qs xs.
Proof. exact dipole_origin_independent. Qed.
Print Assumptions dipole_neutral_origin_independent.

(* ---- dipole_moments under periodic cells: per atom the displacement residue-first-atom -> atom plus the
   displacement atom 0 -> residue-first-atom, each under the minimum image convention *)
Theorem dipole_signed_minimum_image : forall L d, (0 < L)%Z ->
  ((exists k, smic L d = d - k * L) /\ - L <= 2 * smic L d < L)%Z.
Proof. exact smic_spec. Qed.
Print Assumptions dipole_signed_minimum_image.

(* without a cell, or when no displacement is wrapped, the result is sum_a q_a (r_a - r_0) *)
Theorem dipole_unwrapped_closed_form : forall box ans qs f,
  length ans = length qs ->
  (forall i an, nth_error ans i = Some an ->
     small_in box (vsub (coord f i) (coord f an)) /\ small_in box (vsub (coord f an) (coord f 0))) ->
  dipole_frame box ans qs f = dipole_plain qs f.
Proof. exact dipole_unwrapped. Qed.
Print Assumptions dipole_unwrapped_closed_form.

(* re-imaging whole residues (each by its own lattice vector; the residue of atom 0 stays) leaves the result unchanged *)
Theorem dipole_whole_residue_image_invariant : forall b ans qs (f f' : frame) (shift : nat -> vec),
  (forall a, coord f' a = vadd (coord f a) (vmulc (shift a) b)) ->
  shift 0%nat = zero3 ->
  (forall i an, nth_error ans i = Some an -> shift i = shift an) ->
  dipole_frame (Some b) ans qs f' = dipole_frame (Some b) ans qs f.
Proof. exact dipole_residue_image_invariant. Qed.
Print Assumptions dipole_whole_residue_image_invariant.

(* the index-pair tables read from thermodynamic_properties.py are the ones of the model: (first atom of the residue,
   atom) and (atom 0, first atom of the residue), both with periodic=True, summed per atom *)
Theorem dipole_index_tables_match_source :
  src_dipole_local = m_dipole_local /\ src_dipole_molecule = m_dipole_molecule /\
  src_dipole_periodic = (true, true) /\
  forall box f an a, atom_disp_gen src_dipole_local src_dipole_molecule box f an a = atom_disp box f an a.
Proof. exact dipole_indices_match_source. Qed.
Print Assumptions dipole_index_tables_match_source.

(* the anchor of an atom is the first atom of its residue (atoms numbered in file order) *)
Theorem dipole_anchor_is_residue_start : forall k raw, anchors (number_top k raw) = anchor_spec k raw.
Proof. exact anchors_are_residue_starts. Qed.
Print Assumptions dipole_anchor_is_residue_start.

(* ================================================================== order.py *)
(* nematic Q tensor of non-zero directors: traceless and symmetric *)
Theorem nematic_Q_traceless_symmetric : forall ds,
  (forall d, In d ds -> ~ dot3 d d == 0) ->
  tr3 (nematic_q ds) == 0 /\ (forall a b, nematic_entry a b ds == nematic_entry b a ds).
Proof. exact nematic_traceless_symmetric. Qed.
Print Assumptions nematic_Q_traceless_symmetric.

(* what the correspondence tests about S2 (p(S2) = 0, p'(S2) >= 0, 3 S2 >= tr) characterises the largest
   eigenvalue; _partial: that numpy's eigvals returns it is tested per case, not proved *)
Theorem order_parameter_is_top_eigen_partial : forall s l x,
  sf1 l == tr3 s -> sf2 l == e2_3 s -> sf3 l == det3 s -> vx l <= vy l -> vy l <= vz l ->
  charpoly s x == 0 -> 0 <= charpoly' s x -> tr3 s <= (3 # 1) * x -> x == vz l.
Proof.
  intros s l x H1 H2 H3 Hab Hbc Hp Hd Hm.
  destruct (charpoly_factored s l x H1 H2 H3) as [E E'].
  rewrite E in Hp. rewrite E' in Hd. rewrite <- H1 in Hm.
  exact (top_root_characterisation (vx l) (vy l) (vz l) x Hab Hbc Hp Hd Hm).
Qed.
Print Assumptions order_parameter_is_top_eigen_partial.

(* same for the director: eigenvector of the smallest eigenvalue of the inertia tensor *)
Theorem director_is_least_eigen_partial : forall s l x,
  sf1 l == tr3 s -> sf2 l == e2_3 s -> sf3 l == det3 s -> vx l <= vy l -> vy l <= vz l ->
  charpoly s x == 0 -> 0 <= charpoly' s x -> (3 # 1) * x <= tr3 s -> x == vx l.
Proof.
  intros s l x H1 H2 H3 Hab Hbc Hp Hd Hm.
  destruct (charpoly_factored s l x H1 H2 H3) as [E E'].
  rewrite E in Hp. rewrite E' in Hd. rewrite <- H1 in Hm.
  exact (least_root_characterisation (vx l) (vy l) (vz l) x Hab Hbc Hp Hd Hm).
Qed.
Print Assumptions director_is_least_eigen_partial.

(* the harness evaluates the residuals with every intermediate fraction reduced; same values *)
Theorem order_residuals_reduced_evaluation : forall least t s v ds s2,
  Forall2 Qeq (eigvec_residuals_r least t s v) (eigvec_residuals least t s v) /\
  Forall2 Qeq (s2_residuals_r ds s2) (s2_residuals ds s2).
Proof. intros. split; [exact (eigvec_residuals_r_eq least t s v)|exact (s2_residuals_r_eq ds s2)]. Qed.
Print Assumptions order_residuals_reduced_evaluation.

(* the order in which the model evaluates the inertia tensor gives the documented sum *)
Theorem inertia_tensor_documented_form : forall a b cs,
  inertia_of a b cs ==
  qsum (map (fun md => fst md * (dot3' (snd md) * delta a b - comp a (snd md) * comp b (snd md))) cs).
Proof. exact inertia_documented_form. Qed.
Print Assumptions inertia_tensor_documented_form.

Theorem order_parameter_nonnegative : forall a b c, a <= b -> b <= c -> a + b + c == 0 -> 0 <= c.
Proof. exact traceless_top_nonneg. Qed.
Print Assumptions order_parameter_nonnegative.

(* inertia tensor: symmetric, and its trace is 2 M Rg^2 (mass-weighted Rg about the centre of mass) *)
Theorem inertia_tensor_trace_symmetric : forall ms pts,
  length ms = length pts -> ~ qsum ms == 0 ->
  tr3 (inertia ms pts) == (2 # 1) * qsum ms * rg2_fix ms pts /\
  (forall a b, inertia_entry a b ms pts == inertia_entry b a ms pts).
Proof. intros ms pts HL HM. split; [exact (inertia_trace ms pts HL HM)|intros a b; exact (inertia_symmetric ms pts a b)]. Qed.
Print Assumptions inertia_tensor_trace_symmetric.

(* indices='residues' / 'chains': the groups cover every atom exactly once, in order *)
Theorem order_groups_partition : forall l,
  concat (residue_groups 0 l) = seq 0 (natoms l) /\ concat (chain_groups 0 None [] l) = seq 0 (natoms l).
Proof. intros l. split; [exact (residue_groups_partition l 0)|exact (chain_groups_partition l)]. Qed.
Print Assumptions order_groups_partition.

(* indices argument of compute_directors / compute_nematic_order: keywords (any case) and the default *)
Theorem order_indices_keywords : forall raw s,
  (lower s = m_order_chains -> get_indices raw (Some (XStr s)) = inr (map (map Z.of_nat) (chain_groups 0 None [] raw))) /\
  (lower s = m_order_residues -> get_indices raw (Some (XStr s)) = inr (map (map Z.of_nat) (residue_groups 0 raw))) /\
  (lower s <> m_order_chains -> lower s <> m_order_residues -> get_indices raw (Some (XStr s)) = inl OInvalidSelection) /\
  get_indices raw None = get_indices raw (Some (XStr m_dflt_order_indices)).
Proof. exact get_indices_keywords. Qed.
Print Assumptions order_indices_keywords.

(* explicit groups: accepted iff a sequence of sequences of Python ints, returned unchanged and in order; otherwise
   the first offending element decides which refusal is given *)
Theorem order_indices_explicit : forall l,
  match scan_groups l with
  | inr g => forallb group_ok l = true /\ g = map ints_of l
  | inl e => exists pre x post, l = pre ++ x :: post /\ forallb group_ok pre = true /\ group_ok x = false /\
               e = (if is_seq x then ONotInt else OInvalidSelection)
  end.
Proof. exact scan_groups_spec. Qed.
Print Assumptions order_indices_explicit.

(* ================================================================== DRID *)
(* the one-pass update of moments.cpp yields the mean and the second and third central moments *)
Theorem online_moments_eq_batch : forall xs, xs <> [] ->
  let '(m, s2, s3) := online_moments xs in
  m == bmean xs /\ s2 == bsecond xs /\ s3 == bthird xs.
Proof. exact online_eq_batch. Qed.
Print Assumptions online_moments_eq_batch.

(* partner row: the selected atoms other than the atom itself that are not bonded to it, sorted *)
Theorem drid_partner_rows : forall bonds ai a,
  (forall b, In b (drid_partners bonds ai a) <-> In b ai /\ b <> a /\ bonded bonds a b = false) /\
  StronglySorted lt (drid_partners bonds ai a).
Proof. exact drid_partners_spec. Qed.
Print Assumptions drid_partner_rows.

(* ================================================================== RDF *)
Theorem shell_volumes_telescope : forall pi e0 es,
  qsumr (shells pi (e0 :: es)) == rdf_shell_volume pi e0 (last es e0).
Proof. exact RdfProofs.shell_volumes_telescope. Qed.
Print Assumptions shell_volumes_telescope.

(* the blocks regenerated from rdf.py are the documented ones: 4/3 pi (hi^3 - lo^3), (lo+hi)/2,
   n_pairs * sum_f 1/V_f * V_shell, (r_max - r_min)/bin_width *)
Theorem rdf_forms : forall pi lo hi npairs siv v r0 r1 bw,
  rdf_shell_volume pi lo hi == spec_shell_volume pi lo hi /\
  rdf_bin_centre lo hi == spec_bin_centre lo hi /\
  rdf_norm npairs siv v == spec_norm npairs siv v /\
  rdf_nbins_quotient r0 r1 bw == spec_nbins_quotient r0 r1 bw.
Proof.
  intros. destruct (shell_and_centre_forms pi lo hi) as [H1 H2].
  split; [exact H1|]. split; [exact H2|]. split; [exact (norm_form npairs siv v)|exact (nbins_quotient_form r0 r1 bw)].
Qed.
Print Assumptions rdf_forms.

(* every distance in [first edge, last edge] falls into exactly one bin ([lo,hi), last bin closed) *)
Theorem rdf_bins_partition : forall bs x,
  StronglySorted Qlt bs -> (2 <= length bs)%nat -> hd 0 bs <= x -> x <= last bs 0 ->
  exists j lo hi l, bin_of bs x = Some j /\ bounds bs j = Some (lo, hi, l) /\ in_bin lo hi l x /\
    forall j' lo' hi' l', bounds bs j' = Some (lo', hi', l') -> in_bin lo' hi' l' x -> j' = j.
Proof. exact bins_partition. Qed.
Print Assumptions rdf_bins_partition.

(* compute_rdf_t: the per-chunk normalisation and the weighted average over chunks of n_concurrent_pairs equal
   count / ((n_pairs / period_length) * sum(1/V) * V_shell) for any chunk sizes *)
Theorem rdf_t_entry : forall ncp period siv v cs,
  (forall cn, In cn cs -> ~ snd cn == 0) -> ~ ncp == 0 -> ~ period == 0 -> ~ siv == 0 -> ~ v == 0 ->
  ~ qsumr (map snd cs) == 0 ->
  chunk_avg ncp period siv v cs == qsumr (map fst cs) / (qsumr (map snd cs) / period * siv * v).
Proof. exact rdf_t_chunks. Qed.
Print Assumptions rdf_t_entry.

Theorem rdf_histogram_additive : forall bs xs ys k,
  count_bin bs (xs ++ ys) k = (count_bin bs xs k + count_bin bs ys k)%nat.
Proof. exact count_bin_app. Qed.
Print Assumptions rdf_histogram_additive.

(* n_bins given: it decides (bin_width is not looked at) and must be positive *)
Theorem rdf_n_bins_option : forall rr n bw1 bw2,
  rdf_options rr (Some n) bw1 = rdf_options rr (Some n) bw2 /\
  ((n <= 0)%Z -> (exists a b, rr = Some [a; b]) \/ rr = None -> rdf_options rr (Some n) bw1 = inl RNBins) /\
  (forall r0 r1, (0 < n)%Z -> r0 < r1 -> rdf_options (Some [r0; r1]) (Some n) bw1 = inr (r0, r1, Z.to_nat n)).
Proof. exact rdf_options_n_bins. Qed.
Print Assumptions rdf_n_bins_option.

(* n_bins omitted: truncated quotient (r_max - r_min)/bin_width in double precision (default width when omitted);
   a bin count of zero is refused *)
Theorem rdf_bin_width_option : forall r0 r1 bw, r0 < r1 ->
  rdf_options (Some [r0; r1]) None bw =
  (if (nbins_of_width r0 r1 (dflt bw m_dflt_bin_width) <=? 0)%Z then inl RBinsZero
   else inr (r0, r1, Z.to_nat (nbins_of_width r0 r1 (dflt bw m_dflt_bin_width)))).
Proof. exact rdf_options_bin_width. Qed.
Print Assumptions rdf_bin_width_option.

(* compute_rdf_t: the chunks pairs[i*ncp:(i+1)*ncp], i < ceil(len/ncp), are consecutive non-empty pieces of at most
   ncp pairs that together are the pair list *)
Theorem rdf_t_chunks_partition : forall (A : Type) ncp (l : list A), (1 <= ncp)%nat ->
  concat (chunk_list ncp l) = l /\ length (chunk_list ncp l) = n_chunks ncp (length l) /\
  (forall ch, In ch (chunk_list ncp l) -> (1 <= length ch <= ncp)%nat).
Proof.
  intros A ncp l H. split; [exact (chunks_concat ncp l H)|]. split; [exact (chunks_count ncp l)|].
  intros ch Hin. exact (chunks_sizes ncp l ch H Hin).
Qed.
Print Assumptions rdf_t_chunks_partition.

(* ... and normalising every chunk on its own and averaging with weights len(chunk)/ncp equals the single
   normalisation over the whole pair list (refinement of rdf_t_entry to the actual chunk lists) *)
Theorem rdf_t_chunked_equals_flat : forall (P : Type) ncp (period siv v : Q) bs (dist : P -> Q) (ps : list P) k,
  (1 <= ncp)%nat -> ps <> [] -> ~ period == 0 -> ~ siv == 0 -> ~ v == 0 ->
  rdf_t_entry_chunked ncp period siv v bs dist ps k == rdf_t_entry_flat period siv v bs dist ps k.
Proof. exact @rdf_t_chunked_refines. Qed.
Print Assumptions rdf_t_chunked_equals_flat.

(* self_correlation=True puts the self pairs of the atoms occurring in `pairs` (each once, increasing) in front *)
Theorem rdf_t_self_correlation_pairs : forall pairs,
  rdf_t_pairs false pairs = pairs /\
  exists atoms, rdf_t_pairs true pairs = map (fun a => (a, a)) atoms ++ pairs /\
    (forall a, In a atoms <-> exists p, In p pairs /\ (a = fst p \/ a = snd p)) /\
    StronglySorted lt atoms.
Proof. exact rdf_t_self_pairs. Qed.
Print Assumptions rdf_t_self_correlation_pairs.

(* ================================================================== Karplus *)
Theorem karplus_form : forall A B C c,
  j3_function A B C c == A * (c * c) + B * c + C /\
  (0 < A -> -(1) <= c -> c <= 1 ->
   (4 # 1) * A * C - B * B <= (4 # 1) * A * j3_function A B C c /\ j3_function A B C c <= A + Qabs B + C).
Proof. intros A B C c. split; [exact (karplus_quadratic A B C c) | exact (karplus_range A B C c)]. Qed.
Print Assumptions karplus_form.

Theorem karplus_coefficients_published :
  table_eqb J3_HN_HA_coefficients published_HN_HA = true /\
  table_eqb J3_HN_C_coefficients published_HN_C = true /\
  table_eqb J3_HN_CB_coefficients published_HN_CB = true.
Proof. exact karplus_tables_published. Qed.
Print Assumptions karplus_coefficients_published.

Theorem karplus_double_angle : forall phi A B C phi0 : R,
  (j3_function_R phi A B C phi0 =
   A / 2 * cos (2 * (phi + phi0)) + B * cos (phi + phi0) + (C + A / 2))%R.
Proof. exact KarplusProofs.karplus_double_angle. Qed.
Print Assumptions karplus_double_angle.

Theorem karplus_periodic : forall phi A B C phi0 : R,
  (j3_function_R (phi + 2 * PI) A B C phi0 = j3_function_R phi A B C phi0)%R.
Proof. exact KarplusProofs.karplus_periodic. Qed.
Print Assumptions karplus_periodic.

(* ================================================================== non-vacuity *)
Close Scope Q_scope.
Definition ex_top : topology :=
  number_top 0 [("ALA"%string, 0, [("N"%string, "N"%string); ("CA"%string, "C"%string); ("CB"%string, "C"%string)]);
                ("GLY"%string, 0, [("N"%string, "N"%string); ("CA"%string, "C"%string)]);
                ("HOH"%string, 0, [("O"%string, "O"%string)]);
                ("SER"%string, 0, [("CA"%string, "C"%string); ("CB"%string, "C"%string);
                                   ("OG"%string, "O"%string); ("HG"%string, "H"%string)])].

(* hypotheses of contacts_labels / contacts_value_is_minimum: unequal residue sizes 3 and 4 *)
Example contacts_hypotheses_satisfiable :
  SClosest <> SCa /\ resolve ex_top (CAll true) = inr [(0, 3)] /\
  flat_pairs (membership SClosest ex_top) [(0, 3)] <> [] /\
  length (flat_pairs (membership SClosest ex_top) [(0, 3)]) = 12.
Proof. repeat split; try discriminate; reflexivity. Qed.
Print Assumptions contacts_hypotheses_satisfiable.

Example squareform_hypotheses_satisfiable : unordered_nodup [(0, 2); (1, 3); (2, 1)].
Proof.
  intros k1 k2 p1 p2 H1 H2 H.
  destruct k1 as [|[|[|k1]]]; destruct k2 as [|[|[|k2]]]; simpl in *; try reflexivity;
    try (destruct k1; discriminate); try (destruct k2; discriminate);
    inversion H1; inversion H2; subst; destruct H as [H|H]; discriminate H.
Qed.
Print Assumptions squareform_hypotheses_satisfiable.

Example rdf_hypotheses_satisfiable :
  StronglySorted Qlt [0; 1 # 4; 1 # 2; 3 # 4; 1]%Q /\ bin_of [0; 1 # 4; 1 # 2; 3 # 4; 1]%Q (1 # 2) = Some 2 /\
  bin_of [0; 1 # 4; 1 # 2; 3 # 4; 1]%Q 1 = Some 3.
Proof.
  split; [|split; reflexivity].
  repeat (constructor; [|repeat (constructor; try reflexivity)]). constructor.
Qed.
Print Assumptions rdf_hypotheses_satisfiable.

Example moments_hypotheses_satisfiable :
  Qeq_bool (let '(m, _, _) := online_moments [1; 2; 4]%Q in m) (7 # 3) = true /\
  Qeq_bool (let '(_, s2, _) := online_moments [1; 2; 4]%Q in s2) (14 # 9) = true /\
  Qeq_bool (let '(_, _, s3) := online_moments [1; 2; 4]%Q in s3) (20 # 27) = true.
Proof. repeat split; vm_compute; reflexivity. Qed.
Print Assumptions moments_hypotheses_satisfiable.

(* hypotheses of the option / chunk / dipole theorems are satisfiable by non-trivial instances *)
Example options_hypotheses_satisfiable :
  contacts_dispatch ex_top (mkCopts true (Some (IStr "ALL"%string)) (Some "Closest-HEAVY"%string) None None None)
    = inr (SClosestHeavy, CAll true) /\
  contacts_dispatch ex_top (mkCopts true (Some (IArr (A2 2 [[0; 9]%Z]))) (Some "bogus"%string) None None None)
    = inl (FCore ERange) /\
  contacts_dispatch ex_top (mkCopts true (Some (IArr (A2 2 [[0; 3]%Z]))) (Some "bogus"%string) None None None)
    = inl FBadScheme /\
  oriented_nodup [(0, 2); (2, 0); (1, 3)] /\
  squareform_fn [5; 7; 9]%Z [(0, 2); (2, 0); (1, 3)] 0 2 = 7%Z /\
  squareform_fn [5; 7; 9]%Z [(0, 2); (2, 0); (1, 3)] 2 0 = 5%Z.
Proof.
  repeat split; try (vm_compute; reflexivity).
  intros k1 k2 p H1 H2.
  destruct k1 as [|[|[|k1]]]; destruct k2 as [|[|[|k2]]]; simpl in *; try reflexivity;
    try (destruct k1; discriminate); try (destruct k2; discriminate);
    inversion H1; subst; discriminate H2.
Qed.
Print Assumptions options_hypotheses_satisfiable.

Example chunks_hypotheses_satisfiable :
  chunk_list 3 [1; 2; 3; 4; 5; 6; 7] = [[1; 2; 3]; [4; 5; 6]; [7]] /\ n_chunks 3 7 = 3 /\ n_chunks 3 6 = 2.
Proof. repeat split; reflexivity. Qed.
Print Assumptions chunks_hypotheses_satisfiable.

(* two residues (atoms 0-1, 2-3) in a cell of length 11: wrapped, the anchor bookkeeping differs from the plain sum;
   moving residue 1 by one cell length changes nothing *)
Example dipole_hypotheses_satisfiable :
  let b := (11, 11, 11)%Z in
  let f := [(0, 0, 0); (1, 0, 0); (9, 0, 0); (10, 0, 0)]%Z in
  let f' := [(0, 0, 0); (1, 0, 0); (20, 0, 0); (21, 0, 0)]%Z in
  dipole_frame (Some b) [0; 0; 2; 2] [1; -1; 2; -2]%Z f = (-3, 0, 0)%Z /\
  dipole_plain [1; -1; 2; -2]%Z f = (-3, 0, 0)%Z /\
  dipole_frame (Some b) [0; 0; 2; 2] [1; -1; 2; -2]%Z f' = (-3, 0, 0)%Z /\
  dipole_frame (Some b) [0; 0; 2; 2] [1; 0; 0; -1]%Z f = (1, 0, 0)%Z /\
  dipole_plain [1; 0; 0; -1]%Z f = (-10, 0, 0)%Z.
Proof. repeat split; vm_compute; reflexivity. Qed.
Print Assumptions dipole_hypotheses_satisfiable.
