(* The loop skeletons, index arithmetic and glue control flow regenerated from /repo's source text on every run
   (Gen/PBCLoops.v, written by harness/props/C05_loops.py) coincide with what PBC/Kernel.v implements: a changed
   loop bound, stride, offset, pointer advance (or its place relative to the pair loop), store order, validation
   comparison, statement order or empty-result shape breaks [kernel_tie]. *)
From Coq Require Import ZArith List Bool Lia.
Import ListNotations.
Require Import MD.PBC.Model MD.PBC.Kernel.
Require MD.Gen.PBCLoops.
Module L := MD.Gen.PBCLoops.
Open Scope Z_scope.

Definition kernel_tie_statement : Prop :=
  (* C kernels *)
  (L.tric_skel = skel_of KTric false /\ L.tric_t_skel = skel_of KTric true /\
   L.ortho_skel = skel_of KOrtho false /\ L.ortho_t_skel = skel_of KOrtho true /\
   L.plain_skel = skel_of KPlain false /\ L.plain_t_skel = skel_of KPlain true) /\
  (* distance.py: order of the steps, validation predicate, empty shapes *)
  (L.disp_steps = api_steps ApiDisplacements /\ L.core_steps = api_steps ApiDistancesCore /\
   L.dist_t_steps = api_steps ApiDistancesT) /\
  (forall n p, L.disp_valid_pairs n p = valid_idx n p /\ L.core_valid_pairs n p = valid_idx n p /\
               L.dist_t_valid_pairs n p = valid_idx n p /\ L.dist_t_valid_times n p = valid_idx n p) /\
  (L.disp_empty_shape = api_empty_shape ApiDisplacements /\ L.core_empty_shape = api_empty_shape ApiDistancesCore /\
   L.dist_t_empty_shape = api_empty_shape ApiDistancesT) /\
  (* _is_orthorhombic = the model's is_orthob *)
  (forall B, forallb (offdiag_zero B) L.np_offdiag = is_orthob B) /\
  (* the time-pair reference functions form x[t1,p1] - x[t2,p2] *)
  (forall r, (if L.np_mic_t_sign =? -1 then vneg r else r) = np_sign (Some []) r /\
             (if L.np_plain_t_sign =? -1 then vneg r else r) = np_sign (Some []) r).

Lemma kernel_tie : kernel_tie_statement.
Proof.
  unfold kernel_tie_statement.
  repeat match goal with |- _ /\ _ => split end; try reflexivity.
  - intros n p. repeat split; reflexivity.
  - intros B. destruct B as [[[ax ay] az] [[bx by_] bz] [[cx cy] cz]].
    unfold is_orthob, lower_trib, offdiag_zero. cbn.
    destruct (ay =? 0), (az =? 0), (bx =? 0), (bz =? 0), (cx =? 0), (cy =? 0); reflexivity.
  - intros r. split; reflexivity.
Qed.

(* the empty-result shapes of the generated glue are the shapes api_call returns *)
Lemma empty_shape_is_modelled a opt periodic n_atoms (xyz : list frame) boxes times :
  (a = ApiDistancesT -> valid_pairs (zlen xyz) times = true) ->
  api_call a opt periodic n_atoms xyz boxes [] times =
  Ok (map (gdim_val (zlen xyz) (zlen times)) (api_empty_shape a)) (Some []).
Proof.
  intros Ht. unfold api_call. cbn [valid_pairs forallb negb zlen length Z.of_nat Z.eqb].
  destruct a; try reflexivity. rewrite (Ht eq_refl). reflexivity.
Qed.
