(* The definitions regenerated from /repo's source text on every run (Gen/PBCFormulas.v, written by
   harness/props/C05.py:translate) coincide with the hand-written model of PBC/Model.v.  A changed
   sign, index, rounding argument, loop bound or comparison in the source breaks [gen_tie]. *)
From Coq Require Import ZArith List Bool Lia.
Import ListNotations.
Require Import MD.PBC.Model.
Require MD.Gen.PBCFormulas.
Module G := MD.Gen.PBCFormulas.
Open Scope Z_scope.

Definition box3 (B : box) : vec * vec * vec := (ba B, bb B, bc B).
Definition loops_ok (l : (Z * Z) * (Z * Z) * (Z * Z)) : bool :=
  let ok p := (fst p =? -1) && (snd p =? 2) in ok (fst (fst l)) && ok (snd (fst l)) && ok (snd l).

Definition gen_tie_statement : Prop :=
  (* C++ triclinic kernel and its time-pair variant *)
  (G.tric_idx = (tric_idx1, tric_idx2, tric_idx3) /\ G.tric_t_idx = (tric_idx1, tric_idx2, tric_idx3)) /\
  (forall rn a b c, G.tric_reduce rn a b c = box3 (reduce rn (mkbox a b c)) /\
                    G.tric_t_reduce rn a b c = box3 (reduce rn (mkbox a b c))) /\
  (forall rn a b c r, G.tric_wrap rn a b c r = wrap rn (mkbox a b c) r /\
                      G.tric_t_wrap rn a b c r = wrap rn (mkbox a b c) r) /\
  (forall a b c w x y z, G.tric_cand a b c w x y z = snd (cand (mkbox a b c) w (x, y, z)) /\
                         G.tric_t_cand a b c w x y z = snd (cand (mkbox a b c) w (x, y, z))) /\
  (loops_ok G.tric_loops = true /\ loops_ok G.tric_t_loops = true /\ offs = [-1; 0; 1]) /\
  (G.tric_keep_last = true /\ G.tric_t_keep_last = true) /\
  (forall p1 p2, G.tric_sep p1 p2 = vsub p2 p1 /\ G.tric_t_sep p1 p2 = vsub p2 p1 /\
                 G.ortho_sep p1 p2 = vsub p2 p1 /\ G.ortho_t_sep p1 p2 = vsub p2 p1 /\ G.fcc_sep p1 p2 = vsub p1 p2) /\
  (* orthorhombic kernel: the diagonal of the matrix it is handed *)
  (G.ortho_idx = ((0, 4, 8), (0, 4, 8))%nat /\ G.ortho_t_idx = ((0, 4, 8), (0, 4, 8))%nat) /\
  (forall rn B r, G.ortho_wrap rn (vx (ba B), vy (bb B), vz (bc B)) r = mic_ortho rn B r /\
                  G.ortho_t_wrap rn (vx (ba B), vy (bb B), vz (bc B)) r = mic_ortho rn B r) /\
  (* find_closest_contact: rows of the matrix, reciprocal of the diagonal, strict comparison *)
  (G.fcc_idx = ((0, 1, 2), (3, 4, 5), (6, 7, 8), (0, 4, 8))%nat /\ G.fcc_keep_last = false) /\
  (forall a b c d, G.fcc_wrap rnd_hup a b c d = fcc_disp (mkbox a b c) d) /\
  (* numpy reference path *)
  (forall rn a b c, G.np_reduce rn a b c = box3 (reduce rn (mkbox a b c))) /\
  (forall rn a b c r, G.np_wrap rn a b c r = wrap rn (mkbox a b c) r) /\
  (forall a b c w x y z, G.np_cand a b c w x y z = snd (cand (mkbox a b c) w (x, y, z))) /\
  (loops_ok G.np_loops = true /\ G.np_keep_last = false /\ G.np_api_transposes = 6%nat).

Lemma vec_ext' (u v : vec) : vx u = vx v -> vy u = vy v -> vz u = vz v -> u = v.
Proof. destruct u as [[? ?] ?], v as [[? ?] ?]. cbn. intros -> -> ->. reflexivity. Qed.

Lemma gen_tie : gen_tie_statement.
Proof.
  unfold gen_tie_statement.
  repeat match goal with |- _ /\ _ => split end; try reflexivity.
  all: intros.
  all: repeat match goal with v : vec |- _ => destruct v as [[? ?] ?] | B : box |- _ => destruct B as [? ? ?] end.
  all: repeat match goal with |- _ /\ _ => split end; try reflexivity.
  all: apply vec_ext'; cbn; ring.
Qed.
