(* The executable comparison used by the correspondence run (PBC/Check.v) compares with the very functions
   the theorems are about: outside a reduction tie, verdict 0 means "equal to Model.path_coef" resp.
   "squared norm of Model.path_disp inside the interval". *)
From Coq Require Import ZArith List Bool Lia.
Import ListNotations.
Require Import MD.PBC.Model MD.PBC.Check MD.PBC.Proofs.
Open Scope Z_scope.

Lemma vec_eqb_eq u v : vec_eqb u v = true -> u = v.
Proof.
  unfold vec_eqb. intros H. apply andb_true_iff in H. destruct H as [H Hz]. apply andb_true_iff in H. destruct H as [Hx Hy].
  apply Z.eqb_eq in Hx, Hy, Hz. apply vec_ext; assumption.
Qed.

Lemma best_code_single x : best_code [x] = 0 -> x = 0.
Proof.
  unfold best_code. cbn [existsb forallb]. rewrite !orb_false_r, andb_true_r.
  destruct (0 =? x) eqn:E0; [intros _; apply Z.eqb_eq in E0; lia|].
  destruct (2 =? x); [discriminate|]. destruct (1 =? x); discriminate.
Qed.

Lemma tric_on_cpp B' r : snd (tric_on PTricCpp B' r) =
  match argmin_last (cands B' (wrap rnd_haz B' r)) with Some c => c | None => (vzero, wrap rnd_haz B' r) end.
Proof. reflexivity. Qed.

Lemma shift_verdict_sound p G B r n :
  reduce_tie G (reduce (rmode_of p) B) = false -> shift_verdict p G B r n = 0 -> n = path_coef p B r.
Proof.
  intros Ht Hv. unfold shift_verdict in Hv.
  destruct (negb match p with PPlain => true | _ => diag_posb B end); [discriminate|].
  destruct p.
  - destruct (vec_eqb vzero n) eqn:E; [|discriminate]. symmetry. apply vec_eqb_eq. exact E.
  - destruct (vec_eqb (mic_ortho_coef rnd_htz B r) n) eqn:E.
    + symmetry. apply vec_eqb_eq. exact E.
    + destruct (on_boundary G B (mic_ortho rnd_htz B r)); discriminate.
  - unfold reductions in Hv. rewrite Ht in Hv. cbn [map] in Hv. apply best_code_single in Hv.
    cbn [rmode_of] in Hv. unfold tric_on in Hv. cbn [rmode_of] in Hv.
    match type of Hv with (if vec_eqb ?a n then _ else _) = 0 => destruct (vec_eqb a n) eqn:E end.
    + symmetry. apply vec_eqb_eq in E. rewrite <- E. reflexivity.
    + destruct (on_boundary G _ _); [discriminate|].
      match type of Hv with (if ?c then _ else _) = 0 => destruct c; discriminate end.
  - unfold reductions in Hv. rewrite Ht in Hv. cbn [map] in Hv. apply best_code_single in Hv.
    cbn [rmode_of] in Hv. unfold tric_on in Hv. cbn [rmode_of] in Hv.
    match type of Hv with (if vec_eqb ?a n then _ else _) = 0 => destruct (vec_eqb a n) eqn:E end.
    + symmetry. apply vec_eqb_eq in E. rewrite <- E. cbn [path_coef]. unfold np_ortho_coef. cbn [fst].
      f_equal. generalize (wrap_coef rnd_hev (reduce rnd_hev B) r). intros v. destruct v as [[? ?] ?]. apply vec_ext; cbn; ring.
    + destruct (on_boundary G _ _); discriminate.
  - unfold reductions in Hv. rewrite Ht in Hv. cbn [map] in Hv. apply best_code_single in Hv.
    cbn [rmode_of] in Hv. unfold tric_on in Hv. cbn [rmode_of] in Hv.
    match type of Hv with (if vec_eqb ?a n then _ else _) = 0 => destruct (vec_eqb a n) eqn:E end.
    + symmetry. apply vec_eqb_eq in E. rewrite <- E. reflexivity.
    + destruct (on_boundary G _ _); [discriminate|].
      match type of Hv with (if ?c then _ else _) = 0 => destruct c; discriminate end.
Qed.

Lemma norm_verdict_sound p G B r lo hi :
  reduce_tie G (reduce (rmode_of p) B) = false -> norm_verdict p G B r (lo, hi) = 0 ->
  lo <= norm2 (path_disp p B r) <= hi.
Proof.
  intros Ht Hv. unfold norm_verdict in Hv.
  destruct (negb match p with PPlain => true | _ => diag_posb B end); [discriminate|].
  cbn [fst snd] in Hv.
  assert (Hin : forall m, (lo <=? m) && (m <=? hi) = true -> lo <= m <= hi) by (intros m H; lia).
  destruct p.
  - cbn [path_disp]. destruct ((lo <=? norm2 r) && (norm2 r <=? hi)) eqn:E; [apply Hin; exact E | discriminate].
  - cbn [path_disp]. destruct ((lo <=? _) && (_ <=? hi)) eqn:E; [apply Hin; exact E|].
    destruct (on_boundary G B _); discriminate.
  - rewrite path_tric_cpp. unfold reductions in Hv. rewrite Ht in Hv. cbn [map] in Hv. apply best_code_single in Hv.
    unfold tric_on in Hv. cbn [rmode_of] in Hv.
    match type of Hv with (if ?c then _ else _) = 0 => destruct c eqn:E end; [apply Hin; exact E|].
    destruct (on_boundary G _ _); discriminate.
  - cbn [path_disp]. unfold reductions in Hv. rewrite Ht in Hv. cbn [map] in Hv. apply best_code_single in Hv.
    unfold tric_on in Hv. cbn [rmode_of snd] in Hv.
    match type of Hv with (if ?c then _ else _) = 0 => destruct c eqn:E end; [apply Hin; exact E|].
    destruct (on_boundary G _ _); discriminate.
  - cbn [path_disp]. unfold reductions in Hv. rewrite Ht in Hv. cbn [map] in Hv. apply best_code_single in Hv.
    unfold tric_on in Hv. cbn [rmode_of] in Hv.
    match type of Hv with (if ?c then _ else _) = 0 => destruct c eqn:E end; [apply Hin; exact E|].
    destruct (on_boundary G _ _); discriminate.
Qed.
