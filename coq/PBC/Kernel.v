(* C05 — the distance kernels AS LOOPS OVER FLAT BUFFERS, and the Python glue that calls them.
   Executable definitions only (no proofs): PBC/KernelProofs.v proves that they refine PBC/Model.v.

   What is modelled here that PBC/Model.v abstracts away (anchors relative to /repo/mdtraj/geometry):
     src/geometry.cpp  dist_mic_triclinic, dist_mic_triclinic_t
     src/kernels/distancekernels.h  dist / dist_mic / dist_t / dist_mic_t
        - const float* xyz / const int* pairs / const int* times / const float* box_matrix as FLAT buffers,
          every read  buf[off + k]  with the offsets the code computes (3*pairs[2*j+0], 3*n_atoms*times[2*i+0], ...);
          a read outside the buffer is an ERROR of the model ([None]): the theorems show it cannot happen after the
          index validation of distance.py
        - the frame loop  for (int i = 0; i < n_frames; i++)  with the pointer advances  xyz += n_atoms*3,
          box_matrix += 9, and in the _t variants  box_matrix += box_offset ... box_matrix -= box_offset
        - the pair loop, the output pointer  *distance_out = ...; distance_out++
        - the 27-image search as the three nested loops  for (int x = -1; x < 2; x++) ...  with ra, rb hoisted,
          min_dist2 = FLT_MAX (modelled as "no value yet"), min_r = r12, and the comparison dist2 <= min_dist2
     distance.py  _displacement_mic / _distance_mic(_t): the range(-1, 2) loops with v1, v12 hoisted, start value r12,
          "new_dist2 < dist2" resp. dist = min(dist, ...)
     distance.py  compute_displacements / compute_distances_core / compute_distances_t: index validation
          (np.logical_and(pairs < n_atoms, pairs >= 0)), early return for an empty pair list, shape check of the
          cell array, "periodic and have cell", orthogonality flag, box.transpose(0, 2, 1), opt switch.
   Float32 arithmetic is NOT modelled (numbers are integers in a common dyadic unit, as in PBC/Model.v). *)
From Coq Require Import ZArith List Bool.
Import ListNotations.
Require Import MD.PBC.Model.
Open Scope Z_scope.

(* ------------------------------------------------------------------ C loops and buffers *)
(* for (int x = lo; x < hi; x++) s = body x s; *)
Fixpoint for_fuel {S : Type} (fuel : nat) (x hi : Z) (body : Z -> S -> S) (s : S) : S :=
  match fuel with
  | O => s
  | Datatypes.S f => if x <? hi then for_fuel f (x + 1) hi body (body x s) else s
  end.
Definition for_z {S : Type} (lo hi : Z) (body : Z -> S -> S) (s : S) : S :=
  for_fuel (Z.to_nat (hi - lo)) lo hi body s.

Definition zrange (lo hi : Z) : list Z := map (fun k => lo + Z.of_nat k) (seq 0 (Z.to_nat (hi - lo))).

Definition buf := list Z.
Definition rd (b : buf) (i : Z) : option Z := if i <? 0 then None else nth_error b (Z.to_nat i).
Definition rd3 (b : buf) (i : Z) : option vec :=
  match rd b i, rd b (i + 1), rd b (i + 2) with
  | Some x, Some y, Some z => Some (x, y, z)
  | _, _, _ => None
  end.
(* fvec4 v(m[off+i], m[off+j], m[off+k], 0) *)
Definition rdv (b : buf) (off : Z) (idx : nat * nat * nat) : option vec :=
  match rd b (off + Z.of_nat (fst (fst idx))), rd b (off + Z.of_nat (snd (fst idx))), rd b (off + Z.of_nat (snd idx)) with
  | Some x, Some y, Some z => Some (x, y, z)
  | _, _, _ => None
  end.

(* row-major flattening done by the Cython glue (memoryviews of C-contiguous arrays) *)
Definition flat3 (f : frame) : buf := flat_map (fun v => [vx v; vy v; vz v]) f.
Definition flat_xyz (xyz : list frame) : buf := flat_map flat3 xyz.
Definition flat_pairs (pairs : list (Z * Z)) : buf := flat_map (fun p => [fst p; snd p]) pairs.
Definition flat_mats (ms : list mat) : buf := concat ms.

(* ------------------------------------------------------------------ constants of the index arithmetic
   (regenerated from the source text into Gen/PBCLoops.v and compared in PBC/KernelTie.v) *)
Definition xyz_stride : Z := 3.          (* int offset1 = 3*pairs[2*j + 0] *)
Definition pair_stride : Z := 2.
Definition box_stride : Z := 9.          (* box_matrix += 9;  box_offset = times[2*i + 0] * 9 *)
Definition image_lo : Z := -1.           (* for (int x = -1; x < 2; x++) *)
Definition image_hi : Z := 2.
Definition ortho_idx : nat * nat * nat := (0, 4, 8)%nat.

(* ------------------------------------------------------------------ the image search as written *)
(* state = (min_dist2, min_r); min_dist2 = None stands for FLT_MAX *)
Definition image_step (keep_last : bool) (rc : vec) (s : option Z * vec) : option Z * vec :=
  let d := norm2 rc in
  match fst s with
  | None => (Some d, rc)
  | Some m => if (if keep_last then d <=? m else d <? m) then (Some d, rc) else s
  end.

(* geometry.cpp: ra = r12 + box_vec1*x;  rb = ra + box_vec2*y;  rc = rb + box_vec3*z *)
Definition image_search_cpp (lo hi : Z) (b1 b2 b3 r12 : vec) : option Z * vec :=
  for_z lo hi (fun x s =>
    let ra := vadd r12 (vscale x b1) in
    for_z lo hi (fun y s =>
      let rb := vadd ra (vscale y b2) in
      for_z lo hi (fun z s =>
        let rc := vadd rb (vscale z b3) in
        image_step true rc s) s) s) (None, r12).

(* distance.py _displacement_mic: min_disp = r12; dist2 = (r12*r12).sum();
   v1 = bv1*ii;  v12 = bv2*jj + v1;  tmp = r12 + v12 + bv3*kk;  if new_dist2 < dist2: ... *)
Definition image_search_np (lo hi : Z) (b1 b2 b3 r12 : vec) : option Z * vec :=
  for_z lo hi (fun ii s =>
    let v1 := vscale ii b1 in
    for_z lo hi (fun jj s =>
      let v12 := vadd (vscale jj b2) v1 in
      for_z lo hi (fun kk s =>
        let tmp := vadd (vadd r12 v12) (vscale kk b3) in
        image_step false tmp s) s) s) (Some (norm2 r12), r12).

(* distance.py _distance_mic(_t): dist = norm(r12); ... dist = min(dist, norm(new_r12))  (squared here) *)
Definition image_min_np (lo hi : Z) (b1 b2 b3 r12 : vec) : Z :=
  for_z lo hi (fun ii d =>
    let v1 := vscale ii b1 in
    for_z lo hi (fun jj d =>
      let v12 := vadd (vscale jj b2) v1 in
      for_z lo hi (fun kk d =>
        Z.min d (norm2 (vadd (vadd r12 v12) (vscale kk b3)))) d) d) (norm2 r12).

(* ------------------------------------------------------------------ per-pair bodies *)
(* one output record per (frame, pair): (value stored through distance_out squared, value stored through
   displacement_out).  The C kernels fill one of the two arrays; both are kept here. *)
Definition outrec := (option Z * vec)%type.

Definition pair_plain (r12 : vec) : outrec := (Some (norm2 r12), r12).
Definition pair_ortho (rn : Z -> Z -> Z) (box_size : vec) (r12 : vec) : outrec :=
  let r := vsub r12 (vmul (vround rn r12 box_size) box_size) in (Some (norm2 r), r).
Definition pair_tric (rn : Z -> Z -> Z) (B' : box) (r12 : vec) : outrec :=
  image_search_cpp image_lo image_hi (ba B') (bb B') (bc B') (wrap rn B' r12).

(* ------------------------------------------------------------------ kernels over flat buffers *)
Inductive kkind := KPlain | KOrtho | KTric.

(* what the frame-level prologue loads from box_matrix (at offset boff) *)
Inductive kbox := BNone | BOrtho (box_size : vec) | BTric (reduced : box).
Definition load_box (k : kkind) (box : buf) (boff : Z) : option kbox :=
  match k with
  | KPlain => Some BNone
  | KOrtho => option_map BOrtho (rdv box boff ortho_idx)
  | KTric => match rdv box boff tric_idx1, rdv box boff tric_idx2, rdv box boff tric_idx3 with
             | Some v1, Some v2, Some v3 => Some (BTric (reduce rnd_haz (mkbox v1 v2 v3)))
             | _, _, _ => None
             end
  end.
Definition pair_body (kb : kbox) (r12 : vec) : outrec :=
  match kb with
  | BNone => pair_plain r12
  | BOrtho L => pair_ortho rnd_htz L r12
  | BTric B' => pair_tric rnd_haz B' r12
  end.

(* the pair loop: for (int j = 0; j < n_pairs; j++) { offset1 = ...; pos1(...); pos2(...); r12 = pos2-pos1; ...;
   *out = ...; out++; }   [base1]/[base2] are the offsets of the two frames inside xyz *)
Definition pair_loop (kb : kbox) (xyz pairs : buf) (base1 base2 n_pairs : Z) (out : option (list outrec))
  : option (list outrec) :=
  for_z 0 n_pairs (fun j out =>
    match out with
    | None => None
    | Some acc =>
        match rd pairs (pair_stride * j + 0), rd pairs (pair_stride * j + 1) with
        | Some p1, Some p2 =>
            match rd3 xyz (base1 + xyz_stride * p1), rd3 xyz (base2 + xyz_stride * p2) with
            | Some pos1, Some pos2 => Some (acc ++ [pair_body kb (vsub pos2 pos1)])
            | _, _ => None
            end
        | _, _ => None
        end
    end) out.

(* dist / dist_mic / dist_mic_triclinic: state = (xyz pointer, box_matrix pointer, output so far) *)
Definition kstate := (Z * Z * option (list outrec))%type.
Definition kernel_frames (k : kkind) (xyz pairs box : buf) (n_frames n_atoms n_pairs : Z) : option (list outrec) :=
  snd (for_z 0 n_frames (fun _ (st : kstate) =>
    let '(xoff, boff, out) := st in
    match load_box k box boff with
    | None => (xoff, boff, None)
    | Some kb =>
        let out' := pair_loop kb xyz pairs xoff xoff n_pairs out in
        (xoff + n_atoms * xyz_stride, (match k with KPlain => boff | _ => boff + box_stride end), out')
    end) (0, 0, Some [])).

(* dist_t / dist_mic_t / dist_mic_triclinic_t: box_offset = times[2*i+0]*9; box_matrix += box_offset; ...;
   time_offset1 = 3*n_atoms*times[2*i+0]; time_offset2 = 3*n_atoms*times[2*i+1]; ...; box_matrix -= box_offset *)
Definition kernel_times (k : kkind) (xyz pairs times box : buf) (n_times n_atoms n_pairs : Z) : option (list outrec) :=
  snd (for_z 0 n_times (fun i (st : Z * option (list outrec)) =>
    let '(boff, out) := st in
    match rd times (pair_stride * i + 0), rd times (pair_stride * i + 1) with
    | Some t1, Some t2 =>
        let box_offset := t1 * box_stride in
        let boff1 := boff + box_offset in
        match load_box k box boff1 with
        | None => (boff, None)
        | Some kb =>
            let out' := pair_loop kb xyz pairs (xyz_stride * n_atoms * t1) (xyz_stride * n_atoms * t2) n_pairs out in
            (boff1 - box_offset, out')
        end
    | _, _ => (boff, None)
    end) (0, Some [])).

(* ------------------------------------------------------------------ the numpy reference path with its loops *)
Definition np_pair (orthogonal : bool) (B : box) (r12 : vec) : outrec :=
  let B' := reduce rnd_hev B in
  let w := wrap rnd_hev B' r12 in
  if orthogonal then (Some (norm2 w), w)
  else image_search_np image_lo image_hi (ba B') (bb B') (bc B') w.
Definition np_pair_dist (orthogonal : bool) (B : box) (r12 : vec) : Z :=
  let B' := reduce rnd_hev B in
  let w := wrap rnd_hev B' r12 in
  if orthogonal then norm2 w else image_min_np image_lo image_hi (ba B') (bb B') (bc B') w.

(* bv1, bv2, bv3 = rows of box_vectors[i].T, where box_vectors = box.transpose(0, 2, 1) is what the caller hands over *)
Definition np_box (m : mat) : box :=
  kernel_box (0, 1, 2)%nat (3, 4, 5)%nat (6, 7, 8)%nat (transpose9 m).

(* ------------------------------------------------------------------ Python glue *)
Inductive pyerr := ValueError.
Inductive res (A : Type) := Err (e : pyerr) | Ok (shape : list Z) (data : A).
Arguments Err {A} e.
Arguments Ok {A} shape data.

(* np.all(np.logical_and(pairs < n, pairs >= 0)) *)
Definition valid_idx (n p : Z) : bool := (p <? n) && (p >=? 0).
Definition valid_pairs (n : Z) (pairs : list (Z * Z)) : bool :=
  forallb (fun p => valid_idx n (fst p) && valid_idx n (snd p)) pairs.

Definition zlen {A : Type} (l : list A) : Z := Z.of_nat (length l).
Definition to_natpair (p : Z * Z) : nat * nat := (Z.to_nat (fst p), Z.to_nat (snd p)).

Inductive api := ApiDisplacements | ApiDistancesCore | ApiDistancesT.

(* the kernel call made by the opt=True branches; the cell array is handed over as box.transpose(0,2,1).copy() *)
Definition call_kernel (k : kkind) (xyz : list frame) (boxes : list box) (pairs : list (Z * Z))
           (times : option (list (Z * Z))) (n_atoms : Z) : option (list outrec) :=
  let fx := flat_xyz xyz in
  let fp := flat_pairs pairs in
  let fb := flat_mats (map (fun B => transpose9 (box_to_mat B)) boxes) in
  match times with
  | None => kernel_frames k fx fp fb (zlen xyz) n_atoms (zlen pairs)
  | Some ts => kernel_times k fx fp (flat_pairs ts) fb (zlen ts) n_atoms (zlen pairs)
  end.

(* the opt=False branches: python loops over frames (or time pairs) and pairs.  Rows = (frame of atom 1, frame of
   atom 2); the cell is that of the first.  [None] marks an index error (IndexError in numpy), excluded by the
   validation; the pair list is non-empty when these functions are reached. *)
Definition rows_of (xyz : list frame) (times : option (list (Z * Z))) : list (nat * nat) :=
  match times with
  | None => map (fun i => (i, i)) (seq 0 (length xyz))
  | Some ts => map to_natpair ts
  end.
(* _distance_mic_t and _distance_t form xyz[t1, p1] - xyz[t2, p2]: the opposite sign *)
Definition np_sign (times : option (list (Z * Z))) (r : vec) : vec :=
  match times with None => r | Some _ => vneg r end.

Definition call_numpy (orthogonal : bool) (xyz : list frame) (boxes : list box) (pairs : list (Z * Z))
           (times : option (list (Z * Z))) : option (list outrec) :=
  opt_all (flat_map (fun t : nat * nat =>
    match nth_error xyz (fst t), nth_error xyz (snd t), nth_error boxes (fst t) with
    | Some f1, Some f2, Some B =>
        map (fun pr : Z * Z =>
          option_map (fun r => np_pair orthogonal (np_box (transpose9 (box_to_mat B))) (np_sign times r))
                     (sep f1 f2 (to_natpair pr))) pairs
    | _, _, _ => [None]
    end) (rows_of xyz times)).

Definition plain_numpy (xyz : list frame) (pairs : list (Z * Z)) (times : option (list (Z * Z)))
  : option (list outrec) :=
  opt_all (flat_map (fun t : nat * nat =>
    match nth_error xyz (fst t), nth_error xyz (snd t) with
    | Some f1, Some f2 =>
        map (fun pr : Z * Z => option_map (fun r => pair_plain (np_sign times r)) (sep f1 f2 (to_natpair pr))) pairs
    | _, _ => [None]
    end) (rows_of xyz times)).

(* compute_displacements / compute_distances_core / compute_distances_t, statement by statement:
     1. index validation (atoms; for _t also the frame indices)      -> ValueError
     2. empty pair list                                               -> zeros of the documented shape
     3. periodic and a cell is present: shape check of the cell array -> ValueError (only compute_distances_core can
        be handed a cell array of another length: a Trajectory keeps one cell per frame)
     4. orthogonal flag over ALL frames, opt switch, kernel call
   Data = one record per row (frame or time pair) and pair, row-major; None = the model's error (a kernel read
   outside its buffers) -- excluded by the theorems. *)
Definition api_call (a : api) (opt periodic : bool) (n_atoms : Z) (xyz : list frame) (boxes : option (list box))
           (pairs : list (Z * Z)) (times : list (Z * Z)) : res (option (list outrec)) :=
  let n_frames := zlen xyz in
  let tm := match a with ApiDistancesT => Some times | _ => None end in
  let n_rows := match a with ApiDistancesT => zlen times | _ => n_frames end in
  if negb (valid_pairs n_atoms pairs) then Err ValueError else
  if (match a with ApiDistancesT => negb (valid_pairs n_frames times) | _ => false end) then Err ValueError else
  if zlen pairs =? 0 then Ok (match a with ApiDisplacements => [n_rows; 0; 3] | _ => [n_rows; 0] end) (Some []) else
  let shape := match a with ApiDisplacements => [n_rows; zlen pairs; 3] | _ => [n_rows; zlen pairs] end in
  match periodic, boxes with
  | true, Some bs =>
      if negb (zlen bs =? n_frames) then Err ValueError else
      let orthogonal := forallb is_orthob bs in
      if opt then Ok shape (call_kernel (if orthogonal then KOrtho else KTric) xyz bs pairs tm n_atoms)
      else Ok shape (call_numpy orthogonal xyz bs pairs tm)
  | _, _ =>
      if opt then Ok shape (call_kernel KPlain xyz [] pairs tm n_atoms)
      else Ok shape (plain_numpy xyz pairs tm)
  end.

(* ------------------------------------------------------------------ loop skeleton of a kernel, as data
   The translator (harness/props/C05.py) reads these facts off the C source text on every run and writes them to
   Gen/PBCLoops.v; PBC/KernelTie.v proves them equal to [skel_of], which is built from the constants the loops
   above use.  Counts are named by their POSITION among the last three int parameters of the C function
   (rows = n_frames / n_times, atoms, pairs). *)
Inductive kcount := CRows | CAtoms | CPairs.
(* an index expression  m * [n_atoms *] arr[stride*v + add] *)
Record kindex := mk_kindex { ix_mult : Z; ix_natoms : bool; ix_stride : Z; ix_add : Z }.
Record kskel := mk_kskel {
  sk_outer : Z * kcount;                    (* for (int i = 0; i < rows; i++) *)
  sk_inner : Z * kcount;                    (* for (int j = 0; j < pairs; j++) *)
  sk_pair_off : kindex * kindex;            (* offsets of the two atoms inside a frame, from pairs[] *)
  sk_time_off : option (kindex * kindex);   (* _t: offsets of the two frames inside xyz, from times[] *)
  sk_xyz_adv : option (Z * bool);           (* xyz += n_atoms*3 after the pair loop: (3, uses n_atoms) *)
  sk_box_adv : option Z;                    (* box_matrix += 9 after the pair loop *)
  sk_box_off : option (kindex * bool * bool); (* _t: box_offset = times[2*i+0]*9; += before the loads; -= after the pair loop *)
  sk_image : option ((Z * Z) * (Z * Z) * (Z * Z));  (* the x, y, z image loops, x outermost *)
  sk_stores : list nat * nat                (* temp[k] stored through displacement_out++ in this order; number of distance_out++ *)
}.
Definition skel_of (k : kkind) (timed : bool) : kskel :=
  mk_kskel (0, CRows) (0, CPairs)
    (mk_kindex xyz_stride false pair_stride 0, mk_kindex xyz_stride false pair_stride 1)
    (if timed then Some (mk_kindex xyz_stride true pair_stride 0, mk_kindex xyz_stride true pair_stride 1) else None)
    (if timed then None else Some (xyz_stride, true))
    (match k, timed with KPlain, _ => None | _, true => None | _, false => Some box_stride end)
    (match k, timed with KPlain, _ => None | _, false => None
                       | _, true => Some (mk_kindex box_stride false pair_stride 0, true, true) end)
    (match k with KTric => Some ((image_lo, image_hi), (image_lo, image_hi), (image_lo, image_hi)) | _ => None end)
    ([0; 1; 2]%nat, 1%nat).

(* distance.py, API level: order of the top-level steps, shape of the empty result *)
Inductive gstep := GValidatePairs | GValidateTimes | GEmptyReturn | GPeriodicBranch | GPlainBranch.
Inductive gdim := DLenXyz | DLenTimes | DLit (z : Z).
Definition api_steps (a : api) : list gstep :=
  match a with
  | ApiDistancesT => [GValidatePairs; GValidateTimes; GEmptyReturn; GPeriodicBranch; GPlainBranch]
  | _ => [GValidatePairs; GEmptyReturn; GPeriodicBranch; GPlainBranch]
  end.
Definition api_empty_shape (a : api) : list gdim :=
  match a with
  | ApiDisplacements => [DLenXyz; DLit 0; DLit 3]
  | ApiDistancesCore => [DLenXyz; DLit 0]
  | ApiDistancesT => [DLenTimes; DLit 0]
  end.
Definition gdim_val (n_frames n_times : Z) (d : gdim) : Z :=
  match d with DLenXyz => n_frames | DLenTimes => n_times | DLit z => z end.
(* _is_orthorhombic: the (row, column) entries of the box matrix that must all be zero *)
Definition offdiag_zero (B : box) (ij : nat * nat) : bool := mget (box_to_mat B) (3 * fst ij + snd ij) =? 0.
