(* Executable model of mdtraj's minimum-image distance/displacement code (C05; reused by C09).
   No proofs in this file (DESIGN.md section 1).

   Everything is over Z: float32 coordinates and box entries are dyadic rationals, so all numbers of
   one case are integers in a common unit 2^-k.  Distances are squared norms; no sqrt.
   Float32 rounding inside the kernels is NOT modelled (the correspondence bounds it).

   Anchors (paths relative to /repo/mdtraj/geometry):
     src/kernels/distancekernels.h  dist, dist_mic, dist_t, dist_mic_t      -> mic_ortho (diagonal only)
     include/vectorize_sse.h        _mm_round_ps2 (ties go TOWARD zero)       -> rnd_htz
     src/geometry.cpp               dist_mic_triclinic(_t): reduce, wrap c,b,a, 27 images, "<=" keeps the last
                                                                            -> reduce, wrap, cands, argmin_last
                                    roundf / round(float): ties away from zero -> rnd_haz
                                    find_closest_contact: floorf(x+0.5f) wrap on the UNREDUCED box, no search
                                                                            -> rnd_hup, fcc_disp
     distance.py                    _reduce_box_vectors, _distance_mic, _displacement_mic (python round():
                                    ties to even; "<" keeps the first, start value = the wrapped vector)
                                                                            -> rnd_hev, argmin_first
                                    compute_distances_core / compute_displacements / compute_distances_t:
                                    orthogonality dispatch over ALL frames, box.transpose(0,2,1)
                                                                            -> dispatch, kernel_box *)
From Coq Require Import ZArith List Bool.
Import ListNotations.
Open Scope Z_scope.

(* ------------------------------------------------------------------ vectors *)
Definition vec := (Z * Z * Z)%type.
Definition vx (v : vec) : Z := fst (fst v).
Definition vy (v : vec) : Z := snd (fst v).
Definition vz (v : vec) : Z := snd v.
Definition vadd (u v : vec) : vec := (vx u + vx v, vy u + vy v, vz u + vz v).
Definition vsub (u v : vec) : vec := (vx u - vx v, vy u - vy v, vz u - vz v).
Definition vscale (k : Z) (v : vec) : vec := (k * vx v, k * vy v, k * vz v).
Definition vneg (v : vec) : vec := (- vx v, - vy v, - vz v).
Definition dot (u v : vec) : Z := vx u * vx v + vy u * vy v + vz u * vz v.
Definition norm2 (v : vec) : Z := dot v v.
Definition cross (u v : vec) : vec :=
  (vy u * vz v - vz u * vy v, vz u * vx v - vx u * vz v, vx u * vy v - vy u * vx v).
Definition vzero : vec := (0, 0, 0).
(* component i = 0,1,2 (as in the C source: v[i]) *)
Definition vget (v : vec) (i : nat) : Z := match i with O => vx v | S O => vy v | _ => vz v end.
(* componentwise product and componentwise rounding (fvec4 arithmetic of the orthorhombic kernel) *)
Definition vmul (u v : vec) : vec := (vx u * vx v, vy u * vy v, vz u * vz v).
Definition vround (rn : Z -> Z -> Z) (u d : vec) : vec := (rn (vx u) (vx d), rn (vy u) (vy d), rn (vz u) (vz d)).
Definition vec_eqb (u v : vec) : bool := (vx u =? vx v) && (vy u =? vy v) && (vz u =? vz v).

(* a cell: the three rows of unitcell_vectors[i] *)
Record box := mkbox { ba : vec; bb : vec; bc : vec }.

(* integer combination n_x a + n_y b + n_z c *)
Definition comb (B : box) (n : vec) : vec :=
  vadd (vadd (vscale (vx n) (ba B)) (vscale (vy n) (bb B))) (vscale (vz n) (bc B)).

Definition diag_posb (B : box) : bool := (0 <? vx (ba B)) && (0 <? vy (bb B)) && (0 <? vz (bc B)).
Definition lower_trib (B : box) : bool := (vy (ba B) =? 0) && (vz (ba B) =? 0) && (vz (bb B) =? 0).
Definition is_orthob (B : box) : bool :=
  lower_trib B && (vx (bb B) =? 0) && (vx (bc B) =? 0) && (vy (bc B) =? 0).

(* ------------------------------------------------------------------ rounding of n/d, d > 0 *)
(* C roundf / round: ties away from zero *)
Definition rnd_haz (n d : Z) : Z :=
  if 0 <=? n then (2 * n + d) / (2 * d) else - ((2 * (- n) + d) / (2 * d)).
(* floorf(x + 0.5f): ties up *)
Definition rnd_hup (n d : Z) : Z := (2 * n + d) / (2 * d).
(* vectorize_sse.h _mm_round_ps2: trunc(a) + trunc(frac(a) * 1.99999988): ties toward zero *)
Definition rnd_htz (n d : Z) : Z :=
  if 0 <=? n then (2 * n + d - 1) / (2 * d) else - ((2 * (- n) + d - 1) / (2 * d)).
(* python round() on a numpy float32 scalar: ties to even *)
Definition rnd_hev (n d : Z) : Z :=
  let q := (2 * n + d) / (2 * d) in
  if ((2 * n + d) mod (2 * d) =? 0) && Z.odd q then q - 1 else q.

Inductive rmode := Haz | Hup | Htz | Hev.
Definition rnd (m : rmode) : Z -> Z -> Z :=
  match m with Haz => rnd_haz | Hup => rnd_hup | Htz => rnd_htz | Hev => rnd_hev end.

(* ------------------------------------------------------------------ orthorhombic kernel *)
(* distancekernels.h: r12 -= round(r12*inv_box_size)*box_size with box_size = the DIAGONAL of the matrix *)
Definition mic1 (rn : Z -> Z -> Z) (r L : Z) : Z := r - rn r L * L.
Definition mic_ortho (rn : Z -> Z -> Z) (B : box) (r : vec) : vec :=
  (mic1 rn (vx r) (vx (ba B)), mic1 rn (vy r) (vy (bb B)), mic1 rn (vz r) (vz (bc B))).
Definition mic_ortho_coef (rn : Z -> Z -> Z) (B : box) (r : vec) : vec :=
  (- rn (vx r) (vx (ba B)), - rn (vy r) (vy (bb B)), - rn (vz r) (vz (bc B))).

(* ------------------------------------------------------------------ triclinic kernel *)
(* box_vec3 -= box_vec2*roundf(box_vec3[1]/box_vec2[1]);
   box_vec3 -= box_vec1*roundf(box_vec3[0]/box_vec1[0]);
   box_vec2 -= box_vec1*roundf(box_vec2[0]/box_vec1[0]); *)
Definition reduce (rn : Z -> Z -> Z) (B : box) : box :=
  let c1 := vsub (bc B) (vscale (rn (vy (bc B)) (vy (bb B))) (bb B)) in
  let c2 := vsub c1 (vscale (rn (vx c1) (vx (ba B))) (ba B)) in
  let b1 := vsub (bb B) (vscale (rn (vx (bb B)) (vx (ba B))) (ba B)) in
  mkbox (ba B) b1 c2.

(* the three multipliers (m1, m2, m3) of the reduction: c' = c - m1 b - m2 a, b' = b - m3 a *)
Definition reduce_mult (rn : Z -> Z -> Z) (B : box) : vec :=
  let m1 := rn (vy (bc B)) (vy (bb B)) in
  let c1 := vsub (bc B) (vscale m1 (bb B)) in
  (m1, rn (vx c1) (vx (ba B)), rn (vx (bb B)) (vx (ba B))).

(* coefficients w.r.t. the reduced box -> coefficients w.r.t. the original box *)
Definition to_orig (m : vec) (n : vec) : vec :=
  (vx n - vy n * vz m - vz n * vy m, vy n - vz n * vx m, vz n).

(* r12 -= box_vec3*round(r12[2]*recip_box_size[2]); then box_vec2 / [1]; then box_vec1 / [0] *)
Definition wrap (rn : Z -> Z -> Z) (B : box) (r : vec) : vec :=
  let r1 := vsub r (vscale (rn (vz r) (vz (bc B))) (bc B)) in
  let r2 := vsub r1 (vscale (rn (vy r1) (vy (bb B))) (bb B)) in
  vsub r2 (vscale (rn (vx r2) (vx (ba B))) (ba B)).
Definition wrap_coef (rn : Z -> Z -> Z) (B : box) (r : vec) : vec :=
  let k3 := rn (vz r) (vz (bc B)) in
  let r1 := vsub r (vscale k3 (bc B)) in
  let k2 := rn (vy r1) (vy (bb B)) in
  let r2 := vsub r1 (vscale k2 (bb B)) in
  (- rn (vx r2) (vx (ba B)), - k2, - k3).

(* the 27 candidates in loop order x, y, z = -1, 0, 1 (x outermost) *)
Definition offs : list Z := [-1; 0; 1].
Definition offsets27 : list vec :=
  flat_map (fun x => flat_map (fun y => map (fun z => (x, y, z)) offs) offs) offs.
Definition cand (B : box) (w : vec) (o : vec) : vec * vec :=
  (o, vadd (vadd (vadd w (vscale (vx o) (ba B))) (vscale (vy o) (bb B))) (vscale (vz o) (bc B))).
Definition cands (B : box) (w : vec) : list (vec * vec) := map (cand B w) offsets27.

(* C++: min_dist2 = FLT_MAX; if (dist2 <= min_dist2) take it  ->  the LAST of equal minima *)
Definition step_last (best : option (vec * vec)) (c : vec * vec) : option (vec * vec) :=
  match best with
  | None => Some c
  | Some b => if norm2 (snd c) <=? norm2 (snd b) then Some c else Some b
  end.
Definition argmin_last (l : list (vec * vec)) : option (vec * vec) := fold_left step_last l None.

(* numpy _displacement_mic: start from the wrapped vector, if new_dist2 < dist2 take it -> the FIRST *)
Definition step_first (b c : vec * vec) : vec * vec := if norm2 (snd c) <? norm2 (snd b) then c else b.
Definition argmin_first (init : vec * vec) (l : list (vec * vec)) : vec * vec := fold_left step_first l init.

(* dist_mic_triclinic: (offset of the chosen image, displacement) *)
Definition tric_last (rn : Z -> Z -> Z) (B : box) (r : vec) : vec * vec :=
  let B' := reduce rn B in
  let w := wrap rn B' r in
  match argmin_last (cands B' w) with Some c => c | None => (vzero, w) end.
Definition tric_first (rn : Z -> Z -> Z) (B : box) (r : vec) : vec * vec :=
  let B' := reduce rn B in
  let w := wrap rn B' r in
  argmin_first (vzero, w) (cands B' w).

(* lattice shift (coefficients of a, b, c of the ORIGINAL box) applied by the triclinic code *)
Definition tric_coef (rn : Z -> Z -> Z) (B : box) (r : vec) (o : vec) : vec :=
  to_orig (reduce_mult rn B) (vadd (wrap_coef rn (reduce rn B) r) o).

(* _distance_mic/_displacement_mic with orthogonal=True: reduce + wrap, no image search *)
Definition np_ortho (B : box) (r : vec) : vec := wrap rnd_hev (reduce rnd_hev B) r.
Definition np_ortho_coef (B : box) (r : vec) : vec :=
  to_orig (reduce_mult rnd_hev B) (wrap_coef rnd_hev (reduce rnd_hev B) r).

(* find_closest_contact: delta = pos1 - pos2, wrap with floorf(x+0.5f) on the box as given *)
Definition fcc_disp (B : box) (delta : vec) : vec := wrap rnd_hup B delta.

(* ------------------------------------------------------------------ dispatch, transposes *)
Inductive path := PPlain | POrthoSSE | PTricCpp | POrthoNp | PTricNp.

Definition dispatch (opt periodic : bool) (boxes : option (list box)) : path :=
  match periodic, boxes with
  | true, Some bs =>
      let o := forallb is_orthob bs in
      if opt then (if o then POrthoSSE else PTricCpp) else (if o then POrthoNp else PTricNp)
  | _, _ => PPlain
  end.

(* distance.py hands box.transpose(0,2,1) to the kernels; the triclinic kernel reads
   box_vec1 = (m[0], m[3], m[6]) ..., the orthorhombic one m[0], m[4], m[8] *)
Definition mat := list Z.
Definition box_to_mat (B : box) : mat :=
  [vx (ba B); vy (ba B); vz (ba B); vx (bb B); vy (bb B); vz (bb B); vx (bc B); vy (bc B); vz (bc B)].
Definition mget (m : mat) (i : nat) : Z := nth i m 0.
Definition transpose9 (m : mat) : mat :=
  [mget m 0; mget m 3; mget m 6; mget m 1; mget m 4; mget m 7; mget m 2; mget m 5; mget m 8].
Definition kernel_box (idx1 idx2 idx3 : nat * nat * nat) (m : mat) : box :=
  let g i := (mget m (fst (fst i)), mget m (snd (fst i)), mget m (snd i)) in
  mkbox (g idx1) (g idx2) (g idx3).
(* index triples as written in geometry.cpp (regenerated in Gen/PBCFormulas.v and compared) *)
Definition tric_idx1 : nat * nat * nat := (0, 3, 6)%nat.
Definition tric_idx2 : nat * nat * nat := (1, 4, 7)%nat.
Definition tric_idx3 : nat * nat * nat := (2, 5, 8)%nat.

(* displacement and lattice shift reported for one separation r = pos2 - pos1 *)
Definition path_disp (p : path) (B : box) (r : vec) : vec :=
  match p with
  | PPlain => r
  | POrthoSSE => mic_ortho rnd_htz B r
  | PTricCpp => snd (tric_last rnd_haz (kernel_box tric_idx1 tric_idx2 tric_idx3 (transpose9 (box_to_mat B))) r)
  | POrthoNp => np_ortho B r
  | PTricNp => snd (tric_first rnd_hev B r)
  end.
Definition path_coef (p : path) (B : box) (r : vec) : vec :=
  match p with
  | PPlain => vzero
  | POrthoSSE => mic_ortho_coef rnd_htz B r
  | PTricCpp => tric_coef rnd_haz B r (fst (tric_last rnd_haz B r))
  | POrthoNp => np_ortho_coef B r
  | PTricNp => tric_coef rnd_hev B r (fst (tric_first rnd_hev B r))
  end.

(* ------------------------------------------------------------------ trajectory level *)
Definition frame := list vec.

Definition sep (f1 f2 : frame) (p : nat * nat) : option vec :=
  match nth_error f1 (fst p), nth_error f2 (snd p) with
  | Some x1, Some x2 => Some (vsub x2 x1)
  | _, _ => None
  end.

Fixpoint opt_all {A : Type} (l : list (option A)) : option (list A) :=
  match l with
  | [] => Some []
  | None :: _ => None
  | Some x :: r => match opt_all r with Some r' => Some (x :: r') | None => None end
  end.

Definition box_at (boxes : option (list box)) (i : nat) : option box :=
  match boxes with
  | None => Some (mkbox vzero vzero vzero)       (* unused by PPlain *)
  | Some bs => nth_error bs i
  end.

Definition box_ok (p : path) (B : box) : bool :=
  match p with PPlain => true | _ => diag_posb B end.

(* compute_displacements: one list of displacements per frame; None = an index is out of range
   (ValueError in the implementation) or a cell has a non-positive diagonal entry (division by
   zero / undefined behaviour in the kernels: outside the model) *)
Definition displacements (opt periodic : bool) (xyz : list frame) (boxes : option (list box))
           (pairs : list (nat * nat)) : option (list (list vec)) :=
  let p := dispatch opt periodic boxes in
  opt_all (map (fun fi : nat * frame =>
    match box_at boxes (fst fi) with
    | None => None
    | Some B => if box_ok p B
                then opt_all (map (fun pr => option_map (path_disp p B) (sep (snd fi) (snd fi) pr)) pairs)
                else None
    end) (combine (seq 0 (length xyz)) xyz)).

(* compute_distances_t: atom pair (p1,p2) x time pair (t1,t2): r = xyz[t2][p2] - xyz[t1][p1],
   cell of frame t1 (the numpy path uses the opposite sign of r; irrelevant for the norm) *)
Definition displacements_t (opt periodic : bool) (xyz : list frame) (boxes : option (list box))
           (pairs : list (nat * nat)) (times : list (nat * nat)) : option (list (list vec)) :=
  let p := dispatch opt periodic boxes in
  opt_all (map (fun t : nat * nat =>
    match nth_error xyz (fst t), nth_error xyz (snd t), box_at boxes (fst t) with
    | Some f1, Some f2, Some B =>
        if box_ok p B
        then opt_all (map (fun pr => option_map (fun r => path_disp p B (if opt then r else vneg r))
                                                (sep f1 f2 pr)) pairs)
        else None
    | _, _, _ => None
    end) times).
