(* Rounding lemmas for the four rounding modes of the minimum-image code (C05). *)
From Coq Require Import ZArith List Bool Lia ZifyBool.
Require Import MD.PBC.Model.
Open Scope Z_scope.

(* what the proofs need from a rounding function: the remainder is at most half the divisor *)
Definition is_rounding (rn : Z -> Z -> Z) : Prop :=
  forall n d, 0 < d -> 2 * Z.abs (n - rn n d * d) <= d.

Lemma div_half_up n d : 0 < d ->
  let q := (2 * n + d) / (2 * d) in - d <= 2 * (n - q * d) - 0 /\ 2 * (n - q * d) < d + 0 /\ - d <= 2 * (n - q * d).
Proof.
  intros Hd q. subst q.
  pose proof (Z.div_mod (2 * n + d) (2 * d) ltac:(lia)) as E.
  pose proof (Z.mod_pos_bound (2 * n + d) (2 * d) ltac:(lia)) as Bd.
  set (q := (2 * n + d) / (2 * d)) in *. set (m := (2 * n + d) mod (2 * d)) in *.
  assert (E' : 2 * n + d = 2 * (q * d) + m) by lia.
  lia.
Qed.

Lemma rnd_hup_rounding : is_rounding rnd_hup.
Proof.
  intros n d Hd. unfold rnd_hup. pose proof (div_half_up n d Hd) as H. cbv zeta in H. lia.
Qed.

Lemma rnd_haz_rounding : is_rounding rnd_haz.
Proof.
  intros n d Hd. unfold rnd_haz. destruct (0 <=? n) eqn:E.
  - pose proof (div_half_up n d Hd) as H. cbv zeta in H. lia.
  - pose proof (div_half_up (- n) d Hd) as H. cbv zeta in H.
    set (q := (2 * - n + d) / (2 * d)) in *.
    replace (n - - q * d) with (- (- n - q * d)) by lia. lia.
Qed.

Lemma div_half_down n d : 0 < d ->
  let q := (2 * n + d - 1) / (2 * d) in - d < 2 * (n - q * d) /\ 2 * (n - q * d) <= d.
Proof.
  intros Hd q. subst q.
  pose proof (Z.div_mod (2 * n + d - 1) (2 * d) ltac:(lia)) as E.
  pose proof (Z.mod_pos_bound (2 * n + d - 1) (2 * d) ltac:(lia)) as Bd.
  set (q := (2 * n + d - 1) / (2 * d)) in *. set (m := (2 * n + d - 1) mod (2 * d)) in *.
  assert (E' : 2 * n + d - 1 = 2 * (q * d) + m) by lia.
  lia.
Qed.

Lemma rnd_htz_rounding : is_rounding rnd_htz.
Proof.
  intros n d Hd. unfold rnd_htz. destruct (0 <=? n) eqn:E.
  - pose proof (div_half_down n d Hd) as H. cbv zeta in H. lia.
  - pose proof (div_half_down (- n) d Hd) as H. cbv zeta in H.
    set (q := (2 * - n + d - 1) / (2 * d)) in *.
    replace (n - - q * d) with (- (- n - q * d)) by lia. lia.
Qed.

Lemma rnd_hev_rounding : is_rounding rnd_hev.
Proof.
  intros n d Hd. unfold rnd_hev.
  pose proof (Z.div_mod (2 * n + d) (2 * d) ltac:(lia)) as E.
  pose proof (Z.mod_pos_bound (2 * n + d) (2 * d) ltac:(lia)) as Bd.
  set (q := (2 * n + d) / (2 * d)) in *. set (m := (2 * n + d) mod (2 * d)) in *.
  assert (E' : 2 * n + d = 2 * (q * d) + m) by lia.
  destruct ((m =? 0) && Z.odd q) eqn:T.
  - apply andb_true_iff in T. destruct T as [T _]. apply Z.eqb_eq in T.
    replace (n - (q - 1) * d) with (n - q * d + d) by lia. lia.
  - lia.
Qed.

Lemma rnd_rounding m : is_rounding (rnd m).
Proof.
  destruct m; [exact rnd_haz_rounding | exact rnd_hup_rounding | exact rnd_htz_rounding | exact rnd_hev_rounding].
Qed.

(* two quotients whose remainders are at most half, one of them strictly, coincide *)
Lemma quot_unique n d q1 q2 : 0 < d ->
  2 * Z.abs (n - q1 * d) < d -> 2 * Z.abs (n - q2 * d) <= d -> q1 = q2.
Proof.
  intros Hd H1 H2.
  assert (H : Z.abs ((q2 - q1) * d) < d) by lia.
  destruct (Z.eq_dec q1 q2) as [|Hne]; [assumption|exfalso].
  assert (1 <= Z.abs (q2 - q1)) by lia.
  rewrite Z.abs_mul in H. rewrite (Z.abs_eq d) in H by lia. nia.
Qed.

(* one axis: the remainder is the smallest among all images *)
Lemma mic1_min rn r L k : is_rounding rn -> 0 < L ->
  mic1 rn r L * mic1 rn r L <= (r - k * L) * (r - k * L).
Proof.
  intros Hr HL. unfold mic1. pose proof (Hr r L HL) as H.
  set (q := rn r L) in *. set (e := r - q * L) in *.
  replace (r - k * L) with (e + (q - k) * L) by (unfold e; ring).
  set (j := q - k).
  destruct (Z.eq_dec j 0) as [->|Hj]; [lia|].
  assert (Hj1 : 1 <= Z.abs j) by lia.
  assert (Hl : L <= Z.abs (j * L)) by (rewrite Z.abs_mul, (Z.abs_eq L) by lia; nia).
  assert (Ha : Z.abs e <= Z.abs (e + j * L)) by lia.
  rewrite <- (Z.abs_square e), <- (Z.abs_square (e + j * L)).
  apply Z.square_le_mono_nonneg; lia.
Qed.

Lemma sq_lt_abs x a : 0 < a -> 4 * (x * x) < a * a -> 2 * Z.abs x < a.
Proof.
  intros Ha H. destruct (Z_lt_le_dec (2 * Z.abs x) a) as [|Hc]; [assumption|exfalso].
  assert (a * a <= (2 * Z.abs x) * (2 * Z.abs x)) by (apply Z.square_le_mono_nonneg; lia).
  pose proof (Z.abs_square x). nia.
Qed.
