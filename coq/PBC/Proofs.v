(* Theorems about the minimum-image model (C05).  All over Z, closed under the global context. *)
From Coq Require Import ZArith List Bool Lia ZifyBool.
Import ListNotations.
Require Import MD.PBC.Model MD.PBC.Rounding.
Open Scope Z_scope.

(* ------------------------------------------------------------------ vocabulary *)
Definition lower_tri_pos (B : box) : Prop := lower_trib B = true /\ diag_posb B = true.
Definition ortho_pos (B : box) : Prop := is_orthob B = true /\ diag_posb B = true.

(* the region the sequential wrap maps into: |x| <= ax/2, |y| <= by/2, |z| <= cz/2 *)
Definition in_region (B : box) (w : vec) : Prop :=
  2 * Z.abs (vx w) <= vx (ba B) /\ 2 * Z.abs (vy w) <= vy (bb B) /\ 2 * Z.abs (vz w) <= vz (bc B).
Definition strict_region (B : box) (w : vec) : Prop :=
  2 * Z.abs (vx w) < vx (ba B) /\ 2 * Z.abs (vy w) < vy (bb B) /\ 2 * Z.abs (vz w) < vz (bc B).

(* v is an image of the separation r in the cell B *)
Definition image_of (B : box) (r v : vec) : Prop := exists n, v = vadd r (comb B n).

(* cell volume and the three cell widths V/|b x c|, V/|c x a|, V/|a x b| (compared as squares) *)
Definition vol (B : box) : Z := dot (ba B) (cross (bb B) (bc B)).
Definition below_half_widths (B : box) (v : vec) : Prop :=
  4 * norm2 v * norm2 (cross (bb B) (bc B)) < vol B * vol B /\
  4 * norm2 v * norm2 (cross (bc B) (ba B)) < vol B * vol B /\
  4 * norm2 v * norm2 (cross (ba B) (bb B)) < vol B * vol B.

Lemma vec_ext (u v : vec) : vx u = vx v -> vy u = vy v -> vz u = vz v -> u = v.
Proof. destruct u as [[? ?] ?], v as [[? ?] ?]. cbn. intros -> -> ->. reflexivity. Qed.

Ltac dall :=
  repeat match goal with
         | B : box |- _ => destruct B as [? ? ?]
         | v : vec |- _ => destruct v as [[? ?] ?]
         end.
Ltac vunf :=
  unfold lower_tri_pos, ortho_pos, in_region, strict_region, is_orthob, lower_trib, diag_posb, comb, vadd, vsub,
         vscale, vneg, vzero, norm2, dot, cross, vx, vy, vz in *;
  cbn [ba bb bc fst snd] in *.
Ltac veq := apply vec_ext; vunf; ring.

(* ------------------------------------------------------------------ algebra of comb *)
Lemma comb_add B n m : comb B (vadd n m) = vadd (comb B n) (comb B m).
Proof. dall. veq. Qed.

Lemma comb_zero B : comb B vzero = vzero.
Proof. dall. veq. Qed.

Lemma vadd_zero v : vadd v vzero = v.
Proof. dall. veq. Qed.

Lemma vadd_assoc u v w : vadd (vadd u v) w = vadd u (vadd v w).
Proof. dall. veq. Qed.

(* ------------------------------------------------------------------ orthorhombic kernel *)
Lemma ortho_congruent rn B r : ortho_pos B -> mic_ortho rn B r = vadd r (comb B (mic_ortho_coef rn B r)).
Proof.
  intros [Ho _]. unfold mic_ortho, mic_ortho_coef, mic1. dall. vunf.
  repeat (apply andb_true_iff in Ho; destruct Ho as [Ho ?]).
  repeat match goal with H : (_ =? _) = true |- _ => apply Z.eqb_eq in H; subst end.
  apply vec_ext; vunf; ring.
Qed.

Lemma ortho_min_scalar rn rx ry rz ax by_ cz i j k : is_rounding rn -> 0 < ax -> 0 < by_ -> 0 < cz ->
  mic1 rn rx ax * mic1 rn rx ax + mic1 rn ry by_ * mic1 rn ry by_ + mic1 rn rz cz * mic1 rn rz cz <=
  (rx + i * ax) * (rx + i * ax) + (ry + j * by_) * (ry + j * by_) + (rz + k * cz) * (rz + k * cz).
Proof.
  intros Hr Ha Hb Hc.
  pose proof (mic1_min rn rx ax (- i) Hr Ha) as H1.
  pose proof (mic1_min rn ry by_ (- j) Hr Hb) as H2.
  pose proof (mic1_min rn rz cz (- k) Hr Hc) as H3.
  replace (rx - - i * ax) with (rx + i * ax) in H1 by ring.
  replace (ry - - j * by_) with (ry + j * by_) in H2 by ring.
  replace (rz - - k * cz) with (rz + k * cz) in H3 by ring.
  lia.
Qed.

Ltac bools :=
  repeat match goal with
         | H : (_ && _) = true |- _ => apply andb_true_iff in H; destruct H
         | H : (_ =? _) = true |- _ => apply Z.eqb_eq in H
         | H : (_ <? _) = true |- _ => apply Z.ltb_lt in H
         end.

Lemma ortho_minimal rn B r n : is_rounding rn -> ortho_pos B ->
  norm2 (mic_ortho rn B r) <= norm2 (vadd r (comb B n)).
Proof.
  intros Hr [Ho Hd]. unfold mic_ortho. dall. vunf. bools. subst.
  lazymatch goal with |- _ <= (_ + (?i * _ + ?j * 0 + ?k * 0)) * _ + _ + _ =>
    etransitivity; [apply (ortho_min_scalar rn _ _ _ _ _ _ i j k); eassumption|] end.
  apply Z.eq_le_incl. ring.
Qed.

(* ------------------------------------------------------------------ box reduction *)
(* coefficients w.r.t. the original box -> coefficients w.r.t. the reduced box *)
Definition from_orig (m : vec) (n : vec) : vec :=
  (vx n + vy n * vz m + vz n * (vx m * vz m + vy m), vy n + vz n * vx m, vz n).

Lemma reduce_comb rn B n : comb (reduce rn B) n = comb B (to_orig (reduce_mult rn B) n).
Proof. unfold reduce, reduce_mult, to_orig. dall. veq. Qed.

Lemma reduce_comb_inv rn B n : comb B n = comb (reduce rn B) (from_orig (reduce_mult rn B) n).
Proof. unfold reduce, reduce_mult, from_orig. dall. veq. Qed.

(* the reduced box spans the same lattice *)
Lemma reduce_same_lattice rn B v :
  (exists n, v = comb B n) <-> (exists n, v = comb (reduce rn B) n).
Proof.
  split; intros [n ->].
  - eexists. apply reduce_comb_inv.
  - eexists. apply reduce_comb.
Qed.

Lemma reduce_keeps_shape rn B : lower_tri_pos B ->
  lower_tri_pos (reduce rn B) /\
  vx (ba (reduce rn B)) = vx (ba B) /\ vy (bb (reduce rn B)) = vy (bb B) /\ vz (bc (reduce rn B)) = vz (bc B).
Proof.
  intros [Hl Hd]. unfold reduce. dall. vunf. bools. subst.
  repeat split; try lia.
Qed.

(* after the reduction c_y, c_x and b_x are at most half of b_y, a_x, a_x *)
Lemma reduce_reduced rn B : is_rounding rn -> lower_tri_pos B ->
  let B' := reduce rn B in
  2 * Z.abs (vy (bc B')) <= vy (bb B') /\ 2 * Z.abs (vx (bc B')) <= vx (ba B') /\ 2 * Z.abs (vx (bb B')) <= vx (ba B').
Proof.
  intros Hr [Hl Hd]. unfold reduce. dall. vunf. bools. subst.
  match goal with |- context [rn ?n ?d * _] => idtac end.
  repeat split.
  - match goal with |- 2 * Z.abs (?cy - ?m * ?by_ - _ * 0) <= ?by_ - _ * 0 =>
      pose proof (Hr cy by_ ltac:(lia)) end. lia.
  - match goal with |- 2 * Z.abs (?c1 - rn ?c1 ?ax * ?ax) <= ?ax => pose proof (Hr c1 ax ltac:(lia)) end. lia.
  - match goal with |- 2 * Z.abs (?bx - rn ?bx ?ax * ?ax) <= ?ax => pose proof (Hr bx ax ltac:(lia)) end. lia.
Qed.

(* ------------------------------------------------------------------ the sequential wrap *)
Lemma wrap_congruent rn B r : wrap rn B r = vadd r (comb B (wrap_coef rn B r)).
Proof. unfold wrap, wrap_coef. dall. veq. Qed.

Lemma wrap_in_region rn B r : is_rounding rn -> lower_tri_pos B -> in_region B (wrap rn B r).
Proof.
  intros Hr [Hl Hd]. unfold wrap. dall. vunf. bools. subst.
  repeat split.
  - match goal with |- 2 * Z.abs (?x - rn ?x ?d * ?d) <= ?d => pose proof (Hr x d ltac:(lia)) end. lia.
  - match goal with |- 2 * Z.abs (?y - rn ?y ?d * ?d - _ * 0) <= ?d => pose proof (Hr y d ltac:(lia)) end. lia.
  - match goal with |- 2 * Z.abs (?z - rn ?z ?d * ?d - _ * 0 - _ * 0) <= ?d => pose proof (Hr z d ltac:(lia)) end. lia.
Qed.

Lemma small_multiple k d e1 e2 : 0 < d -> e1 = e2 + k * d -> 2 * Z.abs e1 <= d -> 2 * Z.abs e2 < d -> k = 0.
Proof.
  intros Hd E H1 H2. destruct (Z.eq_dec k 0) as [|Hk]; [assumption | exfalso].
  assert (Hm : d <= Z.abs (k * d)).
  { rewrite Z.abs_mul, (Z.abs_eq d) by lia. assert (1 <= Z.abs k) by lia. nia. }
  lia.
Qed.

(* the wrap region is a fundamental domain: two lattice-equivalent points, one in the closed region and
   one strictly inside, coincide *)
Lemma region_unique B w1 w2 n : lower_tri_pos B -> in_region B w1 -> strict_region B w2 ->
  w1 = vadd w2 (comb B n) -> n = vzero.
Proof.
  intros [Hl Hd] H1 H2 E. dall. vunf. bools. subst.
  injection E as Ex Ey Ez.
  destruct H1 as (H1x & H1y & H1z), H2 as (H2x & H2y & H2z).
  match type of Ez with _ = _ + (_ * 0 + _ * 0 + ?k * ?cz) =>
    assert (Hk : k = 0) by (refine (small_multiple k cz _ _ _ _ H1z H2z); [assumption | lia]);
    rewrite Hk in Ex, Ey |- * end.
  match type of Ey with _ = _ + (_ * 0 + ?j * ?by_ + 0 * _) =>
    assert (Hj : j = 0) by (refine (small_multiple j by_ _ _ _ _ H1y H2y); [assumption | lia]);
    rewrite Hj in Ex |- * end.
  match type of Ex with _ = _ + (?i * ?ax + 0 * _ + 0 * _) =>
    assert (Hi : i = 0) by (refine (small_multiple i ax _ _ _ _ H1x H2x); [assumption | lia]);
    rewrite Hi end.
  reflexivity.
Qed.

Lemma wrap_unique B w1 w2 n : lower_tri_pos B -> strict_region B w1 -> strict_region B w2 ->
  w1 = vadd w2 (comb B n) -> w1 = w2.
Proof.
  intros HB H1 H2 E.
  assert (Hn : n = vzero).
  { eapply region_unique; [exact HB | | exact H2 | exact E]. unfold strict_region, in_region in *. lia. }
  subst n. rewrite comb_zero, vadd_zero in E. exact E.
Qed.

(* every image in the strict region IS the wrapped vector *)
Lemma wrap_hits_strict rn B r n : is_rounding rn -> lower_tri_pos B ->
  strict_region B (vadd r (comb B n)) -> wrap rn B r = vadd r (comb B n).
Proof.
  intros Hr HB Hs.
  pose proof (wrap_in_region rn B r Hr HB) as Hin.
  pose proof (wrap_congruent rn B r) as E.
  assert (E2 : wrap rn B r = vadd (vadd r (comb B n)) (comb B (vsub (wrap_coef rn B r) n))).
  { rewrite E. rewrite vadd_assoc, <- comb_add. f_equal. f_equal. generalize (wrap_coef rn B r). intros. dall. veq. }
  pose proof (region_unique B _ _ _ HB Hin Hs E2) as Hz.
  rewrite Hz, comb_zero, vadd_zero in E2. exact E2.
Qed.

(* adding a lattice vector to the separation does not change the wrapped vector, unless it lies on the
   boundary of the region (= a rounding tie occurred) *)
Lemma wrap_shift_invariant rn B r t : is_rounding rn -> lower_tri_pos B ->
  strict_region B (wrap rn B r) -> wrap rn B (vadd r (comb B t)) = wrap rn B r.
Proof.
  intros Hr HB Hs.
  rewrite (wrap_congruent rn B r) in Hs |- *.
  replace (vadd r (comb B (wrap_coef rn B r)))
    with (vadd (vadd r (comb B t)) (comb B (vsub (wrap_coef rn B r) t))) in Hs |- *.
  - apply wrap_hits_strict; assumption.
  - rewrite vadd_assoc, <- comb_add. f_equal. f_equal. generalize (wrap_coef rn B r). intros. dall. veq.
Qed.

(* two rounding modes give the same wrapped vector unless a tie occurred *)
Lemma wrap_mode_indep rn1 rn2 B r : is_rounding rn1 -> is_rounding rn2 -> lower_tri_pos B ->
  strict_region B (wrap rn1 B r) -> wrap rn2 B r = wrap rn1 B r.
Proof.
  intros H1 H2 HB Hs. rewrite (wrap_congruent rn1 B r) in Hs |- *. apply wrap_hits_strict; assumption.
Qed.

(* ------------------------------------------------------------------ the 27-image search *)
Lemma fold_last_spec l : forall acc,
  match fold_left step_last l acc with
  | None => acc = None /\ l = []
  | Some c => (In c l \/ acc = Some c) /\
              (forall c', In c' l -> norm2 (snd c) <= norm2 (snd c')) /\
              (forall b, acc = Some b -> norm2 (snd c) <= norm2 (snd b))
  end.
Proof.
  induction l as [|x l IH]; intros acc; cbn [fold_left].
  - destruct acc as [b|]; [|auto]. repeat split; auto.
    + intros c' [].
    + intros b' [= <-]. lia.
  - specialize (IH (step_last acc x)).
    destruct (fold_left step_last l (step_last acc x)) as [c|].
    + destruct IH as (Hin & Hall & Hacc). repeat split.
      * destruct Hin as [Hin|Hin]; [left; right; exact Hin|].
        unfold step_last in Hin. destruct acc as [b|].
        -- destruct (norm2 (snd x) <=? norm2 (snd b)); injection Hin as <-; [left; left; reflexivity | right; reflexivity].
        -- injection Hin as <-. left; left; reflexivity.
      * intros c' [<-|Hc']; [|apply Hall; exact Hc'].
        unfold step_last in Hacc. destruct acc as [b|].
        -- destruct (norm2 (snd x) <=? norm2 (snd b)) eqn:E.
           ++ apply (Hacc x eq_refl).
           ++ specialize (Hacc b eq_refl). lia.
        -- apply (Hacc x eq_refl).
      * intros b ->. unfold step_last in Hacc.
        destruct (norm2 (snd x) <=? norm2 (snd b)) eqn:E.
        -- specialize (Hacc x eq_refl). lia.
        -- apply (Hacc b eq_refl).
    + destruct IH as [IH _]. unfold step_last in IH. destruct acc as [b|]; [|discriminate].
      destruct (norm2 (snd x) <=? norm2 (snd b)); discriminate.
Qed.

Lemma argmin_last_spec l x : In x l ->
  exists c, argmin_last l = Some c /\ In c l /\ forall c', In c' l -> norm2 (snd c) <= norm2 (snd c').
Proof.
  intros Hx. unfold argmin_last. pose proof (fold_last_spec l None) as H.
  destruct (fold_left step_last l None) as [c|].
  - destruct H as ([Hin|Hin] & Hall & _); [|discriminate]. exists c. auto.
  - destruct H as [_ ->]. destruct Hx.
Qed.

Lemma argmin_first_spec l : forall init,
  let c := argmin_first init l in
  (In c l \/ c = init) /\ norm2 (snd c) <= norm2 (snd init) /\
  (forall c', In c' l -> norm2 (snd c) <= norm2 (snd c')).
Proof.
  unfold argmin_first. induction l as [|x l IH]; intros init; cbn [fold_left].
  - repeat split; auto; try lia. intros c' [].
  - specialize (IH (step_first init x)). destruct IH as (Hin & Hle & Hall).
    unfold step_first in *. destruct (norm2 (snd x) <? norm2 (snd init)) eqn:E; repeat split.
    + destruct Hin as [Hin| ->]; [left; right; exact Hin | left; left; reflexivity].
    + lia.
    + intros c' [<-|Hc']; [exact Hle | apply Hall; exact Hc'].
    + destruct Hin as [Hin| ->]; [left; right; exact Hin | right; reflexivity].
    + exact Hle.
    + intros c' [<-|Hc']; [lia | apply Hall; exact Hc'].
Qed.

Lemma in_offsets27 o : In o offsets27 <->
  (vx o = -1 \/ vx o = 0 \/ vx o = 1) /\ (vy o = -1 \/ vy o = 0 \/ vy o = 1) /\ (vz o = -1 \/ vz o = 0 \/ vz o = 1).
Proof.
  destruct o as [[x y] z]. cbn [vx vy vz fst snd]. split.
  - intros H. cbv in H. repeat (destruct H as [H|H]; [injection H as <- <- <-; lia|]). destruct H.
  - intros ([-> | [-> | ->]] & [-> | [-> | ->]] & [-> | [-> | ->]]); cbv; tauto.
Qed.

Lemma cand_congruent B w o : snd (cand B w o) = vadd w (comb B o).
Proof. unfold cand. dall. veq. Qed.

Lemma cands_in B w c : In c (cands B w) -> In (fst c) offsets27 /\ snd c = vadd w (comb B (fst c)).
Proof.
  unfold cands. rewrite in_map_iff. intros (o & <- & Ho). split; [exact Ho | apply cand_congruent].
Qed.

Lemma cands_zero B w : In (cand B w vzero) (cands B w) /\ snd (cand B w vzero) = w.
Proof.
  split.
  - unfold cands. apply in_map. apply in_offsets27. cbn. lia.
  - rewrite cand_congruent, comb_zero, vadd_zero. reflexivity.
Qed.

(* both searches return one of the 27 candidates and it is no longer than any of them *)
Lemma search27_last B w :
  exists c, argmin_last (cands B w) = Some c /\ In c (cands B w) /\
            forall o, In o offsets27 -> norm2 (snd c) <= norm2 (vadd w (comb B o)).
Proof.
  destruct (argmin_last_spec (cands B w) _ (proj1 (cands_zero B w))) as (c & E & Hin & Hall).
  exists c. repeat split; auto. intros o Ho. rewrite <- cand_congruent. apply Hall.
  unfold cands. apply in_map. exact Ho.
Qed.

Lemma search27_first B w :
  let c := argmin_first (vzero, w) (cands B w) in
  In (fst c) offsets27 /\ snd c = vadd w (comb B (fst c)) /\
  forall o, In o offsets27 -> norm2 (snd c) <= norm2 (vadd w (comb B o)).
Proof.
  intros c. destruct (argmin_first_spec (cands B w) (vzero, w)) as (Hin & _ & Hall). fold c in Hin, Hall.
  repeat split.
  - destruct Hin as [Hin| ->]; [apply (cands_in B w c Hin) | apply in_offsets27; cbn; lia].
  - destruct Hin as [Hin| ->]; [apply (cands_in B w c Hin) |]. cbn [fst snd]. rewrite comb_zero, vadd_zero. reflexivity.
  - intros o Ho. rewrite <- cand_congruent. apply Hall. unfold cands. apply in_map. exact Ho.
Qed.

(* ------------------------------------------------------------------ the triclinic kernel *)
(* uniform view of the two variants: offset in the 27 candidates, congruent, minimal among the 27 *)
Definition tric_result (rn : Z -> Z -> Z) (B : box) (r : vec) (c : vec * vec) : Prop :=
  let B' := reduce rn B in let w := wrap rn B' r in
  In (fst c) offsets27 /\ snd c = vadd w (comb B' (fst c)) /\
  forall o, In o offsets27 -> norm2 (snd c) <= norm2 (vadd w (comb B' o)).

Lemma tric_last_result rn B r : tric_result rn B r (tric_last rn B r).
Proof.
  unfold tric_result, tric_last. cbv zeta.
  destruct (search27_last (reduce rn B) (wrap rn (reduce rn B) r)) as (c & -> & Hin & Hall).
  destruct (cands_in _ _ _ Hin). auto.
Qed.

Lemma tric_first_result rn B r : tric_result rn B r (tric_first rn B r).
Proof. unfold tric_result, tric_first. cbv zeta. apply search27_first. Qed.

Lemma tric_congruent_gen rn B r c : tric_result rn B r c ->
  snd c = vadd r (comb B (tric_coef rn B r (fst c))).
Proof.
  intros (_ & E & _). cbv zeta in E. rewrite E. unfold tric_coef.
  rewrite <- reduce_comb, comb_add, <- vadd_assoc, <- wrap_congruent. reflexivity.
Qed.

(* the result is an image, hence never shorter than the shortest image *)
Lemma tric_never_below_gen rn B r c m : tric_result rn B r c ->
  (forall n, m <= norm2 (vadd r (comb B n))) -> m <= norm2 (snd c).
Proof. intros H Hm. rewrite (tric_congruent_gen rn B r c H). apply Hm. Qed.

(* cell widths never exceed the diagonal entries (compared as squares, times positive factors) *)
Lemma width_le_diag B : lower_tri_pos B ->
  vol B = vx (ba B) * vy (bb B) * vz (bc B) /\
  vol B * vol B <= (vx (ba B) * vx (ba B)) * norm2 (cross (bb B) (bc B)) /\
  vol B * vol B <= (vy (bb B) * vy (bb B)) * norm2 (cross (bc B) (ba B)) /\
  vol B * vol B = (vz (bc B) * vz (bc B)) * norm2 (cross (ba B) (bb B)).
Proof.
  intros [Hl Hd]. unfold vol. dall. vunf. bools. subst. repeat split; try ring.
  - match goal with |- _ <= ?a * ?a * (?p * ?p + ?q * ?q + ?s * ?s) =>
      pose proof (Z.square_nonneg (a * q)); pose proof (Z.square_nonneg (a * s)) end. nia.
  - match goal with |- _ <= ?a * ?a * (?p * ?p + ?q * ?q + ?s * ?s) =>
      pose proof (Z.square_nonneg (a * p)); pose proof (Z.square_nonneg (a * s)) end. nia.
Qed.

Lemma norm2_ge_comp v : vx v * vx v <= norm2 v /\ vy v * vy v <= norm2 v /\ vz v * vz v <= norm2 v.
Proof.
  dall. vunf.
  match goal with |- ?x * ?x <= _ /\ ?y * ?y <= _ /\ ?z * ?z <= _ =>
    pose proof (Z.square_nonneg x); pose proof (Z.square_nonneg y); pose proof (Z.square_nonneg z) end. lia.
Qed.

Lemma scaled_lt (x n a P Q : Z) : 0 < a -> 0 < P -> x * x <= n -> P * P <= Q ->
  4 * n * Q < (a * P) * (a * P) -> 2 * Z.abs x < a.
Proof.
  intros Ha HP Hx HPQ H. apply sq_lt_abs; [assumption|].
  assert (Hn : 0 <= n) by (pose proof (Z.square_nonneg x); lia).
  assert (HPP : 0 < P * P) by nia.
  assert (H1 : 4 * (x * x) * (P * P) <= 4 * n * (P * P)) by (apply Z.mul_le_mono_nonneg_r; lia).
  assert (H2 : 4 * n * (P * P) <= 4 * n * Q) by (apply Z.mul_le_mono_nonneg_l; lia).
  assert (H3 : 4 * (x * x) * (P * P) < (a * a) * (P * P)).
  { replace (a * a * (P * P)) with (a * P * (a * P)) by ring. lia. }
  apply Z.mul_lt_mono_pos_r in H3; assumption.
Qed.

Ltac sq3 := match goal with |- ?P * ?P <= ?A * ?A + ?B * ?B + ?C * ?C =>
    pose proof (Z.square_nonneg A); pose proof (Z.square_nonneg B); pose proof (Z.square_nonneg C) end.

(* a vector shorter than half of every cell width lies strictly inside the wrap region *)
Lemma half_width_strict B v : lower_tri_pos B -> below_half_widths B v -> strict_region B v.
Proof.
  intros HB (H1 & H2 & H3).
  destruct (norm2_ge_comp v) as (Nx & Ny & Nz).
  destruct HB as [Hl Hd]. unfold vol in *.
  destruct B as [[[ax ay] az] [[bx by_] bz] [[cx cy] cz]], v as [[x y] z].
  vunf. bools. subst.
  assert (0 < by_ * cz) by nia. assert (0 < ax * cz) by nia. assert (0 < ax * by_) by nia.
  repeat split.
  - match type of H1 with 4 * ?n * ?Q < _ => apply (scaled_lt x n ax (by_ * cz) Q); try assumption end.
    + sq3. match goal with |- ?P * ?P <= ?A * ?A + _ + _ => replace (A * A) with (P * P) by ring end. lia.
    + eapply Z.lt_le_trans; [exact H1 | apply Z.eq_le_incl; ring].
  - match type of H2 with 4 * ?n * ?Q < _ => apply (scaled_lt y n by_ (ax * cz) Q); try assumption end.
    + sq3. match goal with |- ?P * ?P <= _ + ?A * ?A + _ => replace (A * A) with (P * P) by ring end. lia.
    + eapply Z.lt_le_trans; [exact H2 | apply Z.eq_le_incl; ring].
  - match type of H3 with 4 * ?n * ?Q < _ => apply (scaled_lt z n cz (ax * by_) Q); try assumption end.
    + sq3. match goal with |- ?P * ?P <= _ + _ + ?A * ?A => replace (A * A) with (P * P) by ring end. lia.
    + eapply Z.lt_le_trans; [exact H3 | apply Z.eq_le_incl; ring].
Qed.

(* ------------------------------------------------------------------ minimality in the half-width range *)
(* If SOME image v of r is shorter than half of every cell width, then the triclinic code returns exactly
   v, and v is the shortest of all images. *)
Lemma tric_minimal_halfwidth_gen rn B r n c : is_rounding rn -> lower_tri_pos B ->
  tric_result rn B r c ->
  let v := vadd r (comb B n) in
  below_half_widths B v ->
  snd c = v /\ forall n', norm2 v <= norm2 (vadd r (comb B n')).
Proof.
  intros Hr HB Hc v Hw.
  destruct (reduce_keeps_shape rn B HB) as (HB' & Dx & Dy & Dz).
  set (B' := reduce rn B) in *.
  (* any image below the half widths is the wrapped vector *)
  assert (Hkey : forall m, below_half_widths B (vadd r (comb B m)) -> wrap rn B' r = vadd r (comb B m)).
  { intros m Hm. pose proof (half_width_strict B _ HB Hm) as Hs.
    assert (Hs' : strict_region B' (vadd r (comb B m))) by (unfold strict_region in *; rewrite Dx, Dy, Dz; exact Hs).
    rewrite (reduce_comb_inv rn B m) in Hs' |- *. apply wrap_hits_strict; assumption. }
  pose proof (Hkey n Hw) as Ew. fold v in Ew.
  destruct Hc as (Ho & Ec & Hmin). cbv zeta in Ec, Hmin. fold B' in Ec, Hmin. rewrite Ew in Ec, Hmin.
  (* the result is no longer than candidate (0,0,0) = v *)
  assert (Hle : norm2 (snd c) <= norm2 v).
  { specialize (Hmin vzero). rewrite comb_zero, vadd_zero in Hmin. apply Hmin. apply in_offsets27. cbn. lia. }
  (* monotonicity: anything not longer than v is also below the half widths *)
  assert (Hmono : forall u, norm2 u <= norm2 v -> below_half_widths B u).
  { intros u Hu. destruct Hw as (W1 & W2 & W3). unfold below_half_widths.
    assert (forall Q, 0 <= Q -> 4 * norm2 v * Q < vol B * vol B -> 4 * norm2 u * Q < vol B * vol B).
    { intros Q HQ HH. eapply Z.le_lt_trans; [|exact HH]. apply Z.mul_le_mono_nonneg_r; lia. }
    assert (forall w, 0 <= norm2 w).
    { intros w. destruct (norm2_ge_comp w) as (N1 & _). pose proof (Z.square_nonneg (vx w)). lia. }
    repeat split; auto. }
  (* the result is an image of r in the original cell, and below the half widths, hence equals v *)
  assert (Eimg : snd c = vadd r (comb B (vadd n (to_orig (reduce_mult rn B) (fst c))))).
  { rewrite Ec. unfold v. rewrite comb_add, <- vadd_assoc. f_equal. fold B'. unfold B'. apply reduce_comb. }
  split.
  - pose proof (Hkey _ ltac:(rewrite <- Eimg; apply Hmono; exact Hle)) as E2. rewrite <- Eimg in E2.
    rewrite <- E2. exact Ew.
  - intros n'. destruct (Z_le_gt_dec (norm2 v) (norm2 (vadd r (comb B n')))) as [|Hgt]; [assumption|exfalso].
    pose proof (Hkey n' ltac:(apply Hmono; lia)) as E3. rewrite Ew in E3. rewrite <- E3 in Hgt. lia.
Qed.

(* ------------------------------------------------------------------ lattice-shift invariance *)
(* Adding any lattice vector of the cell to the separation (= moving either atom by a lattice vector)
   leaves the triclinic result unchanged, unless the wrapped vector lies on the boundary of the wrap
   region, i.e. a rounding tie occurred. *)
Lemma tric_last_shift_invariant rn B r t : is_rounding rn -> lower_tri_pos B ->
  strict_region (reduce rn B) (wrap rn (reduce rn B) r) ->
  snd (tric_last rn B (vadd r (comb B t))) = snd (tric_last rn B r).
Proof.
  intros Hr HB Hs. destruct (reduce_keeps_shape rn B HB) as (HB' & _).
  unfold tric_last. cbv zeta. rewrite (reduce_comb_inv rn B t).
  rewrite wrap_shift_invariant by assumption. reflexivity.
Qed.

Lemma tric_first_shift_invariant rn B r t : is_rounding rn -> lower_tri_pos B ->
  strict_region (reduce rn B) (wrap rn (reduce rn B) r) ->
  snd (tric_first rn B (vadd r (comb B t))) = snd (tric_first rn B r).
Proof.
  intros Hr HB Hs. destruct (reduce_keeps_shape rn B HB) as (HB' & _).
  unfold tric_first. cbv zeta. rewrite (reduce_comb_inv rn B t).
  rewrite wrap_shift_invariant by assumption. reflexivity.
Qed.

Lemma mic1_shift rn r L k : is_rounding rn -> 0 < L -> 2 * Z.abs (mic1 rn r L) < L ->
  mic1 rn (r + k * L) L = mic1 rn r L.
Proof.
  intros Hr HL Hs. unfold mic1 in *.
  pose proof (Hr (r + k * L) L HL) as H2.
  assert (E : rn r L = rn (r + k * L) L - k).
  { apply (quot_unique r L); try assumption.
    replace (r - (rn (r + k * L) L - k) * L) with (r + k * L - rn (r + k * L) L * L) by ring. exact H2. }
  rewrite E. ring.
Qed.

Lemma ortho_shift_invariant rn B r t : is_rounding rn -> ortho_pos B ->
  strict_region B (mic_ortho rn B r) -> mic_ortho rn B (vadd r (comb B t)) = mic_ortho rn B r.
Proof.
  intros Hr [Ho Hd] Hs. unfold mic_ortho in *.
  destruct B as [[[ax ay] az] [[bx by_] bz] [[cx cy] cz]], r as [[x y] z], t as [[i j] k].
  vunf. bools. subst. destruct Hs as (Sx & Sy & Sz).
  replace (x + (i * ax + j * 0 + k * 0)) with (x + i * ax) by ring.
  replace (y + (i * 0 + j * by_ + k * 0)) with (y + j * by_) by ring.
  replace (z + (i * 0 + j * 0 + k * cz)) with (z + k * cz) by ring.
  rewrite !mic1_shift by assumption. reflexivity.
Qed.

(* ------------------------------------------------------------------ the two code paths agree *)
Lemma reduce_mode_indep rn1 rn2 B : is_rounding rn1 -> is_rounding rn2 -> lower_tri_pos B ->
  (let B' := reduce rn1 B in
   2 * Z.abs (vy (bc B')) < vy (bb B') /\ 2 * Z.abs (vx (bc B')) < vx (ba B') /\ 2 * Z.abs (vx (bb B')) < vx (ba B')) ->
  reduce rn2 B = reduce rn1 B.
Proof.
  intros H1 H2 [Hl Hd] Hs. unfold reduce in *.
  destruct B as [[[ax ay] az] [[bx by_] bz] [[cx cy] cz]].
  vunf. bools. subst. destruct Hs as (S1 & S2 & S3).
  assert (E1 : rn2 cy by_ = rn1 cy by_).
  { symmetry. apply (quot_unique cy by_); [assumption | lia | apply H2; assumption]. }
  rewrite E1.
  assert (E2 : rn2 (cx - rn1 cy by_ * bx) ax = rn1 (cx - rn1 cy by_ * bx) ax).
  { symmetry. apply (quot_unique (cx - rn1 cy by_ * bx) ax); try assumption. apply H2; assumption. }
  rewrite E2.
  assert (E3 : rn2 bx ax = rn1 bx ax).
  { symmetry. apply (quot_unique bx ax); try assumption. apply H2; assumption. }
  rewrite E3. reflexivity.
Qed.

(* no rounding tie in the reduction nor in the wrap: both paths look at the same 27 candidates *)
Definition tie_free (rn : Z -> Z -> Z) (B : box) (r : vec) : Prop :=
  (let B' := reduce rn B in
   2 * Z.abs (vy (bc B')) < vy (bb B') /\ 2 * Z.abs (vx (bc B')) < vx (ba B') /\ 2 * Z.abs (vx (bb B')) < vx (ba B')) /\
  strict_region (reduce rn B) (wrap rn (reduce rn B) r).

Lemma paths_same_candidates rn1 rn2 B r : is_rounding rn1 -> is_rounding rn2 -> lower_tri_pos B ->
  tie_free rn1 B r ->
  reduce rn2 B = reduce rn1 B /\ wrap rn2 (reduce rn2 B) r = wrap rn1 (reduce rn1 B) r.
Proof.
  intros H1 H2 HB [Hred Hs].
  pose proof (reduce_mode_indep rn1 rn2 B H1 H2 HB Hred) as E. split; [exact E|]. rewrite E.
  destruct (reduce_keeps_shape rn1 B HB) as (HB' & _).
  apply wrap_mode_indep; assumption.
Qed.

(* distances agree whenever no rounding tie occurs *)
Lemma paths_agree_norm rn1 rn2 B r c1 c2 : is_rounding rn1 -> is_rounding rn2 -> lower_tri_pos B ->
  tie_free rn1 B r -> tric_result rn1 B r c1 -> tric_result rn2 B r c2 -> norm2 (snd c1) = norm2 (snd c2).
Proof.
  intros H1 H2 HB Ht R1 R2.
  destruct (paths_same_candidates rn1 rn2 B r H1 H2 HB Ht) as [EB Ew].
  destruct R1 as (O1 & E1 & M1), R2 as (O2 & E2 & M2). cbv zeta in *. rewrite EB, Ew in *.
  pose proof (M1 _ O2) as L1. pose proof (M2 _ O1) as L2. rewrite <- E2 in L1. rewrite <- E1 in L2. lia.
Qed.

(* displacements agree when, in addition, the shortest of the 27 candidates is unique *)
Lemma paths_agree_disp rn1 rn2 B r c1 c2 : is_rounding rn1 -> is_rounding rn2 -> lower_tri_pos B ->
  tie_free rn1 B r -> tric_result rn1 B r c1 -> tric_result rn2 B r c2 ->
  (forall o1 o2, In o1 offsets27 -> In o2 offsets27 ->
     let w := wrap rn1 (reduce rn1 B) r in let B' := reduce rn1 B in
     norm2 (vadd w (comb B' o1)) = norm2 (vadd w (comb B' o2)) ->
     (forall o, In o offsets27 -> norm2 (vadd w (comb B' o1)) <= norm2 (vadd w (comb B' o))) -> o1 = o2) ->
  c1 = c2.
Proof.
  intros H1 H2 HB Ht R1 R2 Huniq.
  pose proof (paths_agree_norm rn1 rn2 B r c1 c2 H1 H2 HB Ht R1 R2) as En.
  destruct (paths_same_candidates rn1 rn2 B r H1 H2 HB Ht) as [EB Ew].
  destruct R1 as (O1 & E1 & M1), R2 as (O2 & E2 & M2). cbv zeta in *. rewrite EB, Ew in *.
  assert (Eo : fst c1 = fst c2).
  { apply Huniq; try assumption.
    - rewrite <- E1, <- E2. exact En.
    - intros o Ho. rewrite <- E1. apply M1. exact Ho. }
  destruct c1 as [o1 v1], c2 as [o2 v2]. cbn [fst snd] in *. subst o2. rewrite E1, E2. reflexivity.
Qed.

(* ------------------------------------------------------------------ orthorhombic cell through the other paths *)
Lemma reduce_ortho rn B : is_rounding rn -> ortho_pos B -> reduce rn B = B.
Proof.
  intros Hr [Ho Hd]. unfold reduce. destruct B as [[[ax ay] az] [[bx by_] bz] [[cx cy] cz]].
  vunf. bools. subst.
  assert (Z0 : forall d, 0 < d -> rn 0 d = 0).
  { intros d Hd'. pose proof (Hr 0 d Hd') as Hq. destruct (Z.eq_dec (rn 0 d) 0) as [|Hn]; [assumption|exfalso].
    assert (d <= Z.abs (rn 0 d * d)) by (rewrite Z.abs_mul, (Z.abs_eq d) by lia; assert (1 <= Z.abs (rn 0 d)) by lia; nia).
    replace (0 - rn 0 d * d) with (- (rn 0 d * d)) in Hq by ring. rewrite Z.abs_opp in Hq. lia. }
  rewrite (Z0 by_) by assumption. replace (0 - 0 * 0) with 0 by ring. rewrite (Z0 ax) by assumption.
  f_equal; apply vec_ext; vunf; ring.
Qed.

Lemma wrap_ortho rn B r : ortho_pos B -> wrap rn B r = mic_ortho rn B r.
Proof.
  intros [Ho Hd]. unfold wrap, mic_ortho, mic1.
  destruct B as [[[ax ay] az] [[bx by_] bz] [[cx cy] cz]], r as [[x y] z].
  vunf. bools. subst.
  replace (y - rn z cz * 0) with y by ring.
  replace (x - rn z cz * 0 - rn y by_ * 0) with x by ring.
  apply vec_ext; vunf; ring.
Qed.

(* numpy path with orthogonal=True on a truly orthorhombic cell = per-axis formula *)
Lemma np_ortho_is_mic B r : ortho_pos B -> np_ortho B r = mic_ortho rnd_hev B r.
Proof.
  intros HB. unfold np_ortho. rewrite (reduce_ortho _ B rnd_hev_rounding HB). apply wrap_ortho. exact HB.
Qed.

(* an orthorhombic cell sent through the triclinic code (mixed trajectories) still gives the global minimum *)
Lemma tric_on_ortho_minimal rn B r c n : is_rounding rn -> ortho_pos B -> tric_result rn B r c ->
  norm2 (snd c) <= norm2 (vadd r (comb B n)).
Proof.
  intros Hr HB (Ho & Ec & Hmin). cbv zeta in *. rewrite (reduce_ortho rn B Hr HB) in *.
  rewrite (wrap_ortho rn B r HB) in *.
  specialize (Hmin vzero ltac:(apply in_offsets27; cbn; lia)). rewrite comb_zero, vadd_zero in Hmin.
  etransitivity; [exact Hmin|]. apply ortho_minimal; assumption.
Qed.

(* ------------------------------------------------------------------ find_closest_contact (wrap only) *)
Lemma fcc_congruent B d : fcc_disp B d = vadd d (comb B (wrap_coef rnd_hup B d)).
Proof. apply wrap_congruent. Qed.

Lemma fcc_minimal_halfwidth B d n : lower_tri_pos B ->
  let v := vadd d (comb B n) in below_half_widths B v -> fcc_disp B d = v.
Proof.
  intros HB v Hw. unfold fcc_disp. apply wrap_hits_strict; [exact rnd_hup_rounding | exact HB |].
  apply half_width_strict; assumption.
Qed.

(* ------------------------------------------------------------------ dispatch, transposes *)
Lemma kernel_reads_rows B : kernel_box tric_idx1 tric_idx2 tric_idx3 (transpose9 (box_to_mat B)) = B.
Proof. destruct B as [[[ax ay] az] [[bx by_] bz] [[cx cy] cz]]. reflexivity. Qed.

Lemma nopbc_plain opt xyzboxes r B :
  path_disp (dispatch opt false xyzboxes) B r = r /\ path_disp (dispatch opt true None) B r = r.
Proof. split; reflexivity. Qed.

(* ------------------------------------------------------------------ statements per code path *)
Definition rmode_of_path (p : path) : Z -> Z -> Z :=
  match p with POrthoSSE => rnd_htz | PTricCpp => rnd_haz | _ => rnd_hev end.

Lemma path_tric_cpp B r : path_disp PTricCpp B r = snd (tric_last rnd_haz B r).
Proof. unfold path_disp. rewrite kernel_reads_rows. reflexivity. Qed.

Lemma all_paths_congruent p B r : (p = POrthoSSE -> ortho_pos B) ->
  path_disp p B r = vadd r (comb B (path_coef p B r)).
Proof.
  intros Hp. destruct p.
  - cbn [path_disp path_coef]. rewrite comb_zero, vadd_zero. reflexivity.
  - apply ortho_congruent. apply Hp. reflexivity.
  - rewrite path_tric_cpp. cbn [path_coef]. apply (tric_congruent_gen rnd_haz). apply tric_last_result.
  - cbn [path_disp path_coef]. unfold np_ortho, np_ortho_coef.
    rewrite <- reduce_comb. apply wrap_congruent.
  - cbn [path_disp path_coef]. apply (tric_congruent_gen rnd_hev). apply tric_first_result.
Qed.

Lemma ortho_minimal_all_paths p B r n : p <> PPlain -> ortho_pos B ->
  norm2 (path_disp p B r) <= norm2 (vadd r (comb B n)).
Proof.
  intros Hp HB. destruct p; [congruence | | | |].
  - apply ortho_minimal; [exact rnd_htz_rounding | exact HB].
  - rewrite path_tric_cpp. apply (tric_on_ortho_minimal rnd_haz); [exact rnd_haz_rounding | exact HB | apply tric_last_result].
  - cbn [path_disp]. rewrite np_ortho_is_mic by exact HB. apply ortho_minimal; [exact rnd_hev_rounding | exact HB].
  - apply (tric_on_ortho_minimal rnd_hev); [exact rnd_hev_rounding | exact HB | apply tric_first_result].
Qed.

Lemma ortho_paths_agree B r : ortho_pos B ->
  norm2 (path_disp POrthoSSE B r) = norm2 (path_disp POrthoNp B r) /\
  norm2 (path_disp POrthoSSE B r) = norm2 (path_disp PTricCpp B r) /\
  norm2 (path_disp POrthoSSE B r) = norm2 (path_disp PTricNp B r).
Proof.
  intros HB.
  assert (Hc : forall p, p <> PPlain -> path_disp p B r = vadd r (comb B (path_coef p B r))).
  { intros p _. apply all_paths_congruent. intros _. exact HB. }
  assert (Hm : forall p q, p <> PPlain -> q <> PPlain -> norm2 (path_disp p B r) <= norm2 (path_disp q B r)).
  { intros p q Hp Hq. rewrite (Hc q Hq). apply ortho_minimal_all_paths; assumption. }
  repeat split; apply Z.le_antisymm; apply Hm; discriminate.
Qed.

Lemma tric_paths_minimal_halfwidth p B r n : p = PTricCpp \/ p = PTricNp -> lower_tri_pos B ->
  let v := vadd r (comb B n) in
  below_half_widths B v ->
  path_disp p B r = v /\ forall n', norm2 v <= norm2 (vadd r (comb B n')).
Proof.
  intros [-> | ->] HB v Hw.
  - rewrite path_tric_cpp. apply (tric_minimal_halfwidth_gen rnd_haz); auto using rnd_haz_rounding, tric_last_result.
  - apply (tric_minimal_halfwidth_gen rnd_hev); auto using rnd_hev_rounding, tric_first_result.
Qed.

Lemma tric_paths_agree B r : lower_tri_pos B -> tie_free rnd_haz B r ->
  norm2 (path_disp PTricCpp B r) = norm2 (path_disp PTricNp B r) /\
  ((forall o1 o2, In o1 offsets27 -> In o2 offsets27 ->
      let w := wrap rnd_haz (reduce rnd_haz B) r in let B' := reduce rnd_haz B in
      norm2 (vadd w (comb B' o1)) = norm2 (vadd w (comb B' o2)) ->
      (forall o, In o offsets27 -> norm2 (vadd w (comb B' o1)) <= norm2 (vadd w (comb B' o))) -> o1 = o2) ->
   path_disp PTricCpp B r = path_disp PTricNp B r).
Proof.
  intros HB Ht. rewrite path_tric_cpp. cbn [path_disp]. split.
  - apply (paths_agree_norm rnd_haz rnd_hev B r); auto using rnd_haz_rounding, rnd_hev_rounding, tric_last_result, tric_first_result.
  - intros Hu. f_equal.
    apply (paths_agree_disp rnd_haz rnd_hev B r); auto using rnd_haz_rounding, rnd_hev_rounding, tric_last_result, tric_first_result.
Qed.

Lemma all_paths_shift_invariant p B r t :
  match p with
  | PPlain => True
  | POrthoSSE => ortho_pos B -> strict_region B (path_disp p B r) -> path_disp p B (vadd r (comb B t)) = path_disp p B r
  | _ => lower_tri_pos B ->
         strict_region (reduce (rmode_of_path p) B) (wrap (rmode_of_path p) (reduce (rmode_of_path p) B) r) ->
         path_disp p B (vadd r (comb B t)) = path_disp p B r
  end.
Proof.
  destruct p; [exact I | | | |]; cbn [rmode_of_path].
  - intros HB Hs. apply ortho_shift_invariant; [exact rnd_htz_rounding | exact HB | exact Hs].
  - intros HB Hs. rewrite !path_tric_cpp. apply tric_last_shift_invariant; auto using rnd_haz_rounding.
  - intros HB Hs. cbn [path_disp]. unfold np_ortho.
    destruct (reduce_keeps_shape rnd_hev B HB) as (HB' & _).
    rewrite (reduce_comb_inv rnd_hev B t). apply wrap_shift_invariant; auto using rnd_hev_rounding.
  - intros HB Hs. cbn [path_disp]. apply tric_first_shift_invariant; auto using rnd_hev_rounding.
Qed.

(* ------------------------------------------------------------------ trajectory-level glue *)
Lemma opt_all_nth {A : Type} (l : list (option A)) out i x :
  opt_all l = Some out -> nth_error l i = Some (Some x) -> nth_error out i = Some x.
Proof.
  revert out i. induction l as [|o l IH]; intros out i E Hn.
  - destruct i; discriminate.
  - cbn [opt_all] in E. destruct o as [y|]; [|discriminate].
    destruct (opt_all l) as [r'|] eqn:El; [|discriminate]. injection E as <-.
    destruct i as [|i]; cbn [nth_error] in *.
    + injection Hn as <-. reflexivity.
    + apply (IH r' i eq_refl Hn).
Qed.

Lemma displacements_t_entry opt periodic xyz boxes pairs times out i j t pr f1 f2 B x1 x2 :
  displacements_t opt periodic xyz boxes pairs times = Some out ->
  nth_error times i = Some t -> nth_error pairs j = Some pr ->
  nth_error xyz (fst t) = Some f1 -> nth_error xyz (snd t) = Some f2 -> box_at boxes (fst t) = Some B ->
  nth_error f1 (fst pr) = Some x1 -> nth_error f2 (snd pr) = Some x2 ->
  exists row, nth_error out i = Some row /\
    nth_error row j = Some (path_disp (dispatch opt periodic boxes) B
                              (if opt then vsub x2 x1 else vneg (vsub x2 x1))).
Proof.
  intros E Ht Hp Hf1 Hf2 HB Hx1 Hx2. unfold displacements_t in E.
  set (p := dispatch opt periodic boxes) in *.
  set (g := fun t0 : nat * nat => _) in E.
  pose proof (map_nth_error g i times Ht) as Hg.
  assert (Hgt : exists row, g t = Some row /\
     nth_error row j = Some (path_disp p B (if opt then vsub x2 x1 else vneg (vsub x2 x1)))).
  { (* every frame entry of a successful run is Some *)
    destruct (g t) as [row|] eqn:Egt.
    - exists row. split; [reflexivity|]. unfold g in Egt. rewrite Hf1, Hf2, HB in Egt.
      destruct (box_ok p B); [|discriminate].
      eapply opt_all_nth; [exact Egt|].
      erewrite map_nth_error by exact Hp. unfold sep. rewrite Hx1, Hx2. reflexivity.
    - exfalso. clear - E Hg. revert out i E Hg. generalize (map g times) as l.
      induction l as [|o l IH]; intros out i E Hn; [destruct i; discriminate|].
      cbn [opt_all] in E. destruct o as [y|].
      + destruct (opt_all l) eqn:El; [|discriminate]. destruct i; [discriminate|]. eapply IH; [reflexivity | exact Hn].
      + discriminate. }
  destruct Hgt as (row & Eg & Hrow). exists row. split; [|exact Hrow].
  eapply opt_all_nth; [exact E|]. rewrite Hg, Eg. reflexivity.
Qed.

(* ------------------------------------------------------------------ non-vacuity *)
Lemma example_ortho :
  let B := mkbox (3072, 0, 0) (0, 4000, 0) (0, 0, 2900) in
  ortho_pos B /\ strict_region B (path_disp POrthoSSE B (40000, -51234, 30011)).
Proof. cbv zeta. split; [split; reflexivity|]. vm_compute. repeat split; reflexivity. Qed.

Lemma example_hyps :
  let B := mkbox (3072, 0, 0) (5120, 3000, 0) (-7000, 8100, 2900) in
  let r := (117204, -30050, -28940) in
  lower_tri_pos B /\ tie_free rnd_haz B r /\
  (exists n, below_half_widths B (vadd r (comb B n))) /\
  is_orthob B = false /\ path_disp PTricCpp B r = (100, -50, 60) /\ path_disp PTricNp B r = (100, -50, 60).
Proof.
  cbv zeta. split; [split; reflexivity|]. split; [vm_compute; repeat split; reflexivity|].
  split; [exists (13, -17, 10); vm_compute; repeat split; reflexivity|].
  repeat split; vm_compute; reflexivity.
Qed.

(* ------------------------------------------------------------------ the standard-orientation hypothesis is needed *)
(* [lower_tri_pos] cannot be dropped from tric_minimal_halfwidth: for a cubic cell of edge 3000 rotated about z
   by the (3,4,5) angle -- positive diagonal, positive volume, every image search range intact -- the triclinic
   code returns an image of squared length 5024825 although another image has squared length 1853225, which
   is below half of every cell width (1500^2).  (The result is still an image: tric_congruent needs no
   orientation hypothesis.)  Only mdtraj.geometry.distance.compute_distances_core can be handed such a cell:
   Trajectory.unitcell_vectors is always regenerated in standard orientation from lengths and angles. *)
Lemma nonstandard_orientation_counterexample :
  exists B r n, diag_posb B = true /\ lower_trib B = false /\ 0 < vol B /\
    below_half_widths B (vadd r (comb B n)) /\
    norm2 (vadd r (comb B n)) < norm2 (path_disp PTricCpp B r) /\
    path_disp PTricCpp B r = vadd r (comb B (path_coef PTricCpp B r)).
Proof.
  exists (mkbox (1800, 2400, 0) (-2400, 1800, 0) (0, 0, 3000)), (5892, -5525, 2644).
  exists (0, 3, -1).
  repeat split; vm_compute; (reflexivity || discriminate).
Qed.
