(* Theorems about the minimum-image model (C05).  All over Z, closed under the global context. *)
From Coq Require Import ZArith List Bool Lia ZifyBool.
Import ListNotations.
Require Import MD.PBC.Model MD.PBC.Rounding.
Open Scope Z_scope.

(* ------------------------------------------------------------------ vocabulary *)
Definition lower_tri_pos (B : box) : Prop := lower_trib B = true /\ diag_posb B = true.
Definition ortho_pos (B : box) : Prop := is_orthob B = true /\ diag_posb B = true.

(* the region the sequential wrap maps into: |x| <= ax/2, |y| <= by/2, |z| <= cz/2 *)
Definition in_region (B : box) (w : vec) : Prop :=
  2 * Z.abs (vx w) <= vx (ba B) /\ 2 * Z.abs (vy w) <= vy (bb B) /\ 2 * Z.abs (vz w) <= vz (bc B).
Definition strict_region (B : box) (w : vec) : Prop :=
  2 * Z.abs (vx w) < vx (ba B) /\ 2 * Z.abs (vy w) < vy (bb B) /\ 2 * Z.abs (vz w) < vz (bc B).

(* v is an image of the separation r in the cell B *)
Definition image_of (B : box) (r v : vec) : Prop := exists n, v = vadd r (comb B n).

(* cell volume and the three cell widths V/|b x c|, V/|c x a|, V/|a x b| (compared as squares) *)
Definition vol (B : box) : Z := dot (ba B) (cross (bb B) (bc B)).
Definition below_half_widths (B : box) (v : vec) : Prop :=
  4 * norm2 v * norm2 (cross (bb B) (bc B)) < vol B * vol B /\
  4 * norm2 v * norm2 (cross (bc B) (ba B)) < vol B * vol B /\
  4 * norm2 v * norm2 (cross (ba B) (bb B)) < vol B * vol B.

Lemma vec_ext (u v : vec) : vx u = vx v -> vy u = vy v -> vz u = vz v -> u = v.
Proof. destruct u as [[? ?] ?], v as [[? ?] ?]. cbn. intros -> -> ->. reflexivity. Qed.

Ltac dall :=
  repeat match goal with
         | B : box |- _ => destruct B as [? ? ?]
         | v : vec |- _ => destruct v as [[? ?] ?]
         end.
Ltac vunf :=
  unfold lower_tri_pos, ortho_pos, in_region, strict_region, is_orthob, lower_trib, diag_posb, comb, vadd, vsub,
         vscale, vneg, vzero, norm2, dot, cross, vx, vy, vz in *;
  cbn [ba bb bc fst snd] in *.
Ltac veq := apply vec_ext; vunf; ring.

(* ------------------------------------------------------------------ algebra of comb *)
Lemma comb_add B n m : comb B (vadd n m) = vadd (comb B n) (comb B m).
Proof. dall. veq. Qed.

Lemma comb_zero B : comb B vzero = vzero.
Proof. dall. veq. Qed.

Lemma vadd_zero v : vadd v vzero = v.
Proof. dall. veq. Qed.

Lemma vadd_assoc u v w : vadd (vadd u v) w = vadd u (vadd v w).
Proof. dall. veq. Qed.

(* ------------------------------------------------------------------ orthorhombic kernel *)
Lemma ortho_congruent rn B r : ortho_pos B -> mic_ortho rn B r = vadd r (comb B (mic_ortho_coef rn B r)).
Proof.
  intros [Ho _]. unfold mic_ortho, mic_ortho_coef, mic1. dall. vunf.
  repeat (apply andb_true_iff in Ho; destruct Ho as [Ho ?]).
  repeat match goal with H : (_ =? _) = true |- _ => apply Z.eqb_eq in H; subst end.
  apply vec_ext; vunf; ring.
Qed.

Lemma ortho_min_scalar rn rx ry rz ax by_ cz i j k : is_rounding rn -> 0 < ax -> 0 < by_ -> 0 < cz ->
  mic1 rn rx ax * mic1 rn rx ax + mic1 rn ry by_ * mic1 rn ry by_ + mic1 rn rz cz * mic1 rn rz cz <=
  (rx + i * ax) * (rx + i * ax) + (ry + j * by_) * (ry + j * by_) + (rz + k * cz) * (rz + k * cz).
Proof.
  intros Hr Ha Hb Hc.
  pose proof (mic1_min rn rx ax (- i) Hr Ha) as H1.
  pose proof (mic1_min rn ry by_ (- j) Hr Hb) as H2.
  pose proof (mic1_min rn rz cz (- k) Hr Hc) as H3.
  replace (rx - - i * ax) with (rx + i * ax) in H1 by ring.
  replace (ry - - j * by_) with (ry + j * by_) in H2 by ring.
  replace (rz - - k * cz) with (rz + k * cz) in H3 by ring.
  lia.
Qed.

Ltac bools :=
  repeat match goal with
         | H : (_ && _) = true |- _ => apply andb_true_iff in H; destruct H
         | H : (_ =? _) = true |- _ => apply Z.eqb_eq in H
         | H : (_ <? _) = true |- _ => apply Z.ltb_lt in H
         end.

Lemma ortho_minimal rn B r n : is_rounding rn -> ortho_pos B ->
  norm2 (mic_ortho rn B r) <= norm2 (vadd r (comb B n)).
Proof.
  intros Hr [Ho Hd]. unfold mic_ortho. dall. vunf. bools. subst.
  lazymatch goal with |- _ <= (_ + (?i * _ + ?j * 0 + ?k * 0)) * _ + _ + _ =>
    etransitivity; [apply (ortho_min_scalar rn _ _ _ _ _ _ i j k); eassumption|] end.
  apply Z.eq_le_incl. ring.
Qed.

(* ------------------------------------------------------------------ box reduction *)
(* coefficients w.r.t. the original box -> coefficients w.r.t. the reduced box *)
Definition from_orig (m : vec) (n : vec) : vec :=
  (vx n + vy n * vz m + vz n * (vx m * vz m + vy m), vy n + vz n * vx m, vz n).

Lemma reduce_comb rn B n : comb (reduce rn B) n = comb B (to_orig (reduce_mult rn B) n).
Proof. unfold reduce, reduce_mult, to_orig. dall. veq. Qed.

Lemma reduce_comb_inv rn B n : comb B n = comb (reduce rn B) (from_orig (reduce_mult rn B) n).
Proof. unfold reduce, reduce_mult, from_orig. dall. veq. Qed.

(* the reduced box spans the same lattice *)
Lemma reduce_same_lattice rn B v :
  (exists n, v = comb B n) <-> (exists n, v = comb (reduce rn B) n).
Proof.
  split; intros [n ->].
  - eexists. apply reduce_comb_inv.
  - eexists. apply reduce_comb.
Qed.

Lemma reduce_keeps_shape rn B : lower_tri_pos B ->
  lower_tri_pos (reduce rn B) /\
  vx (ba (reduce rn B)) = vx (ba B) /\ vy (bb (reduce rn B)) = vy (bb B) /\ vz (bc (reduce rn B)) = vz (bc B).
Proof.
  intros [Hl Hd]. unfold reduce. dall. vunf. bools. subst.
  repeat split; try lia.
Qed.

(* after the reduction c_y, c_x and b_x are at most half of b_y, a_x, a_x *)
Lemma reduce_reduced rn B : is_rounding rn -> lower_tri_pos B ->
  let B' := reduce rn B in
  2 * Z.abs (vy (bc B')) <= vy (bb B') /\ 2 * Z.abs (vx (bc B')) <= vx (ba B') /\ 2 * Z.abs (vx (bb B')) <= vx (ba B').
Proof.
  intros Hr [Hl Hd]. unfold reduce. dall. vunf. bools. subst.
  match goal with |- context [rn ?n ?d * _] => idtac end.
  repeat split.
  - match goal with |- 2 * Z.abs (?cy - ?m * ?by_ - _ * 0) <= ?by_ - _ * 0 =>
      pose proof (Hr cy by_ ltac:(lia)) end. lia.
  - match goal with |- 2 * Z.abs (?c1 - rn ?c1 ?ax * ?ax) <= ?ax => pose proof (Hr c1 ax ltac:(lia)) end. lia.
  - match goal with |- 2 * Z.abs (?bx - rn ?bx ?ax * ?ax) <= ?ax => pose proof (Hr bx ax ltac:(lia)) end. lia.
Qed.

(* ------------------------------------------------------------------ the sequential wrap *)
Lemma wrap_congruent rn B r : wrap rn B r = vadd r (comb B (wrap_coef rn B r)).
Proof. unfold wrap, wrap_coef. dall. veq. Qed.

Lemma wrap_in_region rn B r : is_rounding rn -> lower_tri_pos B -> in_region B (wrap rn B r).
Proof.
  intros Hr [Hl Hd]. unfold wrap. dall. vunf. bools. subst.
  repeat split.
  - match goal with |- 2 * Z.abs (?x - rn ?x ?d * ?d) <= ?d => pose proof (Hr x d ltac:(lia)) end. lia.
  - match goal with |- 2 * Z.abs (?y - rn ?y ?d * ?d - _ * 0) <= ?d => pose proof (Hr y d ltac:(lia)) end. lia.
  - match goal with |- 2 * Z.abs (?z - rn ?z ?d * ?d - _ * 0 - _ * 0) <= ?d => pose proof (Hr z d ltac:(lia)) end. lia.
Qed.

Lemma small_multiple k d e1 e2 : 0 < d -> e1 = e2 + k * d -> 2 * Z.abs e1 <= d -> 2 * Z.abs e2 < d -> k = 0.
Proof.
  intros Hd E H1 H2. destruct (Z.eq_dec k 0) as [|Hk]; [assumption | exfalso].
  assert (Hm : d <= Z.abs (k * d)).
  { rewrite Z.abs_mul, (Z.abs_eq d) by lia. assert (1 <= Z.abs k) by lia. nia. }
  lia.
Qed.

(* the wrap region is a fundamental domain: two lattice-equivalent points, one in the closed region and
   one strictly inside, coincide *)
Lemma region_unique B w1 w2 n : lower_tri_pos B -> in_region B w1 -> strict_region B w2 ->
  w1 = vadd w2 (comb B n) -> n = vzero.
Proof.
  intros [Hl Hd] H1 H2 E. dall. vunf. bools. subst.
  injection E as Ex Ey Ez.
  destruct H1 as (H1x & H1y & H1z), H2 as (H2x & H2y & H2z).
  match type of Ez with _ = _ + (_ * 0 + _ * 0 + ?k * ?cz) =>
    assert (Hk : k = 0) by (refine (small_multiple k cz _ _ _ _ H1z H2z); [assumption | lia]);
    rewrite Hk in Ex, Ey |- * end.
  match type of Ey with _ = _ + (_ * 0 + ?j * ?by_ + 0 * _) =>
    assert (Hj : j = 0) by (refine (small_multiple j by_ _ _ _ _ H1y H2y); [assumption | lia]);
    rewrite Hj in Ex |- * end.
  match type of Ex with _ = _ + (?i * ?ax + 0 * _ + 0 * _) =>
    assert (Hi : i = 0) by (refine (small_multiple i ax _ _ _ _ H1x H2x); [assumption | lia]);
    rewrite Hi end.
  reflexivity.
Qed.

Lemma wrap_unique B w1 w2 n : lower_tri_pos B -> strict_region B w1 -> strict_region B w2 ->
  w1 = vadd w2 (comb B n) -> w1 = w2.
Proof.
  intros HB H1 H2 E.
  assert (Hn : n = vzero).
  { eapply region_unique; [exact HB | | exact H2 | exact E]. unfold strict_region, in_region in *. lia. }
  subst n. rewrite comb_zero, vadd_zero in E. exact E.
Qed.

(* every image in the strict region IS the wrapped vector *)
Lemma wrap_hits_strict rn B r n : is_rounding rn -> lower_tri_pos B ->
  strict_region B (vadd r (comb B n)) -> wrap rn B r = vadd r (comb B n).
Proof.
  intros Hr HB Hs.
  pose proof (wrap_in_region rn B r Hr HB) as Hin.
  pose proof (wrap_congruent rn B r) as E.
  assert (E2 : wrap rn B r = vadd (vadd r (comb B n)) (comb B (vsub (wrap_coef rn B r) n))).
  { rewrite E. rewrite vadd_assoc, <- comb_add. f_equal. f_equal. generalize (wrap_coef rn B r). intros. dall. veq. }
  pose proof (region_unique B _ _ _ HB Hin Hs E2) as Hz.
  rewrite Hz, comb_zero, vadd_zero in E2. exact E2.
Qed.

(* adding a lattice vector to the separation does not change the wrapped vector, unless it lies on the
   boundary of the region (= a rounding tie occurred) *)
Lemma wrap_shift_invariant rn B r t : is_rounding rn -> lower_tri_pos B ->
  strict_region B (wrap rn B r) -> wrap rn B (vadd r (comb B t)) = wrap rn B r.
Proof.
  intros Hr HB Hs.
  rewrite (wrap_congruent rn B r) in Hs |- *.
  replace (vadd r (comb B (wrap_coef rn B r)))
    with (vadd (vadd r (comb B t)) (comb B (vsub (wrap_coef rn B r) t))) in Hs |- *.
  - apply wrap_hits_strict; assumption.
  - rewrite vadd_assoc, <- comb_add. f_equal. f_equal. generalize (wrap_coef rn B r). intros. dall. veq.
Qed.

(* two rounding modes give the same wrapped vector unless a tie occurred *)
Lemma wrap_mode_indep rn1 rn2 B r : is_rounding rn1 -> is_rounding rn2 -> lower_tri_pos B ->
  strict_region B (wrap rn1 B r) -> wrap rn2 B r = wrap rn1 B r.
Proof.
  intros H1 H2 HB Hs. rewrite (wrap_congruent rn1 B r) in Hs |- *. apply wrap_hits_strict; assumption.
Qed.

(* ------------------------------------------------------------------ the 27-image search *)
Lemma fold_last_spec l : forall acc,
  match fold_left step_last l acc with
  | None => acc = None /\ l = []
  | Some c => (In c l \/ acc = Some c) /\
              (forall c', In c' l -> norm2 (snd c) <= norm2 (snd c')) /\
              (forall b, acc = Some b -> norm2 (snd c) <= norm2 (snd b))
  end.
Proof.
  induction l as [|x l IH]; intros acc; cbn [fold_left].
  - destruct acc as [b|]; [|auto]. repeat split; auto.
    + intros c' [].
    + intros b' [= <-]. lia.
  - specialize (IH (step_last acc x)).
    destruct (fold_left step_last l (step_last acc x)) as [c|].
    + destruct IH as (Hin & Hall & Hacc). repeat split.
      * destruct Hin as [Hin|Hin]; [left; right; exact Hin|].
        unfold step_last in Hin. destruct acc as [b|].
        -- destruct (norm2 (snd x) <=? norm2 (snd b)); injection Hin as <-; [left; left; reflexivity | right; reflexivity].
        -- injection Hin as <-. left; left; reflexivity.
      * intros c' [<-|Hc']; [|apply Hall; exact Hc'].
        unfold step_last in Hacc. destruct acc as [b|].
        -- destruct (norm2 (snd x) <=? norm2 (snd b)) eqn:E.
           ++ apply (Hacc x eq_refl).
           ++ specialize (Hacc b eq_refl). lia.
        -- apply (Hacc x eq_refl).
      * intros b ->. unfold step_last in Hacc.
        destruct (norm2 (snd x) <=? norm2 (snd b)) eqn:E.
        -- specialize (Hacc x eq_refl). lia.
        -- apply (Hacc b eq_refl).
    + destruct IH as [IH _]. unfold step_last in IH. destruct acc as [b|]; [|discriminate].
      destruct (norm2 (snd x) <=? norm2 (snd b)); discriminate.
Qed.

Lemma argmin_last_spec l x : In x l ->
  exists c, argmin_last l = Some c /\ In c l /\ forall c', In c' l -> norm2 (snd c) <= norm2 (snd c').
Proof.
  intros Hx. unfold argmin_last. pose proof (fold_last_spec l None) as H.
  destruct (fold_left step_last l None) as [c|].
  - destruct H as ([Hin|Hin] & Hall & _); [|discriminate]. exists c. auto.
  - destruct H as [_ ->]. destruct Hx.
Qed.

Lemma argmin_first_spec l : forall init,
  let c := argmin_first init l in
  (In c l \/ c = init) /\ norm2 (snd c) <= norm2 (snd init) /\
  (forall c', In c' l -> norm2 (snd c) <= norm2 (snd c')).
Proof.
  unfold argmin_first. induction l as [|x l IH]; intros init; cbn [fold_left].
  - repeat split; auto; try lia. intros c' [].
  - specialize (IH (step_first init x)). destruct IH as (Hin & Hle & Hall).
    unfold step_first in *. destruct (norm2 (snd x) <? norm2 (snd init)) eqn:E; repeat split.
    + destruct Hin as [Hin| ->]; [left; right; exact Hin | left; left; reflexivity].
    + lia.
    + intros c' [<-|Hc']; [exact Hle | apply Hall; exact Hc'].
    + destruct Hin as [Hin| ->]; [left; right; exact Hin | right; reflexivity].
    + exact Hle.
    + intros c' [<-|Hc']; [lia | apply Hall; exact Hc'].
Qed.

Lemma in_offsets27 o : In o offsets27 <->
  (vx o = -1 \/ vx o = 0 \/ vx o = 1) /\ (vy o = -1 \/ vy o = 0 \/ vy o = 1) /\ (vz o = -1 \/ vz o = 0 \/ vz o = 1).
Proof.
  destruct o as [[x y] z]. cbn [vx vy vz fst snd]. split.
  - intros H. cbv in H. repeat (destruct H as [H|H]; [injection H as <- <- <-; lia|]). destruct H.
  - intros ([-> | [-> | ->]] & [-> | [-> | ->]] & [-> | [-> | ->]]); cbv; tauto.
Qed.

Lemma cand_congruent B w o : snd (cand B w o) = vadd w (comb B o).
Proof. unfold cand. dall. veq. Qed.

Lemma cands_in B w c : In c (cands B w) -> In (fst c) offsets27 /\ snd c = vadd w (comb B (fst c)).
Proof.
  unfold cands. rewrite in_map_iff. intros (o & <- & Ho). split; [exact Ho | apply cand_congruent].
Qed.

Lemma cands_zero B w : In (cand B w vzero) (cands B w) /\ snd (cand B w vzero) = w.
Proof.
  split.
  - unfold cands. apply in_map. apply in_offsets27. cbn. lia.
  - rewrite cand_congruent, comb_zero, vadd_zero. reflexivity.
Qed.

(* both searches return one of the 27 candidates and it is no longer than any of them *)
Lemma search27_last B w :
  exists c, argmin_last (cands B w) = Some c /\ In c (cands B w) /\
            forall o, In o offsets27 -> norm2 (snd c) <= norm2 (vadd w (comb B o)).
Proof.
  destruct (argmin_last_spec (cands B w) _ (proj1 (cands_zero B w))) as (c & E & Hin & Hall).
  exists c. repeat split; auto. intros o Ho. rewrite <- cand_congruent. apply Hall.
  unfold cands. apply in_map. exact Ho.
Qed.

Lemma search27_first B w :
  let c := argmin_first (vzero, w) (cands B w) in
  In (fst c) offsets27 /\ snd c = vadd w (comb B (fst c)) /\
  forall o, In o offsets27 -> norm2 (snd c) <= norm2 (vadd w (comb B o)).
Proof.
  intros c. destruct (argmin_first_spec (cands B w) (vzero, w)) as (Hin & _ & Hall). fold c in Hin, Hall.
  repeat split.
  - destruct Hin as [Hin| ->]; [apply (cands_in B w c Hin) | apply in_offsets27; cbn; lia].
  - destruct Hin as [Hin| ->]; [apply (cands_in B w c Hin) |]. cbn [fst snd]. rewrite comb_zero, vadd_zero. reflexivity.
  - intros o Ho. rewrite <- cand_congruent. apply Hall. unfold cands. apply in_map. exact Ho.
Qed.

(* ------------------------------------------------------------------ the triclinic kernel *)
(* uniform view of the two variants: offset in the 27 candidates, congruent, minimal among the 27 *)
Definition tric_result (rn : Z -> Z -> Z) (B : box) (r : vec) (c : vec * vec) : Prop :=
  let B' := reduce rn B in let w := wrap rn B' r in
  In (fst c) offsets27 /\ snd c = vadd w (comb B' (fst c)) /\
  forall o, In o offsets27 -> norm2 (snd c) <= norm2 (vadd w (comb B' o)).

Lemma tric_last_result rn B r : tric_result rn B r (tric_last rn B r).
Proof.
  unfold tric_result, tric_last. cbv zeta.
  destruct (search27_last (reduce rn B) (wrap rn (reduce rn B) r)) as (c & -> & Hin & Hall).
  destruct (cands_in _ _ _ Hin). auto.
Qed.

Lemma tric_first_result rn B r : tric_result rn B r (tric_first rn B r).
Proof. unfold tric_result, tric_first. cbv zeta. apply search27_first. Qed.

Lemma tric_congruent_gen rn B r c : tric_result rn B r c ->
  snd c = vadd r (comb B (tric_coef rn B r (fst c))).
Proof.
  intros (_ & E & _). cbv zeta in E. rewrite E. unfold tric_coef.
  rewrite <- reduce_comb, comb_add, <- vadd_assoc, <- wrap_congruent. reflexivity.
Qed.

(* the result is an image, hence never shorter than the shortest image *)
Lemma tric_never_below_gen rn B r c m : tric_result rn B r c ->
  (forall n, m <= norm2 (vadd r (comb B n))) -> m <= norm2 (snd c).
Proof. intros H Hm. rewrite (tric_congruent_gen rn B r c H). apply Hm. Qed.

(* cell widths never exceed the diagonal entries (compared as squares, times positive factors) *)
Lemma width_le_diag B : lower_tri_pos B ->
  vol B = vx (ba B) * vy (bb B) * vz (bc B) /\
  vol B * vol B <= (vx (ba B) * vx (ba B)) * norm2 (cross (bb B) (bc B)) /\
  vol B * vol B <= (vy (bb B) * vy (bb B)) * norm2 (cross (bc B) (ba B)) /\
  vol B * vol B = (vz (bc B) * vz (bc B)) * norm2 (cross (ba B) (bb B)).
Proof.
  intros [Hl Hd]. unfold vol. dall. vunf. bools. subst. repeat split; try ring.
  - match goal with |- _ <= ?a * ?a * (?p * ?p + ?q * ?q + ?s * ?s) =>
      pose proof (Z.square_nonneg (a * q)); pose proof (Z.square_nonneg (a * s)) end. nia.
  - match goal with |- _ <= ?a * ?a * (?p * ?p + ?q * ?q + ?s * ?s) =>
      pose proof (Z.square_nonneg (a * p)); pose proof (Z.square_nonneg (a * s)) end. nia.
Qed.

Lemma norm2_ge_comp v : vx v * vx v <= norm2 v /\ vy v * vy v <= norm2 v /\ vz v * vz v <= norm2 v.
Proof.
  dall. vunf.
  match goal with |- ?x * ?x <= _ /\ ?y * ?y <= _ /\ ?z * ?z <= _ =>
    pose proof (Z.square_nonneg x); pose proof (Z.square_nonneg y); pose proof (Z.square_nonneg z) end. lia.
Qed.

Lemma scaled_lt (x n a P Q : Z) : 0 < a -> 0 < P -> x * x <= n -> P <= Q -> 4 * n * Q < a * a * P -> 2 * Z.abs x < a.
Proof.
  intros Ha HP Hx HPQ H. apply sq_lt_abs; [assumption|].
  assert (0 <= n) by (pose proof (Z.square_nonneg x); lia).
  assert (4 * (x * x) * P < a * a * P) by nia.
  nia.
Qed.

(* a vector shorter than half of every cell width lies strictly inside the wrap region *)
Lemma half_width_strict B v : lower_tri_pos B -> below_half_widths B v -> strict_region B v.
Proof.
  intros HB (H1 & H2 & H3). destruct (width_le_diag B HB) as (Hv & _).
  destruct (norm2_ge_comp v) as (Nx & Ny & Nz).
  destruct HB as [Hl Hd]. unfold vol in *. dall. vunf. bools. subst.
  match goal with Ha : 0 < ?ax, Hb : 0 < ?by_, Hc : 0 < ?cz |- 2 * Z.abs ?x < ?ax /\ 2 * Z.abs ?y < ?by_ /\ 2 * Z.abs ?z < ?cz =>
    set (n := x * x + y * y + z * z) in *;
    assert (0 < by_ * cz) by nia; assert (0 < ax * cz) by nia; assert (0 < ax * by_) by nia;
    repeat split
  end.
  - match goal with |- 2 * Z.abs ?x < ?ax => match type of H1 with 4 * n * ?Q < _ =>
      match goal with Hb : 0 < ?by_, Hc : 0 < ?cz |- _ =>
        apply (scaled_lt x n ax ((by_ * cz) * (by_ * cz)) Q); try assumption; try nia end end end.
  - match goal with |- 2 * Z.abs ?y < ?by_ => match type of H2 with 4 * n * ?Q < _ =>
      match goal with Ha : 0 < ?ax, Hc : 0 < ?cz |- _ =>
        apply (scaled_lt y n by_ ((ax * cz) * (ax * cz)) Q); try assumption; try nia end end end.
  - match goal with |- 2 * Z.abs ?z < ?cz => match type of H3 with 4 * n * ?Q < _ =>
      match goal with Ha : 0 < ?ax, Hb : 0 < ?by_ |- _ =>
        apply (scaled_lt z n cz ((ax * by_) * (ax * by_)) Q); try assumption; try nia end end end.
Qed.
