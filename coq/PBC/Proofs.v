(* Theorems about the minimum-image model (C05).  All over Z, closed under the global context. *)
From Coq Require Import ZArith List Bool Lia ZifyBool.
Import ListNotations.
Require Import MD.PBC.Model MD.PBC.Rounding.
Open Scope Z_scope.

(* ------------------------------------------------------------------ vocabulary *)
Definition lower_tri_pos (B : box) : Prop := lower_trib B = true /\ diag_posb B = true.
Definition ortho_pos (B : box) : Prop := is_orthob B = true /\ diag_posb B = true.

(* the region the sequential wrap maps into: |x| <= ax/2, |y| <= by/2, |z| <= cz/2 *)
Definition in_region (B : box) (w : vec) : Prop :=
  2 * Z.abs (vx w) <= vx (ba B) /\ 2 * Z.abs (vy w) <= vy (bb B) /\ 2 * Z.abs (vz w) <= vz (bc B).
Definition strict_region (B : box) (w : vec) : Prop :=
  2 * Z.abs (vx w) < vx (ba B) /\ 2 * Z.abs (vy w) < vy (bb B) /\ 2 * Z.abs (vz w) < vz (bc B).

(* v is an image of the separation r in the cell B *)
Definition image_of (B : box) (r v : vec) : Prop := exists n, v = vadd r (comb B n).

(* cell volume and the three cell widths V/|b x c|, V/|c x a|, V/|a x b| (compared as squares) *)
Definition vol (B : box) : Z := dot (ba B) (cross (bb B) (bc B)).
Definition below_half_widths (B : box) (v : vec) : Prop :=
  4 * norm2 v * norm2 (cross (bb B) (bc B)) < vol B * vol B /\
  4 * norm2 v * norm2 (cross (bc B) (ba B)) < vol B * vol B /\
  4 * norm2 v * norm2 (cross (ba B) (bb B)) < vol B * vol B.

Lemma vec_ext (u v : vec) : vx u = vx v -> vy u = vy v -> vz u = vz v -> u = v.
Proof. destruct u as [[? ?] ?], v as [[? ?] ?]. cbn. intros -> -> ->. reflexivity. Qed.

Ltac dall :=
  repeat match goal with
         | B : box |- _ => destruct B as [? ? ?]
         | v : vec |- _ => destruct v as [[? ?] ?]
         end.
Ltac vunf :=
  unfold lower_tri_pos, ortho_pos, in_region, strict_region, is_orthob, lower_trib, diag_posb, comb, vadd, vsub,
         vscale, vneg, vzero, norm2, dot, cross, vx, vy, vz in *;
  cbn [ba bb bc fst snd] in *.
Ltac veq := apply vec_ext; vunf; ring.

(* ------------------------------------------------------------------ algebra of comb *)
Lemma comb_add B n m : comb B (vadd n m) = vadd (comb B n) (comb B m).
Proof. dall. veq. Qed.

Lemma comb_zero B : comb B vzero = vzero.
Proof. dall. veq. Qed.

Lemma vadd_zero v : vadd v vzero = v.
Proof. dall. veq. Qed.

Lemma vadd_assoc u v w : vadd (vadd u v) w = vadd u (vadd v w).
Proof. dall. veq. Qed.

(* ------------------------------------------------------------------ orthorhombic kernel *)
Lemma ortho_congruent rn B r : ortho_pos B -> mic_ortho rn B r = vadd r (comb B (mic_ortho_coef rn B r)).
Proof.
  intros [Ho _]. unfold mic_ortho, mic_ortho_coef, mic1. dall. vunf.
  repeat (apply andb_true_iff in Ho; destruct Ho as [Ho ?]).
  repeat match goal with H : (_ =? _) = true |- _ => apply Z.eqb_eq in H; subst end.
  apply vec_ext; cbn [fst snd]; ring.
Qed.

Lemma ortho_minimal rn B r n : is_rounding rn -> ortho_pos B ->
  norm2 (mic_ortho rn B r) <= norm2 (vadd r (comb B n)).
Proof.
  intros Hr [Ho Hd]. unfold mic_ortho. dall. vunf.
  repeat (apply andb_true_iff in Ho; destruct Ho as [Ho ?]).
  repeat (apply andb_true_iff in Hd; destruct Hd as [Hd ?]).
  repeat match goal with H : (_ =? _) = true |- _ => apply Z.eqb_eq in H; subst end.
  repeat match goal with H : (_ <? _) = true |- _ => apply Z.ltb_lt in H end.
  match goal with |- ?a * ?a + ?b * ?b + ?c * ?c <= _ =>
    match goal with |- context [?rx + (?i * ?ax + _ + _)] => pose proof (mic1_min rn rx ax (- i) Hr ltac:(assumption)) as H1 end
  end.
  match goal with n : (Z * Z * Z)%type |- _ => idtac | _ => idtac end.
  lazymatch goal with
  | |- mic1 rn ?rx ?ax * _ + mic1 rn ?ry ?by_ * _ + mic1 rn ?rz ?cz * _ <=
       (?rx + (?i * ?ax + ?j * 0 + ?k * 0)) * _ + (?ry + (?i * 0 + ?j * ?by_ + ?k * 0)) * _ + _ =>
      pose proof (mic1_min rn ry by_ (- j) Hr ltac:(assumption)) as H2;
      pose proof (mic1_min rn rz cz (- k) Hr ltac:(assumption)) as H3;
      replace (rx + (i * ax + j * 0 + k * 0)) with (rx - - i * ax) by ring;
      replace (ry + (i * 0 + j * by_ + k * 0)) with (ry - - j * by_) by ring;
      replace (rz + (i * 0 + j * 0 + k * cz)) with (rz - - k * cz) by ring
  end.
  lia.
Qed.
