(* C05 — the loops and flat buffers of PBC/Kernel.v refine the abstract model of PBC/Model.v. *)
From Coq Require Import ZArith List Bool Lia.
Import ListNotations.
Require Import MD.PBC.Model MD.PBC.Rounding MD.PBC.Proofs MD.PBC.Kernel.
Open Scope Z_scope.

(* ------------------------------------------------------------------ C for-loops *)
Lemma for_fuel_fold {S : Type} (body : Z -> S -> S) hi : forall fuel x s,
  Z.of_nat fuel = Z.max 0 (hi - x) ->
  for_fuel fuel x hi body s = fold_left (fun s x => body x s) (map (fun k => x + Z.of_nat k) (seq 0 fuel)) s.
Proof.
  induction fuel as [|f IH]; intros x s Hf; [reflexivity|].
  cbn [for_fuel seq map fold_left].
  assert (Hx : x <? hi = true) by (apply Z.ltb_lt; lia).
  rewrite Hx. replace (x + Z.of_nat 0) with x by lia.
  rewrite IH by lia. rewrite <- seq_shift, map_map.
  f_equal. apply map_ext. intros k. lia.
Qed.

Lemma for_z_fold {S : Type} lo hi (body : Z -> S -> S) s :
  for_z lo hi body s = fold_left (fun s x => body x s) (zrange lo hi) s.
Proof. unfold for_z, zrange. apply for_fuel_fold. lia. Qed.

Lemma zrange_snoc lo hi : lo <= hi -> zrange lo (hi + 1) = zrange lo hi ++ [hi].
Proof.
  intros H. unfold zrange. replace (Z.to_nat (hi + 1 - lo)) with (Datatypes.S (Z.to_nat (hi - lo))) by lia.
  rewrite seq_S, map_app. cbn [map Nat.add]. do 2 f_equal. lia.
Qed.

Lemma for_z_snoc {S : Type} lo hi (body : Z -> S -> S) s : lo <= hi ->
  for_z lo (hi + 1) body s = body hi (for_z lo hi body s).
Proof. intros H. rewrite !for_z_fold, zrange_snoc by exact H. rewrite fold_left_app. reflexivity. Qed.

Lemma for_z_empty {S : Type} lo (body : Z -> S -> S) s : for_z lo lo body s = s.
Proof. unfold for_z. rewrite Z.sub_diag. reflexivity. Qed.

Lemma image_range : zrange image_lo image_hi = offs.
Proof. reflexivity. Qed.

Lemma fold_left_flat_map {A B S : Type} (f : S -> B -> S) (g : A -> list B) l : forall s,
  fold_left f (flat_map g l) s = fold_left (fun s x => fold_left f (g x) s) l s.
Proof.
  induction l as [|x l IH]; intros s; [reflexivity|].
  cbn [flat_map fold_left]. rewrite fold_left_app. apply IH.
Qed.

Lemma fold_left_map {A B S : Type} (f : S -> B -> S) (g : A -> B) l : forall s,
  fold_left f (map g l) s = fold_left (fun s x => f s (g x)) l s.
Proof. induction l as [|x l IH]; intros s; [reflexivity|]. cbn. apply IH. Qed.

Lemma fold_left_ext {A S : Type} (f g : S -> A -> S) l : (forall s x, f s x = g s x) -> forall s,
  fold_left f l s = fold_left g l s.
Proof. intros H. induction l as [|x l IH]; intros s; [reflexivity|]. cbn. rewrite H. apply IH. Qed.

(* ------------------------------------------------------------------ the image search *)
(* the three nested loops visit the candidates of the model in the model's order *)
Lemma image_loops_are_a_fold (step : vec -> option Z * vec -> option Z * vec) (rc : Z -> Z -> Z -> vec) lo hi s0 :
  for_z lo hi (fun x s => for_z lo hi (fun y s => for_z lo hi (fun z s => step (rc x y z) s) s) s) s0 =
  fold_left (fun s o => step (rc (vx o) (vy o) (vz o)) s)
            (flat_map (fun x => flat_map (fun y => map (fun z => (x, y, z)) (zrange lo hi)) (zrange lo hi)) (zrange lo hi)) s0.
Proof.
  rewrite for_z_fold, fold_left_flat_map. apply fold_left_ext. intros s x.
  rewrite for_z_fold, fold_left_flat_map. apply fold_left_ext. intros s' y.
  rewrite for_z_fold, fold_left_map. reflexivity.
Qed.

Definition proj_last (w : vec) (best : option (vec * vec)) : option Z * vec :=
  match best with None => (None, w) | Some c => (Some (norm2 (snd c)), snd c) end.
Definition proj_first (c : vec * vec) : option Z * vec := (Some (norm2 (snd c)), snd c).

Lemma image_step_last w best c : image_step true (snd c) (proj_last w best) = proj_last w (step_last best c).
Proof.
  destruct best as [b|]; cbn [proj_last step_last image_step fst snd]; [|reflexivity].
  destruct (norm2 (snd c) <=? norm2 (snd b)); reflexivity.
Qed.

Lemma image_step_first b c : image_step false (snd c) (proj_first b) = proj_first (step_first b c).
Proof.
  unfold proj_first, step_first, image_step. cbn [fst snd].
  destruct (norm2 (snd c) <? norm2 (snd b)); reflexivity.
Qed.

Lemma image_search_cpp_spec B w :
  image_search_cpp image_lo image_hi (ba B) (bb B) (bc B) w = proj_last w (argmin_last (cands B w)).
Proof.
  unfold image_search_cpp.
  rewrite (image_loops_are_a_fold (image_step true)
             (fun x y z => vadd (vadd (vadd w (vscale x (ba B))) (vscale y (bb B))) (vscale z (bc B)))).
  rewrite image_range. change (flat_map _ offs) with offsets27.
  unfold argmin_last, cands. rewrite fold_left_map.
  change (None, w) with (proj_last w None). generalize (@None (vec * vec)) as best.
  induction offsets27 as [|o l IH]; intros best; [reflexivity|].
  cbn [fold_left]. rewrite <- IH. f_equal.
  rewrite <- image_step_last. reflexivity.
Qed.

(* the kernel's per-pair result on the triclinic path: (min_dist2, min_r) of the model's tric_last *)
Lemma pair_tric_spec rn B r :
  pair_tric rn (reduce rn B) r = (Some (norm2 (snd (tric_last rn B r))), snd (tric_last rn B r)).
Proof.
  unfold pair_tric, tric_last. rewrite image_search_cpp_spec.
  destruct (search27_last (reduce rn B) (wrap rn (reduce rn B) r)) as (c & Ec & _).
  rewrite Ec. reflexivity.
Qed.

Lemma np_cand_eq B w ii jj kk :
  vadd (vadd w (vadd (vscale jj (bb B)) (vscale ii (ba B)))) (vscale kk (bc B)) = snd (cand B w (ii, jj, kk)).
Proof.
  destruct B as [[[? ?] ?] [[? ?] ?] [[? ?] ?]], w as [[? ?] ?].
  apply vec_ext; cbn; ring.
Qed.

Lemma image_search_np_spec B w :
  image_search_np image_lo image_hi (ba B) (bb B) (bc B) w = proj_first (argmin_first (vzero, w) (cands B w)).
Proof.
  unfold image_search_np.
  rewrite (image_loops_are_a_fold (image_step false)
             (fun ii jj kk => vadd (vadd w (vadd (vscale jj (bb B)) (vscale ii (ba B)))) (vscale kk (bc B)))).
  rewrite image_range. change (flat_map _ offs) with offsets27.
  unfold argmin_first, cands. rewrite fold_left_map.
  change (Some (norm2 w), w) with (proj_first (vzero, w)). generalize (vzero, w) as best.
  induction offsets27 as [|o l IH]; intros best; [reflexivity|].
  cbn [fold_left]. rewrite <- IH. f_equal.
  rewrite <- image_step_first. f_equal.
  destruct o as [[x y] z]. apply np_cand_eq.
Qed.

(* _distance_mic: the running minimum is the squared length of what _displacement_mic selects *)
Lemma image_min_np_spec B w :
  image_min_np image_lo image_hi (ba B) (bb B) (bc B) w = norm2 (snd (argmin_first (vzero, w) (cands B w))).
Proof.
  unfold image_min_np.
  pose (step := fun (rc : vec) (s : option Z * vec) => (option_map (fun d => Z.min d (norm2 rc)) (fst s), snd s)).
  pose (rcf := fun ii jj kk => vadd (vadd w (vadd (vscale jj (bb B)) (vscale ii (ba B)))) (vscale kk (bc B))).
  (* run the scalar loop inside the generic lemma by carrying the minimum in the first component *)
  assert (G : forall d0 : Z,
    (Some (for_z image_lo image_hi (fun ii d => for_z image_lo image_hi (fun jj d => for_z image_lo image_hi
       (fun kk d => Z.min d (norm2 (rcf ii jj kk))) d) d) d0), w) =
    for_z image_lo image_hi (fun x s => for_z image_lo image_hi (fun y s => for_z image_lo image_hi
       (fun z s => step (rcf x y z) s) s) s) (Some d0, w)).
  { intros d0. rewrite !for_z_fold. rewrite image_range. cbn [offs fold_left].
    rewrite !for_z_fold. rewrite image_range. cbn [offs fold_left].
    rewrite !for_z_fold. rewrite image_range. cbn [offs fold_left]. reflexivity. }
  specialize (G (norm2 w)). unfold rcf in G at 1.
  assert (E : for_z image_lo image_hi (fun x s => for_z image_lo image_hi (fun y s => for_z image_lo image_hi
       (fun z s => step (rcf x y z) s) s) s) (Some (norm2 w), w) =
       (Some (norm2 (snd (argmin_first (vzero, w) (cands B w)))), w)).
  { rewrite (image_loops_are_a_fold step rcf). rewrite image_range. change (flat_map _ offs) with offsets27.
    unfold argmin_first, cands. rewrite fold_left_map.
    change (norm2 w) with (norm2 (snd (vzero, w))) at 1. generalize (vzero, w) as best.
    induction offsets27 as [|o l IH]; intros best; [reflexivity|].
    cbn [fold_left]. rewrite <- IH. f_equal.
    unfold step. cbn [fst snd option_map]. f_equal. f_equal.
    unfold step_first, rcf. destruct o as [[x y] z]. cbn [vx vy vz fst snd].
    rewrite np_cand_eq.
    destruct (Z.ltb_spec (norm2 (snd (cand B w (x, y, z)))) (norm2 (snd best))); lia. }
  rewrite E in G. injection G as G. exact G.
Qed.

(* ------------------------------------------------------------------ flat buffers *)
Lemma rd_of_nat b j : rd b (Z.of_nat j) = nth_error b j.
Proof. unfold rd. destruct (Z.ltb_spec (Z.of_nat j) 0); [lia|]. rewrite Nat2Z.id. reflexivity. Qed.

Lemma nth_error_chunks {A : Type} (g : A -> list Z) (m : nat) l : (forall x, In x l -> length (g x) = m) ->
  forall i k, (k < m)%nat ->
  nth_error (flat_map g l) (i * m + k) = match nth_error l i with Some x => nth_error (g x) k | None => None end.
Proof.
  induction l as [|x l IH]; intros Hl i k Hk.
  - cbn. destruct i; destruct (_ + _)%nat; reflexivity.
  - cbn [flat_map]. destruct i as [|i].
    + cbn [nth_error Nat.mul Nat.add]. apply nth_error_app1. rewrite (Hl x) by (left; reflexivity). exact Hk.
    + cbn [nth_error]. rewrite nth_error_app2 by (rewrite (Hl x) by (left; reflexivity); lia).
      rewrite (Hl x) by (left; reflexivity).
      replace (Datatypes.S i * m + k - m)%nat with (i * m + k)%nat by lia.
      apply IH; [intros y Hy; apply Hl; right; exact Hy | exact Hk].
Qed.

Lemma flat3_length f : length (flat3 f) = (length f * 3)%nat.
Proof. induction f as [|v f IH]; [reflexivity|]. cbn [flat3 flat_map app length] in *. fold (flat3 f). lia. Qed.

Lemma rd3_flat3 f p : rd3 (flat3 f) (Z.of_nat p * 3) = nth_error f p.
Proof.
  unfold rd3.
  assert (H : forall k, (k < 3)%nat -> rd (flat3 f) (Z.of_nat p * 3 + Z.of_nat k) =
                                       match nth_error f p with Some v => nth_error [vx v; vy v; vz v] k | None => None end).
  { intros k Hk. replace (Z.of_nat p * 3 + Z.of_nat k) with (Z.of_nat (p * 3 + k)) by lia.
    rewrite rd_of_nat. apply (nth_error_chunks (fun v => [vx v; vy v; vz v]) 3 f); [reflexivity | exact Hk]. }
  pose proof (H 0%nat ltac:(lia)) as H0. pose proof (H 1%nat ltac:(lia)) as H1. pose proof (H 2%nat ltac:(lia)) as H2.
  cbn [Z.of_nat Pos.of_succ_nat Pos.succ] in H0, H1, H2. rewrite Z.add_0_r in H0. rewrite H0, H1, H2.
  destruct (nth_error f p) as [[[x y] z]|]; reflexivity.
Qed.

(* the xyz buffer holds frame fi at offset fi*n_atoms*3 *)
Definition xyz_ok (xb : buf) (xyz : list frame) (n_atoms : Z) : Prop :=
  forall fi f p, nth_error xyz fi = Some f -> 0 <= p < n_atoms ->
    rd3 xb (Z.of_nat fi * n_atoms * 3 + 3 * p) = nth_error f (Z.to_nat p).

Lemma flat_xyz_ok (xyz : list frame) n : Forall (fun f : frame => length f = n) xyz -> xyz_ok (flat_xyz xyz) xyz (Z.of_nat n).
Proof.
  intros Hn fi f p Hf Hp. unfold rd3.
  assert (H : forall k, (k < 3)%nat -> rd (flat_xyz xyz) (Z.of_nat fi * Z.of_nat n * 3 + 3 * p + Z.of_nat k) =
                                       rd (flat3 f) (Z.of_nat (Z.to_nat p) * 3 + Z.of_nat k)).
  { intros k Hk.
    replace (Z.of_nat fi * Z.of_nat n * 3 + 3 * p + Z.of_nat k) with (Z.of_nat (fi * (n * 3) + (Z.to_nat p * 3 + k))) by lia.
    replace (Z.of_nat (Z.to_nat p) * 3 + Z.of_nat k) with (Z.of_nat (Z.to_nat p * 3 + k)) by lia.
    rewrite !rd_of_nat. unfold flat_xyz.
    rewrite (nth_error_chunks flat3 (n * 3) xyz).
    - rewrite Hf. reflexivity.
    - intros g Hg. rewrite flat3_length. rewrite Forall_forall in Hn. rewrite (Hn g Hg). reflexivity.
    - lia. }
  pose proof (rd3_flat3 f (Z.to_nat p)) as R. unfold rd3 in R.
  pose proof (H 0%nat ltac:(lia)) as H0. pose proof (H 1%nat ltac:(lia)) as H1. pose proof (H 2%nat ltac:(lia)) as H2.
  cbn [Z.of_nat Pos.of_succ_nat Pos.succ] in H0, H1, H2. rewrite !Z.add_0_r in H0.
  replace (Z.of_nat fi * Z.of_nat n * 3 + 3 * p + 2) with (Z.of_nat fi * Z.of_nat n * 3 + 3 * p + 1 + 1) in H2 by lia.
  replace (Z.of_nat (Z.to_nat p) * 3 + 2) with (Z.of_nat (Z.to_nat p) * 3 + 1 + 1) in H2 by lia.
  replace (Z.of_nat fi * Z.of_nat n * 3 + 3 * p + 2) with (Z.of_nat fi * Z.of_nat n * 3 + 3 * p + 1 + 1) by lia.
  rewrite H0, H1, H2.
  replace (Z.of_nat (Z.to_nat p) * 3 + 1 + 1) with (Z.of_nat (Z.to_nat p) * 3 + 2) by lia. exact R.
Qed.

(* a flat list of index pairs *)
Definition pairs_ok (pb : buf) (pairs : list (Z * Z)) : Prop :=
  forall j pr, nth_error pairs j = Some pr ->
    rd pb (pair_stride * Z.of_nat j + 0) = Some (fst pr) /\ rd pb (pair_stride * Z.of_nat j + 1) = Some (snd pr).

Lemma flat_pairs_ok pairs : pairs_ok (flat_pairs pairs) pairs.
Proof.
  intros j pr Hj. unfold pair_stride.
  replace (2 * Z.of_nat j + 0) with (Z.of_nat (j * 2 + 0)) by lia.
  replace (2 * Z.of_nat j + 1) with (Z.of_nat (j * 2 + 1)) by lia.
  rewrite !rd_of_nat. unfold flat_pairs.
  rewrite !(nth_error_chunks (fun p : Z * Z => [fst p; snd p]) 2 pairs) by (try reflexivity; lia).
  rewrite Hj. split; reflexivity.
Qed.

Lemma pairs_ok_app pb l x : pairs_ok pb (l ++ [x]) -> pairs_ok pb l.
Proof. intros H j pr Hj. apply H. rewrite nth_error_app1; [exact Hj | apply nth_error_Some; congruence]. Qed.

(* ------------------------------------------------------------------ the pair loop *)
Definition atom (f : frame) (p : Z) : vec := nth (Z.to_nat p) f vzero.
Definition pair_spec (kb : kbox) (f1 f2 : frame) (pr : Z * Z) : outrec :=
  pair_body kb (vsub (atom f2 (snd pr)) (atom f1 (fst pr))).

Lemma nth_error_atom f p n : length f = n -> 0 <= p < Z.of_nat n -> nth_error f (Z.to_nat p) = Some (atom f p).
Proof. intros Hl Hp. unfold atom. apply nth_error_nth'. lia. Qed.

Lemma pair_loop_spec kb xb pb base1 base2 n f1 f2 :
  length f1 = n -> length f2 = n ->
  (forall p, 0 <= p < Z.of_nat n -> rd3 xb (base1 + xyz_stride * p) = nth_error f1 (Z.to_nat p)) ->
  (forall p, 0 <= p < Z.of_nat n -> rd3 xb (base2 + xyz_stride * p) = nth_error f2 (Z.to_nat p)) ->
  forall pairs acc, pairs_ok pb pairs -> valid_pairs (Z.of_nat n) pairs = true ->
  pair_loop kb xb pb base1 base2 (zlen pairs) (Some acc) = Some (acc ++ map (pair_spec kb f1 f2) pairs).
Proof.
  intros Hl1 Hl2 H1 H2 pairs. induction pairs as [|pr pairs IH] using rev_ind; intros acc Hpb Hv.
  - unfold pair_loop, zlen. cbn [length Z.of_nat]. rewrite for_z_empty, app_nil_r. reflexivity.
  - unfold valid_pairs in Hv. rewrite forallb_app in Hv. apply andb_true_iff in Hv. destruct Hv as [Hv Hpr].
    cbn [forallb] in Hpr. rewrite andb_true_r in Hpr. apply andb_true_iff in Hpr. destruct Hpr as [Hp1 Hp2].
    unfold valid_idx in Hp1, Hp2.
    assert (B1 : 0 <= fst pr < Z.of_nat n) by lia. assert (B2 : 0 <= snd pr < Z.of_nat n) by lia.
    unfold pair_loop, zlen in *. rewrite app_length. cbn [length].
    replace (Z.of_nat (length pairs + 1)) with (Z.of_nat (length pairs) + 1) by lia.
    rewrite for_z_snoc by lia. rewrite (IH acc (pairs_ok_app _ _ _ Hpb) Hv).
    destruct (Hpb (length pairs) pr) as [R1 R2]; [rewrite nth_error_app2, Nat.sub_diag by lia; reflexivity|].
    rewrite R1, R2, (H1 _ B1), (H2 _ B2).
    rewrite (nth_error_atom f1 _ n Hl1 B1), (nth_error_atom f2 _ n Hl2 B2).
    rewrite map_app, app_assoc. reflexivity.
Qed.

(* ------------------------------------------------------------------ the cell prologue *)
Definition kbox_of (k : kkind) (B : box) : kbox :=
  match k with
  | KPlain => BNone
  | KOrtho => BOrtho (vx (ba B), vy (bb B), vz (bc B))
  | KTric => BTric (reduce rnd_haz B)
  end.

Definition handed (bs : list box) : buf := flat_mats (map (fun B => transpose9 (box_to_mat B)) bs).

Lemma rd_handed bs i B c : nth_error bs i = Some B -> (c < 9)%nat ->
  rd (handed bs) (Z.of_nat i * box_stride + Z.of_nat c) = nth_error (transpose9 (box_to_mat B)) c.
Proof.
  intros Hi Hc. unfold box_stride, handed, flat_mats. rewrite <- flat_map_concat_map.
  replace (Z.of_nat i * 9 + Z.of_nat c) with (Z.of_nat (i * 9 + c)) by lia. rewrite rd_of_nat.
  rewrite (nth_error_chunks (fun B0 => transpose9 (box_to_mat B0)) 9 bs) by (try reflexivity; exact Hc).
  rewrite Hi. reflexivity.
Qed.

Lemma load_box_handed k bs i B : k <> KPlain -> nth_error bs i = Some B ->
  load_box k (handed bs) (Z.of_nat i * box_stride) = Some (kbox_of k B).
Proof.
  intros Hk Hi. destruct k; [congruence| |].
  - unfold load_box, rdv, ortho_idx. cbn [fst snd].
    rewrite !(rd_handed bs i B) by (exact Hi || lia).
    destruct B as [[[? ?] ?] [[? ?] ?] [[? ?] ?]]. reflexivity.
  - unfold load_box, rdv, tric_idx1, tric_idx2, tric_idx3. cbn [fst snd].
    rewrite !(rd_handed bs i B) by (exact Hi || lia).
    destruct B as [[[? ?] ?] [[? ?] ?] [[? ?] ?]]. reflexivity.
Qed.

(* ------------------------------------------------------------------ the frame loop (dist, dist_mic, dist_mic_triclinic) *)
Definition frame_ok (k : kkind) (xb bbuf : buf) (n : nat) (i : nat) (fB : frame * box) : Prop :=
  length (fst fB) = n /\
  (forall p, 0 <= p < Z.of_nat n -> rd3 xb (Z.of_nat i * Z.of_nat n * 3 + 3 * p) = nth_error (fst fB) (Z.to_nat p)) /\
  load_box k bbuf (match k with KPlain => 0 | _ => Z.of_nat i * box_stride end) = Some (kbox_of k (snd fB)).

Definition frames_body (k : kkind) (xb pb bbuf : buf) (n_atoms n_pairs : Z) := fun (_ : Z) (st : kstate) =>
    let '(xoff, boff, out) := st in
    match load_box k bbuf boff with
    | None => (xoff, boff, None)
    | Some kb =>
        let out' := pair_loop kb xb pb xoff xoff n_pairs out in
        (xoff + n_atoms * xyz_stride, (match k with KPlain => boff | _ => boff + box_stride end), out')
    end.

Lemma frames_loop_spec k xb pb bbuf n pairs : pairs_ok pb pairs -> valid_pairs (Z.of_nat n) pairs = true ->
  forall items, (forall i fB, nth_error items i = Some fB -> frame_ok k xb bbuf n i fB) ->
  for_z 0 (zlen items) (frames_body k xb pb bbuf (Z.of_nat n) (zlen pairs)) (0, 0, Some []) =
  (zlen items * (Z.of_nat n * 3), match k with KPlain => 0 | _ => zlen items * box_stride end,
   Some (flat_map (fun fB => map (pair_spec (kbox_of k (snd fB)) (fst fB) (fst fB)) pairs) items)).
Proof.
  intros Hpb Hv items. induction items as [|fB items IH] using rev_ind; intros Hok.
  - unfold zlen. cbn [length Z.of_nat]. rewrite for_z_empty. destruct k; reflexivity.
  - assert (Hok' : forall i fB0, nth_error items i = Some fB0 -> frame_ok k xb bbuf n i fB0).
    { intros i fB0 Hi. apply Hok. rewrite nth_error_app1; [exact Hi | apply nth_error_Some; congruence]. }
    destruct (Hok (length items) fB) as (Hl & Hx & Hb); [rewrite nth_error_app2, Nat.sub_diag by lia; reflexivity|].
    unfold zlen in *. rewrite app_length. cbn [length].
    replace (Z.of_nat (length items + 1)) with (Z.of_nat (length items) + 1) by lia.
    rewrite for_z_snoc by lia. rewrite (IH Hok'). unfold frames_body at 1.
    assert (Hb' : load_box k bbuf (match k with KPlain => 0 | _ => Z.of_nat (length items) * box_stride end) =
                  Some (kbox_of k (snd fB))) by exact Hb.
    rewrite Hb'.
    assert (Hx' : forall p, 0 <= p < Z.of_nat n ->
              rd3 xb (Z.of_nat (length items) * (Z.of_nat n * 3) + xyz_stride * p) = nth_error (fst fB) (Z.to_nat p)).
    { intros p Hp. rewrite <- (Hx p Hp). f_equal. unfold xyz_stride. ring. }
    rewrite (pair_loop_spec _ xb pb _ _ n (fst fB) (fst fB) Hl Hl Hx' Hx' pairs _ Hpb Hv).
    rewrite flat_map_app. cbn [flat_map]. rewrite app_nil_r.
    f_equal. f_equal.
    + unfold xyz_stride. ring.
    + destruct k; try reflexivity; unfold box_stride; ring.
Qed.

(* ------------------------------------------------------------------ the time-pair loop (dist_t, dist_mic_t, dist_mic_triclinic_t) *)
Definition times_body (k : kkind) (xb pb tb bbuf : buf) (n_atoms n_pairs : Z) :=
  fun (i : Z) (st : Z * option (list outrec)) =>
    let '(boff, out) := st in
    match rd tb (pair_stride * i + 0), rd tb (pair_stride * i + 1) with
    | Some t1, Some t2 =>
        let box_offset := t1 * box_stride in
        let boff1 := boff + box_offset in
        match load_box k bbuf boff1 with
        | None => (boff, None)
        | Some kb =>
            let out' := pair_loop kb xb pb (xyz_stride * n_atoms * t1) (xyz_stride * n_atoms * t2) n_pairs out in
            (boff1 - box_offset, out')
        end
    | _, _ => (boff, None)
    end.

Definition frame_at (xyz : list frame) (t : Z) : frame := nth (Z.to_nat t) xyz [].
Definition box_of (bs : list box) (t : Z) : box := nth (Z.to_nat t) bs (mkbox vzero vzero vzero).

Lemma times_loop_spec k xb pb tb bbuf n pairs (xyz : list frame) (bs : list box) :
  pairs_ok pb pairs -> valid_pairs (Z.of_nat n) pairs = true ->
  Forall (fun f : frame => length f = n) xyz -> xyz_ok xb xyz (Z.of_nat n) ->
  (forall t, 0 <= t < zlen xyz ->
     load_box k bbuf (match k with KPlain => 0 | _ => t * box_stride end) = Some (kbox_of k (box_of bs t))) ->
  forall times, pairs_ok tb times -> valid_pairs (zlen xyz) times = true ->
  for_z 0 (zlen times) (times_body k xb pb tb bbuf (Z.of_nat n) (zlen pairs)) (0, Some []) =
  (0, Some (flat_map (fun t => map (pair_spec (kbox_of k (box_of bs (fst t))) (frame_at xyz (fst t)) (frame_at xyz (snd t)))
                                  pairs) times)).
Proof.
  intros Hpb Hv Hn Hx Hb times. induction times as [|t times IH] using rev_ind; intros Htb Htv.
  - unfold zlen. cbn [length Z.of_nat]. rewrite for_z_empty. reflexivity.
  - unfold valid_pairs in Htv. rewrite forallb_app in Htv. apply andb_true_iff in Htv. destruct Htv as [Htv Ht].
    cbn [forallb] in Ht. rewrite andb_true_r in Ht. apply andb_true_iff in Ht. destruct Ht as [Ht1 Ht2].
    unfold valid_idx in Ht1, Ht2.
    assert (B1 : 0 <= fst t < zlen xyz) by lia. assert (B2 : 0 <= snd t < zlen xyz) by lia.
    unfold zlen in *. rewrite app_length. cbn [length].
    replace (Z.of_nat (length times + 1)) with (Z.of_nat (length times) + 1) by lia.
    rewrite for_z_snoc by lia. rewrite (IH (pairs_ok_app _ _ _ Htb) Htv). unfold times_body at 1.
    destruct (Htb (length times) t) as [R1 R2]; [rewrite nth_error_app2, Nat.sub_diag by lia; reflexivity|].
    rewrite R1, R2.
    assert (Hb' : load_box k bbuf (0 + fst t * box_stride) = Some (kbox_of k (box_of bs (fst t)))).
    { rewrite Z.add_0_l. rewrite <- (Hb (fst t) B1). destruct k; reflexivity. }
    rewrite Hb'.
    assert (Hf : forall t0, 0 <= t0 < Z.of_nat (length xyz) ->
              length (frame_at xyz t0) = n /\
              forall p, 0 <= p < Z.of_nat n ->
                rd3 xb (xyz_stride * Z.of_nat n * t0 + xyz_stride * p) = nth_error (frame_at xyz t0) (Z.to_nat p)).
    { intros t0 Ht0. assert (E : nth_error xyz (Z.to_nat t0) = Some (frame_at xyz t0)) by (apply nth_error_nth'; apply Nat2Z.inj_lt; rewrite Z2Nat.id; apply Ht0).
      split.
      - rewrite Forall_forall in Hn. apply Hn. eapply nth_error_In. exact E.
      - intros p Hp. rewrite <- (Hx _ _ p E Hp). f_equal. unfold xyz_stride. rewrite Z2Nat.id by lia. ring. }
    destruct (Hf _ B1) as [L1 X1]. destruct (Hf _ B2) as [L2 X2].
    rewrite (pair_loop_spec _ xb pb _ _ n _ _ L1 L2 X1 X2 pairs _ Hpb Hv).
    rewrite flat_map_app. cbn [flat_map]. rewrite app_nil_r.
    f_equal. lia.
Qed.

(* ------------------------------------------------------------------ per-pair results are the model's path results *)
Definition entry (p : path) (B : box) (r : vec) : outrec := (Some (norm2 (path_disp p B r)), path_disp p B r).

Lemma pair_body_plain B r : pair_body (kbox_of KPlain B) r = entry PPlain B r.
Proof. reflexivity. Qed.

Lemma pair_body_ortho B r : pair_body (kbox_of KOrtho B) r = entry POrthoSSE B r.
Proof. destruct B as [[[? ?] ?] [[? ?] ?] [[? ?] ?]], r as [[? ?] ?]. reflexivity. Qed.

Lemma pair_body_tric B r : pair_body (kbox_of KTric B) r = entry PTricCpp B r.
Proof.
  cbn [pair_body kbox_of]. rewrite pair_tric_spec. unfold entry. rewrite path_tric_cpp. reflexivity.
Qed.

Lemma np_box_handed B : np_box (transpose9 (box_to_mat B)) = B.
Proof. destruct B as [[[? ?] ?] [[? ?] ?] [[? ?] ?]]. reflexivity. Qed.

Lemma np_pair_ortho B r : np_pair true (np_box (transpose9 (box_to_mat B))) r = entry POrthoNp B r.
Proof. rewrite np_box_handed. reflexivity. Qed.

Lemma np_pair_tric B r : np_pair false (np_box (transpose9 (box_to_mat B))) r = entry PTricNp B r.
Proof. rewrite np_box_handed. unfold np_pair. rewrite image_search_np_spec. reflexivity. Qed.

(* _distance_mic(_t) report the length of what _displacement_mic reports *)
Lemma np_pair_dist_spec o B r : Some (np_pair_dist o B r) = fst (np_pair o B r).
Proof.
  unfold np_pair_dist, np_pair. destruct o; [reflexivity|].
  rewrite image_min_np_spec, image_search_np_spec. reflexivity.
Qed.

Definition kind_path (k : kkind) : path := match k with KPlain => PPlain | KOrtho => POrthoSSE | KTric => PTricCpp end.
Lemma pair_body_kind k B r : pair_body (kbox_of k B) r = entry (kind_path k) B r.
Proof. destruct k; [apply pair_body_plain | apply pair_body_ortho | apply pair_body_tric]. Qed.

(* ------------------------------------------------------------------ list plumbing *)
Lemma opt_all_map_some {A : Type} (l : list A) : opt_all (map Some l) = Some l.
Proof. induction l as [|x l IH]; [reflexivity|]. cbn [map opt_all]. rewrite IH. reflexivity. Qed.

Lemma flat_map_map_some {A B C : Type} (E : A -> B -> C) (l : list A) (ps : list B) :
  flat_map (fun t => map (fun pr => Some (E t pr)) ps) l = map Some (flat_map (fun t => map (E t) ps) l).
Proof.
  induction l as [|t l IH]; [reflexivity|]. cbn [flat_map]. rewrite map_app, IH, map_map. reflexivity.
Qed.

Lemma flat_map_map' {A B C : Type} (f : B -> list C) (g : A -> B) l : flat_map f (map g l) = flat_map (fun x => f (g x)) l.
Proof. induction l as [|x l IH]; [reflexivity|]. cbn. rewrite IH. reflexivity. Qed.

Lemma flat_map_ext_in' {A B : Type} (f g : A -> list B) l : (forall x, In x l -> f x = g x) -> flat_map f l = flat_map g l.
Proof.
  induction l as [|x l IH]; intros H; [reflexivity|]. cbn [flat_map].
  rewrite (H x) by (left; reflexivity). rewrite IH by (intros y Hy; apply H; right; exact Hy). reflexivity.
Qed.

Lemma seq_lookup {X Y : Type} (H : X -> list Y) (d : list Y) l :
  flat_map (fun i => match nth_error l i with Some x => H x | None => d end) (seq 0 (length l)) = flat_map H l.
Proof.
  induction l as [|x l IH]; [reflexivity|].
  cbn [length seq flat_map nth_error]. rewrite <- seq_shift, flat_map_map'. cbn [nth_error]. rewrite IH. reflexivity.
Qed.

Lemma nth_error_combine {A B : Type} (l1 : list A) (l2 : list B) : forall i,
  nth_error (combine l1 l2) i =
  match nth_error l1 i, nth_error l2 i with Some a, Some b => Some (a, b) | _, _ => None end.
Proof.
  revert l2. induction l1 as [|a l1 IH]; intros l2 i.
  - destruct i; reflexivity.
  - destruct l2 as [|b l2]; [destruct i; cbn; [reflexivity | destruct (nth_error l1 i); reflexivity]|].
    destruct i; cbn; [reflexivity | apply IH].
Qed.

Lemma valid_pairs_spec n pairs : valid_pairs n pairs = true <->
  forall pr, In pr pairs -> 0 <= fst pr < n /\ 0 <= snd pr < n.
Proof.
  unfold valid_pairs, valid_idx. rewrite forallb_forall. split; intros H pr Hin; specialize (H pr Hin).
  - apply andb_true_iff in H. destruct H as [H1 H2].
    apply andb_true_iff in H1. apply andb_true_iff in H2. lia.
  - apply andb_true_iff; split; apply andb_true_iff; lia.
Qed.

Lemma sep_valid n f1 f2 pr : length f1 = n -> length f2 = n ->
  0 <= fst pr < Z.of_nat n -> 0 <= snd pr < Z.of_nat n ->
  sep f1 f2 (to_natpair pr) = Some (vsub (atom f2 (snd pr)) (atom f1 (fst pr))).
Proof.
  intros L1 L2 B1 B2. unfold sep, to_natpair. cbn [fst snd].
  rewrite (nth_error_atom f1 _ n L1 B1), (nth_error_atom f2 _ n L2 B2). reflexivity.
Qed.

Lemma kernel_frames_eq k xb pb bbuf nf na np :
  kernel_frames k xb pb bbuf nf na np = snd (for_z 0 nf (frames_body k xb pb bbuf na np) (0, 0, Some [])).
Proof. reflexivity. Qed.
Lemma kernel_times_eq k xb pb tb bbuf nt na np :
  kernel_times k xb pb tb bbuf nt na np = snd (for_z 0 nt (times_body k xb pb tb bbuf na np) (0, Some [])).
Proof. reflexivity. Qed.

(* ------------------------------------------------------------------ the API functions *)
Definition dummy_box : box := mkbox vzero vzero vzero.
Definition frame_items (periodic : bool) (xyz : list frame) (boxes : option (list box)) : list (frame * box) :=
  match periodic, boxes with
  | true, Some bs => combine xyz bs
  | _, _ => map (fun f : frame => (f, dummy_box)) xyz
  end.
Definition cell_at (periodic : bool) (boxes : option (list box)) (t : Z) : box :=
  match periodic, boxes with
  | true, Some bs => box_of bs t
  | _, _ => dummy_box
  end.
Definition api_shape (a : api) (rows : Z) (n_pairs : Z) : list Z :=
  match a with ApiDisplacements => [rows; n_pairs; 3] | _ => [rows; n_pairs] end.

Lemma zlen_nonempty {A : Type} (l : list A) : l <> [] -> (zlen l =? 0) = false.
Proof. intros H. destruct l; [congruence|]. unfold zlen. cbn [length]. apply Z.eqb_neq. lia. Qed.

(* the frame loop of the kernels on the buffers the glue hands over *)
Lemma call_kernel_frames k n (xyz : list frame) (bs : list box) pairs :
  Forall (fun f : frame => length f = n) xyz -> valid_pairs (Z.of_nat n) pairs = true ->
  (k <> KPlain -> length bs = length xyz) ->
  call_kernel k xyz bs pairs None (Z.of_nat n) =
  Some (flat_map (fun fB => map (fun pr => entry (kind_path k) (snd fB) (vsub (atom (fst fB) (snd pr)) (atom (fst fB) (fst pr)))) pairs)
                 (match k with KPlain => map (fun f : frame => (f, dummy_box)) xyz | _ => combine xyz bs end)).
Proof.
  intros Hn Hv Hl. unfold call_kernel. fold (handed bs). rewrite kernel_frames_eq.
  set (items := match k with KPlain => map (fun f : frame => (f, dummy_box)) xyz | _ => combine xyz bs end).
  assert (Hlen : zlen xyz = zlen items).
  { unfold zlen, items. destruct k; [rewrite map_length; reflexivity | |]; rewrite combine_length, Hl by congruence; f_equal; lia. }
  rewrite Hlen.
  rewrite (frames_loop_spec k (flat_xyz xyz) (flat_pairs pairs) (handed bs) n pairs (flat_pairs_ok pairs) Hv items).
  - cbn [snd]. f_equal. apply flat_map_ext. intros fB. apply map_ext. intros pr.
    unfold pair_spec. apply pair_body_kind.
  - intros i [f B] Hi. unfold frame_ok. cbn [fst snd].
    assert (Hf : nth_error xyz i = Some f /\ (k <> KPlain -> nth_error bs i = Some B)).
    { unfold items in Hi. destruct k.
      - split; [|congruence]. rewrite nth_error_map in Hi. destruct (nth_error xyz i); [injection Hi as <- _; reflexivity | discriminate].
      - rewrite nth_error_combine in Hi. destruct (nth_error xyz i), (nth_error bs i); try discriminate.
        injection Hi as <- <-. split; [reflexivity | intros _; reflexivity].
      - rewrite nth_error_combine in Hi. destruct (nth_error xyz i), (nth_error bs i); try discriminate.
        injection Hi as <- <-. split; [reflexivity | intros _; reflexivity]. }
    destruct Hf as [Hf HB]. split; [|split].
    + rewrite Forall_forall in Hn. apply Hn. eapply nth_error_In. exact Hf.
    + intros p Hp. apply (flat_xyz_ok xyz n Hn i f p Hf Hp).
    + destruct k; [reflexivity | |]; apply load_box_handed; (congruence || (apply HB; congruence)).
Qed.

Lemma call_kernel_times k n (xyz : list frame) (bs : list box) pairs times :
  Forall (fun f : frame => length f = n) xyz -> valid_pairs (Z.of_nat n) pairs = true ->
  valid_pairs (zlen xyz) times = true -> (k <> KPlain -> length bs = length xyz) ->
  call_kernel k xyz bs pairs (Some times) (Z.of_nat n) =
  Some (flat_map (fun t => map (fun pr =>
          entry (kind_path k) (box_of bs (fst t))
                (vsub (atom (frame_at xyz (snd t)) (snd pr)) (atom (frame_at xyz (fst t)) (fst pr)))) pairs) times).
Proof.
  intros Hn Hv Htv Hl. unfold call_kernel. fold (handed bs). rewrite kernel_times_eq.
  rewrite (times_loop_spec k (flat_xyz xyz) (flat_pairs pairs) (flat_pairs times) (handed bs) n pairs xyz bs
             (flat_pairs_ok pairs) Hv Hn (flat_xyz_ok xyz n Hn)).
  - cbn [snd]. f_equal. apply flat_map_ext. intros t. apply map_ext. intros pr. unfold pair_spec. apply pair_body_kind.
  - intros t Ht. destruct k; [reflexivity | |].
    all: replace t with (Z.of_nat (Z.to_nat t)) at 1 by lia; apply load_box_handed; [congruence|];
      unfold box_of; apply nth_error_nth'; rewrite Hl by congruence; unfold zlen in Ht; apply Nat2Z.inj_lt; rewrite Z2Nat.id; lia.
  - apply flat_pairs_ok.
  - exact Htv.
Qed.

(* the python loops of the opt=False branches *)
Lemma call_numpy_frames o n (xyz : list frame) (bs : list box) pairs :
  Forall (fun f : frame => length f = n) xyz -> valid_pairs (Z.of_nat n) pairs = true -> length bs = length xyz ->
  call_numpy o xyz bs pairs None =
  Some (flat_map (fun fB => map (fun pr => entry (if o then POrthoNp else PTricNp) (snd fB)
                                              (vsub (atom (fst fB) (snd pr)) (atom (fst fB) (fst pr)))) pairs)
                 (combine xyz bs)).
Proof.
  intros Hn Hv Hl. unfold call_numpy, rows_of. rewrite flat_map_map'. cbn [fst snd].
  assert (Hlc : length xyz = length (combine xyz bs)) by (rewrite combine_length, Hl; lia).
  rewrite Hlc.
  rewrite <- (opt_all_map_some (flat_map _ (combine xyz bs))). f_equal.
  rewrite <- flat_map_map_some.
  rewrite <- (seq_lookup (fun fB : frame * box => map (fun pr => Some (entry (if o then POrthoNp else PTricNp) (snd fB)
                          (vsub (atom (fst fB) (snd pr)) (atom (fst fB) (fst pr))))) pairs) [None] (combine xyz bs)).
  apply flat_map_ext. intros i. rewrite nth_error_combine.
  destruct (nth_error xyz i) as [f|] eqn:Ef; [|reflexivity].
  destruct (nth_error bs i) as [B|]; [|reflexivity]. cbn [fst snd].
  apply map_ext_in. intros pr Hin.
  assert (Lf : length f = n) by (rewrite Forall_forall in Hn; apply Hn; eapply nth_error_In; exact Ef).
  destruct (proj1 (valid_pairs_spec _ _) Hv pr Hin) as [B1 B2].
  rewrite (sep_valid n f f pr Lf Lf B1 B2). cbn [option_map np_sign]. f_equal.
  destruct o; [apply np_pair_ortho | apply np_pair_tric].
Qed.

Lemma plain_numpy_frames n (xyz : list frame) pairs :
  Forall (fun f : frame => length f = n) xyz -> valid_pairs (Z.of_nat n) pairs = true ->
  plain_numpy xyz pairs None =
  Some (flat_map (fun fB => map (fun pr => entry PPlain (snd fB) (vsub (atom (fst fB) (snd pr)) (atom (fst fB) (fst pr)))) pairs)
                 (map (fun f : frame => (f, dummy_box)) xyz)).
Proof.
  intros Hn Hv. unfold plain_numpy, rows_of. rewrite !flat_map_map'. cbn [fst snd].
  rewrite <- (opt_all_map_some (flat_map _ xyz)). f_equal.
  rewrite <- flat_map_map_some.
  rewrite <- (seq_lookup (fun f : frame => map (fun pr => Some (entry PPlain dummy_box
                          (vsub (atom f (snd pr)) (atom f (fst pr))))) pairs) [None] xyz).
  apply flat_map_ext. intros i.
  destruct (nth_error xyz i) as [f|] eqn:Ef; [|reflexivity].
  apply map_ext_in. intros pr Hin.
  assert (Lf : length f = n) by (rewrite Forall_forall in Hn; apply Hn; eapply nth_error_In; exact Ef).
  destruct (proj1 (valid_pairs_spec _ _) Hv pr Hin) as [B1 B2].
  rewrite (sep_valid n f f pr Lf Lf B1 B2). reflexivity.
Qed.

Lemma frame_lookup n (xyz : list frame) t : Forall (fun f : frame => length f = n) xyz -> 0 <= t < zlen xyz ->
  nth_error xyz (Z.to_nat t) = Some (frame_at xyz t) /\ length (frame_at xyz t) = n.
Proof.
  intros Hn Ht. assert (E : nth_error xyz (Z.to_nat t) = Some (frame_at xyz t)).
  { apply nth_error_nth'. unfold zlen in Ht. apply Nat2Z.inj_lt. rewrite Z2Nat.id; lia. }
  split; [exact E|]. rewrite Forall_forall in Hn. apply Hn. eapply nth_error_In. exact E.
Qed.

Lemma call_numpy_times o n (xyz : list frame) (bs : list box) pairs times :
  Forall (fun f : frame => length f = n) xyz -> valid_pairs (Z.of_nat n) pairs = true ->
  valid_pairs (zlen xyz) times = true -> length bs = length xyz ->
  call_numpy o xyz bs pairs (Some times) =
  Some (flat_map (fun t => map (fun pr =>
          entry (if o then POrthoNp else PTricNp) (box_of bs (fst t))
                (vneg (vsub (atom (frame_at xyz (snd t)) (snd pr)) (atom (frame_at xyz (fst t)) (fst pr))))) pairs) times).
Proof.
  intros Hn Hv Htv Hl. unfold call_numpy, rows_of. rewrite flat_map_map'.
  rewrite <- (opt_all_map_some (flat_map _ times)). f_equal.
  rewrite <- flat_map_map_some.
  apply flat_map_ext_in'. intros t Hin. unfold to_natpair at 1 2 3. cbn [fst snd].
  destruct (proj1 (valid_pairs_spec _ _) Htv t Hin) as [T1 T2].
  destruct (frame_lookup n xyz _ Hn T1) as [E1 L1]. destruct (frame_lookup n xyz _ Hn T2) as [E2 L2].
  rewrite E1, E2.
  assert (EB : nth_error bs (Z.to_nat (fst t)) = Some (box_of bs (fst t))).
  { apply nth_error_nth'. rewrite Hl. unfold zlen in T1. apply Nat2Z.inj_lt. rewrite Z2Nat.id; lia. }
  rewrite EB. apply map_ext_in. intros pr Hp.
  destruct (proj1 (valid_pairs_spec _ _) Hv pr Hp) as [B1 B2].
  rewrite (sep_valid n _ _ pr L1 L2 B1 B2). cbn [option_map np_sign]. f_equal.
  destruct o; [apply np_pair_ortho | apply np_pair_tric].
Qed.

Lemma plain_numpy_times n (xyz : list frame) pairs times :
  Forall (fun f : frame => length f = n) xyz -> valid_pairs (Z.of_nat n) pairs = true ->
  valid_pairs (zlen xyz) times = true ->
  plain_numpy xyz pairs (Some times) =
  Some (flat_map (fun t => map (fun pr =>
          entry PPlain dummy_box
                (vneg (vsub (atom (frame_at xyz (snd t)) (snd pr)) (atom (frame_at xyz (fst t)) (fst pr))))) pairs) times).
Proof.
  intros Hn Hv Htv. unfold plain_numpy, rows_of. rewrite flat_map_map'.
  rewrite <- (opt_all_map_some (flat_map _ times)). f_equal.
  rewrite <- flat_map_map_some.
  apply flat_map_ext_in'. intros t Hin. unfold to_natpair at 1 2. cbn [fst snd].
  destruct (proj1 (valid_pairs_spec _ _) Htv t Hin) as [T1 T2].
  destruct (frame_lookup n xyz _ Hn T1) as [E1 L1]. destruct (frame_lookup n xyz _ Hn T2) as [E2 L2].
  rewrite E1, E2. apply map_ext_in. intros pr Hp.
  destruct (proj1 (valid_pairs_spec _ _) Hv pr Hp) as [B1 B2].
  rewrite (sep_valid n _ _ pr L1 L2 B1 B2). reflexivity.
Qed.

(* ================================================================== the API functions *)
(* ValueError exactly for an index outside the range (atoms; frames for compute_distances_t) or, when a
   non-empty pair list is evaluated periodically, a cell array whose length is not the number of frames *)
Theorem api_error_iff a opt periodic n_atoms (xyz : list frame) boxes pairs times :
  api_call a opt periodic n_atoms xyz boxes pairs times = Err ValueError <->
  (valid_pairs n_atoms pairs = false \/
   (a = ApiDistancesT /\ valid_pairs (zlen xyz) times = false) \/
   (pairs <> [] /\ periodic = true /\ exists bs, boxes = Some bs /\ length bs <> length xyz)).
Proof.
  unfold api_call.
  destruct (valid_pairs n_atoms pairs) eqn:Ev; cbn [negb]; [|split; [intros _; left; reflexivity | reflexivity]].
  assert (Et : (match a with ApiDistancesT => negb (valid_pairs (zlen xyz) times) | _ => false end) = true <->
               (a = ApiDistancesT /\ valid_pairs (zlen xyz) times = false)).
  { destruct a; try (split; [discriminate | intros [? _]; discriminate]).
    destruct (valid_pairs (zlen xyz) times); cbn; split; try discriminate; auto. intros [_ ?]; discriminate. }
  destruct (match a with ApiDistancesT => negb (valid_pairs (zlen xyz) times) | _ => false end) eqn:Em.
  { split; [intros _; right; left; apply Et; reflexivity | reflexivity]. }
  assert (Nt : ~ (a = ApiDistancesT /\ valid_pairs (zlen xyz) times = false)) by (intros H; apply Et in H; discriminate).
  destruct pairs as [|pr pairs].
  { cbn [zlen length Z.of_nat Z.eqb]. split; [discriminate|]. intros [H|[H|[H _]]]; [discriminate | tauto | congruence]. }
  rewrite (zlen_nonempty (pr :: pairs)) by discriminate.
  assert (Plain : forall X Y : res (option (list outrec)), (exists s d, X = Ok s d) -> (exists s d, Y = Ok s d) ->
            (periodic = false \/ boxes = None) ->
            ((if opt then X else Y) = Err ValueError <->
             (true = false \/ (a = ApiDistancesT /\ valid_pairs (zlen xyz) times = false) \/
              (pr :: pairs <> [] /\ periodic = true /\ exists bs, boxes = Some bs /\ length bs <> length xyz)))).
  { intros X Y (s1 & d1 & ->) (s2 & d2 & ->) Hpb. split; [destruct opt; discriminate|].
    intros [H|[H|(_ & H & bs' & H' & _)]]; [discriminate | tauto | destruct Hpb; congruence]. }
  destruct periodic, boxes as [bs|]; try (apply Plain; eauto; fail).
  destruct (zlen bs =? zlen xyz) eqn:El; cbn [negb].
  - apply Z.eqb_eq in El. unfold zlen in El. destruct opt; (split; [discriminate|]);
      intros [H|[H|(_ & _ & bs' & H' & Hne)]]; try discriminate; try tauto; injection H' as <-; lia.
  - apply Z.eqb_neq in El. unfold zlen in El. split; [|reflexivity]. intros _. right. right.
    split; [discriminate|]. split; [reflexivity|]. exists bs. split; [reflexivity | lia].
Qed.

(* compute_displacements / compute_distances(_core) on validated input: no kernel read leaves its buffer, and
   the entry for frame i and pair (p1, p2) is the result of the dispatched code path of PBC/Model.v on
   xyz[i][p2] - xyz[i][p1] with the cell of frame i *)
Theorem api_frames_refines a opt periodic n (xyz : list frame) boxes pairs times :
  a <> ApiDistancesT -> Forall (fun f : frame => length f = n) xyz ->
  valid_pairs (Z.of_nat n) pairs = true -> pairs <> [] ->
  (forall bs, periodic = true -> boxes = Some bs -> length bs = length xyz) ->
  api_call a opt periodic (Z.of_nat n) xyz boxes pairs times =
  Ok (api_shape a (zlen xyz) (zlen pairs))
     (Some (flat_map (fun fB => map (fun pr =>
              entry (dispatch opt periodic boxes) (snd fB) (vsub (atom (fst fB) (snd pr)) (atom (fst fB) (fst pr)))) pairs)
            (frame_items periodic xyz boxes))).
Proof.
  intros Ha Hn Hv Hne Hl. unfold api_call. rewrite Hv. cbn [negb].
  replace (match a with ApiDistancesT => negb (valid_pairs (zlen xyz) times) | _ => false end) with false
    by (destruct a; congruence).
  rewrite (zlen_nonempty pairs Hne).
  replace (match a with ApiDistancesT => Some times | _ => None end) with (@None (list (Z * Z))) by (destruct a; congruence).
  replace (match a with ApiDistancesT => zlen times | _ => zlen xyz end) with (zlen xyz) by (destruct a; congruence).
  fold (api_shape a (zlen xyz) (zlen pairs)).
  unfold frame_items, dispatch.
  destruct periodic; [destruct boxes as [bs|]|].
  - specialize (Hl bs eq_refl eq_refl). unfold zlen at 1 2. rewrite Hl, Z.eqb_refl. cbn [negb].
    destruct opt.
    + destruct (forallb is_orthob bs); f_equal; rewrite call_kernel_frames by (auto; congruence); reflexivity.
    + f_equal. rewrite (call_numpy_frames _ n) by auto. destruct (forallb is_orthob bs); reflexivity.
  - destruct opt; f_equal; [rewrite (call_kernel_frames KPlain n) by (auto; congruence) | rewrite (plain_numpy_frames n) by auto]; reflexivity.
  - destruct opt; f_equal; [rewrite (call_kernel_frames KPlain n) by (auto; congruence) | rewrite (plain_numpy_frames n) by auto];
      destruct boxes; reflexivity.
Qed.

(* compute_distances_t: entry for time pair (t1, t2) and atom pair (p1, p2) = the dispatched path on
   xyz[t2][p2] - xyz[t1][p1] (opposite sign on the numpy path) with the cell of frame t1 *)
Theorem api_times_refines opt periodic n (xyz : list frame) boxes pairs times :
  Forall (fun f : frame => length f = n) xyz ->
  valid_pairs (Z.of_nat n) pairs = true -> valid_pairs (zlen xyz) times = true -> pairs <> [] ->
  (forall bs, periodic = true -> boxes = Some bs -> length bs = length xyz) ->
  api_call ApiDistancesT opt periodic (Z.of_nat n) xyz boxes pairs times =
  Ok [zlen times; zlen pairs]
     (Some (flat_map (fun t => map (fun pr =>
              let r := vsub (atom (frame_at xyz (snd t)) (snd pr)) (atom (frame_at xyz (fst t)) (fst pr)) in
              entry (dispatch opt periodic boxes) (cell_at periodic boxes (fst t)) (if opt then r else vneg r)) pairs)
            times)).
Proof.
  intros Hn Hv Htv Hne Hl. unfold api_call. rewrite Hv, Htv. cbn [negb].
  rewrite (zlen_nonempty pairs Hne).
  unfold cell_at, dispatch.
  destruct periodic; [destruct boxes as [bs|]|].
  - specialize (Hl bs eq_refl eq_refl). unfold zlen at 1 2. rewrite Hl, Z.eqb_refl. cbn [negb].
    destruct opt.
    + destruct (forallb is_orthob bs); f_equal; rewrite call_kernel_times by (auto; congruence); reflexivity.
    + f_equal. rewrite (call_numpy_times _ n) by auto. destruct (forallb is_orthob bs); reflexivity.
  - destruct opt; f_equal; [rewrite (call_kernel_times KPlain n) by (auto; congruence) | rewrite (plain_numpy_times n) by auto]; reflexivity.
  - destruct opt; f_equal; [rewrite (call_kernel_times KPlain n) by (auto; congruence) | rewrite (plain_numpy_times n) by auto];
      destruct boxes; reflexivity.
Qed.

(* an empty pair list: zeros of the documented shape, whatever else is passed (valid frame indices for _t) *)
Theorem api_empty_pairs a opt periodic n_atoms (xyz : list frame) boxes times :
  (a = ApiDistancesT -> valid_pairs (zlen xyz) times = true) ->
  api_call a opt periodic n_atoms xyz boxes [] times =
  Ok (api_shape a (match a with ApiDistancesT => zlen times | _ => zlen xyz end) 0) (Some []).
Proof.
  intros Ht. unfold api_call. cbn [valid_pairs forallb negb zlen length Z.of_nat Z.eqb].
  destruct a; try reflexivity. rewrite (Ht eq_refl). reflexivity.
Qed.

(* the validation is needed: without it the kernel reads outside the coordinate buffer *)
Lemma kernel_unvalidated_reads_outside :
  kernel_frames KPlain (flat_xyz [[(0, 0, 0); (1, 1, 1)]]) (flat_pairs [(0, 2)]) [] 1 2 1 = None /\
  kernel_frames KPlain (flat_xyz [[(0, 0, 0); (1, 1, 1)]]) (flat_pairs [(-1, 1)]) [] 1 2 1 = None /\
  valid_pairs 2 [(0, 2)] = false /\ valid_pairs 2 [(-1, 1)] = false.
Proof. vm_compute. repeat split. Qed.

Lemma api_example :
  let B := mkbox (3072, 0, 0) (5120, 3000, 0) (-7000, 8100, 2900) in
  let xyz := [[(0, 0, 0); (117204, -30050, -28940)]; [(5, 5, 5); (100, -50, 60)]] in
  api_call ApiDisplacements true true 2 xyz (Some [B; B]) [(0, 1); (1, 1)] [] =
    Ok [2; 2; 3] (Some [(Some 16100, (100, -50, 60)); (Some 0, (0, 0, 0));
                        (Some 15075, (95, -55, 55)); (Some 0, (0, 0, 0))]) /\
  api_call ApiDistancesT false true 2 xyz (Some [B; B]) [(0, 1)] [(1, 0)] =
    Ok [1; 1] (Some [(Some 15075, (-95, 55, -55))]) /\
  api_call ApiDistancesCore true true 2 xyz (Some [B]) [(0, 1)] [] = Err ValueError /\
  api_call ApiDistancesCore true true 2 xyz (Some [B; B]) [(0, 2)] [] = Err ValueError.
Proof. vm_compute. repeat split. Qed.
