(* C05 — the loops and flat buffers of PBC/Kernel.v refine the abstract model of PBC/Model.v. *)
From Coq Require Import ZArith List Bool Lia.
Import ListNotations.
Require Import MD.PBC.Model MD.PBC.Rounding MD.PBC.Proofs MD.PBC.Kernel.
Open Scope Z_scope.

(* ------------------------------------------------------------------ C for-loops *)
Lemma for_fuel_fold {S : Type} (body : Z -> S -> S) hi : forall fuel x s,
  Z.of_nat fuel = Z.max 0 (hi - x) ->
  for_fuel fuel x hi body s = fold_left (fun s x => body x s) (map (fun k => x + Z.of_nat k) (seq 0 fuel)) s.
Proof.
  induction fuel as [|f IH]; intros x s Hf; [reflexivity|].
  cbn [for_fuel seq map fold_left].
  assert (Hx : x <? hi = true) by (apply Z.ltb_lt; lia).
  rewrite Hx. replace (x + Z.of_nat 0) with x by lia.
  rewrite IH by lia. rewrite <- seq_shift, map_map.
  f_equal. apply map_ext. intros k. lia.
Qed.

Lemma for_z_fold {S : Type} lo hi (body : Z -> S -> S) s :
  for_z lo hi body s = fold_left (fun s x => body x s) (zrange lo hi) s.
Proof. unfold for_z, zrange. apply for_fuel_fold. lia. Qed.

Lemma zrange_snoc lo hi : lo <= hi -> zrange lo (hi + 1) = zrange lo hi ++ [hi].
Proof.
  intros H. unfold zrange. replace (Z.to_nat (hi + 1 - lo)) with (Datatypes.S (Z.to_nat (hi - lo))) by lia.
  rewrite seq_S, map_app. cbn [map Nat.add]. do 2 f_equal. lia.
Qed.

Lemma for_z_snoc {S : Type} lo hi (body : Z -> S -> S) s : lo <= hi ->
  for_z lo (hi + 1) body s = body hi (for_z lo hi body s).
Proof. intros H. rewrite !for_z_fold, zrange_snoc by exact H. rewrite fold_left_app. reflexivity. Qed.

Lemma for_z_empty {S : Type} lo (body : Z -> S -> S) s : for_z lo lo body s = s.
Proof. unfold for_z. rewrite Z.sub_diag. reflexivity. Qed.

Lemma image_range : zrange image_lo image_hi = offs.
Proof. reflexivity. Qed.

Lemma fold_left_flat_map {A B S : Type} (f : S -> B -> S) (g : A -> list B) l : forall s,
  fold_left f (flat_map g l) s = fold_left (fun s x => fold_left f (g x) s) l s.
Proof.
  induction l as [|x l IH]; intros s; [reflexivity|].
  cbn [flat_map fold_left]. rewrite fold_left_app. apply IH.
Qed.

Lemma fold_left_map {A B S : Type} (f : S -> B -> S) (g : A -> B) l : forall s,
  fold_left f (map g l) s = fold_left (fun s x => f s (g x)) l s.
Proof. induction l as [|x l IH]; intros s; [reflexivity|]. cbn. apply IH. Qed.

Lemma fold_left_ext {A S : Type} (f g : S -> A -> S) l : (forall s x, f s x = g s x) -> forall s,
  fold_left f l s = fold_left g l s.
Proof. intros H. induction l as [|x l IH]; intros s; [reflexivity|]. cbn. rewrite H. apply IH. Qed.

(* ------------------------------------------------------------------ the image search *)
(* the three nested loops visit the candidates of the model in the model's order *)
Lemma image_loops_are_a_fold (step : vec -> option Z * vec -> option Z * vec) (rc : Z -> Z -> Z -> vec) lo hi s0 :
  for_z lo hi (fun x s => for_z lo hi (fun y s => for_z lo hi (fun z s => step (rc x y z) s) s) s) s0 =
  fold_left (fun s o => step (rc (vx o) (vy o) (vz o)) s)
            (flat_map (fun x => flat_map (fun y => map (fun z => (x, y, z)) (zrange lo hi)) (zrange lo hi)) (zrange lo hi)) s0.
Proof.
  rewrite for_z_fold, fold_left_flat_map. apply fold_left_ext. intros s x.
  rewrite for_z_fold, fold_left_flat_map. apply fold_left_ext. intros s' y.
  rewrite for_z_fold, fold_left_map. reflexivity.
Qed.

Definition proj_last (w : vec) (best : option (vec * vec)) : option Z * vec :=
  match best with None => (None, w) | Some c => (Some (norm2 (snd c)), snd c) end.
Definition proj_first (c : vec * vec) : option Z * vec := (Some (norm2 (snd c)), snd c).

Lemma image_step_last w best c : image_step true (snd c) (proj_last w best) = proj_last w (step_last best c).
Proof.
  destruct best as [b|]; cbn [proj_last step_last image_step fst snd]; [|reflexivity].
  destruct (norm2 (snd c) <=? norm2 (snd b)); reflexivity.
Qed.

Lemma image_step_first b c : image_step false (snd c) (proj_first b) = proj_first (step_first b c).
Proof.
  unfold proj_first, step_first, image_step. cbn [fst snd].
  destruct (norm2 (snd c) <? norm2 (snd b)); reflexivity.
Qed.

Lemma image_search_cpp_spec B w :
  image_search_cpp image_lo image_hi (ba B) (bb B) (bc B) w = proj_last w (argmin_last (cands B w)).
Proof.
  unfold image_search_cpp.
  rewrite (image_loops_are_a_fold (image_step true)
             (fun x y z => vadd (vadd (vadd w (vscale x (ba B))) (vscale y (bb B))) (vscale z (bc B)))).
  rewrite image_range. change (flat_map _ offs) with offsets27.
  unfold argmin_last, cands. rewrite fold_left_map.
  change (None, w) with (proj_last w None). generalize (@None (vec * vec)) as best.
  induction offsets27 as [|o l IH]; intros best; [reflexivity|].
  cbn [fold_left]. rewrite <- IH. f_equal.
  rewrite <- image_step_last. reflexivity.
Qed.

(* the kernel's per-pair result on the triclinic path: (min_dist2, min_r) of the model's tric_last *)
Lemma pair_tric_spec rn B r :
  pair_tric rn (reduce rn B) r = (Some (norm2 (snd (tric_last rn B r))), snd (tric_last rn B r)).
Proof.
  unfold pair_tric, tric_last. rewrite image_search_cpp_spec.
  destruct (search27_last (reduce rn B) (wrap rn (reduce rn B) r)) as (c & Ec & _).
  rewrite Ec. reflexivity.
Qed.

Lemma np_cand_eq B w ii jj kk :
  vadd (vadd w (vadd (vscale jj (bb B)) (vscale ii (ba B)))) (vscale kk (bc B)) = snd (cand B w (ii, jj, kk)).
Proof.
  destruct B as [[[? ?] ?] [[? ?] ?] [[? ?] ?]], w as [[? ?] ?].
  apply vec_ext; cbn; ring.
Qed.

Lemma image_search_np_spec B w :
  image_search_np image_lo image_hi (ba B) (bb B) (bc B) w = proj_first (argmin_first (vzero, w) (cands B w)).
Proof.
  unfold image_search_np.
  rewrite (image_loops_are_a_fold (image_step false)
             (fun ii jj kk => vadd (vadd w (vadd (vscale jj (bb B)) (vscale ii (ba B)))) (vscale kk (bc B)))).
  rewrite image_range. change (flat_map _ offs) with offsets27.
  unfold argmin_first, cands. rewrite fold_left_map.
  change (Some (norm2 w), w) with (proj_first (vzero, w)). generalize (vzero, w) as best.
  induction offsets27 as [|o l IH]; intros best; [reflexivity|].
  cbn [fold_left]. rewrite <- IH. f_equal.
  rewrite <- image_step_first. f_equal.
  destruct o as [[x y] z]. apply np_cand_eq.
Qed.

(* _distance_mic: the running minimum is the squared length of what _displacement_mic selects *)
Lemma image_min_np_spec B w :
  image_min_np image_lo image_hi (ba B) (bb B) (bc B) w = norm2 (snd (argmin_first (vzero, w) (cands B w))).
Proof.
  unfold image_min_np.
  pose (step := fun (rc : vec) (s : option Z * vec) => (option_map (fun d => Z.min d (norm2 rc)) (fst s), snd s)).
  pose (rcf := fun ii jj kk => vadd (vadd w (vadd (vscale jj (bb B)) (vscale ii (ba B)))) (vscale kk (bc B))).
  (* run the scalar loop inside the generic lemma by carrying the minimum in the first component *)
  assert (G : forall d0 : Z,
    (Some (for_z image_lo image_hi (fun ii d => for_z image_lo image_hi (fun jj d => for_z image_lo image_hi
       (fun kk d => Z.min d (norm2 (rcf ii jj kk))) d) d) d0), w) =
    for_z image_lo image_hi (fun x s => for_z image_lo image_hi (fun y s => for_z image_lo image_hi
       (fun z s => step (rcf x y z) s) s) s) (Some d0, w)).
  { intros d0. rewrite !for_z_fold. rewrite image_range. cbn [offs fold_left].
    rewrite !for_z_fold. rewrite image_range. cbn [offs fold_left].
    rewrite !for_z_fold. rewrite image_range. cbn [offs fold_left]. reflexivity. }
  specialize (G (norm2 w)). unfold rcf in G at 1.
  assert (E : for_z image_lo image_hi (fun x s => for_z image_lo image_hi (fun y s => for_z image_lo image_hi
       (fun z s => step (rcf x y z) s) s) s) (Some (norm2 w), w) =
       (Some (norm2 (snd (argmin_first (vzero, w) (cands B w)))), w)).
  { rewrite (image_loops_are_a_fold step rcf). rewrite image_range. change (flat_map _ offs) with offsets27.
    unfold argmin_first, cands. rewrite fold_left_map.
    change (norm2 w) with (norm2 (snd (vzero, w))) at 1. generalize (vzero, w) as best.
    induction offsets27 as [|o l IH]; intros best; [reflexivity|].
    cbn [fold_left]. rewrite <- IH. f_equal.
    unfold step. cbn [fst snd option_map]. f_equal. f_equal.
    unfold step_first, rcf. destruct o as [[x y] z]. cbn [vx vy vz fst snd].
    rewrite np_cand_eq.
    destruct (Z.ltb_spec (norm2 (snd (cand B w (x, y, z)))) (norm2 (snd best))); lia. }
  rewrite E in G. injection G as G. exact G.
Qed.

(* ------------------------------------------------------------------ flat buffers *)
Lemma rd_of_nat b j : rd b (Z.of_nat j) = nth_error b j.
Proof. unfold rd. destruct (Z.ltb_spec (Z.of_nat j) 0); [lia|]. rewrite Nat2Z.id. reflexivity. Qed.

Lemma nth_error_chunks {A : Type} (g : A -> list Z) (m : nat) l : (forall x, In x l -> length (g x) = m) ->
  forall i k, (k < m)%nat ->
  nth_error (flat_map g l) (i * m + k) = match nth_error l i with Some x => nth_error (g x) k | None => None end.
Proof.
  induction l as [|x l IH]; intros Hl i k Hk.
  - cbn. destruct i; destruct (_ + _)%nat; reflexivity.
  - cbn [flat_map]. destruct i as [|i].
    + cbn [nth_error Nat.mul Nat.add]. apply nth_error_app1. rewrite (Hl x) by (left; reflexivity). exact Hk.
    + cbn [nth_error]. rewrite nth_error_app2 by (rewrite (Hl x) by (left; reflexivity); lia).
      rewrite (Hl x) by (left; reflexivity).
      replace (Datatypes.S i * m + k - m)%nat with (i * m + k)%nat by lia.
      apply IH; [intros y Hy; apply Hl; right; exact Hy | exact Hk].
Qed.

Lemma flat3_length f : length (flat3 f) = (length f * 3)%nat.
Proof. induction f as [|v f IH]; [reflexivity|]. cbn [flat3 flat_map app length] in *. fold (flat3 f). lia. Qed.

Lemma rd3_flat3 f p : rd3 (flat3 f) (Z.of_nat p * 3) = nth_error f p.
Proof.
  unfold rd3.
  assert (H : forall k, (k < 3)%nat -> rd (flat3 f) (Z.of_nat p * 3 + Z.of_nat k) =
                                       match nth_error f p with Some v => nth_error [vx v; vy v; vz v] k | None => None end).
  { intros k Hk. replace (Z.of_nat p * 3 + Z.of_nat k) with (Z.of_nat (p * 3 + k)) by lia.
    rewrite rd_of_nat. apply (nth_error_chunks (fun v => [vx v; vy v; vz v]) 3 f); [reflexivity | exact Hk]. }
  pose proof (H 0%nat ltac:(lia)) as H0. pose proof (H 1%nat ltac:(lia)) as H1. pose proof (H 2%nat ltac:(lia)) as H2.
  cbn [Z.of_nat Pos.of_succ_nat Pos.succ] in H0, H1, H2. rewrite Z.add_0_r in H0. rewrite H0, H1, H2.
  destruct (nth_error f p) as [[[x y] z]|]; reflexivity.
Qed.

(* the xyz buffer holds frame fi at offset fi*n_atoms*3 *)
Definition xyz_ok (xb : buf) (xyz : list frame) (n_atoms : Z) : Prop :=
  forall fi f p, nth_error xyz fi = Some f -> 0 <= p < n_atoms ->
    rd3 xb (Z.of_nat fi * n_atoms * 3 + 3 * p) = nth_error f (Z.to_nat p).

Lemma flat_xyz_ok xyz n : Forall (fun f => length f = n) xyz -> xyz_ok (flat_xyz xyz) xyz (Z.of_nat n).
Proof.
  intros Hn fi f p Hf Hp. unfold rd3.
  assert (H : forall k, (k < 3)%nat -> rd (flat_xyz xyz) (Z.of_nat fi * Z.of_nat n * 3 + 3 * p + Z.of_nat k) =
                                       rd (flat3 f) (Z.of_nat (Z.to_nat p) * 3 + Z.of_nat k)).
  { intros k Hk.
    replace (Z.of_nat fi * Z.of_nat n * 3 + 3 * p + Z.of_nat k) with (Z.of_nat (fi * (n * 3) + (Z.to_nat p * 3 + k))) by lia.
    replace (Z.of_nat (Z.to_nat p) * 3 + Z.of_nat k) with (Z.of_nat (Z.to_nat p * 3 + k)) by lia.
    rewrite !rd_of_nat. unfold flat_xyz.
    rewrite (nth_error_chunks flat3 (n * 3) xyz).
    - rewrite Hf. reflexivity.
    - intros g Hg. rewrite flat3_length. rewrite Forall_forall in Hn. rewrite (Hn g Hg). reflexivity.
    - lia. }
  pose proof (rd3_flat3 f (Z.to_nat p)) as R. unfold rd3 in R.
  pose proof (H 0%nat ltac:(lia)) as H0. pose proof (H 1%nat ltac:(lia)) as H1. pose proof (H 2%nat ltac:(lia)) as H2.
  cbn [Z.of_nat Pos.of_succ_nat Pos.succ] in H0, H1, H2. rewrite !Z.add_0_r in H0.
  replace (Z.of_nat fi * Z.of_nat n * 3 + 3 * p + 2) with (Z.of_nat fi * Z.of_nat n * 3 + 3 * p + 1 + 1) in H2 by lia.
  replace (Z.of_nat (Z.to_nat p) * 3 + 2) with (Z.of_nat (Z.to_nat p) * 3 + 1 + 1) in H2 by lia.
  replace (Z.of_nat fi * Z.of_nat n * 3 + 3 * p + 2) with (Z.of_nat fi * Z.of_nat n * 3 + 3 * p + 1 + 1) by lia.
  rewrite H0, H1, H2.
  replace (Z.of_nat (Z.to_nat p) * 3 + 1 + 1) with (Z.of_nat (Z.to_nat p) * 3 + 2) by lia. exact R.
Qed.

(* a flat list of index pairs *)
Definition pairs_ok (pb : buf) (pairs : list (Z * Z)) : Prop :=
  forall j pr, nth_error pairs j = Some pr ->
    rd pb (pair_stride * Z.of_nat j + 0) = Some (fst pr) /\ rd pb (pair_stride * Z.of_nat j + 1) = Some (snd pr).

Lemma flat_pairs_ok pairs : pairs_ok (flat_pairs pairs) pairs.
Proof.
  intros j pr Hj. unfold pair_stride.
  replace (2 * Z.of_nat j + 0) with (Z.of_nat (j * 2 + 0)) by lia.
  replace (2 * Z.of_nat j + 1) with (Z.of_nat (j * 2 + 1)) by lia.
  rewrite !rd_of_nat. unfold flat_pairs.
  rewrite !(nth_error_chunks (fun p : Z * Z => [fst p; snd p]) 2 pairs) by (try reflexivity; lia).
  rewrite Hj. split; reflexivity.
Qed.

Lemma pairs_ok_app pb l x : pairs_ok pb (l ++ [x]) -> pairs_ok pb l.
Proof. intros H j pr Hj. apply H. rewrite nth_error_app1; [exact Hj | apply nth_error_Some; congruence]. Qed.

(* ------------------------------------------------------------------ the pair loop *)
Definition atom (f : frame) (p : Z) : vec := nth (Z.to_nat p) f vzero.
Definition pair_spec (kb : kbox) (f1 f2 : frame) (pr : Z * Z) : outrec :=
  pair_body kb (vsub (atom f2 (snd pr)) (atom f1 (fst pr))).

Lemma nth_error_atom f p n : length f = n -> 0 <= p < Z.of_nat n -> nth_error f (Z.to_nat p) = Some (atom f p).
Proof. intros Hl Hp. unfold atom. apply nth_error_nth'. lia. Qed.

Lemma pair_loop_spec kb xb pb base1 base2 n f1 f2 :
  length f1 = n -> length f2 = n ->
  (forall p, 0 <= p < Z.of_nat n -> rd3 xb (base1 + xyz_stride * p) = nth_error f1 (Z.to_nat p)) ->
  (forall p, 0 <= p < Z.of_nat n -> rd3 xb (base2 + xyz_stride * p) = nth_error f2 (Z.to_nat p)) ->
  forall pairs acc, pairs_ok pb pairs -> valid_pairs (Z.of_nat n) pairs = true ->
  pair_loop kb xb pb base1 base2 (zlen pairs) (Some acc) = Some (acc ++ map (pair_spec kb f1 f2) pairs).
Proof.
  intros Hl1 Hl2 H1 H2 pairs. induction pairs as [|pr pairs IH] using rev_ind; intros acc Hpb Hv.
  - unfold pair_loop, zlen. cbn [length Z.of_nat]. rewrite for_z_empty, app_nil_r. reflexivity.
  - unfold valid_pairs in Hv. rewrite forallb_app in Hv. apply andb_true_iff in Hv. destruct Hv as [Hv Hpr].
    cbn [forallb] in Hpr. rewrite andb_true_r in Hpr. apply andb_true_iff in Hpr. destruct Hpr as [Hp1 Hp2].
    unfold valid_idx in Hp1, Hp2.
    assert (B1 : 0 <= fst pr < Z.of_nat n) by lia. assert (B2 : 0 <= snd pr < Z.of_nat n) by lia.
    unfold pair_loop, zlen in *. rewrite app_length. cbn [length].
    replace (Z.of_nat (length pairs + 1)) with (Z.of_nat (length pairs) + 1) by lia.
    rewrite for_z_snoc by lia. rewrite (IH acc (pairs_ok_app _ _ _ Hpb) Hv).
    destruct (Hpb (length pairs) pr) as [R1 R2]; [rewrite nth_error_app2, Nat.sub_diag by lia; reflexivity|].
    rewrite R1, R2, (H1 _ B1), (H2 _ B2).
    rewrite (nth_error_atom f1 _ n Hl1 B1), (nth_error_atom f2 _ n Hl2 B2).
    rewrite map_app, app_assoc. reflexivity.
Qed.
