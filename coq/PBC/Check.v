(* Executable comparison of the implementation's observations with the model (used by the
   correspondence stage of harness/props/C05.py through vm_compute).  No proofs here.

   Verdict codes per pair-frame:
     0  the implementation's lattice shift / squared distance is exactly the model's
     1  excluded: a rounding tie (within the float guard G) in the box reduction or in the wrap
     2  accepted: the implementation chose another of the 27 candidates whose squared norm is within
        the float band of the minimum (near-tie of the arg-min)
     3  MISMATCH
     4  the model refuses the case (index out of range / non-positive diagonal) *)
From Coq Require Import ZArith List Bool.
Import ListNotations.
Require Import MD.PBC.Model.
Open Scope Z_scope.

Definition on_boundary (G : Z) (B : box) (w : vec) : bool :=
  (vx (ba B) <=? 2 * Z.abs (vx w) + G) || (vy (bb B) <=? 2 * Z.abs (vy w) + G) || (vz (bc B) <=? 2 * Z.abs (vz w) + G).

Definition reduce_tie (G : Z) (B' : box) : bool :=
  (vy (bb B') <=? 2 * Z.abs (vy (bc B')) + G) || (vx (ba B') <=? 2 * Z.abs (vx (bc B')) + G) ||
  (vx (ba B') <=? 2 * Z.abs (vx (bb B')) + G).

Definition rmode_of (p : path) : Z -> Z -> Z :=
  match p with POrthoSSE => rnd_htz | PTricCpp => rnd_haz | _ => rnd_hev end.

(* A rounding tie in the BOX REDUCTION (hexagonal cells: b_x = a_x/2 ...) is decided by float32 rounding of
   the division, which is not modelled.  Both resolutions give a reduced basis of the same lattice; the
   comparison therefore tries the reduction with every rounding step biased up / down by the guard
   (all eight variants coincide with the model's reduction when no step is within the guard of a tie). *)
Definition rnd_bias (beta : Z) (n d : Z) : Z := (2 * n + d + beta) / (2 * d).
Definition reduce_gen (r1 r2 r3 : Z -> Z -> Z) (B : box) : box * vec :=
  let m1 := r1 (vy (bc B)) (vy (bb B)) in
  let c1 := vsub (bc B) (vscale m1 (bb B)) in
  let m2 := r2 (vx c1) (vx (ba B)) in
  let c2 := vsub c1 (vscale m2 (ba B)) in
  let m3 := r3 (vx (bb B)) (vx (ba B)) in
  let b1 := vsub (bb B) (vscale m3 (ba B)) in
  (mkbox (ba B) b1 c2, (m1, m2, m3)).
Definition reductions (p : path) (G : Z) (B : box) : list (box * vec) :=
  let rn := rmode_of p in
  let B' := reduce rn B in
  if reduce_tie G B' then
    let bs := [- (G + 1); G + 1] in
    flat_map (fun b1 => flat_map (fun b2 => map (fun b3 =>
      reduce_gen (rnd_bias b1) (rnd_bias b2) (rnd_bias b3) B) bs) bs) bs
  else [(B', reduce_mult rn B)].

Definition from_orig (m : vec) (n : vec) : vec :=
  (vx n + vy n * vz m + vz n * (vx m * vz m + vy m), vy n + vz n * vx m, vz n).

(* |a - b| <= 4 G sqrt(a)  as  (a-b)^2 <= 16 G^2 a,  or relative 2^-20 (float32 rounding of dot3) *)
Definition in_band (G : Z) (a b : Z) : bool :=
  ((a - b) * (a - b) <=? 16 * G * G * a) || (Z.abs (a - b) * 1048576 <=? a).

(* the triclinic pipeline on an already reduced box B' with multipliers m: (wrapped vector, chosen offset, result) *)
Definition tric_on (p : path) (B' : box) (r : vec) : vec * (vec * vec) :=
  let rn := rmode_of p in
  let w := wrap rn B' r in
  (w, match p with
      | PTricCpp => match argmin_last (cands B' w) with Some c => c | None => (vzero, w) end
      | PTricNp => argmin_first (vzero, w) (cands B' w)
      | _ => (vzero, w)            (* POrthoNp: no image search *)
      end).

Definition best_code (l : list Z) : Z :=
  if existsb (Z.eqb 0) l then 0 else if existsb (Z.eqb 2) l then 2 else if forallb (Z.eqb 1) l then 1 else 3.

Definition shift_verdict (p : path) (G : Z) (B : box) (r : vec) (n_impl : vec) : Z :=
  if negb (match p with PPlain => true | _ => diag_posb B end) then 4 else
  match p with
  | PPlain => if vec_eqb vzero n_impl then 0 else 3
  | POrthoSSE => if vec_eqb (mic_ortho_coef rnd_htz B r) n_impl then 0
                 else if on_boundary G B (mic_ortho rnd_htz B r) then 1 else 3
  | _ =>
    best_code (map (fun Bm : box * vec =>
      let (B', m) := Bm in
      let (w, c) := tric_on p B' r in
      let n_model := to_orig m (vadd (wrap_coef (rmode_of p) B' r) (fst c)) in
      if vec_eqb n_model n_impl then 0 else
      if on_boundary G B' w then 1 else
      let o := vsub (from_orig m n_impl) (wrap_coef (rmode_of p) B' r) in
      let v := vadd r (comb B n_impl) in
      match p with
      | POrthoNp => 3
      | _ => if existsb (vec_eqb o) offsets27 && in_band G (norm2 v) (norm2 (snd c)) then 2 else 3
      end) (reductions p G B))
  end.

Definition norm_verdict (p : path) (G : Z) (B : box) (r : vec) (lohi : Z * Z) : Z :=
  if negb (match p with PPlain => true | _ => diag_posb B end) then 4 else
  let inside m := (fst lohi <=? m) && (m <=? snd lohi) in
  match p with
  | PPlain => if inside (norm2 r) then 0 else 3
  | POrthoSSE => if inside (norm2 (mic_ortho rnd_htz B r)) then 0
                 else if on_boundary G B (mic_ortho rnd_htz B r) then 1 else 3
  | _ =>
    best_code (map (fun Bm : box * vec =>
      let (B', m) := Bm in
      let (w, c) := tric_on p B' r in
      if inside (norm2 (snd c)) then 0 else if on_boundary G B' w then 1 else 3) (reductions p G B))
  end.

Definition zip_with {A B C : Type} (f : A -> B -> C) (l1 : list A) (l2 : list B) : list C :=
  map (fun ab => f (fst ab) (snd ab)) (combine l1 l2).

(* compute_displacements: obs[i][j] = lattice shift recovered from the reported displacement *)
Definition check_disp (opt periodic : bool) (G : Z) (xyz : list frame) (boxes : option (list box))
           (pairs : list (nat * nat)) (obs : list (list vec)) : list (list Z) :=
  let p := dispatch opt periodic boxes in
  zip_with (fun (fi : nat * frame) (ob : list vec) =>
    match box_at boxes (fst fi) with
    | None => [4]
    | Some B => zip_with (fun pr n => match sep (snd fi) (snd fi) pr with
                                      | Some r => shift_verdict p G B r n | None => 4 end) pairs ob
    end) (combine (seq 0 (length xyz)) xyz) obs.

(* compute_distances / compute_distances_core: obs[i][j] = interval for the squared distance *)
Definition check_dist_p (p : path) (G : Z) (xyz : list frame) (boxes : option (list box))
           (pairs : list (nat * nat)) (obs : list (list (Z * Z))) : list (list Z) :=
  zip_with (fun (fi : nat * frame) (ob : list (Z * Z)) =>
    match box_at boxes (fst fi) with
    | None => [4]
    | Some B => zip_with (fun pr lh => match sep (snd fi) (snd fi) pr with
                                       | Some r => norm_verdict p G B r lh | None => 4 end) pairs ob
    end) (combine (seq 0 (length xyz)) xyz) obs.
Definition check_dist (opt periodic : bool) (G : Z) (xyz : list frame) (boxes : option (list box))
           (pairs : list (nat * nat)) (obs : list (list (Z * Z))) : list (list Z) :=
  check_dist_p (dispatch opt periodic boxes) G xyz boxes pairs obs.

(* as-found dispatch variant: np.allclose(angles, 90) sends cells within 9e-4 degrees of orthorhombic to the
   orthorhombic code although their off-diagonal entries are not zero (dispatch_cur); the exact test
   is_orthob is the repaired variant (dispatch_fix = dispatch) *)
Definition dispatch_cur_near_ortho (opt : bool) : path := if opt then POrthoSSE else POrthoNp.

(* compute_distances_t *)
Definition check_dist_t (opt periodic : bool) (G : Z) (xyz : list frame) (boxes : option (list box))
           (pairs : list (nat * nat)) (times : list (nat * nat)) (obs : list (list (Z * Z))) : list (list Z) :=
  let p := dispatch opt periodic boxes in
  zip_with (fun (t : nat * nat) (ob : list (Z * Z)) =>
    match nth_error xyz (fst t), nth_error xyz (snd t), box_at boxes (fst t) with
    | Some f1, Some f2, Some B =>
        zip_with (fun pr lh => match sep f1 f2 pr with
                               | Some r => norm_verdict p G B (if opt then r else vneg r) lh | None => 4 end) pairs ob
    | _, _, _ => [4]
    end) times obs.

(* ---- tie detection for the cross-path oracle (optimised vs reference path over the WHOLE separation range):
   1 = the two paths may legitimately differ on this separation: a rounding tie (within the guard) of the box
   reduction or of the wrap in either path, or two of the 27 candidates within the float band of the shortest;
   0 = C05's paths_agree applies: distances and displacements must coincide. *)
Definition argmin_ambiguous (G : Z) (B' : box) (w : vec) : bool :=
  let ns := map (fun c => norm2 (snd c)) (cands B' w) in
  let m := fold_left Z.min ns (norm2 w) in
  (2 <=? Z.of_nat (length (filter (fun n => in_band G n m) ns))).

Definition cross_tie (ortho : bool) (G : Z) (B : box) (r : vec) : Z :=
  if negb (diag_posb B) then 4 else
  if ortho then (if on_boundary G B (mic_ortho rnd_htz B r) then 1 else 0) else
  let one p := let rn := rmode_of p in let B' := reduce rn B in
               reduce_tie G B' || on_boundary G B' (wrap rn B' r) || argmin_ambiguous G B' (wrap rn B' r) in
  if one PTricCpp || one PTricNp then 1 else 0.

Definition all_ortho (boxes : option (list box)) : bool :=
  match boxes with Some bs => forallb is_orthob bs | None => true end.

Definition check_ties (G : Z) (xyz : list frame) (boxes : option (list box)) (pairs : list (nat * nat)) : list (list Z) :=
  map (fun fi : nat * frame =>
    match box_at boxes (fst fi) with
    | None => [4]
    | Some B => map (fun pr => match sep (snd fi) (snd fi) pr with
                               | Some r => cross_tie (all_ortho boxes) G B r | None => 4 end) pairs
    end) (combine (seq 0 (length xyz)) xyz).

Definition check_ties_t (G : Z) (xyz : list frame) (boxes : option (list box)) (pairs : list (nat * nat))
           (times : list (nat * nat)) : list (list Z) :=
  map (fun t : nat * nat =>
    match nth_error xyz (fst t), nth_error xyz (snd t), box_at boxes (fst t) with
    | Some f1, Some f2, Some B =>
        map (fun pr => match sep f1 f2 pr with
                       | Some r => if (cross_tie (all_ortho boxes) G B r =? 0) && (cross_tie (all_ortho boxes) G B (vneg r) =? 0)
                                   then 0 else 1
                       | None => 4 end) pairs
    | _, _, _ => [4]
    end) times.

(* find_closest_contact(traj, group1, group2, frame): first pair (group1-major) with the strictly
   smallest wrapped squared distance; reports (atom1, atom2, interval check of the distance).
   Returns (verdict, atom1, atom2). *)
Definition fcc_pairs (g1 g2 : list nat) : list (nat * nat) := flat_map (fun i => map (fun j => (i, j)) g2) g1.

Definition fcc_model (B : option box) (f : frame) (g1 g2 : list nat) : option (nat * nat * Z) :=
  fold_left (fun best pr =>
    match nth_error f (fst pr), nth_error f (snd pr) with
    | Some x1, Some x2 =>
        let d := vsub x1 x2 in
        let v := match B with Some B => fcc_disp B d | None => d end in
        match best with
        | Some (_, _, m) => if norm2 v <? m then Some (fst pr, snd pr, norm2 v) else best
        | None => Some (fst pr, snd pr, norm2 v)
        end
    | _, _ => best
    end) (fcc_pairs g1 g2) None.

(* guard: some pair has a wrap tie, or another pair's wrapped norm is within the float band of the best *)
Definition fcc_ambiguous (G : Z) (B : option box) (f : frame) (g1 g2 : list nat) (best : nat * nat * Z) : bool :=
  existsb (fun pr =>
    match nth_error f (fst pr), nth_error f (snd pr) with
    | Some x1, Some x2 =>
        let d := vsub x1 x2 in
        let v := match B with Some B => fcc_disp B d | None => d end in
        let tie := match B with Some B => on_boundary G B v | None => false end in
        let same := Nat.eqb (fst pr) (fst (fst best)) && Nat.eqb (snd pr) (snd (fst best)) in
        tie || (negb same && in_band G (norm2 v) (snd best))
    | _, _ => false
    end) (fcc_pairs g1 g2).

Definition check_fcc (G : Z) (B : option box) (f : frame) (g1 g2 : list nat) (a1 a2 : nat) (lohi : Z * Z) : Z :=
  match fcc_model B f g1 g2 with
  | None => 4
  | Some best =>
      let m := snd best in
      let dist_ok := (fst lohi <=? m) && (m <=? snd lohi) in
      if Nat.eqb a1 (fst (fst best)) && Nat.eqb a2 (snd (fst best)) && dist_ok then 0
      else if fcc_ambiguous G B f g1 g2 best then 1 else 3
  end.
