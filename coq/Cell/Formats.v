(* C17, clause "saving and loading give a trajectory with a complete per-frame cell exactly when their input had
   one": what each writable format can carry, as an explicit table, with its documented exceptions.
   Anchors: mdtraj/core/trajectory.py Trajectory._savers and save_*; the format classes' write()/read().
   Executable definitions; the theorems about them are in Cell/FormatsProofs.v. *)
From Coq Require Import List String Bool.
Import ListNotations.
Open Scope string_scope.

(* how a format carries the unit cell *)
Inductive kind :=
| Keeps            (* lengths and angles are stored per frame, or their absence is *)
| ZeroBox          (* box VECTORS are stored; "no cell" is written as an all-zero matrix and read back through
                      the unitcell_vectors setter, which turns all-zero into "no cell" *)
| RequiresCell     (* the writer refuses a trajectory without cell *)
| RectilinearOnly  (* only lengths are stored (angles read back as 90): the writer refuses a cell with an angle <> 90 *)
| NoCell.          (* the format has no place for a cell: it is dropped *)

(* which argument route the save_* method uses (re-extracted from the source into MD.Gen.CellFormats) *)
Inductive route := RLengthsAngles | RVectors | RLengthsOnly | RNothing.

(* outcome of save -> load: None = the writer refuses; Some h = loaded, complete per-frame cell present iff h *)
Definition roundtrip (k : kind) (have rectilinear : bool) : option bool :=
  match k with
  | Keeps | ZeroBox => Some have
  | RequiresCell => if have then Some true else None
  | RectilinearOnly => if have then (if rectilinear then Some true else None) else Some false
  | NoCell => Some false
  end.

(* the table: every key of Trajectory._savers *)
Definition format_table : list (string * kind) :=
  [(".xtc", ZeroBox); (".trr", ZeroBox); (".gro", ZeroBox);
   (".pdb", Keeps); (".pdb.gz", Keeps); (".dcd", Keeps); (".h5", Keeps); (".nc", Keeps); (".netcdf", Keeps);
   (".ncdf", Keeps); (".ncrst", Keeps); (".rst7", Keeps); (".gsd", Keeps);
   (".lammpstrj", RequiresCell); (".dtr", RequiresCell);
   (".crd", RectilinearOnly); (".mdcrd", RectilinearOnly);
   (".xyz", NoCell); (".xyz.gz", NoCell); (".lh5", NoCell)].

Definition route_fits (r : route) (k : kind) : bool :=
  match r, k with
  | RVectors, ZeroBox => true
  | RLengthsAngles, Keeps | RLengthsAngles, RequiresCell => true
  | RLengthsOnly, RectilinearOnly => true
  | RNothing, NoCell => true
  | _, _ => false
  end.

Fixpoint lookup {A} (s : string) (l : list (string * A)) : option A :=
  match l with
  | [] => None
  | (k, v) :: r => if String.eqb s k then Some v else lookup s r
  end.

(* every extension the source registers has a table entry whose kind fits the argument route of its saver,
   and the table has no entry for an extension the source does not register *)
Definition table_matches_source (src : list (string * route)) : bool :=
  forallb (fun er => match lookup (fst er) format_table with Some k => route_fits (snd er) k | None => false end) src &&
  forallb (fun ek => match lookup (fst ek) src with Some _ => true | None => false end) format_table.

(* keyword arguments that Trajectory.save forwards to the save_* methods.  [roundtrip] above has no option argument:
   whether the cell is carried must not depend on any of them.  The list is pinned against the signatures of the save_*
   methods (MD.Gen.CellFormats.saver_options_known), and the runs save/load with every listed option switched away from
   its default. *)
Definition cell_neutral_options : list string :=
  ["force_overwrite"; "bfactors"; "ter"; "header"; "precision"; "mode"].

Definition options_known (src : list (string * list string)) : bool :=
  forallb (fun so => forallb (fun o => existsb (String.eqb o) cell_neutral_options) (snd so)) src.

Definition kind_code (k : kind) : nat :=
  match k with Keeps => 0 | ZeroBox => 1 | RequiresCell => 2 | RectilinearOnly => 3 | NoCell => 4 end.
