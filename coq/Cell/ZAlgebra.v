(* Polynomial identities behind C17, over Z (closed under the global context): inputs are float32 numbers, i.e.
   dyadic rationals, so Z (after scaling) is the relevant domain; the same identities are instantiated over R in
   Cell/Proofs.v. *)
From Coq Require Import ZArith.
Open Scope Z_scope.

Definition zvec : Type := (Z * Z * Z)%type.
Definition zdot (u v : zvec) : Z := let '(u1, u2, u3) := u in let '(v1, v2, v3) := v in u1 * v1 + u2 * v2 + u3 * v3.
Definition zcross (u v : zvec) : zvec :=
  let '(u1, u2, u3) := u in let '(v1, v2, v3) := v in (u2 * v3 - u3 * v2, u3 * v1 - u1 * v3, u1 * v2 - u2 * v1).
Definition zdet3 (a b c : zvec) : Z :=
  let '(a1, a2, a3) := a in let '(b1, b2, b3) := b in let '(c1, c2, c3) := c in
  a1 * (b2 * c3 - b3 * c2) - a2 * (b1 * c3 - b3 * c1) + a3 * (b1 * c2 - b2 * c1).
Definition zmat : Type := (zvec * zvec * zvec)%type.
Definition zapply (m : zmat) (x : zvec) : zvec := let '(r1, r2, r3) := m in (zdot r1 x, zdot r2 x, zdot r3 x).
Definition zcol (m : zmat) (j : nat) : zvec :=
  let '((a1, a2, a3), (b1, b2, b3), (c1, c2, c3)) := m in
  match j with 0%nat => (a1, b1, c1) | 1%nat => (a2, b2, c2) | _ => (a3, b3, c3) end.

(* the determinant of the row matrix is the triple product a . (b x c) *)
Lemma zdet_is_triple a b c : zdet3 a b c = zdot a (zcross b c).
Proof. destruct a as [[a1 a2] a3], b as [[b1 b2] b3], c as [[c1 c2] c3]. cbn. ring. Qed.

(* (M x) . (M y) = sum_ij (M^T M)_ij x_i y_j *)
Lemma zdot_apply m x y :
  zdot (zapply m x) (zapply m y) =
  let '(x1, x2, x3) := x in let '(y1, y2, y3) := y in
  zdot (zcol m 0) (zcol m 0) * x1 * y1 + zdot (zcol m 1) (zcol m 1) * x2 * y2 + zdot (zcol m 2) (zcol m 2) * x3 * y3 +
  zdot (zcol m 0) (zcol m 1) * (x1 * y2 + x2 * y1) + zdot (zcol m 0) (zcol m 2) * (x1 * y3 + x3 * y1) +
  zdot (zcol m 1) (zcol m 2) * (x2 * y3 + x3 * y2).
Proof.
  destruct m as [[[[a1 a2] a3] [[b1 b2] b3]] [[c1 c2] c3]], x as [[x1 x2] x3], y as [[y1 y2] y3]. cbn. ring.
Qed.

Lemma zdot_rot m x y :
  zdot (zcol m 0) (zcol m 0) = 1 -> zdot (zcol m 1) (zcol m 1) = 1 -> zdot (zcol m 2) (zcol m 2) = 1 ->
  zdot (zcol m 0) (zcol m 1) = 0 -> zdot (zcol m 0) (zcol m 2) = 0 -> zdot (zcol m 1) (zcol m 2) = 0 ->
  zdot (zapply m x) (zapply m y) = zdot x y.
Proof.
  intros H1 H2 H3 H4 H5 H6. rewrite zdot_apply. destruct x as [[x1 x2] x3], y as [[y1 y2] y3].
  rewrite H1, H2, H3, H4, H5, H6. unfold zdot. ring.
Qed.

(* det (M a, M b, M c) = det M * det (a, b, c) *)
Lemma zdet_apply m a b c :
  zdet3 (zapply m a) (zapply m b) (zapply m c) = (let '(r1, r2, r3) := m in zdet3 r1 r2 r3) * zdet3 a b c.
Proof.
  destruct m as [[[[m1 m2] m3] [[n1 n2] n3]] [[p1 p2] p3]], a as [[a1 a2] a3], b as [[b1 b2] b3], c as [[c1 c2] c3].
  cbn. ring.
Qed.

(* the algebra of the standard-orientation construction, cleared of the division by sin(gamma):
   with  cy * sg = lc * (ca - cb * cg)  and  sg^2 + cg^2 = 1  the vectors have the stored dot products *)
Lemma zconstruction la lb lc ca cb cg sg cy cz2 :
  sg * sg + cg * cg = 1 -> cy * sg = lc * (ca - cb * cg) -> cz2 = lc * lc - (lc * cb) * (lc * cb) - cy * cy ->
  (* a.b, a.c *)  la * (lb * cg) = la * lb * cg /\ la * (lc * cb) = lc * la * cb /\
  (* b.b *)       (lb * cg) * (lb * cg) + (lb * sg) * (lb * sg) = lb * lb /\
  (* (b.c) sg *)  ((lb * cg) * (lc * cb) + (lb * sg) * cy) = lb * lc * ca /\
  (* c.c *)       (lc * cb) * (lc * cb) + cy * cy + cz2 = lc * lc /\
  (* Gram *)      sg * sg * cz2 = lc * lc * (1 - ca * ca - cb * cb - cg * cg + 2 * ca * cb * cg).
Proof.
  intros Hs Hy Hz. repeat split; try ring.
  - replace ((lb * cg) * (lb * cg) + (lb * sg) * (lb * sg)) with (lb * lb * (sg * sg + cg * cg)) by ring. rewrite Hs. ring.
  - replace ((lb * cg) * (lc * cb) + (lb * sg) * cy) with (lb * cg * lc * cb + lb * (cy * sg)) by ring. rewrite Hy. ring.
  - subst cz2. ring.
  - subst cz2.
    replace (sg * sg * (lc * lc - lc * cb * (lc * cb) - cy * cy))
      with (lc * lc * (sg * sg) - lc * lc * cb * cb * (sg * sg) - (cy * sg) * (cy * sg)) by ring.
    rewrite Hy. replace (sg * sg) with (1 - cg * cg) by (rewrite <- Hs; ring). ring.
Qed.
