(* C17, second layer of the model: the conversions with the ANGLES THEMSELVES (degrees; Coq's cos, sin, acos) instead of
   free cosine variables, the tilt factors, and the per-frame glue of Trajectory.unitcell_vectors (getter and setter),
   unitcell_volumes and _check_valid_unitcell over lists of frames.
   Everything numeric is taken from MD.Gen.CellFormulas (regenerated from mdtraj/utils/unitcell.py and
   mdtraj/core/trajectory.py on every run).  Definitions only; the theorems are in Cell/DegProofs.v,
   Cell/InverseProofs.v, Cell/SnapProofs.v and Cell/FrameProofs.v. *)
From Coq Require Import Reals List.
Import ListNotations.
Require Export MD.Cell.Model.
Open Scope R_scope.

Definition mat3 : Type := (vec * vec * vec)%type.

(* ---- degrees *)
Definition deg2rad := gen_deg2rad.
Definition rad2deg := gen_rad2deg.
Definition to_vectors_deg := gen_to_vectors_deg.
Definition from_vectors_deg := gen_from_vectors_deg.

(* a physically valid cell: positive lengths, angles strictly between 0 and 180 degrees, positive Gram determinant
   (equivalently, DegProofs.gram_factorisation: alpha + beta + gamma < 360 and each angle smaller than the sum of
   the two others) *)
Definition gram_deg (alpha beta gamma : R) : R :=
  gram (cos (deg2rad alpha)) (cos (deg2rad beta)) (cos (deg2rad gamma)).
Definition angle_ok (x : R) : Prop := 0 < x < 180.
Definition valid_cell (l a : vec) : Prop :=
  let '(la, lb, lc) := l in let '(alpha, beta, gamma) := a in
  0 < la /\ 0 < lb /\ 0 < lc /\ angle_ok alpha /\ angle_ok beta /\ angle_ok gamma /\ 0 < gram_deg alpha beta gamma.
Definition triangle_condition (alpha beta gamma : R) : Prop :=
  alpha + beta + gamma < 360 /\ alpha < beta + gamma /\ beta < gamma + alpha /\ gamma < alpha + beta.

(* ---- tilt factors (lx, ly, lz, xy, xz, yz) *)
Definition tilt_factors := gen_tilt_factors.
Definition tilt_factors_deg (la lb lc alpha beta gamma : R) :=
  gen_tilt_factors la lb lc (cos (deg2rad alpha)) (cos (deg2rad beta)) (cos (deg2rad gamma)).

(* ---- one frame of the Trajectory glue *)
Definition getter_frame_exact : vec -> vec -> mat3 := gen_getter_frame.           (* before the snap *)
Definition snap_mat (m : mat3) : mat3 := let '(a, b, c) := m in (snap_vec a, snap_vec b, snap_vec c).
Definition getter_frame (l a : vec) : mat3 := snap_mat (gen_getter_frame l a).   (* what unitcell_vectors[f] is *)
Definition setter_frame : mat3 -> vec * vec := gen_setter_frame.
Definition volume_frame (m : mat3) : R := let '(a, b, c) := m in det3 a b c.     (* np.linalg.det of the rows *)
Definition rotate (r : mat) (m : mat3) : mat3 := let '(a, b, c) := m in (mapply r a, mapply r b, mapply r c).

(* ---- the stored state and the getters / setters over all frames *)
Record cell_state := mkCell { n_frames : nat; lengths : option (list vec); angles : option (list vec) }.

Inductive outcome (A : Type) := Val (x : A) | ErrType | ErrValue | ErrAttribute.
Arguments Val {A}. Arguments ErrType {A}. Arguments ErrValue {A}. Arguments ErrAttribute {A}.

Definition have_unitcell (s : cell_state) : Prop := lengths s <> None /\ angles s <> None.

Fixpoint zip_with {A B C} (f : A -> B -> C) (x : list A) (y : list B) : list C :=
  match x, y with
  | a :: x', b :: y' => f a b :: zip_with f x' y'
  | _, _ => []
  end.

(* unitcell_vectors (getter): None unless both parts are stored *)
Definition get_vectors (s : cell_state) : option (list mat3) :=
  match lengths s, angles s with
  | Some l, Some a => Some (zip_with getter_frame l a)
  | _, _ => None
  end.

(* unitcell_volumes: decided on the LENGTHS alone; with lengths but no angles the map over None raises TypeError *)
Definition get_volumes (s : cell_state) : outcome (option (list R)) :=
  match lengths s with
  | None => Val None
  | Some _ => match get_vectors s with
              | Some ms => Val (Some (map volume_frame ms))
              | None => ErrType
              end
  end.

(* `np.all(np.abs(vectors) < 1e-15)`: a proposition (real comparisons are not computable) *)
Definition tiny (x : R) : Prop := Rabs x < gen_zero_tol.
Definition tiny_vec (v : vec) : Prop := let '(x, y, z) := v in tiny x /\ tiny y /\ tiny z.
Definition tiny_mat (m : mat3) : Prop := let '(a, b, c) := m in tiny_vec a /\ tiny_vec b /\ tiny_vec c.
Definition all_tiny (ms : list mat3) : Prop := Forall tiny_mat ms.

(* unitcell_vectors (setter) as a relation between the state before, the argument and the result *)
Inductive set_vectors (s : cell_state) : option (list mat3) -> outcome cell_state -> Prop :=
| SV_none : set_vectors s None (Val (mkCell (n_frames s) None None))
| SV_zero ms : all_tiny ms -> set_vectors s (Some ms) (Val (mkCell (n_frames s) None None))
| SV_len ms : ~ all_tiny ms -> length ms <> n_frames s -> set_vectors s (Some ms) ErrType
| SV_set ms : ~ all_tiny ms -> length ms = n_frames s ->
    set_vectors s (Some ms) (Val (mkCell (n_frames s) (Some (map (fun m => fst (setter_frame m)) ms))
                                                    (Some (map (fun m => snd (setter_frame m)) ms)))).

(* _check_valid_unitcell, in the order of the source: half-set cells first, then negative entries *)
Definition neg_vec (v : vec) : Prop := let '(x, y, z) := v in x < 0 \/ y < 0 \/ z < 0.
Inductive check_valid (s : cell_state) : outcome unit -> Prop :=
| CV_len_only : lengths s <> None -> angles s = None -> check_valid s ErrAttribute
| CV_ang_only : lengths s = None -> angles s <> None -> check_valid s ErrAttribute
| CV_neg_len l : lengths s = Some l -> angles s <> None -> Exists neg_vec l -> check_valid s ErrValue
| CV_neg_ang l a : lengths s = Some l -> angles s = Some a -> ~ Exists neg_vec l -> Exists neg_vec a -> check_valid s ErrValue
| CV_ok_none : lengths s = None -> angles s = None -> check_valid s (Val tt)
| CV_ok l a : lengths s = Some l -> angles s = Some a -> ~ Exists neg_vec l -> ~ Exists neg_vec a -> check_valid s (Val tt).

(* every frame has its own row of lengths and of angles *)
Definition per_frame (s : cell_state) : Prop :=
  match lengths s with Some l => length l = n_frames s | None => True end /\
  match angles s with Some a => length a = n_frames s | None => True end.

(* ---- the same guards as a computable table over what the guards look at (used by the runs: the implementation's error
   class on generated states is compared with this table, evaluated by vm_compute).
   hl / ha: lengths / angles stored; nl / na: some stored length / angle is negative.  0 = passes, 1 = AttributeError,
   2 = ValueError.  FrameProofs.check_valid_code_spec ties it to [check_valid]. *)
Definition check_valid_code (hl ha nl na : bool) : nat :=
  if andb hl (negb ha) then 1%nat else if andb (negb hl) ha then 1%nat
  else if andb hl nl then 2%nat else if andb ha na then 2%nat else 0%nat.
Definition outcome_code {A} (o : outcome A) : nat :=
  match o with Val _ => 0%nat | ErrAttribute => 1%nat | ErrValue => 2%nat | ErrType => 3%nat end.
(* unitcell_volumes: 0 = None, 3 = TypeError, 4 = one number per frame *)
Definition volumes_code (hl ha : bool) : nat := if negb hl then 0%nat else if ha then 4%nat else 3%nat.
