(* C17: the regenerated conversion formulas describe one and the same cell.  Real-number algebra; cos/sin of the
   angles are variables constrained by sg^2 + cg^2 = 1 (DESIGN.md 3.2). *)
From Coq Require Import Reals Lra Lia.
Require Import MD.Cell.Model.
Open Scope R_scope.

Section Construction.
Variables la lb lc ca cb cg sg : R.
Hypothesis Hla : 0 < la.
Hypothesis Hlb : 0 < lb.
Hypothesis Hlc : 0 < lc.
Hypothesis Hsg : 0 < sg.
Hypothesis Hunit : sg * sg + cg * cg = 1.

Let va : vec := fst (fst (to_vectors la lb lc ca cb cg sg)).
Let vb : vec := snd (fst (to_vectors la lb lc ca cb cg sg)).
Let vc : vec := snd (to_vectors la lb lc ca cb cg sg).
(* what the code takes the square root of for the third component of c *)
Definition radicand : R := lc * lc - (lc * cb) * (lc * cb) - (lc * (ca - cb * cg) / sg) * (lc * (ca - cb * cg) / sg).

Lemma sg_neq : sg <> 0.
Proof. lra. Qed.

(* the radicand is the Gram determinant, scaled: the cell is physically valid iff it is positive *)
Lemma radicand_gram : sg * sg * radicand = lc * lc * gram ca cb cg.
Proof.
  unfold radicand, gram. pose proof sg_neq.
  replace (sg * sg) with (1 - cg * cg) at 2 by lra.
  field_simplify; [|assumption]. replace (sg ^ 2) with (1 - cg * cg) by (simpl; lra). field.
Qed.

Lemma radicand_pos_iff : 0 < radicand <-> 0 < gram ca cb cg.
Proof.
  pose proof radicand_gram as H. assert (0 < sg * sg) by (apply Rmult_lt_0_compat; lra).
  assert (0 < lc * lc) by (apply Rmult_lt_0_compat; lra). split; intro Hp.
  - assert (0 < sg * sg * radicand) by (apply Rmult_lt_0_compat; assumption).
    rewrite H in H2. destruct (Rle_or_lt (gram ca cb cg) 0) as [Hn|]; [|assumption].
    assert (lc * lc * gram ca cb cg <= 0) by nra. lra.
  - assert (0 < lc * lc * gram ca cb cg) by (apply Rmult_lt_0_compat; assumption).
    rewrite <- H in H2. destruct (Rle_or_lt radicand 0) as [Hn|]; [|assumption].
    assert (sg * sg * radicand <= 0) by nra. lra.
Qed.

Lemma vc_third : snd vc = sqrt radicand.
Proof. reflexivity. Qed.

(* ---- the vectors have the stored lengths (as squared norms) *)
Lemma len_a : dot va va = la * la.
Proof. unfold va, to_vectors, gen_to_vectors, dot. cbn. ring. Qed.

Lemma len_b : dot vb vb = lb * lb.
Proof.
  unfold vb, to_vectors, gen_to_vectors, dot. cbn.
  replace (lb * cg * (lb * cg) + lb * sg * (lb * sg) + 0 * 0) with (lb * lb * (sg * sg + cg * cg)) by ring.
  rewrite Hunit. ring.
Qed.

Lemma len_c : 0 <= radicand -> dot vc vc = lc * lc.
Proof.
  intros Hr. unfold vc, to_vectors, gen_to_vectors, dot. cbn. fold radicand.
  rewrite sqrt_sqrt by exact Hr. unfold radicand. ring.
Qed.

(* ---- the vectors have the stored mutual angles (as cosines): alpha between b and c, beta between c and a,
        gamma between a and b *)
Lemma angle_alpha : dot vb vc = lb * lc * ca.
Proof. unfold vb, vc, to_vectors, gen_to_vectors, dot. cbn. pose proof sg_neq. field. assumption. Qed.

Lemma angle_beta : dot vc va = lc * la * cb.
Proof. unfold va, vc, to_vectors, gen_to_vectors, dot. cbn. ring. Qed.

Lemma angle_gamma : dot va vb = la * lb * cg.
Proof. unfold va, vb, to_vectors, gen_to_vectors, dot. cbn. ring. Qed.

(* ---- standard orientation: a along +x, b in the xy-plane with positive y, c with positive z, positive volume *)
Lemma orientation :
  va = (la, 0, 0) /\ snd vb = 0 /\ 0 < snd (fst vb) /\ (0 < radicand -> 0 < snd vc) /\
  det3 va vb vc = la * lb * sg * sqrt radicand.
Proof.
  unfold va, vb, vc, to_vectors, gen_to_vectors, det3. cbn. fold radicand. repeat split.
  - apply Rmult_lt_0_compat; assumption.
  - intros Hr. apply sqrt_lt_R0. exact Hr.
  - ring.
Qed.

Lemma volume_positive : 0 < radicand -> 0 < det3 va vb vc.
Proof.
  intros Hr. destruct orientation as [_ [_ [_ [_ ->]]]].
  repeat apply Rmult_lt_0_compat; try assumption. apply sqrt_lt_R0. exact Hr.
Qed.

(* the volume in closed form: V^2 = (la lb lc)^2 (1 - ca^2 - cb^2 - cg^2 + 2 ca cb cg) *)
Lemma volume_squared : 0 <= radicand ->
  det3 va vb vc * det3 va vb vc = (la * lb * lc) * (la * lb * lc) * gram ca cb cg.
Proof.
  intros Hr. destruct orientation as [_ [_ [_ [_ ->]]]].
  replace (la * lb * sg * sqrt radicand * (la * lb * sg * sqrt radicand))
    with (la * la * lb * lb * (sg * sg * (sqrt radicand * sqrt radicand))) by ring.
  rewrite sqrt_sqrt by exact Hr. rewrite radicand_gram. ring.
Qed.

(* ---- reading the vectors back returns the stored lengths and, angle by angle, the stored cosines *)
Lemma roundtrip : 0 <= radicand ->
  from_vectors va vb vc = ((la, lb, lc), (ca, cb, cg)).
Proof.
  intros Hr. unfold from_vectors, gen_from_vectors.
  rewrite len_a, len_b, (len_c Hr), angle_alpha, angle_beta, angle_gamma.
  rewrite !sqrt_square by lra. pose proof sg_neq.
  repeat f_equal; field; lra.
Qed.

(* ---- what unitcell_volumes returns (the determinant of the reported row matrix) is positive exactly for the angle
        triples with positive Gram determinant, and then equals la lb lc sqrt(gram) *)
Lemma radicand_nonneg_of_gram : 0 <= gram ca cb cg -> 0 <= radicand.
Proof.
  intros Hg. pose proof radicand_gram as H. assert (0 < sg * sg) by (apply Rmult_lt_0_compat; lra).
  assert (0 <= lc * lc * gram ca cb cg) by (apply Rmult_le_pos; [nra|exact Hg]).
  destruct (Rle_or_lt 0 radicand) as [|Hn]; [assumption|]. assert (sg * sg * radicand < 0) by nra. lra.
Qed.

Lemma volume_pos_iff : 0 < det3 va vb vc <-> 0 < gram ca cb cg.
Proof.
  split.
  - intros Hv. apply radicand_pos_iff. destruct orientation as [_ [_ [_ [_ Hd]]]]. rewrite Hd in Hv.
    destruct (Rle_or_lt radicand 0) as [Hn|]; [|assumption].
    rewrite (sqrt_neg_0 _ Hn) in Hv. lra.
  - intros Hg. apply volume_positive. apply radicand_pos_iff. exact Hg.
Qed.

Lemma volume_formula : 0 <= gram ca cb cg -> det3 va vb vc = la * lb * lc * sqrt (gram ca cb cg).
Proof.
  intros Hg. destruct orientation as [_ [_ [_ [_ ->]]]].
  pose proof (radicand_nonneg_of_gram Hg) as Hr.
  assert (E : sg * sqrt radicand = lc * sqrt (gram ca cb cg)).
  { rewrite <- (sqrt_square sg) at 1 by lra. rewrite <- (sqrt_square lc) at 1 by lra.
    rewrite <- !sqrt_mult; try nra. f_equal. apply radicand_gram. }
  replace (la * lb * sg * sqrt radicand) with (la * lb * (sg * sqrt radicand)) by ring. rewrite E. ring.
Qed.

End Construction.

(* ---- the naming convention of box_vectors_to_lengths_and_angles, against the hand-written convention *)
Lemma from_vectors_convention a b c :
  from_vectors a b c =
  ((sqrt (dot a a), sqrt (dot b b), sqrt (dot c c)), (cos_between b c, cos_between c a, cos_between a b)).
Proof. reflexivity. Qed.

(* ---- volumes: determinant of the row matrix = triple product *)
Lemma det_is_triple a b c : det3 a b c = dot a (cross b c).
Proof. destruct a as [[a1 a2] a3], b as [[b1 b2] b3], c as [[c1 c2] c3]. unfold det3, dot, cross. ring. Qed.

(* ---- a rotated description of the same cell reads back the same lengths, angles and volume *)
Lemma dot_rot m x y : orthogonal m -> dot (mapply m x) (mapply m y) = dot x y.
Proof.
  destruct m as [[[[a1 a2] a3] [[b1 b2] b3]] [[c1 c2] c3]], x as [[x1 x2] x3], y as [[y1 y2] y3].
  unfold orthogonal, col, mapply, dot. intros [H1 [H2 [H3 [H4 [H5 H6]]]]].
  transitivity ((a1 * a1 + b1 * b1 + c1 * c1) * x1 * y1 + (a2 * a2 + b2 * b2 + c2 * c2) * x2 * y2 +
                (a3 * a3 + b3 * b3 + c3 * c3) * x3 * y3 + (a1 * a2 + b1 * b2 + c1 * c2) * (x1 * y2 + x2 * y1) +
                (a1 * a3 + b1 * b3 + c1 * c3) * (x1 * y3 + x3 * y1) + (a2 * a3 + b2 * b3 + c2 * c3) * (x2 * y3 + x3 * y2)).
  - ring.
  - rewrite H1, H2, H3, H4, H5, H6. ring.
Qed.

Lemma rotated_same_cell m a b c : orthogonal m ->
  from_vectors (mapply m a) (mapply m b) (mapply m c) = from_vectors a b c.
Proof.
  intros Ho. unfold from_vectors, gen_from_vectors. rewrite !(dot_rot m) by exact Ho. reflexivity.
Qed.

Lemma det_apply m a b c : det3 (mapply m a) (mapply m b) (mapply m c) = mdet m * det3 a b c.
Proof.
  destruct m as [[[[m1 m2] m3] [[n1 n2] n3]] [[p1 p2] p3]], a as [[a1 a2] a3], b as [[b1 b2] b3], c as [[c1 c2] c3].
  unfold mdet, det3, mapply, dot. ring.
Qed.

Lemma rotated_same_volume m a b c : mdet m = 1 ->
  det3 (mapply m a) (mapply m b) (mapply m c) = det3 a b c.
Proof. intros H. rewrite det_apply, H. ring. Qed.

(* ---- the 1e-6 snap moves a component by less than 1e-6 and leaves exact zeros and larger components alone *)
Lemma snap_close x : Rabs (snap x - x) < gen_snap_tol.
Proof.
  unfold snap. destruct (Rlt_dec (Rabs x) gen_snap_tol) as [H|H].
  - replace (0 - x) with (- x) by ring. now rewrite Rabs_Ropp.
  - replace (x - x) with 0 by ring. rewrite Rabs_R0. unfold gen_snap_tol. lra.
Qed.

Lemma snap_keeps x : gen_snap_tol <= Rabs x -> snap x = x.
Proof. intros H. unfold snap. destruct (Rlt_dec (Rabs x) gen_snap_tol); [lra|reflexivity]. Qed.

Lemma snap_zero : snap 0 = 0.
Proof. unfold snap. destruct (Rlt_dec (Rabs 0) gen_snap_tol); reflexivity. Qed.

(* non-vacuity: the hypotheses are satisfiable by a cell with three different angles
   (cos gamma = 3/5, sin gamma = 4/5, cos alpha = 1/5, cos beta = 1/4; Gram determinant 0.5075 > 0) *)
Lemma example_cell :
  0 < (4 / 5) /\ (4 / 5) * (4 / 5) + (3 / 5) * (3 / 5) = 1 /\ 0 < gram (1 / 5) (1 / 4) (3 / 5).
Proof. unfold gram. lra. Qed.
