(* C17: what the 1e-6 snap of lengths_and_angles_to_box_vectors can and cannot change.
   - every dot product of two snapped vectors differs from the exact one by at most tol * (|u|_1 + |v|_1)
     (this is the `3e-6 (l_i + l_j)` term of the correspondence tolerance: |u|_1 <= sqrt 3 * |u|_2);
   - the standard orientation survives whenever the three diagonal entries are at least tol;
   - the volume (determinant of a lower-triangular matrix) is then not changed at all. *)
From Coq Require Import Reals Lra Lia.
Require Import MD.Cell.Model MD.Cell.Proofs MD.Cell.Frames MD.Cell.InverseProofs.
Open Scope R_scope.

Lemma tol_pos : 0 < gen_snap_tol.
Proof. unfold gen_snap_tol. lra. Qed.

Lemma snap_cases x : (Rabs x < gen_snap_tol /\ snap x = 0) \/ (gen_snap_tol <= Rabs x /\ snap x = x).
Proof.
  unfold snap. destruct (Rlt_dec (Rabs x) gen_snap_tol) as [H|H]; [left|right]; split; try reflexivity; lra.
Qed.

Lemma snap_shrinks x : Rabs (snap x) <= Rabs x.
Proof. destruct (snap_cases x) as [[_ ->]|[_ ->]]; [rewrite Rabs_R0; apply Rabs_pos|lra]. Qed.

Lemma snap_prod_bound x y : Rabs (snap x * snap y - x * y) <= gen_snap_tol * (Rabs x + Rabs y).
Proof.
  pose proof tol_pos as HT. pose proof (Rabs_pos x) as Px. pose proof (Rabs_pos y) as Py.
  destruct (snap_cases x) as [[Hx ->]|[Hx ->]], (snap_cases y) as [[Hy ->]|[Hy ->]].
  - replace (0 * 0 - x * y) with (- (x * y)) by ring. rewrite Rabs_Ropp, Rabs_mult. nra.
  - replace (0 * y - x * y) with (- (x * y)) by ring. rewrite Rabs_Ropp, Rabs_mult. nra.
  - replace (x * 0 - x * y) with (- (x * y)) by ring. rewrite Rabs_Ropp, Rabs_mult. nra.
  - replace (x * y - x * y) with 0 by ring. rewrite Rabs_R0. nra.
Qed.

Definition norm1 (u : vec) : R := let '(x, y, z) := u in Rabs x + Rabs y + Rabs z.

Lemma snap_dot_bound u v :
  Rabs (dot (snap_vec u) (snap_vec v) - dot u v) <= gen_snap_tol * (norm1 u + norm1 v).
Proof.
  destruct u as [[u1 u2] u3], v as [[v1 v2] v3]. unfold snap_vec, dot, norm1.
  replace (snap u1 * snap v1 + snap u2 * snap v2 + snap u3 * snap v3 - (u1 * v1 + u2 * v2 + u3 * v3))
    with ((snap u1 * snap v1 - u1 * v1) + (snap u2 * snap v2 - u2 * v2) + (snap u3 * snap v3 - u3 * v3)) by ring.
  pose proof (snap_prod_bound u1 v1). pose proof (snap_prod_bound u2 v2). pose proof (snap_prod_bound u3 v3).
  eapply Rle_trans; [apply Rabs_triang|]. eapply Rle_trans; [apply Rplus_le_compat_r; apply Rabs_triang|]. lra.
Qed.

(* the standard orientation survives the snap when the diagonal entries are not themselves below the tolerance *)
Lemma snap_keeps_std m :
  std_oriented m ->
  (let '((a1, _, _), (_, b2, _), (_, _, c3)) := m in gen_snap_tol <= a1 /\ gen_snap_tol <= b2 /\ gen_snap_tol <= c3) ->
  std_oriented (snap_mat m).
Proof.
  destruct m as [[[[a1 a2] a3] [[b1 b2] b3]] [[c1 c2] c3]]. unfold std_oriented, snap_mat, snap_vec.
  intros [Ha [-> [-> [Hb [-> Hc]]]]] [Ta [Tb Tc]].
  rewrite snap_zero. rewrite !snap_keeps by (rewrite Rabs_right; lra). repeat split; assumption.
Qed.

(* ... and the volume is untouched: the determinant of a lower-triangular matrix is the product of its diagonal *)
Lemma snap_keeps_volume m :
  std_oriented m ->
  (let '((a1, _, _), (_, b2, _), (_, _, c3)) := m in gen_snap_tol <= a1 /\ gen_snap_tol <= b2 /\ gen_snap_tol <= c3) ->
  volume_frame (snap_mat m) = volume_frame m.
Proof.
  destruct m as [[[[a1 a2] a3] [[b1 b2] b3]] [[c1 c2] c3]]. unfold std_oriented, snap_mat, snap_vec, volume_frame, det3.
  intros [Ha [-> [-> [Hb [-> Hc]]]]] [Ta [Tb Tc]].
  rewrite snap_zero. rewrite !(snap_keeps a1), !(snap_keeps b2), !(snap_keeps c3) by (rewrite Rabs_right; lra). ring.
Qed.

(* each component moves by less than the tolerance *)
Lemma snap_mat_close m :
  let '((a1, a2, a3), (b1, b2, b3), (c1, c2, c3)) := m in
  let '((p1, p2, p3), (q1, q2, q3), (r1, r2, r3)) := snap_mat m in
  Rabs (p1 - a1) < gen_snap_tol /\ Rabs (p2 - a2) < gen_snap_tol /\ Rabs (p3 - a3) < gen_snap_tol /\
  Rabs (q1 - b1) < gen_snap_tol /\ Rabs (q2 - b2) < gen_snap_tol /\ Rabs (q3 - b3) < gen_snap_tol /\
  Rabs (r1 - c1) < gen_snap_tol /\ Rabs (r2 - c2) < gen_snap_tol /\ Rabs (r3 - c3) < gen_snap_tol.
Proof.
  destruct m as [[[[a1 a2] a3] [[b1 b2] b3]] [[c1 c2] c3]]. unfold snap_mat, snap_vec. repeat split; apply snap_close.
Qed.
