(* C17: the conversions with the angles themselves (degrees).  The hypotheses sg > 0, sg^2 + cg^2 = 1 of Cell/Proofs.v are
   discharged from 0 < gamma < 180; arccos undoes cos on [0, 180]; the positivity condition on the cosines is the
   triangle condition on the angles; the tilt factors are the components of the box vectors. *)
From Coq Require Import Reals Lra Lia.
Require Import MD.Cell.Model MD.Cell.Proofs MD.Cell.Frames.
Open Scope R_scope.

Lemma PI_pos : 0 < PI.
Proof. exact PI_RGT_0. Qed.

Lemma deg_range x : 0 < x < 180 -> 0 < deg2rad x < PI.
Proof.
  intros [H0 H1]. unfold deg2rad, gen_deg2rad. pose proof PI_pos as HP. split.
  - apply Rdiv_lt_0_compat; [apply Rmult_lt_0_compat; assumption|lra].
  - apply (Rmult_lt_reg_r 180); [lra|]. replace (x * PI / 180 * 180) with (x * PI) by field.
    rewrite (Rmult_comm PI 180). apply Rmult_lt_compat_r; assumption.
Qed.

Lemma deg_range_le x : 0 <= x <= 180 -> 0 <= deg2rad x <= PI.
Proof.
  intros [H0 H1]. unfold deg2rad, gen_deg2rad. pose proof PI_pos as HP. split.
  - apply Rmult_le_pos; [apply Rmult_le_pos; lra|lra].
  - apply (Rmult_le_reg_r 180); [lra|]. replace (x * PI / 180 * 180) with (x * PI) by field.
    rewrite (Rmult_comm PI 180). apply Rmult_le_compat_r; lra.
Qed.

Lemma rad2deg_deg2rad x : rad2deg (deg2rad x) = x.
Proof. unfold rad2deg, deg2rad, gen_rad2deg, gen_deg2rad. pose proof PI_pos. field. lra. Qed.

Lemma deg2rad_rad2deg x : deg2rad (rad2deg x) = x.
Proof. unfold rad2deg, deg2rad, gen_rad2deg, gen_deg2rad. pose proof PI_pos. field. lra. Qed.

(* arccos(cos(x deg)) in degrees is x again on the whole closed range of a cell angle *)
Lemma acos_cos_deg x : 0 <= x <= 180 -> rad2deg (acos (cos (deg2rad x))) = x.
Proof. intros H. rewrite acos_cos by (apply deg_range_le; exact H). apply rad2deg_deg2rad. Qed.

(* the angle the inverse conversion reports is always within [0, 180] *)
Lemma reported_angle_range c : 0 <= rad2deg (acos c) <= 180.
Proof.
  destruct (acos_bound c) as [H0 H1]. unfold rad2deg, gen_rad2deg. pose proof PI_pos as HP. split.
  - apply Rmult_le_pos; [apply Rmult_le_pos; lra|]. left. apply Rinv_0_lt_compat. exact HP.
  - apply (Rmult_le_reg_r PI); [exact HP|]. replace (acos c * 180 / PI * PI) with (acos c * 180) by (field; lra).
    rewrite (Rmult_comm 180 PI). apply Rmult_le_compat_r; lra.
Qed.

Lemma sin_pos_deg x : 0 < x < 180 -> 0 < sin (deg2rad x).
Proof. intros H. destruct (deg_range x H). apply sin_gt_0; assumption. Qed.

Lemma unit_circle x : sin x * sin x + cos x * cos x = 1.
Proof. pose proof (sin2_cos2 x) as H. unfold Rsqr in H. exact H. Qed.

Section Deg.
Variables la lb lc alpha beta gamma : R.
Hypothesis Hv : valid_cell (la, lb, lc) (alpha, beta, gamma).

Let ca := cos (deg2rad alpha).
Let cb := cos (deg2rad beta).
Let cg := cos (deg2rad gamma).
Let sg := sin (deg2rad gamma).

Lemma valid_parts : 0 < la /\ 0 < lb /\ 0 < lc /\ 0 < sg /\ sg * sg + cg * cg = 1 /\ 0 < gram ca cb cg.
Proof.
  destruct Hv as [Ha [Hb [Hc [_ [_ [Hg Hgram]]]]]]. repeat split; try assumption.
  - apply sin_pos_deg. exact Hg.
  - apply unit_circle.
Qed.

Lemma valid_radicand : 0 < radicand lc ca cb cg sg.
Proof.
  destruct valid_parts as [_ [_ [Hc [Hs [Hu Hg]]]]]. apply (radicand_pos_iff lc ca cb cg sg Hc Hs Hu). exact Hg.
Qed.

Lemma to_vectors_deg_unfold :
  to_vectors_deg la lb lc alpha beta gamma = to_vectors la lb lc ca cb cg sg.
Proof. reflexivity. Qed.

(* reported vectors: stored lengths and stored angles *)
Lemma deg_vectors_gram :
  let '(va, vb, vc) := to_vectors_deg la lb lc alpha beta gamma in
  dot va va = la * la /\ dot vb vb = lb * lb /\ dot vc vc = lc * lc /\
  dot vb vc = lb * lc * cos (deg2rad alpha) /\ dot vc va = lc * la * cos (deg2rad beta) /\
  dot va vb = la * lb * cos (deg2rad gamma).
Proof.
  destruct valid_parts as [Ha [Hb [Hc [Hs [Hu Hg]]]]]. pose proof valid_radicand as Hr.
  rewrite to_vectors_deg_unfold.
  pose proof (len_a la lb lc ca cb cg sg) as L1. pose proof (len_b la lb lc ca cb cg sg Hu) as L2.
  pose proof (len_c la lb lc ca cb cg sg (Rlt_le _ _ Hr)) as L3.
  pose proof (angle_alpha la lb lc ca cb cg sg Hs) as A1. pose proof (angle_beta la lb lc ca cb cg sg) as A2.
  pose proof (angle_gamma la lb lc ca cb cg sg) as A3.
  destruct (to_vectors la lb lc ca cb cg sg) as [[va vb] vc]. cbn [fst snd] in *. repeat split; assumption.
Qed.

(* standard orientation and positive volume *)
Lemma deg_orientation :
  let '(va, vb, vc) := to_vectors_deg la lb lc alpha beta gamma in
  va = (la, 0, 0) /\ snd vb = 0 /\ 0 < snd (fst vb) /\ 0 < snd vc /\ 0 < det3 va vb vc.
Proof.
  destruct valid_parts as [Ha [Hb [Hc [Hs [Hu Hg]]]]]. pose proof valid_radicand as Hr.
  rewrite to_vectors_deg_unfold.
  destruct (orientation la lb lc ca cb cg sg Hb Hs) as [O1 [O2 [O3 [O4 _]]]].
  pose proof (volume_positive la lb lc ca cb cg sg Ha Hb Hs Hr) as V.
  destruct (to_vectors la lb lc ca cb cg sg) as [[va vb] vc]. cbn [fst snd] in *.
  repeat split; try assumption. apply O4. exact Hr.
Qed.

Lemma deg_volume :
  let '(va, vb, vc) := to_vectors_deg la lb lc alpha beta gamma in
  det3 va vb vc = la * lb * lc * sqrt (gram_deg alpha beta gamma).
Proof.
  destruct valid_parts as [Ha [Hb [Hc [Hs [Hu Hg]]]]]. rewrite to_vectors_deg_unfold.
  pose proof (volume_formula la lb lc ca cb cg sg Hb Hc Hs Hu (Rlt_le _ _ Hg)) as V.
  destruct (to_vectors la lb lc ca cb cg sg) as [[va vb] vc]. cbn [fst snd] in *. exact V.
Qed.

Lemma deg_orientation_volume :
  let '(va, vb, vc) := to_vectors_deg la lb lc alpha beta gamma in
  (va = (la, 0, 0) /\ snd vb = 0 /\ 0 < snd (fst vb) /\ 0 < snd vc /\ 0 < det3 va vb vc) /\
  det3 va vb vc = la * lb * lc * sqrt (gram_deg alpha beta gamma).
Proof.
  pose proof deg_orientation as O. pose proof deg_volume as V.
  destruct (to_vectors_deg la lb lc alpha beta gamma) as [[va vb] vc]. split; assumption.
Qed.

(* lengths, angles -> vectors -> lengths, angles: the identity on every valid cell, in degrees *)
Lemma deg_roundtrip :
  let '(va, vb, vc) := to_vectors_deg la lb lc alpha beta gamma in
  from_vectors_deg va vb vc = ((la, lb, lc), (alpha, beta, gamma)).
Proof.
  destruct valid_parts as [Ha [Hb [Hc [Hs [Hu Hg]]]]]. pose proof valid_radicand as Hr.
  rewrite to_vectors_deg_unfold.
  pose proof (roundtrip la lb lc ca cb cg sg Ha Hb Hc Hs Hu (Rlt_le _ _ Hr)) as RT.
  destruct (to_vectors la lb lc ca cb cg sg) as [[va vb] vc]. cbn [fst snd] in RT.
  unfold from_vectors_deg, gen_from_vectors_deg. unfold from_vectors in RT. rewrite RT.
  destruct Hv as [_ [_ [_ [[A0 A1] [[B0 B1] [[G0 G1] _]]]]]].
  unfold ca, cb, cg. fold rad2deg.
  rewrite !acos_cos_deg by lra. reflexivity.
Qed.

End Deg.

(* ---- the positivity condition on the cosines is the triangle condition on the angles *)
Lemma sin_sin_product x y : 2 * (sin x * sin y) = cos (x - y) - cos (x + y).
Proof. rewrite cos_minus, cos_plus. ring. Qed.

Lemma gram_factorisation A B C :
  gram (cos A) (cos B) (cos C) =
  4 * (sin ((A + B + C) / 2) * sin ((B + C - A) / 2)) * (sin ((C + A - B) / 2) * sin ((A + B - C) / 2)).
Proof.
  assert (E1 : 2 * (sin ((A + B + C) / 2) * sin ((B + C - A) / 2)) = cos A - cos (B + C)).
  { rewrite sin_sin_product. f_equal; f_equal; field. }
  assert (E2 : 2 * (sin ((C + A - B) / 2) * sin ((A + B - C) / 2)) = cos (C - B) - cos A).
  { rewrite sin_sin_product. f_equal; f_equal; field. }
  replace (4 * (sin ((A + B + C) / 2) * sin ((B + C - A) / 2)) * (sin ((C + A - B) / 2) * sin ((A + B - C) / 2)))
    with ((2 * (sin ((A + B + C) / 2) * sin ((B + C - A) / 2))) * (2 * (sin ((C + A - B) / 2) * sin ((A + B - C) / 2)))) by ring.
  rewrite E1, E2, cos_plus, cos_minus. unfold gram.
  pose proof (unit_circle B) as HB. pose proof (unit_circle C) as HC.
  replace ((cos A - (cos B * cos C - sin B * sin C)) * (cos C * cos B + sin C * sin B - cos A))
    with ((sin B * sin B) * (sin C * sin C) - (cos A - cos B * cos C) * (cos A - cos B * cos C)) by ring.
  replace (sin B * sin B) with (1 - cos B * cos B) by lra.
  replace (sin C * sin C) with (1 - cos C * cos C) by lra. ring.
Qed.

Lemma sin_sign_low x : - (PI / 2) < x <= 0 -> sin x <= 0.
Proof.
  intros [H0 H1]. pose proof PI_pos as HP. assert (0 <= sin (- x)) by (apply sin_ge_0; lra).
  rewrite sin_neg in H. lra.
Qed.

(* for angles strictly between 0 and pi (radians) *)
Lemma gram_pos_iff_triangle_rad A B C :
  0 < A < PI -> 0 < B < PI -> 0 < C < PI ->
  (0 < gram (cos A) (cos B) (cos C) <-> A + B + C < 2 * PI /\ A < B + C /\ B < C + A /\ C < A + B).
Proof.
  intros HA HB HC. rewrite gram_factorisation. pose proof PI_pos as HP.
  set (s := (A + B + C) / 2). set (sa := (B + C - A) / 2). set (sb := (C + A - B) / 2). set (sc := (A + B - C) / 2).
  assert (Rs : 0 < s < 3 * PI / 2) by (unfold s; lra).
  assert (Ra : - (PI / 2) < sa < PI) by (unfold sa; lra).
  assert (Rb : - (PI / 2) < sb < PI) by (unfold sb; lra).
  assert (Rc : - (PI / 2) < sc < PI) by (unfold sc; lra).
  assert (Sab : 0 < sa + sb) by (unfold sa, sb; lra).
  assert (Sac : 0 < sa + sc) by (unfold sa, sc; lra).
  assert (Sbc : 0 < sb + sc) by (unfold sb, sc; lra).
  assert (Pos : forall x, 0 < x < PI -> 0 < sin x) by (intros x [? ?]; apply sin_gt_0; assumption).
  assert (Npos : forall x, - (PI / 2) < x < PI -> x <= 0 -> sin x <= 0) by (intros x [? ?] ?; apply sin_sign_low; lra).
  split.
  - intros Hprod.
    (* s < PI *)
    assert (Hs : s < PI).
    { destruct (Rlt_or_le s PI) as [|Hge]; [assumption|exfalso].
      assert (sin s <= 0).
      { destruct Hge as [Hgt|Heq]; [|rewrite <- Heq, sin_PI; lra].
        left. apply sin_lt_0; lra. }
      assert (0 < sa) by (unfold sa, s in *; lra). assert (0 < sb) by (unfold sb, s in *; lra).
      assert (0 < sc) by (unfold sc, s in *; lra).
      pose proof (Pos sa (conj H0 (proj2 Ra))). pose proof (Pos sb (conj H1 (proj2 Rb))). pose proof (Pos sc (conj H2 (proj2 Rc))).
      assert (sin s * sin sa <= 0) by nra. assert (0 < sin sb * sin sc) by nra. nra. }
    pose proof (Pos s (conj (proj1 Rs) Hs)) as Ps.
    assert (Ha : 0 < sa).
    { destruct (Rlt_or_le 0 sa) as [|Hle]; [assumption|exfalso].
      pose proof (Npos sa Ra Hle). assert (0 < sb) by lra. assert (0 < sc) by lra.
      pose proof (Pos sb (conj H0 (proj2 Rb))). pose proof (Pos sc (conj H1 (proj2 Rc))).
      assert (sin s * sin sa <= 0) by nra. assert (0 < sin sb * sin sc) by nra. nra. }
    pose proof (Pos sa (conj Ha (proj2 Ra))) as Pa.
    assert (Hb : 0 < sb).
    { destruct (Rlt_or_le 0 sb) as [|Hle]; [assumption|exfalso].
      pose proof (Npos sb Rb Hle). assert (0 < sc) by lra.
      pose proof (Pos sc (conj H0 (proj2 Rc))).
      assert (0 < sin s * sin sa) by nra. assert (sin sb * sin sc <= 0) by nra. nra. }
    pose proof (Pos sb (conj Hb (proj2 Rb))) as Pb.
    assert (Hc : 0 < sc).
    { destruct (Rlt_or_le 0 sc) as [|Hle]; [assumption|exfalso].
      pose proof (Npos sc Rc Hle).
      assert (0 < sin s * sin sa) by nra. assert (sin sb * sin sc <= 0) by nra. nra. }
    unfold s, sa, sb, sc in *. repeat split; lra.
  - intros [H1 [H2 [H3 H4]]].
    assert (0 < sin s) by (apply Pos; unfold s; lra).
    assert (0 < sin sa) by (apply Pos; unfold sa; lra).
    assert (0 < sin sb) by (apply Pos; unfold sb; lra).
    assert (0 < sin sc) by (apply Pos; unfold sc; lra).
    assert (0 < sin s * sin sa) by nra. assert (0 < sin sb * sin sc) by nra. nra.
Qed.

(* the same in degrees *)
Lemma gram_pos_iff_triangle alpha beta gamma :
  angle_ok alpha -> angle_ok beta -> angle_ok gamma ->
  (0 < gram_deg alpha beta gamma <-> triangle_condition alpha beta gamma).
Proof.
  intros Ha Hb Hg. unfold gram_deg.
  rewrite (gram_pos_iff_triangle_rad _ _ _ (deg_range _ Ha) (deg_range _ Hb) (deg_range _ Hg)).
  unfold triangle_condition, deg2rad, gen_deg2rad. pose proof PI_pos as HP.
  assert (K : forall x y, x * PI / 180 < y * PI / 180 <-> x < y).
  { intros x y. split; intros H.
    - apply (Rmult_lt_reg_r (PI / 180)); [lra|]. lra.
    - assert (0 < PI / 180) by lra. assert ((y - x) * (PI / 180) > 0) by (apply Rmult_lt_0_compat; lra). lra. }
  split; intros [H1 [H2 [H3 H4]]]; repeat split.
  - apply (K (alpha + beta + gamma) 360). lra.
  - apply (K alpha (beta + gamma)). lra.
  - apply (K beta (gamma + alpha)). lra.
  - apply (K gamma (alpha + beta)). lra.
  - apply (K (alpha + beta + gamma) 360) in H1. lra.
  - apply (K alpha (beta + gamma)) in H2. lra.
  - apply (K beta (gamma + alpha)) in H3. lra.
  - apply (K gamma (alpha + beta)) in H4. lra.
Qed.

(* ---- tilt factors: (lx, ly, lz, xy, xz, yz) = (a_x, b_y, c_z, b_x, c_x, c_y) of the box vectors *)
Lemma tilt_ly lb cg sg : 0 < lb -> 0 < sg -> sg * sg + cg * cg = 1 -> sqrt (lb * lb - lb * cg * (lb * cg)) = lb * sg.
Proof.
  intros Hb Hs Hu. replace (lb * lb - lb * cg * (lb * cg)) with ((lb * sg) * (lb * sg)).
  - apply sqrt_square. apply Rmult_le_pos; lra.
  - replace (lb * lb - lb * cg * (lb * cg)) with (lb * lb * (1 - cg * cg)) by ring. rewrite <- Hu. ring.
Qed.

Lemma tilt_matches_vectors la lb lc ca cb cg sg :
  0 < lb -> 0 < sg -> sg * sg + cg * cg = 1 ->
  let '((ax, _, _), (bx, by_, _), (cx, cy, cz)) := to_vectors la lb lc ca cb cg sg in
  tilt_factors la lb lc ca cb cg = (ax, by_, cz, bx, cx, cy).
Proof.
  intros Hb Hs Hu. unfold to_vectors, gen_to_vectors, tilt_factors, gen_tilt_factors.
  rewrite (tilt_ly lb cg sg Hb Hs Hu).
  assert (Y : (lb * lc * ca - lb * cg * (lc * cb)) / (lb * sg) = lc * (ca - cb * cg) / sg) by (field; lra).
  rewrite Y. reflexivity.
Qed.

Lemma tilt_matches_vectors_deg la lb lc alpha beta gamma :
  0 < lb -> angle_ok gamma ->
  let '((ax, _, _), (bx, by_, _), (cx, cy, cz)) := to_vectors_deg la lb lc alpha beta gamma in
  tilt_factors_deg la lb lc alpha beta gamma = (ax, by_, cz, bx, cx, cy).
Proof.
  intros Hb Hg.
  exact (tilt_matches_vectors la lb lc _ _ _ _ Hb (sin_pos_deg _ Hg) (unit_circle _)).
Qed.

(* non-vacuity: 3 x 4 x 5 nm with angles 70, 80, 100 degrees is a valid cell (triangle condition) *)
Lemma example_valid_cell : valid_cell (3, 4, 5) (70, 80, 100).
Proof.
  unfold valid_cell. assert (A1 : angle_ok 70) by (unfold angle_ok; lra).
  assert (A2 : angle_ok 80) by (unfold angle_ok; lra). assert (A3 : angle_ok 100) by (unfold angle_ok; lra).
  repeat split; try lra.
  apply (gram_pos_iff_triangle 70 80 100 A1 A2 A3). unfold triangle_condition. lra.
Qed.
