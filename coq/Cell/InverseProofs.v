(* C17, the round trip in the OTHER direction: any three linearly independent vectors (any orientation, either handedness)
   -> lengths and angles -> box vectors gives a description of the same cell: the same six dot products, the volume
   |det|, and exactly the same vectors when the input was already in the standard orientation. *)
From Coq Require Import Reals Lra Lia.
Require Import MD.Cell.Model MD.Cell.Proofs MD.Cell.Frames MD.Cell.DegProofs.
Open Scope R_scope.

Lemma lagrange u v : dot u u * dot v v - dot u v * dot u v = dot (cross u v) (cross u v).
Proof. destruct u as [[u1 u2] u3], v as [[v1 v2] v3]. unfold dot, cross. ring. Qed.

Lemma det_cyclic a b c : det3 a b c = dot c (cross a b).
Proof. destruct a as [[a1 a2] a3], b as [[b1 b2] b3], c as [[c1 c2] c3]. unfold det3, dot, cross. ring. Qed.

(* the square of the determinant is the Gram determinant of the three vectors *)
Lemma gram_det a b c :
  det3 a b c * det3 a b c =
  dot a a * dot b b * dot c c - dot a a * (dot b c * dot b c) - dot b b * (dot c a * dot c a) - dot c c * (dot a b * dot a b)
  + 2 * (dot a b * dot b c * dot c a).
Proof. destruct a as [[a1 a2] a3], b as [[b1 b2] b3], c as [[c1 c2] c3]. unfold det3, dot. ring. Qed.

Lemma dot_nonneg u : 0 <= dot u u.
Proof. destruct u as [[u1 u2] u3]. unfold dot. nra. Qed.

Lemma dot_pos_of_nonzero u : u <> (0, 0, 0) -> 0 < dot u u.
Proof.
  destruct u as [[u1 u2] u3]. unfold dot. intros H.
  destruct (Req_dec u1 0) as [E1|N1]; [|nra]. destruct (Req_dec u2 0) as [E2|N2]; [|nra].
  destruct (Req_dec u3 0) as [E3|N3]; [|nra]. subst. contradiction H. reflexivity.
Qed.

Lemma independent_parts a b c : det3 a b c <> 0 ->
  0 < dot a a /\ 0 < dot b b /\ 0 < dot c c /\ 0 < dot (cross a b) (cross a b).
Proof.
  intros Hd. repeat split; apply dot_pos_of_nonzero; intros E; apply Hd.
  - subst. destruct b as [[b1 b2] b3], c as [[c1 c2] c3]. unfold det3. ring.
  - subst. destruct a as [[a1 a2] a3], c as [[c1 c2] c3]. unfold det3. ring.
  - subst. destruct a as [[a1 a2] a3], b as [[b1 b2] b3]. unfold det3. ring.
  - rewrite det_cyclic, E. destruct c as [[c1 c2] c3]. unfold dot. ring.
Qed.

Lemma sqrt_sq_pos x : 0 < x -> 0 < sqrt x /\ sqrt x * sqrt x = x.
Proof. intros H. split; [apply sqrt_lt_R0; exact H|apply sqrt_sqrt; lra]. Qed.

Section Inverse.
Variables a b c : vec.
Hypothesis Hind : det3 a b c <> 0.

Let la := sqrt (dot a a).
Let lb := sqrt (dot b b).
Let lc := sqrt (dot c c).
Let ca := dot b c / (lb * lc).
Let cb := dot c a / (lc * la).
Let cg := dot a b / (la * lb).
Let sg := sqrt (1 - cg * cg).

Lemma from_vectors_is : from_vectors a b c = ((la, lb, lc), (ca, cb, cg)).
Proof. reflexivity. Qed.

Lemma inv_lengths : 0 < la /\ 0 < lb /\ 0 < lc /\ la * la = dot a a /\ lb * lb = dot b b /\ lc * lc = dot c c.
Proof.
  destruct (independent_parts a b c Hind) as [Ha [Hb [Hc _]]].
  destruct (sqrt_sq_pos _ Ha). destruct (sqrt_sq_pos _ Hb). destruct (sqrt_sq_pos _ Hc). repeat split; assumption.
Qed.

Lemma inv_dots : lb * lc * ca = dot b c /\ lc * la * cb = dot c a /\ la * lb * cg = dot a b.
Proof.
  destruct inv_lengths as [Ha [Hb [Hc _]]]. unfold ca, cb, cg. repeat split; field; lra.
Qed.

(* Cauchy-Schwarz, strict for independent vectors: the cosine handed to arccos is strictly inside (-1, 1) *)
Lemma inv_cg_range : 0 < 1 - cg * cg.
Proof.
  destruct inv_lengths as [Ha [Hb [Hc [Ea [Eb Ec]]]]]. destruct inv_dots as [_ [_ Dg]].
  destruct (independent_parts a b c Hind) as [_ [_ [_ Hx]]]. rewrite <- lagrange, <- Ea, <- Eb, <- Dg in Hx.
  assert (0 < la * la * (lb * lb)) by (apply Rmult_lt_0_compat; nra).
  destruct (Rlt_or_le 0 (1 - cg * cg)) as [|Hn]; [assumption|exfalso].
  assert (la * la * (lb * lb) * (1 - cg * cg) <= 0) by nra. nra.
Qed.

Lemma inv_sg : 0 < sg /\ sg * sg + cg * cg = 1.
Proof. destruct (sqrt_sq_pos _ inv_cg_range) as [H1 H2]. fold sg in H1, H2. split; [exact H1|lra]. Qed.

Lemma inv_gram : (la * lb * lc) * (la * lb * lc) * gram ca cb cg = det3 a b c * det3 a b c.
Proof.
  destruct inv_lengths as [_ [_ [_ [Ea [Eb Ec]]]]]. destruct inv_dots as [Da [Db Dg]].
  rewrite gram_det, <- Ea, <- Eb, <- Ec, <- Da, <- Db, <- Dg. unfold gram. ring.
Qed.

Lemma inv_gram_pos : 0 < gram ca cb cg.
Proof.
  destruct inv_lengths as [Ha [Hb [Hc _]]]. pose proof inv_gram as G.
  assert (0 < det3 a b c * det3 a b c) by nra.
  assert (0 < (la * lb * lc) * (la * lb * lc)) by (assert (0 < la * lb * lc) by (repeat apply Rmult_lt_0_compat; assumption); nra).
  destruct (Rlt_or_le 0 (gram ca cb cg)) as [|Hn]; [assumption|exfalso]. nra.
Qed.

(* vectors -> lengths, cosines -> vectors: the six dot products are those of the input *)
Lemma inverse_same_gram :
  let '(va, vb, vc) := to_vectors la lb lc ca cb cg sg in
  dot va va = dot a a /\ dot vb vb = dot b b /\ dot vc vc = dot c c /\
  dot vb vc = dot b c /\ dot vc va = dot c a /\ dot va vb = dot a b.
Proof.
  destruct inv_lengths as [Ha [Hb [Hc [Ea [Eb Ec]]]]]. destruct inv_dots as [Da [Db Dg]]. destruct inv_sg as [Hs Hu].
  pose proof inv_gram_pos as Hg.
  pose proof (radicand_nonneg_of_gram lc ca cb cg sg Hs Hu (Rlt_le _ _ Hg)) as Hr.
  pose proof (len_a la lb lc ca cb cg sg) as L1. pose proof (len_b la lb lc ca cb cg sg Hu) as L2.
  pose proof (len_c la lb lc ca cb cg sg Hr) as L3.
  pose proof (angle_alpha la lb lc ca cb cg sg Hs) as A1. pose proof (angle_beta la lb lc ca cb cg sg) as A2.
  pose proof (angle_gamma la lb lc ca cb cg sg) as A3.
  destruct (to_vectors la lb lc ca cb cg sg) as [[va vb] vc]. cbn [fst snd] in *.
  rewrite L1, L2, L3, A1, A2, A3. repeat split; assumption.
Qed.

(* ... and the reported volume is the absolute value of the determinant of the description (a left-handed description
   is reported right-handed) *)
Lemma inverse_volume :
  let '(va, vb, vc) := to_vectors la lb lc ca cb cg sg in det3 va vb vc = Rabs (det3 a b c).
Proof.
  destruct inv_lengths as [Ha [Hb [Hc _]]]. destruct inv_sg as [Hs Hu]. pose proof inv_gram_pos as Hg.
  pose proof (volume_formula la lb lc ca cb cg sg Hb Hc Hs Hu (Rlt_le _ _ Hg)) as V.
  destruct (to_vectors la lb lc ca cb cg sg) as [[va vb] vc]. cbn [fst snd] in V. rewrite V.
  rewrite <- sqrt_Rsqr_abs. unfold Rsqr. rewrite <- inv_gram.
  assert (P : 0 < la * lb * lc) by (repeat apply Rmult_lt_0_compat; assumption).
  rewrite sqrt_mult by nra. rewrite sqrt_square by lra. reflexivity.
Qed.

(* the same through the degree-valued functions: arccos, then cos / sin of its result *)
Lemma inv_cos_ranges : -1 <= ca <= 1 /\ -1 <= cb <= 1 /\ -1 <= cg <= 1.
Proof.
  destruct inv_lengths as [Ha [Hb [Hc [Ea [Eb Ec]]]]]. destruct inv_dots as [Da [Db Dg]].
  assert (K : forall lu lv cuv u v, 0 < lu -> 0 < lv -> lu * lu = dot u u -> lv * lv = dot v v -> lu * lv * cuv = dot u v ->
              -1 <= cuv <= 1).
  { intros lu lv cuv u v Hu Hv Eu Ev D. pose proof (lagrange u v) as Lg. pose proof (dot_nonneg (cross u v)) as N.
    rewrite <- Eu, <- Ev, <- D in Lg.
    assert (P : 0 < lu * lu * (lv * lv)) by (apply Rmult_lt_0_compat; nra).
    assert (0 <= 1 - cuv * cuv).
    { destruct (Rle_or_lt 0 (1 - cuv * cuv)) as [|Hn]; [assumption|exfalso].
      assert (lu * lu * (lv * lv) * (1 - cuv * cuv) < 0) by nra. nra. }
    split; nra. }
  repeat split.
  - apply (K lb lc ca b c Hb Hc Eb Ec Da).
  - apply (K lb lc ca b c Hb Hc Eb Ec Da).
  - apply (K lc la cb c a Hc Ha Ec Ea Db).
  - apply (K lc la cb c a Hc Ha Ec Ea Db).
  - apply (K la lb cg a b Ha Hb Ea Eb Dg).
  - apply (K la lb cg a b Ha Hb Ea Eb Dg).
Qed.

Lemma inverse_deg_unfold :
  let '((x, y, z), (al, be, ga)) := from_vectors_deg a b c in
  to_vectors_deg x y z al be ga = to_vectors la lb lc ca cb cg sg.
Proof.
  unfold from_vectors_deg, gen_from_vectors_deg. fold from_vectors. rewrite from_vectors_is.
  unfold to_vectors_deg, gen_to_vectors_deg. fold to_vectors. fold rad2deg. fold deg2rad.
  destruct inv_cos_ranges as [Ra [Rb Rg]].
  rewrite !deg2rad_rad2deg, !cos_acos by assumption. rewrite sin_acos by assumption. unfold Rsqr. reflexivity.
Qed.

(* the angles the setter stores for an independent description are valid cell angles, and the stored cell is valid *)
Lemma inverse_valid : let '(l, ang) := from_vectors_deg a b c in valid_cell l ang.
Proof.
  unfold from_vectors_deg, gen_from_vectors_deg. fold from_vectors. rewrite from_vectors_is. fold rad2deg.
  destruct inv_lengths as [Ha [Hb [Hc _]]]. destruct inv_cos_ranges as [Ra [Rb Rg]].
  unfold valid_cell, gram_deg. rewrite !deg2rad_rad2deg, !cos_acos by assumption.
  pose proof inv_gram_pos as Hg.
  (* strictness of the three ranges: a cosine of +-1 would make the Gram determinant non-positive *)
  assert (S : forall x y z, -1 <= x <= 1 -> -1 <= y <= 1 -> -1 <= z <= 1 -> 0 < gram x y z -> -1 < x < 1).
  { intros x y z Hx Hy Hz G. unfold gram in G.
    split.
    - destruct (Req_dec x (-1)) as [E|N]; [subst; exfalso|lra].
      pose proof (Rle_0_sqr (y + z)) as Q. unfold Rsqr in Q. lra.
    - destruct (Req_dec x 1) as [E|N]; [subst; exfalso|lra].
      pose proof (Rle_0_sqr (y - z)) as Q. unfold Rsqr in Q. lra. }
  assert (Sa : -1 < ca < 1) by (apply (S ca cb cg); assumption).
  assert (Sb : -1 < cb < 1).
  { apply (S cb ca cg); try assumption. unfold gram in *. lra. }
  assert (Sg : -1 < cg < 1).
  { apply (S cg cb ca); try assumption. unfold gram in *. lra. }
  assert (Q : forall x, -1 < x < 1 -> angle_ok (rad2deg (acos x))).
  { intros x Hx. destruct (acos_bound_lt x Hx) as [B0 B1]. unfold angle_ok, rad2deg, gen_rad2deg. pose proof PI_pos as HP. split.
    - apply Rdiv_lt_0_compat; [lra|exact HP].
    - apply (Rmult_lt_reg_r PI); [exact HP|]. replace (acos x * 180 / PI * PI) with (acos x * 180) by (field; lra). nra. }
  repeat split; try assumption; try apply Q; try assumption; apply Q; assumption.
Qed.

End Inverse.

(* ---- standard orientation determines the vectors: two descriptions in the standard orientation with the same six dot
        products are equal *)
Definition std_oriented (m : mat3) : Prop :=
  let '((a1, a2, a3), (b1, b2, b3), (c1, c2, c3)) := m in
  0 < a1 /\ a2 = 0 /\ a3 = 0 /\ 0 < b2 /\ b3 = 0 /\ 0 < c3.

Definition same_gram (m n : mat3) : Prop :=
  let '(a, b, c) := m in let '(a', b', c') := n in
  dot a a = dot a' a' /\ dot b b = dot b' b' /\ dot c c = dot c' c' /\
  dot b c = dot b' c' /\ dot c a = dot c' a' /\ dot a b = dot a' b'.

Lemma sq_eq_pos x y : 0 < x -> 0 < y -> x * x = y * y -> x = y.
Proof. intros Hx Hy H. nra. Qed.

Lemma std_unique m n : std_oriented m -> std_oriented n -> same_gram m n -> m = n.
Proof.
  destruct m as [[[[a1 a2] a3] [[b1 b2] b3]] [[c1 c2] c3]], n as [[[[p1 p2] p3] [[q1 q2] q3]] [[r1 r2] r3]].
  unfold std_oriented, same_gram, dot.
  intros [Ha [-> [-> [Hb [-> Hc]]]]] [Hp [-> [-> [Hq [-> Hr]]]]] [G1 [G2 [G3 [G4 [G5 G6]]]]].
  assert (E1 : a1 = p1) by (apply sq_eq_pos; [assumption|assumption|lra]). subst p1.
  assert (E2 : b1 = q1) by (apply (Rmult_eq_reg_l a1); lra). subst q1.
  assert (E3 : b2 = q2) by (apply sq_eq_pos; [assumption|assumption|lra]). subst q2.
  assert (E4 : c1 = r1) by (apply (Rmult_eq_reg_l a1); lra). subst r1.
  assert (E5 : c2 = r2) by (apply (Rmult_eq_reg_l b2); lra). subst r2.
  assert (E6 : c3 = r3) by (apply sq_eq_pos; [assumption|assumption|lra]). subst r3.
  reflexivity.
Qed.

(* what the construction returns IS in the standard orientation (for a valid cell) *)
Lemma to_vectors_std la lb lc ca cb cg sg :
  0 < la -> 0 < lb -> 0 < sg -> 0 < radicand lc ca cb cg sg -> std_oriented (to_vectors la lb lc ca cb cg sg).
Proof.
  intros Ha Hb Hs Hr. unfold to_vectors, gen_to_vectors, std_oriented. fold (radicand lc ca cb cg sg).
  repeat split; try reflexivity; try assumption.
  - apply Rmult_lt_0_compat; assumption.
  - apply sqrt_lt_R0. exact Hr.
Qed.

(* vectors in the standard orientation -> lengths, angles -> vectors: the identity *)
Lemma std_roundtrip a b c : std_oriented (a, b, c) ->
  let '((x, y, z), (al, be, ga)) := from_vectors_deg a b c in to_vectors_deg x y z al be ga = (a, b, c).
Proof.
  intros Hstd.
  assert (Hind : det3 a b c <> 0).
  { destruct a as [[a1 a2] a3], b as [[b1 b2] b3], c as [[c1 c2] c3]. unfold std_oriented in Hstd.
    destruct Hstd as [Ha [-> [-> [Hb [-> Hc]]]]]. unfold det3.
    assert (0 < a1 * (b2 * c3)) by (repeat apply Rmult_lt_0_compat; assumption). lra. }
  pose proof (inverse_deg_unfold a b c Hind) as U. pose proof (inverse_same_gram a b c Hind) as G.
  destruct (from_vectors_deg a b c) as [[[x y] z] [[al be] ga]]. rewrite U. clear U.
  destruct (inv_lengths a b c Hind) as [Ha [Hb [Hc _]]]. destruct (inv_sg a b c Hind) as [Hs Hu].
  pose proof (inv_gram_pos a b c Hind) as Hg.
  apply std_unique.
  - apply to_vectors_std; try assumption. apply (radicand_pos_iff _ _ _ _ _ Hc Hs Hu). exact Hg.
  - exact Hstd.
  - unfold same_gram.
    destruct (to_vectors _ _ _ _ _ _ _) as [[va vb] vc]. exact G.
Qed.

(* non-vacuity: a left-handed, non-standard description with three different angles *)
Lemma example_independent : det3 (0, 3, 0) (4, 1, 0) (1, 1, 5) <> 0.
Proof. unfold det3. lra. Qed.
