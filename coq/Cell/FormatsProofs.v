(* Theorems about the format table (C17) and its link to the trajectory-level model. *)
From Coq Require Import List String Bool Arith.
Import ListNotations.
Require Import MD.Cell.Formats MD.Traj.Model MD.Traj.Proofs MD.Traj.CellHist.

(* whenever a format that can carry a cell accepts the trajectory, the loaded trajectory has a complete per-frame
   cell exactly when the saved one had *)
Lemma roundtrip_iff k have rect h : k <> NoCell -> roundtrip k have rect = Some h -> h = have.
Proof.
  destruct k, have, rect; cbn; intros Hk H; try congruence; try (inversion H; reflexivity); contradiction Hk; reflexivity.
Qed.

(* the documented exceptions, exactly *)
Lemma roundtrip_refuses k have rect :
  roundtrip k have rect = None <->
  (k = RequiresCell /\ have = false) \/ (k = RectilinearOnly /\ have = true /\ rect = false).
Proof.
  destruct k, have, rect; cbn; split; intro H; try discriminate; try tauto;
    try (destruct H as [[H1 H2]|[H1 [H2 H3]]]; discriminate).
Qed.

Lemma roundtrip_nocell have rect : roundtrip NoCell have rect = Some false.
Proof. reflexivity. Qed.

(* ZeroBox formats rely on the unitcell_vectors setter of the trajectory model: loading assigns the stored matrices;
   all-zero matrices (what the writer stores for "no cell") leave the trajectory without cell, anything else gives
   it both lengths and angles *)
Lemma load_through_vectors_setter v w r t m zero w' :
  nth_error (trajs w) r = Some t -> m = nframes t -> 0 < m ->
  step v w (OSetVectors r (Some m) zero) = (w', ROk) ->
  exists t', nth_error (trajs w') r = Some t' /\ have_cell t' = negb zero /\ complete_or_none t' = true.
Proof.
  intros Hr Hm Hpos H. cbn [step] in H. unfold do_set_vectors in H. rewrite Hr in H.
  assert (Hlen : r < List.length (trajs w)) by (apply nth_error_Some; congruence).
  destruct zero; cbn [orb] in H.
  - inversion H; subst. eexists. split; [cbn [trajs put]; apply MD.Traj.Lists.nth_error_set_nth_same; exact Hlen|].
    split; reflexivity.
  - destruct (Nat.eqb m 0) eqn:E0; [apply Nat.eqb_eq in E0; subst; rewrite E0 in Hpos; inversion Hpos|].
    rewrite Hm, Nat.eqb_refl in H. cbn [negb] in H.
    destruct (fresh_src w) as [w1 s] eqn:S. destruct (new_arr w1 _) as [w2 l] eqn:A.
    destruct (new_arr w2 _) as [w3 a] eqn:B. inversion H; subst.
    apply fresh_src_spec in S. destruct S as [S1 _]. apply new_arr_spec in A. destruct A as [A1 _].
    apply new_arr_spec in B. destruct B as [B1 _].
    eexists. split.
    + cbn [trajs put]. rewrite (ext_trajs _ _ (ext_trans _ _ _ S1 (ext_trans _ _ _ A1 B1))).
      apply MD.Traj.Lists.nth_error_set_nth_same. exact Hlen.
    + split; reflexivity.
Qed.

(* the table is complete and duplicate-free as far as lookup is concerned: every listed extension resolves to
   its own entry *)
Lemma table_lookup_total : forallb (fun ek => match lookup (fst ek) format_table with
                                              | Some k => Nat.eqb (kind_code k) (kind_code (snd ek)) | None => false end)
                                   format_table = true.
Proof. vm_compute. reflexivity. Qed.

(* ---- per-frame completeness through histories: after ANY history (whose xyz assignments keep the number of frames: the one
        assignment mdtraj does not check) every register's stored lengths and angles have exactly one row per frame.
        (The invariant is MD.Traj.Proofs.run_lens_init, proved for C03; restated here for the cell alone.) *)
Definition cell_rows_per_frame (t : traj) : Prop :=
  (forall c, ul t = Some c -> List.length (a_val c) = nframes t) /\
  (forall c, ua t = Some c -> List.length (a_val c) = nframes t).

Lemma lengths_ok_cell t : lengths_ok t = true -> cell_rows_per_frame t.
Proof.
  unfold lengths_ok, cell_rows_per_frame. intros H.
  apply andb_true_iff in H. destruct H as [H Ha]. apply andb_true_iff in H. destruct H as [_ Hl]. split; intros c E.
  - rewrite E in Hl. apply Nat.eqb_eq. exact Hl.
  - rewrite E in Ha. apply Nat.eqb_eq. exact Ha.
Qed.

Lemma per_frame_cell_after_any_history v sps ops :
  guarded xyz_guard v (init_world sps) ops = true ->
  Forall cell_rows_per_frame (trajs (fst (run v (init_world sps) ops))).
Proof.
  intros Hg. pose proof (run_lens_init v sps ops Hg) as H. unfold lens in H.
  eapply Forall_impl; [|exact H]. intros t Ht. apply lengths_ok_cell. exact Ht.
Qed.
