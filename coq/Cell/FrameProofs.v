(* C17: the per-frame glue of Trajectory.unitcell_vectors / unitcell_volumes / _check_valid_unitcell (Cell/Frames.v).
   The one-frame glue is MD.Gen.CellFormulas.gen_getter_frame / gen_setter_frame, regenerated from trajectory.py:
   glue_getter / glue_setter below are the lemmas a swapped column or row breaks. *)
From Coq Require Import Reals Lra Lia List.
Import ListNotations.
Require Import MD.Cell.Model MD.Cell.Proofs MD.Cell.Frames MD.Cell.DegProofs MD.Cell.InverseProofs MD.Cell.SnapProofs.
Open Scope R_scope.

(* ---- the glue hands every stored column to the argument of the same name, and every returned value to its column *)
Lemma glue_getter la lb lc alpha beta gamma :
  getter_frame_exact (la, lb, lc) (alpha, beta, gamma) = to_vectors_deg la lb lc alpha beta gamma.
Proof.
  unfold getter_frame_exact, gen_getter_frame, to_vectors_deg.
  destruct (gen_to_vectors_deg la lb lc alpha beta gamma) as [[v1 v2] v3]. reflexivity.
Qed.

Lemma glue_setter a b c : setter_frame (a, b, c) = from_vectors_deg a b c.
Proof.
  unfold setter_frame, gen_setter_frame, from_vectors_deg.
  destruct (gen_from_vectors_deg a b c) as [[[x y] z] [[al be] ga]]. reflexivity.
Qed.

(* ---- one frame: getter then setter is the identity on every valid cell, through ANY orthogonal re-description
        (rotation or mirror image) *)
Lemma from_vectors_deg_rot r a b c : orthogonal r ->
  from_vectors_deg (mapply r a) (mapply r b) (mapply r c) = from_vectors_deg a b c.
Proof.
  intros Ho. unfold from_vectors_deg, gen_from_vectors_deg. fold from_vectors.
  rewrite (rotated_same_cell r a b c Ho). reflexivity.
Qed.

Lemma frame_rotated_roundtrip r l a : orthogonal r -> valid_cell l a ->
  setter_frame (rotate r (getter_frame_exact l a)) = (l, a).
Proof.
  intros Ho Hv. destruct l as [[la lb] lc], a as [[alpha beta] gamma]. rewrite glue_getter.
  pose proof (deg_roundtrip la lb lc alpha beta gamma Hv) as RT.
  destruct (to_vectors_deg la lb lc alpha beta gamma) as [[va vb] vc]. unfold rotate.
  rewrite glue_setter, from_vectors_deg_rot by exact Ho. exact RT.
Qed.

Definition identity_mat : mat := ((1, 0, 0), (0, 1, 0), (0, 0, 1)).
Lemma identity_orthogonal : orthogonal identity_mat.
Proof. unfold orthogonal, identity_mat, col, dot. repeat split; ring. Qed.
Lemma rotate_identity m : rotate identity_mat m = m.
Proof.
  destruct m as [[[[a1 a2] a3] [[b1 b2] b3]] [[c1 c2] c3]]. unfold rotate, identity_mat, mapply, dot.
  repeat f_equal; ring.
Qed.

Lemma frame_roundtrip l a : valid_cell l a -> setter_frame (getter_frame_exact l a) = (l, a).
Proof.
  intros Hv. rewrite <- (rotate_identity (getter_frame_exact l a)).
  apply frame_rotated_roundtrip; [apply identity_orthogonal|exact Hv].
Qed.

(* one frame, the other way round: an independent description -> stored cell -> reported vectors: same dot products,
   volume |det|, standard orientation *)
Lemma frame_inverse m :
  volume_frame m <> 0 ->
  let '(l, a) := setter_frame m in
  valid_cell l a /\ same_gram (getter_frame_exact l a) m /\ volume_frame (getter_frame_exact l a) = Rabs (volume_frame m) /\
  std_oriented (getter_frame_exact l a).
Proof.
  destruct m as [[a b] c]. unfold volume_frame at 1. intros Hind. rewrite glue_setter.
  pose proof (inverse_valid a b c Hind) as V. pose proof (inverse_deg_unfold a b c Hind) as U.
  pose proof (inverse_same_gram a b c Hind) as G. pose proof (inverse_volume a b c Hind) as W.
  destruct (inv_lengths a b c Hind) as [Ha [Hb [Hc _]]]. destruct (inv_sg a b c Hind) as [Hs Hu].
  pose proof (inv_gram_pos a b c Hind) as Hg.
  pose proof (to_vectors_std _ _ _ _ _ _ _ Ha Hb Hs (proj2 (radicand_pos_iff _ _ _ _ _ Hc Hs Hu) Hg)) as S.
  destruct (from_vectors_deg a b c) as [[[x y] z] [[al be] ga]]. rewrite glue_getter, U.
  destruct (to_vectors _ _ _ _ _ _ _) as [[va vb] vc].
  split; [exact V|]. split; [exact G|]. split; [exact W|exact S].
Qed.

(* ---- all frames *)
Lemma zip_with_length {A B C} (f : A -> B -> C) x y : length x = length y -> length (zip_with f x y) = length x.
Proof.
  revert y. induction x as [|a x IH]; intros [|b y] H; cbn in *; try reflexivity; try discriminate.
  f_equal. apply IH. lia.
Qed.

(* whatever is assigned to unitcell_vectors, the result is complete-or-empty with one row per frame *)
Lemma set_vectors_complete s arg s' : set_vectors s arg (Val s') ->
  n_frames s' = n_frames s /\ per_frame s' /\ (lengths s' = None <-> angles s' = None).
Proof.
  intros H. inversion H; subst; unfold per_frame; cbn [n_frames lengths angles].
  - split; [reflexivity|]. split; [split; exact I|tauto].
  - split; [reflexivity|]. split; [split; exact I|tauto].
  - split; [reflexivity|]. split; [split; rewrite map_length; assumption|]. split; discriminate.
Qed.

(* None and all-zero matrices remove the cell, nothing else does *)
Lemma set_vectors_none s out : set_vectors s None out -> out = Val (mkCell (n_frames s) None None).
Proof. intros H. inversion H. reflexivity. Qed.

Lemma set_vectors_removes_iff s ms s' : set_vectors s (Some ms) (Val s') ->
  (lengths s' = None /\ angles s' = None <-> all_tiny ms).
Proof.
  intros H. inversion H; subst; cbn.
  - split; [intros _; assumption|intros _; split; reflexivity].
  - split; [intros [E _]; discriminate|intros T; contradiction].
Qed.

(* a description containing a vector of norm at least sqrt 3 * 1e-15 is never mistaken for "no cell" *)
Lemma not_tiny_of_norm m :
  (let '(a, _, _) := m in 3 * (gen_zero_tol * gen_zero_tol) <= dot a a) -> ~ tiny_mat m.
Proof.
  destruct m as [[[[a1 a2] a3] b] c]. unfold tiny_mat, tiny_vec, tiny, dot. intros Hn [[T1 [T2 T3]] _].
  assert (Q : forall x, Rabs x < gen_zero_tol -> x * x < gen_zero_tol * gen_zero_tol).
  { intros x Hx. unfold Rabs in Hx. destruct (Rcase_abs x); nra. }
  pose proof (Q a1 T1). pose proof (Q a2 T2). pose proof (Q a3 T3). lra.
Qed.

Lemma zero_tol_small : gen_zero_tol <= / 1000000000000.
Proof. unfold gen_zero_tol. lra. Qed.

(* the first vector of any orthogonal re-description of a valid cell has the stored length *)
Lemma rotated_first_norm r la lb lc alpha beta gamma : orthogonal r ->
  let '(a, _, _) := rotate r (getter_frame_exact (la, lb, lc) (alpha, beta, gamma)) in dot a a = la * la.
Proof.
  intros Ho. rewrite glue_getter. unfold to_vectors_deg, gen_to_vectors_deg, gen_to_vectors, rotate.
  rewrite (dot_rot r _ _ Ho). unfold dot. ring.
Qed.

(* assigning per-frame (individually rotated or mirrored) descriptions of valid cells stores exactly those cells *)
Fixpoint describe (rs : list mat) (cells : list (vec * vec)) : list mat3 :=
  match rs, cells with
  | r :: rs', (l, a) :: cells' => rotate r (getter_frame_exact l a) :: describe rs' cells'
  | _, _ => []
  end.

Lemma describe_setter rs cells :
  length rs = length cells -> Forall orthogonal rs -> Forall (fun c => valid_cell (fst c) (snd c)) cells ->
  map setter_frame (describe rs cells) = cells /\ length (describe rs cells) = length cells.
Proof.
  revert cells. induction rs as [|r rs IH]; intros [|[l a] cells] Hl Ho Hv; cbn in *; try discriminate.
  - split; reflexivity.
  - inversion Ho; subst. inversion Hv; subst. cbn in *. destruct (IH cells) as [I1 I2]; [lia|assumption|assumption|].
    rewrite frame_rotated_roundtrip by assumption. rewrite I1, I2. split; reflexivity.
Qed.

Lemma set_described_vectors s rs cells out :
  length rs = length cells -> length cells = n_frames s -> Forall orthogonal rs ->
  Forall (fun c => valid_cell (fst c) (snd c)) cells ->
  (exists l a cells', cells = (l, a) :: cells' /\ 3 * (gen_zero_tol * gen_zero_tol) <= (fst (fst l)) * (fst (fst l))) ->
  set_vectors s (Some (describe rs cells)) out ->
  out = Val (mkCell (n_frames s) (Some (map fst cells)) (Some (map snd cells))).
Proof.
  intros Hl Hn Ho Hv [l [a [cells' [-> Hbig]]]] H.
  destruct (describe_setter rs _ Hl Ho Hv) as [D1 D2].
  assert (NT : ~ all_tiny (describe rs ((l, a) :: cells'))).
  { destruct rs as [|r rs]; [discriminate|]. cbn [describe]. intros T. inversion T as [|? ? T1 _]; subst.
    revert T1. apply not_tiny_of_norm. destruct l as [[la lb] lc], a as [[al be] ga].
    inversion Ho; subst. pose proof (rotated_first_norm r la lb lc al be ga H2) as N.
    destruct (rotate r _) as [[x y] z]. rewrite N. exact Hbig. }
  inversion H; subst.
  - contradiction.
  - rewrite D2 in *. contradiction.
  - f_equal. f_equal.
    + f_equal. rewrite <- D1 at 2. rewrite map_map. reflexivity.
    + f_equal. rewrite <- D1 at 2. rewrite map_map. reflexivity.
Qed.

(* ---- getters over all frames *)
Lemma get_vectors_some_iff s : (exists ms, get_vectors s = Some ms) <-> have_unitcell s.
Proof.
  unfold get_vectors, have_unitcell. destruct (lengths s), (angles s); split; intros H;
    try (split; discriminate); try (eexists; reflexivity);
    try (destruct H as [ms H]; discriminate H);
    destruct H as [H1 H2]; try (contradiction H1; reflexivity); contradiction H2; reflexivity.
Qed.

Lemma get_vectors_per_frame s ms : per_frame s -> get_vectors s = Some ms -> length ms = n_frames s.
Proof.
  unfold per_frame, get_vectors. destruct (lengths s) as [l|], (angles s) as [a|]; intros [H1 H2] E; try discriminate.
  inversion E. rewrite zip_with_length; lia.
Qed.

(* every reported volume is the triple product of the vectors reported for the same frame *)
Lemma volumes_are_triple_products s vs : get_volumes s = Val (Some vs) ->
  exists ms, get_vectors s = Some ms /\ vs = map (fun m => let '(a, b, c) := m in dot a (cross b c)) ms.
Proof.
  unfold get_volumes. destruct (lengths s); [|discriminate]. destruct (get_vectors s) as [ms|]; [|discriminate].
  intros E. inversion E. exists ms. split; [reflexivity|]. apply map_ext. intros [[a b] c]. apply det_is_triple.
Qed.

Lemma volumes_outcomes s :
  (lengths s = None -> get_volumes s = Val None) /\
  (lengths s <> None -> angles s = None -> get_volumes s = ErrType) /\
  (have_unitcell s -> exists vs, get_volumes s = Val (Some vs)).
Proof.
  unfold get_volumes, get_vectors, have_unitcell. destruct (lengths s), (angles s); repeat split; intros;
    try reflexivity; try discriminate; try (eexists; reflexivity);
    try (match goal with H : None <> None |- _ => contradiction H; reflexivity end);
    try (match goal with H : _ /\ _ |- _ => destruct H as [H1 H2]; try (contradiction H1; reflexivity); contradiction H2; reflexivity end).
Qed.

(* the reported per-frame volume of a stored valid cell: la lb lc sqrt(gram), untouched by the snap when the diagonal
   of the standard-orientation matrix is at least 1e-6 *)
Lemma frame_volume la lb lc alpha beta gamma :
  valid_cell (la, lb, lc) (alpha, beta, gamma) ->
  (let '((a1, _, _), (_, b2, _), (_, _, c3)) := getter_frame_exact (la, lb, lc) (alpha, beta, gamma) in
   gen_snap_tol <= a1 /\ gen_snap_tol <= b2 /\ gen_snap_tol <= c3) ->
  volume_frame (getter_frame (la, lb, lc) (alpha, beta, gamma)) = la * lb * lc * sqrt (gram_deg alpha beta gamma) /\
  std_oriented (getter_frame (la, lb, lc) (alpha, beta, gamma)).
Proof.
  intros Hv Hd. unfold getter_frame. fold (getter_frame_exact (la, lb, lc) (alpha, beta, gamma)) in *.
  assert (S : std_oriented (getter_frame_exact (la, lb, lc) (alpha, beta, gamma))).
  { rewrite glue_getter. destruct (valid_parts la lb lc alpha beta gamma Hv) as [Ha [Hb [Hc [Hs [Hu Hg]]]]].
    apply to_vectors_std; try assumption. apply (valid_radicand la lb lc alpha beta gamma Hv). }
  split.
  - rewrite (snap_keeps_volume _ S Hd). rewrite glue_getter.
    pose proof (deg_volume la lb lc alpha beta gamma Hv) as V.
    destruct (to_vectors_deg la lb lc alpha beta gamma) as [[va vb] vc]. exact V.
  - apply snap_keeps_std; assumption.
Qed.

(* ---- _check_valid_unitcell: exactly one outcome; a trajectory whose frames are all valid cells passes; passing means
        complete-or-empty and no negative entry (NOT that the angles satisfy the triangle condition) *)
Lemma check_valid_ok_means s : check_valid s (Val tt) ->
  (lengths s = None /\ angles s = None) \/
  (exists l a, lengths s = Some l /\ angles s = Some a /\ ~ Exists neg_vec l /\ ~ Exists neg_vec a).
Proof.
  intros H. inversion H as [| | | |Hl Ha|l a Hl Ha Nl Na]; [left; split; assumption|right].
  exists l, a. repeat split; assumption.
Qed.

Lemma check_valid_half_set s out : (lengths s = None <-> angles s <> None) -> check_valid s out -> out = ErrAttribute.
Proof.
  intros Hh H. inversion H; subst; try reflexivity; exfalso.
  - rewrite H0 in Hh. destruct Hh as [_ Hh]. specialize (Hh H1). discriminate.
  - rewrite H0, H1 in Hh. destruct Hh as [_ Hh]. assert (Some a <> None) by discriminate. specialize (Hh H4). discriminate.
  - rewrite H0, H1 in Hh. destruct Hh as [Hh _]. specialize (Hh eq_refl). contradiction Hh. reflexivity.
  - rewrite H0, H1 in Hh. destruct Hh as [_ Hh]. assert (Some a <> None) by discriminate. specialize (Hh H4). discriminate.
Qed.

Lemma valid_cell_not_neg l a : valid_cell l a -> ~ neg_vec l /\ ~ neg_vec a.
Proof.
  destruct l as [[la lb] lc], a as [[al be] ga]. unfold valid_cell, angle_ok, neg_vec.
  intros [Ha [Hb [Hc [[A0 _] [[B0 _] [[G0 _] _]]]]]]. split; intros [H|[H|H]]; lra.
Qed.

Lemma check_valid_passes_valid_cells s cells :
  lengths s = Some (map fst cells) -> angles s = Some (map snd cells) ->
  Forall (fun c => valid_cell (fst c) (snd c)) cells -> check_valid s (Val tt).
Proof.
  intros El Ea Hv. apply (CV_ok s _ _ El Ea).
  - intros Hex. apply Exists_exists in Hex. destruct Hex as [x [Hin Hn]]. apply in_map_iff in Hin.
    destruct Hin as [c [<- Hc]]. rewrite Forall_forall in Hv. destruct (valid_cell_not_neg _ _ (Hv c Hc)) as [N _]. contradiction.
  - intros Hex. apply Exists_exists in Hex. destruct Hex as [x [Hin Hn]]. apply in_map_iff in Hin.
    destruct Hin as [c [<- Hc]]. rewrite Forall_forall in Hv. destruct (valid_cell_not_neg _ _ (Hv c Hc)) as [_ N]. contradiction.
Qed.

(* angles that violate the triangle condition pass the check: 100, 100, 170 degrees (sum 370) *)
Lemma check_valid_accepts_impossible_angles :
  check_valid (mkCell 1 (Some [(3, 4, 5)]) (Some [(100, 100, 170)])) (Val tt) /\ ~ triangle_condition 100 100 170.
Proof.
  split.
  - eapply CV_ok; cbn; try reflexivity; intros H; inversion H as [? ? N|? ? N]; subst; try (inversion N; fail);
      unfold neg_vec in N; lra.
  - unfold triangle_condition. lra.
Qed.

(* ---- the computable guard table says what the relation says *)
Lemma check_valid_code_spec s out (hl ha nl na : bool) :
  (hl = true <-> lengths s <> None) -> (ha = true <-> angles s <> None) ->
  (nl = true <-> exists l, lengths s = Some l /\ Exists neg_vec l) ->
  (na = true <-> exists a, angles s = Some a /\ Exists neg_vec a) ->
  check_valid s out -> outcome_code out = check_valid_code hl ha nl na.
Proof.
  intros Hl Ha Nl Na H.
  assert (Tl : forall x, lengths s = Some x -> hl = true) by (intros x E; apply Hl; rewrite E; discriminate).
  assert (Ta : forall x, angles s = Some x -> ha = true) by (intros x E; apply Ha; rewrite E; discriminate).
  assert (Fl : lengths s = None -> hl = false).
  { intros E. destruct hl; [|reflexivity]. destruct Hl as [Hl _]. contradiction (Hl eq_refl). }
  assert (Fa : angles s = None -> ha = false).
  { intros E. destruct ha; [|reflexivity]. destruct Ha as [Ha _]. contradiction (Ha eq_refl). }
  inversion H as [L A|L A|l L A N|l a L A N1 N2|L A|l a L A N1 N2]; subst; cbn [outcome_code]; unfold check_valid_code.
  - rewrite (Fa A). destruct hl eqn:E; [reflexivity|]. destruct Hl as [_ Hl]. specialize (Hl L). discriminate.
  - rewrite (Fl L). destruct ha eqn:E; [reflexivity|]. destruct Ha as [_ Ha]. specialize (Ha A). discriminate.
  - rewrite (Tl _ L). destruct ha eqn:E; [|destruct Ha as [_ Ha]; specialize (Ha A); discriminate].
    assert (nl = true) by (apply Nl; exists l; split; assumption). subst. reflexivity.
  - rewrite (Tl _ L), (Ta _ A).
    assert (nl = false).
    { destruct nl; [|reflexivity]. destruct Nl as [Nl _]. destruct (Nl eq_refl) as [l' [E X]]. rewrite L in E. inversion E; subst. contradiction. }
    assert (na = true) by (apply Na; exists a; split; assumption). subst. reflexivity.
  - rewrite (Fl L), (Fa A). reflexivity.
  - rewrite (Tl _ L), (Ta _ A).
    assert (nl = false).
    { destruct nl; [|reflexivity]. destruct Nl as [Nl _]. destruct (Nl eq_refl) as [l' [E X]]. rewrite L in E. inversion E; subst. contradiction. }
    assert (na = false).
    { destruct na; [|reflexivity]. destruct Na as [Na _]. destruct (Na eq_refl) as [a' [E X]]. rewrite A in E. inversion E; subst. contradiction. }
    subst. reflexivity.
Qed.

Lemma volumes_code_spec s (hl ha : bool) :
  (hl = true <-> lengths s <> None) -> (ha = true <-> angles s <> None) ->
  match get_volumes s with
  | Val None => volumes_code hl ha = 0%nat
  | Val (Some _) => volumes_code hl ha = 4%nat
  | ErrType => volumes_code hl ha = 3%nat
  | _ => False
  end.
Proof.
  intros Hl Ha. unfold get_volumes, get_vectors, volumes_code.
  destruct (lengths s) as [l|], (angles s) as [a|].
  - assert (hl = true) by (apply Hl; discriminate). assert (ha = true) by (apply Ha; discriminate). subst. reflexivity.
  - assert (hl = true) by (apply Hl; discriminate). subst. destruct ha; [|reflexivity].
    destruct Ha as [Ha _]. contradiction (Ha eq_refl). reflexivity.
  - destruct hl; [|reflexivity]. destruct Hl as [Hl _]. contradiction (Hl eq_refl). reflexivity.
  - destruct hl; [|reflexivity]. destruct Hl as [Hl _]. contradiction (Hl eq_refl). reflexivity.
Qed.

Lemma example_not_tiny : 3 * (gen_zero_tol * gen_zero_tol) <= 3 * 3.
Proof. unfold gen_zero_tol. lra. Qed.
