(* Unit-cell model for C17.  Anchors: mdtraj/utils/unitcell.py (lengths_and_angles_to_box_vectors,
   box_vectors_to_lengths_and_angles), mdtraj/core/trajectory.py (unitcell_vectors getter/setter,
   unitcell_volumes = np.linalg.det of the 3x3 matrix whose ROWS are a, b, c).
   The two conversion functions are NOT written here: they are the definitions regenerated from the source
   text in MD.Gen.CellFormulas (cos/sin of the angles enter as real variables).  Executable-style
   definitions only, no proofs. *)
From Coq Require Import Reals.
Require Export MD.Gen.CellFormulas.
Open Scope R_scope.

Definition vec : Type := (R * R * R)%type.

(* lengths a b c, cosines of alpha beta gamma, sine of gamma  ->  box vectors a, b, c (before the snap) *)
Definition to_vectors := gen_to_vectors.
(* box vectors -> (lengths, cosines of (alpha, beta, gamma)) *)
Definition from_vectors := gen_from_vectors.

Definition cross (u v : vec) : vec :=
  let '(u1, u2, u3) := u in let '(v1, v2, v3) := v in
  (u2 * v3 - u3 * v2, u3 * v1 - u1 * v3, u1 * v2 - u2 * v1).

(* determinant of the matrix with rows a, b, c (what unitcell_volumes returns per frame) *)
Definition det3 (a b c : vec) : R :=
  let '(a1, a2, a3) := a in let '(b1, b2, b3) := b in let '(c1, c2, c3) := c in
  a1 * (b2 * c3 - b3 * c2) - a2 * (b1 * c3 - b3 * c1) + a3 * (b1 * c2 - b2 * c1).

(* the convention of the docstrings: alpha between b and c, beta between c and a, gamma between a and b *)
Definition cos_between (u v : vec) : R := dot u v / (sqrt (dot u u) * sqrt (dot v v)).

(* `x[np.logical_and(x > -tol, x < tol)] = 0.0` *)
Definition snap (x : R) : R := if Rlt_dec (Rabs x) gen_snap_tol then 0 else x.
Definition snap_vec (v : vec) : vec := let '(x, y, z) := v in (snap x, snap y, snap z).

(* a 3x3 matrix given by its rows, applied to a vector; R^T R = I *)
Definition mat : Type := (vec * vec * vec)%type.
Definition mapply (m : mat) (x : vec) : vec := let '(r1, r2, r3) := m in (dot r1 x, dot r2 x, dot r3 x).
Definition col (m : mat) (j : nat) : vec :=
  let '((a1, a2, a3), (b1, b2, b3), (c1, c2, c3)) := m in
  match j with 0%nat => (a1, b1, c1) | 1%nat => (a2, b2, c2) | _ => (a3, b3, c3) end.
Definition orthogonal (m : mat) : Prop :=
  dot (col m 0) (col m 0) = 1 /\ dot (col m 1) (col m 1) = 1 /\ dot (col m 2) (col m 2) = 1 /\
  dot (col m 0) (col m 1) = 0 /\ dot (col m 0) (col m 2) = 0 /\ dot (col m 1) (col m 2) = 0.
Definition mdet (m : mat) : R := let '(r1, r2, r3) := m in det3 r1 r2 r3.

(* Gram determinant of the three unit directions: the cell is non-degenerate iff it is positive *)
Definition gram (ca cb cg : R) : R := 1 - ca * ca - cb * cb - cg * cg + 2 * ca * cb * cg.
