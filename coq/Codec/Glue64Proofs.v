(* The NetCDF loader's conversion goes through binary64 (numpy.ma): x -> float32(float64(0.1 * y)).  Error bound of
   save-then-load for that path (C01). *)
From Coq Require Import ZArith QArith Qabs Qpower Lqa Lia Bool List String.
Import ListNotations.
Require Import MD.Gen.CodecTables MD.Codec.Model MD.Codec.Proofs MD.Codec.NumProofs MD.Codec.XtcModel
               MD.Codec.XtcQuantProofs MD.Codec.GlueModel MD.Codec.GlueProofs.
Open Scope Z_scope.

Ltac Zify.zify_post_hook ::= Z.to_euclidean_division_equations.

(* rnd64 x = m' * 2^(e + sh), within 2^-53 of x (relative) in the normal range *)
Lemma rnd64_spec : forall x, 0 <= dmag x ->
  exists sh m', 0 <= sh /\ 0 <= m' /\ rnd64 x = Dy (dneg x) m' (dexp x + sh) /\
    (-1074 - dexp x <= bitlen (dmag x) - 53 -> 2 ^ 53 * Z.abs (m' * 2 ^ sh - dmag x) <= dmag x).
Proof.
  intros x Hm. unfold rnd64.
  set (sh := Z.max (bitlen (dmag x) - 53) (-1074 - dexp x)).
  destruct (Z.leb_spec sh 0) as [Hle|Hgt].
  - exists 0, (dmag x). rewrite Z.add_0_r, Z.pow_0_r, Z.mul_1_r, Z.sub_diag. cbn [Z.abs].
    destruct x as [n m e]; cbn [dneg dmag dexp] in *. repeat split; try lia.
  - exists sh, (rnd_hev (dmag x) (pow2 sh)). rewrite pow2_eq by lia.
    assert (0 < 2 ^ sh) as Hp by (apply Z.pow_pos_nonneg; lia).
    pose proof (rnd_hev_error (dmag x) (2 ^ sh) Hp) as E.
    pose proof (rnd_hev_nonneg (dmag x) (2 ^ sh) Hp Hm) as N.
    repeat split; try lia.
    intros Hnorm. assert (sh = bitlen (dmag x) - 53) as Esh by lia.
    unfold bitlen in Esh. destruct (Z.leb_spec (dmag x) 0) as [|Hpos]; [lia|].
    pose proof (Z.log2_spec (dmag x) Hpos) as [L _].
    assert (Z.log2 (dmag x) = sh + 52) as EL by lia. rewrite EL in L.
    assert (2 ^ sh = 2 ^ (sh - 1) * 2) as E2
      by (rewrite <- (Z.pow_1_r 2) at 3; rewrite <- Z.pow_add_r by lia; f_equal; lia).
    assert (2 ^ (sh + 52) = 2 ^ (sh - 1) * 2 ^ 53) as E3 by (rewrite <- Z.pow_add_r by lia; f_equal; lia).
    rewrite E3 in L. rewrite !E2 in E. rewrite !E2.
    remember (2 ^ (sh - 1)) as a. remember (Z.abs (rnd_hev (dmag x) (a * 2) * (a * 2) - dmag x)) as r.
    assert (r <= a) by lia.
    change (2 ^ 53) with 9007199254740992 in *. lia.
Qed.

Open Scope Q_scope.

Lemma rnd64_Q : forall z, (0 <= dmag z)%Z -> (-1074 - dexp z <= bitlen (dmag z) - 53)%Z ->
  dneg (rnd64 z) = dneg z /\ (0 <= dmag (rnd64 z))%Z /\
  Qabs (absQ (rnd64 z) - absQ z) <= absQ z / inject_Z (2 ^ 53).
Proof.
  intros z Hm Hn. destruct (rnd64_spec z Hm) as (sh & m' & Hsh & Hm' & E & Hrel).
  specialize (Hrel Hn). rewrite E. cbn [dneg dmag dexp]. split; [reflexivity|]. split; [assumption|].
  unfold absQ. cbn [dmag dexp]. rewrite Qpower_plus by apply two_nz. rewrite <- (two_pow_Z sh) by assumption.
  set (t := two ^ dexp z). assert (0 < t) by apply two_pow_pos.
  assert (inject_Z m' * (t * inject_Z (2 ^ sh)) - inject_Z (dmag z) * t == inject_Z (m' * 2 ^ sh - dmag z) * t) as ->
    by (unfold Zminus; rewrite inject_Z_plus, inject_Z_mult, inject_Z_opp; ring).
  rewrite Qabs_Qmult. rewrite (Qabs_pos t) by lra. rewrite Qabs_Zabs.
  apply Qle_shift_div_l; [reflexivity|].
  assert (inject_Z (Z.abs (m' * 2 ^ sh - dmag z)) * inject_Z (2 ^ 53) <= inject_Z (dmag z)) as B.
  { rewrite <- inject_Z_mult. rewrite <- Zle_Qle. lia. }
  assert (0 <= inject_Z (Z.abs (m' * 2 ^ sh - dmag z))) by (change 0 with (inject_Z 0); rewrite <- Zle_Qle; lia).
  nra.
Qed.

(* both roundings of the loader and the product of the saver are in the normal range *)
Definition units_normal_via64 (x : dy) : Prop :=
  let c1 := rnd32 nm_to_ang in
  let y := f32_mulf nm_to_ang x in
  let z := dmul ang_to_nm y in
  (-149 - (dexp c1 + dexp x) <= bitlen (dmag c1 * dmag x) - 24)%Z /\
  (-1074 - dexp z <= bitlen (dmag z) - 53)%Z /\
  (-149 - dexp (rnd64 z) <= bitlen (dmag (rnd64 z)) - 24)%Z.

(* save in an angstrom float32 container, load through NetCDF's float64 product: |load(save x) - x| <= |x| / 2^22 *)
Theorem unit_roundtrip_error_via64 : forall x, (0 <= dmag x)%Z -> units_normal_via64 x ->
  Qabs (dyQ (from_file_unit_via64 true (to_file_unit_f true x)) - dyQ x) <= Qabs (dyQ x) / inject_Z (2 ^ 22).
Proof.
  intros x Hm (N1 & N2 & N3). cbv zeta in N1, N2, N3.
  unfold from_file_unit_via64, to_file_unit_f, f32_mulf_via64. unfold f32_mulf in *.
  set (c1 := rnd32 nm_to_ang) in *.
  assert (dneg c1 = false /\ (0 <= dmag c1)%Z /\ absQ c1 == 10) as (S1 & M1 & A1).
  { subst c1. split; [vm_compute; reflexivity|]. split; [vm_compute; discriminate|]. vm_compute. reflexivity. }
  destruct (f32_prod_Q c1 x S1 M1 Hm N1) as (Sy & My & By).
  set (y := rnd32 (dmul c1 x)) in *.
  assert (dneg ang_to_nm = false /\ (0 <= dmag ang_to_nm)%Z /\ absQ ang_to_nm == 3602879701896397 # 36028797018963968)
    as (S2 & M2 & A2).
  { split; [reflexivity|]. split; [vm_compute; discriminate|]. vm_compute. reflexivity. }
  set (z := dmul ang_to_nm y) in *.
  assert (0 <= dmag z)%Z as Mz by (subst z; cbn [dmul dmag]; nia).
  assert (dneg z = dneg y) as Sz by (subst z; cbn [dmul dneg]; rewrite S2; destruct (dneg y); reflexivity).
  assert (absQ z == absQ ang_to_nm * absQ y) as Az by (subst z; apply absQ_dmul).
  destruct (rnd64_Q z Mz N2) as (Sd & Md & Bd).
  set (d := rnd64 z) in *.
  destruct (rnd32_Q d Md N3) as (Sr & Mr & Br).
  set (r := rnd32 d) in *.
  rewrite dyQ_diff_same_sign by congruence. rewrite dyQ_abs by assumption.
  pose proof (absQ_nonneg x Hm) as Ax. pose proof (absQ_nonneg y My) as Ay. pose proof (absQ_nonneg d Md) as Ad.
  rewrite A1 in By. rewrite Az, A2 in Bd.
  set (a := absQ x) in *. set (Y := absQ y) in *. set (D := absQ d) in *. set (R := absQ r) in *.
  change (inject_Z (2 ^ 24)) with (16777216 # 1) in *. change (inject_Z (2 ^ 22)) with (4194304 # 1).
  change (inject_Z (2 ^ 53)) with (9007199254740992 # 1) in *.
  apply Qabs_Qle_condition in By. apply Qabs_Qle_condition in Bd. apply Qabs_Qle_condition in Br. apply Qabs_Qle_condition.
  assert (10 * a / (16777216 # 1) == a * (10 # 16777216)) as E1 by field.
  assert ((3602879701896397 # 36028797018963968) * Y / (9007199254740992 # 1) ==
          Y * (3602879701896397 # 324518553658426726783156020576256)) as E2 by field.
  assert (D / (16777216 # 1) == D * (1 # 16777216)) as E4 by field.
  assert (a / (4194304 # 1) == a * (1 # 4194304)) as E3 by field.
  rewrite E1 in By. rewrite E2 in Bd. rewrite E4 in Br. rewrite E3.
  destruct By as (By1 & By2). destruct Bd as (Bd1 & Bd2). destruct Br as (Br1 & Br2). split; lra.
Qed.
