(* The byte/lastbits/lastbyte bit buffer of xdrfile.c (encodebits, decodebits) implements "append n bits,
   most significant first" / "read n bits" on bit lists (C01). *)
From Coq Require Import ZArith Bool List Lia ZifyBool.
Import ListNotations.
Require Import MD.Gen.CodecTables MD.Codec.Model MD.Codec.Proofs MD.Codec.XtcModel MD.Codec.XtcProofs.
Open Scope Z_scope.

Ltac Zify.zify_post_hook ::= Z.to_euclidean_division_equations.

(* ------------------------------------------------------------------ arithmetic of the C operators *)
Lemma u32_mod : forall x, u32 x = x mod 2 ^ 32.
Proof. intros x. unfold u32. change 4294967295 with (Z.ones 32). now rewrite Z.land_ones by lia. Qed.

Lemma u8_mod : forall x, u8 x = x mod 2 ^ 8.
Proof. intros x. unfold u8. change 255 with (Z.ones 8). now rewrite Z.land_ones by lia. Qed.

Lemma testbit_split : forall A B j i, 0 <= j -> 0 <= B < 2 ^ j -> 0 <= i ->
  Z.testbit (A * 2 ^ j + B) i = if i <? j then Z.testbit B i else Z.testbit A (i - j).
Proof.
  intros A B j i Hj HB Hi. destruct (Z.ltb_spec i j).
  - rewrite <- (Z.mod_pow2_bits_low (A * 2 ^ j + B) j i) by lia.
    rewrite Z.add_comm, Z.mod_add by (apply Z.pow_nonzero; lia). rewrite Z.mod_small by lia. reflexivity.
  - replace i with ((i - j) + j) at 1 by lia. rewrite <- Z.div_pow2_bits by lia.
    rewrite Z.add_comm, Z.div_add by (apply Z.pow_nonzero; lia). rewrite Z.div_small by lia. reflexivity.
Qed.

(* lor of two numbers whose overlapping bits agree: X = H*2^(k+m) + P*2^k, Y = P*2^k + L *)
Lemma lor_overlap : forall H P L k m, 0 <= k -> 0 <= m -> 0 <= P < 2 ^ m -> 0 <= L < 2 ^ k -> 0 <= H ->
  Z.lor (H * 2 ^ (k + m) + P * 2 ^ k) (P * 2 ^ k + L) = H * 2 ^ (k + m) + P * 2 ^ k + L.
Proof.
  intros H P L k m Hk Hm HP HL HH. apply Z.bits_inj'. intros i Hi. rewrite Z.lor_spec.
  assert (0 < 2 ^ k) by (apply Z.pow_pos_nonneg; lia). assert (0 < 2 ^ m) by (apply Z.pow_pos_nonneg; lia).
  assert (P * 2 ^ k <= (2 ^ m - 1) * 2 ^ k) as PB by (apply Z.mul_le_mono_nonneg_r; lia).
  assert (0 <= P * 2 ^ k) as PN by (apply Z.mul_nonneg_nonneg; lia).
  assert (2 ^ (k + m) = 2 ^ k * 2 ^ m) as EP by (apply Z.pow_add_r; lia).
  assert (0 <= P * 2 ^ k + L < 2 ^ (k + m) /\ 0 <= P * 2 ^ k < 2 ^ (k + m)) as [R1 R2].
  { rewrite EP. remember (2 ^ k) as a. remember (2 ^ m) as b. remember (P * a) as pa.
    assert ((b - 1) * a = b * a - a) as E1 by ring. rewrite E1 in PB. remember (b * a) as ba.
    replace (a * b) with ba by (subst ba; ring). lia. }
  replace (H * 2 ^ (k + m) + P * 2 ^ k + L) with (H * 2 ^ (k + m) + (P * 2 ^ k + L)) by lia.
  rewrite (testbit_split H (P * 2 ^ k + L) (k + m) i) by lia.
  rewrite (testbit_split H (P * 2 ^ k) (k + m) i) by lia.
  destruct (Z.ltb_spec i (k + m)).
  - rewrite (testbit_split P L k i) by lia.
    replace (P * 2 ^ k) with (P * 2 ^ k + 0) at 1 by lia. rewrite (testbit_split P 0 k i) by lia.
    destruct (Z.ltb_spec i k); [now rewrite Z.bits_0|apply orb_diag].
  - assert (Z.testbit (P * 2 ^ k + L) i = false) as ->; [|apply orb_false_r].
    destruct (Z.eq_dec (P * 2 ^ k + L) 0) as [->|NE]; [apply Z.bits_0|].
    apply Z.bits_above_log2; [lia|]. apply Z.log2_lt_pow2; [lia|].
    apply Z.lt_le_trans with (2 ^ (k + m)); [lia|apply Z.pow_le_mono_r; lia].
Qed.

(* ------------------------------------------------------------------ bit lists of numbers *)
Lemma bits_of_split : forall a b X,
  bits_of (a + b) X = bits_of a (X / 2 ^ Z.of_nat b) ++ bits_of b X.
Proof.
  induction a; intros b X; [reflexivity|].
  cbn [Nat.add bits_of app]. rewrite IHa. f_equal.
  rewrite Z.div_pow2_bits by lia. f_equal. lia.
Qed.

Lemma bits_of_congr : forall n X Y, X mod 2 ^ Z.of_nat n = Y mod 2 ^ Z.of_nat n -> bits_of n X = bits_of n Y.
Proof.
  intros n X Y H.
  assert (forall k, (k <= n)%nat -> bits_of k X = bits_of k Y) as G; [|apply G; lia].
  induction k; intros Hk; [reflexivity|]. cbn [bits_of]. rewrite IHk by lia. f_equal.
  rewrite <- (Z.mod_pow2_bits_low X (Z.of_nat n)) by lia.
  rewrite <- (Z.mod_pow2_bits_low Y (Z.of_nat n) (Z.of_nat k)) by lia. now rewrite H.
Qed.

Lemma bytes_to_bits_app : forall a b, bytes_to_bits (a ++ b) = bytes_to_bits a ++ bytes_to_bits b.
Proof. intros. unfold bytes_to_bits. now rewrite map_app, concat_app. Qed.

(* ------------------------------------------------------------------ writer *)
Definition wbits (b : cbuf) : list bool :=
  bytes_to_bits (cb_bytes b) ++ bits_of (Z.to_nat (cb_lastbits b)) (cb_lastbyte b).
Definition wok (b : cbuf) : Prop := 0 <= cb_lastbits b < 8 /\ 0 <= cb_lastbyte b < 2 ^ 32.

(* one pass of the while (num_of_bits >= 8) loop: the state gains the next 8 bits of num *)
Lemma enc_step : forall b nb n v,
  wok b -> 8 <= nb <= n -> n <= 32 -> 0 <= v < 2 ^ n ->
  cb_lastbyte b mod 2 ^ (n - nb) = v / 2 ^ nb ->
  let lastbyte' := u32 (Z.lor (Z.shiftl (cb_lastbyte b) 8) (Z.shiftr v (nb - 8))) in
  let b' := CBuf (cb_bytes b ++ [u8 (Z.shiftr lastbyte' (cb_lastbits b))]) (cb_lastbits b) lastbyte' in
  wok b' /\ wbits b' = wbits b ++ bits_of 8 (v / 2 ^ (nb - 8)) /\
  lastbyte' mod 2 ^ (n - (nb - 8)) = v / 2 ^ (nb - 8).
Proof.
  intros b nb n v [Hlb Hl] Hnb Hn Hv Hov. cbv zeta.
  set (lb := cb_lastbits b) in *. set (l := cb_lastbyte b) in *. set (c := n - nb) in *.
  set (P := v / 2 ^ nb) in *. set (chunk := (v / 2 ^ (nb - 8)) mod 2 ^ 8).
  assert (0 < 2 ^ nb) by (apply Z.pow_pos_nonneg; lia). assert (0 < 2 ^ c) by (apply Z.pow_pos_nonneg; lia).
  assert (0 < 2 ^ (nb - 8)) by (apply Z.pow_pos_nonneg; lia).
  assert (0 <= P < 2 ^ c) as HP.
  { subst P c. split; [apply Z.div_pos; lia|]. apply Z.div_lt_upper_bound; [lia|].
    rewrite <- Z.pow_add_r by lia. replace (nb + (n - nb)) with n by lia. lia. }
  assert (v / 2 ^ (nb - 8) = P * 2 ^ 8 + chunk) as Ev.
  { subst P chunk. replace (2 ^ nb) with (2 ^ (nb - 8) * 2 ^ 8) by (rewrite <- Z.pow_add_r by lia; f_equal; lia).
    rewrite <- Z.div_div by lia. pose proof (Z.div_mod (v / 2 ^ (nb - 8)) (2 ^ 8) ltac:(lia)). lia. }
  assert (0 <= chunk < 2 ^ 8) as Hc by (subst chunk; apply Z.mod_pos_bound; lia).
  (* the lor adds exactly the new chunk *)
  assert (Z.lor (Z.shiftl l 8) (Z.shiftr v (nb - 8)) = l * 2 ^ 8 + chunk) as EL.
  { rewrite Z.shiftl_mul_pow2, Z.shiftr_div_pow2 by lia. rewrite Ev.
    pose proof (Z.div_mod l (2 ^ c) ltac:(lia)) as DM. rewrite Hov in DM.
    replace (l * 2 ^ 8) with ((l / 2 ^ c) * 2 ^ (8 + c) + P * 2 ^ 8) by (rewrite Z.pow_add_r by lia; lia).
    rewrite lor_overlap; try lia. apply Z.div_pos; lia. }
  rewrite EL. rewrite u32_mod.
  set (X := l * 2 ^ 8 + chunk) in *.
  assert (0 <= X) by (subst X; lia).
  repeat split.
  - exact (proj1 Hlb).
  - exact (proj2 Hlb).
  - apply Z.mod_pos_bound; lia.
  - apply Z.mod_pos_bound; lia.
  - unfold wbits. cbn [cb_bytes cb_lastbits cb_lastbyte]. fold lb l.
    rewrite bytes_to_bits_app. rewrite <- !app_assoc. f_equal.
    cbn [bytes_to_bits map concat]. rewrite app_nil_r. unfold byte_bits.
    rewrite u8_mod, Z.shiftr_div_pow2 by lia.
    (* both sides are the low lb+8 bits of X *)
    transitivity (bits_of (8 + Z.to_nat lb) X).
    + rewrite bits_of_split. rewrite Z2Nat.id by lia. f_equal.
      * apply bits_of_congr. change (Z.of_nat 8) with 8. rewrite Z.mod_mod by lia.
        (* (X mod 2^32 / 2^lb) mod 2^8 = (X / 2^lb) mod 2^8 since lb + 8 <= 32 *)
        replace (2 ^ 32) with (2 ^ lb * 2 ^ (32 - lb)) by (rewrite <- Z.pow_add_r by lia; f_equal; lia).
        assert (0 < 2 ^ lb) by (apply Z.pow_pos_nonneg; lia). assert (0 < 2 ^ (32 - lb)) by (apply Z.pow_pos_nonneg; lia).
        rewrite Z.rem_mul_r by lia. rewrite Z.mul_comm, Z.div_add by lia.
        rewrite Z.div_small by (apply Z.mod_pos_bound; lia). rewrite Z.add_0_l.
        replace (2 ^ (32 - lb)) with (2 ^ 8 * 2 ^ (24 - lb)) by (rewrite <- Z.pow_add_r by lia; f_equal; lia).
        assert (0 < 2 ^ (24 - lb)) by (apply Z.pow_pos_nonneg; lia).
        rewrite Z.rem_mul_r by lia. rewrite Z.mul_comm, Z.mod_add by lia. now rewrite Z.mod_mod by lia.
      * apply bits_of_congr. rewrite Z2Nat.id by lia.
        replace (2 ^ 32) with (2 ^ lb * 2 ^ (32 - lb)) by (rewrite <- Z.pow_add_r by lia; f_equal; lia).
        assert (0 < 2 ^ lb) by (apply Z.pow_pos_nonneg; lia). assert (0 < 2 ^ (32 - lb)) by (apply Z.pow_pos_nonneg; lia).
        rewrite Z.rem_mul_r by lia. rewrite Z.mul_comm, Z.mod_add by lia. now rewrite Z.mod_mod by lia.
    + rewrite Nat.add_comm, bits_of_split. change (Z.of_nat 8) with 8. f_equal.
      * f_equal. subst X. rewrite Z.div_add_l by lia. rewrite Z.div_small by lia. lia.
      * apply bits_of_congr. change (Z.of_nat 8) with 8. subst X. rewrite Ev.
        rewrite Z.add_comm, Z.mod_add by lia. rewrite (Z.add_comm (P * 2 ^ 8)), Z.mod_add by lia. reflexivity.
  - (* the low c+8 bits of the new lastbyte *)
    replace (n - (nb - 8)) with (c + 8) by (subst c; lia).
    replace (2 ^ 32) with (2 ^ (c + 8) * 2 ^ (32 - (c + 8))) by (rewrite <- Z.pow_add_r by (subst c; lia); f_equal; lia).
    assert (0 < 2 ^ (c + 8)) by (apply Z.pow_pos_nonneg; subst c; lia).
    assert (0 < 2 ^ (32 - (c + 8))) by (apply Z.pow_pos_nonneg; subst c; lia).
    rewrite Z.rem_mul_r by lia. rewrite Z.mul_comm, Z.mod_add by lia. rewrite Z.mod_mod by lia.
    subst X. rewrite Ev. rewrite Z.pow_add_r by (subst c; lia).
    pose proof (Z.div_mod l (2 ^ c) ltac:(lia)) as DM. rewrite Hov in DM.
    replace (l * 2 ^ 8 + chunk) with ((l / 2 ^ c) * (2 ^ c * 2 ^ 8) + (P * 2 ^ 8 + chunk)) by lia.
    rewrite Z.add_comm, Z.mod_add by lia. apply Z.mod_small. nia.
Qed.

(* from here on lia must not expand div/mod (the goals carry many of them) *)
Ltac Zify.zify_post_hook ::= idtac.

Lemma enc_loop_spec : forall fuel b nb n v,
  wok b -> 0 <= nb <= n -> n <= 32 -> 0 <= v < 2 ^ n ->
  cb_lastbyte b mod 2 ^ (n - nb) = v / 2 ^ nb -> nb < 8 * Z.of_nat fuel ->
  let '(nb', b') := c_enc_loop fuel nb v b in
  0 <= nb' < 8 /\ nb' <= nb /\ wok b' /\ cb_lastbyte b' mod 2 ^ (n - nb') = v / 2 ^ nb' /\
  wbits b' ++ bits_of (Z.to_nat nb') v = wbits b ++ bits_of (Z.to_nat nb) v /\ cb_lastbits b' = cb_lastbits b.
Proof.
  induction fuel; intros b nb n v Hok Hnb Hn Hv Hov Hfu; [lia|].
  cbn [c_enc_loop]. destruct (Z.leb_spec 8 nb) as [H8|H8].
  - destruct (enc_step b nb n v Hok ltac:(lia) Hn Hv Hov) as (Hok' & Hbits & Hov').
    set (b1 := CBuf _ _ _) in *.
    specialize (IHfuel b1 (nb - 8) n v Hok' ltac:(lia) Hn Hv Hov' ltac:(lia)).
    destruct (c_enc_loop fuel (nb - 8) v b1) as [nb' b'].
    destruct IHfuel as (A & B & C & D & E & F).
    split; [lia|]. split; [lia|]. split; [assumption|]. split; [assumption|]. split.
    + rewrite E, Hbits. rewrite <- app_assoc. f_equal.
      replace (Z.to_nat nb) with (8 + Z.to_nat (nb - 8))%nat by lia.
      rewrite bits_of_split. rewrite Z2Nat.id by lia. reflexivity.
    + rewrite F. reflexivity.
  - split; [lia|]. split; [lia|]. split; [assumption|]. split; [assumption|]. split; reflexivity.
Qed.

(* static void encodebits(...): appends the num_of_bits low bits of num, most significant first *)
Theorem c_encodebits_spec : forall b n v, wok b -> 0 <= n <= 32 -> 0 <= v < 2 ^ n ->
  wok (c_encodebits b n v) /\ wbits (c_encodebits b n v) = wbits b ++ bits_of (Z.to_nat n) v.
Proof.
  intros b n v Hok Hn Hv. unfold c_encodebits, c_enc_tail.
  pose proof (enc_loop_spec 10 b n n v Hok ltac:(lia) ltac:(lia) Hv) as L.
  rewrite Z.sub_diag, Z.pow_0_r, Z.mod_1_r in L. rewrite (Z.div_small v (2 ^ n)) in L by lia.
  specialize (L eq_refl ltac:(lia)).
  destruct (c_enc_loop 10 n v b) as [nb b1]. destruct L as (Hnb & Hle & Hok1 & Hov & Hbits & Hlb).
  destruct (Z.ltb_spec 0 nb) as [Hpos|Hz].
  - destruct Hok1 as [Hlb1 Hl1].
    set (lb := cb_lastbits b1) in *. set (l := cb_lastbyte b1) in *. set (c := n - nb) in *.
    set (P := v / 2 ^ nb) in *. set (L0 := v mod 2 ^ nb).
    assert (0 < 2 ^ nb) by (apply Z.pow_pos_nonneg; lia). assert (0 < 2 ^ c) by (apply Z.pow_pos_nonneg; subst c; lia).
    assert (0 <= P < 2 ^ c) as HP.
    { subst P c. split; [apply Z.div_pos; lia|]. apply Z.div_lt_upper_bound; [lia|].
      rewrite <- Z.pow_add_r by lia. replace (nb + (n - nb)) with n by lia. lia. }
    assert (v = P * 2 ^ nb + L0) as Ev by (subst P L0; pose proof (Z.div_mod v (2 ^ nb) ltac:(lia)); lia).
    assert (0 <= L0 < 2 ^ nb) as HL0 by (subst L0; apply Z.mod_pos_bound; lia).
    assert (Z.lor (Z.shiftl l nb) v = l * 2 ^ nb + L0) as EL.
    { rewrite Z.shiftl_mul_pow2 by lia. rewrite Ev at 1.
      pose proof (Z.div_mod l (2 ^ c) ltac:(lia)) as DM. rewrite Hov in DM.
      replace (l * 2 ^ nb) with ((l / 2 ^ c) * 2 ^ (nb + c) + P * 2 ^ nb) by (rewrite Z.pow_add_r by (subst c; lia); lia).
      rewrite lor_overlap; [reflexivity|lia|subst c; lia|assumption|assumption|apply Z.div_pos; lia]. }
    rewrite EL. rewrite u32_mod. set (X := l * 2 ^ nb + L0) in *. assert (0 <= X) by (subst X; lia).
    assert (forall k, 0 <= k <= lb + nb -> bits_of (Z.to_nat k) (X mod 2 ^ 32) = bits_of (Z.to_nat k) X) as LOW.
    { intros k Hk. apply bits_of_congr. rewrite Z2Nat.id by lia.
      replace (2 ^ 32) with (2 ^ k * 2 ^ (32 - k)) by (rewrite <- Z.pow_add_r by lia; f_equal; lia).
      assert (0 < 2 ^ k) by (apply Z.pow_pos_nonneg; lia). assert (0 < 2 ^ (32 - k)) by (apply Z.pow_pos_nonneg; lia).
      rewrite Z.rem_mul_r by lia. rewrite Z.mul_comm, Z.mod_add by lia. now rewrite Z.mod_mod by lia. }
    assert (bits_of (Z.to_nat (lb + nb)) X = bits_of (Z.to_nat lb) l ++ bits_of (Z.to_nat nb) v) as SPLIT.
    { replace (Z.to_nat (lb + nb)) with (Z.to_nat lb + Z.to_nat nb)%nat by lia. rewrite bits_of_split. rewrite Z2Nat.id by lia.
      f_equal.
      - f_equal. subst X. rewrite Z.div_add_l by lia. rewrite Z.div_small by lia. lia.
      - apply bits_of_congr. rewrite Z2Nat.id by lia. subst X. rewrite Ev.
        rewrite Z.add_comm, Z.mod_add by lia. rewrite (Z.add_comm (P * 2 ^ nb)), Z.mod_add by lia. reflexivity. }
    assert (wbits b ++ bits_of (Z.to_nat n) v = bytes_to_bits (cb_bytes b1) ++ bits_of (Z.to_nat (lb + nb)) X) as GOAL.
    { rewrite <- Hbits. unfold wbits. fold lb l. rewrite <- app_assoc. now rewrite SPLIT. }
    destruct (Z.leb_spec 8 (lb + nb)) as [Hfull|Hpart].
    + split; [split; cbn [cb_lastbits cb_lastbyte]; [lia|apply Z.mod_pos_bound; lia]|].
      rewrite GOAL. unfold wbits. cbn [cb_bytes cb_lastbits cb_lastbyte].
      rewrite bytes_to_bits_app, <- app_assoc. f_equal. cbn [bytes_to_bits map concat]. rewrite app_nil_r. unfold byte_bits.
      rewrite (LOW (lb + nb - 8)) by lia.
      replace (Z.to_nat (lb + nb)) with (8 + Z.to_nat (lb + nb - 8))%nat by lia. rewrite bits_of_split. rewrite Z2Nat.id by lia.
      f_equal. apply bits_of_congr. change (Z.of_nat 8) with 8. rewrite u8_mod, Z.shiftr_div_pow2 by lia. rewrite Z.mod_mod by lia.
      (* bits [lb+nb-8, lb+nb) of X mod 2^32 and of X agree *)
      set (k := lb + nb - 8) in *.
      replace (2 ^ 32) with (2 ^ k * 2 ^ (32 - k)) by (rewrite <- Z.pow_add_r by lia; f_equal; lia).
      assert (0 < 2 ^ k) by (apply Z.pow_pos_nonneg; lia). assert (0 < 2 ^ (32 - k)) by (apply Z.pow_pos_nonneg; lia).
      rewrite Z.rem_mul_r by lia. rewrite Z.mul_comm, Z.div_add by lia.
      rewrite Z.div_small by (apply Z.mod_pos_bound; lia). rewrite Z.add_0_l.
      replace (2 ^ (32 - k)) with (2 ^ 8 * 2 ^ (24 - k)) by (rewrite <- Z.pow_add_r by lia; f_equal; lia).
      assert (0 < 2 ^ (24 - k)) by (apply Z.pow_pos_nonneg; lia).
      rewrite Z.rem_mul_r by lia. rewrite Z.mul_comm, Z.mod_add by lia. now rewrite Z.mod_mod by lia.
    + split; [split; cbn [cb_lastbits cb_lastbyte]; [lia|apply Z.mod_pos_bound; lia]|].
      rewrite GOAL. unfold wbits. cbn [cb_bytes cb_lastbits cb_lastbyte]. f_equal. apply LOW. lia.
  - assert (nb = 0) as -> by lia. split; [assumption|]. rewrite <- Hbits.
    change (bits_of (Z.to_nat 0) v) with (@nil bool). now rewrite app_nil_r.
Qed.

(* the partial byte handed to xdrfile_write_opaque: zero padding *)
Theorem c_flush_spec : forall b, wok b -> Forall (fun x => 0 <= x < 256) (cb_bytes b) ->
  bytes_to_bits (c_flush b) = wbits b ++ repeat false (Z.to_nat ((8 - cb_lastbits b) mod 8)).
Proof.
  intros b [Hlb Hl] _. unfold c_flush, wbits.
  destruct (Z.eqb_spec (cb_lastbits b) 0) as [E|NE].
  - rewrite E. change (Z.to_nat 0) with 0%nat. change (Z.to_nat ((8 - 0) mod 8)) with 0%nat.
    cbn [bits_of repeat]. now rewrite !app_nil_r.
  - rewrite bytes_to_bits_app. rewrite <- app_assoc. f_equal. cbn [bytes_to_bits map concat]. rewrite app_nil_r. unfold byte_bits.
    set (lb := cb_lastbits b) in *. set (l := cb_lastbyte b) in *.
    rewrite Z.mod_small by lia. rewrite u8_mod, Z.shiftl_mul_pow2 by lia.
    assert (0 < 2 ^ (8 - lb)) by (apply Z.pow_pos_nonneg; lia). assert (0 < 2 ^ lb) by (apply Z.pow_pos_nonneg; lia).
    assert ((l * 2 ^ (8 - lb)) mod 2 ^ 8 = (l mod 2 ^ lb) * 2 ^ (8 - lb)) as ->.
    { replace (2 ^ 8) with (2 ^ lb * 2 ^ (8 - lb)) by (rewrite <- Z.pow_add_r by lia; f_equal; lia).
      apply Z.mul_mod_distr_r; lia. }
    replace 8%nat with (Z.to_nat lb + Z.to_nat (8 - lb))%nat at 1 by lia. rewrite bits_of_split. rewrite Z2Nat.id by lia.
    rewrite Z.div_mul by lia. f_equal.
    + apply bits_of_congr. rewrite Z2Nat.id by lia. now rewrite Z.mod_mod by lia.
    + assert (forall k, bits_of k 0 = repeat false k) as ZB
        by (induction k; [reflexivity|cbn [bits_of repeat]; rewrite Z.bits_0, IHk; reflexivity]).
      rewrite <- ZB. apply bits_of_congr. rewrite Z2Nat.id by lia. rewrite Z.mod_mul by lia. reflexivity.
Qed.

(* ================================================================== reader *)
Lemma lor_mod_pow2 : forall a b n, 0 <= n -> (Z.lor a b) mod 2 ^ n = Z.lor (a mod 2 ^ n) (b mod 2 ^ n).
Proof. intros a b n Hn. rewrite <- !Z.land_ones by lia. apply Z.land_lor_distr_l. Qed.

Lemma div_mod_pow2 : forall a lb q, 0 <= lb -> 0 <= q -> (a mod 2 ^ (lb + q)) / 2 ^ lb = (a / 2 ^ lb) mod 2 ^ q.
Proof.
  intros a lb q Hlb Hq. rewrite Z.pow_add_r by lia.
  assert (0 < 2 ^ lb) by (apply Z.pow_pos_nonneg; lia). assert (0 < 2 ^ q) by (apply Z.pow_pos_nonneg; lia).
  rewrite Z.rem_mul_r by lia. rewrite Z.mul_comm, Z.div_add by lia.
  rewrite Z.div_small by (apply Z.mod_pos_bound; lia). reflexivity.
Qed.

Lemma mod_mod_le : forall a p q, 0 <= p <= q -> (a mod 2 ^ q) mod 2 ^ p = a mod 2 ^ p.
Proof.
  intros a p q H. replace (2 ^ q) with (2 ^ p * 2 ^ (q - p)) by (rewrite <- Z.pow_add_r by lia; f_equal; lia).
  assert (0 < 2 ^ p) by (apply Z.pow_pos_nonneg; lia). assert (0 < 2 ^ (q - p)) by (apply Z.pow_pos_nonneg; lia).
  rewrite Z.rem_mul_r by lia. rewrite Z.mul_comm, Z.mod_add by lia. now rewrite Z.mod_mod by lia.
Qed.

Lemma mod_mod_ge : forall a p q, 0 <= q <= p -> (a mod 2 ^ q) mod 2 ^ p = a mod 2 ^ q.
Proof.
  intros a p q H. apply Z.mod_small.
  assert (0 < 2 ^ q) by (apply Z.pow_pos_nonneg; lia).
  pose proof (Z.mod_pos_bound a (2 ^ q) ltac:(lia)). assert (2 ^ q <= 2 ^ p) by (apply Z.pow_le_mono_r; lia). lia.
Qed.

Definition rok (r : rbuf) : Prop :=
  0 <= rb_lastbits r < 8 /\ 0 <= rb_lastbyte r < 2 ^ 32 /\ Forall (fun x => 0 <= x < 256) (rb_bytes r).
Definition rbits (r : rbuf) : list bool :=
  bits_of (Z.to_nat (rb_lastbits r)) (rb_lastbyte r) ++ bytes_to_bits (rb_bytes r).

Lemma lor_low : forall H L k, 0 <= k -> 0 <= L < 2 ^ k -> 0 <= H -> Z.lor (H * 2 ^ k) L = H * 2 ^ k + L.
Proof.
  intros H L k Hk HL HH. pose proof (lor_overlap H 0 L k 0 Hk ltac:(lia) ltac:(change (2 ^ 0) with 1; lia) HL HH) as E.
  rewrite Z.add_0_r, Z.mul_0_l, Z.add_0_r, Z.add_0_l in E. exact E.
Qed.

(* reading one byte: the ghost G (all bits read so far, unbounded) becomes G*256 + x *)
Lemma read_byte : forall G x, 0 <= G -> 0 <= x < 256 ->
  u32 (Z.lor (Z.shiftl (G mod 2 ^ 32) 8) x) = (G * 256 + x) mod 2 ^ 32.
Proof.
  intros G x HG Hx. rewrite Z.shiftl_mul_pow2 by lia. rewrite u32_mod.
  pose proof (Z.mod_pos_bound G (2 ^ 32) ltac:(lia)).
  rewrite lor_low by lia. change (2 ^ 8) with 256.
  rewrite Z.add_mod by lia. rewrite Z.mul_mod by lia. rewrite Z.mod_mod by lia.
  rewrite <- Z.mul_mod by lia. rewrite <- Z.add_mod by lia. reflexivity.
Qed.

Lemma stream_byte : forall G x lb, 0 <= G -> 0 <= x < 256 ->
  bits_of lb G ++ bits_of 8 x = bits_of (lb + 8) (G * 256 + x).
Proof.
  intros G x lb HG Hx. rewrite bits_of_split. change (2 ^ Z.of_nat 8) with 256.
  rewrite Z.div_add_l by lia. rewrite Z.div_small by lia. rewrite Z.add_0_r. f_equal.
  apply bits_of_congr. change (2 ^ Z.of_nat 8) with 256. rewrite Z.add_comm, Z.mod_add by lia. reflexivity.
Qed.

(* one pass of the while (num_of_bits >= 8) loop of decodebits *)
Lemma dec_step : forall G lb j n nb num x,
  0 <= G -> 0 <= lb < 8 -> 0 <= j -> nb = n - 8 * j -> 8 <= nb -> n <= 32 -> 0 <= x < 256 -> 0 <= num ->
  num mod 2 ^ n = ((G / 2 ^ lb) mod 2 ^ (8 * j)) * 2 ^ nb ->
  let G' := G * 256 + x in
  let lastbyte' := u32 (Z.lor (Z.shiftl (G mod 2 ^ 32) 8) x) in
  let num' := Z.lor num (Z.shiftl (Z.shiftr lastbyte' lb) (nb - 8)) in
  lastbyte' = G' mod 2 ^ 32 /\ 0 <= num' /\
  num' mod 2 ^ n = ((G' / 2 ^ lb) mod 2 ^ (8 * (j + 1))) * 2 ^ (nb - 8).
Proof.
  intros G lb j n nb num x HG Hlb Hj Hnb H8 Hn Hx Hnum Hinv. cbv zeta.
  rewrite read_byte by assumption. set (G' := G * 256 + x).
  assert (0 <= G') by (subst G'; lia).
  assert (0 < 2 ^ lb) by (apply Z.pow_pos_nonneg; lia).
  split; [reflexivity|]. set (s := nb - 8) in *.
  rewrite Z.shiftr_div_pow2, Z.shiftl_mul_pow2 by lia.
  assert (0 <= G' mod 2 ^ 32 / 2 ^ lb) by (apply Z.div_pos; [apply Z.mod_pos_bound|]; lia).
  assert (0 < 2 ^ s) by (apply Z.pow_pos_nonneg; lia).
  split; [apply Z.lor_nonneg; split; [lia|apply Z.mul_nonneg_nonneg; lia]|].
  rewrite lor_mod_pow2 by lia. rewrite Hinv.
  set (A := (G / 2 ^ lb) mod 2 ^ (8 * j)) in *.
  set (Y := G' / 2 ^ lb). set (c0 := ((G mod 2 ^ lb) * 256 + x) / 2 ^ lb).
  assert (0 <= c0 < 256) as Hc0.
  { subst c0. pose proof (Z.mod_pos_bound G (2 ^ lb) ltac:(lia)). split; [apply Z.div_pos; lia|].
    apply Z.div_lt_upper_bound; lia. }
  assert (Y = (G / 2 ^ lb) * 256 + c0) as EY.
  { subst Y G' c0. pose proof (Z.div_mod G (2 ^ lb) ltac:(lia)) as DM.
    replace (G * 256 + x) with ((G / 2 ^ lb * 256) * 2 ^ lb + (G mod 2 ^ lb * 256 + x)) by lia.
    rewrite Z.div_add_l by lia. reflexivity. }
  assert (0 < 2 ^ (8 * j)) by (apply Z.pow_pos_nonneg; lia).
  assert (Y mod 2 ^ (8 * (j + 1)) = A * 256 + c0) as EX.
  { rewrite EY. replace (8 * (j + 1)) with (8 + 8 * j) by lia. rewrite Z.pow_add_r by lia. change (2 ^ 8) with 256.
    pose proof (Z.div_mod (G / 2 ^ lb) (2 ^ (8 * j)) ltac:(lia)) as DM. fold A in DM.
    replace (G / 2 ^ lb * 256 + c0) with ((G / 2 ^ lb / 2 ^ (8 * j)) * (256 * 2 ^ (8 * j)) + (A * 256 + c0)) by lia.
    rewrite Z.add_comm, Z.mod_add by lia. apply Z.mod_small.
    pose proof (Z.mod_pos_bound (G / 2 ^ lb) (2 ^ (8 * j)) ltac:(lia)) as BA0. fold A in BA0. lia. }
  (* the operand, modulo 2^n *)
  replace (2 ^ n) with (2 ^ (8 * (j + 1)) * 2 ^ s) by (rewrite <- Z.pow_add_r by lia; f_equal; subst s; lia).
  rewrite Z.mul_mod_distr_r by (try lia; apply Z.pow_nonzero; lia).
  replace 32 with (lb + (32 - lb)) at 1 by lia. rewrite div_mod_pow2 by lia. fold Y.
  assert ((Y mod 2 ^ (32 - lb)) mod 2 ^ (8 * (j + 1)) = (A * 256 + c0) mod 2 ^ (32 - lb)) as ->.
  { rewrite <- EX. destruct (Z_le_gt_dec (8 * (j + 1)) (32 - lb)).
    - rewrite mod_mod_le by lia. rewrite mod_mod_ge by lia. reflexivity.
    - rewrite mod_mod_ge by lia. rewrite mod_mod_le by lia. reflexivity. }
  rewrite EX.
  (* decompose A around bit 24 - lb and apply the overlap lemma *)
  set (m := 24 - lb). assert (0 < 2 ^ m) by (apply Z.pow_pos_nonneg; subst m; lia).
  pose proof (Z.div_mod A (2 ^ m) ltac:(lia)) as DA. pose proof (Z.mod_pos_bound A (2 ^ m) ltac:(lia)) as BA.
  assert (0 <= A) by (subst A; apply Z.mod_pos_bound; lia).
  assert ((A * 256 + c0) mod 2 ^ (32 - lb) = (A mod 2 ^ m) * 256 + c0) as ->.
  { replace (32 - lb) with (m + 8) by (subst m; lia). rewrite Z.pow_add_r by (subst m; lia). change (2 ^ 8) with 256.
    replace (A * 256 + c0) with ((A / 2 ^ m) * (2 ^ m * 256) + (A mod 2 ^ m * 256 + c0)) by lia.
    rewrite Z.add_comm, Z.mod_add by lia. apply Z.mod_small. lia. }
  replace nb with (s + 8) by (subst s; lia).
  replace (A * 2 ^ (s + 8)) with ((A / 2 ^ m) * 2 ^ ((s + 8) + m) + (A mod 2 ^ m) * 2 ^ (s + 8))
    by (rewrite (Z.pow_add_r 2 (s + 8) m) by (subst m; lia); lia).
  replace ((A mod 2 ^ m * 256 + c0) * 2 ^ s) with ((A mod 2 ^ m) * 2 ^ (s + 8) + c0 * 2 ^ s)
    by (rewrite Z.pow_add_r by lia; change (2 ^ 8) with 256; lia).
  rewrite lor_overlap; try lia.
  - rewrite (Z.pow_add_r 2 (s + 8) m) by (subst m; lia). rewrite (Z.pow_add_r 2 s 8) by lia. change (2 ^ 8) with 256. lia.
  - rewrite Z.pow_add_r by lia. change (2 ^ 8) with 256.
    split; [apply Z.mul_nonneg_nonneg; lia|]. rewrite (Z.mul_comm (2 ^ s)). apply Z.mul_lt_mono_pos_r; lia.
  - apply Z.div_pos; lia.
Qed.

Definition dinv (S : list bool) (n lb nb num : Z) (r : rbuf) : Prop :=
  exists G j, 0 <= G /\ 0 <= j /\ nb = n - 8 * j /\ 0 <= nb /\ rb_lastbits r = lb /\
    rb_lastbyte r = G mod 2 ^ 32 /\ 0 <= num /\
    num mod 2 ^ n = ((G / 2 ^ lb) mod 2 ^ (8 * j)) * 2 ^ nb /\
    S = bits_of (Z.to_nat (8 * j)) (G / 2 ^ lb) ++ bits_of (Z.to_nat lb) G ++ bytes_to_bits (rb_bytes r) /\
    Forall (fun x => 0 <= x < 256) (rb_bytes r) /\
    n <= 8 * j + lb + 8 * Z.of_nat (length (rb_bytes r)).

Lemma dec_loop_inv : forall fuel S n lb nb num r,
  0 <= lb < 8 -> n <= 32 -> dinv S n lb nb num r -> nb < 8 * Z.of_nat fuel ->
  let '(nb', num', r') := c_dec_loop fuel nb num r in dinv S n lb nb' num' r' /\ nb' < 8.
Proof.
  induction fuel; intros S n lb nb num r Hlb Hn Hinv Hfu.
  - destruct Hinv as (G & j & _ & _ & _ & Hnb & _). lia.
  - cbn [c_dec_loop]. destruct (Z.leb_spec 8 nb) as [H8|H8]; [|split; [assumption|lia]].
    destruct Hinv as (G & j & HG & Hj & Enb & Hnb & Elb & El & Hnum & Hmod & HS & HB & Hlen).
    destruct (rb_bytes r) as [|x t] eqn:Eb; [cbn [length] in Hlen; lia|].
    inversion HB as [|x' t' Hx Ht]; subst x' t'. cbn [next_byte].
    rewrite El, Elb.
    destruct (dec_step G lb j n nb num x HG Hlb Hj Enb H8 Hn Hx Hnum Hmod) as (E1 & E2 & E3).
    apply IHfuel; try assumption; [|lia].
    exists (G * 256 + x), (j + 1). cbn [rb_lastbits rb_lastbyte rb_bytes].
    assert (0 < 2 ^ lb) by (apply Z.pow_pos_nonneg; lia).
    repeat split; try lia; try assumption.
    + rewrite HS. cbn [bytes_to_bits map concat]. fold (bytes_to_bits t). unfold byte_bits.
      rewrite (app_assoc (bits_of (Z.to_nat lb) G)). rewrite stream_byte by assumption.
      replace (Z.to_nat lb + 8)%nat with (8 + Z.to_nat lb)%nat by lia. rewrite bits_of_split. rewrite Z2Nat.id by lia.
      rewrite <- !app_assoc. rewrite (app_assoc (bits_of (Z.to_nat (8 * j)) (G / 2 ^ lb))). f_equal.
      replace (Z.to_nat (8 * (j + 1))) with (Z.to_nat (8 * j) + 8)%nat by lia. rewrite bits_of_split. f_equal. f_equal.
      change (2 ^ Z.of_nat 8) with 256. rewrite Z.div_div by lia. rewrite (Z.mul_comm (2 ^ lb)). rewrite <- Z.div_div by lia.
      rewrite Z.div_add_l by lia. rewrite (Z.div_small x) by lia. f_equal. lia.
    + cbn [length] in Hlen. lia.
Qed.

Lemma land_mask : forall x n, 0 <= n -> Z.land x (Z.shiftl 1 n - 1) = x mod 2 ^ n.
Proof. intros x n Hn. rewrite <- Z.land_ones by lia. f_equal. Qed.

Lemma bits_low32 : forall k G, 0 <= k <= 32 -> bits_of (Z.to_nat k) (G mod 2 ^ 32) = bits_of (Z.to_nat k) G.
Proof. intros k G Hk. apply bits_of_congr. rewrite Z2Nat.id by lia. apply mod_mod_le. lia. Qed.

(* static int decodebits(int buf[], int num_of_bits): returns the next num_of_bits bits of the stream (most
   significant first) and leaves the buffer at the following bit.  (For num_of_bits = 32 the C expression
   (1 << num_of_bits) - 1 is undefined; xdrfile never asks for more than 31 bits, see span_ok.) *)
Theorem c_decodebits_spec : forall r n, rok r -> 0 <= n <= 32 ->
  n <= rb_lastbits r + 8 * Z.of_nat (length (rb_bytes r)) ->
  let '(v, r') := c_decodebits r n in
  rok r' /\ 0 <= v < 2 ^ n /\ rbits r = bits_of (Z.to_nat n) v ++ rbits r'.
Proof.
  intros r n (Hlb & Hl & HB) Hn Hlen. unfold c_decodebits.
  set (lb := rb_lastbits r) in *.
  assert (dinv (rbits r) n lb n 0 r) as I0.
  { exists (rb_lastbyte r), 0.
    split; [lia|]. split; [lia|]. split; [lia|]. split; [lia|]. split; [reflexivity|].
    split; [now rewrite Z.mod_small by lia|]. split; [lia|].
    split; [change (8 * 0) with 0; rewrite Z.pow_0_r, Z.mod_1_r; rewrite Z.mod_0_l by (apply Z.pow_nonzero; lia); reflexivity|].
    split; [reflexivity|]. split; [assumption|fold lb; lia]. }
  pose proof (dec_loop_inv 5 (rbits r) n lb n 0 r Hlb ltac:(lia) I0 ltac:(lia)) as L.
  destruct (c_dec_loop 5 n 0 r) as [[nb num] b1]. destruct L as [(G & j & HG & Hj & Enb & Hnb & Elb & El & Hnum & Hmod & HS & HB1 & Hlen1) Hnb8].
  rewrite !land_mask by lia.
  assert (0 < 2 ^ lb) by (apply Z.pow_pos_nonneg; lia). assert (0 < 2 ^ n) by (apply Z.pow_pos_nonneg; lia).
  set (A := (G / 2 ^ lb) mod 2 ^ (8 * j)) in *.
  destruct (Z.ltb_spec 0 nb) as [Hpos|Hz].
  - (* a last group of nb < 8 bits *)
    assert (0 < 2 ^ nb) by (apply Z.pow_pos_nonneg; lia). assert (0 < 2 ^ (8 * j)) by (apply Z.pow_pos_nonneg; lia).
    assert (0 <= A < 2 ^ (8 * j)) as HA by (subst A; apply Z.mod_pos_bound; lia).
    (* the state after the optional extra byte: ghost G2, lastbits lb2, remaining bytes t *)
    assert (exists G2 lb2 t, 0 <= G2 /\ lb2 - nb >= 0 /\ lb2 - nb < 8 /\ lb2 <= 15 /\ Forall (fun x => 0 <= x < 256) t /\
              (if rb_lastbits b1 <? nb
               then let '(x, t0) := next_byte (rb_bytes b1) in
                    (rb_lastbits b1 + 8, u32 (Z.lor (Z.shiftl (rb_lastbyte b1) 8) x), t0)
               else (rb_lastbits b1, rb_lastbyte b1, rb_bytes b1)) = (lb2, G2 mod 2 ^ 32, t) /\
              bits_of (Z.to_nat lb) G ++ bytes_to_bits (rb_bytes b1) =
                bits_of (Z.to_nat nb) (G2 / 2 ^ (lb2 - nb)) ++ bits_of (Z.to_nat (lb2 - nb)) G2 ++ bytes_to_bits t)
      as (G2 & lb2 & t & HG2 & Hlb2a & Hlb2b & Hlb2c & Ht & Est & Estream).
    { rewrite Elb, El. destruct (Z.ltb_spec lb nb) as [Hlt|Hge].
      - destruct (rb_bytes b1) as [|x t] eqn:Eb; [cbn [length] in Hlen1; lia|].
        inversion HB1 as [|x' t' Hx Ht]; subst x' t'. cbn [next_byte].
        exists (G * 256 + x), (lb + 8), t. rewrite read_byte by assumption.
        repeat split; try lia; try assumption.
        cbn [bytes_to_bits map concat]. fold (bytes_to_bits t). unfold byte_bits. rewrite app_assoc.
        rewrite stream_byte by assumption.
        replace (Z.to_nat lb + 8)%nat with (Z.to_nat nb + Z.to_nat (lb + 8 - nb))%nat by lia.
        rewrite bits_of_split. rewrite Z2Nat.id by lia. now rewrite <- app_assoc.
      - exists G, lb, (rb_bytes b1). repeat split; try lia; try assumption.
        replace (Z.to_nat lb) with (Z.to_nat nb + Z.to_nat (lb - nb))%nat at 1 by lia.
        rewrite bits_of_split. rewrite Z2Nat.id by lia. now rewrite <- app_assoc. }
    rewrite Est. set (lb' := lb2 - nb) in *. rewrite !land_mask by lia.
    assert (0 < 2 ^ lb') by (apply Z.pow_pos_nonneg; lia).
    set (low := (G2 / 2 ^ lb') mod 2 ^ nb).
    assert (Z.shiftr (G2 mod 2 ^ 32) lb' mod 2 ^ nb = low) as Elow.
    { rewrite Z.shiftr_div_pow2 by lia. replace 32 with (lb' + (32 - lb')) at 1 by lia.
      rewrite div_mod_pow2 by lia. apply mod_mod_le. lia. }
    rewrite Elow.
    assert (0 <= low < 2 ^ nb) as Hlow by (subst low; apply Z.mod_pos_bound; lia).
    set (v := Z.lor num low mod 2 ^ n).
    assert (v = A * 2 ^ nb + low) as Ev.
    { subst v. rewrite lor_mod_pow2 by lia. rewrite Hmod. rewrite (Z.mod_small low) by (split; [lia|];
        apply Z.lt_le_trans with (2 ^ nb); [lia|apply Z.pow_le_mono_r; lia]).
      apply lor_low; lia. }
    split; [|split].
    + split; [cbn [rb_lastbits]; lia|]. split; [cbn [rb_lastbyte]; apply Z.mod_pos_bound; lia|exact Ht].
    + subst v. apply Z.mod_pos_bound. lia.
    + rewrite HS. unfold rbits at 1. cbn [rb_lastbits rb_lastbyte rb_bytes].
      rewrite bits_low32 by lia. rewrite Estream.
      replace (Z.to_nat n) with (Z.to_nat (8 * j) + Z.to_nat nb)%nat by lia. rewrite bits_of_split. rewrite Z2Nat.id by lia.
      rewrite <- !app_assoc. f_equal; [|f_equal].
      * apply bits_of_congr. rewrite Z2Nat.id by lia. rewrite Ev. rewrite Z.div_add_l by lia. rewrite (Z.div_small low) by lia.
        rewrite Z.add_0_r. subst A. now rewrite Z.mod_mod by lia.
      * apply bits_of_congr. rewrite Z2Nat.id by lia. rewrite Ev. rewrite Z.add_comm, Z.mod_add by lia.
        subst low. now rewrite Z.mod_mod by lia.
  - (* num_of_bits was a multiple of 8 *)
    assert (nb = 0) as Enb0 by lia. assert (n = 8 * j) as En by lia.
    rewrite Enb0, Z.pow_0_r, Z.mul_1_r in Hmod.
    split; [|split].
    + split; [rewrite Elb; lia|]. split; [rewrite El; apply Z.mod_pos_bound; lia|exact HB1].
    + apply Z.mod_pos_bound. lia.
    + rewrite HS. unfold rbits at 1. rewrite Elb, El. rewrite bits_low32 by lia. f_equal.
      rewrite Hmod. rewrite <- En. apply bits_of_congr. rewrite Z2Nat.id by lia. subst A. rewrite <- En.
      now rewrite Z.mod_mod by lia.
Qed.

(* ... i.e. exactly what the abstract reader [get_bits] returns on the same stream *)
Corollary c_decodebits_get_bits : forall r n, rok r -> 0 <= n <= 32 ->
  n <= rb_lastbits r + 8 * Z.of_nat (length (rb_bytes r)) ->
  get_bits (Z.to_nat n) (rbits r) = Some (fst (c_decodebits r n), rbits (snd (c_decodebits r n))) /\
  rok (snd (c_decodebits r n)).
Proof.
  intros r n Hok Hn Hlen. pose proof (c_decodebits_spec r n Hok Hn Hlen) as S.
  destruct (c_decodebits r n) as [v r']. destruct S as (Hok' & Hv & Hs). cbn [fst snd].
  split; [|exact Hok']. rewrite Hs. apply bits_roundtrip. rewrite Z2Nat.id by lia. exact Hv.
Qed.
