(* Multi-file restart writers (Trajectory.save_amberrst7 / save_netcdfrst): file i holds frame i. *)
From Coq Require Import ZArith Ascii String Bool List Lia.
Import ListNotations.
Require Import MD.Gen.CodecTables MD.Codec.Model.

Section RestartProofs.
  Variables (P T C : Type).
  Notation rfile := (rfile P T C).

  Definition rf_suffix (f : rfile) : option (list ascii) := fst (fst (fst f)).
  Definition rf_frame (f : rfile) : P * T := (snd (fst (fst f)), snd (fst f)).
  Definition rf_cell (f : rfile) : option C := snd f.

  Definition cells_ok (cells : option (list C)) (n : nat) : Prop :=
    match cells with None => True | Some l => length l = n end.

  Definition cell_at (cells : option (list C)) (i : nat) : option C :=
    match cells with None => None | Some l => nth_error l i end.

  Lemma rst_files_fix_spec : forall w t0 cells frames i,
    (forall l, cells = Some l -> (i + length frames <= length l)%nat) ->
    exists files,
      rst_files RstFix false w t0 cells i frames = Some files /\
      map rf_frame files = frames /\
      map rf_cell files = map (cell_at cells) (seq i (length frames)) /\
      map rf_suffix files = map (fun j => Some (zero_pad w (Z.of_nat (S j)))) (seq i (length frames)).
  Proof.
    intros w t0 cells frames. induction frames as [|[p t] r IH]; intros i Hc.
    - exists []. cbn. repeat split.
    - cbn [rst_files].
      assert (exists c, rst_cell C RstFix cells i = Some c /\ c = cell_at cells i) as (c & Ec & Ecc).
      { unfold rst_cell, cell_at. destruct cells as [l|].
        - specialize (Hc l eq_refl). cbn [length] in Hc.
          destruct (nth_error l i) eqn:E.
          + eexists; split; reflexivity.
          + apply nth_error_None in E. lia.
        - eexists; split; reflexivity. }
      rewrite Ec.
      destruct (IH (S i)) as (fs & E1 & E2 & E3 & E4).
      { intros l El. specialize (Hc l El). cbn [length] in Hc. lia. }
      rewrite E1. eexists. split; [reflexivity|]. cbn [map length seq].
      unfold rf_frame at 1, rf_cell at 1, rf_suffix at 1. cbn [fst snd rst_time].
      rewrite E2, E3, E4, Ecc. repeat split.
  Qed.

  (* the repaired writer: at least two frames, cell given for every frame or for none *)
  Theorem restart_indexing_fix : forall cells frames,
    (2 <= length frames)%nat -> cells_ok cells (length frames) ->
    exists files,
      save_restart RstFix false cells frames = Some files /\
      map rf_frame files = frames /\
      map rf_cell files = map (cell_at cells) (seq 0 (length frames)) /\
      map rf_suffix files =
        map (fun j => Some (zero_pad (ndigits (Z.of_nat (length frames))) (Z.of_nat (S j)))) (seq 0 (length frames)).
  Proof.
    intros cells frames Hn Hc. unfold save_restart.
    destruct frames as [|[p0 t0] [|f1 r]]; cbn [length] in Hn; try lia.
    apply rst_files_fix_spec. intros l ->. cbn in Hc. cbn [length]. lia.
  Qed.

  (* single frame: one file without a numeric suffix, for both variants *)
  Theorem restart_single : forall v b (cells : option (list C)) (p : P) (t : T),
    save_restart v b cells [(p, t)] =
      Some [(None, p, t, match cells with Some (c :: _) => Some c | _ => None end)].
  Proof. reflexivity. Qed.
End RestartProofs.

(* today's save_amberrst7: every numbered file carries time[0] *)
Theorem restart_indexing_current_refuted :
  exists (cells : option (list nat)) (frames : list (nat * nat)) files,
    (2 <= length frames)%nat /\ cells_ok nat cells (length frames) /\
    save_restart RstCur true cells frames = Some files /\
    map (rf_frame nat nat nat) files <> frames.
Proof.
  exists (Some [7; 8]%nat), [(0, 10); (1, 11)]%nat. eexists.
  split; [cbn; lia|]. split; [reflexivity|]. split; [vm_compute; reflexivity|].
  vm_compute. discriminate.
Qed.

(* today's save_amberrst7 / save_netcdfrst: a trajectory without unit cell and >= 2 frames is refused
   (lengths[i] on None), although both formats can store a frame without a cell *)
Theorem restart_nocell_current_refuted :
  exists (frames : list (nat * nat)),
    (2 <= length frames)%nat /\ save_restart (C := nat) RstCur false None frames = None.
Proof. exists [(0, 10); (1, 11)]%nat. split; [cbn; lia|reflexivity]. Qed.
