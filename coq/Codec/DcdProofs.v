(* DCD cell block: the reader inverts the writer for angles in (0, 180) degrees; the stored numbers are the
   cosines of the angles.  Over Coq's real numbers (standard axioms of the Reals library). *)
From Coq Require Import Reals Lra List String Bool.
Import ListNotations.
Require Import MD.Codec.DcdModel.
Open Scope R_scope.

Lemma dcd_cos_is_cos : forall a, dcd_cos a = cos (a * PI / 180).
Proof.
  intros a. unfold dcd_cos. replace (PI / 2 / 90 * (90 - a)) with (PI / 2 - a * PI / 180) by field.
  apply sin_shift.
Qed.

Lemma dcd_angle_cos : forall a, 0 < a < 180 -> dcd_angle (dcd_cos a) = a.
Proof.
  intros a Ha. unfold dcd_angle, dcd_cos. pose proof PI_RGT_0 as P.
  rewrite asin_sin.
  - field. lra.
  - assert (PI / 2 / 90 * (90 - a) = PI / 2 - a * (PI / 180)) as -> by field.
    assert (0 < PI / 180) by lra. assert (a * (PI / 180) < 180 * (PI / 180)) by (apply Rmult_lt_compat_r; lra).
    assert (0 < a * (PI / 180)) by (apply Rmult_lt_0_compat; lra).
    assert (180 * (PI / 180) = PI) as E by field. rewrite E in *. lra.
Qed.

Lemma in_unit_sin : forall x, in_unit (sin x) = true.
Proof.
  intros x. unfold in_unit. pose proof (SIN_bound x) as [L U].
  destruct (Rle_dec (-1) (sin x)); [|contradiction]. destruct (Rle_dec (sin x) 1); [reflexivity|contradiction].
Qed.

(* the round trip of the DCD cell block: lengths exactly, angles exactly (over R) on (0, 180) degrees *)
Theorem dcd_cell_angles : forall c,
  0 < calpha c < 180 -> 0 < cbeta c < 180 -> 0 < cgamma c < 180 ->
  dcd_read_cell (dcd_write_cell c) = Some c.
Proof.
  intros [A B C al be ga] Ha Hb Hg. cbn [calpha cbeta cgamma] in *. unfold dcd_write_cell, dcd_read_cell.
  cbn [cA cB cC calpha cbeta cgamma]. unfold dcd_cos at 1 2 3. rewrite !in_unit_sin. cbn [andb].
  fold (dcd_cos ga) (dcd_cos be) (dcd_cos al). rewrite !dcd_angle_cos by assumption. reflexivity.
Qed.

(* what an independent DCD reader finds in slots 1, 3, 4: the cosines of gamma, beta, alpha *)
Theorem dcd_slots_hold_cosines : forall c,
  dcd_write_cell c = [cA c; cos (cgamma c * PI / 180); cB c; cos (cbeta c * PI / 180); cos (calpha c * PI / 180); cC c].
Proof. intros c. unfold dcd_write_cell. now rewrite !dcd_cos_is_cos. Qed.
