(* mdcrd layout (MDCRDTrajectoryFile.write / _read): refutations of the as-found reader, and the
   round trip of the repaired reader. *)
From Coq Require Import ZArith Ascii String Bool List Lia ZifyBool.
Import ListNotations.
Require Import MD.Gen.CodecTables MD.Codec.Model MD.Codec.Proofs.
Open Scope Z_scope.

Definition res_eqb_expected (r : res (list mframe)) (e : list mframe) : Prop := r = Ok e.

(* what a round trip has to return: every frame's quantised numbers (angstrom level: [mdcrd_file_lines]) *)
Definition mdcrd_roundtrip_ok (strict : bool) (hb : hasbox) (n_atoms : nat)
           (frames : list (list dy * option (list dy))) : Prop :=
  exists lines, mdcrd_file_lines frames = Some lines /\
                mdcrd_read strict hb n_atoms lines = Ok (map mdcrd_expect frames).

(* one atom, no box, has_box = "detect": the second frame's coordinate line is taken for a box.
   Holds for today's reader and for the repaired one: the format itself is ambiguous. *)
Definition one_atom_frames : list (list dy * option (list dy)) :=
  [([Dy false 1 0; Dy false 2 0; Dy false 3 0], None); ([Dy false 4 0; Dy false 5 0; Dy false 6 0], None)].

Theorem mdcrd_layout_one_atom_refuted : forall strict,
  exists lines, mdcrd_file_lines one_atom_frames = Some lines /\
    mdcrd_read strict HBdetect 1 lines <> Ok (map mdcrd_expect one_atom_frames) /\
    mdcrd_read strict HBfalse 1 lines = Ok (map mdcrd_expect one_atom_frames).
Proof.
  intros strict. eexists. split; [vm_compute; reflexivity|].
  split; destruct strict; vm_compute; try discriminate; reflexivity.
Qed.

(* two atoms, no box, a coordinate of -100.0 angstrom in a non-first column: today's reader raises ValueError
   on its own file (float("2.000-100.000")), the repaired reader returns the frames *)
Definition wide_field_frames : list (list dy * option (list dy)) :=
  [([Dy false 1 0; Dy true 100 0; Dy false 3 0; Dy false 10 0; Dy false 20 0; Dy false 30 0], None);
   ([Dy false 2 0; Dy true 100 0; Dy false 6 0; Dy false 10 0; Dy false 20 0; Dy false 30 0], None)].

Theorem mdcrd_layout_current_refuted :
  exists lines, mdcrd_file_lines wide_field_frames = Some lines /\
    mdcrd_read_cur HBdetect 2 lines = Er EValue /\
    mdcrd_read_fix HBdetect 2 lines = Ok (map mdcrd_expect wide_field_frames).
Proof. eexists. split; [vm_compute; reflexivity|]. split; vm_compute; reflexivity. Qed.

(* ================================================================== the repaired reader: round trip *)
Definition sp_free (s : list ascii) : Prop := Forall (fun c => Ascii.eqb c sp = false) s.
Definition dots (s : list ascii) : nat := length (filter (fun c => Ascii.eqb c "."%char) s).

Lemma dots_app : forall a b, dots (a ++ b) = (dots a + dots b)%nat.
Proof. intros. unfold dots. rewrite filter_app, app_length. reflexivity. Qed.

Lemma dots_repeat_sp : forall k, dots (repeat sp k) = 0%nat.
Proof. induction k; [reflexivity|]. cbn. exact IHk. Qed.

Lemma digs_no_dots : forall k n, dots (digs k n) = 0%nat /\ sp_free (digs k n).
Proof.
  intros k n. pose proof (digs_all_digits k n) as F. induction F as [|c l Hc F IH]; [split; [reflexivity|constructor]|].
  destruct IH as [IH1 IH2]. destruct (is_digit_not_special c Hc) as (A & B & C).
  split; [unfold dots in *; cbn [filter]; rewrite C; exact IH1|constructor; assumption].
Qed.

(* the text of a number: sign, digits, point, p digits (no spaces inside, exactly one point when p > 0) *)
Lemma body_shape : forall p neg q, 0 <= q -> (1 <= p)%nat ->
  sp_free (body p neg q) /\ dots (body p neg q) = 1%nat /\ body p neg q <> [].
Proof.
  intros p neg q Hq Hp.
  assert (body p neg q <> []) as NE.
  { intro E. apply (f_equal (@length ascii)) in E. rewrite body_length in E. cbn [length] in E.
    destruct (ndigits_spec (q / 10 ^ Z.of_nat p)) as (_ & G & _); [apply Z.div_pos; [lia|apply pow10_pos]|]. lia. }
  split; [|split; [|exact NE]]; unfold body; destruct p as [|p']; try lia.
  - destruct (digs_no_dots (ndigits (q / 10 ^ Z.of_nat (S p'))) (q / 10 ^ Z.of_nat (S p'))) as [D1 S1].
    destruct (digs_no_dots (S p') (q mod 10 ^ Z.of_nat (S p'))) as [D2 S2].
    apply Forall_app. split; [destruct neg; repeat constructor|].
    apply Forall_app. split; [assumption|]. constructor; [reflexivity|assumption].
  - destruct (digs_no_dots (ndigits (q / 10 ^ Z.of_nat (S p'))) (q / 10 ^ Z.of_nat (S p'))) as [D1 S1].
    destruct (digs_no_dots (S p') (q mod 10 ^ Z.of_nat (S p'))) as [D2 S2].
    rewrite !dots_app. rewrite D1. replace (dots (if neg then ["-"%char] else [])) with 0%nat by (destruct neg; reflexivity).
    unfold dots in *. cbn [filter]. change (Ascii.eqb "." ".") with true. cbv iota. cbn [length]. rewrite D2. reflexivity.
Qed.

(* ---------------------------------------------------------------- tokens *)
Lemma split_tok : forall t r cur, sp_free t -> split_ws_aux (t ++ r) cur = split_ws_aux r (rev t ++ cur).
Proof.
  induction t as [|c t IH]; intros r cur H; [reflexivity|]. inversion H as [|c' t' Hc Ht]; subst.
  cbn [app split_ws_aux]. rewrite Hc. rewrite IH by assumption. cbn [rev]. now rewrite <- app_assoc.
Qed.

Lemma split_spaces : forall k r, split_ws_aux (repeat sp k ++ r) [] = split_ws_aux r [].
Proof. induction k; intros r; [reflexivity|]. cbn [repeat app split_ws_aux]. change (Ascii.eqb sp sp) with true. cbv iota. apply IHk. Qed.

(* a padded token followed by a separator / by the end *)
Lemma split_field_sep : forall k t r, sp_free t -> t <> [] ->
  split_ws_aux (repeat sp k ++ t ++ sp :: r) [] = t :: split_ws_aux r [].
Proof.
  intros k t r Hs Hne. rewrite split_spaces, split_tok by assumption. cbn [split_ws_aux].
  change (Ascii.eqb sp sp) with true. cbv iota. rewrite app_nil_r.
  destruct (rev t) eqn:E; [apply (f_equal (@rev ascii)) in E; rewrite rev_involutive in E; cbn in E; congruence|].
  rewrite <- E, rev_involutive. reflexivity.
Qed.

Lemma split_field_end : forall k t, sp_free t -> t <> [] ->
  split_ws_aux (repeat sp k ++ t) [] = [t].
Proof.
  intros k t Hs Hne. rewrite <- (app_nil_r t) at 1. rewrite split_spaces, split_tok by assumption. cbn [split_ws_aux].
  rewrite app_nil_r.
  destruct (rev t) eqn:E; [apply (f_equal (@rev ascii)) in E; rewrite rev_involutive in E; cbn in E; congruence|].
  rewrite <- E, rev_involutive. reflexivity.
Qed.

Lemma py_fmt_split : forall w p x, 0 <= dmag x ->
  py_fmt w p x = repeat sp (w - length (body p (dneg x) (quant p x))) ++ body p (dneg x) (quant p x).
Proof. reflexivity. Qed.

Lemma parse_body0 : forall p neg q, 0 <= q -> parse_num (body p neg q) = Some (neg, q, p).
Proof. intros. apply (parse_body p neg q 0%nat). assumption. Qed.

(* the box line "{:8.3f} {:8.3f} {:8.3f}" splits into its three numbers *)
Lemma box_line_tokens : forall a b c, 0 <= dmag a -> 0 <= dmag b -> 0 <= dmag c ->
  map_opt parse_num (split_ws (mdcrd_box_line [a; b; c])) =
    Some [qnum mdcrd_box_p a; qnum mdcrd_box_p b; qnum mdcrd_box_p c].
Proof.
  intros a b c Ha Hb Hc. unfold mdcrd_box_line, split_ws.
  assert (forall x, 0 <= dmag x -> sp_free (body mdcrd_box_p (dneg x) (quant mdcrd_box_p x)) /\
                                   body mdcrd_box_p (dneg x) (quant mdcrd_box_p x) <> []) as SH.
  { intros x Hx. destruct (body_shape mdcrd_box_p (dneg x) (quant mdcrd_box_p x)) as (A & _ & B);
      [now apply quant_nonneg|unfold mdcrd_box_p; lia|]. now split. }
  rewrite !py_fmt_split by assumption.
  destruct (SH a Ha) as [Sa Na]. destruct (SH b Hb) as [Sb Nb]. destruct (SH c Hc) as [Sc Nc].
  rewrite <- !app_assoc. cbn [app].
  rewrite split_field_sep by assumption. rewrite split_field_sep by assumption. rewrite split_field_end by assumption.
  cbn [map_opt]. rewrite !parse_body0 by (now apply quant_nonneg). reflexivity.
Qed.

(* ---------------------------------------------------------------- counting decimal points *)
Lemma dots_skip_spaces : forall s, dots (skip_spaces s) = dots s.
Proof.
  induction s as [|c s IH]; [reflexivity|]. cbn [skip_spaces].
  destruct (Ascii.eqb_spec c sp) as [->|]; [rewrite IH; reflexivity|reflexivity].
Qed.

Lemma all_spaces_dots : forall s, all_spaces s = true -> dots s = 0%nat.
Proof.
  intros s H. unfold all_spaces in H. rewrite <- dots_skip_spaces. destruct (skip_spaces s); [reflexivity|discriminate].
Qed.

Lemma take_digits_dots : forall s acc cnt a c r, take_digits s acc cnt = (a, c, r) -> dots r = dots s.
Proof.
  induction s as [|x s IH]; intros acc cnt a c r H; cbn [take_digits] in H.
  - injection H as _ _ <-. reflexivity.
  - destruct (is_digit x) eqn:E.
    + rewrite (IH _ _ _ _ _ H). destruct (is_digit_not_special x E) as (_ & _ & D).
      unfold dots. cbn [filter]. now rewrite D.
    + injection H as _ _ <-. reflexivity.
Qed.

Lemma dots_cons : forall c s, dots (c :: s) = ((if Ascii.eqb c "."%char then 1 else 0) + dots s)%nat.
Proof. intros. unfold dots. cbn [filter]. destruct (Ascii.eqb c "."); reflexivity. Qed.

Lemma parse_num_dots : forall t r, parse_num t = Some r -> (dots t <= 1)%nat.
Proof.
  intros t r H. unfold parse_num in H. rewrite <- (dots_skip_spaces t).
  remember (skip_spaces t) as s1. clear Heqs1 t.
  assert (exists neg s2, split_sign s1 = (neg, s2) /\ dots s2 = dots s1) as (neg & s2 & E & D).
  { unfold split_sign. destruct s1 as [|c s]; [eexists _, _; split; reflexivity|].
    destruct (Ascii.eqb_spec c "-"%char) as [->|]; eexists _, _; split; reflexivity. }
  rewrite E in H. rewrite <- D. clear E D s1.
  destruct (take_digits s2 0 0%nat) as [[ip ci] s3] eqn:T. rewrite <- (take_digits_dots _ _ _ _ _ _ T).
  destruct (ci =? 0)%nat; [discriminate|].
  destruct s3 as [|c s]; [cbn; lia|]. rewrite dots_cons.
  destruct (Ascii.eqb c "."%char).
  - destruct (take_digits s ip 0%nat) as [[q cf] s4] eqn:T2. rewrite <- (take_digits_dots _ _ _ _ _ _ T2).
    destruct (all_spaces s4) eqn:A; [|discriminate]. rewrite (all_spaces_dots _ A). lia.
  - destruct (all_spaces (c :: s)) eqn:A; [|discriminate]. pose proof (all_spaces_dots _ A) as Z0.
    rewrite dots_cons in Z0. lia.
Qed.

Lemma dots_concat_split : forall s cur, sp_free cur ->
  dots (concat (split_ws_aux s cur)) = (dots s + dots cur)%nat.
Proof.
  assert (forall l, dots (rev l) = dots l) as RV.
  { induction l as [|a l IHl]; [reflexivity|]. cbn [rev]. rewrite dots_app, IHl, !dots_cons.
    change (dots []) with 0%nat. lia. }
  induction s as [|c s IH]; intros cur Hc; cbn [split_ws_aux].
  - destruct cur; [reflexivity|]. cbn [concat]. rewrite app_nil_r. rewrite RV. reflexivity.
  - destruct (Ascii.eqb_spec c sp) as [->|Hn].
    + rewrite dots_cons. change (Ascii.eqb sp ".") with false. cbv iota.
      destruct cur as [|x cur]; [rewrite IH by constructor; reflexivity|].
      cbn [concat]. rewrite dots_app, RV, IH by constructor. cbn [dots filter length]. lia.
    + rewrite IH by (constructor; [apply Ascii.eqb_neq; assumption|assumption]).
      rewrite !dots_cons. lia.
Qed.

(* ---------------------------------------------------------------- one field, one line *)
(* f is the checked 8.3 field of x *)
Definition is_field (x : dy) (f : list ascii) : Prop := 0 <= dmag x /\ field mdcrd_w mdcrd_p x = Some f.

Lemma field_facts : forall x f, is_field x f ->
  length f = mdcrd_rw /\ parse_num f = Some (qnum mdcrd_p x) /\ dots f = 1%nat /\
  (exists pre c, f = pre ++ [c] /\ Ascii.eqb c sp = false).
Proof.
  intros x f [Hm Hf]. destruct (field_sound _ _ _ _ Hm Hf) as [L P].
  split; [exact L|]. split; [exact P|].
  unfold field in Hf. destruct (length (py_fmt mdcrd_w mdcrd_p x) =? mdcrd_w)%nat; [|discriminate].
  injection Hf as <-. rewrite py_fmt_split by assumption.
  destruct (body_shape mdcrd_p (dneg x) (quant mdcrd_p x)) as (S1 & D1 & N1);
    [now apply quant_nonneg|unfold mdcrd_p; lia|].
  split.
  - rewrite dots_app, dots_repeat_sp, D1. reflexivity.
  - destruct (exists_last N1) as (pre & c & E). exists (repeat sp (mdcrd_w - length (body mdcrd_p (dneg x) (quant mdcrd_p x))) ++ pre), c.
    rewrite E. rewrite <- app_assoc. split; [reflexivity|].
    rewrite E in S1. apply Forall_app in S1. destruct S1 as [_ S1]. now inversion S1.
Qed.

Lemma rstrip_nonspace_end : forall s c, Ascii.eqb c sp = false -> rstrip (s ++ [c]) = s ++ [c].
Proof.
  intros s c H. unfold rstrip. rewrite rev_app_distr. cbn [rev app skip_spaces]. rewrite H.
  cbn [rev]. now rewrite rev_involutive.
Qed.

Lemma firstn_app_len : forall {A} (a b : list A) n, length a = n -> firstn n (a ++ b) = a.
Proof. intros A a b n <-. rewrite firstn_app, Nat.sub_diag, firstn_all. cbn. now rewrite app_nil_r. Qed.

Lemma skipn_app_len : forall {A} (a b : list A) n, length a = n -> skipn n (a ++ b) = b.
Proof. intros A a b n <-. rewrite skipn_app, Nat.sub_diag, skipn_all. reflexivity. Qed.

Lemma col_fields_concat : forall w fs fuel, (1 <= w)%nat -> Forall (fun f => length f = w) fs ->
  (length fs <= fuel)%nat -> col_fields fuel w (concat fs) (w * length fs) = fs.
Proof.
  intros w fs. induction fs as [|f fs IH]; intros fuel Hw HF Hfu.
  - cbn. destruct fuel; [reflexivity|]. rewrite Nat.mul_0_r. reflexivity.
  - inversion HF as [|f' fs' Hf HF']; subst f' fs'. destruct fuel as [|fuel]; [cbn in Hfu; lia|].
    cbn [col_fields concat length].
    destruct (w * S (length fs))%nat eqn:E; [lia|]. rewrite <- E.
    rewrite firstn_app_len, skipn_app_len by assumption.
    replace (w * S (length fs) - w)%nat with (w * length fs)%nat by lia.
    rewrite IH; [reflexivity|assumption|assumption|cbn in Hfu; lia].
Qed.

Lemma map_opt_Forall2 : forall {A B} (f : A -> option B) l r, map_opt f l = Some r -> Forall2 (fun a b => f a = Some b) l r.
Proof.
  induction l as [|a l IH]; intros r H; cbn [map_opt] in H.
  - injection H as <-. constructor.
  - destruct (f a) eqn:E; [|discriminate]. destruct (map_opt f l) eqn:E2; [|discriminate].
    injection H as <-. constructor; [assumption|now apply IH].
Qed.

Lemma Forall2_map_opt : forall {A B} (f : A -> option B) l r, Forall2 (fun a b => f a = Some b) l r -> map_opt f l = Some r.
Proof. induction 1; cbn [map_opt]; [reflexivity|]. now rewrite H, IHForall2. Qed.

(* a written coordinate line is read back as its numbers *)
Lemma line_items_fields : forall xs fs, Forall2 is_field xs fs -> fs <> [] ->
  line_items mdcrd_rw (concat fs) = Some (map (qnum mdcrd_p) xs).
Proof.
  intros xs fs H Hne. unfold line_items.
  assert (Forall (fun f => length f = mdcrd_rw) fs) as HL.
  { clear Hne. induction H; [constructor|constructor; [apply (field_facts _ _ H)|assumption]]. }
  assert (rstrip (concat fs) = concat fs) as ->.
  { destruct (exists_last Hne) as (fs0 & fl & ->). rewrite concat_app. cbn [concat]. rewrite app_nil_r.
    assert (exists x, is_field x fl) as (x & Hx).
    { clear HL Hne. revert xs H. induction fs0 as [|a fs0 IH]; intros xs H; inversion H; subst.
      - eexists; eassumption.
      - eapply IH; eassumption. }
    destruct (field_facts _ _ Hx) as (_ & _ & _ & pre & c & -> & Hc).
    rewrite app_assoc. now apply rstrip_nonspace_end. }
  assert (length (concat fs) = (mdcrd_rw * length fs)%nat) as ->.
  { clear H Hne. induction HL as [|f fs Hf HF IH]; [cbn; lia|]. cbn [concat length]. rewrite app_length, IH, Hf. lia. }
  rewrite col_fields_concat; [|unfold mdcrd_rw; lia|assumption|unfold mdcrd_rw; lia].
  apply Forall2_map_opt. clear HL Hne. induction H; cbn [map]; [constructor|constructor; [apply (field_facts _ _ H)|assumption]].
Qed.

(* ---------------------------------------------------------------- the coordinate lines of one frame *)
Lemma Forall2_firstn : forall {A B} (R : A -> B -> Prop) n l r, Forall2 R l r -> Forall2 R (firstn n l) (firstn n r).
Proof. intros A B R n. induction n; intros l r H; [constructor|]. destruct H; cbn [firstn]; constructor; auto. Qed.

Lemma Forall2_skipn : forall {A B} (R : A -> B -> Prop) n l r, Forall2 R l r -> Forall2 R (skipn n l) (skipn n r).
Proof. intros A B R n. induction n; intros l r H; [exact H|]. destruct H; cbn [skipn]; [constructor|auto]. Qed.

Lemma Forall2_length' : forall {A B} (R : A -> B -> Prop) l r, Forall2 R l r -> length l = length r.
Proof. induction 1; cbn; congruence. Qed.

Lemma read_coords_frame : forall fuel xs fs rest acc,
  Forall2 is_field xs fs -> fs <> [] -> (length fs <= fuel)%nat ->
  mdcrd_read_coords (length fs) (map (@concat ascii) (chunks_fuel fuel mdcrd_per_line fs) ++ rest) acc
  = Ok (Some (acc ++ map (qnum mdcrd_p) xs, rest)).
Proof.
  induction fuel; intros xs fs rest acc H Hne Hfu.
  - destruct fs; [congruence|cbn in Hfu; lia].
  - destruct fs as [|f0 fs0] eqn:Efs; [congruence|]. rewrite <- Efs in *. clear Efs f0 fs0.
    assert (chunks_fuel (S fuel) mdcrd_per_line fs = firstn mdcrd_per_line fs :: chunks_fuel fuel mdcrd_per_line (skipn mdcrd_per_line fs)) as ->
      by (destruct fs; [congruence|reflexivity]).
    cbn [map app mdcrd_read_coords].
    pose proof (Forall2_firstn _ mdcrd_per_line _ _ H) as Hf.
    assert (firstn mdcrd_per_line fs <> []) as Hfne by (destruct fs; [congruence|unfold mdcrd_per_line; cbn; discriminate]).
    rewrite (line_items_fields _ _ Hf Hfne). rewrite map_length.
    pose proof (Forall2_length' _ _ _ H) as HL. rewrite firstn_length, HL.
    assert (1 <= length fs)%nat by (destruct fs; [congruence|cbn; lia]).
    unfold mdcrd_per_line in *.
    destruct (le_lt_dec (length fs) 10) as [Hs|Hl].
    + rewrite Nat.min_r by lia.
      destruct (Nat.eqb_spec (length fs) 0); [lia|]. destruct (Nat.ltb_spec 10 (length fs)); [lia|]. cbn [orb].
      rewrite Nat.ltb_irrefl, Nat.eqb_refl.
      rewrite skipn_all2 by lia. assert (chunks_fuel fuel 10 (@nil (list ascii)) = []) as -> by (destruct fuel; reflexivity).
      cbn [map app]. rewrite firstn_all2 by lia. reflexivity.
    + rewrite Nat.min_l by lia. change ((10 =? 0)%nat || (10 <? 10)%nat) with false. cbv iota.
      destruct (Nat.ltb_spec (length fs) 10); [lia|]. destruct (Nat.eqb_spec (length fs) 10); [lia|].
      replace (length fs - 10)%nat with (length (skipn 10 fs)) by (rewrite skipn_length; lia).
      rewrite (IHfuel (skipn 10 xs) (skipn 10 fs) rest (acc ++ map (qnum mdcrd_p) (firstn 10 xs))).
      * rewrite <- app_assoc, <- map_app, firstn_skipn. reflexivity.
      * now apply Forall2_skipn.
      * intro E. apply (f_equal (@length _)) in E. rewrite skipn_length in E. cbn in E. lia.
      * rewrite skipn_length. lia.
Qed.

(* the first line of a frame with at least two atoms is never taken for a box line *)
Lemma peek_coord_line : forall xs fs r hb,
  Forall2 is_field xs fs -> (4 <= length fs)%nat -> hb <> HBtrue ->
  mdcrd_peek false hb (concat fs :: r) = Ok (None, concat fs :: r).
Proof.
  intros xs fs r hb H Hlen Hhb. unfold mdcrd_peek.
  assert (dots (concat fs) = length fs) as HD.
  { clear Hlen. induction H as [|x f xs fs Hx H IH]; [reflexivity|]. cbn [concat length]. rewrite dots_app, IH.
    destruct (field_facts _ _ Hx) as (_ & _ & D & _). lia. }
  assert (forall toks nums, map_opt parse_num toks = Some nums -> (dots (concat toks) <= length nums)%nat) as HT.
  { induction toks as [|t toks IH]; intros nums E; cbn [map_opt] in E.
    - injection E as <-. cbn. lia.
    - destruct (parse_num t) eqn:P; [|discriminate]. destruct (map_opt parse_num toks) eqn:M; [|discriminate].
      injection E as <-. cbn [concat length]. rewrite dots_app. pose proof (parse_num_dots _ _ P). specialize (IH _ eq_refl). lia. }
  destruct hb; try congruence.
  - reflexivity.
  - destruct (map_opt parse_num (split_ws (concat fs))) as [toks|] eqn:M; [|reflexivity].
    pose proof (HT _ _ M) as B. unfold split_ws in B. rewrite dots_concat_split in B by constructor.
    cbn [dots filter length] in B. rewrite Nat.add_0_r in B.
    destruct (Nat.eqb_spec (length toks) 3); [lia|reflexivity].
Qed.

Lemma peek_eof : forall hb, hb <> HBtrue -> mdcrd_peek false hb [] = Ok (None, []).
Proof. intros hb H. destruct hb; try congruence; reflexivity. Qed.

Lemma peek_box : forall a b c r hb, 0 <= dmag a -> 0 <= dmag b -> 0 <= dmag c -> hb <> HBfalse ->
  mdcrd_peek false hb (mdcrd_box_line [a; b; c] :: r) =
    Ok (Some [qnum mdcrd_box_p a; qnum mdcrd_box_p b; qnum mdcrd_box_p c], r).
Proof.
  intros a b c r hb Ha Hb Hc Hhb. unfold mdcrd_peek. destruct hb; try congruence;
    rewrite box_line_tokens by assumption; reflexivity.
Qed.

(* ---------------------------------------------------------------- whole files *)
Definition aframe := (list dy * option (list dy))%type.

Definition frame_wf (n : nat) (f : aframe) : Prop :=
  length (fst f) = (3 * n)%nat /\ Forall (fun x => 0 <= dmag x) (fst f) /\
  match snd f with
  | Some b => exists a b' c, b = [a; b'; c] /\ 0 <= dmag a /\ 0 <= dmag b' /\ 0 <= dmag c
  | None => True
  end.

Definition has_box (f : aframe) : Prop := snd f <> None.
Definition no_box (f : aframe) : Prop := snd f = None.

Lemma frame_lines_shape : forall n cs box l, frame_wf n (cs, box) -> mdcrd_frame_lines cs box = Some l ->
  exists fs, Forall2 is_field cs fs /\ length fs = (3 * n)%nat /\
    l = map (@concat ascii) (chunks_fuel (length fs) mdcrd_per_line fs) ++
        match box with Some b => [mdcrd_box_line b] | None => [] end.
Proof.
  intros n cs box l (Hlen & Hpos & _) H. unfold mdcrd_frame_lines in H. cbn [fst] in *.
  destruct (map_opt (field mdcrd_w mdcrd_p) cs) as [fs|] eqn:E; [|discriminate]. injection H as <-.
  exists fs. pose proof (map_opt_Forall2 _ _ _ E) as F.
  assert (Forall2 is_field cs fs) as F2.
  { clear E Hlen. induction F as [|x f xs fs' Hx F IH]; [constructor|]. inversion Hpos; subst.
    constructor; [split; assumption|now apply IH]. }
  split; [exact F2|]. split; [rewrite <- (Forall2_length' _ _ _ F2); exact Hlen|reflexivity].
Qed.

Lemma first_line_of_file : forall n f frames lr, (1 <= n)%nat -> frame_wf n f -> mdcrd_file_lines (f :: frames) = Some lr ->
  exists xs fs r, Forall2 is_field xs fs /\ length fs = Nat.min mdcrd_per_line (3 * n) /\ lr = concat fs :: r.
Proof.
  intros n [cs box] frames lr Hn Hwf H. cbn [mdcrd_file_lines] in H.
  destruct (mdcrd_frame_lines cs box) as [l|] eqn:E; [|discriminate].
  destruct (mdcrd_file_lines frames) as [lr'|]; [|discriminate]. injection H as <-.
  destruct (frame_lines_shape n cs box l Hwf E) as (fs & F & L & ->).
  destruct fs as [|f0 fs0] eqn:Efs; [cbn in L; lia|]. rewrite <- Efs in *.
  assert (chunks_fuel (length fs) mdcrd_per_line fs = firstn mdcrd_per_line fs :: chunks_fuel (pred (length fs)) mdcrd_per_line (skipn mdcrd_per_line fs)) as ->
    by (rewrite Efs; reflexivity).
  exists (firstn mdcrd_per_line cs), (firstn mdcrd_per_line fs). eexists.
  split; [now apply Forall2_firstn|]. split; [rewrite firstn_length, L; reflexivity|]. cbn [map app]. reflexivity.
Qed.

Lemma read_frames_ok : forall frames n hb lines fuel,
  (1 <= n)%nat -> Forall (frame_wf n) frames -> mdcrd_file_lines frames = Some lines ->
  ((Forall has_box frames /\ hb <> HBfalse) \/
   (Forall no_box frames /\ hb <> HBtrue /\ (hb = HBdetect -> (2 <= n)%nat))) ->
  (length frames < fuel)%nat ->
  mdcrd_read_frames fuel false hb n lines = Ok (map mdcrd_expect frames).
Proof.
  induction frames as [|[cs box] frames IH]; intros n hb lines fuel Hn Hwf Hl Hbox Hfu.
  - cbn in Hl. injection Hl as <-. destruct fuel; [lia|]. reflexivity.
  - destruct fuel as [|fuel]; [lia|]. inversion Hwf as [|f' fr' Hwf1 Hwfr]; subst f' fr'.
    pose proof Hl as Hl0. cbn [mdcrd_file_lines] in Hl.
    destruct (mdcrd_frame_lines cs box) as [l|] eqn:E; [|discriminate].
    destruct (mdcrd_file_lines frames) as [lr|] eqn:Er; [|discriminate]. injection Hl as <-.
    destruct (frame_lines_shape n cs box l Hwf1 E) as (fs & F & L & ->).
    cbn [mdcrd_read_frames]. rewrite <- L. rewrite <- app_assoc.
    rewrite (read_coords_frame (length fs) cs fs); [|assumption|intro Z0; rewrite Z0 in L; cbn in L; lia|lia].
    cbn [app map mdcrd_expect fst snd].
    assert (length frames < fuel)%nat as Hfu' by (cbn in Hfu; lia).
    destruct Hbox as [(HB & Hhb)|(HB & Hhb & Hdet)]; inversion HB as [|f' fr' HB1 HBr]; subst f' fr'.
    + (* box present *)
      destruct box as [b|]; [|unfold has_box in HB1; cbn in HB1; congruence].
      destruct Hwf1 as (_ & _ & (a & b' & c & -> & Ha & Hb & Hc)). cbn [app].
      rewrite peek_box by assumption.
      rewrite (IH n hb lr fuel Hn Hwfr eq_refl (or_introl (conj HBr Hhb)) Hfu'). reflexivity.
    + (* no box *)
      unfold no_box in HB1. cbn in HB1. subst box. cbn [app].
      assert (mdcrd_peek false hb lr = Ok (None, lr)) as ->.
      { destruct frames as [|f1 frames1].
        - cbn in Er. injection Er as <-. now apply peek_eof.
        - inversion Hwfr as [|f' fr' Hwf2 _]; subst f' fr'.
          destruct (first_line_of_file n f1 frames1 lr Hn Hwf2 Er) as (xs1 & fs1 & r1 & F1 & L1 & ->).
          destruct hb; try congruence; [reflexivity|].
          eapply peek_coord_line; [eassumption| |congruence].
          specialize (Hdet eq_refl). rewrite L1. unfold mdcrd_per_line. lia. }
      rewrite (IH n hb lr fuel Hn Hwfr eq_refl (or_intror (conj HBr (conj Hhb Hdet))) Hfu'). reflexivity.
Qed.

Lemma file_lines_length : forall n frames lines, (1 <= n)%nat -> Forall (frame_wf n) frames ->
  mdcrd_file_lines frames = Some lines -> (length frames <= length lines)%nat.
Proof.
  induction frames as [|[cs box] frames IH]; intros lines Hn Hwf H; [cbn; lia|].
  inversion Hwf as [|f' fr' Hwf1 Hwfr]; subst f' fr'. pose proof H as H0. cbn [mdcrd_file_lines] in H.
  destruct (mdcrd_frame_lines cs box) as [l|] eqn:E; [|discriminate].
  destruct (mdcrd_file_lines frames) as [lr|] eqn:Er; [|discriminate]. injection H as <-.
  destruct (first_line_of_file n (cs, box) frames _ Hn Hwf1 H0) as (xs & fs & r & _ & _ & Heq).
  specialize (IH lr Hn Hwfr eq_refl). rewrite app_length.
  assert (1 <= length l)%nat.
  { destruct l as [|x l']; [|cbn; lia]. cbn [app] in Heq.
    destruct (frame_lines_shape n cs box [] Hwf1 E) as (fs' & _ & L' & E').
    destruct fs' as [|? ?]; [cbn in L'; lia|]. cbn in E'. discriminate E'. }
  cbn [length]. lia.
Qed.

(* The repaired reader returns exactly the quantised numbers of every frame written by the writer:
   with boxes for every atom count (has_box "detect" or True), without boxes for n_atoms >= 2 under "detect"
   and for every atom count when has_box = False is given. *)
Theorem mdcrd_layout : forall n hb frames lines,
  (1 <= n)%nat -> Forall (frame_wf n) frames -> mdcrd_file_lines frames = Some lines ->
  ((Forall has_box frames /\ hb <> HBfalse) \/
   (Forall no_box frames /\ hb <> HBtrue /\ (hb = HBdetect -> (2 <= n)%nat))) ->
  mdcrd_read_fix hb n lines = Ok (map mdcrd_expect frames).
Proof.
  intros n hb frames lines Hn Hwf Hl Hbox. unfold mdcrd_read_fix, mdcrd_read.
  pose proof (file_lines_length n frames lines Hn Hwf Hl).
  rewrite (read_frames_ok frames n hb lines (S (length lines))); try assumption; [|lia].
  assert (boxes_consistent (map mdcrd_expect frames) = true) as ->; [|reflexivity].
  unfold boxes_consistent. apply orb_true_iff.
  destruct Hbox as [(HB & _)|(HB & _)]; [right|left]; apply forallb_forall; intros x Hx;
    apply in_map_iff in Hx; destruct Hx as ([cs box] & <- & Hin); rewrite Forall_forall in HB; specialize (HB _ Hin);
    unfold has_box, no_box in HB; cbn in *; destruct box; congruence.
Qed.

(* ================================================================== xyz / lammpstrj tokens *)
Lemma split_field_any : forall k t r, sp_free t -> t <> [] -> (r = [] \/ exists r', r = sp :: r') ->
  split_ws_aux (repeat sp k ++ t ++ r) [] = t :: split_ws_aux r [].
Proof.
  intros k t r Hs Hne [->|(r' & ->)].
  - rewrite app_nil_r. now rewrite split_field_end.
  - now rewrite split_field_sep.
Qed.

(* " %w.pf %w.pf %w.pf" is read back by str.split() + float() as the three printed numbers *)
Theorem tok_roundtrip : forall w p xyz, (1 <= p)%nat -> Forall (fun x => 0 <= dmag x) xyz ->
  tok_read (tok_coords w p xyz) = Some (map (qnum p) xyz).
Proof.
  intros w p xyz Hp H. unfold tok_read, tok_coords, split_ws.
  induction H as [|x xyz Hx H IH]; [reflexivity|].
  assert (concat (map (fun x0 => sp :: py_fmt w p x0) (x :: xyz)) =
          repeat sp (S (w - length (body p (dneg x) (quant p x)))) ++ body p (dneg x) (quant p x) ++
          concat (map (fun x0 => sp :: py_fmt w p x0) xyz)) as ->.
  { cbn [map concat repeat app]. rewrite py_fmt_split by assumption. now rewrite <- app_assoc. }
  destruct (body_shape p (dneg x) (quant p x)) as (S1 & _ & N1); [now apply quant_nonneg|assumption|].
  rewrite split_field_any; [|assumption|assumption|].
  - cbn [map_opt map]. rewrite parse_body0 by (now apply quant_nonneg). rewrite IH. reflexivity.
  - destruct xyz as [|y r]; [now left|right]. cbn [map concat]. eexists. reflexivity.
Qed.

(* ================================================================== gro coordinate columns *)
Lemma index_from_nodots : forall a r i, dots a = 0%nat ->
  index_from "."%char (a ++ "."%char :: r) i = Some (i + length a)%nat.
Proof.
  induction a as [|c a IH]; intros r i H.
  - cbn [app index_from length]. change (Ascii.eqb "." ".") with true. cbv iota. f_equal. lia.
  - rewrite dots_cons in H. cbn [app index_from length].
    destruct (Ascii.eqb c "."%char); [lia|]. rewrite IH by lia. f_equal. lia.
Qed.

(* decomposition of a checked field around its decimal point *)
Lemma field_split : forall w p x f, (1 <= p)%nat -> 0 <= dmag x -> field w p x = Some f ->
  exists pre frac, f = pre ++ "."%char :: frac /\ dots pre = 0%nat /\ dots frac = 0%nat /\
                   length frac = p /\ (length pre + 1 + p = w)%nat.
Proof.
  intros w p x f Hp Hm Hf. destruct (field_sound _ _ _ _ Hm Hf) as [L _].
  unfold field in Hf. destruct (length (py_fmt w p x) =? w)%nat; [|discriminate]. injection Hf as <-.
  rewrite py_fmt_split in * by assumption. unfold body in *. destruct p as [|p']; [lia|].
  set (ip := quant (S p') x / 10 ^ Z.of_nat (S p')) in *. set (fp := quant (S p') x mod 10 ^ Z.of_nat (S p')) in *.
  set (k := (w - length ((if dneg x then ["-"%char] else []) ++ digs (ndigits ip) ip ++ "."%char :: digs (S p') fp))%nat) in *.
  exists (repeat sp k ++ (if dneg x then ["-"%char] else []) ++ digs (ndigits ip) ip), (digs (S p') fp).
  destruct (digs_no_dots (ndigits ip) ip) as [D1 _]. destruct (digs_no_dots (S p') fp) as [D2 _].
  repeat split.
  - now rewrite <- !app_assoc.
  - rewrite !dots_app, dots_repeat_sp, D1. destruct (dneg x); reflexivity.
  - exact D2.
  - apply digs_length.
  - clearbody k. rewrite !app_length, ?repeat_length in *. cbn [length] in L. rewrite !digs_length in *.
    lia.
Qed.

(* three in-range fields of width p+5 are found again by the reader, which takes the field width from the
   distance between the first two decimal points *)
Theorem gro_cols_roundtrip : forall p x y z fx fy fz, (1 <= p)%nat ->
  0 <= dmag x -> 0 <= dmag y -> 0 <= dmag z ->
  field (p + gro_extra) p x = Some fx -> field (p + gro_extra) p y = Some fy -> field (p + gro_extra) p z = Some fz ->
  gro_coord_cols p [x; y; z] = fx ++ fy ++ fz /\
  gro_read_cols (fx ++ fy ++ fz) = Some [qnum p x; qnum p y; qnum p z].
Proof.
  intros p x y z fx fy fz Hp Hx Hy Hz Ex Ey Ez.
  set (w := (p + gro_extra)%nat) in *.
  destruct (field_sound _ _ _ _ Hx Ex) as [Lx Px]. destruct (field_sound _ _ _ _ Hy Ey) as [Ly Py].
  destruct (field_sound _ _ _ _ Hz Ez) as [Lz Pz].
  split.
  - unfold gro_coord_cols. fold w. cbn [map concat]. rewrite app_nil_r.
    unfold field in Ex, Ey, Ez.
    destruct (length (py_fmt w p x) =? w)%nat; [|discriminate]. destruct (length (py_fmt w p y) =? w)%nat; [|discriminate].
    destruct (length (py_fmt w p z) =? w)%nat; [|discriminate]. congruence.
  - destruct (field_split _ _ _ _ Hp Hx Ex) as (prex & fracx & -> & Dpx & Dfx & Lfx & Lwx).
    destruct (field_split _ _ _ _ Hp Hy Ey) as (prey & fracy & -> & Dpy & Dfy & Lfy & Lwy).
    unfold gro_read_cols.
    rewrite <- !app_assoc. cbn [app]. rewrite index_from_nodots by assumption. cbn [Nat.add].
    assert (skipn (S (length prex)) (prex ++ "."%char :: fracx ++ prey ++ "."%char :: fracy ++ fz)
            = (fracx ++ prey) ++ "."%char :: fracy ++ fz) as ->.
    { change (prex ++ "."%char :: fracx ++ prey ++ "."%char :: fracy ++ fz)
        with (prex ++ ["."%char] ++ (fracx ++ prey ++ "."%char :: fracy ++ fz)).
      rewrite app_assoc. rewrite skipn_app_len by (rewrite app_length; cbn; lia). now rewrite <- app_assoc. }
    rewrite index_from_nodots by (rewrite dots_app; lia).
    replace (S (length prex) + length (fracx ++ prey) - length prex)%nat with w by (rewrite app_length; lia).
    (* put the fields back together and slice *)
    assert (prex ++ "."%char :: fracx ++ prey ++ "."%char :: fracy ++ fz =
            (prex ++ "."%char :: fracx) ++ (prey ++ "."%char :: fracy) ++ fz) as -> by (now rewrite <- !app_assoc).
    cbn [slices]. rewrite firstn_app_len, skipn_app_len by assumption.
    rewrite firstn_app_len, skipn_app_len by assumption.
    rewrite <- Lz at 1. rewrite firstn_all. cbn [map_opt]. now rewrite Px, Py, Pz.
Qed.
