(* mdcrd layout (MDCRDTrajectoryFile.write / _read): refutations of the as-found reader, and the
   round trip of the repaired reader. *)
From Coq Require Import ZArith Ascii String Bool List Lia ZifyBool.
Import ListNotations.
Require Import MD.Gen.CodecTables MD.Codec.Model MD.Codec.Proofs.
Open Scope Z_scope.

Definition res_eqb_expected (r : res (list mframe)) (e : list mframe) : Prop := r = Ok e.

(* what a round trip has to return: every frame's quantised numbers (angstrom level: [mdcrd_file_lines]) *)
Definition mdcrd_roundtrip_ok (strict : bool) (hb : hasbox) (n_atoms : nat)
           (frames : list (list dy * option (list dy))) : Prop :=
  exists lines, mdcrd_file_lines frames = Some lines /\
                mdcrd_read strict hb n_atoms lines = Ok (map mdcrd_expect frames).

(* one atom, no box, has_box = "detect": the second frame's coordinate line is taken for a box.
   Holds for today's reader and for the repaired one: the format itself is ambiguous. *)
Definition one_atom_frames : list (list dy * option (list dy)) :=
  [([Dy false 1 0; Dy false 2 0; Dy false 3 0], None); ([Dy false 4 0; Dy false 5 0; Dy false 6 0], None)].

Theorem mdcrd_layout_one_atom_refuted : forall strict,
  exists lines, mdcrd_file_lines one_atom_frames = Some lines /\
    mdcrd_read strict HBdetect 1 lines <> Ok (map mdcrd_expect one_atom_frames) /\
    mdcrd_read strict HBfalse 1 lines = Ok (map mdcrd_expect one_atom_frames).
Proof.
  intros strict. eexists. split; [vm_compute; reflexivity|].
  split; destruct strict; vm_compute; try discriminate; reflexivity.
Qed.

(* two atoms, no box, a coordinate of -100.0 angstrom in a non-first column: today's reader raises ValueError
   on its own file (float("2.000-100.000")), the repaired reader returns the frames *)
Definition wide_field_frames : list (list dy * option (list dy)) :=
  [([Dy false 1 0; Dy true 100 0; Dy false 3 0; Dy false 10 0; Dy false 20 0; Dy false 30 0], None);
   ([Dy false 2 0; Dy true 100 0; Dy false 6 0; Dy false 10 0; Dy false 20 0; Dy false 30 0], None)].

Theorem mdcrd_layout_current_refuted :
  exists lines, mdcrd_file_lines wide_field_frames = Some lines /\
    mdcrd_read_cur HBdetect 2 lines = Er EValue /\
    mdcrd_read_fix HBdetect 2 lines = Ok (map mdcrd_expect wide_field_frames).
Proof. eexists. split; [vm_compute; reflexivity|]. split; vm_compute; reflexivity. Qed.
