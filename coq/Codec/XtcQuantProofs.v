(* The XTC quantisation xtc_lint (xdrfile.c: lf = x * precision +- 0.5 in single precision, lint = (int) lf):
   |x * prec - lint| <= 1/2 + (|x| * prec + 1) / 2^22, over the rationals Q (no axioms).  The single-precision
   product and the single-precision store of lf are the explicit round-to-nearest-even [rnd32] on dyadic
   rationals of Codec/Model.v (the function the correspondence checks bit for bit), not Flocq. *)
From Coq Require Import ZArith QArith Qabs Qpower Lqa Lia Bool.
Require Import MD.Gen.CodecTables MD.Codec.Model MD.Codec.Proofs MD.Codec.NumProofs MD.Codec.XtcModel.
Open Scope Q_scope.

Definition two : Q := 2 # 1.
(* |x| as a rational *)
Definition absQ (x : dy) : Q := inject_Z (dmag x) * two ^ (dexp x).
Definition dyQ (x : dy) : Q := if dneg x then - absQ x else absQ x.

Lemma two_nz : ~ two == 0.
Proof. unfold two. intro H. discriminate H. Qed.

Lemma two_pow_pos : forall e, 0 < two ^ e.
Proof. intros e. apply Qpower_0_lt. reflexivity. Qed.

Lemma two_pow_Z : forall k, (0 <= k)%Z -> inject_Z (2 ^ k) == two ^ k.
Proof. intros k H. rewrite Zpower_Qpower by assumption. reflexivity. Qed.

Lemma absQ_nonneg : forall x, (0 <= dmag x)%Z -> 0 <= absQ x.
Proof.
  intros x H. unfold absQ. apply Qmult_le_0_compat; [|apply Qlt_le_weak, two_pow_pos].
  change 0 with (inject_Z 0). rewrite <- Zle_Qle. assumption.
Qed.

Lemma Qabs_Zabs : forall z, Qabs (inject_Z z) == inject_Z (Z.abs z).
Proof. intros z. reflexivity. Qed.

(* dnum / dden is |x| *)
Lemma absQ_num_den : forall x, absQ x == inject_Z (dnum x) / inject_Z (dden x).
Proof.
  intros x. unfold absQ, dnum, dden. destruct (Z.leb_spec 0 (dexp x)).
  - rewrite Z.max_l, Z.max_r by lia. rewrite !pow2_eq by lia. change (2 ^ 0)%Z with 1%Z.
    rewrite inject_Z_mult, two_pow_Z by lia. field.
  - rewrite Z.max_r, Z.max_l by lia. rewrite !pow2_eq by lia. change (2 ^ 0)%Z with 1%Z.
    rewrite Z.mul_1_r. rewrite two_pow_Z by lia. rewrite <- (Z.opp_involutive (dexp x)) at 1.
    rewrite Qpower_opp. field. pose proof (two_pow_pos (- dexp x)). lra.
Qed.

(* rnd32 in the normal range: relative error 2^-24, sign kept *)
Lemma rnd32_Q : forall z, (0 <= dmag z)%Z -> (-149 - dexp z <= bitlen (dmag z) - 24)%Z ->
  dneg (rnd32 z) = dneg z /\ (0 <= dmag (rnd32 z))%Z /\
  Qabs (absQ (rnd32 z) - absQ z) <= absQ z / inject_Z (2 ^ 24).
Proof.
  intros z Hm Hn. destruct (rnd32_spec z Hm) as (sh & m' & Hsh & Hm' & E & _ & _ & Hrel).
  specialize (Hrel Hn). rewrite E. cbn [dneg dmag dexp]. split; [reflexivity|]. split; [assumption|].
  unfold absQ. cbn [dmag dexp]. rewrite Qpower_plus by apply two_nz. rewrite <- (two_pow_Z sh) by assumption.
  set (t := two ^ dexp z). assert (0 < t) by apply two_pow_pos.
  assert (inject_Z m' * (t * inject_Z (2 ^ sh)) - inject_Z (dmag z) * t == inject_Z (m' * 2 ^ sh - dmag z) * t) as ->
    by (unfold Zminus; rewrite inject_Z_plus, inject_Z_mult, inject_Z_opp; ring).
  rewrite Qabs_Qmult. rewrite (Qabs_pos t) by lra. rewrite Qabs_Zabs.
  apply Qle_shift_div_l; [reflexivity|].
  assert (inject_Z (Z.abs (m' * 2 ^ sh - dmag z)) * inject_Z (2 ^ 24) <= inject_Z (dmag z)) as B.
  { rewrite <- inject_Z_mult. rewrite <- Zle_Qle. lia. }
  assert (0 <= inject_Z (Z.abs (m' * 2 ^ sh - dmag z))) by (change 0 with (inject_Z 0); rewrite <- Zle_Qle; lia).
  nra.
Qed.

Lemma absQ_add_half : forall p, (0 <= dmag p)%Z ->
  absQ (add_half p) == absQ p + (1 # 2) /\ dneg (add_half p) = dneg p /\ (0 <= dmag (add_half p))%Z /\
  (-149 - dexp (add_half p) <= bitlen (dmag (add_half p)) - 24)%Z.
Proof.
  intros p Hm. unfold add_half. destruct (Z.leb_spec 0 (dexp p)) as [He|He].
  - cbn [dneg dmag dexp]. rewrite pow2_eq by assumption.
    assert (0 < 2 ^ dexp p)%Z by (apply Z.pow_pos_nonneg; lia).
    split; [|split; [reflexivity|split; [nia|]]].
    + unfold absQ. cbn [dmag dexp]. rewrite inject_Z_plus, !inject_Z_mult, two_pow_Z by assumption.
      change (two ^ (-1)) with (1 # 2). change (inject_Z 2) with two. change (inject_Z 1) with 1. unfold two. field.
    + assert (1 <= 2 * dmag p * 2 ^ dexp p + 1)%Z by nia.
      unfold bitlen. destruct (Z.leb_spec (2 * dmag p * 2 ^ dexp p + 1) 0); [lia|].
      pose proof (Z.log2_nonneg (2 * dmag p * 2 ^ dexp p + 1)). lia.
  - cbn [dneg dmag dexp]. rewrite pow2_eq by lia.
    assert (0 < 2 ^ (- dexp p - 1))%Z by (apply Z.pow_pos_nonneg; lia).
    split; [|split; [reflexivity|split; [lia|]]].
    + unfold absQ. cbn [dmag dexp]. rewrite inject_Z_plus, two_pow_Z by lia.
      assert (two ^ (- dexp p - 1) * two ^ dexp p == (1 # 2)) as K.
      { rewrite <- Qpower_plus by apply two_nz. replace (- dexp p - 1 + dexp p)%Z with (-1)%Z by lia. reflexivity. }
      rewrite Qmult_plus_distr_l. rewrite K. reflexivity.
    + assert (2 ^ (- dexp p - 1) <= dmag p + 2 ^ (- dexp p - 1))%Z by lia.
      unfold bitlen. destruct (Z.leb_spec (dmag p + 2 ^ (- dexp p - 1)) 0); [lia|].
      assert (- dexp p - 1 <= Z.log2 (dmag p + 2 ^ (- dexp p - 1)))%Z by (apply Z.log2_le_pow2; lia). lia.
Qed.

Lemma floor_Q : forall s, (0 <= dmag s)%Z ->
  inject_Z (dnum s / dden s) <= absQ s /\ absQ s < inject_Z (dnum s / dden s) + 1.
Proof.
  intros s Hm. rewrite absQ_num_den. pose proof (dden_pos s) as Dp. pose proof (dnum_nonneg s Hm) as Np.
  assert (0 < inject_Z (dden s)) as DQ by (change 0 with (inject_Z 0); rewrite <- Zlt_Qlt; assumption).
  pose proof (Z.div_mod (dnum s) (dden s) ltac:(lia)) as DM. pose proof (Z.mod_pos_bound (dnum s) (dden s) Dp) as MB.
  split.
  - apply Qle_shift_div_l; [assumption|]. rewrite <- inject_Z_mult, <- Zle_Qle. nia.
  - apply Qlt_shift_div_r; [assumption|]. change 1 with (inject_Z 1). rewrite <- inject_Z_plus, <- inject_Z_mult, <- Zlt_Qlt. nia.
Qed.

(* the product x * precision is a normal float32 (or x is zero) *)
Definition xtc_normal (x : dy) : Prop :=
  dmag x = 0%Z \/ (-149 - dexp x <= bitlen (dmag x * xtc_prec) - 24)%Z.

Theorem xtc_quantise_error : forall x, (0 <= dmag x)%Z -> xtc_normal x ->
  Qabs (inject_Z xtc_prec * dyQ x - inject_Z (xtc_lint x)) <=
    (1 # 2) + (inject_Z xtc_prec * Qabs (dyQ x) + 1) / inject_Z (2 ^ 22).
Proof.
  intros x Hm Hn. unfold xtc_lint.
  set (z := dscale xtc_prec x). assert (0 <= dmag z)%Z as Hz by (subst z; cbn; unfold xtc_prec; lia).
  assert (absQ z == inject_Z xtc_prec * absQ x) as Ez
    by (subst z; unfold absQ; cbn [dscale dmag dexp]; rewrite inject_Z_mult; ring).
  assert (Qabs (dyQ x) == absQ x) as EA.
  { unfold dyQ. pose proof (absQ_nonneg x Hm). destruct (dneg x); [rewrite Qabs_opp|]; apply Qabs_pos; assumption. }
  rewrite EA. set (A := inject_Z xtc_prec * absQ x) in *.
  assert (0 <= A) as HA by (rewrite <- Ez; now apply absQ_nonneg).
  (* p = float(x * prec) *)
  set (p := rnd32 z).
  assert (dneg p = dneg x /\ (0 <= dmag p)%Z /\ Qabs (absQ p - A) <= A / inject_Z (2 ^ 24) /\ (dmag x = 0%Z -> dmag p = 0%Z))
    as (Sp & Hp & Ep & Zp).
  { destruct Hn as [Z0|Hn].
    - assert (dneg p = dneg x /\ dmag p = 0%Z) as [Sp0 Mp0].
      { subst p z. unfold rnd32. cbn [dscale dneg dmag dexp]. rewrite Z0. rewrite Z.mul_0_l.
        set (sh := Z.max (bitlen 0 - 24) (-149 - dexp x)).
        destruct (Z.leb_spec sh 0) as [|Hgt]; cbn [dscale dneg dmag]; [rewrite ?Z0; split; [reflexivity|lia]|split; [reflexivity|]].
        assert (0 < pow2 sh)%Z by (apply pow2_pos; lia).
        replace 0%Z with (0 * pow2 sh)%Z at 1 by lia. now apply rnd_hev_exact. }
      assert (A == 0) as A0 by (subst A; unfold absQ; rewrite Z0; ring).
      split; [exact Sp0|]. split; [lia|]. split; [|intros _; exact Mp0].
      rewrite A0. unfold absQ. rewrite Mp0. rewrite Qmult_0_l. unfold Qminus, Qdiv. rewrite Qmult_0_l. cbn. apply Qle_refl.
    - destruct (rnd32_Q z Hz) as (S1 & S2 & S3); [subst z; cbn [dscale dmag dexp]; exact Hn|].
      subst p. rewrite S1. subst z. cbn [dscale dneg]. repeat split; try assumption.
      + rewrite <- Ez. exact S3.
      + intros Z0. destruct (rnd32_spec (dscale xtc_prec x) Hz) as (sh & m' & Hsh & _ & E & _ & _ & Hrel).
        specialize (Hrel Hn). rewrite E. cbn [dmag dscale] in *. rewrite Z0 in Hrel. rewrite Z.mul_0_l, Z.sub_0_r in Hrel.
        assert (0 < 2 ^ sh)%Z by (apply Z.pow_pos_nonneg; lia).
        assert (m' * 2 ^ sh = 0)%Z as M0 by lia. apply Z.mul_eq_0 in M0. lia. }
  set (p' := if dneg p && (dmag p =? 0)%Z then Dy false 0 0 else p).
  assert ((0 <= dmag p')%Z /\ absQ p' == absQ p /\ (dneg p' = dneg p \/ dmag p = 0%Z)) as (Hp' & Ep' & Sp').
  { subst p'. destruct (dneg p && (dmag p =? 0)%Z) eqn:B.
    - apply andb_true_iff in B. destruct B as [_ B]. apply Z.eqb_eq in B. cbn [dmag dneg].
      split; [lia|]. split; [unfold absQ; cbn [dmag dexp]; rewrite B; ring|now right].
    - split; [assumption|]. split; [reflexivity|now left]. }
  destruct (absQ_add_half p' Hp') as (Ea & Sa & Ha & Na).
  set (a := add_half p') in *.
  destruct (rnd32_Q a Ha Na) as (Ss & Hs & Es).
  set (s := rnd32 a) in *.
  destruct (floor_Q s Hs) as (F1 & F2).
  set (t := (dnum s / dden s)%Z) in *.
  assert (0 < inject_Z (2 ^ 24)) as P24 by reflexivity. assert (0 < inject_Z (2 ^ 22)) as P22 by reflexivity.
  (* |t - A| <= 1/2 + (A + 1) / 2^22, linear arithmetic over Q *)
  rewrite Ea, Ep' in Es.
  apply Qabs_diff_Qle_condition in Ep. apply Qabs_diff_Qle_condition in Es.
  assert (A / inject_Z (2 ^ 24) == A * (1 # 16777216)) as D1 by (change (inject_Z (2 ^ 24)) with (16777216 # 1); field).
  assert ((absQ p + (1 # 2)) / inject_Z (2 ^ 24) == (absQ p + (1 # 2)) * (1 # 16777216)) as D2
    by (change (inject_Z (2 ^ 24)) with (16777216 # 1); field).
  assert ((A + 1) / inject_Z (2 ^ 22) == (A + 1) * (1 # 4194304)) as D3 by (change (inject_Z (2 ^ 22)) with (4194304 # 1); field).
  rewrite D1 in Ep. rewrite D2 in Es. rewrite D3.
  assert (Qabs (A - inject_Z t) <= (1 # 2) + (A + 1) * (1 # 4194304)) as CORE.
  { apply Qabs_Qle_condition. split; lra. }
  (* signs *)
  assert (dneg s = dneg p') as S1 by (rewrite Ss; exact Sa).
  unfold dyQ. fold A.
  destruct (dneg x) eqn:Nx.
  - destruct Sp' as [Sp'|Zp'].
    + rewrite S1, Sp', Sp.
      assert (inject_Z xtc_prec * - absQ x - inject_Z (- t) == - (A - inject_Z t)) as -> by (rewrite inject_Z_opp; subst A; ring).
      rewrite Qabs_opp. exact CORE.
    + (* x = -0 or rounds to zero: impossible to round a normal nonzero to zero, so x is zero *)
      assert (A == absQ p \/ True) by now right.
      destruct (dneg s).
      * assert (inject_Z xtc_prec * - absQ x - inject_Z (- t) == - (A - inject_Z t)) as -> by (rewrite inject_Z_opp; subst A; ring).
        rewrite Qabs_opp. exact CORE.
      * (* p is zero, hence A is (relative error) zero *)
        assert (absQ p == 0) as P0 by (unfold absQ; rewrite Zp'; ring).
        rewrite P0 in Ep. assert (A == 0) as A0 by lra.
        assert (inject_Z xtc_prec * - absQ x - inject_Z t == - (A + inject_Z t)) as -> by (subst A; ring).
        rewrite Qabs_opp. rewrite A0 in *. apply Qabs_Qle_condition. apply Qabs_Qle_condition in CORE. split; lra.
  - destruct Sp' as [Sp'|Zp'].
    + rewrite S1, Sp', Sp. exact CORE.
    + assert (dneg p = false) as Np0 by (rewrite Sp; reflexivity).
      assert (dneg p' = false) as Np'.
      { subst p'. rewrite Np0. cbn [andb]. exact Np0. }
      rewrite S1, Np'. exact CORE.
Qed.
