(* float32 rounding of the unit conversion (rnd32, f32_mul) and _format_83 (C01). *)
From Coq Require Import ZArith Ascii String Bool List Lia ZifyBool.
Import ListNotations.
Require Import MD.Gen.CodecTables MD.Codec.Model MD.Codec.Proofs.
Open Scope Z_scope.

Ltac Zify.zify_post_hook ::= Z.to_euclidean_division_equations.

(* rnd32 x = m' * 2^(e + sh): nearest multiple of 2^sh, and within 2^-24 of x (relative) in the normal range *)
Theorem rnd32_spec : forall x, 0 <= dmag x ->
  exists sh m', 0 <= sh /\ 0 <= m' /\ rnd32 x = Dy (dneg x) m' (dexp x + sh) /\
    2 * Z.abs (m' * 2 ^ sh - dmag x) <= 2 ^ sh /\
    (sh = 0 -> m' = dmag x) /\
    (-149 - dexp x <= bitlen (dmag x) - 24 -> 2 ^ 24 * Z.abs (m' * 2 ^ sh - dmag x) <= dmag x).
Proof.
  intros x Hm. unfold rnd32.
  set (sh := Z.max (bitlen (dmag x) - 24) (-149 - dexp x)).
  destruct (Z.leb_spec sh 0) as [Hle|Hgt].
  - exists 0, (dmag x). rewrite Z.add_0_r, Z.pow_0_r, Z.mul_1_r, Z.sub_diag. cbn [Z.abs].
    destruct x as [n m e]; cbn [dneg dmag dexp] in *. repeat split; try lia.
  - exists sh, (rnd_hev (dmag x) (pow2 sh)). rewrite pow2_eq by lia.
    assert (0 < 2 ^ sh) as Hp by (apply Z.pow_pos_nonneg; lia).
    pose proof (rnd_hev_error (dmag x) (2 ^ sh) Hp) as E.
    pose proof (rnd_hev_nonneg (dmag x) (2 ^ sh) Hp Hm) as N.
    repeat split; try lia.
    intros Hnorm. assert (sh = bitlen (dmag x) - 24) as Esh by lia.
    unfold bitlen in Esh. destruct (Z.leb_spec (dmag x) 0) as [|Hpos]; [lia|].
    pose proof (Z.log2_spec (dmag x) Hpos) as [L _].
    assert (Z.log2 (dmag x) = sh + 23) as EL by lia. rewrite EL in L.
    assert (2 ^ sh = 2 ^ (sh - 1) * 2) as E2
      by (rewrite <- (Z.pow_1_r 2) at 3; rewrite <- Z.pow_add_r by lia; f_equal; lia).
    assert (2 ^ (sh + 23) = 2 ^ (sh - 1) * 2 ^ 24) as E3 by (rewrite <- Z.pow_add_r by lia; f_equal; lia).
    rewrite E3 in L. rewrite !E2 in E. rewrite !E2.
    remember (2 ^ (sh - 1)) as a. remember (Z.abs (rnd_hev (dmag x) (a * 2) * (a * 2) - dmag x)) as r.
    assert (r <= a) by lia.
    change (2 ^ 24) with 16777216 in *. lia.
Qed.

(* in_units_of(xyz, "nanometers", "angstroms") on a float32 array: the stored number is k*x up to a relative
   2^-24, exactly k*x when no bits are lost; the sign is kept *)
Theorem unit_scaling_error : forall k x, 0 < k -> 0 <= dmag x ->
  exists sh m', 0 <= sh /\ f32_mul k x = Dy (dneg x) m' (dexp x + sh) /\
    2 * Z.abs (m' * 2 ^ sh - k * dmag x) <= 2 ^ sh /\
    (-149 - dexp x <= bitlen (dmag x * k) - 24 -> 2 ^ 24 * Z.abs (m' * 2 ^ sh - k * dmag x) <= k * dmag x).
Proof.
  intros k x Hk Hm. unfold f32_mul.
  destruct (rnd32_spec (dscale k x)) as (sh & m' & H1 & H2 & H3 & H4 & H5 & H6); [cbn; nia|].
  cbn [dscale dneg dmag dexp] in *. exists sh, m'. replace (k * dmag x) with (dmag x * k) by lia. auto.
Qed.

(* ------------------------------------------------------------------ _format_83 *)
Lemma digs_firstn : forall e k n, firstn k (digs (k + e) n) = digs k (n / 10 ^ Z.of_nat e).
Proof.
  induction e; intros k n.
  - rewrite Nat.add_0_r, Z.pow_0_r, Z.div_1_r. rewrite <- (digs_length k n) at 1. apply firstn_all.
  - replace (k + S e)%nat with (S (k + e)) by lia. rewrite digs_S.
    rewrite firstn_app. rewrite digs_length. replace (k - (k + e))%nat with 0%nat by lia. rewrite firstn_O, app_nil_r.
    rewrite IHe. f_equal. rewrite Nat2Z.inj_succ, Z.pow_succ_r by lia.
    rewrite Z.div_div by (try lia; apply pow10_pos). reflexivity.
Qed.

Lemma parse_body_dot : forall neg ip, 0 <= ip ->
  parse_num (body 0 neg ip ++ ["."%char]) = Some (neg, ip, 0%nat).
Proof.
  intros neg ip Hip. unfold parse_num, body. rewrite Z.pow_0_r, Z.div_1_r. cbn [app].
  destruct (ndigits_spec ip Hip) as (Hlt & Hge & _).
  destruct (ndigits ip) as [|kd] eqn:Ek; [lia|].
  destruct (digs_head kd ip) as (c & r & Hd & Hc).
  destruct (is_digit_not_special c Hc) as (Hsp & Hmi & Hdot).
  assert (split_sign (skip_spaces ((if neg then ["-"%char] else []) ++ digs (S kd) ip ++ [] ++ ["."%char]))
          = (neg, digs (S kd) ip ++ ["."%char])) as SS.
  { destruct neg; cbn [app].
    - rewrite skip_spaces_nonspace by reflexivity. reflexivity.
    - rewrite Hd. cbn [app]. rewrite skip_spaces_nonspace by assumption. unfold split_sign. now rewrite Hmi. }
  rewrite app_nil_r in *. rewrite <- app_assoc. cbn [app] in *. rewrite SS.
  rewrite take_digits_digs. rewrite Z.mod_small by lia. cbn [take_digits].
  change (is_digit ".") with false. cbv iota. cbn [Nat.add Nat.eqb].
  change (Ascii.eqb "." ".") with true. cbv iota. cbn [take_digits all_spaces skip_spaces].
  replace (0 * 10 ^ Z.of_nat (S kd) + ip) with ip by lia. reflexivity.
Qed.

Lemma quant_le : forall x C, 0 <= dmag x -> dnum x * 1000 <= C * dden x -> quant 3 x <= C.
Proof.
  intros x C Hm H. unfold quant. change (10 ^ Z.of_nat 3) with 1000.
  rewrite <- (rnd_hev_exact C (dden x) (dden_pos x)). apply rnd_hev_mono; [apply dden_pos|assumption].
Qed.

Lemma firstn_app_short : forall {A} (a b : list A) n, (n <= length a)%nat -> firstn n (a ++ b) = firstn n a.
Proof. intros A a b n H. rewrite firstn_app. replace (n - length a)%nat with 0%nat by lia. now rewrite firstn_O, app_nil_r. Qed.

(* shape of "%8.3f" once it is wider than 8: no padding *)
Lemma py_fmt_wide : forall w p x, (w <= length (body p (dneg x) (quant p x)))%nat ->
  py_fmt w p x = body p (dneg x) (quant p x).
Proof.
  intros w p x H. unfold py_fmt, pad.
  replace (w - length (body p (dneg x) (quant p x)))%nat with 0%nat by lia. reflexivity.
Qed.

Lemma body_cut : forall (neg : bool) (q : Z) (e : nat), 0 <= q -> (1 <= e <= 2)%nat ->
  let pre := (if neg then ["-"%char] else []) ++ digs (ndigits (q / 1000)) (q / 1000) in
  length pre = (4 + e)%nat ->
  firstn 8 (body 3 neg q) = body (3 - e) neg (q / 10 ^ Z.of_nat e).
Proof.
  intros neg q e Hq He pre Hlen. unfold body. change (10 ^ Z.of_nat 3) with 1000. fold pre.
  assert (0 < 10 ^ Z.of_nat e) as P by apply pow10_pos.
  assert (0 < 10 ^ Z.of_nat (3 - e)) as P' by apply pow10_pos.
  assert (10 ^ Z.of_nat (3 - e) * 10 ^ Z.of_nat e = 1000) as PP.
  { rewrite <- Z.pow_add_r by lia. replace (Z.of_nat (3 - e) + Z.of_nat e) with 3 by lia. reflexivity. }
  assert (q / 10 ^ Z.of_nat e / 10 ^ Z.of_nat (3 - e) = q / 1000) as ->.
  { rewrite Z.div_div by lia. rewrite Z.mul_comm, PP. reflexivity. }
  destruct (3 - e)%nat as [|k] eqn:Ek; [lia|]. rewrite <- Ek in *.
  rewrite !app_assoc. fold pre.
  rewrite firstn_app. rewrite Hlen. replace (8 - (4 + e))%nat with (S (3 - e)) by lia.
  rewrite firstn_all2 by lia. cbn [firstn]. f_equal. f_equal.
  replace (digs 3 (q mod 1000)) with (digs ((3 - e) + e) (q mod 1000)) by (f_equal; lia).
  rewrite digs_firstn. f_equal.
  (* (q mod 1000) / 10^e = (q / 10^e) mod 10^(3-e) *)
  rewrite <- PP at 1. rewrite Z.mul_comm. rewrite Z.rem_mul_r by lia.
  rewrite Z.mul_comm, Z.div_add by lia. rewrite Z.div_small by (apply Z.mod_pos_bound; lia). lia.
Qed.

Lemma body3_length : forall neg q,
  length (body 3 neg q) = (sign_len neg + ndigits (q / 1000) + 4)%nat.
Proof. intros. rewrite body_length. reflexivity. Qed.

Lemma pre_length : forall (neg : bool) ip,
  length ((if neg then ["-"%char] else []) ++ digs (ndigits ip) ip) = (sign_len neg + ndigits ip)%nat.
Proof. intros. rewrite app_length, digs_length. destruct neg; reflexivity. Qed.

(* _format_83: the field always has 8 characters, a reader gets the sign and the digits that survive the
   cut ([f83_kept] decimals, truncated from the correctly rounded 3-decimal value), never anything else *)
Theorem format_83_sound : forall x s, 0 <= dmag x -> format_83 x = Some s ->
  length s = 8%nat /\ parse_num s = Some (f83_num x) /\ (f83_kept x <= 3)%nat /\
  let d := 10 ^ Z.of_nat (3 - f83_kept x) in
  let q' := quant 3 x / d in
  q' * d <= quant 3 x < (q' + 1) * d.
Proof.
  intros x s Hm H.
  pose proof (quant_nonneg 3 x Hm) as Hq.
  assert (forall d, 0 < d -> quant 3 x / d * d <= quant 3 x < (quant 3 x / d + 1) * d) as DIV by (intros; lia).
  assert ((f83_kept x <= 3)%nat) as HK by (unfold f83_kept, pdb_p; lia).
  split; [|split; [|split; [exact HK|cbv zeta; apply DIV, pow10_pos]]].
  - (* width *)
    unfold format_83, pdb_w, pdb_p, f83_cut in H.
    destruct (gt_q x f83_lo1_num f83_lo1_den && lt_q x f83_hi1_num f83_hi1_den) eqn:B1.
    + injection H as <-.
      apply andb_true_iff in B1. destruct B1 as [G L]. unfold gt_q, lt_q, f83_lo1_num, f83_lo1_den, f83_hi1_num, f83_hi1_den, snum in *.
      pose proof (dden_pos x) as Dp. pose proof (dnum_nonneg x Hm) as Np.
      apply fmt_width_in_range; [assumption| |]; destruct (dneg x); cbn [int_room sign_len frac_len Nat.sub Nat.add]; try lia.
      * assert (quant 3 x <= 999999) by (apply quant_le; [assumption|lia]). change (10 ^ Z.of_nat 6) with 1000000. lia.
      * assert (quant 3 x <= 9999999) by (apply quant_le; [assumption|lia]). change (10 ^ Z.of_nat 7) with 10000000. lia.
    + destruct (gt_q x f83_lo2_num f83_lo2_den && lt_q x f83_hi2_num f83_hi2_den); [|discriminate].
      assert (s = firstn 8 (py_fmt 8 3 x)) as -> by congruence. rewrite firstn_length. unfold py_fmt. rewrite pad_length. lia.
  - (* what a reader parses *)
    unfold format_83, pdb_w, pdb_p, f83_cut in H. unfold f83_num, f83_kept, pdb_w, pdb_p, f83_cut.
    destruct (gt_q x f83_lo1_num f83_lo1_den && lt_q x f83_hi1_num f83_hi1_den) eqn:B1.
    + injection H as <-.
      apply andb_true_iff in B1. destruct B1 as [G L]. unfold gt_q, lt_q, f83_lo1_num, f83_lo1_den, f83_hi1_num, f83_hi1_den, snum in *.
      pose proof (dden_pos x) as Dp. pose proof (dnum_nonneg x Hm) as Np.
      assert (length (py_fmt 8 3 x) = 8%nat) as ->.
      { apply fmt_width_in_range; [assumption| |]; destruct (dneg x); cbn [int_room sign_len frac_len Nat.sub Nat.add]; try lia.
        * assert (quant 3 x <= 999999) by (apply quant_le; [assumption|lia]). change (10 ^ Z.of_nat 6) with 1000000. lia.
        * assert (quant 3 x <= 9999999) by (apply quant_le; [assumption|lia]). change (10 ^ Z.of_nat 7) with 10000000. lia. }
      cbn [Nat.sub Nat.min]. rewrite Z.pow_0_r, Z.div_1_r. now apply fmt_parse_roundtrip.
    + destruct (gt_q x f83_lo2_num f83_lo2_den && lt_q x f83_hi2_num f83_hi2_den) eqn:B2; [|discriminate].
      assert (s = firstn 8 (py_fmt 8 3 x)) as -> by congruence. clear H.
      apply andb_true_iff in B2. destruct B2 as [G L]. unfold gt_q, lt_q, f83_lo2_num, f83_lo2_den, f83_hi2_num, f83_hi2_den, snum in *.
      pose proof (dden_pos x) as Dp. pose proof (dnum_nonneg x Hm) as Np.
      set (q := quant 3 x) in *. set (neg := dneg x) in *.
      assert (0 <= q / 1000) as Hip by (apply Z.div_pos; lia).
      (* integer digits: at most 8 characters with the sign *)
      assert (sign_len neg + ndigits (q / 1000) <= 8)%nat as Hpre.
      { destruct neg eqn:En; cbn [sign_len].
        - assert (q <= 9999999000) by (apply quant_le; [assumption|lia]).
          assert (ndigits (q / 1000) <= 7)%nat by (apply ndigits_le; [assumption|lia|change (10 ^ Z.of_nat 7) with 10000000; lia]). lia.
        - assert (q <= 99999999000) by (apply quant_le; [assumption|lia]).
          assert (ndigits (q / 1000) <= 8)%nat by (apply ndigits_le; [assumption|lia|change (10 ^ Z.of_nat 8) with 100000000; lia]). lia. }
      destruct (ndigits_spec (q / 1000) Hip) as (_ & Hnd1 & _).
      pose proof (body3_length neg q) as BL.
      destruct (le_lt_dec (length (body 3 neg q)) 8) as [Hshort|Hlong].
      * (* the text fits: nothing is cut *)
        assert (length (py_fmt 8 3 x) = 8%nat) as E8 by (unfold py_fmt; rewrite pad_length; fold q neg; lia).
        rewrite E8. rewrite <- E8 at 1. rewrite firstn_all. cbn [Nat.sub Nat.min]. rewrite Z.pow_0_r, Z.div_1_r.
        now apply fmt_parse_roundtrip.
      * rewrite py_fmt_wide by (fold q neg; lia). fold q neg.
        set (e := (length (body 3 neg q) - 8)%nat). assert (1 <= e <= 4)%nat as He by (subst e; lia).
        replace (3 - Nat.min 3 e)%nat with (3 - e)%nat by lia.
        replace (3 - (3 - e))%nat with (Nat.min 3 e) by lia.
        pose proof (pre_length neg (q / 1000)) as PL.
        destruct (le_lt_dec e 2) as [He2|He3].
        -- rewrite (body_cut neg q e Hq ltac:(lia)) by (rewrite PL; lia).
           rewrite Nat.min_r by lia. apply (parse_body _ _ _ 0%nat). apply Z.div_pos; [lia|apply pow10_pos].
        -- rewrite Nat.min_l by lia. change (10 ^ Z.of_nat 3) with 1000. replace (3 - e)%nat with 0%nat by lia.
           unfold body at 1. change (10 ^ Z.of_nat 3) with 1000.
           rewrite app_assoc.
           assert (body 0 neg (q / 1000) = (if neg then ["-"%char] else []) ++ digs (ndigits (q / 1000)) (q / 1000)) as B0.
           { unfold body. rewrite Z.pow_0_r, Z.div_1_r. now rewrite app_nil_r. }
           rewrite <- B0. assert (length (body 0 neg (q / 1000)) = (4 + e)%nat) as LB by (rewrite B0, PL; lia).
           destruct (Nat.eq_dec e 3) as [->|Ne].
           ++ rewrite firstn_app. rewrite LB. cbn [Nat.sub Nat.add]. rewrite firstn_all2 by lia.
              cbn [firstn]. now apply parse_body_dot.
           ++ assert (e = 4%nat) as -> by lia. rewrite firstn_app_short by lia.
              rewrite firstn_all2 by lia. now apply (parse_body _ _ _ 0%nat).
Qed.

(* ------------------------------------------------------------------ PDB ATOM columns 31-54 *)
Lemma firstn_app_len' : forall {A} (a b : list A) n, length a = n -> firstn n (a ++ b) = a.
Proof. intros A a b n <-. rewrite firstn_app, Nat.sub_diag, firstn_all. cbn. now rewrite app_nil_r. Qed.

Lemma skipn_app_len' : forall {A} (a b : list A) n, length a = n -> skipn n (a ++ b) = b.
Proof. intros A a b n <-. rewrite skipn_app, Nat.sub_diag, skipn_all. reflexivity. Qed.

(* the three coordinates of an ATOM record are read back (fixed columns) as the three _format_83 numbers *)
Theorem pdb_cols_roundtrip : forall x y z cols,
  0 <= dmag x -> 0 <= dmag y -> 0 <= dmag z ->
  pdb_atom_cols [x; y; z] = Some cols ->
  length cols = 24%nat /\ pdb_read_cols cols = Some [f83_num x; f83_num y; f83_num z].
Proof.
  intros x y z cols Hx Hy Hz H. unfold pdb_atom_cols in H. cbn [map_opt] in H.
  destruct (format_83 x) as [fx|] eqn:Ex; [|discriminate].
  destruct (format_83 y) as [fy|] eqn:Ey; [|discriminate].
  destruct (format_83 z) as [fz|] eqn:Ez; [|discriminate].
  injection H as <-.
  destruct (format_83_sound x fx Hx Ex) as (Lx & Px & _).
  destruct (format_83_sound y fy Hy Ey) as (Ly & Py & _).
  destruct (format_83_sound z fz Hz Ez) as (Lz & Pz & _).
  cbn [concat]. rewrite app_nil_r. split; [rewrite !app_length; lia|].
  unfold pdb_read_cols, pdb_w. cbn [slices].
  rewrite (firstn_app_len' fx) by assumption. rewrite (skipn_app_len' fx) by assumption.
  rewrite (firstn_app_len' fy) by assumption. rewrite (skipn_app_len' fy) by assumption.
  rewrite <- Lz at 1. rewrite firstn_all.
  cbn [map_opt]. now rewrite Px, Py, Pz.
Qed.
