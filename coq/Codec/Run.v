(* Executable glue used by the correspondence check of C01 (harness/props/C01.py): every function takes
   the exact inputs of a case (float32/float64 numbers as dyadics, nanometres) together with what mdtraj
   wrote / read and answers with a boolean, evaluated by vm_compute inside coqc.  Definitions only. *)
From Coq Require Import ZArith Ascii String Bool List.
Import ListNotations.
Require Import MD.Gen.CodecTables MD.Codec.Model MD.Codec.XtcModel MD.Codec.GlueModel MD.Codec.FixedCols.
Open Scope Z_scope.

Definition la := list_ascii_of_string.
Definition st := string_of_list_ascii.

Fixpoint list_eqb {A B} (eq : A -> B -> bool) (a : list A) (b : list B) : bool :=
  match a, b with
  | [], [] => true
  | x :: r, y :: s => eq x y && list_eqb eq r s
  | _, _ => false
  end.

Definition opt_eqb {A B} (eq : A -> B -> bool) (a : option A) (b : option B) : bool :=
  match a, b with Some x, Some y => eq x y | None, None => true | _, _ => false end.

Definition lines_eqb (a : list (list ascii)) (b : list string) : bool :=
  list_eqb String.eqb (map st a) b.

Definition nums_eqb := list_eqb num_eqb.

(* ---------------------------------------------------------------- mdcrd *)
Definition mframes := list (list dy * option (list dy)).

(* bytes: the model writer's lines equal the file's lines (title line excluded by the caller) *)
Definition chk_mdcrd_enc (frames : mframes) (lines : list string) : bool :=
  match save_mdcrd frames with Some ls => lines_eqb ls lines | None => false end.

Definition chk_mdcrd_refused (frames : mframes) : bool :=
  match save_mdcrd frames with None => true | Some _ => false end.

Definition ang_frames (frames : mframes) : mframes :=
  map (fun f => (map (to_file_unit true) (fst f),
                 match snd f with Some b => Some (map (to_file_unit true) b) | None => None end)) frames.

Definition mframe_eqb (a b : mframe) : bool :=
  nums_eqb (fst a) (fst b) && opt_eqb nums_eqb (snd a) (snd b).

(* the (repaired) model reader extracts from mdtraj's file exactly the quantised numbers *)
Definition chk_mdcrd_dec (hb : hasbox) (n_atoms : nat) (frames : mframes) (lines : list string) : bool :=
  match mdcrd_read_fix hb n_atoms (map la lines) with
  | Ok fs => list_eqb mframe_eqb fs (map mdcrd_expect (ang_frames frames))
  | Er _ => false
  end.

(* a float32 that mdtraj's reader returned for the decimal text (neg, q, d): nearest binary32 of
   q/10^d up to one unit in the last place (float(text) is correctly rounded to binary64, numpy then
   rounds to binary32) *)
Definition near32 (v : dy) (n : num) : bool :=
  let '(neg, q, d) := n in
  let sq := if neg then - q else q in
  Bool.eqb (dneg v) neg &&
  (Z.abs (snum v * 10 ^ Z.of_nat d - sq * dden v) * 2 ^ 23 <=? q * dden v).

Inductive observed_read :=
  | OFrames (fs : mframes)          (* xyz (and box) per frame as mdtraj's file object returned them *)
  | OValueError | OOSError | OOther.

Definition mframe_near (a : list dy * option (list dy)) (b : mframe) : bool :=
  list_eqb near32 (fst a) (fst b) &&
  match snd a, snd b with
  | Some x, Some y => list_eqb near32 x y
  | None, None => true
  | _, _ => false
  end.

(* the model reader (strict = today's code, otherwise the repair) reproduces mdtraj's reader *)
Definition chk_mdcrd_reader (strict : bool) (n_atoms : nat) (lines : list string) (o : observed_read) : bool :=
  match mdcrd_read strict HBdetect n_atoms (map la lines), o with
  | Ok fs, OFrames ofs => list_eqb mframe_near ofs fs
  | Er EValue, OValueError => true
  | Er EParse, OOSError | Er ESize, OOSError | Er EBox, OOSError | Er EInconsistent, OOSError => true
  | _, _ => false
  end.

(* ---------------------------------------------------------------- per-line checks *)
(* items: the three coordinates of an atom (nm, float32) and the text of its coordinate columns *)
Definition items := list (list dy * string).

Definition ang (xyz : list dy) := map (to_file_unit true) xyz.

(* xyz / lammpstrj: " %8.3f %8.3f %8.3f" after the leading tokens *)
Definition chk_tok (w p : nat) (it : items) : bool :=
  forallb (fun i => String.eqb (st (tok_coords w p (ang (fst i)))) (snd i) &&
                    opt_eqb nums_eqb (tok_read (la (snd i))) (Some (map (qnum p) (ang (fst i))))) it.
Definition chk_xyz := chk_tok xyz_w xyz_p.
Definition chk_lammps := chk_tok lammps_w lammps_p.

(* gro: columns after the 20-character prefix, nanometres, precision p *)
Definition chk_gro (p : nat) (it : items) : bool :=
  forallb (fun i => String.eqb (st (gro_coord_cols p (fst i))) (snd i) &&
                    opt_eqb nums_eqb (gro_read_cols (la (snd i))) (Some (map (qnum p) (fst i)))) it.
Definition chk_gro_box (uv9 : list dy) (l : string) : bool := String.eqb (st (gro_box_line uv9)) l.

(* pdb: columns 31-54 of ATOM records *)
Definition chk_pdb (it : items) : bool :=
  forallb (fun i => opt_eqb String.eqb (option_map st (pdb_atom_cols (ang (fst i)))) (Some (snd i)) &&
                    opt_eqb nums_eqb (pdb_read_cols (la (snd i))) (Some (map f83_num (ang (fst i))))) it.
(* PDBTrajectoryFile.write raised ValueError for this atom *)
Definition chk_pdb_refused (xyz : list dy) : bool :=
  match pdb_atom_cols (ang xyz) with None => true | Some _ => false end.

Definition chk_cryst1 (lens_nm angs : list dy) (l : string) : bool :=
  String.eqb (st (cryst1_line (ang lens_nm) angs)) l.

(* rst7: all coordinate lines of the file, then the optional box line *)
Definition chk_rst7 (coords_nm : list dy) (cell : option (list dy * list dy)) (lines : list string) : bool :=
  lines_eqb (rst7_coord_lines (ang coords_nm) ++
             match cell with Some (l, a) => [rst7_box_line (ang l) a] | None => [] end) lines.

(* the fixed-column readers (FixedCols.v) extract the quantised numbers from mdtraj's CRYST1 record / restart lines *)
Definition chk_cryst1_read (lens_nm angs : list dy) (l : string) : bool :=
  opt_eqb nums_eqb (cryst1_read (la l)) (Some (map (qnum cryst_len_p) (ang lens_nm) ++ map (qnum cryst_ang_p) angs)).
Definition chk_rst7_read (coords_nm : list dy) (cell : option (list dy * list dy)) (lines : list string) : bool :=
  let groups := chunks 6 (ang coords_nm) ++ match cell with Some (l, a) => [ang l ++ a] | None => [] end in
  list_eqb (fun g l => opt_eqb nums_eqb (rst7_line_read (length g) (la l)) (Some (map (qnum rst7_p) g))) groups lines.

(* ---------------------------------------------------------------- binary containers *)
(* raw numbers an independent reader extracted, against the exact float32 values in file units *)
Definition chk_container (ext : string) (xs_nm raw : list dy) : bool :=
  match unit_of_ext ext with
  | Some u => list_eqb dy_eqb (map (to_file_unit u) xs_nm) raw &&
              list_eqb dy_eqb (map (to_file_unit_f u) xs_nm) raw      (* the same with the factor as mdtraj computes it *)
  | None => false
  end.
(* the loader's conversion: md.load returns from_file_unit of every number an independent reader finds in the file *)
Definition chk_from_file (via64 : bool) (ext : string) (raw loaded : list dy) : bool :=
  match unit_of_ext ext with
  | Some u => list_eqb dy_eqb (map (if via64 then from_file_unit_via64 u else from_file_unit u) raw) loaded
  | None => false
  end.
Definition chk_same (xs raw : list dy) : bool := list_eqb dy_eqb xs raw.

(* ---------------------------------------------------------------- restart writers *)
(* observed: per numbered file (suffix text, index of the frame whose coordinates it holds,
   index of the frame whose time it holds, index of the frame whose cell it holds) *)
Definition rst_obs := list (option string * nat * nat * option nat).

Definition rfile_eqb (a : option (list ascii) * nat * nat * option nat) (b : option string * nat * nat * option nat) : bool :=
  let '(s1, p1, t1, c1) := a in let '(s2, p2, t2, c2) := b in
  opt_eqb String.eqb (option_map st s1) s2 && Nat.eqb p1 p2 && Nat.eqb t1 t2 && opt_eqb Nat.eqb c1 c2.

Definition chk_restart (cur : bool) (time0 : bool) (n : nat) (has_cell : bool) (o : option rst_obs) : bool :=
  let frames := map (fun i => (i, i)) (seq 0 n) in
  let cells := if has_cell then Some (seq 0 n) else None in
  opt_eqb (list_eqb rfile_eqb) (save_restart (if cur then RstCur else RstFix) time0 cells frames) o.

(* ---------------------------------------------------------------- compact case protocol
   Coq's number and string notations cost tens of microseconds per character, so the cases of a shard
   reach coqc as ONE primitive array of 63-bit integers (parsed natively).  Stream of jobs:
     kind, #params, params..., #f32, f32 bit patterns..., #f64, (hi32, lo32)..., #chars, chars packed 7 per int
   [run_stream] decodes it and calls the check functions above; the answer is the list of failing job
   indices.  This decoder is harness glue (trusted like the Python side), not part of the model. *)
From Coq Require Uint63 PArray.

Definition arr_to_list (a : PArray.array Uint63.int) : list Z :=
  (fix go (fuel : nat) (i : Uint63.int) : list Z :=
     match fuel with O => [] | S f => Uint63.to_Z (PArray.get a i) :: go f (Uint63.add i (Uint63.of_Z 1)) end)
    (Z.to_nat (Uint63.to_Z (PArray.length a))) (Uint63.of_Z 0).

Definition dy32 (b : Z) : dy :=
  let neg := Z.testbit b 31 in
  let e := Z.land (Z.shiftr b 23) 255 in
  let m := Z.land b 8388607 in
  if e =? 0 then Dy neg m (-149) else Dy neg (m + 8388608) (e - 150).
Definition dy64 (b : Z) : dy :=
  let neg := Z.testbit b 63 in
  let e := Z.land (Z.shiftr b 52) 2047 in
  let m := Z.land b 4503599627370495 in
  if e =? 0 then Dy neg m (-1074) else Dy neg (m + 4503599627370496) (e - 1075).

Fixpoint pairs64 (l : list Z) : list dy :=
  match l with hi :: lo :: r => dy64 (Z.shiftl hi 32 + lo) :: pairs64 r | _ => [] end.

Definition unpack7 (z : Z) : list ascii :=
  map (fun k => ascii_of_N (Z.to_N (Z.land (Z.shiftr z k) 255))) [48; 40; 32; 24; 16; 8; 0].

Definition lf : ascii := ascii_of_N 10.
Fixpoint split_lf_aux (s : list ascii) (cur : list ascii) : list string :=
  match s with
  | [] => [st (rev cur)]
  | c :: r => if Ascii.eqb c lf then st (rev cur) :: split_lf_aux r [] else split_lf_aux r (c :: cur)
  end.
(* no characters = no line at all; otherwise LF separates lines *)
Definition lines_of (t : list ascii) : list string :=
  match t with [] => [] | _ => split_lf_aux t [] end.

Fixpoint chop_aux {A} (fuel k : nat) (l : list A) : list (list A) :=
  match fuel with
  | O => []
  | S f => match l with [] => [] | _ => firstn k l :: chop_aux f k (skipn k l) end
  end.
Definition chop {A} (k : nat) (l : list A) := chop_aux (S (length l)) k l.

Definition nb (n : nat) : bool := negb (Nat.eqb n 0).

(* frames of an mdcrd job: per frame 3*n_atoms coordinates, then 3 box lengths when has_box *)
Definition mframes_of (n_atoms : nat) (has_box : bool) (xs : list dy) : mframes :=
  let k := (3 * n_atoms + (if has_box then 3 else 0))%nat in
  map (fun f => (firstn (3 * n_atoms) f, if has_box then Some (skipn (3 * n_atoms) f) else None)) (chop k xs).

Definition items_of (xs : list dy) (ls : list string) : items := combine (chop 3 xs) ls.

Definition hb_of (n : nat) : hasbox := match n with O => HBfalse | S O => HBtrue | _ => HBdetect end.

(* ---------------------------------------------------------------- XTC *)
Fixpoint triples_of (l : list Z) : list triple :=
  match l with a :: b :: c :: r => (a, b, c) :: triples_of r | _ => [] end.

Definition triple_eqb (a b : triple) : bool :=
  let '(a0, a1, a2) := a in let '(b0, b1, b2) := b in (a0 =? b0) && (a1 =? b1) && (a2 =? b2).

Definition payload_eqb (p q : xtc_payload) : bool :=
  triple_eqb (xp_min p) (xp_min q) && triple_eqb (xp_max p) (xp_max q) && (xp_smallidx p =? xp_smallidx q) &&
  list_eqb Z.eqb (xp_bytes p) (xp_bytes q).

(* one frame of the file against the frame that was saved: bits = float32 patterns of 3n coordinates (nm) *)
Definition chk_xtc_frame (enc : bool) (n_atoms : Z) (idx : Z) (bits : list Z) (time : Z) (box : list Z) (fr : xtc_frame) : bool :=
  (xf_natoms fr =? n_atoms) && (xf_step fr =? idx) && (xf_time fr =? time) && list_eqb Z.eqb (xf_box fr) box &&
  match xf_coords fr with
  | XRaw xs => (n_atoms <=? xtc_raw_max_atoms) && list_eqb Z.eqb xs bits
  | XPacked prec p =>
      let lints := triples_of (map (fun b => xtc_lint (dy32 b)) bits) in
      (xtc_raw_max_atoms <? n_atoms) &&
      (prec =? 1148846080) &&                                     (* 1000.0f *)
      if enc then match xtc_encode lints with
                  | Some q => payload_eqb q p              (* the writer, byte for byte *)
                  | None => true     (* outside the encoder model: xdrfile.c reads magicints[] out of bounds *)
                  end
      else opt_eqb (list_eqb triple_eqb) (xtc_decode n_atoms p) (Some lints)    (* the independent reader *)
  end.

Fixpoint chk_xtc_frames (enc : bool) (n_atoms : Z) (idx : Z) (xyz : list (list Z)) (times : list Z) (boxes : list (list Z))
         (frs : list xtc_frame) : bool :=
  match xyz, times, boxes, frs with
  | [], [], [], [] => true
  | x :: xr, t :: tr, b :: br, f :: fr =>
      chk_xtc_frame enc n_atoms idx x t b f && chk_xtc_frames enc n_atoms (idx + 1) xr tr br fr
  | _, _, _, _ => false
  end.

Definition chk_xtc (enc : bool) (n_atoms n_frames : nat) (nums : list Z) (bytes : list Z) : bool :=
  let k := (3 * n_atoms)%nat in
  let xyz := chop k (firstn (k * n_frames) nums) in
  let rest := skipn (k * n_frames) nums in
  let times := firstn n_frames rest in
  let boxes := chop 9 (skipn n_frames rest) in
  match read_frames (S n_frames) bytes with
  | Some frs => chk_xtc_frames enc (Z.of_nat n_atoms) 0 xyz times boxes frs
  | None => false
  end.

Record job := Job { jkind : nat; jps : list nat; j32 : list Z; j64 : list Z; jtxt : list ascii }.

Definition run_job (j : job) : bool :=
  let p (i : nat) := nth i (jps j) 0%nat in
  let xs := map dy32 (j32 j) in
  let ls := lines_of (jtxt j) in
  let raw w := if Nat.eqb w 64 then pairs64 (j64 j) else map dy32 (j64 j) in
  match jkind j with
  | 0%nat => chk_mdcrd_enc (mframes_of (p 0%nat) (nb (p 1%nat)) xs) ls
  | 1%nat => chk_mdcrd_dec (hb_of (p 2%nat)) (p 0%nat) (mframes_of (p 0%nat) (nb (p 1%nat)) xs) ls
  | 2%nat => chk_mdcrd_refused (mframes_of (p 0%nat) (nb (p 1%nat)) xs)
  | 3%nat => chk_mdcrd_reader (nb (p 1%nat)) (p 0%nat) ls
               (match p 2%nat with
                | 0%nat => OFrames (mframes_of (p 0%nat) (nb (p 3%nat)) xs)
                | 1%nat => OValueError | 2%nat => OOSError | _ => OOther end)
  | 4%nat => if nb (p 0%nat) then chk_lammps (items_of xs ls) else chk_xyz (items_of xs ls)
  | 5%nat => chk_gro (p 0%nat) (items_of xs ls)
  | 6%nat => list_eqb (fun uv l => chk_gro_box uv l) (chop 9 xs) ls
  | 7%nat => chk_pdb (items_of xs ls)
  | 8%nat => chk_cryst1 (firstn 3 xs) (skipn 3 xs) (nth 0 ls EmptyString)
  | 9%nat => let n3 := (length xs - (if nb (p 0%nat) then 6 else 0))%nat in
             chk_rst7 (firstn n3 xs)
                      (if nb (p 0%nat) then Some (firstn 3 (skipn n3 xs), skipn (n3 + 3) xs) else None) ls
  | 10%nat => chk_container (nth 0 ls EmptyString) xs (raw (p 0%nat))
  | 11%nat => chk_same xs (raw (p 0%nat))
  | 12%nat => chk_xtc false (p 0%nat) (p 1%nat) (j32 j) (map (fun c => Z.of_N (N_of_ascii c)) (jtxt j))
  | 15%nat => chk_cryst1_read (firstn 3 xs) (skipn 3 xs) (nth 0 ls EmptyString)
  | 16%nat => let n3 := (length xs - (if nb (p 0%nat) then 6 else 0))%nat in
              chk_rst7_read (firstn n3 xs)
                            (if nb (p 0%nat) then Some (firstn 3 (skipn n3 xs), skipn (n3 + 3) xs) else None) ls
  | 14%nat => chk_from_file (nb (p 1%nat)) (nth 0 ls EmptyString) (raw (p 0%nat)) xs
  | 13%nat => chk_xtc true (p 0%nat) (p 1%nat) (j32 j) (map (fun c => Z.of_N (N_of_ascii c)) (jtxt j))
  | _ => false
  end.

(* ---- stream decoding ---- *)
Definition take_z (n : Z) (l : list Z) : list Z * list Z := (firstn (Z.to_nat n) l, skipn (Z.to_nat n) l).

Definition parse_job (l : list Z) : option (job * list Z) :=
  match l with
  | kind :: np :: r0 =>
      let (ps, r1) := take_z np r0 in
      match r1 with
      | n32 :: r2 =>
          let (x32, r3) := take_z n32 r2 in
          match r3 with
          | n64 :: r4 =>
              let (x64, r5) := take_z n64 r4 in
              match r5 with
              | nch :: r6 =>
                  let (packed, r7) := take_z ((nch + 6) / 7) r6 in
                  Some (Job (Z.to_nat kind) (map Z.to_nat ps) x32 x64
                            (firstn (Z.to_nat nch) (concat (map unpack7 packed))), r7)
              | [] => None
              end
          | [] => None
          end
      | [] => None
      end
  | _ => None
  end.

Fixpoint parse_jobs (fuel : nat) (l : list Z) : list job :=
  match fuel with
  | O => []
  | S f => match l with
           | [] => []
           | _ => match parse_job l with Some (j, r) => j :: parse_jobs f r | None => [] end
           end
  end.

Fixpoint bad_jobs (i : nat) (js : list job) : list nat :=
  match js with
  | [] => []
  | j :: r => if run_job j then bad_jobs (S i) r else i :: bad_jobs (S i) r
  end.

(* (number of jobs decoded, indices of the jobs whose check failed) *)
Definition run_stream (a : PArray.array Uint63.int) : nat * list nat :=
  let l := arr_to_list a in
  let js := parse_jobs (length l) l in
  (length js, bad_jobs 0 js).
