(* Executable glue used by the correspondence check of C01 (harness/props/C01.py): every function takes
   the exact inputs of a case (float32/float64 numbers as dyadics, nanometres) together with what mdtraj
   wrote / read and answers with a boolean, evaluated by vm_compute inside coqc.  Definitions only. *)
From Coq Require Import ZArith Ascii String Bool List.
Import ListNotations.
Require Import MD.Gen.CodecTables MD.Codec.Model.
Open Scope Z_scope.

Definition la := list_ascii_of_string.
Definition st := string_of_list_ascii.

Fixpoint list_eqb {A B} (eq : A -> B -> bool) (a : list A) (b : list B) : bool :=
  match a, b with
  | [], [] => true
  | x :: r, y :: s => eq x y && list_eqb eq r s
  | _, _ => false
  end.

Definition opt_eqb {A B} (eq : A -> B -> bool) (a : option A) (b : option B) : bool :=
  match a, b with Some x, Some y => eq x y | None, None => true | _, _ => false end.

Definition lines_eqb (a : list (list ascii)) (b : list string) : bool :=
  list_eqb String.eqb (map st a) b.

Definition nums_eqb := list_eqb num_eqb.

(* ---------------------------------------------------------------- mdcrd *)
Definition mframes := list (list dy * option (list dy)).

(* bytes: the model writer's lines equal the file's lines (title line excluded by the caller) *)
Definition chk_mdcrd_enc (frames : mframes) (lines : list string) : bool :=
  match save_mdcrd frames with Some ls => lines_eqb ls lines | None => false end.

Definition chk_mdcrd_refused (frames : mframes) : bool :=
  match save_mdcrd frames with None => true | Some _ => false end.

Definition ang_frames (frames : mframes) : mframes :=
  map (fun f => (map (to_file_unit true) (fst f),
                 match snd f with Some b => Some (map (to_file_unit true) b) | None => None end)) frames.

Definition mframe_eqb (a b : mframe) : bool :=
  nums_eqb (fst a) (fst b) && opt_eqb nums_eqb (snd a) (snd b).

(* the (repaired) model reader extracts from mdtraj's file exactly the quantised numbers *)
Definition chk_mdcrd_dec (hb : hasbox) (n_atoms : nat) (frames : mframes) (lines : list string) : bool :=
  match mdcrd_read_fix hb n_atoms (map la lines) with
  | Ok fs => list_eqb mframe_eqb fs (map mdcrd_expect (ang_frames frames))
  | Er _ => false
  end.

(* a float32 that mdtraj's reader returned for the decimal text (neg, q, d): nearest binary32 of
   q/10^d up to one unit in the last place (float(text) is correctly rounded to binary64, numpy then
   rounds to binary32) *)
Definition near32 (v : dy) (n : num) : bool :=
  let '(neg, q, d) := n in
  let sq := if neg then - q else q in
  Bool.eqb (dneg v) neg &&
  (Z.abs (snum v * 10 ^ Z.of_nat d - sq * dden v) * 2 ^ 23 <=? q * dden v).

Inductive observed_read :=
  | OFrames (fs : mframes)          (* xyz (and box) per frame as mdtraj's file object returned them *)
  | OValueError | OOSError | OOther.

Definition mframe_near (a : list dy * option (list dy)) (b : mframe) : bool :=
  list_eqb near32 (fst a) (fst b) &&
  match snd a, snd b with
  | Some x, Some y => list_eqb near32 x y
  | None, None => true
  | _, _ => false
  end.

(* the model reader (strict = today's code, otherwise the repair) reproduces mdtraj's reader *)
Definition chk_mdcrd_reader (strict : bool) (n_atoms : nat) (lines : list string) (o : observed_read) : bool :=
  match mdcrd_read strict HBdetect n_atoms (map la lines), o with
  | Ok fs, OFrames ofs => list_eqb mframe_near ofs fs
  | Er EValue, OValueError => true
  | Er EParse, OOSError | Er ESize, OOSError | Er EBox, OOSError | Er EInconsistent, OOSError => true
  | _, _ => false
  end.

(* ---------------------------------------------------------------- per-line checks *)
(* items: the three coordinates of an atom (nm, float32) and the text of its coordinate columns *)
Definition items := list (list dy * string).

Definition ang (xyz : list dy) := map (to_file_unit true) xyz.

(* xyz / lammpstrj: " %8.3f %8.3f %8.3f" after the leading tokens *)
Definition chk_tok (w p : nat) (it : items) : bool :=
  forallb (fun i => String.eqb (st (tok_coords w p (ang (fst i)))) (snd i) &&
                    opt_eqb nums_eqb (tok_read (la (snd i))) (Some (map (qnum p) (ang (fst i))))) it.
Definition chk_xyz := chk_tok xyz_w xyz_p.
Definition chk_lammps := chk_tok lammps_w lammps_p.

(* gro: columns after the 20-character prefix, nanometres, precision p *)
Definition chk_gro (p : nat) (it : items) : bool :=
  forallb (fun i => String.eqb (st (gro_coord_cols p (fst i))) (snd i) &&
                    opt_eqb nums_eqb (gro_read_cols (la (snd i))) (Some (map (qnum p) (fst i)))) it.
Definition chk_gro_box (uv9 : list dy) (l : string) : bool := String.eqb (st (gro_box_line uv9)) l.

(* pdb: columns 31-54 of ATOM records *)
Definition f83_kept (x : dy) : nat := (pdb_p - Nat.min pdb_p (length (py_fmt pdb_w pdb_p x) - f83_cut))%nat.
Definition f83_num (x : dy) : num :=
  (dneg x, quant pdb_p x / 10 ^ Z.of_nat (pdb_p - f83_kept x), f83_kept x).

Definition chk_pdb (it : items) : bool :=
  forallb (fun i => opt_eqb String.eqb (option_map st (pdb_atom_cols (ang (fst i)))) (Some (snd i)) &&
                    opt_eqb nums_eqb (pdb_read_cols (la (snd i))) (Some (map f83_num (ang (fst i))))) it.
(* PDBTrajectoryFile.write raised ValueError for this atom *)
Definition chk_pdb_refused (xyz : list dy) : bool :=
  match pdb_atom_cols (ang xyz) with None => true | Some _ => false end.

Definition chk_cryst1 (lens_nm angs : list dy) (l : string) : bool :=
  String.eqb (st (cryst1_line (ang lens_nm) angs)) l.

(* rst7: all coordinate lines of the file, then the optional box line *)
Definition chk_rst7 (coords_nm : list dy) (cell : option (list dy * list dy)) (lines : list string) : bool :=
  lines_eqb (rst7_coord_lines (ang coords_nm) ++
             match cell with Some (l, a) => [rst7_box_line (ang l) a] | None => [] end) lines.

(* ---------------------------------------------------------------- binary containers *)
(* raw numbers an independent reader extracted, against the exact float32 values in file units *)
Definition chk_container (ext : string) (xs_nm raw : list dy) : bool :=
  match unit_of_ext ext with
  | Some u => list_eqb dy_eqb (map (to_file_unit u) xs_nm) raw
  | None => false
  end.
Definition chk_same (xs raw : list dy) : bool := list_eqb dy_eqb xs raw.

(* ---------------------------------------------------------------- restart writers *)
(* observed: per numbered file (suffix text, index of the frame whose coordinates it holds,
   index of the frame whose time it holds, index of the frame whose cell it holds) *)
Definition rst_obs := list (option string * nat * nat * option nat).

Definition rfile_eqb (a : option (list ascii) * nat * nat * option nat) (b : option string * nat * nat * option nat) : bool :=
  let '(s1, p1, t1, c1) := a in let '(s2, p2, t2, c2) := b in
  opt_eqb String.eqb (option_map st s1) s2 && Nat.eqb p1 p2 && Nat.eqb t1 t2 && opt_eqb Nat.eqb c1 c2.

Definition chk_restart (cur : bool) (time0 : bool) (n : nat) (has_cell : bool) (o : option rst_obs) : bool :=
  let frames := map (fun i => (i, i)) (seq 0 n) in
  let cells := if has_cell then Some (seq 0 n) else None in
  opt_eqb (list_eqb rfile_eqb) (save_restart (if cur then RstCur else RstFix) time0 cells frames) o.

(* ---------------------------------------------------------------- compact case protocol
   Coq's number notations are slow on big literal lists, so a case reaches coqc as three strings:
   float32 numbers as 8 hex digits each, float64 numbers as 16 hex digits each (IEEE bit patterns), and
   the text lines joined by LF.  [run_job] decodes them and calls the check functions above. *)
Definition hexval (c : ascii) : Z :=
  let n := Z.of_nat (nat_of_ascii c) in if n <? 58 then n - 48 else n - 87.
Fixpoint hex_acc (s : list ascii) (acc : Z) : Z :=
  match s with [] => acc | c :: r => hex_acc r (acc * 16 + hexval c) end.

Fixpoint groups_aux (fuel k : nat) (s : list ascii) : list (list ascii) :=
  match fuel with
  | O => []
  | S f => match s with [] => [] | _ => firstn k s :: groups_aux f k (skipn k s) end
  end.
Definition groups (k : nat) (s : list ascii) := groups_aux (S (length s)) k s.

Definition dy32 (b : Z) : dy :=
  let neg := 2 ^ 31 <=? b in
  let e := (b / 2 ^ 23) mod 256 in
  let m := b mod 2 ^ 23 in
  if e =? 0 then Dy neg m (-149) else Dy neg (m + 2 ^ 23) (e - 150).
Definition dy64 (b : Z) : dy :=
  let neg := 2 ^ 63 <=? b in
  let e := (b / 2 ^ 52) mod 2048 in
  let m := b mod 2 ^ 52 in
  if e =? 0 then Dy neg m (-1074) else Dy neg (m + 2 ^ 52) (e - 1075).

Definition nums32 (s : string) : list dy := map (fun g => dy32 (hex_acc g 0)) (groups 8 (la s)).
Definition nums64 (s : string) : list dy := map (fun g => dy64 (hex_acc g 0)) (groups 16 (la s)).

Definition lf : ascii := ascii_of_nat 10.
Fixpoint split_lf_aux (s : list ascii) (cur : list ascii) : list string :=
  match s with
  | [] => [st (rev cur)]
  | c :: r => if Ascii.eqb c lf then st (rev cur) :: split_lf_aux r [] else split_lf_aux r (c :: cur)
  end.
(* "" is no line at all; otherwise LF separates lines *)
Definition lines_of (t : string) : list string :=
  match t with EmptyString => [] | _ => split_lf_aux (la t) [] end.

Fixpoint chop_aux {A} (fuel k : nat) (l : list A) : list (list A) :=
  match fuel with
  | O => []
  | S f => match l with [] => [] | _ => firstn k l :: chop_aux f k (skipn k l) end
  end.
Definition chop {A} (k : nat) (l : list A) := chop_aux (S (length l)) k l.

Definition nb (n : nat) : bool := negb (Nat.eqb n 0).

(* frames of an mdcrd job: per frame 3*n_atoms coordinates, then 3 box lengths when has_box *)
Definition mframes_of (n_atoms : nat) (has_box : bool) (xs : list dy) : mframes :=
  let k := (3 * n_atoms + (if has_box then 3 else 0))%nat in
  map (fun f => (firstn (3 * n_atoms) f, if has_box then Some (skipn (3 * n_atoms) f) else None)) (chop k xs).

Definition items_of (xs : list dy) (ls : list string) : items := combine (chop 3 xs) ls.

Definition hb_of (n : nat) : hasbox := match n with O => HBfalse | S O => HBtrue | _ => HBdetect end.

Inductive job := Job (kind : nat) (ps : list nat) (n32 n64 txt : string).

Definition run_job (j : job) : bool :=
  let '(Job kind ps s32 s64 txt) := j in
  let p (i : nat) := nth i ps 0%nat in
  let xs := nums32 s32 in
  let ls := lines_of txt in
  match kind with
  | 0%nat => chk_mdcrd_enc (mframes_of (p 0%nat) (nb (p 1%nat)) xs) ls
  | 1%nat => chk_mdcrd_dec (hb_of (p 2%nat)) (p 0%nat) (mframes_of (p 0%nat) (nb (p 1%nat)) xs) ls
  | 2%nat => chk_mdcrd_refused (mframes_of (p 0%nat) (nb (p 1%nat)) xs)
  | 3%nat => chk_mdcrd_reader (nb (p 1%nat)) (p 0%nat) ls
               (match p 2%nat with
                | 0%nat => OFrames (mframes_of (p 0%nat) (nb (p 3%nat)) xs)
                | 1%nat => OValueError | 2%nat => OOSError | _ => OOther end)
  | 4%nat => if nb (p 0%nat) then chk_lammps (items_of xs ls) else chk_xyz (items_of xs ls)
  | 5%nat => chk_gro (p 0%nat) (items_of xs ls)
  | 6%nat => list_eqb (fun uv l => chk_gro_box uv l) (chop 9 xs) ls
  | 7%nat => chk_pdb (items_of xs ls)
  | 8%nat => chk_cryst1 (firstn 3 xs) (skipn 3 xs) (nth 0 ls EmptyString)
  | 9%nat => let n3 := (length xs - (if nb (p 0%nat) then 6 else 0))%nat in
             chk_rst7 (firstn n3 xs)
                      (if nb (p 0%nat) then Some (firstn 3 (skipn n3 xs), skipn (n3 + 3) xs) else None) ls
  | 10%nat => chk_container txt xs (if Nat.eqb (p 0%nat) 64 then nums64 s64 else nums32 s64)
  | 11%nat => chk_same xs (if Nat.eqb (p 0%nat) 64 then nums64 s64 else nums32 s64)
  | _ => false
  end.
