(* Lemmas about the codec model (C01): rounding, decimal formatting and parsing, field widths. *)
From Coq Require Import ZArith Ascii String Bool List Lia ZifyBool.
Import ListNotations.
Require Import MD.Gen.CodecTables MD.Codec.Model.
Open Scope Z_scope.

Ltac Zify.zify_post_hook ::= Z.to_euclidean_division_equations.

(* ------------------------------------------------------------------ rnd_hev *)
Lemma rnd_hev_unfold : forall n d, rnd_hev n d =
  if 2 * (n mod d) <? d then n / d else if d <? 2 * (n mod d) then n / d + 1
  else if Z.even (n / d) then n / d else n / d + 1.
Proof. intros n d. unfold rnd_hev, Z.div, Z.modulo. destruct (Z.div_eucl n d). reflexivity. Qed.

Lemma rnd_hev_error : forall n d, 0 < d -> 2 * Z.abs (rnd_hev n d * d - n) <= d.
Proof.
  intros n d Hd. rewrite rnd_hev_unfold.
  pose proof (Z.div_mod n d ltac:(lia)) as Hdm.
  pose proof (Z.mod_pos_bound n d Hd) as Hr.
  destruct (2 * (n mod d) <? d) eqn:E1; [nia|].
  destruct (d <? 2 * (n mod d)) eqn:E2; [nia|].
  destruct (Z.even (n / d)); nia.
Qed.

Lemma rnd_hev_nonneg : forall n d, 0 < d -> 0 <= n -> 0 <= rnd_hev n d.
Proof.
  intros n d Hd Hn. rewrite rnd_hev_unfold.
  pose proof (Z.div_pos n d Hn Hd).
  destruct (2 * (n mod d) <? d); [lia|].
  destruct (d <? 2 * (n mod d)); [lia|].
  destruct (Z.even (n / d)); lia.
Qed.

Lemma rnd_hev_exact : forall n d, 0 < d -> rnd_hev (n * d) d = n.
Proof.
  intros n d Hd. rewrite rnd_hev_unfold. rewrite Z.mod_mul by lia. rewrite Z.div_mul by lia.
  destruct (2 * 0 <? d) eqn:E; lia.
Qed.

Lemma rnd_hev_mono : forall a b d, 0 < d -> a <= b -> rnd_hev a d <= rnd_hev b d.
Proof.
  intros a b d Hd Hab.
  destruct (Z.eq_dec (a / d) (b / d)) as [Heq|Hne].
  - rewrite !rnd_hev_unfold. rewrite Heq.
    pose proof (Z.div_mod a d ltac:(lia)). pose proof (Z.div_mod b d ltac:(lia)).
    assert (a mod d <= b mod d) by nia.
    destruct (2 * (a mod d) <? d) eqn:A1; destruct (2 * (b mod d) <? d) eqn:B1; try lia;
    destruct (d <? 2 * (a mod d)) eqn:A2; destruct (d <? 2 * (b mod d)) eqn:B2; try lia;
    destruct (Z.even (b / d)); lia.
  - assert (a / d < b / d) by (pose proof (Z.div_le_mono a b d Hd Hab); lia).
    assert (rnd_hev a d <= a / d + 1).
    { rewrite rnd_hev_unfold. destruct (2 * (a mod d) <? d); [lia|].
      destruct (d <? 2 * (a mod d)); [lia|]. destruct (Z.even (a / d)); lia. }
    assert (b / d <= rnd_hev b d).
    { rewrite rnd_hev_unfold. destruct (2 * (b mod d) <? d); [lia|].
      destruct (d <? 2 * (b mod d)); [lia|]. destruct (Z.even (b / d)); lia. }
    lia.
Qed.

(* ------------------------------------------------------------------ dyadic basics *)
Lemma pow2_eq : forall k, 0 <= k -> pow2 k = 2 ^ k.
Proof. intros k H. unfold pow2. rewrite Z.shiftl_mul_pow2 by lia. lia. Qed.

Lemma pow2_pos : forall k, 0 <= k -> 0 < pow2 k.
Proof. intros k H. rewrite pow2_eq by lia. apply Z.pow_pos_nonneg; lia. Qed.

Lemma dden_pos : forall x, 0 < dden x.
Proof. intros x. unfold dden. apply pow2_pos. lia. Qed.

Lemma dnum_nonneg : forall x, 0 <= dmag x -> 0 <= dnum x.
Proof. intros x H. unfold dnum. apply Z.mul_nonneg_nonneg; [lia|]. pose proof (pow2_pos (Z.max (dexp x) 0)). lia. Qed.

Lemma pow10_pos : forall p : nat, 0 < 10 ^ Z.of_nat p.
Proof. intros p. apply Z.pow_pos_nonneg; lia. Qed.

Lemma quant_nonneg : forall p x, 0 <= dmag x -> 0 <= quant p x.
Proof.
  intros p x H. unfold quant. apply rnd_hev_nonneg. apply dden_pos.
  apply Z.mul_nonneg_nonneg. now apply dnum_nonneg. pose proof (pow10_pos p). lia.
Qed.

(* |x| * 10^p is within 1/2 of the printed integer *)
Lemma quant_error : forall p x, 2 * Z.abs (quant p x * dden x - dnum x * 10 ^ Z.of_nat p) <= dden x.
Proof. intros p x. unfold quant. apply rnd_hev_error. apply dden_pos. Qed.

(* ------------------------------------------------------------------ digits *)
Lemma digit_ok : forall d, 0 <= d < 10 -> is_digit (digit d) = true /\ dval (digit d) = d.
Proof.
  intros d H.
  assert (d = 0 \/ d = 1 \/ d = 2 \/ d = 3 \/ d = 4 \/ d = 5 \/ d = 6 \/ d = 7 \/ d = 8 \/ d = 9) as C by lia.
  repeat (destruct C as [C|C]; [subst d; split; reflexivity|]). subst d; split; reflexivity.
Qed.

Lemma is_digit_not_special : forall c, is_digit c = true ->
  Ascii.eqb c sp = false /\ Ascii.eqb c "-"%char = false /\ Ascii.eqb c "."%char = false.
Proof.
  intros c H. repeat split.
  - destruct (Ascii.eqb_spec c sp) as [->|]; [discriminate H|reflexivity].
  - destruct (Ascii.eqb_spec c "-"%char) as [->|]; [discriminate H|reflexivity].
  - destruct (Ascii.eqb_spec c "."%char) as [->|]; [discriminate H|reflexivity].
Qed.

Lemma digs_S : forall k n, digs (S k) n = digs k (n / 10) ++ [digit (n mod 10)].
Proof. intros k n. cbn [digs]. unfold Z.div, Z.modulo. destruct (Z.div_eucl n 10). reflexivity. Qed.

Lemma digs_length : forall k n, length (digs k n) = k.
Proof. induction k; intros n; [reflexivity|]. rewrite digs_S, app_length, IHk. cbn. lia. Qed.

Lemma digs_all_digits : forall k n, Forall (fun c => is_digit c = true) (digs k n).
Proof.
  induction k; intros n; [constructor|]. rewrite digs_S.
  apply Forall_app. split; [apply IHk|]. constructor; [|constructor].
  apply digit_ok. apply Z.mod_pos_bound. lia.
Qed.

Lemma digs_head : forall k n, exists c r, digs (S k) n = c :: r /\ is_digit c = true.
Proof.
  intros k n. pose proof (digs_all_digits (S k) n) as F. pose proof (digs_length (S k) n) as L.
  destruct (digs (S k) n) as [|c r]; [discriminate L|].
  exists c, r. split; [reflexivity|]. now inversion F.
Qed.

Lemma mod_pow10_step : forall n k, 0 <= k ->
  (n / 10) mod 10 ^ k * 10 + n mod 10 = n mod 10 ^ (k + 1).
Proof.
  intros n k Hk. rewrite Z.pow_add_r by lia. rewrite Z.pow_1_r.
  rewrite (Z.mul_comm (10 ^ k) 10).
  assert (0 < 10 ^ k) by (apply Z.pow_pos_nonneg; lia).
  rewrite Z.rem_mul_r by lia. lia.
Qed.

Lemma take_digits_digs : forall k n rest acc cnt,
  take_digits (digs k n ++ rest) acc cnt =
  take_digits rest (acc * 10 ^ Z.of_nat k + n mod 10 ^ Z.of_nat k) (cnt + k)%nat.
Proof.
  induction k; intros n rest acc cnt.
  - cbn [digs app]. rewrite Z.pow_0_r, Z.mod_1_r. f_equal; lia.
  - rewrite digs_S. rewrite <- app_assoc. cbn [app]. rewrite IHk. cbn [take_digits].
    destruct (digit_ok (n mod 10)) as [Hd Hv]; [apply Z.mod_pos_bound; lia|].
    rewrite Hd, Hv. f_equal.
    + rewrite Nat2Z.inj_succ. rewrite <- Z.add_1_r.
      rewrite <- (mod_pow10_step n (Z.of_nat k)) by lia.
      rewrite Z.pow_add_r by lia. lia.
    + lia.
Qed.

Lemma take_digits_nondigit : forall c r acc cnt, is_digit c = false ->
  take_digits (c :: r) acc cnt = (acc, cnt, c :: r).
Proof. intros. cbn [take_digits]. now rewrite H. Qed.

(* ------------------------------------------------------------------ ndigits *)
Lemma ndigits_aux_spec : forall fuel n, 0 <= n < 2 ^ Z.of_nat fuel ->
  n < 10 ^ Z.of_nat (ndigits_aux fuel n) /\ (1 <= ndigits_aux fuel n)%nat /\
  ((1 < ndigits_aux fuel n)%nat -> 10 ^ (Z.of_nat (ndigits_aux fuel n) - 1) <= n).
Proof.
  induction fuel; intros n H.
  - cbn in *. lia.
  - cbn [ndigits_aux]. destruct (n <? 10) eqn:E.
    + cbn. lia.
    + assert (0 <= n / 10 < 2 ^ Z.of_nat fuel) as Hq.
      { rewrite Nat2Z.inj_succ, Z.pow_succ_r in H by lia. lia. }
      destruct (IHfuel _ Hq) as (A & B & C).
      rewrite Nat2Z.inj_succ. rewrite Z.pow_succ_r by lia. repeat split; [lia|lia|].
      intros _. replace (Z.succ (Z.of_nat (ndigits_aux fuel (n / 10))) - 1)
        with (Z.of_nat (ndigits_aux fuel (n / 10))) by lia.
      destruct (Nat.eq_dec (ndigits_aux fuel (n / 10)) 1) as [E1|E1].
      * rewrite E1. cbn. lia.
      * assert (10 ^ (Z.of_nat (ndigits_aux fuel (n / 10)) - 1) <= n / 10) by (apply C; lia).
        replace (Z.of_nat (ndigits_aux fuel (n / 10))) with ((Z.of_nat (ndigits_aux fuel (n / 10)) - 1) + 1) by lia.
        rewrite Z.pow_add_r by lia. lia.
Qed.

Lemma ndigits_spec : forall n, 0 <= n ->
  n < 10 ^ Z.of_nat (ndigits n) /\ (1 <= ndigits n)%nat /\
  ((1 < ndigits n)%nat -> 10 ^ (Z.of_nat (ndigits n) - 1) <= n).
Proof.
  intros n H. unfold ndigits. apply ndigits_aux_spec. split; [lia|].
  destruct (Z.eq_dec n 0) as [->|Hn].
  - cbn. lia.
  - rewrite Nat2Z.inj_add, Z2Nat.id by (apply Z.log2_nonneg).
    change (Z.of_nat 1) with 1. apply Z.log2_spec. lia.
Qed.

(* the number of digits is the least k >= 1 with n < 10^k *)
Lemma ndigits_le : forall n k, 0 <= n -> (1 <= k)%nat -> n < 10 ^ Z.of_nat k -> (ndigits n <= k)%nat.
Proof.
  intros n k Hn Hk Hlt. destruct (ndigits_spec n Hn) as (A & B & C).
  destruct (le_lt_dec (ndigits n) k) as [|Hgt]; [assumption|exfalso].
  assert (10 ^ (Z.of_nat (ndigits n) - 1) <= n) by (apply C; lia).
  assert (10 ^ Z.of_nat k <= 10 ^ (Z.of_nat (ndigits n) - 1)) by (apply Z.pow_le_mono_r; lia).
  lia.
Qed.

Lemma ndigits_ge : forall n k, 0 <= n -> 10 ^ Z.of_nat k <= n -> (k < ndigits n)%nat.
Proof.
  intros n k Hn Hge. destruct (ndigits_spec n Hn) as (A & B & C).
  destruct (le_lt_dec (ndigits n) k) as [Hle|]; [exfalso|assumption].
  assert (10 ^ Z.of_nat (ndigits n) <= 10 ^ Z.of_nat k) by (apply Z.pow_le_mono_r; lia). lia.
Qed.

(* ------------------------------------------------------------------ parse (format x) *)
Lemma skip_spaces_repeat : forall k s, skip_spaces (repeat sp k ++ s) = skip_spaces s.
Proof. induction k; intros s; cbn; [reflexivity|apply IHk]. Qed.

Lemma skip_spaces_nonspace : forall c r, Ascii.eqb c sp = false -> skip_spaces (c :: r) = c :: r.
Proof. intros. cbn. now rewrite H. Qed.

Lemma parse_body : forall p neg q k, 0 <= q ->
  parse_num (repeat sp k ++ body p neg q) = Some (neg, q, p).
Proof.
  intros p neg q k Hq. unfold parse_num. rewrite skip_spaces_repeat. unfold body.
  set (P := 10 ^ Z.of_nat p). assert (0 < P) as HP by apply pow10_pos.
  set (ip := q / P). set (fp := q mod P).
  assert (0 <= ip) as Hip by (apply Z.div_pos; lia).
  destruct (ndigits_spec ip Hip) as (Hlt & Hge & _).
  destruct (ndigits ip) as [|kd] eqn:Ek; [lia|].
  destruct (digs_head kd ip) as (c & r & Hd & Hc).
  destruct (is_digit_not_special c Hc) as (Hsp & Hmi & Hdot).
  assert (forall tail, take_digits (digs (S kd) ip ++ tail) 0 0%nat = take_digits tail ip (S kd)) as TD.
  { intros tail. rewrite take_digits_digs. rewrite Z.mod_small by lia. f_equal. }
  assert (match p with O => [] | S _ => "."%char :: digs p fp end =
          match p with O => [] | S _ => "."%char :: digs p fp ++ [] end) as Etail
    by (destruct p; [reflexivity|now rewrite app_nil_r]).
  assert (forall tail, digs (S kd) ip ++ tail = c :: (r ++ tail)) as HB
    by (intros tail; rewrite Hd; reflexivity).
  assert (forall tail, split_sign (skip_spaces ((if neg then ["-"%char] else []) ++ digs (S kd) ip ++ tail))
                       = (neg, digs (S kd) ip ++ tail)) as SS.
  { intros tail. destruct neg; cbn [app].
    - rewrite skip_spaces_nonspace by reflexivity. reflexivity.
    - rewrite HB. rewrite skip_spaces_nonspace by assumption. unfold split_sign. now rewrite Hmi. }
  rewrite SS. rewrite TD. rewrite Etail.
  destruct p as [|p'].
  - cbn [take_digits]. cbn. subst ip P. rewrite Z.div_1_r. reflexivity.
  - rewrite take_digits_nondigit by reflexivity. cbn [Nat.eqb].
    change (Ascii.eqb "." ".") with true. cbv iota.
    rewrite take_digits_digs. cbn [take_digits all_spaces skip_spaces].
    assert (ip * 10 ^ Z.of_nat (S p') + fp mod 10 ^ Z.of_nat (S p') = q) as ->.
    { fold P. subst fp ip. rewrite Z.mod_mod by lia. pose proof (Z.div_mod q P ltac:(lia)). lia. }
    reflexivity.
Qed.

(* parse (format x) returns exactly the printed digits: for every width, precision and number *)
Theorem fmt_parse_roundtrip : forall w p x, 0 <= dmag x ->
  parse_num (py_fmt w p x) = Some (qnum p x).
Proof.
  intros w p x H. unfold py_fmt, pad, qnum. apply parse_body. now apply quant_nonneg.
Qed.

(* ------------------------------------------------------------------ widths *)
Definition sign_len (neg : bool) : nat := if neg then 1%nat else 0%nat.
Definition frac_len (p : nat) : nat := match p with O => 0%nat | S _ => S p end.

Lemma body_length : forall p neg q,
  length (body p neg q) = (sign_len neg + ndigits (q / 10 ^ Z.of_nat p) + frac_len p)%nat.
Proof.
  intros p neg q. unfold body. rewrite !app_length, digs_length.
  destruct neg, p; cbn [length sign_len frac_len]; rewrite ?digs_length; lia.
Qed.

Lemma pad_length : forall w s, length (pad w s) = Nat.max w (length s).
Proof. intros. unfold pad. rewrite app_length, repeat_length. lia. Qed.

(* integer digits available in a field of width w *)
Definition int_room (w p : nat) (neg : bool) : nat := (w - sign_len neg - frac_len p)%nat.

(* in range: exactly w characters *)
Theorem fmt_width_in_range : forall w p x, 0 <= dmag x ->
  (1 <= int_room w p (dneg x))%nat ->
  quant p x < 10 ^ Z.of_nat (int_room w p (dneg x) + p) ->
  length (py_fmt w p x) = w /\ field w p x = Some (py_fmt w p x).
Proof.
  intros w p x Hm Hroom Hq.
  assert (length (py_fmt w p x) = w) as L.
  { unfold py_fmt. rewrite pad_length, body_length.
    pose proof (quant_nonneg p x Hm) as Hq0. pose proof (pow10_pos p) as HP.
    assert (quant p x / 10 ^ Z.of_nat p < 10 ^ Z.of_nat (int_room w p (dneg x))) as Hip.
    { apply Z.div_lt_upper_bound; [lia|]. rewrite <- Z.pow_add_r by lia. rewrite <- Nat2Z.inj_add.
      now rewrite Nat.add_comm. }
    assert (ndigits (quant p x / 10 ^ Z.of_nat p) <= int_room w p (dneg x))%nat.
    { apply ndigits_le; [apply Z.div_pos; lia|assumption|assumption]. }
    unfold int_room in *. lia. }
  split; [assumption|]. unfold field. rewrite L, Nat.eqb_refl. reflexivity.
Qed.

(* out of range: the text is longer than w (Python never truncates) and the checked field is refused *)
Theorem fmt_width_overflow : forall w p x, 0 <= dmag x ->
  10 ^ Z.of_nat (int_room w p (dneg x) + p) <= quant p x ->
  (sign_len (dneg x) + frac_len p <= w)%nat ->
  (w < length (py_fmt w p x))%nat /\ field w p x = None.
Proof.
  intros w p x Hm Hq Hfit.
  assert (w < length (py_fmt w p x))%nat as L.
  { unfold py_fmt. rewrite pad_length, body_length.
    pose proof (pow10_pos p) as HP.
    assert (10 ^ Z.of_nat (int_room w p (dneg x)) <= quant p x / 10 ^ Z.of_nat p) as Hip.
    { apply Z.div_le_lower_bound; [lia|]. rewrite <- Z.pow_add_r by lia. rewrite <- Nat2Z.inj_add.
      now rewrite Nat.add_comm. }
    assert (int_room w p (dneg x) < ndigits (quant p x / 10 ^ Z.of_nat p))%nat.
    { apply ndigits_ge; [|assumption]. pose proof (pow10_pos (int_room w p (dneg x))). lia. }
    unfold int_room in *. lia. }
  split; [assumption|]. unfold field.
  destruct (Nat.eqb_spec (length (py_fmt w p x)) w); [lia|reflexivity].
Qed.

(* a field is never silently shortened: whatever [field] returns has width w and parses to the number *)
Theorem field_sound : forall w p x s, 0 <= dmag x -> field w p x = Some s ->
  length s = w /\ parse_num s = Some (qnum p x).
Proof.
  intros w p x s Hm. unfold field.
  destruct (Nat.eqb_spec (length (py_fmt w p x)) w) as [E|]; [|discriminate].
  intros [= <-]. split; [assumption|]. now apply fmt_parse_roundtrip.
Qed.
