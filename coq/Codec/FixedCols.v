(* Fixed-column readers of C01: pdbstructure.py's CRYST1 record (float(pdb_line[a:b]) for six column pairs) and
   amberrst.py's restart lines (float(line[j : j + 12]) for six fields).  Definitions only, no proofs.  The column
   pairs and the field width are regenerated from /repo (Gen/CodecTables.v: cryst_read_cols, rst7_rw). *)
From Coq Require Import ZArith Ascii String Bool List.
Import ListNotations.
Require Import MD.Gen.CodecTables MD.Codec.Model.
Open Scope Z_scope.

(* s[a:b] *)
Definition py_slice (a b : nat) (s : list ascii) : list ascii := firstn (b - a) (skipn a s).

(* [float(line[a:b]) for (a, b) in cols] *)
Definition cols_read (cols : list (nat * nat)) (l : list ascii) : option (list num) :=
  map_opt (fun c => parse_num (py_slice (fst c) (snd c) l)) cols.

(* the CRYST1 record as PdbStructure reads it: three lengths, three angles *)
Definition cryst1_read (l : list ascii) : option (list num) := cols_read cryst_read_cols l.

(* one line of an AMBER restart file: k fields of rst7_rw columns (6 for two atoms or the box line, 3 for the last
   atom of an odd count) *)
Definition rst7_line_read (k : nat) (l : list ascii) : option (list num) :=
  map_opt parse_num (slices rst7_rw k l).

(* the line written for the numbers xs (up to 6): consecutive "%12.7f" fields *)
Definition rst7_line (xs : list dy) : list ascii := concat (map (py_fmt rst7_w rst7_p) xs).
