(* Executable model of mdtraj's save/load numeric codecs (C01): exact dyadic numbers, float32
   rounding of the unit conversion, Python's "%w.pf" formatting and float() parsing of the
   written fields, _format_83, the mdcrd / rst7 / gro / xyz / pdb line layouts and readers, and
   the multi-file restart writers.  No proofs in this file (DESIGN.md section 1).

   Numbers.  Every float32/float64 is a dyadic rational; [Dy neg mag ex] is (-1)^neg * mag * 2^ex
   with mag >= 0 ([neg = true, mag = 0] is the IEEE negative zero, which Python prints as "-0.000").
   Python's "%w.pf" % x and format(x, "w.pf") convert the exact binary value with correct
   (round-half-even on the exact value) rounding; that is what [quant]/[py_fmt] compute.

   Constants (widths, precisions, per-line counts, unit table) come from Gen/CodecTables.v, which the
   translator of harness/props/C01.py regenerates from /repo's sources on every run. *)
From Coq Require Import ZArith Ascii String Bool List.
Import ListNotations.
Require Import MD.Gen.CodecTables.
Open Scope Z_scope.

(* ------------------------------------------------------------------ dyadic numbers *)
Record dy := Dy { dneg : bool; dmag : Z; dexp : Z }.

(* 2^k for k >= 0, computed by a shift (Z.pow multiplies k times) *)
Definition pow2 (k : Z) : Z := Z.shiftl 1 k.

Definition dnum (x : dy) : Z := dmag x * pow2 (Z.max (dexp x) 0).      (* |x| = dnum / dden *)
Definition dden (x : dy) : Z := pow2 (Z.max (- dexp x) 0).
Definition snum (x : dy) : Z := if dneg x then - dnum x else dnum x.   (* x = snum / dden *)

Definition dy_eqb (a b : dy) : bool :=
  Bool.eqb (dneg a) (dneg b) && (dnum a * dden b =? dnum b * dden a).

(* n/d rounded to the nearest integer, ties to even (n >= 0, d > 0) *)
Definition rnd_hev (n d : Z) : Z :=
  let (q, r) := Z.div_eucl n d in
  if 2 * r <? d then q else if d <? 2 * r then q + 1 else if Z.even q then q else q + 1.

(* |x| * 10^p rounded half-even: the integer whose digits "%.pf" prints *)
Definition quant (p : nat) (x : dy) : Z := rnd_hev (dnum x * 10 ^ Z.of_nat p) (dden x).

(* ------------------------------------------------------------------ binary32 rounding *)
Definition bitlen (m : Z) : Z := if m <=? 0 then 0 else Z.log2 m + 1.

(* nearest binary32 (ties to even), subnormals included; overflow to infinity is outside the model:
   every use is guarded by |x| < 2^128 (field limits are far smaller) *)
Definition rnd32 (x : dy) : dy :=
  let sh := Z.max (bitlen (dmag x) - 24) (-149 - dexp x) in
  if sh <=? 0 then x else Dy (dneg x) (rnd_hev (dmag x) (pow2 sh)) (dexp x + sh).

Definition dscale (k : Z) (x : dy) : dy := Dy (dneg x) (dmag x * k) (dexp x).

(* in_units_of(xyz, "nanometers", "angstroms"): float32 array times the Python float 10.0 *)
Definition f32_mul (k : Z) (x : dy) : dy := rnd32 (dscale k x).
Definition to_file_unit (angstrom : bool) (x : dy) : dy := if angstrom then f32_mul ang_per_nm x else x.

(* ------------------------------------------------------------------ decimal text *)
Definition digit (d : Z) : ascii := ascii_of_N (Z.to_N (48 + d)).

(* the k least significant decimal digits of n, most significant first *)
Fixpoint digs (k : nat) (n : Z) : list ascii :=
  match k with
  | O => []
  | S k' => let (q, r) := Z.div_eucl n 10 in digs k' q ++ [digit r]
  end.

Fixpoint ndigits_aux (fuel : nat) (n : Z) : nat :=
  match fuel with
  | O => 1%nat
  | S f => if n <? 10 then 1%nat else S (ndigits_aux f (n / 10))
  end.
(* number of decimal digits of n >= 0 (1 for n = 0) *)
Definition ndigits (n : Z) : nat := ndigits_aux (Z.to_nat (Z.log2 n) + 1) n.

Definition sp : ascii := " "%char.
Definition body (p : nat) (neg : bool) (q : Z) : list ascii :=
  let ip := q / 10 ^ Z.of_nat p in
  let fp := q mod 10 ^ Z.of_nat p in
  (if neg then ["-"%char] else []) ++ digs (ndigits ip) ip ++
  (match p with O => [] | _ => "."%char :: digs p fp end).

Definition pad (w : nat) (s : list ascii) : list ascii := repeat sp (w - length s) ++ s.

(* Python:  "%w.pf" % x   (never truncates: the result is longer than w when the number needs it) *)
Definition py_fmt (w p : nat) (x : dy) : list ascii := pad w (body p (dneg x) (quant p x)).

(* a fixed-width field with the overflow check mdcrd.py performs (len(out) > w -> ValueError) *)
Definition field (w p : nat) (x : dy) : option (list ascii) :=
  let s := py_fmt w p x in if (length s =? w)%nat then Some s else None.

(* ---- float(): the sub-language of decimal numbers mdtraj's writers emit ---- *)
Definition is_digit (c : ascii) : bool :=
  let n := N_of_ascii c in ((48 <=? n) && (n <=? 57))%N.
Definition dval (c : ascii) : Z := Z.of_N (N_of_ascii c) - 48.

Fixpoint take_digits (s : list ascii) (acc : Z) (cnt : nat) : Z * nat * list ascii :=
  match s with
  | c :: r => if is_digit c then take_digits r (acc * 10 + dval c) (S cnt) else (acc, cnt, s)
  | [] => (acc, cnt, [])
  end.

Fixpoint skip_spaces (s : list ascii) : list ascii :=
  match s with
  | c :: r => if Ascii.eqb c sp then skip_spaces r else s
  | [] => []
  end.

Definition all_spaces (s : list ascii) : bool := match skip_spaces s with [] => true | _ => false end.

(* a parsed decimal: (negative?, all digits as one integer q, number of decimals d): value = +-q/10^d *)
Definition num := (bool * Z * nat)%type.

Definition split_sign (s1 : list ascii) : bool * list ascii :=
  match s1 with
  | c :: r => if Ascii.eqb c "-"%char then (true, r) else (false, s1)
  | [] => (false, s1)
  end.

Definition parse_num (s : list ascii) : option num :=
  let '(neg, s2) := split_sign (skip_spaces s) in
  let '(ip, ci, s3) := take_digits s2 0 0%nat in
  if (ci =? 0)%nat then None else
  match s3 with
  | [] => Some (neg, ip, 0%nat)
  | c :: r =>
      if Ascii.eqb c "."%char then
        let '(q, cf, s4) := take_digits r ip 0%nat in
        if all_spaces s4 then Some (neg, q, cf) else None
      else if all_spaces s3 then Some (neg, ip, 0%nat) else None
  end.

Definition num_eqb (a b : num) : bool :=
  let '(n1, q1, d1) := a in let '(n2, q2, d2) := b in
  Bool.eqb n1 n2 && (q1 =? q2) && (d1 =? d2)%nat.

(* ------------------------------------------------------------------ pdbfile.py:_format_83 *)
Definition lt_q (x : dy) (cn cd : Z) : bool := snum x * cd <? cn * dden x.   (* x < cn/cd *)
Definition gt_q (x : dy) (cn cd : Z) : bool := cn * dden x <? snum x * cd.   (* cn/cd < x *)

Definition format_83 (x : dy) : option (list ascii) :=
  if gt_q x f83_lo1_num f83_lo1_den && lt_q x f83_hi1_num f83_hi1_den then Some (py_fmt pdb_w pdb_p x)
  else if gt_q x f83_lo2_num f83_lo2_den && lt_q x f83_hi2_num f83_hi2_den
       then Some (firstn f83_cut (py_fmt pdb_w pdb_p x))
  else None.

(* what a reader gets from a _format_83 field: the decimals that survive the cut, the digits truncated *)
Definition f83_kept (x : dy) : nat := (pdb_p - Nat.min pdb_p (length (py_fmt pdb_w pdb_p x) - f83_cut))%nat.
Definition f83_num (x : dy) : num :=
  (dneg x, quant pdb_p x / 10 ^ Z.of_nat (pdb_p - f83_kept x), f83_kept x).

Fixpoint map_opt {A B} (f : A -> option B) (l : list A) : option (list B) :=
  match l with
  | [] => Some []
  | a :: r => match f a, map_opt f r with Some b, Some br => Some (b :: br) | _, _ => None end
  end.

(* columns 31-54 of an ATOM record; [None] = ValueError of _format_83 *)
Definition pdb_atom_cols (xyz : list dy) : option (list ascii) :=
  match map_opt format_83 xyz with Some fs => Some (concat fs) | None => None end.

(* "CRYST1{:9.3f}{:9.3f}{:9.3f}{:7.2f}{:7.2f}{:7.2f} P 1           1 " *)
Definition cryst1_line (lens angs : list dy) : list ascii :=
  list_ascii_of_string "CRYST1" ++
  concat (map (py_fmt cryst_len_w cryst_len_p) lens) ++
  concat (map (py_fmt cryst_ang_w cryst_ang_p) angs) ++
  list_ascii_of_string " P 1           1 ".

(* pdbstructure.py reads fixed columns *)
Fixpoint slices (w : nat) (k : nat) (s : list ascii) : list (list ascii) :=
  match k with
  | O => []
  | S k' => firstn w s :: slices w k' (skipn w s)
  end.

Definition pdb_read_cols (cols : list ascii) : option (list num) :=
  map_opt parse_num (slices pdb_w 3 cols).

(* ------------------------------------------------------------------ mdcrd.py *)
(* consecutive groups of n elements (the last one may be shorter) *)
Fixpoint chunks_fuel {A} (fuel n : nat) (l : list A) : list (list A) :=
  match fuel with
  | O => []
  | S f => match l with [] => [] | _ => firstn n l :: chunks_fuel f n (skipn n l) end
  end.
Definition chunks {A} (n : nat) (l : list A) : list (list A) := chunks_fuel (length l) n l.

Definition line := list ascii.

(* MDCRDTrajectoryFile.write for one frame: numbers are already in angstroms (float32) *)
Definition mdcrd_box_line (b : list dy) : line :=
  match b with
  | [a; b'; c] => py_fmt mdcrd_box_w mdcrd_box_p a ++ [sp] ++ py_fmt mdcrd_box_w mdcrd_box_p b' ++ [sp]
                  ++ py_fmt mdcrd_box_w mdcrd_box_p c
  | _ => []
  end.

Definition mdcrd_frame_lines (cs : list dy) (box : option (list dy)) : option (list line) :=
  match map_opt (field mdcrd_w mdcrd_p) cs with
  | None => None                                     (* ValueError("Overflow error") *)
  | Some fs => Some (map (@concat ascii) (chunks mdcrd_per_line fs) ++
                     match box with Some b => [mdcrd_box_line b] | None => [] end)
  end.

Fixpoint mdcrd_file_lines (frames : list (list dy * option (list dy))) : option (list line) :=
  match frames with
  | [] => Some []
  | (cs, b) :: r => match mdcrd_frame_lines cs b, mdcrd_file_lines r with
                    | Some l, Some lr => Some (l ++ lr)
                    | _, _ => None
                    end
  end.

(* Trajectory.save_mdcrd: nm -> angstrom in float32, then write *)
Definition save_mdcrd (frames : list (list dy * option (list dy))) : option (list line) :=
  mdcrd_file_lines (map (fun f => (map (to_file_unit true) (fst f),
                                   match snd f with Some b => Some (map (to_file_unit true) b) | None => None end))
                        frames).

(* ---- reader ---- *)
Inductive rerr := EParse | ESize | EBox | EValue | EInconsistent.
Inductive res (A : Type) := Ok (a : A) | Er (e : rerr).
Arguments Ok {A} a. Arguments Er {A} e.

(* str.rstrip() on spaces *)
Definition rstrip (s : list ascii) : list ascii := rev (skip_spaces (rev s)).

(* [float(line[j:j+w]) for j in range(0, len(line.rstrip()), w)] *)
Fixpoint col_fields (fuel : nat) (w : nat) (s : list ascii) (remaining : nat) : list (list ascii) :=
  match fuel with
  | O => []
  | S f => match remaining with
           | O => []
           | _ => firstn w s :: col_fields f w (skipn w s) (remaining - w)
           end
  end.
Definition line_items (w : nat) (l : line) : option (list num) :=
  let n := length (rstrip l) in
  map_opt parse_num (col_fields (S n) w l n).

(* str.split() on spaces *)
Fixpoint split_ws_aux (s : list ascii) (cur : list ascii) : list (list ascii) :=
  match s with
  | [] => match cur with [] => [] | _ => [rev cur] end
  | c :: r => if Ascii.eqb c sp
              then match cur with [] => split_ws_aux r [] | _ => rev cur :: split_ws_aux r [] end
              else split_ws_aux r (c :: cur)
  end.
Definition split_ws (s : list ascii) : list (list ascii) := split_ws_aux s [].

Inductive hasbox := HBtrue | HBfalse | HBdetect.

(* coordinate lines of one frame: consume lines until 3*n_atoms numbers are read *)
Fixpoint mdcrd_read_coords (need : nat) (ls : list line) (acc : list num)
  : res (option (list num * list line)) :=            (* Ok None = _EOF *)
  match ls with
  | [] => Ok None
  | l :: r =>
      match line_items mdcrd_rw l with
      | None => Er EParse
      | Some items =>
          let k := length items in
          if ((k =? 0) || (10 <? k))%nat then Er EParse
          else if (need <? k)%nat then Er ESize
          else if (need =? k)%nat then Ok (Some (acc ++ items, r))
          else mdcrd_read_coords (need - k) r (acc ++ items)
      end
  end.

(* the peek-ahead for a box line.  [strict = true] is today's code: float() of every token, a
   token that is not a number raises ValueError which nothing catches.  [strict = false] is the
   minimal repair: a line that is not three numbers is simply not a box line. *)
Definition mdcrd_peek (strict : bool) (hb : hasbox) (ls : list line) : res (option (list num) * list line) :=
  match hb with
  | HBfalse => Ok (None, ls)
  | _ =>
      let l := match ls with [] => [] | l :: _ => l end in
      match map_opt parse_num (split_ws l) with
      | None => if strict then Er EValue
                else match hb with HBtrue => Er EBox | _ => Ok (None, ls) end
      | Some toks =>
          if (length toks =? 3)%nat then Ok (Some toks, tl ls)
          else match hb with HBtrue => Er EBox | _ => Ok (None, ls) end
      end
  end.

Definition mframe := (list num * option (list num))%type.

Fixpoint mdcrd_read_frames (fuel : nat) (strict : bool) (hb : hasbox) (n_atoms : nat) (ls : list line)
  : res (list mframe) :=
  match fuel with
  | O => Ok []
  | S f =>
      match mdcrd_read_coords (3 * n_atoms) ls [] with
      | Er e => Er e
      | Ok None => Ok []
      | Ok (Some (cs, r)) =>
          match mdcrd_peek strict hb r with
          | Er e => Er e
          | Ok (b, r') =>
              match mdcrd_read_frames f strict hb n_atoms r' with
              | Er e => Er e
              | Ok fs => Ok ((cs, b) :: fs)
              end
          end
      end
  end.

Definition boxes_consistent (fs : list mframe) : bool :=
  forallb (fun f => match snd f with None => true | _ => false end) fs ||
  forallb (fun f => match snd f with None => false | _ => true end) fs.

(* MDCRDTrajectoryFile.read() on the lines after the title *)
Definition mdcrd_read (strict : bool) (hb : hasbox) (n_atoms : nat) (ls : list line) : res (list mframe) :=
  match mdcrd_read_frames (S (length ls)) strict hb n_atoms ls with
  | Er e => Er e
  | Ok fs => if boxes_consistent fs then Ok fs else Er EInconsistent
  end.

Definition mdcrd_read_cur := mdcrd_read true.
Definition mdcrd_read_fix := mdcrd_read false.

(* what a reader has to return for a written frame: the quantised angstrom numbers *)
Definition qnum (p : nat) (x : dy) : num := (dneg x, quant p x, p).
Definition mdcrd_expect (f : list dy * option (list dy)) : mframe :=
  (map (qnum mdcrd_p) (fst f), match snd f with Some b => Some (map (qnum mdcrd_box_p) b) | None => None end).

(* ------------------------------------------------------------------ gro.py *)
(* coordinate part of an atom line: three "%(p+5).pf" fields after the 20-column prefix *)
Definition gro_coord_cols (p : nat) (xyz : list dy) : list ascii :=
  concat (map (py_fmt (p + gro_extra) p) xyz).
Definition gro_box_line (b : list dy) : list ascii :=
  concat (map (py_fmt gro_box_w gro_box_p) b).

Fixpoint index_from (c : ascii) (s : list ascii) (i : nat) : option nat :=
  match s with
  | [] => None
  | a :: r => if Ascii.eqb a c then Some i else index_from c r (S i)
  end.

(* _read_frame/_parse_gro_coord on the part of the line after column 20:
   the field width is the distance between the first two decimal points *)
Definition gro_read_cols (cols : list ascii) : option (list num) :=
  match index_from "."%char cols 0%nat with
  | None => None
  | Some d1 =>
      match index_from "."%char (skipn (S d1) cols) (S d1) with
      | None => None
      | Some d2 => map_opt parse_num (slices (d2 - d1) 3 cols)
      end
  end.

(* ------------------------------------------------------------------ xyz / lammpstrj tokens *)
Definition tok_coords (w p : nat) (xyz : list dy) : list ascii :=
  concat (map (fun x => sp :: py_fmt w p x) xyz).
Definition tok_read (s : list ascii) : option (list num) := map_opt parse_num (split_ws s).

(* ------------------------------------------------------------------ rst7 (amberrst.py) *)
(* coordinate lines: "%12.7f" x 3 per atom, newline after every second atom and at the end *)
Definition rst7_coord_lines (cs : list dy) : list line :=
  map (@concat ascii) (chunks 6 (map (py_fmt rst7_w rst7_p) cs)).
Definition rst7_box_line (lens angs : list dy) : line :=
  concat (map (py_fmt rst7_w rst7_p) (lens ++ angs)).

(* ------------------------------------------------------------------ multi-file restart writers *)
(* Trajectory.save_amberrst7 / save_netcdfrst.  A trajectory is a list of frames, each frame carries
   (payload, time); the cell is one optional list (None = no unit cell at all).  A written file is
   (suffix, payload, time, cell). *)
Section Restart.
  Variables (P T C : Type).
  Inductive rst_variant := RstCur | RstFix.
  Definition rfile := (option (list ascii) * P * T * option C)%type.

  Definition zero_pad (w : nat) (n : Z) : list ascii :=
    let k := ndigits n in repeat "0"%char (w - k) ++ digs k n.

  (* time written into file i *)
  Definition rst_time (time0_everywhere : bool) (t0 : T) (t : T) : T := if time0_everywhere then t0 else t.

  (* cell of frame i: lengths[i] on a None raises TypeError in today's code *)
  Definition rst_cell (v : rst_variant) (cells : option (list C)) (i : nat) : option (option C) :=
    match cells with
    | Some l => match nth_error l i with Some c => Some (Some c) | None => None end
    | None => match v with RstCur => None | RstFix => Some None end
    end.

  Fixpoint rst_files (v : rst_variant) (time0 : bool) (w : nat) (t0 : T) (cells : option (list C))
           (i : nat) (frames : list (P * T)) : option (list rfile) :=
    match frames with
    | [] => Some []
    | (p, t) :: r =>
        match rst_cell v cells i, rst_files v time0 w t0 cells (S i) r with
        | Some c, Some fs => Some ((Some (zero_pad w (Z.of_nat (S i))), p, rst_time time0 t0 t, c) :: fs)
        | _, _ => None
        end
    end.

  (* time0 = true: save_amberrst7 as found (time=self.time[0] in the loop) *)
  Definition save_restart (v : rst_variant) (time0 : bool) (cells : option (list C)) (frames : list (P * T))
    : option (list rfile) :=
    match frames with
    | [] => None
    | [(p, t)] => Some [(None, p, t, match cells with Some (c :: _) => Some c | _ => None end)]
    | (_, t0) :: _ => rst_files v time0 (ndigits (Z.of_nat (length frames))) t0 cells 0%nat frames
    end.
End Restart.
Arguments save_restart {P T C}.
Arguments rst_files {P T C}.

(* ------------------------------------------------------------------ dispatch tables *)
Fixpoint assoc {B} (k : string) (l : list (string * B)) : option B :=
  match l with
  | [] => None
  | (a, b) :: r => if String.eqb a k then Some b else assoc k r
  end.

(* unit (true = angstrom) of the file written for an extension, through _savers and the class table *)
Definition unit_of_ext (ext : string) : option bool :=
  match assoc ext savers_table with
  | None => None
  | Some m => match assoc m saver_class with
              | None => None
              | Some (cls, _) => assoc cls units_table
              end
  end.

(* ------------------------------------------------------------------ unit attributes (format standards) *)
(* the "units" attribute of the variables of the self-describing containers: MDTraj HDF5 (nanometers,
   picoseconds, degrees), AMBER NetCDF trajectory and restart conventions (angstrom, picosecond, degree).
   /repo's strings are regenerated into Gen/CodecTables.v:src_unit_attrs and obliged to coincide with these by
   Props/C01.v:unit_attributes_standard (the run-time check reads the attributes of every written file with
   PyTables / netCDF4 as well).  TRR and XTC carry no unit attributes: nanometres and picoseconds by the GROMACS
   convention, DCD angstrom by the CHARMM/NAMD convention. *)
Definition unit_attrs_std : list (string * list (string * string)) := [
  ("h5", [("cell_angles", "degrees"); ("cell_lengths", "nanometers"); ("coordinates", "nanometers"); ("time", "picoseconds")]);
  ("nc", [("cell_angles", "degree"); ("cell_lengths", "angstrom"); ("coordinates", "angstrom"); ("time", "picosecond")]);
  ("ncrst", [("cell_angles", "degree"); ("cell_lengths", "angstrom"); ("coordinates", "angstrom"); ("time", "picosecond")])
]%string.
