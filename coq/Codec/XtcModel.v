(* Executable model of the XTC coordinate codec (mdtraj/formats/xtc/src/xdrfile.c:
   xdrfile_compress_coord_float / xdrfile_decompress_coord_float, sizeofint(s), encodebits/decodebits,
   encodeints/decodeints) and of the frame layout of xdrfile_xtc.c.  No proofs in this file.

   Two levels.  (1) The bit buffer of the C code -- bytes written so far, `lastbits`, `lastbyte` -- is
   transcribed literally ([cbuf], [c_encodebits], [c_flush], [c_decodebits]).  (2) The frame codec is written
   over the abstraction "a list of bits, most significant first" ([bits_of]/[get_bits]); XtcBitsProofs.v shows
   that c_encodebits / c_flush / c_decodebits implement exactly this abstraction (unmasked ORs and the 32-bit
   truncation of lastbyte included).
   The multi-byte arithmetic of encodeints/decodeints/sizeofints (bytes[32] with carries) is modelled by
   arithmetic on Z; sizes are < 2^24 on this path (checked by the caller in the C code), so no 32-bit
   carry overflows.  `tmpsum` wraps at 32 bits as in the compiled code.  Out-of-bounds reads of magicints[]
   (only for consecutive atoms more than 2.6 micrometres apart) are outside the model: [xtc_encode]
   answers None. *)
From Coq Require Import ZArith Ascii String Bool List.
Import ListNotations.
Require Import MD.Gen.CodecTables MD.Codec.Model.
Open Scope Z_scope.

(* ------------------------------------------------------------------ bits *)
(* the n low bits of v, most significant first *)
Fixpoint bits_of (n : nat) (v : Z) : list bool :=
  match n with
  | O => []
  | S k => Z.testbit v (Z.of_nat k) :: bits_of k v
  end.

Fixpoint val_of (bs : list bool) (acc : Z) : Z :=
  match bs with
  | [] => acc
  | b :: r => val_of r (2 * acc + (if b then 1 else 0))
  end.


(* read n bits: None when the stream is too short *)
Definition get_bits (n : nat) (s : list bool) : option (Z * list bool) :=
  if (length s <? n)%nat then None else Some (val_of (firstn n s) 0, skipn n s).

(* ---- the C buffer: buf[0] = cnt, buf[1] = lastbits, buf[2] = lastbyte, cbuf = bytes ---- *)
Record cbuf := CBuf { cb_bytes : list Z;        (* cbuf[0..cnt-1], in order *)
                      cb_lastbits : Z;
                      cb_lastbyte : Z }.         (* unsigned int: kept modulo 2^32 *)

Definition u32 (x : Z) : Z := Z.land x 4294967295.
Definition u8 (x : Z) : Z := Z.land x 255.

(* the while (num_of_bits >= 8) loop of encodebits *)
Fixpoint c_enc_loop (fuel : nat) (nb : Z) (num : Z) (b : cbuf) : Z * cbuf :=
  match fuel with
  | O => (nb, b)
  | S f =>
      if 8 <=? nb then
        let lastbyte := u32 (Z.lor (Z.shiftl (cb_lastbyte b) 8) (Z.shiftr num (nb - 8))) in
        c_enc_loop f (nb - 8) num
                   (CBuf (cb_bytes b ++ [u8 (Z.shiftr lastbyte (cb_lastbits b))]) (cb_lastbits b) lastbyte)
      else (nb, b)
  end.

(* static void encodebits(int buf[], int num_of_bits, int num); the trailing partial byte
   cbuf[cnt] = lastbyte << (8 - lastbits) is produced by [c_flush] *)
(* the if (num_of_bits > 0) part after the loop *)
Definition c_enc_tail (b1 : cbuf) (nb : Z) (num : Z) : cbuf :=
  if 0 <? nb then
    let lastbyte := u32 (Z.lor (Z.shiftl (cb_lastbyte b1) nb) num) in
    let lastbits := cb_lastbits b1 + nb in
    if 8 <=? lastbits
    then CBuf (cb_bytes b1 ++ [u8 (Z.shiftr lastbyte (lastbits - 8))]) (lastbits - 8) lastbyte
    else CBuf (cb_bytes b1) lastbits lastbyte
  else b1.

Definition c_encodebits (b : cbuf) (num_of_bits : Z) (num : Z) : cbuf :=
  let '(nb, b1) := c_enc_loop 10 num_of_bits num b in c_enc_tail b1 nb num.

(* bytes handed to xdrfile_write_opaque: cnt bytes plus the partial one when lastbits != 0 *)
Definition c_flush (b : cbuf) : list Z :=
  if cb_lastbits b =? 0 then cb_bytes b
  else cb_bytes b ++ [u8 (Z.shiftl (cb_lastbyte b) (8 - cb_lastbits b))].

(* reader state: remaining bytes, lastbits, lastbyte *)
Record rbuf := RBuf { rb_bytes : list Z; rb_lastbits : Z; rb_lastbyte : Z }.

Definition next_byte (r : list Z) : Z * list Z := match r with [] => (0, []) | x :: t => (x, t) end.

Fixpoint c_dec_loop (fuel : nat) (nb : Z) (num : Z) (b : rbuf) : Z * Z * rbuf :=
  match fuel with
  | O => (nb, num, b)
  | S f =>
      if 8 <=? nb then
        let '(x, t) := next_byte (rb_bytes b) in
        let lastbyte := u32 (Z.lor (Z.shiftl (rb_lastbyte b) 8) x) in
        c_dec_loop f (nb - 8) (Z.lor num (Z.shiftl (Z.shiftr lastbyte (rb_lastbits b)) (nb - 8)))
                   (RBuf t (rb_lastbits b) lastbyte)
      else (nb, num, b)
  end.

(* static int decodebits(int buf[], int num_of_bits) *)
Definition c_decodebits (b : rbuf) (num_of_bits : Z) : Z * rbuf :=
  let mask := Z.shiftl 1 num_of_bits - 1 in
  let '(nb, num, b1) := c_dec_loop 5 num_of_bits 0 b in
  if 0 <? nb then
    let '(lastbits, lastbyte, t) :=
      if rb_lastbits b1 <? nb
      then let '(x, t) := next_byte (rb_bytes b1) in
           (rb_lastbits b1 + 8, u32 (Z.lor (Z.shiftl (rb_lastbyte b1) 8) x), t)
      else (rb_lastbits b1, rb_lastbyte b1, rb_bytes b1) in
    let lastbits' := lastbits - nb in
    let num' := Z.lor num (Z.land (Z.shiftr lastbyte lastbits') (Z.shiftl 1 nb - 1)) in
    (Z.land num' mask, RBuf t lastbits' lastbyte)
  else (Z.land num mask, b1).

(* bytes <-> bits *)
Definition byte_bits (x : Z) : list bool := bits_of 8 x.
Definition bytes_to_bits (l : list Z) : list bool := concat (map byte_bits l).
Fixpoint bits_to_bytes (fuel : nat) (s : list bool) : list Z :=
  match fuel with
  | O => []
  | S f => match s with
           | [] => []
           | _ => val_of (firstn 8 (s ++ repeat false 7)) 0 :: bits_to_bytes f (skipn 8 s)
           end
  end.
Definition pack_bits (s : list bool) : list Z := bits_to_bytes (S (length s)) s.

(* ------------------------------------------------------------------ the XTC format standard *)
(* Constants of the XTC file format (GROMACS xdrfile library): the table of "magic" integers, the first index
   used, the atom count up to which coordinates are stored as raw floats, the precision mdtraj writes with and
   the frame magic number.  They are NOT taken from /repo: the Gallina decoder is the independent reader of the
   property.  The values found in /repo's sources (the src_xtc constants of Gen/CodecTables.v) are obliged to coincide with
   them by Props/C01.v:xtc_format_standard, so the model is the model of the code exactly when that holds. *)
Definition xtc_magicints : list Z := [
  0; 0; 0; 0; 0; 0; 0; 0; 0; 8; 10; 12; 16; 20; 25; 32; 40; 50; 64;
  80; 101; 128; 161; 203; 256; 322; 406; 512; 645; 812; 1024; 1290;
  1625; 2048; 2580; 3250; 4096; 5060; 6501; 8192; 10321; 13003;
  16384; 20642; 26007; 32768; 41285; 52015; 65536; 82570; 104031;
  131072; 165140; 208063; 262144; 330280; 416127; 524287; 660561;
  832255; 1048576; 1321122; 1664510; 2097152; 2642245; 3329021;
  4194304; 5284491; 6658042; 8388607; 10568983; 13316085; 16777216].
Definition xtc_firstidx : Z := 9.
Definition xtc_prec : Z := 1000.
Definition xtc_raw_max_atoms : Z := 9.
Definition xtc_magic : Z := 1995.

(* ------------------------------------------------------------------ sizes *)
Definition magic (i : Z) : Z := nth (Z.to_nat i) xtc_magicints 0.
Definition lastidx : Z := Z.of_nat (length xtc_magicints).

(* static int sizeofint(int size): smallest n with size < 2^n, at most 32 *)
Fixpoint sizeofint_aux (fuel : nat) (size num nbits : Z) : Z :=
  match fuel with
  | O => nbits
  | S f => if (num <=? size) && (nbits <? 32) then sizeofint_aux f size (2 * num) (nbits + 1) else nbits
  end.
Definition sizeofint (size : Z) : Z := sizeofint_aux 33 size 1 0.

(* static int sizeofints(int n, unsigned sizes[]): bits of the product (the C code multiplies into bytes[]) *)
Definition prod (l : list Z) : Z := fold_left Z.mul l 1.
Definition sizeofints (sizes : list Z) : Z := bitlen (prod sizes).

(* ------------------------------------------------------------------ small groups of integers *)
(* mixed radix: ((n0 * s1 + n1) * s2 + n2); sizes[0] is never used by the C code *)
Fixpoint mixed (sizes nums : list Z) (acc : Z) : Z :=
  match sizes, nums with
  | s :: sr, n :: nr => mixed sr nr (acc * s + n)
  | _, _ => acc
  end.
Definition mixed_radix (sizes nums : list Z) : Z :=
  match sizes, nums with
  | _ :: sr, n :: nr => mixed sr nr n
  | _, _ => 0
  end.

(* layout of a multi-byte value in num_of_bits bits: low byte first, the last (partial) group holds the
   remaining high bits *)
Fixpoint le_bits (fuel : nat) (nbits : Z) (v : Z) : list bool :=
  match fuel with
  | O => []
  | S f => if nbits <=? 8 then bits_of (Z.to_nat nbits) v
           else bits_of 8 v ++ le_bits f (nbits - 8) (Z.shiftr v 8)
  end.

(* the bits encodeints appends to the buffer *)
Definition encodeints (nbits : Z) (sizes nums : list Z) : list bool :=
  le_bits 40 nbits (mixed_radix sizes nums).

Fixpoint get_le (fuel : nat) (nbits : Z) (s : list bool) (shift : Z) (acc : Z) : option (Z * list bool) :=
  match fuel with
  | O => None
  | S f => if nbits <=? 8
           then match get_bits (Z.to_nat nbits) s with
                | Some (v, r) => Some (acc + Z.shiftl v shift, r)
                | None => None
                end
           else match get_bits 8 s with
                | Some (v, r) => get_le f (nbits - 8) r (shift + 8) (acc + Z.shiftl v shift)
                | None => None
                end
  end.

(* nums[i] for i = n-1 .. 1 by repeated division, nums[0] is what is left *)
Fixpoint unmix (rsizes : list Z) (v : Z) (acc : list Z) : list Z :=
  match rsizes with
  | [] => v :: acc
  | s :: r => unmix r (v / s) (v mod s :: acc)
  end.

Definition decodeints (nbits : Z) (sizes : list Z) (s : list bool) : option (list Z * list bool) :=
  match get_le 40 nbits s 0 0 with
  | Some (v, r) => Some (unmix (rev (tl sizes)) v [], r)
  | None => None
  end.

(* ------------------------------------------------------------------ quantisation *)
Definition triple := (Z * Z * Z)%type.

(* p + 0.5 / p - 0.5 exactly *)
Definition add_half (p : dy) : dy :=
  if 0 <=? dexp p then Dy (dneg p) (2 * dmag p * pow2 (dexp p) + 1) (-1)
  else Dy (dneg p) (dmag p + pow2 (- dexp p - 1)) (dexp p).

(* lf = *lfp * precision +- 0.5 (float product, double sum, stored to a float); lint = (int) lf *)
Definition xtc_lint (x : dy) : Z :=
  let p := rnd32 (dscale xtc_prec x) in
  let p' := if dneg p && (dmag p =? 0) then Dy false 0 0 else p in      (* -0.0 >= 0.0 *)
  let s := rnd32 (add_half p') in
  let t := dnum s / dden s in
  if dneg s then - t else t.

Definition int_max : Z := 2147483647.

(* ------------------------------------------------------------------ frame encoder *)
Definition tsub (a b : triple) : triple :=
  let '(a0, a1, a2) := a in let '(b0, b1, b2) := b in (a0 - b0, a1 - b1, a2 - b2).
Definition tlist (a : triple) : list Z := let '(a0, a1, a2) := a in [a0; a1; a2].
Definition all_lt (a : triple) (bound : Z) : bool :=
  let '(a0, a1, a2) := a in (Z.abs a0 <? bound) && (Z.abs a1 <? bound) && (Z.abs a2 <? bound).
Definition sumsq (a : triple) : Z := let '(a0, a1, a2) := a in a0 * a0 + a1 * a1 + a2 * a2.
Definition l1 (a : triple) : Z := let '(a0, a1, a2) := a in Z.abs a0 + Z.abs a1 + Z.abs a2.

Definition tmin (a b : triple) : triple :=
  let '(a0, a1, a2) := a in let '(b0, b1, b2) := b in (Z.min a0 b0, Z.min a1 b1, Z.min a2 b2).
Definition tmax (a b : triple) : triple :=
  let '(a0, a1, a2) := a in let '(b0, b1, b2) := b in (Z.max a0 b0, Z.max a1 b1, Z.max a2 b2).

(* a C int: values beyond 2^31 wrap (undefined behaviour in C; two's complement wrap-around is what the
   compiled code does) *)
Definition wrap32 (x : Z) : Z :=
  let y := Z.land x 4294967295 in if y <? 2147483648 then y else y - 4294967296.

(* diff = abs(..)+abs(..)+abs(..) is an int: for atoms more than 2^31/1000 nm apart (L1) it wraps, which only
   changes the starting smallidx *)
Fixpoint mindiff_aux (prev : triple) (cs : list triple) (m : Z) : Z :=
  match cs with
  | [] => m
  | c :: r => mindiff_aux c r (Z.min m (wrap32 (l1 (tsub prev c))))
  end.
Definition mindiff (cs : list triple) : Z :=
  match cs with [] => int_max | c :: r => mindiff_aux c r int_max end.

Fixpoint first_idx (fuel : nat) (idx : Z) (md : Z) : Z :=
  match fuel with
  | O => idx
  | S f => if (idx <? lastidx) && (magic idx <? md) then first_idx f (idx + 1) md else idx
  end.

(* how absolute coordinates are written: sizeint, bitsize (0 = three separate fields of bitsizeint bits) *)
Record absfmt := AbsFmt { af_min : triple; af_sizes : list Z; af_bitsize : Z; af_bits : list Z }.

Definition mk_absfmt (mn mx : triple) : absfmt :=
  let sizes := map (fun d => d + 1) (tlist (tsub mx mn)) in
  if existsb (fun s => 16777215 <? s) sizes        (* (sizeint[0] | sizeint[1] | sizeint[2]) > 0xffffff *)
  then AbsFmt mn sizes 0 (map sizeofint sizes)
  else AbsFmt mn sizes (sizeofints sizes) [0; 0; 0].

(* bits of one absolute coordinate *)
Definition put_abs (f : absfmt) (c : triple) : list bool :=
  let '(t0, t1, t2) := tsub c (af_min f) in
  if af_bitsize f =? 0
  then match af_bits f with
       | [n0; n1; n2] => bits_of (Z.to_nat n0) t0 ++ bits_of (Z.to_nat n1) t1 ++ bits_of (Z.to_nat n2) t2
       | _ => []
       end
  else encodeints (af_bitsize f) (af_sizes f) [t0; t1; t2].

(* the inner while (is_small && run < 8*3) loop: consumes atoms while they stay within smallnum of the
   previous one; returns the deltas (+smallnum), the remaining atoms, the last atom, is_smaller *)
Fixpoint small_run (fuel : nat) (smallnum smaller : Z) (prev : triple) (cs : list triple)
         (run : Z) (is_smaller : Z) (acc : list (list Z))
  : list (list Z) * list triple * triple * Z * Z :=
  match fuel with
  | O => (rev acc, cs, prev, run, is_smaller)
  | S f =>
      match cs with
      | [] => (rev acc, cs, prev, run, is_smaller)
      | c :: r =>
          let d := tsub c prev in
          (* tmpsum and smaller*smaller are C ints: beyond 2^31 they wrap (undefined behaviour in C; two's
             complement wrap-around is what the compiled code does, and only the choice of is_smaller,
             i.e. compression efficiency, depends on it) *)
          let is_smaller' := if (is_smaller =? -1) && (wrap32 (smaller * smaller) <=? wrap32 (sumsq d)) then 0 else is_smaller in
          let acc' := map (fun x => x + smallnum) (tlist d) :: acc in
          let run' := run + 3 in
          let continue := match r with
                          | [] => false
                          | c2 :: _ => all_lt (tsub c2 c) smallnum
                          end in
          if continue && (run' <? 24) then small_run f smallnum smaller c r run' is_smaller' acc'
          else (rev acc', r, c, run', is_smaller')
      end
  end.

Record encstate := EncSt { es_smallidx : Z; es_smaller : Z; es_smallnum : Z; es_prevrun : Z }.

(* flag bit (+ 5 bits run+is_smaller+1) telling whether the run length or the small size changes *)
Definition enc_flags (prevrun run is_smaller : Z) : list bool :=
  if negb (run =? prevrun) || negb (is_smaller =? 0) then [true] ++ bits_of 5 (run + is_smaller + 1) else [false].

(* smallidx += is_smaller and the sizes that go with it; prevrun = run *)
Definition enc_update (st : encstate) (is_smaller run : Z) : encstate :=
  if is_smaller =? 0 then EncSt (es_smallidx st) (es_smaller st) (es_smallnum st) run
  else let idx := es_smallidx st + is_smaller in
       if is_smaller <? 0 then EncSt idx (magic (idx - 1) / 2) (es_smaller st) run
       else EncSt idx (es_smallnum st) (magic idx / 2) run.

(* one pass of the outer while (i < size) loop: new state, last atom, remaining atoms, bits appended *)
Definition enc_group (f : absfmt) (maxidx minidx larger : Z) (first : bool) (st : encstate) (prev : triple)
           (cs : list triple) : option (encstate * triple * list triple * list bool) :=
  match cs with
  | [] => None
  | c :: r =>
      let is_smaller0 :=
        if (es_smallidx st <? maxidx) && negb first && all_lt (tsub c prev) larger then 1
        else if minidx <? es_smallidx st then -1 else 0 in
      (* interchange first with second atom when they are close *)
      let '(c1, r1, is_small) :=
        match r with
        | c2 :: r2 => if all_lt (tsub c c2) (es_smallnum st) then (c2, c :: r2, true) else (c, r, false)
        | [] => (c, r, false)
        end in
      let is_smaller1 := if negb is_small && (is_smaller0 =? -1) then 0 else is_smaller0 in
      let '(deltas, rest, prev', run, is_smaller) :=
        if is_small then small_run 8 (es_smallnum st) (es_smaller st) c1 r1 0 is_smaller1 []
        else ([], r1, c1, 0, is_smaller1) in
      let flagbits := enc_flags (es_prevrun st) run is_smaller in
      let sizesmall := magic (es_smallidx st) in
      let smallbits := concat (map (encodeints (es_smallidx st) [sizesmall; sizesmall; sizesmall]) deltas) in
      let st' := enc_update st is_smaller run in
      Some (st', prev', rest, put_abs f c1 ++ flagbits ++ smallbits)
  end.

Fixpoint enc_loop (fuel : nat) (f : absfmt) (maxidx minidx larger : Z) (first : bool) (st : encstate)
         (prev : triple) (cs : list triple) : option (list bool) :=
  match fuel with
  | O => match cs with [] => Some [] | _ => None end
  | S fu =>
      match cs with
      | [] => Some []
      | _ => match enc_group f maxidx minidx larger first st prev cs with
             | Some (st', prev', rest, bits) =>
                 match enc_loop fu f maxidx minidx larger false st' prev' rest with
                 | Some more => Some (bits ++ more)
                 | None => None
                 end
             | None => None
             end
      end
  end.

(* what xdrfile_compress_coord_float writes after `size` and `precision` for size > 9 *)
Record xtc_payload := XtcPayload { xp_min : triple; xp_max : triple; xp_smallidx : Z; xp_bytes : list Z }.

Definition fold_triples (op : triple -> triple -> triple) (cs : list triple) (d : triple) : triple :=
  match cs with [] => d | c :: r => fold_left op r c end.

Definition xtc_encode (cs : list triple) : option xtc_payload :=
  let mn := fold_triples tmin cs (0, 0, 0) in
  let mx := fold_triples tmax cs (0, 0, 0) in
  let f := mk_absfmt mn mx in
  let smallidx := first_idx 80 xtc_firstidx (mindiff cs) in
  (* guards: reads of magicints[] stay inside the table, tmpsum cannot overflow 32 bits *)
  if (lastidx <=? smallidx + 8) || (existsb (fun s => int_max - 2 <=? s) (af_sizes f)) then None else
  let maxidx := Z.min lastidx (smallidx + 8) in
  let minidx := maxidx - 8 in
  let smaller := magic (Z.max xtc_firstidx (smallidx - 1)) / 2 in
  let smallnum := magic smallidx / 2 in
  let larger := magic maxidx / 2 in
  match enc_loop (length cs) f maxidx minidx larger true (EncSt smallidx smaller smallnum (-1)) (0, 0, 0) cs with
  | Some bits => Some (XtcPayload mn mx smallidx (pack_bits bits))
  | None => None
  end.

(* ------------------------------------------------------------------ the same encoder on the C bit buffer *)
(* What follows threads the byte/lastbits/lastbyte buffer of xdrfile.c through the very calls the C code makes
   (encodebits for the separate fields and the flag bits, encodeints = bytes[] of the mixed-radix value sent
   byte by byte, low byte first, then the remaining high bits or zero padding).  XtcLiftProofs.v proves that the
   bytes this produces are exactly [xp_bytes] of [xtc_encode]: the round-trip theorem speaks about the C layout. *)

(* bytes[0 .. num_of_bytes-1] of encodeints: base-256 digits, low first, at least one *)
Fixpoint le_digits (fuel : nat) (v : Z) : list Z :=
  match fuel with
  | O => [v]
  | S f => if v <? 256 then [v] else v mod 256 :: le_digits f (v / 256)
  end.

Definition c_send_bytes (b : cbuf) (bytes : list Z) : cbuf := fold_left (fun b x => c_encodebits b 8 x) bytes b.

Definition c_encodeints (b : cbuf) (nbits : Z) (sizes nums : list Z) : cbuf :=
  let bytes := le_digits 40 (mixed_radix sizes nums) in
  let k := Z.of_nat (length bytes) in
  if 8 * k <=? nbits
  then c_encodebits (c_send_bytes b bytes) (nbits - 8 * k) 0
  else c_encodebits (c_send_bytes b (removelast bytes)) (nbits - 8 * (k - 1)) (last bytes 0).

Definition c_put_abs (f : absfmt) (c : triple) (b : cbuf) : cbuf :=
  let '(t0, t1, t2) := tsub c (af_min f) in
  if af_bitsize f =? 0
  then match af_bits f with
       | [n0; n1; n2] => c_encodebits (c_encodebits (c_encodebits b n0 t0) n1 t1) n2 t2
       | _ => b
       end
  else c_encodeints b (af_bitsize f) (af_sizes f) [t0; t1; t2].

Definition c_enc_flags (prevrun run is_smaller : Z) (b : cbuf) : cbuf :=
  if negb (run =? prevrun) || negb (is_smaller =? 0)
  then c_encodebits (c_encodebits b 1 1) 5 (run + is_smaller + 1)
  else c_encodebits b 1 0.

(* the decisions of one pass of the outer loop, separated from what is emitted (same code as [enc_group]) *)
Record gplan := GPlan { gp_abs : triple; gp_prevrun : Z; gp_run : Z; gp_is : Z; gp_idx : Z; gp_deltas : list (list Z) }.

Definition enc_plan (maxidx minidx larger : Z) (first : bool) (st : encstate) (prev : triple)
           (cs : list triple) : option (encstate * triple * list triple * gplan) :=
  match cs with
  | [] => None
  | c :: r =>
      let is_smaller0 :=
        if (es_smallidx st <? maxidx) && negb first && all_lt (tsub c prev) larger then 1
        else if minidx <? es_smallidx st then -1 else 0 in
      let '(c1, r1, is_small) :=
        match r with
        | c2 :: r2 => if all_lt (tsub c c2) (es_smallnum st) then (c2, c :: r2, true) else (c, r, false)
        | [] => (c, r, false)
        end in
      let is_smaller1 := if negb is_small && (is_smaller0 =? -1) then 0 else is_smaller0 in
      let '(deltas, rest, prev', run, is_smaller) :=
        if is_small then small_run 8 (es_smallnum st) (es_smaller st) c1 r1 0 is_smaller1 []
        else ([], r1, c1, 0, is_smaller1) in
      Some (enc_update st is_smaller run, prev', rest,
            GPlan c1 (es_prevrun st) run is_smaller (es_smallidx st) deltas)
  end.

Definition emit_bits (f : absfmt) (g : gplan) : list bool :=
  let m := magic (gp_idx g) in
  put_abs f (gp_abs g) ++ enc_flags (gp_prevrun g) (gp_run g) (gp_is g) ++
  concat (map (encodeints (gp_idx g) [m; m; m]) (gp_deltas g)).

Definition c_emit (f : absfmt) (g : gplan) (b : cbuf) : cbuf :=
  let m := magic (gp_idx g) in
  fold_left (fun b d => c_encodeints b (gp_idx g) [m; m; m] d) (gp_deltas g)
            (c_enc_flags (gp_prevrun g) (gp_run g) (gp_is g) (c_put_abs f (gp_abs g) b)).

Fixpoint c_enc_loop_frame (fuel : nat) (f : absfmt) (maxidx minidx larger : Z) (first : bool) (st : encstate)
         (prev : triple) (cs : list triple) (b : cbuf) : option cbuf :=
  match fuel with
  | O => match cs with [] => Some b | _ => None end
  | S fu =>
      match cs with
      | [] => Some b
      | _ => match enc_plan maxidx minidx larger first st prev cs with
             | Some (st', prev', rest, g) => c_enc_loop_frame fu f maxidx minidx larger false st' prev' rest (c_emit f g b)
             | None => None
             end
      end
  end.

(* xdrfile_compress_coord_float on the C buffer: buf2[0..2] = 0, the loop, then buf2[0] bytes (+1 if lastbits) *)
Definition c_xtc_encode (cs : list triple) : option xtc_payload :=
  let mn := fold_triples tmin cs (0, 0, 0) in
  let mx := fold_triples tmax cs (0, 0, 0) in
  let f := mk_absfmt mn mx in
  let smallidx := first_idx 80 xtc_firstidx (mindiff cs) in
  if (lastidx <=? smallidx + 8) || (existsb (fun s => int_max - 2 <=? s) (af_sizes f)) then None else
  let maxidx := Z.min lastidx (smallidx + 8) in
  let minidx := maxidx - 8 in
  let smaller := magic (Z.max xtc_firstidx (smallidx - 1)) / 2 in
  let smallnum := magic smallidx / 2 in
  let larger := magic maxidx / 2 in
  match c_enc_loop_frame (length cs) f maxidx minidx larger true (EncSt smallidx smaller smallnum (-1)) (0, 0, 0) cs
                         (CBuf [] 0 0) with
  | Some b => Some (XtcPayload mn mx smallidx (c_flush b))
  | None => None
  end.

(* ------------------------------------------------------------------ frame decoder *)
Definition get_abs (f : absfmt) (s : list bool) : option (triple * list bool) :=
  let add_min (l : list Z) :=
    match l, af_min f with
    | [a; b; c], (m0, m1, m2) => Some (a + m0, b + m1, c + m2)
    | _, _ => None
    end in
  if af_bitsize f =? 0 then
    match af_bits f with
    | [n0; n1; n2] =>
        match get_bits (Z.to_nat n0) s with
        | Some (a, s1) =>
            match get_bits (Z.to_nat n1) s1 with
            | Some (b, s2) =>
                match get_bits (Z.to_nat n2) s2 with
                | Some (c, s3) => match add_min [a; b; c] with Some t => Some (t, s3) | None => None end
                | None => None
                end
            | None => None
            end
        | None => None
        end
    | _ => None
    end
  else match decodeints (af_bitsize f) (af_sizes f) s with
       | Some (l, r) => match add_min l with Some t => Some (t, r) | None => None end
       | None => None
       end.

(* the for (k = 0; k < run; k += 3) loop: returns the atoms in output order *)
Fixpoint dec_smalls (fuel : nat) (smallidx smallnum : Z) (first : bool) (this prev : triple) (s : list bool)
         (acc : list triple) : option (list triple * list bool) :=
  match fuel with
  | O => Some (rev acc, s)
  | S f =>
      let sz := magic smallidx in
      match decodeints smallidx [sz; sz; sz] s with
      | Some ([a; b; c], r) =>
          let '(p0, p1, p2) := prev in
          let t := (a + p0 - smallnum, b + p1 - smallnum, c + p2 - smallnum) in
          if first
          then (* interchange: the small atom comes out first, then the absolute one *)
               dec_smalls f smallidx smallnum false prev t r (prev :: t :: acc)
          else dec_smalls f smallidx smallnum false t t r (t :: acc)
      | _ => None
      end
  end.

Record decstate := DecSt { ds_smallidx : Z; ds_smaller : Z; ds_smallnum : Z; ds_run : Z }.

Definition dec_flags (drun : Z) (s1 : list bool) : option (Z * Z * list bool) :=
  match get_bits 1 s1 with
  | None => None
  | Some (flag, s2) =>
      if flag =? 1
      then match get_bits 5 s2 with
           | Some (v, s3) => Some (v - v mod 3, v mod 3 - 1, s3)      (* run, is_smaller *)
           | None => None
           end
      else Some (drun, 0, s2)
  end.

Definition dec_update (st : decstate) (is_smaller run : Z) : decstate :=
  let idx := ds_smallidx st + is_smaller in
  if is_smaller <? 0 then
    DecSt idx (if xtc_firstidx <? idx then magic (idx - 1) / 2 else 0) (ds_smaller st) run
  else if 0 <? is_smaller then DecSt idx (ds_smallnum st) (magic idx / 2) run
  else DecSt idx (ds_smaller st) (ds_smallnum st) run.

Definition dec_group (f : absfmt) (st : decstate) (s : list bool)
  : option (decstate * list triple * list bool) :=
  match get_abs f s with
  | None => None
  | Some (c, s1) =>
      match dec_flags (ds_run st) s1 with
      | None => None
      | Some (run, is_smaller, s3) =>
          let body := if 0 <? run
                      then dec_smalls (Z.to_nat (run / 3)) (ds_smallidx st) (ds_smallnum st) true c c s3 []
                      else Some ([c], s3) in
          match body with
          | None => None
          | Some (atoms, s4) =>
              let st' := dec_update st is_smaller run in
              if magic (ds_smallidx st') =? 0 then None else Some (st', atoms, s4)
          end
      end
  end.

Fixpoint dec_loop (fuel : nat) (f : absfmt) (st : decstate) (remaining : Z) (s : list bool) (acc : list triple)
  : option (list triple) :=
  match fuel with
  | O => if remaining =? 0 then Some acc else None
  | S fu =>
      if remaining <=? 0 then (if remaining =? 0 then Some acc else None) else
      match dec_group f st s with
      | Some (st', atoms, s') => dec_loop fu f st' (remaining - Z.of_nat (length atoms)) s' (acc ++ atoms)
      | None => None
      end
  end.

Definition xtc_decode (size : Z) (p : xtc_payload) : option (list triple) :=
  let f := mk_absfmt (xp_min p) (xp_max p) in
  let smallidx := xp_smallidx p in
  let smaller := magic (Z.max xtc_firstidx (smallidx - 1)) / 2 in
  let smallnum := magic smallidx / 2 in
  dec_loop (Z.to_nat size) f (DecSt smallidx smaller smallnum 0) size (bytes_to_bits (xp_bytes p)) [].

(* ------------------------------------------------------------------ file layout (xdrfile_xtc.c) *)
Definition be32 (l : list Z) : option (Z * list Z) :=
  match l with
  | a :: b :: c :: d :: r => Some (Z.shiftl a 24 + Z.shiftl b 16 + Z.shiftl c 8 + d, r)
  | _ => None
  end.
Definition signed32 (x : Z) : Z := if x <? 2147483648 then x else x - 4294967296.

Fixpoint be32s (n : nat) (l : list Z) : option (list Z * list Z) :=
  match n with
  | O => Some ([], l)
  | S k => match be32 l with
           | Some (x, r) => match be32s k r with Some (xs, r') => Some (x :: xs, r') | None => None end
           | None => None
           end
  end.

Inductive xtc_coords :=
  | XRaw (bits : list Z)                         (* natoms <= 9: 3*natoms float32 bit patterns *)
  | XPacked (prec_bits : Z) (p : xtc_payload).

Record xtc_frame := XtcFrame { xf_natoms : Z; xf_step : Z; xf_time : Z; xf_box : list Z; xf_coords : xtc_coords }.

Definition triple_of (l : list Z) : triple := match l with [a; b; c] => (a, b, c) | _ => (0, 0, 0) end.

Definition read_frame (l : list Z) : option (xtc_frame * list Z) :=
  match be32s 4 l with
  | Some ([mg; natoms; step; time], r1) =>
      if negb (mg =? xtc_magic) then None else
      match be32s 9 r1 with
      | Some (box, r2) =>
          match be32 r2 with
          | Some (size, r3) =>
              if negb (size =? natoms) then None else
              if size <=? xtc_raw_max_atoms then
                match be32s (Z.to_nat (3 * size)) r3 with
                | Some (xs, r4) => Some (XtcFrame natoms (signed32 step) time box (XRaw xs), r4)
                | None => None
                end
              else
                match be32s 9 r3 with
                | Some ([prec; m0; m1; m2; x0; x1; x2; smallidx; nbytes], r4) =>
                    let padded := (nbytes + 3) / 4 * 4 in
                    let bytes := firstn (Z.to_nat nbytes) r4 in
                    if (Z.of_nat (length r4) <? padded) then None else
                    Some (XtcFrame natoms (signed32 step) time box
                            (XPacked prec (XtcPayload (signed32 m0, signed32 m1, signed32 m2)
                                                      (signed32 x0, signed32 x1, signed32 x2) (signed32 smallidx) bytes)),
                          skipn (Z.to_nat padded) r4)
                | _ => None
                end
          | None => None
          end
      | None => None
      end
  | _ => None
  end.

Fixpoint read_frames (fuel : nat) (l : list Z) : option (list xtc_frame) :=
  match fuel with
  | O => None
  | S f => match l with
           | [] => Some []
           | _ => match read_frame l with
                  | Some (fr, r) => match read_frames f r with Some frs => Some (fr :: frs) | None => None end
                  | None => None
                  end
           end
  end.
