(* Fixed-column readers invert the fixed-width writers (CRYST1 of PDB, AMBER restart lines) -- C01. *)
From Coq Require Import ZArith Ascii String Bool List Lia.
Import ListNotations.
Require Import MD.Gen.CodecTables MD.Codec.Model MD.Codec.Proofs MD.Codec.NumProofs MD.Codec.FixedCols.
Open Scope Z_scope.

(* k consecutive fields of equal width are read back by slicing at that width *)
Lemma slices_fields : forall w p xs fs rest, Forall (fun x => 0 <= dmag x) xs ->
  map_opt (field w p) xs = Some fs ->
  map_opt parse_num (slices w (length xs) (concat fs ++ rest)) = Some (map (qnum p) xs).
Proof.
  intros w p xs. induction xs as [|x xs IH]; intros fs rest Hm H.
  - cbn in *. reflexivity.
  - cbn [map_opt] in H. destruct (field w p x) as [f|] eqn:Ef; [|discriminate].
    destruct (map_opt (field w p) xs) as [fr|] eqn:Er; [|discriminate]. injection H as <-.
    inversion Hm as [|? ? Hx Hxs]; subst.
    destruct (field_sound w p x f Hx Ef) as (Lf & Pf).
    cbn [concat length slices map map_opt]. rewrite <- app_assoc.
    rewrite (firstn_app_len' f) by assumption. rewrite (skipn_app_len' f) by assumption.
    rewrite Pf. rewrite (IH fr rest Hxs eq_refl). reflexivity.
Qed.

Lemma field_is_fmt : forall w p x f, field w p x = Some f -> f = py_fmt w p x /\ length f = w.
Proof.
  intros w p x f H. unfold field in H. destruct (Nat.eqb_spec (length (py_fmt w p x)) w) as [E|]; [|discriminate].
  injection H as <-. auto.
Qed.

Lemma map_opt_field_concat : forall w p xs fs, map_opt (field w p) xs = Some fs ->
  concat fs = concat (map (py_fmt w p) xs) /\ length (concat fs) = (w * length xs)%nat.
Proof.
  intros w p xs. induction xs as [|x xs IH]; intros fs H.
  - cbn in H. injection H as <-. cbn. split; [reflexivity|lia].
  - cbn [map_opt] in H. destruct (field w p x) as [f|] eqn:Ef; [|discriminate].
    destruct (map_opt (field w p) xs) as [fr|] eqn:Er; [|discriminate]. injection H as <-.
    destruct (field_is_fmt _ _ _ _ Ef) as (-> & Lf). destruct (IH fr eq_refl) as (Ec & Lc).
    cbn [concat map length]. rewrite Ec. split; [reflexivity|]. rewrite app_length, Lf. rewrite <- Ec, Lc. lia.
Qed.

(* AMBER restart: a line of up to six "%12.7f" numbers that fit their fields is read back, field by field, as the
   quantised numbers (coordinates of two atoms, of the last atom, or the box line) *)
Theorem rst7_line_roundtrip : forall xs fs, Forall (fun x => 0 <= dmag x) xs ->
  map_opt (field rst7_w rst7_p) xs = Some fs ->
  rst7_line xs = concat fs /\ rst7_line_read (length xs) (rst7_line xs) = Some (map (qnum rst7_p) xs).
Proof.
  intros xs fs Hm H. destruct (map_opt_field_concat _ _ _ _ H) as (Ec & _).
  unfold rst7_line. rewrite <- Ec. split; [reflexivity|].
  unfold rst7_line_read. change rst7_rw with rst7_w.
  rewrite <- (app_nil_r (concat fs)). apply slices_fields; assumption.
Qed.

(* s[a:b] of P ++ f ++ R when P has a and f has b - a characters *)
Lemma slice_at : forall (P f R : list ascii) a b, length P = a -> length f = (b - a)%nat ->
  py_slice a b (P ++ f ++ R) = f.
Proof.
  intros P f R a b LP Lf. unfold py_slice. rewrite (skipn_app_len' P) by assumption.
  apply firstn_app_len'. assumption.
Qed.

(* PDB: the CRYST1 record written for lengths and angles that fit their fields is read back by PdbStructure's six
   column pairs as the quantised lengths (3 decimals) and angles (2 decimals) *)
Theorem cryst1_roundtrip : forall a b c al be ga fa fb fc fal fbe fga,
  0 <= dmag a -> 0 <= dmag b -> 0 <= dmag c -> 0 <= dmag al -> 0 <= dmag be -> 0 <= dmag ga ->
  field cryst_len_w cryst_len_p a = Some fa -> field cryst_len_w cryst_len_p b = Some fb ->
  field cryst_len_w cryst_len_p c = Some fc ->
  field cryst_ang_w cryst_ang_p al = Some fal -> field cryst_ang_w cryst_ang_p be = Some fbe ->
  field cryst_ang_w cryst_ang_p ga = Some fga ->
  cryst1_read (cryst1_line [a; b; c] [al; be; ga]) =
    Some [qnum cryst_len_p a; qnum cryst_len_p b; qnum cryst_len_p c;
          qnum cryst_ang_p al; qnum cryst_ang_p be; qnum cryst_ang_p ga].
Proof.
  intros a b c al be ga fa fb fc fal fbe fga Ha Hb Hc Hal Hbe Hga Fa Fb Fc Fal Fbe Fga.
  destruct (field_sound _ _ _ _ Ha Fa) as (La & Pa). destruct (field_sound _ _ _ _ Hb Fb) as (Lb & Pb).
  destruct (field_sound _ _ _ _ Hc Fc) as (Lc & Pc). destruct (field_sound _ _ _ _ Hal Fal) as (Lal & Pal).
  destruct (field_sound _ _ _ _ Hbe Fbe) as (Lbe & Pbe). destruct (field_sound _ _ _ _ Hga Fga) as (Lga & Pga).
  destruct (field_is_fmt _ _ _ _ Fa) as (Ea & _). destruct (field_is_fmt _ _ _ _ Fb) as (Eb & _).
  destruct (field_is_fmt _ _ _ _ Fc) as (Ec & _). destruct (field_is_fmt _ _ _ _ Fal) as (Eal & _).
  destruct (field_is_fmt _ _ _ _ Fbe) as (Ebe & _). destruct (field_is_fmt _ _ _ _ Fga) as (Ega & _).
  unfold cryst1_line. cbn [map concat]. rewrite <- Ea, <- Eb, <- Ec, <- Eal, <- Ebe, <- Ega. rewrite !app_nil_r.
  set (H6 := list_ascii_of_string "CRYST1"). set (TL := list_ascii_of_string " P 1           1 ").
  assert (length H6 = 6%nat) as L6 by reflexivity.
  unfold cryst_len_w, cryst_ang_w in *.
  unfold cryst1_read, cols_read, cryst_read_cols. cbn [map_opt fst snd].
  replace (H6 ++ (fa ++ fb ++ fc) ++ (fal ++ fbe ++ fga) ++ TL)
    with (H6 ++ fa ++ (fb ++ fc ++ fal ++ fbe ++ fga ++ TL)) at 1 by (repeat rewrite <- app_assoc; reflexivity).
  rewrite slice_at by (assumption || (rewrite La; reflexivity)). rewrite Pa.
  replace (H6 ++ (fa ++ fb ++ fc) ++ (fal ++ fbe ++ fga) ++ TL)
    with ((H6 ++ fa) ++ fb ++ (fc ++ fal ++ fbe ++ fga ++ TL)) at 1 by (repeat rewrite <- app_assoc; reflexivity).
  rewrite slice_at by (rewrite ?app_length, ?L6, ?La, ?Lb; reflexivity). rewrite Pb.
  replace (H6 ++ (fa ++ fb ++ fc) ++ (fal ++ fbe ++ fga) ++ TL)
    with ((H6 ++ fa ++ fb) ++ fc ++ (fal ++ fbe ++ fga ++ TL)) at 1 by (repeat rewrite <- app_assoc; reflexivity).
  rewrite slice_at by (rewrite ?app_length, ?L6, ?La, ?Lb, ?Lc; reflexivity). rewrite Pc.
  replace (H6 ++ (fa ++ fb ++ fc) ++ (fal ++ fbe ++ fga) ++ TL)
    with ((H6 ++ fa ++ fb ++ fc) ++ fal ++ (fbe ++ fga ++ TL)) at 1 by (repeat rewrite <- app_assoc; reflexivity).
  rewrite slice_at by (rewrite ?app_length, ?L6, ?La, ?Lb, ?Lc, ?Lal; reflexivity). rewrite Pal.
  replace (H6 ++ (fa ++ fb ++ fc) ++ (fal ++ fbe ++ fga) ++ TL)
    with ((H6 ++ fa ++ fb ++ fc ++ fal) ++ fbe ++ (fga ++ TL)) at 1 by (repeat rewrite <- app_assoc; reflexivity).
  rewrite slice_at by (rewrite ?app_length, ?L6, ?La, ?Lb, ?Lc, ?Lal, ?Lbe; reflexivity). rewrite Pbe.
  replace (H6 ++ (fa ++ fb ++ fc) ++ (fal ++ fbe ++ fga) ++ TL)
    with ((H6 ++ fa ++ fb ++ fc ++ fal ++ fbe) ++ fga ++ TL) by (repeat rewrite <- app_assoc; reflexivity).
  rewrite slice_at by (rewrite ?app_length, ?L6, ?La, ?Lb, ?Lc, ?Lal, ?Lbe, ?Lga; reflexivity). rewrite Pga.
  reflexivity.
Qed.
