(* Lemmas about the XTC integer codec model (C01): bit fields, mixed-radix integer groups, sizes. *)
From Coq Require Import ZArith Ascii String Bool List Lia ZifyBool.
Import ListNotations.
Require Import MD.Gen.CodecTables MD.Codec.Model MD.Codec.Proofs MD.Codec.XtcModel.
Open Scope Z_scope.

Ltac Zify.zify_post_hook ::= Z.to_euclidean_division_equations.

(* ------------------------------------------------------------------ bit fields *)
Lemma pow2_succ_split : forall v k, 0 <= k ->
  v mod 2 ^ (k + 1) = Z.b2z (Z.testbit v k) * 2 ^ k + v mod 2 ^ k.
Proof.
  intros v k Hk. rewrite Z.pow_add_r, Z.pow_1_r by lia.
  assert (0 < 2 ^ k) by (apply Z.pow_pos_nonneg; lia).
  rewrite Z.rem_mul_r by lia. rewrite Z.testbit_spec' by lia. lia.
Qed.

Lemma bits_of_length : forall n v, length (bits_of n v) = n.
Proof. induction n; intros v; cbn [bits_of length]; [reflexivity|]. now rewrite IHn. Qed.

Lemma val_of_bits_of : forall n v acc,
  val_of (bits_of n v) acc = acc * 2 ^ Z.of_nat n + v mod 2 ^ Z.of_nat n.
Proof.
  induction n; intros v acc.
  - cbn [bits_of val_of]. rewrite Z.pow_0_r, Z.mod_1_r. lia.
  - cbn [bits_of val_of]. rewrite IHn. rewrite Nat2Z.inj_succ. rewrite <- Z.add_1_r.
    rewrite (pow2_succ_split v (Z.of_nat n)) by lia. rewrite Z.pow_add_r by lia.
    destruct (Z.testbit v (Z.of_nat n)); cbn [Z.b2z]; lia.
Qed.

Lemma firstn_app_exact : forall {A} (a b : list A) n, length a = n -> firstn n (a ++ b) = a.
Proof.
  intros A a b n <-. rewrite firstn_app, Nat.sub_diag, firstn_all. cbn. now rewrite app_nil_r.
Qed.

Lemma skipn_app_exact : forall {A} (a b : list A) n, length a = n -> skipn n (a ++ b) = b.
Proof.
  intros A a b n <-. rewrite skipn_app, Nat.sub_diag, skipn_all. reflexivity.
Qed.

Lemma get_bits_app : forall n v rest,
  get_bits n (bits_of n v ++ rest) = Some (v mod 2 ^ Z.of_nat n, rest).
Proof.
  intros n v rest. unfold get_bits.
  rewrite app_length, bits_of_length.
  destruct (Nat.ltb_spec (n + length rest) n); [lia|].
  rewrite firstn_app_exact, skipn_app_exact by apply bits_of_length.
  rewrite val_of_bits_of. f_equal.
Qed.

(* what was written in n bits is what is read back, for every value that fits *)
Theorem bits_roundtrip : forall n v rest, 0 <= v < 2 ^ Z.of_nat n ->
  get_bits n (bits_of n v ++ rest) = Some (v, rest).
Proof. intros n v rest H. rewrite get_bits_app. now rewrite Z.mod_small. Qed.

(* ------------------------------------------------------------------ multi-byte layout *)
Lemma shiftl_mul : forall v s, 0 <= s -> Z.shiftl v s = v * 2 ^ s.
Proof. intros. now rewrite Z.shiftl_mul_pow2. Qed.

Lemma get_le_le_bits : forall fuel nbits v rest shift acc,
  0 <= nbits <= 8 * Z.of_nat fuel -> (1 <= fuel)%nat -> 0 <= shift ->
  get_le fuel nbits (le_bits fuel nbits v ++ rest) shift acc =
    Some (acc + (v mod 2 ^ nbits) * 2 ^ shift, rest).
Proof.
  induction fuel; intros nbits v rest shift acc Hn Hf Hs; [lia|].
  cbn [get_le le_bits]. destruct (Z.leb_spec nbits 8) as [Hle|Hgt].
  - rewrite get_bits_app. rewrite Z2Nat.id by lia. now rewrite shiftl_mul.
  - rewrite <- app_assoc. rewrite (get_bits_app 8). change (Z.of_nat 8) with 8.
    rewrite IHfuel by lia. rewrite !shiftl_mul by lia. f_equal. f_equal.
    rewrite Z.shiftr_div_pow2 by lia.
    assert (0 < 2 ^ (nbits - 8)) by (apply Z.pow_pos_nonneg; lia).
    assert (v mod 2 ^ nbits = v mod 2 ^ 8 + 2 ^ 8 * ((v / 2 ^ 8) mod 2 ^ (nbits - 8))) as E.
    { replace (2 ^ nbits) with (2 ^ 8 * 2 ^ (nbits - 8))
        by (rewrite <- Z.pow_add_r by lia; f_equal; lia).
      apply Z.rem_mul_r; lia. }
    rewrite E. rewrite Z.pow_add_r by lia. lia.
Qed.

(* ------------------------------------------------------------------ mixed radix *)
Definition in_sizes (sizes nums : list Z) : Prop := Forall2 (fun s n => 0 <= n < s) sizes nums.

Lemma unmix_app : forall l1 l2 v acc,
  unmix (l1 ++ l2) v acc =
  match unmix l1 v acc with v' :: acc' => unmix l2 v' acc' | [] => [] end.
Proof.
  induction l1 as [|s l1 IH]; intros l2 v acc; cbn [app unmix]; [reflexivity|apply IH].
Qed.

Lemma unmix_mixed : forall sr nr a acc, in_sizes sr nr -> 0 <= a ->
  unmix (rev sr) (mixed sr nr a) acc = a :: nr ++ acc.
Proof.
  induction sr as [|s sr IH]; intros nr a acc H Ha; inversion H as [|s' n' sr' nr' Hn Hr]; subst.
  - reflexivity.
  - cbn [rev mixed]. rewrite unmix_app. rewrite IH by (try assumption; nia).
    cbn [unmix app]. f_equal.
    + rewrite Z.div_add_l by lia. rewrite Z.div_small by lia. lia.
    + f_equal. rewrite Z.add_comm, Z.mod_add by lia. apply Z.mod_small; lia.
Qed.

Lemma mixed_bound : forall sr nr a A, in_sizes sr nr -> 0 <= a < A ->
  0 <= mixed sr nr a < A * prod sr.
Proof.
  unfold prod. induction sr as [|s sr IH]; intros nr a A H Ha; inversion H as [|s' n' sr' nr' Hn Hr]; subst.
  - cbn. lia.
  - cbn [mixed fold_left].
    assert (forall l x, fold_left Z.mul l x = x * fold_left Z.mul l 1) as FM.
    { induction l as [|y l IHl]; intros x; cbn [fold_left]; [lia|]. rewrite IHl, (IHl (1 * y)). lia. }
    rewrite (FM sr (1 * s)). specialize (IH nr' (a * s + n') (A * s) Hr ltac:(nia)). nia.
Qed.

Lemma prod_pos : forall l, Forall (fun s => 0 < s) l -> 0 < prod l.
Proof.
  unfold prod. intros l. assert (forall x, 0 < x -> Forall (fun s => 0 < s) l -> 0 < fold_left Z.mul l x) as G.
  { induction l as [|y l IH]; intros x Hx H; cbn [fold_left]; [lia|]. inversion H; subst. apply IH; [nia|assumption]. }
  apply G. lia.
Qed.

Lemma bitlen_bound : forall m, 0 < m -> m < 2 ^ bitlen m.
Proof.
  intros m H. unfold bitlen. destruct (Z.leb_spec m 0); [lia|]. apply Z.log2_spec. lia.
Qed.

Lemma bitlen_nonneg : forall m, 0 <= bitlen m.
Proof. intros m. unfold bitlen. destruct (Z.leb_spec m 0); [lia|]. pose proof (Z.log2_nonneg m). lia. Qed.

(* sizeofints gives enough bits for every group of integers below the sizes *)
Theorem sizeofints_sufficient : forall sizes nums, in_sizes sizes nums ->
  0 <= mixed_radix sizes nums < 2 ^ sizeofints sizes.
Proof.
  intros sizes nums H. unfold sizeofints.
  destruct H as [|s n sr nr Hn Hr].
  - cbn. lia.
  - cbn [mixed_radix].
    pose proof (mixed_bound sr nr n s Hr Hn) as B.
    assert (prod (s :: sr) = s * prod sr) as P.
    { unfold prod. cbn [fold_left].
      assert (forall l x, fold_left Z.mul l x = x * fold_left Z.mul l 1) as FM.
      { induction l as [|y l IHl]; intros x; cbn [fold_left]; [lia|]. rewrite IHl, (IHl (1 * y)). lia. }
      rewrite (FM sr (1 * s)). lia. }
    rewrite P.
    assert (0 < s * prod sr) by nia.
    pose proof (bitlen_bound (s * prod sr) ltac:(lia)). lia.
Qed.

(* decodeints inverts encodeints whenever the value fits the number of bits used *)
Theorem ints_roundtrip : forall nbits s0 sr n0 nr rest,
  in_sizes sr nr -> 0 <= n0 -> 0 <= nbits <= 320 ->
  mixed_radix (s0 :: sr) (n0 :: nr) < 2 ^ nbits ->
  decodeints nbits (s0 :: sr) (encodeints nbits (s0 :: sr) (n0 :: nr) ++ rest) = Some (n0 :: nr, rest).
Proof.
  intros nbits s0 sr n0 nr rest H Hn0 Hnb Hfit. unfold decodeints, encodeints.
  rewrite get_le_le_bits by lia. cbn [mixed_radix tl] in *.
  assert (0 <= mixed sr nr n0) as Hpos.
  { clear Hfit. revert nr n0 H Hn0. induction sr as [|s sr IH]; intros nr n0 H Hn0;
      inversion H as [|s' n' sr' nr' Hn Hr]; subst; cbn [mixed]; [lia|]. apply IH; [assumption|nia]. }
  rewrite Z.mod_small by lia. rewrite Z.pow_0_r, Z.mul_1_r, Z.add_0_l.
  rewrite unmix_mixed by assumption. now rewrite app_nil_r.
Qed.

(* ------------------------------------------------------------------ sizeofint *)
Lemma sizeofint_aux_bound : forall fuel size num nbits,
  num = 2 ^ nbits -> 0 <= nbits <= 32 -> 33 <= nbits + Z.of_nat fuel -> size < 2 ^ 32 ->
  nbits <= sizeofint_aux fuel size num nbits <= 32 /\ size < 2 ^ sizeofint_aux fuel size num nbits.
Proof.
  induction fuel; intros size num nbits Hnum Hnb Hf Hs; cbn [sizeofint_aux]; [lia|].
  destruct (Z.leb_spec num size) as [Hle|Hgt]; destruct (Z.ltb_spec nbits 32) as [H32|H32]; cbn [andb].
  - destruct (IHfuel size (2 * num) (nbits + 1)) as [A B]; try lia.
    subst num. rewrite Z.pow_add_r by lia. lia.
  - assert (nbits = 32) as -> by lia. lia.
  - subst num. lia.
  - subst num. lia.
Qed.

Lemma sizeofint_spec : forall size, size < 2 ^ 32 ->
  size < 2 ^ sizeofint size /\ 0 <= sizeofint size <= 32.
Proof.
  intros size H. unfold sizeofint.
  destruct (sizeofint_aux_bound 33 size 1 0 eq_refl ltac:(lia) ltac:(lia) H). lia.
Qed.

(* ------------------------------------------------------------------ the table of magic sizes *)
Definition magic_ok (i : Z) : bool := (magic i ^ 3 <=? 2 ^ i) && (0 <? magic i).

Lemma magic_table_ok : forallb magic_ok (map Z.of_nat (seq (Z.to_nat xtc_firstidx) (length xtc_magicints - Z.to_nat xtc_firstidx))) = true.
Proof. vm_compute. reflexivity. Qed.

(* for every index of the table from FIRSTIDX on: three numbers below magic[i] fit in i bits *)
Lemma magic_cube : forall i, xtc_firstidx <= i < lastidx -> magic i ^ 3 <= 2 ^ i /\ 0 < magic i.
Proof.
  intros i H. pose proof magic_table_ok as T. rewrite forallb_forall in T.
  assert (0 <= xtc_firstidx) as F by (vm_compute; discriminate).
  specialize (T i). unfold magic_ok in T.
  assert (In i (map Z.of_nat (seq (Z.to_nat xtc_firstidx) (length xtc_magicints - Z.to_nat xtc_firstidx)))) as I.
  { apply in_map_iff. exists (Z.to_nat i). split; [lia|]. apply in_seq. unfold lastidx in H. lia. }
  specialize (T I). lia.
Qed.

(* ------------------------------------------------------------------ bits <-> bytes *)
Lemma val_of_app : forall a b acc, val_of (a ++ b) acc = val_of b (val_of a acc).
Proof. induction a as [|x a IH]; intros b acc; cbn [app val_of]; [reflexivity|apply IH]. Qed.

Lemma val_of_bound : forall l acc, 0 <= acc ->
  acc * 2 ^ Z.of_nat (length l) <= val_of l acc < (acc + 1) * 2 ^ Z.of_nat (length l).
Proof.
  induction l as [|b l IH]; intros acc Ha; cbn [val_of length].
  - rewrite Z.pow_0_r. lia.
  - rewrite Nat2Z.inj_succ, Z.pow_succ_r by lia.
    specialize (IH (2 * acc + (if b then 1 else 0)) ltac:(destruct b; lia)).
    destruct b; lia.
Qed.

Lemma bits_of_val_of : forall l, bits_of (length l) (val_of l 0) = l.
Proof.
  assert (forall l acc, 0 <= acc -> bits_of (length l) (val_of l acc) = l) as G.
  { induction l as [|b l IH]; intros acc Ha; [reflexivity|].
    cbn [length bits_of val_of]. rewrite IH by (destruct b; lia). f_equal.
    pose proof (val_of_bound l (2 * acc + (if b then 1 else 0)) ltac:(destruct b; lia)) as B.
    set (k := Z.of_nat (length l)) in *. assert (0 <= k) by lia.
    assert (0 < 2 ^ k) by (apply Z.pow_pos_nonneg; lia).
    apply Z.b2z_inj. rewrite Z.testbit_spec' by lia.
    assert (val_of l (2 * acc + (if b then 1 else 0)) / 2 ^ k = 2 * acc + (if b then 1 else 0)) as ->.
    { symmetry. apply Z.div_unique with (r := val_of l (2 * acc + (if b then 1 else 0)) - (2 * acc + (if b then 1 else 0)) * 2 ^ k); lia. }
    destruct b; cbn [Z.b2z]; lia. }
  intros l. apply G. lia.
Qed.

Lemma bytes_bits_chunk : forall c, length c = 8%nat -> byte_bits (val_of c 0) = c.
Proof. intros c H. unfold byte_bits. rewrite <- H. apply bits_of_val_of. Qed.

Lemma firstn_repeat' : forall {A} (x : A) n m, firstn n (repeat x m) = repeat x (Nat.min n m).
Proof. induction n; intros m; [reflexivity|]. destruct m; [reflexivity|]. cbn. now rewrite IHn. Qed.

Lemma bits_to_bytes_spec : forall fuel s, (length s < 8 * fuel)%nat ->
  exists k, (k < 8)%nat /\ bytes_to_bits (bits_to_bytes fuel s) = s ++ repeat false k.
Proof.
  induction fuel; intros s H; [lia|]. cbn [bits_to_bytes].
  destruct s as [|b s']; [exists 0%nat; split; [lia|reflexivity]|].
  assert (1 <= length (b :: s'))%nat as Hne by (cbn; lia).
  remember (b :: s') as s eqn:Es. 
  clear Es b s'. unfold bytes_to_bits. cbn [map concat]. fold (bytes_to_bits (bits_to_bytes fuel (skipn 8 s))).
  destruct (le_lt_dec 8 (length s)) as [Hlong|Hshort].
  - destruct (IHfuel (skipn 8 s)) as [k [Hk8 Hk]]; [rewrite skipn_length; lia|].
    exists k. split; [exact Hk8|]. rewrite Hk.
    rewrite firstn_app. replace (8 - length s)%nat with 0%nat by lia. rewrite firstn_O, app_nil_r.
    rewrite bytes_bits_chunk by (rewrite firstn_length; lia).
    rewrite app_assoc. now rewrite firstn_skipn.
  - rewrite skipn_all2 by lia.
    assert (bits_to_bytes fuel [] = []) as -> by (destruct fuel; reflexivity).
    exists (8 - length s)%nat. split; [lia|]. cbn [bytes_to_bits map concat]. rewrite app_nil_r.
    rewrite firstn_app. rewrite firstn_all2 by lia. rewrite firstn_repeat'.
    replace (Nat.min (8 - length s) 7) with (8 - length s)%nat by lia.
    rewrite bytes_bits_chunk; [reflexivity|]. rewrite app_length, repeat_length. lia.
Qed.

Lemma pack_bits_spec : forall s, exists k, (k < 8)%nat /\ bytes_to_bits (pack_bits s) = s ++ repeat false k.
Proof. intros s. unfold pack_bits. apply bits_to_bytes_spec. lia. Qed.
