(* Unit conversion both ways (in_units_of on float32 arrays) and the precision of the text fields, over the
   rationals Q; finite statements about the glue tables regenerated from /repo (C01). *)
From Coq Require Import ZArith QArith Qabs Qpower Lqa Lia Bool List String.
Import ListNotations.
Require Import MD.Gen.CodecTables MD.Codec.Model MD.Codec.Proofs MD.Codec.NumProofs MD.Codec.XtcModel
               MD.Codec.XtcQuantProofs MD.Codec.GlueModel.
Open Scope Q_scope.

(* ------------------------------------------------------------------ the factors *)
(* nanometers -> angstroms is the float 10.0; angstroms -> nanometers is the float 0.1, which NumPy casts to
   the float32 13421773 * 2^-27 before multiplying a float32 array *)
Lemma unit_factors_standard :
  dy_eqb (rnd32 nm_to_ang) (Dy false 10 0) = true /\ ang_per_nm = 10%Z /\
  dy_eqb ang_to_nm (Dy false 3602879701896397 (-55)) = true /\
  rnd32 ang_to_nm = Dy false 13421773 (-27).
Proof. repeat split; vm_compute; reflexivity. Qed.

Lemma absQ_dmul : forall a b, absQ (dmul a b) == absQ a * absQ b.
Proof.
  intros a b. unfold absQ, dmul. cbn [dmag dexp]. rewrite inject_Z_mult.
  rewrite Qpower_plus by apply two_nz. ring.
Qed.

Lemma dyQ_abs : forall x, (0 <= dmag x)%Z -> Qabs (dyQ x) == absQ x.
Proof.
  intros x H. pose proof (absQ_nonneg x H) as N. unfold dyQ. destruct (dneg x).
  - rewrite Qabs_opp. apply Qabs_pos. assumption.
  - apply Qabs_pos. assumption.
Qed.

Lemma dyQ_diff_same_sign : forall a b, dneg a = dneg b ->
  Qabs (dyQ a - dyQ b) == Qabs (absQ a - absQ b).
Proof.
  intros a b E. unfold dyQ. rewrite E. destruct (dneg b).
  - assert (- absQ a - - absQ b == - (absQ a - absQ b)) as -> by ring. apply Qabs_opp.
  - reflexivity.
Qed.

(* one float32 product by a positive float32 constant, normal range: sign kept, relative error 2^-24 *)
Lemma f32_prod_Q : forall c x, dneg c = false -> (0 <= dmag c)%Z -> (0 <= dmag x)%Z ->
  (-149 - (dexp c + dexp x) <= bitlen (dmag c * dmag x) - 24)%Z ->
  dneg (rnd32 (dmul c x)) = dneg x /\ (0 <= dmag (rnd32 (dmul c x)))%Z /\
  Qabs (absQ (rnd32 (dmul c x)) - absQ c * absQ x) <= absQ c * absQ x / inject_Z (2 ^ 24).
Proof.
  intros c x Hc Hmc Hmx Hn.
  assert (0 <= dmag (dmul c x))%Z as Hm by (cbn; nia).
  destruct (rnd32_Q (dmul c x) Hm) as (S & M & B); [cbn [dmul dmag dexp]; exact Hn|].
  split; [rewrite S; cbn [dmul dneg]; rewrite Hc; destruct (dneg x); reflexivity|]. split; [assumption|].
  rewrite <- absQ_dmul. assumption.
Qed.

(* save then load in an angstrom format that keeps float32 (DCD, NetCDF, DTR, NetCDF restart):
   x -> float32(x * 10.0f) -> float32(. * 0.1f): relative error at most 2^-22 *)
Theorem unit_roundtrip_error : forall x, (0 <= dmag x)%Z -> units_normal x ->
  Qabs (dyQ (from_file_unit true (to_file_unit_f true x)) - dyQ x) <= Qabs (dyQ x) / inject_Z (2 ^ 22).
Proof.
  intros x Hm (N1 & N2). cbv zeta in N1, N2.
  unfold from_file_unit, to_file_unit_f. unfold f32_mulf in *.
  destruct unit_factors_standard as (F1 & _ & _ & F2).
  set (c1 := rnd32 nm_to_ang) in *. set (c2 := rnd32 ang_to_nm) in *.
  assert (dneg c1 = false /\ (0 <= dmag c1)%Z /\ absQ c1 == 10) as (S1 & M1 & A1).
  { subst c1. split; [vm_compute; reflexivity|]. split; [vm_compute; discriminate|]. vm_compute. reflexivity. }
  assert (dneg c2 = false /\ (0 <= dmag c2)%Z /\ absQ c2 == 13421773 # 134217728) as (S2 & M2 & A2).
  { subst c2. rewrite F2. split; [reflexivity|]. split; [cbn; lia|]. vm_compute. reflexivity. }
  destruct (f32_prod_Q c1 x S1 M1 Hm N1) as (Sy & My & By).
  set (y := rnd32 (dmul c1 x)) in *.
  destruct (f32_prod_Q c2 y S2 M2 My N2) as (Sr & Mr & Br).
  set (r := rnd32 (dmul c2 y)) in *.
  rewrite dyQ_diff_same_sign by congruence. rewrite dyQ_abs by assumption.
  pose proof (absQ_nonneg x Hm) as Ax. pose proof (absQ_nonneg y My) as Ay.
  rewrite A1 in By. rewrite A2 in Br.
  set (a := absQ x) in *. set (Y := absQ y) in *. set (R := absQ r) in *.
  change (inject_Z (2 ^ 24)) with (16777216 # 1) in *. change (inject_Z (2 ^ 22)) with (4194304 # 1).
  apply Qabs_Qle_condition in By. apply Qabs_Qle_condition in Br. apply Qabs_Qle_condition.
  assert (10 * a / (16777216 # 1) == a * (10 # 16777216)) as E1 by field.
  assert ((13421773 # 134217728) * Y / (16777216 # 1) == Y * (13421773 # 2251799813685248)) as E2 by field.
  assert (a / (4194304 # 1) == a * (1 # 4194304)) as E3 by field.
  rewrite E1 in By. rewrite E2 in Br. rewrite E3.
  destruct By as (By1 & By2). destruct Br as (Br1 & Br2). split; lra.
Qed.

(* ------------------------------------------------------------------ text fields *)
Lemma quant_Q : forall p y, (0 <= dmag y)%Z ->
  Qabs (inject_Z (quant p y) - absQ y * inject_Z (10 ^ Z.of_nat p)) <= 1 # 2.
Proof.
  intros p y Hm. pose proof (quant_error p y) as E. pose proof (dden_pos y) as Dp.
  rewrite absQ_num_den.
  assert (0 < inject_Z (dden y)) as DQ by (change 0 with (inject_Z 0); rewrite <- Zlt_Qlt; assumption).
  assert (inject_Z (quant p y) - inject_Z (dnum y) / inject_Z (dden y) * inject_Z (10 ^ Z.of_nat p) ==
          inject_Z (quant p y * dden y - dnum y * 10 ^ Z.of_nat p) / inject_Z (dden y)) as ->.
  { unfold Zminus. rewrite inject_Z_plus, inject_Z_opp, !inject_Z_mult. field. lra. }
  unfold Qdiv. rewrite Qabs_Qmult. rewrite (Qabs_pos (/ inject_Z (dden y))) by (apply Qlt_le_weak, Qinv_lt_0_compat; assumption).
  rewrite Qabs_Zabs. apply Qle_shift_div_r; [assumption|].
  assert (inject_Z 2 * inject_Z (Z.abs (quant p y * dden y - dnum y * 10 ^ Z.of_nat p)) <= inject_Z (dden y)) as B
    by (rewrite <- inject_Z_mult, <- Zle_Qle; assumption).
  change (inject_Z 2) with 2 in B. lra.
Qed.

(* a nanometre text field (gro, precision p): the printed integer q, read as q / 10^p, is within half a unit of
   the last place of the coordinate *)
Theorem nm_field_precision : forall p x, (0 <= dmag x)%Z ->
  Qabs (inject_Z (quant p x) / inject_Z (10 ^ Z.of_nat p) - absQ x) <= (1 # 2) / inject_Z (10 ^ Z.of_nat p).
Proof.
  intros p x Hm. pose proof (quant_Q p x Hm) as B. pose proof (pow10_pos p) as Pp.
  set (D := inject_Z (10 ^ Z.of_nat p)) in *.
  assert (0 < D) as DQ by (subst D; change 0 with (inject_Z 0); rewrite <- Zlt_Qlt; assumption).
  assert (inject_Z (quant p x) / D - absQ x == (inject_Z (quant p x) - absQ x * D) / D) as -> by (field; lra).
  unfold Qdiv. rewrite Qabs_Qmult. rewrite (Qabs_pos (/ D)) by (apply Qlt_le_weak, Qinv_lt_0_compat; assumption).
  apply Qmult_le_compat_r; [assumption|]. apply Qlt_le_weak, Qinv_lt_0_compat. assumption.
Qed.

(* an angstrom text field (mdcrd, pdb, xyz, lammpstrj: p = 3; rst7: p = 7) of a nanometre coordinate x: the
   printed integer q, read as q / 10^p angstrom, is within half a unit of the last place plus the float32
   rounding of the conversion (relative 2^-24) of 10 x *)
Theorem angstrom_field_precision : forall p x, (0 <= dmag x)%Z ->
  (-149 - dexp x <= bitlen (dmag x * ang_per_nm) - 24)%Z ->
  Qabs (inject_Z (quant p (to_file_unit true x)) / inject_Z (10 ^ Z.of_nat p) - 10 * absQ x)
    <= (1 # 2) / inject_Z (10 ^ Z.of_nat p) + 10 * absQ x / inject_Z (2 ^ 24).
Proof.
  intros p x Hm Hn. unfold to_file_unit, f32_mul.
  set (z := dscale ang_per_nm x).
  assert (0 <= dmag z)%Z as Hz by (subst z; cbn; unfold ang_per_nm; lia).
  assert (absQ z == 10 * absQ x) as Ez
    by (subst z; unfold absQ; cbn [dscale dmag dexp]; rewrite inject_Z_mult; change (inject_Z ang_per_nm) with 10; ring).
  destruct (rnd32_Q z Hz) as (_ & My & By); [subst z; cbn [dscale dmag dexp]; exact Hn|].
  set (y := rnd32 z) in *. rewrite Ez in By.
  pose proof (nm_field_precision p y My) as B.
  set (qd := inject_Z (quant p y) / inject_Z (10 ^ Z.of_nat p)) in *.
  set (h := (1 # 2) / inject_Z (10 ^ Z.of_nat p)) in *.
  set (e := 10 * absQ x / inject_Z (2 ^ 24)) in *.
  apply Qabs_Qle_condition in By. apply Qabs_Qle_condition in B. apply Qabs_Qle_condition.
  destruct By, B. split; lra.
Qed.

(* ------------------------------------------------------------------ finite statements about the glue tables *)
Lemma save_glue_standard : forallb save_glue_ok writable_exts = true.
Proof. vm_compute. reflexivity. Qed.

Lemma load_glue_standard : forallb load_glue_ok writable_exts = true.
Proof. vm_compute. reflexivity. Qed.

Lemma stores_standard : map (fun e => (e, stored_roles e)) writable_exts = map (fun p => (fst p, Some (snd p))) stores_std.
Proof. vm_compute. reflexivity. Qed.

(* what the boolean checks mean for one argument: a distance handed over with an accepted conversion arrives as
   to_file_unit_f of the file's unit, time and angles arrive unchanged *)
Lemma arg_ok_meaning : forall u role c x, arg_ok u (role, c) = true ->
  apply_conv (conv_of c) u x = Some (if is_distance role then to_file_unit_f u x else x).
Proof.
  intros u role c x H. unfold arg_ok in H. destruct (is_distance role); destruct (conv_of c); try discriminate; cbn.
  - destruct u; [discriminate|reflexivity].
  - reflexivity.
  - reflexivity.
Qed.

(* every float32 that is not tiny (|x| >= 2^-120; float32 coordinates of any physical size) satisfies the
   hypothesis of unit_roundtrip_error *)
Lemma bitlen_ge : forall k v, (0 <= k)%Z -> (2 ^ k <= v)%Z -> (k + 1 <= bitlen v)%Z.
Proof.
  intros k v Hk Hv. assert (0 < 2 ^ k)%Z by (apply Z.pow_pos_nonneg; lia).
  unfold bitlen. destruct (Z.leb_spec v 0); [lia|].
  assert (k <= Z.log2 v)%Z by (apply Z.log2_le_pow2; lia). lia.
Qed.

Lemma units_normal_float32 : forall x, (1 <= dmag x)%Z -> (-120 <= dexp x)%Z -> units_normal x.
Proof.
  intros x Hm He. unfold units_normal. cbv zeta. unfold f32_mulf.
  assert (rnd32 nm_to_ang = Dy false 5 1) as -> by (vm_compute; reflexivity).
  assert (rnd32 ang_to_nm = Dy false 13421773 (-27)) as -> by (vm_compute; reflexivity).
  assert (-149 - (1 + dexp x) <= bitlen (5 * dmag x) - 24)%Z as N1.
  { pose proof (bitlen_ge 2 (5 * dmag x) ltac:(lia) ltac:(change (2 ^ 2)%Z with 4%Z; lia)). lia. }
  split; [exact N1|].
  destruct (rnd32_spec (dmul (Dy false 5 1) x)) as (sh & m' & Hsh & Hm' & E & _ & _ & Hrel); [cbn [dmul dmag]; lia|].
  cbn [dmul dmag dexp dneg] in *. specialize (Hrel N1). rewrite E. cbn [dmag dexp].
  assert (1 <= m')%Z as M1.
  { destruct (Z.eq_dec m' 0) as [Z0|]; [|lia]. subst m'. rewrite Z.mul_0_l in Hrel.
    change (2 ^ 24)%Z with 16777216%Z in Hrel. lia. }
  pose proof (bitlen_ge 23 (13421773 * m') ltac:(lia) ltac:(change (2 ^ 23)%Z with 8388608%Z; lia)). lia.
Qed.
