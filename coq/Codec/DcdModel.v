(* DCD unit-cell block (mdtraj/formats/dcd/src/dcdplugin.c: write_timestep / read_next_timestep) over the
   real numbers.  No proofs in this file.  Six doubles per frame in the CHARMM order
   [A, cos(gamma), B, cos(beta), cos(alpha), C]; the writer stores sin((pi/2)/90 * (90 - angle)) (= cos(angle)),
   the reader returns 90 - asin(.) * 90 / (pi/2) when the three middle slots lie in [-1, 1], otherwise it takes
   them for degrees (files of NAMD 2.5).  The slot order below is the format standard; what /repo's source
   assigns is regenerated into Gen/CodecTables.v (src_dcd_write_slots / src_dcd_read_slots) and obliged to
   coincide with it by Props/C01.v:dcd_format_standard. *)
From Coq Require Import Reals List String.
Import ListNotations.
Open Scope R_scope.

Definition dcd_slots_std : list string := ["A"; "gamma"; "B"; "beta"; "alpha"; "C"]%string.

Record cellR := CellR { cA : R; cB : R; cC : R; calpha : R; cbeta : R; cgamma : R }.

Definition dcd_cos (ang : R) : R := sin ((PI / 2 / 90) * (90 - ang)).
Definition dcd_angle (u : R) : R := 90 - asin u * 90 / (PI / 2).

Definition dcd_write_cell (c : cellR) : list R :=
  [cA c; dcd_cos (cgamma c); cB c; dcd_cos (cbeta c); dcd_cos (calpha c); cC c].

Definition in_unit (u : R) : bool :=
  if Rle_dec (-1) u then (if Rle_dec u 1 then true else false) else false.

Definition dcd_read_cell (u : list R) : option cellR :=
  match u with
  | [u0; u1; u2; u3; u4; u5] =>
      if (in_unit u1 && in_unit u3 && in_unit u4)%bool
      then Some (CellR u0 u2 u5 (dcd_angle u4) (dcd_angle u3) (dcd_angle u1))
      else Some (CellR u0 u2 u5 u4 u3 u1)
  | _ => None
  end.
