(* Save/load glue of C01: what Trajectory.save_* hands to each file class and what each loader converts back
   (in_units_of), the float32 arithmetic of both conversions, and the format conventions (which quantities a
   format stores).  Definitions only, no proofs.

   The tables [src_save_glue] / [src_load_glue] and the two factors are regenerated from /repo on every run
   (Gen/CodecTables.v: the AST of every save_* method and every loader; the factors by running mdtraj's unit
   package).  The tables [stores_std] / [loader_conversions_std] below are hand-written from the format
   conventions and are what Props/C01.v obliges the regenerated ones to satisfy. *)
From Coq Require Import ZArith Ascii String Bool List.
Import ListNotations.
Require Import MD.Gen.CodecTables MD.Codec.Model.
Open Scope Z_scope.

(* ------------------------------------------------------------------ arithmetic of in_units_of *)
Definition dmul (a b : dy) : dy := Dy (xorb (dneg a) (dneg b)) (dmag a * dmag b) (dexp a + dexp b).

(* the Python floats conversion_factor_to returns *)
Definition nm_to_ang : dy := Dy false nm_to_ang_mag nm_to_ang_exp.
Definition ang_to_nm : dy := Dy false ang_to_nm_mag ang_to_nm_exp.

(* float32 array times a Python float (also in place): NumPy casts the scalar to float32, one float32 product *)
Definition f32_mulf (c x : dy) : dy := rnd32 (dmul (rnd32 c) x).

(* nearest binary64 (ties to even), subnormals included *)
Definition rnd64 (x : dy) : dy :=
  let sh := Z.max (bitlen (dmag x) - 53) (-1074 - dexp x) in
  if sh <=? 0 then x else Dy (dneg x) (rnd_hev (dmag x) (pow2 sh)) (dexp x + sh).

(* float32 MASKED array times a Python float, in place (netCDF4 hands out masked arrays; numpy.ma turns the scalar
   into a 0-d float64 array, which is not a weak scalar): the product is formed in binary64 and cast back *)
Definition f32_mulf_via64 (c x : dy) : dy := rnd32 (rnd64 (dmul c x)).

(* loader: in_units_of(xyz, <file>.distance_unit, Trajectory._distance_unit, inplace=True) *)
Definition from_file_unit (angstrom : bool) (y : dy) : dy := if angstrom then f32_mulf ang_to_nm y else y.
Definition from_file_unit_via64 (angstrom : bool) (y : dy) : dy := if angstrom then f32_mulf_via64 ang_to_nm y else y.
(* saver, written with the factor as mdtraj computes it (Model.to_file_unit uses the integer ang_per_nm) *)
Definition to_file_unit_f (angstrom : bool) (x : dy) : dy := if angstrom then f32_mulf nm_to_ang x else x.

(* ------------------------------------------------------------------ conversion codes *)
Inductive conv := CPass | CToFile | CFromFile | COther.
Definition conv_of (c : nat) : conv :=
  match c with 0%nat => CPass | 1%nat => CToFile | 2%nat => CFromFile | _ => COther end.

(* the number that results from handing x over with conversion c, for a file class whose unit is angstrom or not;
   None: a conversion the conventions do not know *)
Definition apply_conv (c : conv) (angstrom : bool) (x : dy) : option dy :=
  match c with
  | CPass => Some x
  | CToFile => Some (to_file_unit_f angstrom x)
  | CFromFile => Some (from_file_unit angstrom x)
  | COther => None
  end.

Definition is_distance (role : string) : bool :=
  (String.eqb role "xyz" || String.eqb role "lengths" || String.eqb role "vectors")%string.

(* one argument of a write call is handed over correctly: distances in the file's unit, time and angles as they are.
   For a nanometre format handing a distance over unconverted is the same thing. *)
Definition arg_ok (angstrom : bool) (a : string * nat) : bool :=
  let '(role, c) := a in
  if is_distance role then
    match conv_of c with CToFile => true | CPass => negb angstrom | _ => false end
  else match conv_of c with CPass => true | _ => false end.

Definition call_ok (angstrom : bool) (call : list (string * nat)) : bool :=
  forallb (arg_ok angstrom) call && existsb (fun a => String.eqb (fst a) "xyz") call.

(* saver of an extension: method, file class, unit *)
Definition saver_of_ext (ext : string) : option (string * string * bool) :=
  match assoc ext savers_table with
  | None => None
  | Some m => match assoc m saver_class with
              | None => None
              | Some (cls, _) => match assoc cls units_table with Some u => Some (m, cls, u) | None => None end
              end
  end.

Definition save_glue_ok (ext : string) : bool :=
  match saver_of_ext ext with
  | None => false
  | Some (m, _, u) => match assoc m src_save_glue with
                      | None => false
                      | Some calls => negb (Nat.eqb (length calls) 0) && forallb (call_ok u) calls
                      end
  end.

(* loader of the class an extension is written with: every conversion is file unit -> Trajectory unit, and an
   angstrom class converts exactly the quantities the conventions list (coordinates; coordinates and cell) *)
Definition loader_conversions_std : list (string * nat) := [
  ("AmberNetCDFRestartFile", 2); ("AmberRestartFile", 2); ("DCDTrajectoryFile", 2); ("DTRTrajectoryFile", 2);
  ("GroTrajectoryFile", 2); ("HDF5TrajectoryFile", 2); ("LAMMPSTrajectoryFile", 2); ("MDCRDTrajectoryFile", 2);
  ("NetCDFTrajectoryFile", 2); ("PDBTrajectoryFile", 2); ("TRRTrajectoryFile", 2); ("XTCTrajectoryFile", 2);
  ("XYZTrajectoryFile", 1)
]%string%nat.

Definition load_glue_ok (ext : string) : bool :=
  match saver_of_ext ext with
  | None => false
  | Some (_, cls, u) =>
      match assoc cls src_load_glue, assoc cls loader_conversions_std with
      | Some codes, Some k =>
          forallb (fun c => match conv_of c with CFromFile => true | _ => false end) codes &&
          (negb u || Nat.eqb (length codes) k)
      | _, _ => false
      end
  end.

(* ------------------------------------------------------------------ what a format stores *)
Fixpoint insert_str (s : string) (l : list string) : list string :=
  match l with
  | [] => [s]
  | a :: r => match String.compare s a with
              | Lt => s :: l
              | Eq => l
              | Gt => a :: insert_str s r
              end
  end.
Definition sort_dedup (l : list string) : list string := fold_right insert_str [] l.

(* the quantities the saver of an extension hands to the file class (union over its write calls) *)
Definition stored_roles (ext : string) : option (list string) :=
  match saver_of_ext ext with
  | None => None
  | Some (m, _, _) => match assoc m src_save_glue with
                      | None => None
                      | Some calls => Some (sort_dedup (map fst (concat calls)))
                      end
  end.

(* format conventions: MDTraj HDF5, AMBER NetCDF / restart: coordinates, time, cell lengths and angles; GROMACS
   xtc/trr/gro: coordinates, time, box vectors; DCD, LAMMPS dump, PDB (CRYST1): coordinates and cell, no time;
   AMBER mdcrd: coordinates and box lengths; xyz: coordinates only; DESRES dtr: coordinates, time, cell *)
Definition writable_exts : list string :=
  [".h5"; ".xtc"; ".trr"; ".dcd"; ".nc"; ".netcdf"; ".ncdf"; ".mdcrd"; ".crd"; ".xyz"; ".xyz.gz";
   ".lammpstrj"; ".gro"; ".pdb"; ".pdb.gz"; ".dtr"; ".rst7"; ".ncrst"]%string.

Definition all4 : list string := ["angles"; "lengths"; "time"; "xyz"]%string.
Definition stores_std : list (string * list string) := [
  (".h5", all4); (".xtc", ["time"; "vectors"; "xyz"]); (".trr", ["time"; "vectors"; "xyz"]);
  (".dcd", ["angles"; "lengths"; "xyz"]); (".nc", all4); (".netcdf", all4); (".ncdf", all4);
  (".mdcrd", ["lengths"; "xyz"]); (".crd", ["lengths"; "xyz"]); (".xyz", ["xyz"]); (".xyz.gz", ["xyz"]);
  (".lammpstrj", ["angles"; "lengths"; "xyz"]); (".gro", ["time"; "vectors"; "xyz"]);
  (".pdb", ["angles"; "lengths"; "xyz"]); (".pdb.gz", ["angles"; "lengths"; "xyz"]);
  (".dtr", all4); (".rst7", all4); (".ncrst", all4)
]%string.

(* ------------------------------------------------------------------ hypotheses of the round-trip bound *)
(* both products are in the normal range of binary32 (no underflow) *)
Definition units_normal (x : dy) : Prop :=
  let c1 := rnd32 nm_to_ang in
  let y := f32_mulf nm_to_ang x in
  let c2 := rnd32 ang_to_nm in
  -149 - (dexp c1 + dexp x) <= bitlen (dmag c1 * dmag x) - 24 /\
  -149 - (dexp c2 + dexp y) <= bitlen (dmag c2 * dmag y) - 24.
