(* The XTC frame codec: the decoder inverts the encoder (C01, xtc_frame_roundtrip). *)
From Coq Require Import ZArith Bool List Lia ZifyBool.
Import ListNotations.
Require Import MD.Gen.CodecTables MD.Codec.Model MD.Codec.Proofs MD.Codec.XtcModel MD.Codec.XtcProofs.
Open Scope Z_scope.

Ltac Zify.zify_post_hook ::= Z.to_euclidean_division_equations.

Definition tle (a b : triple) : Prop :=
  let '(a0, a1, a2) := a in let '(b0, b1, b2) := b in a0 <= b0 /\ a1 <= b1 /\ a2 <= b2.
Definition in_box (mn mx c : triple) : Prop := tle mn c /\ tle c mx.
(* the C code refuses (errval = 0) when maxint - minint >= INT_MAX - 2 *)
Definition span_ok (mn mx : triple) : Prop :=
  let '(a0, a1, a2) := mn in let '(b0, b1, b2) := mx in
  b0 - a0 + 1 < 2 ^ 31 /\ b1 - a1 + 1 < 2 ^ 31 /\ b2 - a2 + 1 < 2 ^ 31.

Lemma bitlen_le : forall m k, 0 <= k -> m < 2 ^ k -> bitlen m <= k.
Proof.
  intros m k Hk H. unfold bitlen. destruct (Z.leb_spec m 0); [lia|].
  assert (Z.log2 m < k) by (apply Z.log2_lt_pow2; lia). lia.
Qed.

Lemma bitlen_pos : forall m, 0 < m -> 0 < bitlen m.
Proof. intros m H. unfold bitlen. destruct (Z.leb_spec m 0); [lia|]. pose proof (Z.log2_nonneg m). lia. Qed.

Lemma prod3 : forall a b c, prod [a; b; c] = a * b * c.
Proof. intros. unfold prod. cbn [fold_left]. ring. Qed.

(* ------------------------------------------------------------------ absolute coordinates *)
Lemma abs_roundtrip : forall mn mx c rest, in_box mn mx c -> span_ok mn mx ->
  get_abs (mk_absfmt mn mx) (put_abs (mk_absfmt mn mx) c ++ rest) = Some (c, rest).
Proof.
  intros [[m0 m1] m2] [[x0 x1] x2] [[c0 c1] c2] rest [Hlo Hhi] Hs. cbn in Hlo, Hhi, Hs.
  unfold mk_absfmt. cbn [tsub tlist map].
  set (s0 := x0 - m0 + 1). set (s1 := x1 - m1 + 1). set (s2 := x2 - m2 + 1).
  destruct (existsb (fun s : Z => 16777215 <? s) [s0; s1; s2]) eqn:E.
  - unfold put_abs, get_abs. cbn [af_bitsize af_bits af_min af_sizes tsub map].
    change (0 =? 0) with true. cbv iota.
    destruct (sizeofint_spec s0 ltac:(subst s0; lia)) as [A0 B0].
    destruct (sizeofint_spec s1 ltac:(subst s1; lia)) as [A1 B1].
    destruct (sizeofint_spec s2 ltac:(subst s2; lia)) as [A2 B2].
    rewrite <- !app_assoc.
    rewrite bits_roundtrip by (rewrite Z2Nat.id by lia; subst s0; lia).
    rewrite bits_roundtrip by (rewrite Z2Nat.id by lia; subst s1; lia).
    rewrite bits_roundtrip by (rewrite Z2Nat.id by lia; subst s2; lia).
    repeat f_equal; lia.
  - cbn [existsb] in E. rewrite !orb_false_r in E. rewrite !orb_false_iff in E. destruct E as (E0 & E1 & E2).
    unfold put_abs, get_abs. cbn [af_bitsize af_bits af_min af_sizes tsub].
    assert (0 < prod [s0; s1; s2] < 2 ^ 72) as P.
    { rewrite prod3.
      assert (0 < s0 <= 16777215) by (subst s0; lia). assert (0 < s1 <= 16777215) by (subst s1; lia).
      assert (0 < s2 <= 16777215) by (subst s2; lia).
      split; [apply Z.mul_pos_pos; [apply Z.mul_pos_pos|]; lia|].
      replace (2 ^ 72) with 4722366482869645213696 by reflexivity.
      assert (s0 * s1 <= 16777215 * 16777215) by (apply Z.mul_le_mono_nonneg; lia).
      assert (s0 * s1 * s2 <= 16777215 * 16777215 * 16777215) by (apply Z.mul_le_mono_nonneg; try lia; apply Z.mul_nonneg_nonneg; lia).
      lia. }
    assert (0 < sizeofints [s0; s1; s2] <= 72) as SZ.
    { unfold sizeofints. split; [apply bitlen_pos; lia|apply bitlen_le; lia]. }
    destruct (Z.eqb_spec (sizeofints [s0; s1; s2]) 0) as [Z0|_]; [lia|].
    assert (in_sizes [s0; s1; s2] [c0 - m0; c1 - m1; c2 - m2]) as IS.
    { repeat constructor; subst s0 s1 s2; lia. }
    pose proof (sizeofints_sufficient _ _ IS) as SF.
    rewrite ints_roundtrip; try lia.
    + repeat f_equal; lia.
    + inversion IS; assumption.
Qed.

(* ------------------------------------------------------------------ small deltas *)
Definition close (sn : Z) (a b : triple) : Prop := all_lt (tsub a b) sn = true.

Definition delta (sn : Z) (a prev : triple) : list Z := map (fun x => x + sn) (tlist (tsub a prev)).

Lemma small_roundtrip : forall idx a prev rest,
  xtc_firstidx <= idx < lastidx -> close (magic idx / 2) a prev ->
  decodeints idx [magic idx; magic idx; magic idx]
    (encodeints idx [magic idx; magic idx; magic idx] (delta (magic idx / 2) a prev) ++ rest)
  = Some (delta (magic idx / 2) a prev, rest).
Proof.
  intros idx [[a0 a1] a2] [[p0 p1] p2] rest Hidx Hc.
  destruct (magic_cube idx Hidx) as [Hcube Hpos].
  unfold close, all_lt, tsub in Hc. rewrite !andb_true_iff in Hc. destruct Hc as [[H0 H1] H2].
  unfold delta. cbn [tsub tlist map].
  set (m := magic idx) in *. set (sn := m / 2) in *.
  assert (2 * sn <= m) by (subst sn; lia).
  assert (0 <= xtc_firstidx) as F by (vm_compute; discriminate).
  assert (lastidx <= 320) as L by (vm_compute; discriminate).
  apply ints_roundtrip; try lia.
  - repeat constructor; lia.
  - cbn [mixed_radix mixed].
    assert (0 <= a0 - p0 + sn < m) by lia. assert (0 <= a1 - p1 + sn < m) by lia. assert (0 <= a2 - p2 + sn < m) by lia.
    assert (m ^ 3 = m * m * m) as E3 by ring. 
    assert (((a0 - p0 + sn) * m + (a1 - p1 + sn)) * m + (a2 - p2 + sn) < m * m * m) by nia.
    lia.
Qed.

Fixpoint deltas_of (sn : Z) (prev : triple) (atoms : list triple) : list (list Z) :=
  match atoms with
  | [] => []
  | a :: r => delta sn a prev :: deltas_of sn a r
  end.

Fixpoint chain (sn : Z) (prev : triple) (atoms : list triple) : Prop :=
  match atoms with
  | [] => True
  | a :: r => close sn a prev /\ chain sn a r
  end.

Definition last_of (prev : triple) (atoms : list triple) : triple := last atoms prev.

Lemma last_default : forall {A} (l : list A) a d d', last (a :: l) d = last (a :: l) d'.
Proof. induction l as [|b l IH]; intros a d d'; [reflexivity|]. cbn [last] in *. apply (IH b). Qed.

(* what the inner loop of the encoder consumes *)
Lemma small_run_spec : forall fuel sn smaller prev cs run is acc,
  (1 <= fuel)%nat -> (exists c r, cs = c :: r /\ close sn c prev) ->
  exists atoms rest is',
    small_run fuel sn smaller prev cs run is acc =
      (rev acc ++ deltas_of sn prev atoms, rest, last_of prev atoms, run + 3 * Z.of_nat (length atoms), is') /\
    cs = atoms ++ rest /\ atoms <> [] /\ chain sn prev atoms /\ (length atoms <= fuel)%nat /\
    (is' = is \/ (is = -1 /\ is' = 0)).
Proof.
  induction fuel; intros sn smaller prev cs run is acc Hf (c & r & -> & Hc); [lia|].
  cbn [small_run].
  set (is1 := if (is =? -1) && (wrap32 (smaller * smaller) <=? wrap32 (sumsq (tsub c prev))) then 0 else is).
  assert (is1 = is \/ (is = -1 /\ is1 = 0)) as His1.
  { subst is1. destruct (Z.eqb_spec is (-1)); cbn [andb]; [|now left].
    destruct (wrap32 (smaller * smaller) <=? wrap32 (sumsq (tsub c prev))); [right|left]; lia. }
  set (cont := match r with [] => false | c2 :: _ => all_lt (tsub c2 c) sn end).
  destruct (cont && (run + 3 <? 24)) eqn:E.
  - apply andb_true_iff in E. destruct E as [Ec _].
    destruct r as [|c2 r2]; [discriminate Ec|]. subst cont.
    destruct fuel as [|fuel'].
    + (* no fuel left: the loop stops here; cannot happen with fuel 8 and run < 24, but the statement holds *)
      cbn [small_run]. exists [c], (c2 :: r2), is1. cbn [deltas_of length last_of last rev app chain].
      repeat split; try assumption; try lia; try discriminate.
    + destruct (IHfuel sn smaller c (c2 :: r2) (run + 3) is1 (delta sn c prev :: acc) ltac:(lia))
        as (atoms & rest & is' & Heq & Hcs & Hne & Hch & Hlen & His').
      { exists c2, r2. split; [reflexivity|exact Ec]. }
      exists (c :: atoms), rest, is'. unfold delta in *. rewrite Heq. cbn [rev deltas_of length chain].
      repeat split; try assumption; try discriminate; try lia.
      * assert (last_of prev (c :: atoms) = last_of c atoms) as ->
          by (destruct atoms as [|a0 atoms0]; [congruence|unfold last_of; cbn [last]; apply last_default]).
        rewrite <- app_assoc. cbn [app]. unfold delta.
        replace (run + 3 + 3 * Z.of_nat (length atoms)) with (run + 3 * Z.of_nat (S (length atoms))) by lia.
        reflexivity.
      * cbn [app]. now rewrite Hcs.
  - exists [c], r, is1. cbn [deltas_of length last_of last rev app chain].
    repeat split; try assumption; try lia; try discriminate.
Qed.

(* the decoder's loop over the small atoms, after the first (interchanged) one *)
Lemma dec_smalls_rest : forall idx atoms prev this tail acc,
  xtc_firstidx <= idx < lastidx -> chain (magic idx / 2) prev atoms ->
  dec_smalls (length atoms) idx (magic idx / 2) false this prev
    (concat (map (encodeints idx [magic idx; magic idx; magic idx]) (deltas_of (magic idx / 2) prev atoms)) ++ tail) acc
  = Some (rev acc ++ atoms, tail).
Proof.
  intros idx atoms. induction atoms as [|a atoms IH]; intros prev this tail acc Hidx Hch.
  - cbn. now rewrite app_nil_r.
  - destruct Hch as [Hc Hch]. cbn [length dec_smalls deltas_of map concat]. rewrite <- app_assoc.
    rewrite small_roundtrip by assumption.
    destruct a as [[a0 a1] a2], prev as [[p0 p1] p2]. unfold delta. cbn [tsub tlist map].
    replace (a0 - p0 + magic idx / 2 + p0 - magic idx / 2, a1 - p1 + magic idx / 2 + p1 - magic idx / 2,
             a2 - p2 + magic idx / 2 + p2 - magic idx / 2) with (a0, a1, a2) by (repeat f_equal; lia).
    rewrite IH by assumption. cbn [rev]. rewrite <- app_assoc. reflexivity.
Qed.

Lemma dec_smalls_first : forall idx a atoms c1 tail,
  xtc_firstidx <= idx < lastidx -> chain (magic idx / 2) c1 (a :: atoms) ->
  dec_smalls (length (a :: atoms)) idx (magic idx / 2) true c1 c1
    (concat (map (encodeints idx [magic idx; magic idx; magic idx]) (deltas_of (magic idx / 2) c1 (a :: atoms))) ++ tail) []
  = Some (a :: c1 :: atoms, tail).
Proof.
  intros idx a atoms c1 tail Hidx [Hc Hch]. cbn [length dec_smalls deltas_of map concat]. rewrite <- app_assoc.
  rewrite small_roundtrip by assumption.
  destruct a as [[a0 a1] a2], c1 as [[p0 p1] p2]. unfold delta. cbn [tsub tlist map].
  replace (a0 - p0 + magic idx / 2 + p0 - magic idx / 2, a1 - p1 + magic idx / 2 + p1 - magic idx / 2,
           a2 - p2 + magic idx / 2 + p2 - magic idx / 2) with (a0, a1, a2) by (repeat f_equal; lia).
  rewrite dec_smalls_rest by assumption. reflexivity.
Qed.

(* ------------------------------------------------------------------ flags and state *)
Lemma flags_roundtrip : forall prevrun drun k is tail,
  0 <= k <= 8 -> -1 <= is <= 1 -> (drun = prevrun \/ prevrun = -1) ->
  dec_flags drun (enc_flags prevrun (3 * k) is ++ tail) = Some (3 * k, is, tail).
Proof.
  intros prevrun drun k is tail Hk His Hrel. unfold enc_flags, dec_flags.
  destruct (negb (3 * k =? prevrun) || negb (is =? 0)) eqn:E.
  - rewrite <- app_assoc. change [true] with (bits_of 1 1).
    rewrite bits_roundtrip by (cbn; lia). change (1 =? 1) with true. cbv iota.
    rewrite bits_roundtrip by (change (2 ^ Z.of_nat 5) with 32; lia).
    set (v := 3 * k + is + 1).
    assert (v - v mod 3 = 3 * k) as -> by (subst v; lia).
    assert (v mod 3 - 1 = is) as -> by (subst v; lia). reflexivity.
  - apply orb_false_iff in E. destruct E as [E1 E2].
    apply negb_false_iff in E1, E2. apply Z.eqb_eq in E1, E2.
    change [false] with (bits_of 1 0). rewrite bits_roundtrip by (cbn; lia).
    change (0 =? 1) with false. cbv iota.
    assert (drun = 3 * k) as -> by lia. subst is. reflexivity.
Qed.

Record inv (minidx maxidx : Z) (st : encstate) : Prop := {
  inv_idx : minidx <= es_smallidx st <= maxidx;
  inv_num : es_smallnum st = magic (es_smallidx st) / 2;
  inv_smaller : minidx < es_smallidx st -> es_smaller st = magic (es_smallidx st - 1) / 2 }.

Definition dstate (st : encstate) (run : Z) : decstate :=
  DecSt (es_smallidx st) (es_smaller st) (es_smallnum st) run.

Lemma magic_first_pred : magic (xtc_firstidx - 1) = 0.
Proof. vm_compute. reflexivity. Qed.

Lemma update_roundtrip : forall minidx maxidx st is run drun,
  xtc_firstidx <= minidx -> maxidx < lastidx -> inv minidx maxidx st ->
  -1 <= is <= 1 -> (is = 1 -> es_smallidx st < maxidx) -> (is = -1 -> minidx < es_smallidx st) ->
  dec_update (dstate st drun) is run = dstate (enc_update st is run) run /\
  inv minidx maxidx (enc_update st is run) /\ es_prevrun (enc_update st is run) = run /\
  (magic (es_smallidx (enc_update st is run)) =? 0) = false.
Proof.
  intros minidx maxidx st is run drun Hmin Hmax [Hidx Hnum Hsm] His Hup Hdown.
  assert (forall i, minidx <= i <= maxidx -> (magic i =? 0) = false) as NZ.
  { intros i Hi. destruct (magic_cube i ltac:(lia)). lia. }
  unfold dec_update, enc_update, dstate. cbn [ds_smallidx ds_smaller ds_smallnum].
  assert (is = -1 \/ is = 0 \/ is = 1) as [ -> | [ -> | -> ] ] by lia.
  - specialize (Hdown eq_refl). change (-1 <? 0) with true. change (-1 =? 0) with false. cbv iota.
    cbn [es_smallidx es_smaller es_smallnum es_prevrun].
    repeat split; cbn [es_smallidx es_smaller es_smallnum es_prevrun]; try lia.
    + f_equal. destruct (Z.ltb_spec xtc_firstidx (es_smallidx st + -1)); [reflexivity|].
      assert (es_smallidx st + -1 = xtc_firstidx) as -> by lia. now rewrite magic_first_pred.
    + rewrite Hsm by lia. replace (es_smallidx st + -1) with (es_smallidx st - 1) by lia. reflexivity.
    + apply NZ. lia.
  - change (0 <? 0) with false. change (0 =? 0) with true. cbv iota. rewrite Z.add_0_r.
    repeat split; cbn [es_smallidx es_smaller es_smallnum es_prevrun]; try assumption; try lia.
    apply NZ. lia.
  - specialize (Hup eq_refl). change (1 <? 0) with false. change (0 <? 1) with true. change (1 =? 0) with false. cbv iota.
    repeat split; cbn [es_smallidx es_smaller es_smallnum es_prevrun]; try lia.
    + intros _. rewrite Hnum. replace (es_smallidx st + 1 - 1) with (es_smallidx st) by lia. reflexivity.
    + apply NZ. lia.
Qed.

(* ------------------------------------------------------------------ one group *)
Lemma group_roundtrip : forall mn mx maxidx minidx larger first st prev cs st' prev' rest bits drun tail,
  span_ok mn mx -> Forall (in_box mn mx) cs ->
  xtc_firstidx <= minidx -> maxidx < lastidx -> inv minidx maxidx st ->
  (drun = es_prevrun st \/ es_prevrun st = -1) ->
  enc_group (mk_absfmt mn mx) maxidx minidx larger first st prev cs = Some (st', prev', rest, bits) ->
  exists atoms, cs = atoms ++ rest /\ atoms <> [] /\
    dec_group (mk_absfmt mn mx) (dstate st drun) (bits ++ tail) = Some (dstate st' (es_prevrun st'), atoms, tail) /\
    inv minidx maxidx st' /\ 0 <= es_prevrun st'.
Proof.
  intros mn mx maxidx minidx larger first st prev cs st' prev' rest bits drun tail
         Hspan Hbox Hmin Hmax Hinv Hrel Henc.
  destruct cs as [|c r]; [discriminate Henc|]. unfold enc_group in Henc.
  set (is0 := if (es_smallidx st <? maxidx) && negb first && all_lt (tsub c prev) larger then 1
              else if minidx <? es_smallidx st then -1 else 0) in *.
  assert (-1 <= is0 <= 1 /\ (is0 = 1 -> es_smallidx st < maxidx) /\ (is0 = -1 -> minidx < es_smallidx st)) as (His0 & Hup0 & Hdn0).
  { subst is0. destruct (Z.ltb_spec (es_smallidx st) maxidx); cbn [andb];
      [destruct (negb first && all_lt (tsub c prev) larger)|]; try (destruct (Z.ltb_spec minidx (es_smallidx st))); lia. }
  assert (xtc_firstidx <= es_smallidx st < lastidx) as Hidx by (destruct Hinv; lia).
  pose proof (inv_num _ _ _ Hinv) as Hnum.
  inversion Hbox as [|c' r' Hc Hr]; subst c' r'.
  (* is the second atom close to the first one? *)
  assert ((exists c2 r2, r = c2 :: r2 /\ all_lt (tsub c c2) (es_smallnum st) = true) \/
          (match r with c2 :: r2 => if all_lt (tsub c c2) (es_smallnum st) then (c2, c :: r2, true) else (c, r, false)
                   | [] => (c, r, false) end = (c, r, false))) as [(c2 & r2 & -> & Hclose)|Hns].
  { destruct r as [|c2 r2]; [right; reflexivity|]. destruct (all_lt (tsub c c2) (es_smallnum st)) eqn:E;
      [left; exists c2, r2; auto|right; reflexivity]. }
  - (* interchange + run of small atoms *)
    rewrite Hclose in Henc. cbn [negb andb] in Henc.
    destruct (small_run_spec 8 (es_smallnum st) (es_smaller st) c2 (c :: r2) 0 is0 [] ltac:(lia))
      as (atoms & rest0 & is' & Hrun & Hcs & Hne & Hch & Hlen & His').
    { exists c, r2. split; [reflexivity|exact Hclose]. }
    remember (0 + 3 * Z.of_nat (length atoms)) as runv eqn:Erun.
    rewrite Hrun in Henc. injection Henc as <- <- <- <-.
    destruct atoms as [|a atoms]; [congruence|]. cbn [app] in Hcs. injection Hcs as Ea Er. subst a r2.
    assert (-1 <= is' <= 1 /\ (is' = 1 -> es_smallidx st < maxidx) /\ (is' = -1 -> minidx < es_smallidx st)) as (Hisr & Hupr & Hdnr)
      by (destruct His' as [->|[-> ->]]; lia).
    destruct (update_roundtrip minidx maxidx st is' runv drun Hmin Hmax Hinv Hisr Hupr Hdnr)
      as (Hupd & Hinv' & Hprev & Hnz).
    assert (runv = 3 * Z.of_nat (length (c :: atoms))) as Erun' by lia.
    exists (c :: c2 :: atoms). split; [reflexivity|]. split; [discriminate|].
    split; [|split; [exact Hinv'|rewrite Hprev; lia]].
    unfold dec_group. rewrite <- app_assoc.
    inversion Hr as [|c2' r2' Hc2 _]; subst c2' r2'.
    rewrite abs_roundtrip by assumption.
    cbn [dstate ds_run ds_smallidx ds_smallnum].
    rewrite <- app_assoc. rewrite Erun' at 1. rewrite flags_roundtrip by (try lia; assumption).
    destruct (Z.ltb_spec 0 (3 * Z.of_nat (length (c :: atoms)))) as [_|Hbad]; [|cbn [length] in Hbad; lia].
    replace (Z.to_nat (3 * Z.of_nat (length (c :: atoms)) / 3)) with (length (c :: atoms))
      by (rewrite Z.mul_comm, Z.div_mul by lia; lia).
    cbn [rev app]. rewrite Hnum in *.
    rewrite dec_smalls_first by assumption.
    rewrite <- Erun'. rewrite Hupd. rewrite Hprev. cbn [dstate ds_smallidx]. rewrite Hnz. reflexivity.
  - (* a single atom written absolutely *)
    rewrite Hns in Henc. cbn [negb andb] in Henc.
    set (is1 := if is0 =? -1 then 0 else is0) in *.
    injection Henc as <- <- <- <-.
    assert (-1 <= is1 <= 1 /\ (is1 = 1 -> es_smallidx st < maxidx) /\ (is1 = -1 -> minidx < es_smallidx st)) as (Hisr & Hupr & Hdnr)
      by (subst is1; destruct (Z.eqb_spec is0 (-1)); lia).
    destruct (update_roundtrip minidx maxidx st is1 0 drun Hmin Hmax Hinv Hisr Hupr Hdnr) as (Hupd & Hinv' & Hprev & Hnz).
    exists [c]. split; [reflexivity|]. split; [discriminate|].
    split; [|split; [exact Hinv'|rewrite Hprev; lia]].
    unfold dec_group. rewrite <- app_assoc. rewrite abs_roundtrip by assumption.
    cbn [dstate ds_run ds_smallidx ds_smallnum map concat]. rewrite app_nil_r.
    change 0 with (3 * 0) at 1. rewrite flags_roundtrip by (try lia; assumption).
    change (0 <? 3 * 0) with false. cbv iota.
    change (3 * 0) with 0. rewrite Hupd. rewrite Hprev. cbn [dstate ds_smallidx]. rewrite Hnz. reflexivity.
Qed.

(* ------------------------------------------------------------------ the loop over groups *)
Lemma Forall_app_r : forall {A} (P : A -> Prop) a b, Forall P (a ++ b) -> Forall P b.
Proof. intros A P a b H. apply Forall_app in H. tauto. Qed.

Lemma loop_roundtrip : forall fuel mn mx maxidx minidx larger first st prev cs bits drun tail acc dfuel,
  span_ok mn mx -> Forall (in_box mn mx) cs -> xtc_firstidx <= minidx -> maxidx < lastidx ->
  inv minidx maxidx st -> (drun = es_prevrun st \/ es_prevrun st = -1) ->
  enc_loop fuel (mk_absfmt mn mx) maxidx minidx larger first st prev cs = Some bits ->
  (length cs <= dfuel)%nat ->
  dec_loop dfuel (mk_absfmt mn mx) (dstate st drun) (Z.of_nat (length cs)) (bits ++ tail) acc = Some (acc ++ cs).
Proof.
  induction fuel; intros mn mx maxidx minidx larger first st prev cs bits drun tail acc dfuel
                         Hspan Hbox Hmin Hmax Hinv Hrel Henc Hfuel.
  - cbn [enc_loop] in Henc. destruct cs; [|discriminate]. injection Henc as <-.
    rewrite app_nil_r. destruct dfuel; reflexivity.
  - cbn [enc_loop] in Henc. destruct cs as [|c r].
    + injection Henc as <-. rewrite app_nil_r. destruct dfuel; reflexivity.
    + destruct (enc_group (mk_absfmt mn mx) maxidx minidx larger first st prev (c :: r))
        as [[[[st' prev'] rest] gbits]|] eqn:Eg; [|discriminate].
      destruct (enc_loop fuel (mk_absfmt mn mx) maxidx minidx larger false st' prev' rest) as [more|] eqn:El; [|discriminate].
      injection Henc as <-.
      destruct (group_roundtrip mn mx maxidx minidx larger first st prev (c :: r) st' prev' rest gbits drun (more ++ tail)
                  Hspan Hbox Hmin Hmax Hinv Hrel Eg) as (atoms & Hcs & Hne & Hdec & Hinv' & Hrun').
      destruct dfuel as [|dfuel']; [cbn [length] in Hfuel; lia|].
      cbn [dec_loop].
      destruct (Z.leb_spec (Z.of_nat (length (c :: r))) 0) as [Hbad|_]; [cbn [length] in Hbad; lia|].
      rewrite <- app_assoc. rewrite Hdec.
      assert (1 <= length atoms)%nat by (destruct atoms; [congruence|cbn; lia]).
      assert (length (c :: r) = (length atoms + length rest)%nat) as Hlen by (rewrite Hcs, app_length; reflexivity).
      replace (Z.of_nat (length (c :: r)) - Z.of_nat (length atoms)) with (Z.of_nat (length rest)) by lia.
      rewrite (IHfuel mn mx maxidx minidx larger false st' prev' rest more (es_prevrun st') tail (acc ++ atoms) dfuel');
        try assumption; try lia.
      * rewrite Hcs. now rewrite app_assoc.
      * rewrite Hcs in Hbox. eapply Forall_app_r; eassumption.
Qed.

(* ------------------------------------------------------------------ minint / maxint *)
Lemma tle_refl : forall a, tle a a.
Proof. intros [[a0 a1] a2]. cbn. lia. Qed.

Lemma tle_trans : forall a b c, tle a b -> tle b c -> tle a c.
Proof. intros [[a0 a1] a2] [[b0 b1] b2] [[c0 c1] c2]. cbn. lia. Qed.

Lemma tmin_le : forall a b, tle (tmin a b) a /\ tle (tmin a b) b.
Proof. intros [[a0 a1] a2] [[b0 b1] b2]. cbn. lia. Qed.

Lemma tmax_ge : forall a b, tle a (tmax a b) /\ tle b (tmax a b).
Proof. intros [[a0 a1] a2] [[b0 b1] b2]. cbn. lia. Qed.

Lemma fold_tmin_le : forall r a, tle (fold_left tmin r a) a /\ (forall c, In c r -> tle (fold_left tmin r a) c).
Proof.
  induction r as [|x r IH]; intros a; cbn [fold_left].
  - split; [apply tle_refl|intros c []].
  - destruct (IH (tmin a x)) as [A B]. destruct (tmin_le a x) as [M1 M2]. split.
    + eapply tle_trans; eassumption.
    + intros c [<-|Hin]; [eapply tle_trans; eassumption|now apply B].
Qed.

Lemma fold_tmax_ge : forall r a, tle a (fold_left tmax r a) /\ (forall c, In c r -> tle c (fold_left tmax r a)).
Proof.
  induction r as [|x r IH]; intros a; cbn [fold_left].
  - split; [apply tle_refl|intros c []].
  - destruct (IH (tmax a x)) as [A B]. destruct (tmax_ge a x) as [M1 M2]. split.
    + eapply tle_trans; eassumption.
    + intros c [<-|Hin]; [eapply tle_trans; eassumption|now apply B].
Qed.

Lemma all_in_box : forall cs d,
  Forall (in_box (fold_triples tmin cs d) (fold_triples tmax cs d)) cs.
Proof.
  intros [|c0 r] d; [constructor|]. cbn [fold_triples].
  destruct (fold_tmin_le r c0) as [A B]. destruct (fold_tmax_ge r c0) as [C D].
  apply Forall_forall. intros c [<-|Hin]; split; auto.
Qed.

Lemma first_idx_ge : forall fuel idx md, idx <= first_idx fuel idx md.
Proof.
  induction fuel; intros idx md; cbn [first_idx]; [lia|].
  destruct ((idx <? lastidx) && (magic idx <? md)); [specialize (IHfuel (idx + 1) md)|]; lia.
Qed.

(* ------------------------------------------------------------------ the frame *)
(* For every list of integer triples the encoder accepts, the decoder returns exactly that list from the
   bytes the encoder produced (all atom counts, all run lengths, every adaptive change of smallidx). *)
Theorem xtc_frame_roundtrip : forall cs p, xtc_encode cs = Some p ->
  xtc_decode (Z.of_nat (length cs)) p = Some cs.
Proof.
  intros cs p H. unfold xtc_encode in H.
  set (mn := fold_triples tmin cs (0, 0, 0)) in *. set (mx := fold_triples tmax cs (0, 0, 0)) in *.
  set (smallidx := first_idx 80 xtc_firstidx (mindiff cs)) in *.
  destruct ((lastidx <=? smallidx + 8) || existsb (fun s : Z => int_max - 2 <=? s) (af_sizes (mk_absfmt mn mx))) eqn:G;
    [discriminate|].
  apply orb_false_iff in G. destruct G as [G1 G2]. apply Z.leb_gt in G1.
  replace (Z.min lastidx (smallidx + 8)) with (smallidx + 8) in H by lia.
  replace (smallidx + 8 - 8) with smallidx in H by lia.
  destruct (enc_loop _ _ _ _ _ _ _ _ cs) as [bits|] eqn:E; [|discriminate]. injection H as <-.
  unfold xtc_decode. cbn [xp_min xp_max xp_smallidx xp_bytes]. rewrite Nat2Z.id.
  destruct (pack_bits_spec bits) as [k [_ ->]].
  assert (span_ok mn mx) as Hspan.
  { destruct mn as [[a0 a1] a2], mx as [[b0 b1] b2]. unfold mk_absfmt in G2. cbn [tsub tlist map] in G2.
    assert (existsb (fun s : Z => int_max - 2 <=? s) [b0 - a0 + 1; b1 - a1 + 1; b2 - a2 + 1] = false) as G3.
    { destruct (existsb (fun s : Z => 16777215 <? s) [b0 - a0 + 1; b1 - a1 + 1; b2 - a2 + 1]); exact G2. }
    cbn [existsb] in G3. rewrite !orb_false_r in G3. rewrite !orb_false_iff in G3.
    unfold int_max in G3. cbn. lia. }
  pose proof (first_idx_ge 80 xtc_firstidx (mindiff cs)) as Hge. fold smallidx in Hge.
  change (DecSt smallidx (magic (Z.max xtc_firstidx (smallidx - 1)) / 2) (magic smallidx / 2) 0)
    with (dstate (EncSt smallidx (magic (Z.max xtc_firstidx (smallidx - 1)) / 2) (magic smallidx / 2) (-1)) 0).
  rewrite (loop_roundtrip (length cs) mn mx (smallidx + 8) smallidx (magic (smallidx + 8) / 2) true _ (0, 0, 0) cs bits 0
             (repeat false k) [] (length cs)); try assumption; try lia; try reflexivity.
  - apply all_in_box.
  - constructor; cbn [es_smallidx es_smallnum es_smaller]; lia.
  - right. reflexivity.
Qed.
