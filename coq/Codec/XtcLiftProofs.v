(* Lifting the per-call refinement of the C bit buffer to whole frames: the bytes xdrfile's encoder produces
   through encodebits/encodeints on its byte/lastbits/lastbyte buffer ([c_xtc_encode]) are exactly the bytes of
   the abstract encoder ([xtc_encode]) that [xtc_frame_roundtrip] is about. *)
From Coq Require Import ZArith Bool List Lia ZifyBool.
Import ListNotations.
Require Import MD.Gen.CodecTables MD.Codec.Model MD.Codec.Proofs MD.Codec.XtcModel MD.Codec.XtcProofs
               MD.Codec.XtcFrameProofs MD.Codec.XtcBitsProofs.
Open Scope Z_scope.

Ltac Zify.zify_post_hook ::= idtac.

Definition byte_ok (x : Z) : Prop := 0 <= x < 256.
(* writer state in good shape: ranges, and every byte written is a byte *)
Definition wgood (b : cbuf) : Prop := wok b /\ Forall byte_ok (cb_bytes b).

Lemma bits_of_zero : forall k, bits_of k 0 = repeat false k.
Proof. induction k; [reflexivity|]. cbn [bits_of repeat]. now rewrite Z.bits_0, IHk. Qed.

Lemma u8_byte : forall x, byte_ok (u8 x).
Proof. intros x. unfold byte_ok. rewrite u8_mod. apply Z.mod_pos_bound. lia. Qed.

(* every byte c_encodebits appends is a byte *)
Lemma enc_loop_bytes : forall fuel nb v b,
  Forall byte_ok (cb_bytes b) -> Forall byte_ok (cb_bytes (snd (c_enc_loop fuel nb v b))).
Proof.
  induction fuel; intros nb v b H; cbn [c_enc_loop]; [exact H|].
  destruct (8 <=? nb); [|exact H]. apply IHfuel. cbn [cb_bytes]. apply Forall_app. split; [exact H|].
  constructor; [apply u8_byte|constructor].
Qed.

Lemma c_encodebits_bytes : forall b n v, Forall byte_ok (cb_bytes b) -> Forall byte_ok (cb_bytes (c_encodebits b n v)).
Proof.
  intros b n v H. unfold c_encodebits. pose proof (enc_loop_bytes 10 n v b H) as L.
  destruct (c_enc_loop 10 n v b) as [nb b1]. cbn [snd] in L.
  destruct (0 <? nb); [|exact L]. destruct (8 <=? cb_lastbits b1 + nb); cbn [cb_bytes]; [|exact L].
  apply Forall_app. split; [exact L|]. constructor; [apply u8_byte|constructor].
Qed.

Lemma c_encodebits_good : forall b n v, wgood b -> 0 <= n <= 32 -> 0 <= v < 2 ^ n ->
  wgood (c_encodebits b n v) /\ wbits (c_encodebits b n v) = wbits b ++ bits_of (Z.to_nat n) v.
Proof.
  intros b n v [Hok HB] Hn Hv. destruct (c_encodebits_spec b n v Hok Hn Hv) as [A B].
  split; [split; [exact A|now apply c_encodebits_bytes]|exact B].
Qed.

(* ------------------------------------------------------------------ encodebits(buf, n, 0) for any n *)
Lemma enc_loop_zero : forall fuel b nb, wok b -> 0 <= nb < 8 * Z.of_nat fuel ->
  let '(nb', b') := c_enc_loop fuel nb 0 b in
  0 <= nb' < 8 /\ nb' <= nb /\ wok b' /\ wbits b' ++ repeat false (Z.to_nat nb') = wbits b ++ repeat false (Z.to_nat nb).
Proof.
  induction fuel; intros b nb Hok Hnb; [lia|]. cbn [c_enc_loop]. destruct (Z.leb_spec 8 nb) as [H8|H8].
  - pose proof (enc_step b 8 8 0 Hok ltac:(lia) ltac:(lia) ltac:(lia)) as S. cbv zeta in S.
    rewrite Z.sub_diag, Z.pow_0_r, Z.mod_1_r in S. specialize (S eq_refl). rewrite !Z.shiftr_0_l in *.
    rewrite Z.div_0_l in S by lia. destruct S as (Hok' & Hbits & _).
    set (b1 := CBuf _ _ _) in *.
    specialize (IHfuel b1 (nb - 8) Hok' ltac:(lia)). destruct (c_enc_loop fuel (nb - 8) 0 b1) as [nb' b'].
    destruct IHfuel as (A & B & C & D). split; [lia|]. split; [lia|]. split; [assumption|].
    rewrite D, Hbits. rewrite <- app_assoc. f_equal. rewrite bits_of_zero.
    replace (Z.to_nat nb) with (8 + Z.to_nat (nb - 8))%nat by lia. now rewrite repeat_app.
  - split; [lia|]. split; [lia|]. split; [assumption|reflexivity].
Qed.

Lemma c_encodebits_zero : forall b n, wgood b -> 0 <= n <= 72 ->
  wgood (c_encodebits b n 0) /\ wbits (c_encodebits b n 0) = wbits b ++ repeat false (Z.to_nat n).
Proof.
  intros b n [Hok HB] Hn. split; [split; [|now apply c_encodebits_bytes]|].
  - unfold c_encodebits. pose proof (enc_loop_zero 10 b n Hok ltac:(lia)) as L.
    destruct (c_enc_loop 10 n 0 b) as [nb b1] eqn:E. destruct L as (Hnb & _ & Hok1 & _).
    assert (c_encodebits b1 nb 0 = (if 0 <? nb then _ else b1)) as <-.
    { unfold c_encodebits. cbn [c_enc_loop]. destruct (Z.leb_spec 8 nb); [lia|reflexivity]. }
    apply (c_encodebits_spec b1 nb 0 Hok1); [lia|]. split; [lia|apply Z.pow_pos_nonneg; lia].
  - unfold c_encodebits. pose proof (enc_loop_zero 10 b n Hok ltac:(lia)) as L.
    destruct (c_enc_loop 10 n 0 b) as [nb b1] eqn:E. destruct L as (Hnb & _ & Hok1 & Hbits).
    assert (c_encodebits b1 nb 0 = (if 0 <? nb then _ else b1)) as <-.
    { unfold c_encodebits. cbn [c_enc_loop]. destruct (Z.leb_spec 8 nb); [lia|reflexivity]. }
    destruct (c_encodebits_spec b1 nb 0 Hok1 ltac:(lia)) as [_ S]; [split; [lia|apply Z.pow_pos_nonneg; lia]|].
    rewrite S, bits_of_zero. exact Hbits.
Qed.

(* ------------------------------------------------------------------ bytes[] sent with 8 bits each *)
Lemma c_send_bytes_spec : forall bytes b, wgood b -> Forall byte_ok bytes ->
  wgood (c_send_bytes b bytes) /\ wbits (c_send_bytes b bytes) = wbits b ++ concat (map (bits_of 8) bytes).
Proof.
  induction bytes as [|x r IH]; intros b Hg HB; unfold c_send_bytes; cbn [fold_left map concat].
  - split; [exact Hg|now rewrite app_nil_r].
  - inversion HB as [|x' r' Hx Hr]; subst x' r'.
    destruct (c_encodebits_good b 8 x Hg ltac:(lia) Hx) as [G1 B1].
    destruct (IH (c_encodebits b 8 x) G1 Hr) as [G2 B2]. unfold c_send_bytes in *.
    split; [exact G2|]. rewrite B2, B1. now rewrite <- app_assoc.
Qed.

(* ------------------------------------------------------------------ digits of the multi-byte value *)
Lemma le_bits_zero : forall fuel n, 0 <= n <= 8 * Z.of_nat fuel -> (1 <= fuel)%nat ->
  le_bits fuel n 0 = repeat false (Z.to_nat n).
Proof.
  induction fuel; intros n Hn Hf; [lia|]. cbn [le_bits]. destruct (Z.leb_spec n 8).
  - apply bits_of_zero.
  - rewrite Z.shiftr_0_l. rewrite IHfuel by lia. rewrite bits_of_zero. rewrite <- repeat_app. f_equal. lia.
Qed.

(* the layout [le_bits] of a value is its base-256 digits (low first), then padding or the partial top digit *)
Lemma le_bits_digits : forall dfuel F nbits v,
  0 <= v < 2 ^ nbits -> 0 < nbits <= 8 * Z.of_nat F -> v < 256 ^ Z.of_nat (S dfuel) ->
  let ds := le_digits dfuel v in
  let k := Z.of_nat (length ds) in
  Forall byte_ok ds /\ ds <> [] /\
  (8 * k <= nbits -> le_bits F nbits v = concat (map (bits_of 8) ds) ++ repeat false (Z.to_nat (nbits - 8 * k))) /\
  (nbits < 8 * k -> 0 < nbits - 8 * (k - 1) < 8 /\ 0 <= last ds 0 < 2 ^ (nbits - 8 * (k - 1)) /\
                    le_bits F nbits v = concat (map (bits_of 8) (removelast ds)) ++
                                        bits_of (Z.to_nat (nbits - 8 * (k - 1))) (last ds 0)).
Proof.
  induction dfuel; intros F nbits v Hv Hnb Hd; cbv zeta.
  - (* v < 256: a single digit *)
    change (256 ^ Z.of_nat 1) with 256 in Hd. cbn [le_digits length]. change (Z.of_nat 1) with 1.
    destruct F as [|F]; [lia|]. cbn [le_bits].
    split; [repeat constructor; unfold byte_ok; lia|]. split; [discriminate|]. split.
    + intros H8. cbn [map concat]. rewrite app_nil_r. destruct (Z.leb_spec nbits 8).
      * assert (nbits = 8) as -> by lia. cbn. now rewrite app_nil_r.
      * rewrite Z.shiftr_div_pow2 by lia. change (2 ^ 8) with 256. rewrite Z.div_small by lia.
        rewrite le_bits_zero by lia. reflexivity.
    + intros H8. cbn [removelast last map concat app]. destruct (Z.leb_spec nbits 8); [|lia].
      replace (nbits - 8 * (1 - 1)) with nbits by lia. repeat split; try lia. 
  - cbn [le_digits]. destruct (Z.ltb_spec v 256) as [Hs|Hl].
    + (* same as the base case *)
      cbn [length]. change (Z.of_nat 1) with 1. destruct F as [|F]; [lia|]. cbn [le_bits].
      split; [repeat constructor; unfold byte_ok; lia|]. split; [discriminate|]. split.
      * intros H8. cbn [map concat]. rewrite app_nil_r. destruct (Z.leb_spec nbits 8).
        -- assert (nbits = 8) as -> by lia. cbn. now rewrite app_nil_r.
        -- rewrite Z.shiftr_div_pow2 by lia. change (2 ^ 8) with 256. rewrite Z.div_small by lia.
           rewrite le_bits_zero by lia. reflexivity.
      * intros H8. cbn [removelast last map concat app]. destruct (Z.leb_spec nbits 8); [|lia].
        replace (nbits - 8 * (1 - 1)) with nbits by lia. repeat split; try lia.
    + (* low digit, then the digits of v / 256 *)
      assert (8 < nbits) as Hn8.
      { destruct (Z.leb_spec nbits 8); [|assumption]. assert (2 ^ nbits <= 2 ^ 8) by (apply Z.pow_le_mono_r; lia).
        change (2 ^ 8) with 256 in *. lia. }
      destruct F as [|F]; [lia|]. cbn [le_bits]. destruct (Z.leb_spec nbits 8); [lia|].
      rewrite Z.shiftr_div_pow2 by lia. change (2 ^ 8) with 256.
      assert (0 <= v / 256 < 2 ^ (nbits - 8)) as Hv'.
      { split; [apply Z.div_pos; lia|]. apply Z.div_lt_upper_bound; [lia|].
        replace (256 * 2 ^ (nbits - 8)) with (2 ^ nbits); [lia|].
        change 256 with (2 ^ 8). rewrite <- Z.pow_add_r by lia. f_equal. lia. }
      assert (v / 256 < 256 ^ Z.of_nat (S dfuel)) as Hd'.
      { apply Z.div_lt_upper_bound; [lia|]. rewrite (Nat2Z.inj_succ (S dfuel)), Z.pow_succ_r in Hd by lia. lia. }
      specialize (IHdfuel F (nbits - 8) (v / 256) Hv' ltac:(lia) Hd'). cbv zeta in IHdfuel.
      destruct IHdfuel as (IB & INE & I1 & I2).
      set (ds' := le_digits dfuel (v / 256)) in *. cbn [length]. rewrite Nat2Z.inj_succ.
      set (k' := Z.of_nat (length ds')) in *.
      assert (bits_of 8 v = bits_of 8 (v mod 256)) as EB
        by (apply bits_of_congr; change (2 ^ Z.of_nat 8) with 256; now rewrite Z.mod_mod by lia).
      split; [constructor; [unfold byte_ok; apply Z.mod_pos_bound; lia|exact IB]|]. split; [discriminate|]. split.
      * intros H8. rewrite I1 by lia. cbn [map concat]. rewrite <- app_assoc. rewrite EB. f_equal. f_equal. f_equal. lia.
      * intros H8. destruct (I2 ltac:(lia)) as (J1 & J2 & J3).
        replace (nbits - 8 * (Z.succ k' - 1)) with (nbits - 8 - 8 * (k' - 1)) by lia.
        assert (removelast (v mod 256 :: ds') = v mod 256 :: removelast ds') as -> by (destruct ds'; [congruence|reflexivity]).
        assert (last (v mod 256 :: ds') 0 = last ds' 0) as -> by (destruct ds'; [congruence|reflexivity]).
        split; [exact J1|]. split; [exact J2|]. rewrite J3. cbn [map concat]. rewrite <- app_assoc. now rewrite EB.
Qed.

(* encodeints on the C buffer appends exactly the multi-byte layout of the mixed-radix value *)
Lemma c_encodeints_spec : forall b nbits sizes nums, wgood b -> 0 < nbits <= 72 ->
  0 <= mixed_radix sizes nums < 2 ^ nbits ->
  wgood (c_encodeints b nbits sizes nums) /\
  wbits (c_encodeints b nbits sizes nums) = wbits b ++ encodeints nbits sizes nums.
Proof.
  intros b nbits sizes nums Hg Hn Hv. unfold c_encodeints, encodeints.
  set (V := mixed_radix sizes nums) in *.
  assert (V < 256 ^ Z.of_nat 41) as Hd.
  { apply Z.lt_le_trans with (2 ^ nbits); [lia|]. change (256 ^ Z.of_nat 41) with (2 ^ 328). apply Z.pow_le_mono_r; lia. }
  destruct (le_bits_digits 40 40 nbits V Hv ltac:(lia) Hd) as (DB & DNE & D1 & D2).
  set (ds := le_digits 40 V) in *. set (k := Z.of_nat (length ds)) in *.
  destruct (Z.leb_spec (8 * k) nbits) as [H8|H8].
  - destruct (c_send_bytes_spec ds b Hg DB) as [G1 B1].
    destruct (c_encodebits_zero (c_send_bytes b ds) (nbits - 8 * k) G1 ltac:(lia)) as [G2 B2].
    split; [exact G2|]. rewrite B2, B1, D1 by lia. now rewrite <- app_assoc.
  - destruct (D2 H8) as (J1 & J2 & J3).
    assert (Forall byte_ok (removelast ds)) as RB.
    { clear -DB. induction ds as [|x r IH]; [constructor|]. inversion DB; subst. destruct r; [constructor|].
      cbn [removelast]. constructor; [assumption|now apply IH]. }
    destruct (c_send_bytes_spec (removelast ds) b Hg RB) as [G1 B1].
    destruct (c_encodebits_good (c_send_bytes b (removelast ds)) (nbits - 8 * (k - 1)) (last ds 0) G1 ltac:(lia) J2) as [G2 B2].
    split; [exact G2|]. rewrite B2, B1, J3. now rewrite <- app_assoc.
Qed.
