(* Lifting the per-call refinement of the C bit buffer to whole frames: the bytes xdrfile's encoder produces
   through encodebits/encodeints on its byte/lastbits/lastbyte buffer ([c_xtc_encode]) are exactly the bytes of
   the abstract encoder ([xtc_encode]) that [xtc_frame_roundtrip] is about. *)
From Coq Require Import ZArith Bool List Lia ZifyBool.
Import ListNotations.
Require Import MD.Gen.CodecTables MD.Codec.Model MD.Codec.Proofs MD.Codec.XtcModel MD.Codec.XtcProofs
               MD.Codec.XtcFrameProofs MD.Codec.XtcBitsProofs.
Open Scope Z_scope.

Ltac Zify.zify_post_hook ::= idtac.

Definition byte_ok (x : Z) : Prop := 0 <= x < 256.
(* writer state in good shape: ranges, and every byte written is a byte *)
Definition wgood (b : cbuf) : Prop := wok b /\ Forall byte_ok (cb_bytes b).

Lemma bits_of_zero : forall k, bits_of k 0 = repeat false k.
Proof. induction k; [reflexivity|]. cbn [bits_of repeat]. now rewrite Z.bits_0, IHk. Qed.

Lemma u8_byte : forall x, byte_ok (u8 x).
Proof. intros x. unfold byte_ok. rewrite u8_mod. apply Z.mod_pos_bound. lia. Qed.

(* every byte c_encodebits appends is a byte *)
Lemma enc_loop_bytes : forall fuel nb v b,
  Forall byte_ok (cb_bytes b) -> Forall byte_ok (cb_bytes (snd (c_enc_loop fuel nb v b))).
Proof.
  induction fuel; intros nb v b H; cbn [c_enc_loop]; [exact H|].
  destruct (8 <=? nb); [|exact H]. apply IHfuel. cbn [cb_bytes]. apply Forall_app. split; [exact H|].
  constructor; [apply u8_byte|constructor].
Qed.

Lemma c_encodebits_bytes : forall b n v, Forall byte_ok (cb_bytes b) -> Forall byte_ok (cb_bytes (c_encodebits b n v)).
Proof.
  intros b n v H. unfold c_encodebits, c_enc_tail. pose proof (enc_loop_bytes 10 n v b H) as L.
  destruct (c_enc_loop 10 n v b) as [nb b1]. cbn [snd] in L.
  destruct (0 <? nb); [|exact L]. destruct (8 <=? cb_lastbits b1 + nb); cbn [cb_bytes]; [|exact L].
  apply Forall_app. split; [exact L|]. constructor; [apply u8_byte|constructor].
Qed.

Lemma c_enc_loop_small : forall fuel nb v b, nb < 8 -> c_enc_loop (S fuel) nb v b = (nb, b).
Proof. intros fuel nb v b H. cbn [c_enc_loop]. destruct (Z.leb_spec 8 nb); [lia|reflexivity]. Qed.

Lemma c_encodebits_small : forall b nb v, nb < 8 -> c_encodebits b nb v = c_enc_tail b nb v.
Proof. intros b nb v H. unfold c_encodebits. change 10%nat with (S 9). now rewrite c_enc_loop_small. Qed.

Lemma c_encodebits_good : forall b n v, wgood b -> 0 <= n <= 32 -> 0 <= v < 2 ^ n ->
  wgood (c_encodebits b n v) /\ wbits (c_encodebits b n v) = wbits b ++ bits_of (Z.to_nat n) v.
Proof.
  intros b n v [Hok HB] Hn Hv. destruct (c_encodebits_spec b n v Hok Hn Hv) as [A B].
  split; [split; [exact A|now apply c_encodebits_bytes]|exact B].
Qed.

(* ------------------------------------------------------------------ encodebits(buf, n, 0) for any n *)
Lemma enc_loop_zero : forall fuel b nb, wok b -> 0 <= nb < 8 * Z.of_nat fuel ->
  let '(nb', b') := c_enc_loop fuel nb 0 b in
  0 <= nb' < 8 /\ nb' <= nb /\ wok b' /\ wbits b' ++ repeat false (Z.to_nat nb') = wbits b ++ repeat false (Z.to_nat nb).
Proof.
  induction fuel; intros b nb Hok Hnb; [lia|]. cbn [c_enc_loop]. destruct (Z.leb_spec 8 nb) as [H8|H8].
  - pose proof (enc_step b 8 8 0 Hok ltac:(lia) ltac:(lia) ltac:(lia)) as S. cbv zeta in S.
    rewrite Z.sub_diag, Z.pow_0_r, Z.mod_1_r in S. specialize (S eq_refl). rewrite !Z.shiftr_0_l in *.
    rewrite Z.div_0_l in S by lia. destruct S as (Hok' & Hbits & _).
    set (b1 := CBuf _ _ _) in *.
    specialize (IHfuel b1 (nb - 8) Hok' ltac:(lia)). destruct (c_enc_loop fuel (nb - 8) 0 b1) as [nb' b'].
    destruct IHfuel as (A & B & C & D). split; [lia|]. split; [lia|]. split; [assumption|].
    rewrite D, Hbits. rewrite <- app_assoc. f_equal. rewrite bits_of_zero.
    replace (Z.to_nat nb) with (8 + Z.to_nat (nb - 8))%nat by lia. now rewrite repeat_app.
  - split; [lia|]. split; [lia|]. split; [assumption|reflexivity].
Qed.

Lemma c_encodebits_zero : forall b n, wgood b -> 0 <= n <= 72 ->
  wgood (c_encodebits b n 0) /\ wbits (c_encodebits b n 0) = wbits b ++ repeat false (Z.to_nat n).
Proof.
  intros b n [Hok HB] Hn. split; [split; [|now apply c_encodebits_bytes]|].
  - unfold c_encodebits. pose proof (enc_loop_zero 10 b n Hok ltac:(lia)) as L.
    destruct (c_enc_loop 10 n 0 b) as [nb b1] eqn:E. destruct L as (Hnb & _ & Hok1 & _).
    rewrite <- c_encodebits_small by lia.
    apply (c_encodebits_spec b1 nb 0 Hok1); [lia|]. split; [lia|apply Z.pow_pos_nonneg; lia].
  - unfold c_encodebits. pose proof (enc_loop_zero 10 b n Hok ltac:(lia)) as L.
    destruct (c_enc_loop 10 n 0 b) as [nb b1] eqn:E. destruct L as (Hnb & _ & Hok1 & Hbits).
    rewrite <- c_encodebits_small by lia.
    destruct (c_encodebits_spec b1 nb 0 Hok1 ltac:(lia)) as [_ S]; [split; [lia|apply Z.pow_pos_nonneg; lia]|].
    rewrite S, bits_of_zero. exact Hbits.
Qed.

(* ------------------------------------------------------------------ bytes[] sent with 8 bits each *)
Lemma c_send_bytes_spec : forall bytes b, wgood b -> Forall byte_ok bytes ->
  wgood (c_send_bytes b bytes) /\ wbits (c_send_bytes b bytes) = wbits b ++ concat (map (bits_of 8) bytes).
Proof.
  induction bytes as [|x r IH]; intros b Hg HB; unfold c_send_bytes; cbn [fold_left map concat].
  - split; [exact Hg|now rewrite app_nil_r].
  - inversion HB as [|x' r' Hx Hr]; subst x' r'.
    destruct (c_encodebits_good b 8 x Hg ltac:(lia) Hx) as [G1 B1].
    destruct (IH (c_encodebits b 8 x) G1 Hr) as [G2 B2]. unfold c_send_bytes in *.
    split; [exact G2|]. rewrite B2, B1. now rewrite <- app_assoc.
Qed.

(* ------------------------------------------------------------------ digits of the multi-byte value *)
Lemma le_bits_zero : forall fuel n, 0 <= n <= 8 * Z.of_nat fuel -> (1 <= fuel)%nat ->
  le_bits fuel n 0 = repeat false (Z.to_nat n).
Proof.
  induction fuel; intros n Hn Hf; [lia|]. cbn [le_bits]. destruct (Z.leb_spec n 8).
  - apply bits_of_zero.
  - rewrite Z.shiftr_0_l. rewrite IHfuel by lia. rewrite bits_of_zero. rewrite <- repeat_app. f_equal. lia.
Qed.

(* the layout [le_bits] of a value is its base-256 digits (low first), then padding or the partial top digit *)
Lemma le_bits_digits : forall dfuel F nbits v,
  0 <= v < 2 ^ nbits -> 0 < nbits <= 8 * Z.of_nat F -> v < 256 ^ Z.of_nat (S dfuel) ->
  let ds := le_digits dfuel v in
  let k := Z.of_nat (length ds) in
  Forall byte_ok ds /\ ds <> [] /\
  (8 * k <= nbits -> le_bits F nbits v = concat (map (bits_of 8) ds) ++ repeat false (Z.to_nat (nbits - 8 * k))) /\
  (nbits < 8 * k -> 0 < nbits - 8 * (k - 1) < 8 /\ 0 <= last ds 0 < 2 ^ (nbits - 8 * (k - 1)) /\
                    le_bits F nbits v = concat (map (bits_of 8) (removelast ds)) ++
                                        bits_of (Z.to_nat (nbits - 8 * (k - 1))) (last ds 0)).
Proof.
  induction dfuel; intros F nbits v Hv Hnb Hd; cbv zeta.
  - (* v < 256: a single digit *)
    change (256 ^ Z.of_nat 1) with 256 in Hd. cbn [le_digits length]. change (Z.of_nat 1) with 1.
    destruct F as [|F]; [lia|]. cbn [le_bits].
    split; [repeat constructor; unfold byte_ok; lia|]. split; [discriminate|]. split.
    + intros H8. cbn [map concat]. rewrite app_nil_r. destruct (Z.leb_spec nbits 8).
      * assert (nbits = 8) as -> by lia. change (Z.to_nat (8 - 8 * 1)) with 0%nat. change (Z.to_nat 8) with 8%nat.
        cbn [repeat]. now rewrite app_nil_r.
      * rewrite Z.shiftr_div_pow2 by lia. change (2 ^ 8) with 256. rewrite Z.div_small by lia.
        rewrite le_bits_zero by lia. reflexivity.
    + intros H8. cbn [removelast last map concat app]. destruct (Z.leb_spec nbits 8); [|lia].
      replace (nbits - 8 * (1 - 1)) with nbits by lia. repeat split; try lia. 
  - cbn [le_digits]. destruct (Z.ltb_spec v 256) as [Hs|Hl].
    + (* same as the base case *)
      cbn [length]. change (Z.of_nat 1) with 1. destruct F as [|F]; [lia|]. cbn [le_bits].
      split; [repeat constructor; unfold byte_ok; lia|]. split; [discriminate|]. split.
      * intros H8. cbn [map concat]. rewrite app_nil_r. destruct (Z.leb_spec nbits 8).
        -- assert (nbits = 8) as -> by lia. change (Z.to_nat (8 - 8 * 1)) with 0%nat. change (Z.to_nat 8) with 8%nat.
        cbn [repeat]. now rewrite app_nil_r.
        -- rewrite Z.shiftr_div_pow2 by lia. change (2 ^ 8) with 256. rewrite Z.div_small by lia.
           rewrite le_bits_zero by lia. reflexivity.
      * intros H8. cbn [removelast last map concat app]. destruct (Z.leb_spec nbits 8); [|lia].
        replace (nbits - 8 * (1 - 1)) with nbits by lia. repeat split; try lia.
    + (* low digit, then the digits of v / 256 *)
      assert (8 < nbits) as Hn8.
      { destruct (Z.leb_spec nbits 8); [|assumption]. assert (2 ^ nbits <= 2 ^ 8) by (apply Z.pow_le_mono_r; lia).
        change (2 ^ 8) with 256 in *. lia. }
      destruct F as [|F]; [lia|]. cbn [le_bits]. destruct (Z.leb_spec nbits 8); [lia|].
      rewrite Z.shiftr_div_pow2 by lia. change (2 ^ 8) with 256.
      assert (0 <= v / 256 < 2 ^ (nbits - 8)) as Hv'.
      { split; [apply Z.div_pos; lia|]. apply Z.div_lt_upper_bound; [lia|].
        replace (256 * 2 ^ (nbits - 8)) with (2 ^ nbits); [lia|].
        change 256 with (2 ^ 8). rewrite <- Z.pow_add_r by lia. f_equal. lia. }
      assert (v / 256 < 256 ^ Z.of_nat (S dfuel)) as Hd'.
      { apply Z.div_lt_upper_bound; [lia|]. rewrite (Nat2Z.inj_succ (S dfuel)), Z.pow_succ_r in Hd by lia. lia. }
      specialize (IHdfuel F (nbits - 8) (v / 256) Hv' ltac:(lia) Hd'). cbv zeta in IHdfuel.
      destruct IHdfuel as (IB & INE & I1 & I2).
      set (ds' := le_digits dfuel (v / 256)) in *. cbn [length]. rewrite Nat2Z.inj_succ.
      set (k' := Z.of_nat (length ds')) in *.
      assert (bits_of 8 v = bits_of 8 (v mod 256)) as EB
        by (apply bits_of_congr; change (2 ^ Z.of_nat 8) with 256; now rewrite Z.mod_mod by lia).
      split; [constructor; [unfold byte_ok; apply Z.mod_pos_bound; lia|exact IB]|]. split; [discriminate|]. split.
      * intros H8. rewrite I1 by lia. cbn [map concat]. rewrite <- app_assoc. rewrite EB. f_equal. f_equal. f_equal. lia.
      * intros H8. destruct (I2 ltac:(lia)) as (J1 & J2 & J3).
        replace (nbits - 8 * (Z.succ k' - 1)) with (nbits - 8 - 8 * (k' - 1)) by lia.
        assert (removelast (v mod 256 :: ds') = v mod 256 :: removelast ds') as -> by (destruct ds'; [congruence|reflexivity]).
        assert (last (v mod 256 :: ds') 0 = last ds' 0) as -> by (destruct ds'; [congruence|reflexivity]).
        split; [exact J1|]. split; [exact J2|]. rewrite J3. cbn [map concat]. rewrite <- app_assoc. now rewrite EB.
Qed.

(* encodeints on the C buffer appends exactly the multi-byte layout of the mixed-radix value *)
Lemma c_encodeints_spec : forall b nbits sizes nums, wgood b -> 0 < nbits <= 72 ->
  0 <= mixed_radix sizes nums < 2 ^ nbits ->
  wgood (c_encodeints b nbits sizes nums) /\
  wbits (c_encodeints b nbits sizes nums) = wbits b ++ encodeints nbits sizes nums.
Proof.
  intros b nbits sizes nums Hg Hn Hv. unfold c_encodeints, encodeints.
  set (V := mixed_radix sizes nums) in *.
  assert (V < 256 ^ Z.of_nat 41) as Hd.
  { apply Z.lt_le_trans with (2 ^ nbits); [lia|]. change (256 ^ Z.of_nat 41) with (2 ^ 328). apply Z.pow_le_mono_r; lia. }
  destruct (le_bits_digits 40 40 nbits V Hv ltac:(lia) Hd) as (DB & DNE & D1 & D2).
  set (ds := le_digits 40 V) in *. set (k := Z.of_nat (length ds)) in *.
  destruct (Z.leb_spec (8 * k) nbits) as [H8|H8].
  - destruct (c_send_bytes_spec ds b Hg DB) as [G1 B1].
    destruct (c_encodebits_zero (c_send_bytes b ds) (nbits - 8 * k) G1 ltac:(lia)) as [G2 B2].
    split; [exact G2|]. rewrite B2, B1, D1 by lia. now rewrite <- app_assoc.
  - destruct (D2 H8) as (J1 & J2 & J3).
    assert (Forall byte_ok (removelast ds)) as RB.
    { clear -DB. induction ds as [|x r IH]; [constructor|]. inversion DB; subst. destruct r; [constructor|].
      cbn [removelast]. constructor; [assumption|now apply IH]. }
    destruct (c_send_bytes_spec (removelast ds) b Hg RB) as [G1 B1].
    destruct (c_encodebits_good (c_send_bytes b (removelast ds)) (nbits - 8 * (k - 1)) (last ds 0) G1 ltac:(lia) J2) as [G2 B2].
    split; [exact G2|]. rewrite B2, B1, J3. now rewrite <- app_assoc.
Qed.

(* ------------------------------------------------------------------ absolute coordinates and flags *)
Lemma c_put_abs_spec : forall mn mx c b, in_box mn mx c -> span_ok mn mx -> wgood b ->
  wgood (c_put_abs (mk_absfmt mn mx) c b) /\
  wbits (c_put_abs (mk_absfmt mn mx) c b) = wbits b ++ put_abs (mk_absfmt mn mx) c.
Proof.
  intros [[m0 m1] m2] [[x0 x1] x2] [[c0 c1] c2] b [Hlo Hhi] Hs Hg. cbn in Hlo, Hhi, Hs.
  unfold mk_absfmt. cbn [tsub tlist map].
  set (s0 := x0 - m0 + 1). set (s1 := x1 - m1 + 1). set (s2 := x2 - m2 + 1).
  destruct (existsb (fun s : Z => 16777215 <? s) [s0; s1; s2]) eqn:E.
  - unfold c_put_abs, put_abs. cbn [af_bitsize af_bits af_min af_sizes tsub map].
    change (0 =? 0) with true. cbv iota.
    destruct (sizeofint_spec s0 ltac:(subst s0; lia)) as [A0 B0].
    destruct (sizeofint_spec s1 ltac:(subst s1; lia)) as [A1 B1].
    destruct (sizeofint_spec s2 ltac:(subst s2; lia)) as [A2 B2].
    destruct (c_encodebits_good b (sizeofint s0) (c0 - m0) Hg B0 ltac:(subst s0; lia)) as [G0 E0].
    destruct (c_encodebits_good _ (sizeofint s1) (c1 - m1) G0 B1 ltac:(subst s1; lia)) as [G1 E1].
    destruct (c_encodebits_good _ (sizeofint s2) (c2 - m2) G1 B2 ltac:(subst s2; lia)) as [G2 E2].
    split; [exact G2|]. rewrite E2, E1, E0. now rewrite <- !app_assoc.
  - cbn [existsb] in E. rewrite !orb_false_r in E. rewrite !orb_false_iff in E. destruct E as (E0 & E1 & E2).
    unfold c_put_abs, put_abs. cbn [af_bitsize af_bits af_min af_sizes tsub].
    assert (0 < prod [s0; s1; s2] < 2 ^ 72) as P.
    { rewrite prod3.
      assert (0 < s0 <= 16777215) by (subst s0; lia). assert (0 < s1 <= 16777215) by (subst s1; lia).
      assert (0 < s2 <= 16777215) by (subst s2; lia).
      split; [apply Z.mul_pos_pos; [apply Z.mul_pos_pos|]; lia|].
      replace (2 ^ 72) with 4722366482869645213696 by reflexivity.
      assert (s0 * s1 <= 16777215 * 16777215) by (apply Z.mul_le_mono_nonneg; lia).
      assert (s0 * s1 * s2 <= 16777215 * 16777215 * 16777215) by (apply Z.mul_le_mono_nonneg; try lia; apply Z.mul_nonneg_nonneg; lia).
      lia. }
    assert (0 < sizeofints [s0; s1; s2] <= 72) as SZ.
    { unfold sizeofints. split; [apply bitlen_pos; lia|apply bitlen_le; lia]. }
    destruct (Z.eqb_spec (sizeofints [s0; s1; s2]) 0) as [Z0|_]; [lia|].
    assert (in_sizes [s0; s1; s2] [c0 - m0; c1 - m1; c2 - m2]) as IS by (repeat constructor; subst s0 s1 s2; lia).
    pose proof (sizeofints_sufficient _ _ IS) as SF.
    apply c_encodeints_spec; [assumption|lia|exact SF].
Qed.

Lemma c_enc_flags_spec : forall prevrun run is b, wgood b -> 0 <= run + is + 1 < 32 ->
  wgood (c_enc_flags prevrun run is b) /\ wbits (c_enc_flags prevrun run is b) = wbits b ++ enc_flags prevrun run is.
Proof.
  intros prevrun run is b Hg Hv. unfold c_enc_flags, enc_flags.
  destruct (negb (run =? prevrun) || negb (is =? 0)).
  - destruct (c_encodebits_good b 1 1 Hg ltac:(lia) ltac:(cbn; lia)) as [G1 E1].
    destruct (c_encodebits_good _ 5 (run + is + 1) G1 ltac:(lia) ltac:(change (2 ^ 5) with 32; lia)) as [G2 E2].
    split; [exact G2|]. rewrite E2, E1. now rewrite <- app_assoc.
  - destruct (c_encodebits_good b 1 0 Hg ltac:(lia) ltac:(cbn; lia)) as [G1 E1]. split; [exact G1|exact E1].
Qed.

(* ------------------------------------------------------------------ one group *)
Definition small_ok (m : Z) (d : list Z) : Prop :=
  exists a b c, d = [a; b; c] /\ 0 <= a < m /\ 0 <= b < m /\ 0 <= c < m.

Lemma delta_small_ok : forall idx a prev, xtc_firstidx <= idx < lastidx -> close (magic idx / 2) a prev ->
  small_ok (magic idx) (delta (magic idx / 2) a prev).
Proof.
  intros idx [[a0 a1] a2] [[p0 p1] p2] Hidx Hc. destruct (magic_cube idx Hidx) as [_ Hpos].
  unfold close, all_lt, tsub in Hc. rewrite !andb_true_iff in Hc. destruct Hc as [[H0 H1] H2].
  unfold delta. cbn [tsub tlist map]. set (m := magic idx) in *.
  assert (2 * (m / 2) <= m) by (pose proof (Z.mul_div_le m 2 ltac:(lia)); lia).
  eexists _, _, _. split; [reflexivity|]. lia.
Qed.

Lemma deltas_small_ok : forall idx atoms prev, xtc_firstidx <= idx < lastidx -> chain (magic idx / 2) prev atoms ->
  Forall (small_ok (magic idx)) (deltas_of (magic idx / 2) prev atoms).
Proof.
  intros idx atoms. induction atoms as [|a atoms IH]; intros prev Hidx Hch; cbn [deltas_of]; [constructor|].
  destruct Hch as [Hc Hch]. constructor; [now apply delta_small_ok|now apply IH].
Qed.

Lemma enc_group_plan : forall f maxidx minidx larger first st prev cs,
  enc_group f maxidx minidx larger first st prev cs =
  match enc_plan maxidx minidx larger first st prev cs with
  | Some (st', prev', rest, g) => Some (st', prev', rest, emit_bits f g)
  | None => None
  end.
Proof.
  intros f maxidx minidx larger first st prev cs. unfold enc_group, enc_plan. destruct cs as [|c r]; [reflexivity|].
  destruct r as [|c2 r2].
  - reflexivity.
  - destruct (all_lt (tsub c c2) (es_smallnum st)).
    + destruct (small_run 8 (es_smallnum st) (es_smaller st) c2 (c :: r2) 0 _ []) as [[[[deltas rest] prev'] run] is]. reflexivity.
    + reflexivity.
Qed.

Lemma plan_facts : forall mn mx maxidx minidx larger first st prev cs st' prev' rest g,
  Forall (in_box mn mx) cs -> xtc_firstidx <= minidx -> maxidx < lastidx -> inv minidx maxidx st ->
  enc_plan maxidx minidx larger first st prev cs = Some (st', prev', rest, g) ->
  in_box mn mx (gp_abs g) /\ 0 <= gp_run g + gp_is g + 1 < 32 /\
  gp_idx g = es_smallidx st /\ xtc_firstidx <= gp_idx g < lastidx /\
  Forall (small_ok (magic (gp_idx g))) (gp_deltas g) /\
  Forall (in_box mn mx) rest /\ (length rest < length cs)%nat /\ inv minidx maxidx st'.
Proof.
  intros mn mx maxidx minidx larger first st prev cs st' prev' rest g Hbox Hmin Hmax Hinv Hp.
  destruct cs as [|c r]; [discriminate Hp|]. unfold enc_plan in Hp.
  set (is0 := if (es_smallidx st <? maxidx) && negb first && all_lt (tsub c prev) larger then 1
              else if minidx <? es_smallidx st then -1 else 0) in *.
  assert (-1 <= is0 <= 1 /\ (is0 = 1 -> es_smallidx st < maxidx) /\ (is0 = -1 -> minidx < es_smallidx st)) as (His0 & Hup0 & Hdn0).
  { subst is0. destruct (Z.ltb_spec (es_smallidx st) maxidx); cbn [andb];
      [destruct (negb first && all_lt (tsub c prev) larger)|]; try (destruct (Z.ltb_spec minidx (es_smallidx st))); lia. }
  assert (xtc_firstidx <= es_smallidx st < lastidx) as Hidx by (destruct Hinv; lia).
  pose proof (inv_num _ _ _ Hinv) as Hnum.
  inversion Hbox as [|c' r' Hc Hr]; subst c' r'.
  assert ((exists c2 r2, r = c2 :: r2 /\ all_lt (tsub c c2) (es_smallnum st) = true) \/
          (match r with c2 :: r2 => if all_lt (tsub c c2) (es_smallnum st) then (c2, c :: r2, true) else (c, r, false)
                   | [] => (c, r, false) end = (c, r, false))) as [(c2 & r2 & -> & Hclose)|Hns].
  { destruct r as [|c2 r2]; [right; reflexivity|]. destruct (all_lt (tsub c c2) (es_smallnum st)) eqn:E;
      [left; exists c2, r2; auto|right; reflexivity]. }
  - rewrite Hclose in Hp. cbn [negb andb] in Hp.
    destruct (small_run_spec 8 (es_smallnum st) (es_smaller st) c2 (c :: r2) 0 is0 [] ltac:(lia))
      as (atoms & rest0 & is' & Hrun & Hcs & Hne & Hch & Hlen & His').
    { exists c, r2. split; [reflexivity|exact Hclose]. }
    remember (0 + 3 * Z.of_nat (length atoms)) as runv eqn:Erun.
    rewrite Hrun in Hp. injection Hp as <- <- <- <-. cbn [gp_abs gp_run gp_is gp_idx gp_deltas gp_prevrun].
    assert (-1 <= is' <= 1 /\ (is' = 1 -> es_smallidx st < maxidx) /\ (is' = -1 -> minidx < es_smallidx st)) as (Hisr & Hupr & Hdnr)
      by (destruct His' as [->|[-> ->]]; lia).
    destruct (update_roundtrip minidx maxidx st is' runv 0 Hmin Hmax Hinv Hisr Hupr Hdnr) as (_ & Hinv' & _ & _).
    inversion Hr as [|c2' r2' Hc2 Hr2]; subst c2' r2'.
    split; [exact Hc2|]. split; [lia|]. split; [reflexivity|]. split; [exact Hidx|]. split.
    { cbn [rev app]. rewrite Hnum in *. now apply deltas_small_ok. }
    assert (Forall (in_box mn mx) (c :: r2)) as Hcr by (constructor; assumption).
    rewrite Hcs in Hcr. split; [eapply Forall_app_r; exact Hcr|].
    split; [|exact Hinv'].
    assert (length (c :: r2) = (length atoms + length rest0)%nat) as HL by (rewrite Hcs, app_length; reflexivity).
    assert (1 <= length atoms)%nat by (destruct atoms; [congruence|cbn; lia]). cbn [length] in *. lia.
  - rewrite Hns in Hp. cbn [negb andb] in Hp. set (is1 := if is0 =? -1 then 0 else is0) in *.
    injection Hp as <- <- <- <-. cbn [gp_abs gp_run gp_is gp_idx gp_deltas gp_prevrun].
    assert (-1 <= is1 <= 1 /\ (is1 = 1 -> es_smallidx st < maxidx) /\ (is1 = -1 -> minidx < es_smallidx st)) as (Hisr & Hupr & Hdnr)
      by (subst is1; destruct (Z.eqb_spec is0 (-1)); lia).
    destruct (update_roundtrip minidx maxidx st is1 0 0 Hmin Hmax Hinv Hisr Hupr Hdnr) as (_ & Hinv' & _ & _).
    split; [exact Hc|]. split; [lia|]. split; [reflexivity|]. split; [exact Hidx|]. split; [constructor|].
    split; [exact Hr|]. split; [cbn [length]; lia|exact Hinv'].
Qed.

Lemma c_smalls_spec : forall idx deltas b, wgood b -> xtc_firstidx <= idx < lastidx ->
  Forall (small_ok (magic idx)) deltas ->
  let m := magic idx in
  wgood (fold_left (fun b d => c_encodeints b idx [m; m; m] d) deltas b) /\
  wbits (fold_left (fun b d => c_encodeints b idx [m; m; m] d) deltas b) =
    wbits b ++ concat (map (encodeints idx [m; m; m]) deltas).
Proof.
  intros idx deltas. induction deltas as [|d r IH]; intros b Hg Hidx HF; cbv zeta; cbn [fold_left map concat].
  - split; [exact Hg|now rewrite app_nil_r].
  - inversion HF as [|d' r' Hd Hr]; subst d' r'. destruct Hd as (a & b0 & c & -> & Ha & Hb & Hc).
    destruct (magic_cube idx Hidx) as [Hcube Hpos]. set (m := magic idx) in *.
    assert (0 < xtc_firstidx) as F by (vm_compute; reflexivity).
    assert (lastidx <= 72 + 1) as L by (vm_compute; discriminate).
    assert (0 <= mixed_radix [m; m; m] [a; b0; c] < 2 ^ idx) as HV.
    { cbn [mixed_radix mixed]. assert (m ^ 3 = m * m * m) as E3 by ring.
      assert (0 <= (a * m + b0) * m + c < m * m * m) by nia. lia. }
    destruct (c_encodeints_spec b idx [m; m; m] [a; b0; c] Hg ltac:(lia) HV) as [G1 E1].
    destruct (IH _ G1 Hidx Hr) as [G2 E2]. cbv zeta in G2, E2. fold m in G2, E2.
    split; [exact G2|]. rewrite E2, E1. now rewrite <- app_assoc.
Qed.

Lemma c_emit_spec : forall mn mx g b, span_ok mn mx -> wgood b ->
  in_box mn mx (gp_abs g) -> 0 <= gp_run g + gp_is g + 1 < 32 -> xtc_firstidx <= gp_idx g < lastidx ->
  Forall (small_ok (magic (gp_idx g))) (gp_deltas g) ->
  wgood (c_emit (mk_absfmt mn mx) g b) /\
  wbits (c_emit (mk_absfmt mn mx) g b) = wbits b ++ emit_bits (mk_absfmt mn mx) g.
Proof.
  intros mn mx g b Hs Hg Hbox Hfl Hidx Hd. unfold c_emit, emit_bits.
  destruct (c_put_abs_spec mn mx (gp_abs g) b Hbox Hs Hg) as [G1 E1].
  destruct (c_enc_flags_spec (gp_prevrun g) (gp_run g) (gp_is g) _ G1 Hfl) as [G2 E2].
  destruct (c_smalls_spec (gp_idx g) (gp_deltas g) _ G2 Hidx Hd) as [G3 E3]. cbv zeta in G3, E3.
  split; [exact G3|]. rewrite E3, E2, E1. now rewrite <- !app_assoc.
Qed.

(* ------------------------------------------------------------------ the loop, both encoders side by side *)
Lemma loops_agree : forall fuel mn mx maxidx minidx larger first st prev cs b,
  span_ok mn mx -> Forall (in_box mn mx) cs -> xtc_firstidx <= minidx -> maxidx < lastidx ->
  inv minidx maxidx st -> wgood b -> (length cs <= fuel)%nat ->
  exists bits b',
    enc_loop fuel (mk_absfmt mn mx) maxidx minidx larger first st prev cs = Some bits /\
    c_enc_loop_frame fuel (mk_absfmt mn mx) maxidx minidx larger first st prev cs b = Some b' /\
    wgood b' /\ wbits b' = wbits b ++ bits.
Proof.
  induction fuel; intros mn mx maxidx minidx larger first st prev cs b Hs Hbox Hmin Hmax Hinv Hg Hfu.
  - destruct cs; [|cbn in Hfu; lia]. exists [], b. cbn. repeat split; try apply Hg. now rewrite app_nil_r.
  - destruct cs as [|c r].
    + exists [], b. cbn. repeat split; try apply Hg. now rewrite app_nil_r.
    + cbn [enc_loop c_enc_loop_frame]. rewrite enc_group_plan.
      destruct (enc_plan maxidx minidx larger first st prev (c :: r)) as [[[[st' prev'] rest] g]|] eqn:Ep.
      * destruct (plan_facts mn mx _ _ _ _ _ _ _ _ _ _ _ Hbox Hmin Hmax Hinv Ep) as (F1 & F2 & F3 & F4 & F5 & F6 & F7 & F8).
        destruct (c_emit_spec mn mx g b Hs Hg F1 F2 F4 F5) as [G1 E1].
        destruct (IHfuel mn mx maxidx minidx larger false st' prev' rest (c_emit (mk_absfmt mn mx) g b) Hs F6 Hmin Hmax F8 G1)
          as (more & b' & L1 & L2 & L3 & L4); [cbn [length] in *; lia|].
        exists (emit_bits (mk_absfmt mn mx) g ++ more), b'. rewrite L1, L2. repeat split; try apply L3.
        rewrite L4, E1. now rewrite <- app_assoc.
      * exfalso. unfold enc_plan in Ep. destruct r as [|c2 r2]; [discriminate|].
        destruct (all_lt (tsub c c2) (es_smallnum st)); [|discriminate].
        destruct (small_run 8 _ _ _ _ _ _ _) as [[[[? ?] ?] ?] ?]. discriminate.
Qed.

(* ------------------------------------------------------------------ bytes *)
Lemma byte_bits_inj : forall x y, byte_ok x -> byte_ok y -> byte_bits x = byte_bits y -> x = y.
Proof.
  intros x y Hx Hy H. unfold byte_bits in H. apply (f_equal (fun l => val_of l 0)) in H.
  rewrite !val_of_bits_of in H. change (2 ^ Z.of_nat 8) with 256 in H. rewrite !Z.mod_small in H by assumption. lia.
Qed.

Lemma app_inj_length : forall {A} (a c b d : list A), length a = length c -> a ++ b = c ++ d -> a = c /\ b = d.
Proof.
  induction a as [|x a IH]; intros c b d HL H; destruct c as [|y c]; try discriminate HL.
  - now split.
  - cbn [app] in H. injection H as -> H. destruct (IH c b d ltac:(cbn in HL; lia) H) as [-> ->]. now split.
Qed.

Lemma bytes_to_bits_inj : forall l1 l2, Forall byte_ok l1 -> Forall byte_ok l2 ->
  bytes_to_bits l1 = bytes_to_bits l2 -> l1 = l2.
Proof.
  induction l1 as [|x r IH]; intros l2 H1 H2 H; destruct l2 as [|y s].
  - reflexivity.
  - apply (f_equal (@length bool)) in H. cbn [bytes_to_bits map concat length] in H. rewrite app_length in H.
    unfold byte_bits in H. rewrite bits_of_length in H. lia.
  - apply (f_equal (@length bool)) in H. cbn [bytes_to_bits map concat length] in H. rewrite app_length in H.
    unfold byte_bits in H. rewrite bits_of_length in H. lia.
  - inversion H1; inversion H2; subst. cbn [bytes_to_bits map concat] in H.
    fold (bytes_to_bits r) (bytes_to_bits s) in H.
    assert (byte_bits x = byte_bits y /\ bytes_to_bits r = bytes_to_bits s) as [Ex Er].
    { apply app_inj_length; [|exact H]. unfold byte_bits. now rewrite !bits_of_length. }
    f_equal; [now apply byte_bits_inj|now apply IH].
Qed.

Lemma val_of_byte : forall l, length l = 8%nat -> byte_ok (val_of l 0).
Proof.
  intros l H. pose proof (val_of_bound l 0 ltac:(lia)) as B. rewrite H in B. change (2 ^ Z.of_nat 8) with 256 in B.
  unfold byte_ok. lia.
Qed.

Lemma pack_bits_bytes : forall s, Forall byte_ok (pack_bits s).
Proof.
  intros s. unfold pack_bits. generalize (S (length s)). intros fuel. revert s.
  induction fuel; intros s; cbn [bits_to_bytes]; [constructor|]. destruct s as [|x s']; [constructor|].
  constructor; [|apply IHfuel]. apply val_of_byte. rewrite firstn_length, app_length, repeat_length. cbn [length]. lia.
Qed.

Lemma bytes_to_bits_length : forall l, length (bytes_to_bits l) = (8 * length l)%nat.
Proof.
  induction l as [|x r IH]; [reflexivity|]. cbn [bytes_to_bits map concat length]. fold (bytes_to_bits r).
  rewrite app_length, IH. unfold byte_bits. rewrite bits_of_length. lia.
Qed.

(* The encoder run on the C buffer (encodebits / encodeints calls, final flush) and the abstract encoder produce
   the same header and the same bytes, for every list of integer triples: [xtc_frame_roundtrip] therefore
   speaks about the byte string xdrfile's buffer manipulation yields. *)
Theorem c_xtc_encode_eq : forall cs, c_xtc_encode cs = xtc_encode cs.
Proof.
  intros cs. unfold c_xtc_encode, xtc_encode.
  set (mn := fold_triples tmin cs (0, 0, 0)). set (mx := fold_triples tmax cs (0, 0, 0)).
  set (smallidx := first_idx 80 xtc_firstidx (mindiff cs)).
  destruct ((lastidx <=? smallidx + 8) || existsb (fun s : Z => int_max - 2 <=? s) (af_sizes (mk_absfmt mn mx))) eqn:G;
    [reflexivity|].
  apply orb_false_iff in G. destruct G as [G1 G2]. apply Z.leb_gt in G1.
  replace (Z.min lastidx (smallidx + 8)) with (smallidx + 8) by lia.
  replace (smallidx + 8 - 8) with smallidx by lia.
  assert (span_ok mn mx) as Hspan.
  { destruct mn as [[a0 a1] a2], mx as [[b0 b1] b2]. unfold mk_absfmt in G2. cbn [tsub tlist map] in G2.
    assert (existsb (fun s : Z => int_max - 2 <=? s) [b0 - a0 + 1; b1 - a1 + 1; b2 - a2 + 1] = false) as G3.
    { destruct (existsb (fun s : Z => 16777215 <? s) [b0 - a0 + 1; b1 - a1 + 1; b2 - a2 + 1]); exact G2. }
    cbn [existsb] in G3. rewrite !orb_false_r in G3. rewrite !orb_false_iff in G3.
    unfold int_max in G3. cbn. lia. }
  pose proof (first_idx_ge 80 xtc_firstidx (mindiff cs)) as Hge. fold smallidx in Hge.
  assert (wgood (CBuf [] 0 0)) as G0 by (split; [split; cbn; lia|constructor]).
  destruct (loops_agree (length cs) mn mx (smallidx + 8) smallidx (magic (smallidx + 8) / 2) true
              (EncSt smallidx (magic (Z.max xtc_firstidx (smallidx - 1)) / 2) (magic smallidx / 2) (-1)) (0, 0, 0) cs (CBuf [] 0 0)
              Hspan (all_in_box cs (0, 0, 0)) Hge G1)
    as (bits & b' & L1 & L2 & [Hok HB] & L4); [constructor; cbn [es_smallidx es_smallnum es_smaller]; lia|exact G0|lia|].
  rewrite L1, L2. f_equal. f_equal.
  change (wbits (CBuf [] 0 0)) with (@nil bool) in L4. cbn [app] in L4.
  (* same bits, both padded with fewer than 8 zeros to whole bytes *)
  pose proof (c_flush_spec b' Hok HB) as F. rewrite L4 in F.
  destruct (pack_bits_spec bits) as (k2 & Hk2 & P).
  set (k1 := Z.to_nat ((8 - cb_lastbits b') mod 8)) in *.
  assert (k1 < 8)%nat as Hk1 by (subst k1; pose proof (Z.mod_pos_bound (8 - cb_lastbits b') 8 ltac:(lia)); lia).
  assert (k1 = k2) as Ek.
  { pose proof (f_equal (@length bool) F) as LF. pose proof (f_equal (@length bool) P) as LP.
    rewrite bytes_to_bits_length, app_length, repeat_length in LF, LP. lia. }
  apply bytes_to_bits_inj.
  - unfold c_flush. destruct (cb_lastbits b' =? 0); [exact HB|]. apply Forall_app. split; [exact HB|].
    constructor; [apply u8_byte|constructor].
  - apply pack_bits_bytes.
  - rewrite F, P, Ek. reflexivity.
Qed.

(* the round trip, stated for the bytes of the C buffer *)
Corollary xtc_c_buffer_roundtrip : forall cs p, c_xtc_encode cs = Some p ->
  xtc_decode (Z.of_nat (length cs)) p = Some cs.
Proof. intros cs p H. rewrite c_xtc_encode_eq in H. now apply xtc_frame_roundtrip. Qed.
