(* C04, PDB carrier: the numbers of the CONECT records agree with the numbers of the ATOM records.
   For EVERY heap and topology on which the repaired writer runs, every number that occurs in a CONECT
   record is a number printed in an ATOM record of the same file (as found this is false: see
   Witness.pdb_conect_cur_refuted).  Also: the ATOM numbers are exactly the list the writer hands to
   the footer, in file order. *)
From Coq Require Import String Ascii.
From Coq Require Import List Arith ZArith Bool Lia.
Import ListNotations.
Require Import MD.Topo.Model MD.Topo.Carriers MD.Topo.Basics MD.Topo.Copy MD.Topo.EqHash MD.Topo.Witness.
Open Scope nat_scope.
Local Open Scope list_scope.

(* ------------------------------------------------------------------ the ATOM part *)
Lemma atom_numbers_app a b : atom_numbers (a ++ b) = atom_numbers a ++ atom_numbers b.
Proof. unfold atom_numbers. rewrite map_app, concat_app. reflexivity. Qed.
Lemma conect_numbers_app a b : conect_numbers (a ++ b) = conect_numbers a ++ conect_numbers b.
Proof. unfold conect_numbers. rewrite map_app, concat_app. reflexivity. Qed.

Definition no_conect (recs : list pdbrec) : Prop := forall r, In r recs -> match r with PConect _ => False | _ => True end.
Definition only_conect (recs : list pdbrec) : Prop := forall r, In r recs -> match r with PConect _ => True | _ => False end.

Lemma no_conect_numbers recs : no_conect recs -> conect_numbers recs = [].
Proof.
  induction recs as [|r recs IH]; intros H; [reflexivity|]. unfold conect_numbers in *. simpl.
  pose proof (H r (or_introl eq_refl)) as Hr. destruct r; try contradiction; simpl; apply IH; intros r' Hr'; apply H; right; exact Hr'.
Qed.
Lemma only_conect_atoms recs : only_conect recs -> atom_numbers recs = [].
Proof.
  induction recs as [|r recs IH]; intros H; [reflexivity|]. unfold atom_numbers in *. simpl.
  pose proof (H r (or_introl eq_refl)) as Hr. destruct r; try contradiction; simpl; apply IH; intros r' Hr'; apply H; right; exact Hr'.
Qed.
Lemma no_conect_app a b : no_conect a -> no_conect b -> no_conect (a ++ b).
Proof. intros Ha Hb r Hr. apply in_app_or in Hr. destruct Hr as [Hr|Hr]; [apply Ha | apply Hb]; exact Hr. Qed.

Definition nonneg (l : list Z) : Prop := Forall (fun z => (0 <= z)%Z) l.

Lemma pdb_atoms_res_spec single cname rname resSeq seg : forall atoms ai recs nums ai',
  pdb_atoms_res single cname rname resSeq seg atoms ai = (recs, nums, ai') ->
  atom_numbers recs = nums /\ no_conect recs /\ nonneg nums.
Proof.
  induction atoms as [|a atoms IH]; intros ai recs nums ai' H; simpl in H.
  - inversion H; subst. split; [reflexivity|]. split; [intros r []| constructor].
  - destruct (pdb_atoms_res single cname rname resSeq seg atoms (S ai)) as [[recs0 nums0] ai0] eqn:E.
    inversion H; subst; clear H. destruct (IH _ _ _ _ E) as [A [N P]].
    split; [unfold atom_numbers in *; simpl; rewrite A; reflexivity|].
    split; [intros r [<-|Hr]; [exact I | apply N; exact Hr]|].
    constructor; [|exact P]. apply Z.mod_pos_bound. lia.
Qed.

Lemma pdb_atoms_chain_spec single ter cname : forall rs ai recs nums ai',
  pdb_atoms_chain single ter cname rs ai = (recs, nums, ai') ->
  atom_numbers recs = nums /\ no_conect recs /\ nonneg nums.
Proof.
  induction rs as [|r rs IH]; intros ai recs nums ai' H.
  - simpl in H. inversion H; subst. split; [reflexivity|]. split; [intros r []| constructor].
  - cbn [pdb_atoms_chain] in H.
    destruct (pdb_atoms_res single cname (take 3 (vr_name r)) (vr_resSeq r) (vr_seg r) (vr_atoms r) ai) as [[recs0 nums0] ai0] eqn:E.
    pose proof (pdb_atoms_res_spec _ _ _ _ _ _ _ _ _ _ E) as S0.
    destruct rs as [|r2 rs'].
    + destruct ter; inversion H; subst recs nums ai'; clear H; destruct S0 as [A [N P]].
      * split; [rewrite atom_numbers_app, A; unfold atom_numbers; simpl; apply app_nil_r|].
        split; [apply no_conect_app; [exact N | intros r' [<-|[]]; exact I] | exact P].
      * split; [exact A|]. split; assumption.
    + destruct (pdb_atoms_chain single ter cname (r2 :: rs') ai0) as [[recs2 nums2] ai2] eqn:E2.
      inversion H; subst recs nums ai'; clear H. destruct S0 as [A [N P]]. destruct (IH _ _ _ _ E2) as [A2 [N2 P2]].
      split; [rewrite atom_numbers_app, A, A2; reflexivity|].
      split; [apply no_conect_app; assumption | apply Forall_app; split; assumption].
Qed.

Lemma pdb_atoms_chains_spec single ter : forall cs pos ai recs nums,
  pdb_atoms_chains single ter cs pos ai = (recs, nums) ->
  atom_numbers recs = nums /\ no_conect recs /\ nonneg nums.
Proof.
  induction cs as [|c cs IH]; intros pos ai recs nums H.
  - simpl in H. inversion H; subst. split; [reflexivity|]. split; [intros r []| constructor].
  - cbn [pdb_atoms_chains] in H.
    match type of H with context [pdb_atoms_chain single ter ?CN (vc_res c) ai] =>
      destruct (pdb_atoms_chain single ter CN (vc_res c) ai) as [[recs0 nums0] ai0] eqn:E end.
    destruct (pdb_atoms_chains single ter cs (S pos) ai0) as [recs2 nums2] eqn:E2.
    inversion H; subst recs nums; clear H.
    destruct (pdb_atoms_chain_spec _ _ _ _ _ _ _ _ E) as [A [N P]]. destruct (IH _ _ _ _ E2) as [A2 [N2 P2]].
    split; [rewrite atom_numbers_app, A, A2; reflexivity|].
    split; [apply no_conect_app; assumption | apply Forall_app; split; assumption].
Qed.

(* ------------------------------------------------------------------ the CONECT part *)
Section Footer.
  Variable P : Z -> Prop.

  Definition good (m : list (Z * list Z)) : Prop := Forall (fun kv => P (fst kv) /\ Forall P (snd kv)) m.

  Lemma assoc_add_good k v m : P k -> P v -> good m -> good (assoc_add k v m).
  Proof.
    intros Pk Pv. induction m as [|[k' l] m IH]; intros G; simpl.
    - constructor; [|constructor]. simpl. split; [exact Pk | constructor; [exact Pv | constructor]].
    - inversion G as [|? ? [G1 G2] G3]; subst. simpl in *. destruct (Z.eqb k k').
      + constructor; [|exact G3]. simpl. split; [exact G1 | apply Forall_app; split; [exact G2 | constructor; [exact Pv | constructor]]].
      + constructor; [split; assumption | apply IH; exact G3].
  Qed.

  Lemma fold_pairs_good pairs : forall m,
    Forall (fun p => P (fst p) /\ P (snd p)) pairs -> good m ->
    good (fold_left (fun m p => assoc_add (snd p) (fst p) (assoc_add (fst p) (snd p) m)) pairs m).
  Proof.
    induction pairs as [|p pairs IH]; intros m Hp G; [exact G|].
    inversion Hp as [|? ? [P1 P2] Hp']; subst. simpl. apply IH; [exact Hp'|].
    apply assoc_add_good; [exact P2 | exact P1|]. apply assoc_add_good; assumption.
  Qed.

  Lemma Forall_firstn {A} (Q : A -> Prop) n l : Forall Q l -> Forall Q (firstn n l).
  Proof. revert n; induction l as [|x l IH]; intros n H; destruct n; simpl; try constructor; inversion H; subst; auto. Qed.
  Lemma Forall_skipn {A} (Q : A -> Prop) n l : Forall Q l -> Forall Q (skipn n l).
  Proof. revert n; induction l as [|x l IH]; intros n H; destruct n; simpl; auto. inversion H; subst; auto. Qed.

  Lemma conect_lines_good del : forall fuel i bonded,
    P i -> Forall P bonded -> only_conect (conect_lines del fuel i bonded) /\ Forall P (conect_numbers (conect_lines del fuel i bonded)).
  Proof.
    induction fuel as [|f IH]; intros i bonded Pi Pb.
    - simpl. split; [intros r [<-|[]]; exact I|]. unfold conect_numbers; simpl. rewrite app_nil_r. constructor; assumption.
    - simpl. destruct (4 <? length bonded).
      + destruct (IH i (skipn del bonded) Pi (Forall_skipn _ _ _ Pb)) as [O F].
        split; [intros r [<-|Hr]; [exact I | apply O; exact Hr]|].
        change (conect_numbers (PConect (i :: firstn 3 bonded) :: conect_lines del f i (skipn del bonded)))
          with ((i :: firstn 3 bonded) ++ conect_numbers (conect_lines del f i (skipn del bonded))).
        apply Forall_app. split; [constructor; [exact Pi | exact (Forall_firstn P 3 bonded Pb)] | exact F].
      + split; [intros r [<-|[]]; exact I|]. unfold conect_numbers; simpl. rewrite app_nil_r. constructor; assumption.
  Qed.

  Definition lines_of (del : nat) (m : list (Z * list Z)) : list pdbrec :=
    concat (map (fun kv => conect_lines del (length (snd kv)) (fst kv) (snd kv)) m).

  Lemma lines_of_good del (m : list (Z * list Z)) :
    good m -> only_conect (lines_of del m) /\ Forall P (conect_numbers (lines_of del m)).
  Proof.
    induction m as [|kv m IH]; intros G.
    - split; [intros r [] | constructor].
    - inversion G as [|? ? [G1 G2] G3]; subst. destruct (IH G3) as [O F].
      destruct (conect_lines_good del (length (snd kv)) (fst kv) (snd kv) G1 G2) as [O1 F1].
      change (lines_of del (kv :: m)) with (conect_lines del (length (snd kv)) (fst kv) (snd kv) ++ lines_of del m).
      split; [intros r Hr; apply in_app_or in Hr; destruct Hr as [Hr|Hr]; [apply O1 | apply O]; exact Hr|].
      rewrite conect_numbers_app. apply Forall_app. split; assumption.
  Qed.
End Footer.

Lemma somes_in {A} (l : list (option A)) x : In x (somes l) -> In (Some x) l.
Proof.
  induction l as [|[a|] l IH]; simpl; intros H; [contradiction| |right; apply IH; exact H].
  destruct H as [<-|H]; [left; reflexivity | right; apply IH; exact H].
Qed.

Lemma combine_snd_in {A B} (l1 : list A) (l2 : list B) x : In x (map snd (combine l1 l2)) -> In x l2.
Proof.
  intros H. apply in_map_iff in H. destruct H as [[a b] [<- H]]. eapply in_combine_r; eauto.
Qed.

Lemma pdb_footer_fix_spec ter h t written foot :
  nonneg written -> pdb_footer flags_fix ter h t written = Some foot ->
  only_conect foot /\ Forall (fun z => In z written) (conect_numbers foot).
Proof.
  intros Hnn H. unfold pdb_footer in H. inv_bind H. rename x into w. inv_bind H. rename x into eligible.
  destruct (map fst (filter snd eligible)) as [|b0 conect0] eqn:Ec.
  - inversion H; subst. split; [intros r [] | constructor].
  - set (conect := b0 :: conect0) in *.
    change (f_conect_num flags_fix) with true in H. change (f_conect_del flags_fix) with true in H. cbn match in H.
    set (chains := map (fun cr => map fst (concat (map snd (snd cr)))) w) in *.
    set (numbering := combine (concat chains) (map Z.to_nat written)) in *.
    cbn [obind] in H. inversion H; subst foot; clear H.
    set (pair_of := fun b : bond => i <- dict_get h numbering (b_a1 b) None ;; j <- dict_get h numbering (b_a2 b) None ;;
                                    Some (Z.of_nat i, Z.of_nat j)).
    assert (Hnum : forall k x, dict_get h numbering k None = Some x -> In (Z.of_nat x) written).
    { intros k x Hd. apply dict_get_value in Hd. unfold numbering in Hd. apply combine_snd_in in Hd.
      apply in_map_iff in Hd. destruct Hd as [z [<- Hz]].
      unfold nonneg in Hnn. rewrite Forall_forall in Hnn. rewrite Z2Nat.id by (apply Hnn; exact Hz). exact Hz. }
    assert (Hpairs : Forall (fun p => In (fst p) written /\ In (snd p) written) (somes (map pair_of conect))).
    { apply Forall_forall. intros p Hp. apply somes_in in Hp. apply in_map_iff in Hp. destruct Hp as [b [Hb _]].
      unfold pair_of in Hb. inv_bind Hb. inv_bind Hb. inversion Hb; subst p. simpl. split; eapply Hnum; eauto. }
    pose proof (fold_pairs_good (fun z => In z written) _ [] Hpairs (Forall_nil _)) as G.
    apply (sort_by_forall _ (fun x y : Z * list Z => Z.leb (fst x) (fst y))) in G.
    exact (lines_of_good (fun z => In z written) 3 _ G).
Qed.

(* ------------------------------------------------------------------ the theorem *)
Lemma forallb_in_written written nums :
  Forall (fun z => In z written) nums -> forallb (fun n => existsb (Z.eqb n) written) nums = true.
Proof.
  intros H. apply forallb_forall. intros n Hn. rewrite Forall_forall in H. apply existsb_exists. exists n.
  split; [apply H; exact Hn | apply Z.eqb_refl].
Qed.

Theorem pdb_conect_agrees ter h t recs :
  pdb_write flags_fix ter h t = Some recs -> conect_refers_to_atoms recs = true.
Proof.
  intros H. unfold pdb_write in H. inv_bind H. rename x into v.
  destruct (negb (no_empty_residue v)); [discriminate|].
  match type of H with (if ?c then _ else _) = _ => destruct c; [discriminate|] end.
  destruct (pdb_atoms_chains (length (vt_chains v) <? 2) ter (vt_chains v) 0 1) as [arecs written] eqn:Ea.
  inv_bind H. rename x into foot. inversion H; subst recs; clear H.
  destruct (pdb_atoms_chains_spec _ _ _ _ _ _ _ Ea) as [A [N Pn]].
  destruct (pdb_footer_fix_spec ter h t written foot Pn E0) as [O F].
  unfold conect_refers_to_atoms. rewrite atom_numbers_app, conect_numbers_app.
  rewrite (only_conect_atoms _ O), (no_conect_numbers _ N), A, app_nil_r. simpl.
  apply forallb_in_written. exact F.
Qed.

(* the numbers of the ATOM records, in file order, are the list handed to the footer; none is negative *)
Theorem pdb_atom_numbers_written single ter cs recs nums :
  pdb_atoms_chains single ter cs 0 1 = (recs, nums) ->
  atom_numbers recs = nums /\ Forall (fun z => (0 <= z < 100000)%Z) nums.
Proof.
  intros H. destruct (pdb_atoms_chains_spec _ _ _ _ _ _ _ H) as [A [_ _]]. split; [exact A|].
  clear A. revert recs nums H. generalize 0 at 1. generalize 1.
  induction cs as [|c cs IH]; intros ai pos recs nums H.
  - simpl in H. inversion H; constructor.
  - cbn [pdb_atoms_chains] in H.
    match type of H with context [pdb_atoms_chain single ter ?CN (vc_res c) ai] =>
      destruct (pdb_atoms_chain single ter CN (vc_res c) ai) as [[recs0 nums0] ai0] eqn:E; set (cn := CN) in * end.
    destruct (pdb_atoms_chains single ter cs (S pos) ai0) as [recs2 nums2] eqn:E2.
    inversion H; subst; clear H. apply Forall_app. split; [|eapply IH; eauto].
    clear E2 IH. revert ai recs0 nums0 ai0 E. induction (vc_res c) as [|r rs IHr]; intros ai recs0 nums0 ai0 E.
    + simpl in E. inversion E; constructor.
    + cbn [pdb_atoms_chain] in E.
      destruct (pdb_atoms_res single cn (take 3 (vr_name r)) (vr_resSeq r) (vr_seg r) (vr_atoms r) ai) as [[recs1 nums1] ai1] eqn:E1.
      assert (B1 : Forall (fun z => (0 <= z < 100000)%Z) nums1).
      { clear E IHr. revert ai recs1 nums1 ai1 E1. induction (vr_atoms r) as [|a atoms IHa]; intros ai recs1 nums1 ai1 E1.
        - simpl in E1. inversion E1; constructor.
        - simpl in E1. destruct (pdb_atoms_res single cn (take 3 (vr_name r)) (vr_resSeq r) (vr_seg r) atoms (S ai)) as [[rc nm] ai'] eqn:E'.
          inversion E1; subst. constructor; [apply Z.mod_pos_bound; lia | eapply IHa; eauto]. }
      destruct rs as [|r2 rs'].
      * destruct ter; inversion E; subst; exact B1.
      * destruct (pdb_atoms_chain single ter cn (r2 :: rs') ai1) as [[recs3 nums3] ai3] eqn:E3.
        inversion E; subst. apply Forall_app. split; [exact B1 | eapply IHr; eauto].
Qed.

(* non-vacuity: the repaired writer runs on the two-hub topology and its CONECT records hold numbers *)
Lemma pdb_conect_agrees_witness :
  let st := Run.run flags_fix pdb_ops5 in
  exists recs, pdb_write flags_fix true (Run.st_heap st) (slot st 0) = Some recs /\ 8 <= length (conect_numbers recs).
Proof. eexists. split; [vm_compute; reflexivity | vm_compute; repeat constructor]. Qed.

(* ------------------------------------------------------------------ continuation lines lose no partner *)
(* the partners printed for one atom, over all its CONECT lines, in order *)
Definition partners (recs : list pdbrec) : list Z :=
  concat (map (fun r => match r with PConect (_ :: js) => js | _ => [] end) recs).

(* repaired writer ("del bonded[:3]" after printing three partners): every partner is printed exactly once, in
   order; every line is headed by the atom's own number and holds at most four partners (the columns of the format) *)
Lemma conect_lines_fix_complete : forall fuel i bonded,
  length bonded <= fuel ->
  partners (conect_lines 3 fuel i bonded) = bonded /\
  Forall (fun r => exists js, r = PConect (i :: js) /\ length js <= 4) (conect_lines 3 fuel i bonded).
Proof.
  induction fuel as [|f IH]; intros i bonded Hl.
  - destruct bonded; [|simpl in Hl; lia]. simpl. split; [reflexivity|]. constructor; [|constructor]. exists []. split; [reflexivity | simpl; lia].
  - cbn [conect_lines]. destruct (4 <? length bonded) eqn:E.
    + apply Nat.ltb_lt in E.
      assert (Hs : length (skipn 3 bonded) <= f) by (rewrite skipn_length; lia).
      destruct (IH i (skipn 3 bonded) Hs) as [P F].
      split.
      * change (partners (PConect (i :: firstn 3 bonded) :: conect_lines 3 f i (skipn 3 bonded)))
          with (firstn 3 bonded ++ partners (conect_lines 3 f i (skipn 3 bonded))).
        rewrite P. apply firstn_skipn.
      * constructor; [|exact F]. exists (firstn 3 bonded). split; [reflexivity|]. rewrite firstn_length. lia.
    + apply Nat.ltb_ge in E. split; [unfold partners; simpl; apply app_nil_r|].
      constructor; [|constructor]. exists bonded. split; [reflexivity | exact E].
Qed.

(* as found ("del bonded[:4]"): an atom with five partners loses one *)
Lemma conect_lines_cur_loses :
  exists i bonded, length bonded <= 5 /\ partners (conect_lines 4 5 i bonded) <> bonded.
Proof. exists 1%Z, [2; 3; 4; 5; 6]%Z. split; [simpl; lia | vm_compute; discriminate]. Qed.
