(* C04: Topology.join(other, keep_resSeq=True) (repaired variant): the result is self's chains
   followed by other's chains renumbered after them, self's bonds followed by other's bonds
   shifted by the number of atoms of self; nothing that existed is modified. *)
From Coq Require Import String Ascii.
From Coq Require Import List Arith ZArith Bool Lia Sorted.
Import ListNotations.
Require Import MD.Topo.Model MD.Topo.Basics MD.Topo.Build MD.Topo.AbsWalk MD.Topo.Copy MD.Topo.Subset.
Open Scope nat_scope.

Definition shift_bond (n : nat) (b : vbond) : vbond :=
  {| vb_i := n + vb_i b; vb_j := n + vb_j b; vb_type := vb_type b; vb_order := vb_order b |}.

Definition join_v (va vo : vtop) : vtop :=
  {| vt_chains := vt_chains va ++
                  renum_chains (length (vt_chains va)) (length (v_residues va)) (length (v_atoms va)) (vt_chains vo);
     vt_bonds := vt_bonds va ++ map (shift_bond (length (v_atoms va))) (vt_bonds vo) |}.

Lemma join_chains_keep kc s w : join_chains kc true s w = copy_desc kc w.
Proof.
  rewrite copy_desc_eq. revert s; induction w as [|[c rs] w IH]; intros s; [reflexivity|].
  simpl.
  assert (J : forall s0, exists fin, join_desc kc true s0 rs = (map res_desc rs, fin)).
  { clear. induction rs as [|ra rs IHr]; intros s0; [eexists; reflexivity|].
    simpl. destruct (IHr (r_resSeq (fst ra))) as [fin E]. rewrite E. eexists. reflexivity. }
  destruct (J s) as [fin E]. rewrite E. rewrite IH. reflexivity.
Qed.

Lemma lay_res_length n c nr na l : length (lay_res n c nr na l) = length l.
Proof. revert n nr na; induction l; intros; simpl; auto. Qed.

Lemma lay_chain_res_length n nc nr na l :
  length (lay_chain_res (lay_chains n nc nr na l)) = list_sum (map (fun d => length (dc_res d)) l).
Proof.
  revert n nc nr na; induction l as [|d l IH]; intros; [reflexivity|].
  unfold lay_chain_res in *. simpl. rewrite app_length, IH, map_length, lay_res_length. reflexivity.
Qed.

Lemma nres_copy_desc kc w :
  list_sum (map (fun d => length (dc_res d)) (copy_desc kc w)) = length (concat (map vc_res (map vchain_of w))).
Proof.
  rewrite copy_desc_eq. induction w as [|[c rs] w IH]; [reflexivity|]. simpl. rewrite app_length, IH, !map_length. reflexivity.
Qed.

Lemma lay_chains_length n nc nr na l : length (lay_chains n nc nr na l) = length l.
Proof. revert n nc nr na; induction l; intros; simpl; auto. Qed.

Lemma abs_bonds_agree h h' bs :
  (forall b, In b bs -> get_a h' (b_a1 b) = get_a h (b_a1 b) /\ get_a h' (b_a2 b) = get_a h (b_a2 b)) ->
  mapM (abs_bond h') bs = mapM (abs_bond h) bs.
Proof.
  intros H. apply mapM_ext_in. intros b Hin. destruct (H b Hin) as [E1 E2]. unfold abs_bond. rewrite E1, E2. reflexivity.
Qed.

Lemma join_abs_core h t other keep start w2x h1 out w2' h2 t2 news2 t3 va vo :
  wfo h t -> wfo h other -> abs h t = Some va -> abs h other = Some vo ->
  copy flags_fix h t = Some (h1, out) ->
  walk h1 other = Some w2' ->
  join_chains true keep start w2' = copy_desc true w2x -> walk_atoms w2x = walk_atoms w2' ->
  build_chains h1 out (join_chains true keep start w2') = Some (h2, t2, news2) ->
  add_bonds_mapped h2 t2 (combine (map fst (walk_atoms w2')) news2) (t_bonds other) false = Some t3 ->
  abs h2 t3 = Some {| vt_chains := vt_chains va ++
                                   renum_chains (length (vt_chains va)) (length (v_residues va)) (length (v_atoms va)) (map vchain_of w2x);
                      vt_bonds := vt_bonds va ++ map (shift_bond (length (v_atoms va))) (vt_bonds vo) |} /\
  agree (h_next h) h h2 /\ (forall l, In l (reach h2 t3) -> h_next h <= l).
Proof.
  intros Wt Wo Ha Ho Hcopy Hwalk2' Hdesc HWx Hbuild Hadd.
  pose proof Wt as Wt0. pose proof Wo as Wo0.
  destruct Wt as [Hw _ [w [Hwalk [Hn [Hnd [_ [_ [_ [_ Hb]]]]]]]]].
  destruct (copy_fix_struct h t w h1 out Hw Hwalk Hn Hnd Hb Hcopy)
    as [Hw1 [Hag1 [Hle1 [HLw1 [Hc1 [Hr1 [Ha1 [Hna1 [Hnr1 [Hbonds1 Hbe1]]]]]]]]]].
  set (L1 := lay_chains (h_next h) 0 0 0 (copy_desc true w)) in *.
  set (news1 := map fst (lay_chain_atoms L1)) in *.
  (* other, read in h1, is what it was in h *)
  pose proof (wfo_agree h h1 other Wo0 Hw1 Hag1) as Wo1.
  destruct Wo as [_ _ [w2 [Hwalk2 [Hn2 [Hnd2 [_ [_ [_ [_ Hb2]]]]]]]]].
  assert (w2' = w2) by (pose proof (walk_agree h h1 other w2 Hw Hag1 Hwalk2); congruence). subst w2'.
  rewrite Hdesc in Hbuild.
  pose proof (build_chains_layout _ _ _ _ _ _ Hw1 Hbuild) as HL2. simpl in HL2.
  rewrite Hc1, Hnr1, Hna1 in HL2.
  set (nc := length (map fst L1)) in *. set (nr := length (lay_chain_res L1)) in *. set (na := length news1) in *.
  set (L2 := lay_chains (h_next h1) nc nr na (copy_desc true w2x)) in *.
  destruct HL2 as [Hw2 [Hn2' [Hnews2 [Ht2 [Hag2 HLw2]]]]].
  set (W2 := walk_atoms w2) in *. set (olds2 := map fst W2) in *.
  assert (Hlen2 : length olds2 = length news2).
  { rewrite Hnews2. unfold olds2, W2. rewrite !map_length. unfold L2. rewrite lay_chain_atoms_length, natoms_desc_copy, HWx. reflexivity. }
  assert (Hidx_old : map (fun x => a_index (snd x)) W2 = seq 0 (length W2)) by (apply normal_atom_idx; exact Hn2).
  assert (Hidx_new : map (fun x => a_index (snd x)) (lay_chain_atoms L2) = seq na (length (lay_chain_atoms L2))).
  { unfold L2. rewrite lay_chains_idx, lay_chain_atoms_length. reflexivity. }
  assert (Hold_get : forall l a, In (l, a) W2 -> get_a h l = Some a)
    by (intros l a; apply (walk_atoms_get h (t_chains other) w2); exact Hwalk2).
  assert (Hnew_get : forall l a, In (l, a) (lay_chain_atoms L2) -> get_a h2 l = Some a)
    by (apply layout_atoms_get; exact HLw2).
  assert (Hold_h2 : forall k a, get_a h k = Some a -> get_a h2 k = Some a).
  { intros k a G. assert (k < h_next h) by (eapply hwf_lt_a; eauto).
    destruct (Hag2 k ltac:(lia)) as [A2 _]. destruct (Hag1 k H) as [A1 _]. congruence. }
  set (nidx := fun k => match get_a h k with Some a => Some (na + a_index a) | None => None end).
  assert (HD_atom : forall k, In k olds2 -> exists a, In (k, a) W2 /\ get_a h k = Some a).
  { intros k Hk. unfold olds2 in Hk. apply in_map_iff in Hk. destruct Hk as [[k' a] [Heq Hin]]. simpl in Heq; subst k'.
    exists a. split; [exact Hin | apply Hold_get; exact Hin]. }
  assert (Hsome : forall k p, In k olds2 -> nidx k = Some p ->
             exists x ax, dict_get h2 (combine olds2 news2) k None = Some x /\ get_a h2 x = Some ax /\ a_index ax = p).
  { intros k p Hk Hnk. destruct (HD_atom k Hk) as [a [HinW Ga]]. unfold nidx in Hnk. rewrite Ga in Hnk. inversion Hnk; subst p. clear Hnk.
    pose proof (idx_is_pos (fun x : loc * atom => a_index (snd x)) W2 (k, a) Hidx_old HinW) as Hp. simpl in Hp.
    set (i := a_index a) in *.
    assert (Hplt : i < length (lay_chain_atoms L2)).
    { assert (i < length W2) by (apply nth_error_Some; congruence).
      rewrite Hnews2 in Hlen2. unfold olds2 in Hlen2. rewrite !map_length in Hlen2. lia. }
    destruct (nth_error (lay_chain_atoms L2) i) as [[x ax]|] eqn:Eq; [|apply nth_error_None in Eq; lia].
    exists x, ax. split; [|split; [apply Hnew_get; eapply nth_error_In; eauto|]].
    - apply dict_get_unique.
      + rewrite combine_fst_eq by exact Hlen2. exact Hnd2.
      + apply in_combine_nth with (p := i).
        * unfold olds2. rewrite nth_error_map, Hp. reflexivity.
        * rewrite Hnews2, nth_error_map, Eq. reflexivity.
      + intros k' v' Hin' Hne. apply in_combine_l in Hin'. destruct (HD_atom k' Hin') as [a' [HinW' Ga']].
        apply atom_eqb_idx_ne with (a := a') (b := a); [apply Hold_h2; exact Ga' | apply Hold_h2; exact Ga|].
        intros Hie. apply Hne.
        assert ((k', a') = (k, a)) by (apply (idx_inj (fun x : loc * atom => a_index (snd x)) W2); auto). congruence.
    - apply (nth_error_seq_idx (fun x => a_index (snd x)) _ na i (x, ax) Hidx_new Eq). }
  assert (Hnone : forall k, In k olds2 -> nidx k = None -> dict_get h2 (combine olds2 news2) k None = None).
  { intros k Hk Hnk. destruct (HD_atom k Hk) as [a [_ Ga]]. unfold nidx in Hnk. rewrite Ga in Hnk. discriminate. }
  assert (HDb : forall b, In b (t_bonds other) -> In (b_a1 b) olds2 /\ In (b_a2 b) olds2).
  { intros b Hbin. destruct (Hb2 b Hbin) as [B1 [B2 _]]. split; assumption. }
  assert (Hor : forall b p q, In b (t_bonds other) -> nidx (b_a1 b) = Some p -> nidx (b_a2 b) = Some q ->
                              p <= q /\ (p = q -> b_a1 b = b_a2 b)).
  { intros b p q Hbin N1 N2. destruct (Hb2 b Hbin) as [B1 [B2 [a1 [a2 [G1 [G2 Hle]]]]]].
    unfold nidx in N1, N2. rewrite G1 in N1. rewrite G2 in N2. inversion N1; inversion N2; subst p q.
    split; [lia|]. intros Hpq.
    destruct (HD_atom _ B1) as [a1' [I1 G1']]. destruct (HD_atom _ B2) as [a2' [I2 G2']].
    assert (a1' = a1) by congruence. assert (a2' = a2) by congruence. subst a1' a2'.
    assert ((b_a1 b, a1) = (b_a2 b, a2)) by (apply (idx_inj (fun x : loc * atom => a_index (snd x)) W2); auto; simpl; lia).
    congruence. }
  destruct (add_bonds_mapped_skip h2 (combine olds2 news2) nidx olds2 Hsome Hnone (t_bonds other) t2 t3 HDb Hor false Hadd)
    as [[S1 [S2 [S3 [S4 S5]]]] [nb [Hnb [Hnbabs Hnbends]]]].
  (* the abstractions of the two sources *)
  assert (Hva : vt_chains va = map vchain_of w /\ mapM (abs_bond h) (t_bonds t) = Some (vt_bonds va)).
  { unfold abs in Ha. unfold walk in Hwalk. rewrite (abs_chains_walk _ _ _ Hwalk) in Ha. simpl in Ha.
    inv_bind Ha. inversion Ha; subst va. simpl. split; [reflexivity | exact E]. }
  destruct Hva as [Hvac Hvab].
  assert (Hvo : vt_chains vo = map vchain_of w2 /\ mapM (abs_bond h) (t_bonds other) = Some (vt_bonds vo)).
  { unfold abs in Ho. unfold walk in Hwalk2. rewrite (abs_chains_walk _ _ _ Hwalk2) in Ho. simpl in Ho.
    inv_bind Ho. inversion Ho; subst vo. simpl. split; [reflexivity | exact E]. }
  destruct Hvo as [Hvoc Hvob].
  assert (Hnc : nc = length (vt_chains va)).
  { unfold nc. rewrite map_length. unfold L1. rewrite lay_chains_length. rewrite copy_desc_eq, Hvac, !map_length. reflexivity. }
  assert (Hnr : nr = length (v_residues va)).
  { unfold nr, L1. rewrite lay_chain_res_length, nres_copy_desc. unfold v_residues. rewrite Hvac. reflexivity. }
  assert (Hna : na = length (v_atoms va)).
  { unfold na, news1. rewrite map_length. unfold L1. rewrite lay_chain_atoms_length, natoms_desc_copy.
    unfold v_atoms, v_residues. rewrite Hvac, <- walk_atoms_vatoms, map_length. reflexivity. }
  assert (Hbonds_o : somes (map (fun b => match nidx (b_a1 b), nidx (b_a2 b) with
                                          | Some p, Some q => Some {| vb_i := p; vb_j := q; vb_type := b_type b; vb_order := b_order b |}
                                          | _, _ => None end) (t_bonds other)) = map (shift_bond na) (vt_bonds vo)).
  { clear - Hvob. revert Hvob. generalize (vt_bonds vo). generalize (t_bonds other).
    induction l as [|b bs IH]; intros vbs Hvb.
    - inversion Hvb; subst. reflexivity.
    - apply mapM_cons_some in Hvb. destruct Hvb as [vb [vr [Hb [Hl ->]]]].
      unfold abs_bond in Hb. inv_bind Hb. inv_bind Hb. inversion Hb; subst vb; clear Hb.
      simpl. unfold nidx at 1 2. rewrite E, E0. simpl. rewrite (IH _ Hl). reflexivity. }
  rewrite Hbonds_o in Hnbabs.
  (* assemble *)
  assert (Hc3 : t_chains t3 = map fst L1 ++ map fst L2) by (rewrite S1, Ht2; simpl; rewrite Hc1; reflexivity).
  assert (Hchains : mapM (abs_chain h2) (t_chains t3) =
                    Some (vt_chains va ++ renum_chains (length (vt_chains va)) (length (v_residues va)) (length (v_atoms va)) (map vchain_of w2x))).
  { rewrite Hc3. apply mapM_app.
    - assert (E : mapM (walk_chain h2) (map fst L1) = Some (map snd L1)).
      { apply mapM_pairs. intros x cw Hin. apply walk_chain_agree with (h := h1); [exact Hw1 | exact Hag2 | apply HLw1; exact Hin]. }
      rewrite (abs_chains_walk _ _ _ E). rewrite map_map. unfold L1. rewrite lay_chains_abs. unfold normal in Hn. rewrite Hn, Hvac. reflexivity.
    - rewrite (abs_chains_walk _ _ _ (walk_of_layout _ _ HLw2)). rewrite map_map. unfold L2. rewrite lay_chains_abs.
      rewrite Hnc, Hnr, Hna. reflexivity. }
  assert (Hb3 : t_bonds t3 = t_bonds out ++ nb) by (rewrite Hnb, Ht2; reflexivity).
  assert (Hbo : mapM (abs_bond h2) (t_bonds out) = Some (vt_bonds va)).
  { rewrite <- Hvab, <- Hbonds1. apply abs_bonds_agree. intros b Hbin. destruct (Hbe1 b Hbin) as [E1 [E2 [a1 [a2 [G1 [G2 _]]]]]].
    split; [apply (Hag2 (b_a1 b)); eapply hwf_lt_a; eauto | apply (Hag2 (b_a2 b)); eapply hwf_lt_a; eauto]. }
  split.
  { unfold abs. rewrite Hchains, Hb3. rewrite (mapM_app _ _ _ _ _ Hbo Hnbabs). rewrite Hna. reflexivity. }
  split.
  { apply agree_trans with (h2 := h1); [exact Hag1|]. eapply agree_le; [|exact Hag2]. lia. }
  (* freshness *)
  assert (E1w : mapM (walk_chain h2) (map fst L1 ++ map fst L2) = Some (map snd L1 ++ map snd L2)).
  { apply mapM_app; [|apply walk_of_layout; exact HLw2]. apply mapM_pairs. intros x cw Hin.
    apply walk_chain_agree with (h := h1); [exact Hw1 | exact Hag2 | apply HLw1; exact Hin]. }
  destruct (chainwise_of_walk _ _ _ E1w) as [CR CA].
  assert (B : forall (L : list (loc * (chain * list (resid * list (loc * atom))))) n0 c0 r0 a0 d l,
             L = lay_chains n0 c0 r0 a0 d -> h_next h <= n0 ->
             (In l (map fst L) \/ In l (lay_chain_res L) \/ In l (map fst (lay_chain_atoms L))) -> h_next h <= l).
  { intros L n0 c0 r0 a0 d l -> Hn0 [Hin|[Hin|Hin]].
    - pose proof (lay_chains_locs_within n0 c0 r0 a0 d) as Wi. unfold within in Wi. rewrite Forall_forall in Wi. apply Wi in Hin. lia.
    - pose proof (lay_chain_res_within n0 c0 r0 a0 d) as Wi. unfold within in Wi. rewrite Forall_forall in Wi. apply Wi in Hin. lia.
    - destruct (lay_chain_atoms_sorted n0 c0 r0 a0 d) as [_ Wi]. unfold within in Wi. rewrite Forall_forall in Wi. apply Wi in Hin. lia. }
  assert (B1 := fun l => B L1 _ _ _ _ _ l eq_refl (le_n _)).
  assert (B2 := fun l => B L2 _ _ _ _ _ l eq_refl Hle1).
  intros l Hin. unfold reach in Hin. rewrite Hc3, S2, S3, Ht2 in Hin. simpl in Hin. rewrite Hr1, Ha1 in Hin.
  rewrite CR, CA in Hin. rewrite map_app, concat_app in Hin. unfold walk_atoms in Hin. rewrite map_app, concat_app, map_app in Hin.
  fold (walk_atoms (map snd L1)) in Hin. fold (walk_atoms (map snd L2)) in Hin.
  rewrite !walk_atoms_layout, !lay_chain_res_eq in Hin. rewrite Hnews2 in Hin.
  repeat (apply in_app_or in Hin; destruct Hin as [Hin|Hin]);
    try (apply B1; tauto); try (apply B2; tauto).
  unfold bond_ends in Hin. apply in_concat in Hin. destruct Hin as [ends [He Hin]].
  apply in_map_iff in He. destruct He as [b [<- Hbin]]. rewrite Hb3 in Hbin. apply in_app_or in Hbin. destruct Hbin as [Hbin|Hbin].
  - destruct (Hbe1 b Hbin) as [E1 [E2 _]]. destruct Hin as [<-|[<-|[]]]; apply B1; tauto.
  - destruct (Hnbends b Hbin) as [E1 [E2 _]].
    assert (Hsnd : forall x, In x (map snd (combine olds2 news2)) -> In x news2).
    { intros x Hx. apply in_map_iff in Hx. destruct Hx as [[k0 v0] [Heq Hx]]. simpl in Heq; subst v0. eapply in_combine_r; eauto. }
    destruct Hin as [<-|[<-|[]]]; apply B2; right; right; rewrite <- Hnews2; apply Hsnd; assumption.
Qed.

Theorem join_abs h t other h' t' va vo :
  wfo h t -> wfo h other -> abs h t = Some va -> abs h other = Some vo ->
  join flags_fix h t other true = Some (h', t') ->
  abs h' t' = Some (join_v va vo) /\ agree (h_next h) h h' /\ (forall l, In l (reach h' t') -> h_next h <= l).
Proof.
  intros Wt Wo Ha Ho Hj.
  unfold join in Hj. inv_bind Hj. destruct x as [h1 out]. rename E into Hcopy. cbn [obind] in Hj.
  inv_bind Hj. rename x into w2'. rename E into Hwalk2'. inv_bind Hj. destruct x as [[h2 t2] news2]. rename E into Hbuild.
  inv_bind Hj. rename x into t3. rename E into Hadd. inversion Hj; subst h' t'; clear Hj.
  change (f_cid_join flags_fix) with true in Hbuild.
  destruct (join_abs_core h t other true 0%Z w2' h1 out w2' h2 t2 news2 t3 va vo Wt Wo Ha Ho Hcopy Hwalk2'
              (join_chains_keep true 0%Z w2') eq_refl Hbuild Hadd) as [A [B C]].
  split; [|split; assumption]. rewrite A. unfold join_v. repeat f_equal.
  (* other's walk in h1 is its walk in h *)
  pose proof (copy_frame h t h1 out Wt Hcopy) as Hag1.
  destruct Wo as [Hwo _ [w2 [Hwalk2 _]]].
  destruct Wt as [Hw _ _].
  assert (w2' = w2) by (pose proof (walk_agree h h1 other w2 Hw Hag1 Hwalk2); congruence). subst w2'.
  unfold abs in Ho. unfold walk in Hwalk2. rewrite (abs_chains_walk _ _ _ Hwalk2) in Ho. simpl in Ho. inv_bind Ho. inversion Ho. reflexivity.
Qed.
