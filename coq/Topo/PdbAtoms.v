(* C04, PDB carrier, ATOM/TER part: what the reader's chain/residue splitting makes of the records the writer
   produces (TER lines written, the default).  For every list of chains in which every chain has a residue, every
   residue has an atom, and consecutive residues of a chain differ in what the file can hold of (resSeq, name),
   the reader rebuilds exactly the chains, residues and atoms that were written: chain ids as written (the id's
   first character, or the letter of the chain's position), residue names cut to 3 characters, resSeq mod 10000,
   segment ids and atom names cut to 4 characters, element symbols unchanged -- whatever the chain ids are (equal
   ids of neighbouring chains included: the TER line separates them).  Serial numbers are characterised
   separately (PdbProofs.pdb_atom_numbers_written); here they are erased on both sides. *)
From Coq Require Import String Ascii.
From Coq Require Import List Arith ZArith Bool Lia.
Import ListNotations.
Require Import MD.Topo.Model MD.Topo.Carriers MD.Topo.Basics MD.Topo.CarrierProofs.
Open Scope nat_scope.
Local Open Scope list_scope.

(* ------------------------------------------------------------------ group_by and maps that keep the relation *)
Lemma group_by_map {A} (f : A -> A) (same : A -> A -> bool) l :
  (forall x y, same (f x) (f y) = same x y) -> group_by same (map f l) = map (map f) (group_by same l).
Proof.
  intros H. induction l as [|x l IH]; [reflexivity|].
  simpl. rewrite IH. destruct (group_by same l) as [|[|y g] gs]; [reflexivity | reflexivity|].
  simpl. rewrite H. destruct (same x y); reflexivity.
Qed.

(* ------------------------------------------------------------------ erasing serial numbers *)
Definition zero (p : patom) : patom :=
  {| pa_serial := 0%Z; pa_name := pa_name p; pa_resName := pa_resName p; pa_chain := pa_chain p; pa_resSeq := pa_resSeq p;
     pa_seg := pa_seg p; pa_elem := pa_elem p; pa_after_ter := pa_after_ter p |}.
Definition strip_datom (a : datom) : datom := {| da_name := da_name a; da_elem := da_elem a; da_serial := None |}.
Definition strip_dres (r : dres) : dres :=
  {| dr_name := dr_name r; dr_resSeq := dr_resSeq r; dr_seg := dr_seg r; dr_atoms := map strip_datom (dr_atoms r) |}.
Definition strip_dchain (c : dchain) : dchain := {| dc_id := dc_id c; dc_res := map strip_dres (dc_res c) |}.

Definition rsame (x y : patom) : bool := Z.eqb (pa_resSeq x) (pa_resSeq y) && String.eqb (pa_resName x) (pa_resName y).
Definition csame (x y : patom) : bool := String.eqb (pa_chain x) (pa_chain y) && negb (pa_after_ter y).

Definition res_of_group (g : list patom) : dres :=
  match g with
  | [] => {| dr_name := ""; dr_resSeq := None; dr_seg := ""; dr_atoms := [] |}
  | x :: _ => {| dr_name := pa_resName x; dr_resSeq := Some (pa_resSeq x); dr_seg := pa_seg x;
                 dr_atoms := map (fun y => {| da_name := pa_name y; da_elem := pa_elem y; da_serial := Some (pa_serial y) |}) g |}
  end.
Definition chain_of_group (cg : list patom) : dchain :=
  {| dc_id := match cg with x :: _ => Some (pa_chain x) | [] => None end;
     dc_res := map res_of_group (group_by rsame cg) |}.

Lemma pdb_read_chains_eq atoms : pdb_read_chains atoms = map chain_of_group (group_by csame atoms).
Proof. reflexivity. Qed.

Lemma strip_dres_zero g : strip_dres (res_of_group (map zero g)) = strip_dres (res_of_group g).
Proof.
  destruct g as [|x g]; [reflexivity|]. unfold res_of_group, strip_dres. simpl. f_equal. f_equal.
  rewrite !map_map. apply map_ext. intros y. reflexivity.
Qed.

Lemma strip_dchain_zero cg : strip_dchain (chain_of_group (map zero cg)) = strip_dchain (chain_of_group cg).
Proof.
  unfold chain_of_group, strip_dchain. simpl. f_equal.
  - destruct cg; reflexivity.
  - rewrite (group_by_map zero rsame cg) by (intros x y; reflexivity).
    rewrite !map_map. apply map_ext. intros g. apply strip_dres_zero.
Qed.

Lemma read_chains_zero atoms : map strip_dchain (pdb_read_chains (map zero atoms)) = map strip_dchain (pdb_read_chains atoms).
Proof.
  rewrite !pdb_read_chains_eq. rewrite (group_by_map zero csame atoms) by (intros x y; reflexivity).
  rewrite !map_map. apply map_ext. intros cg. apply strip_dchain_zero.
Qed.

(* ------------------------------------------------------------------ what the writer's records read as *)
Fixpoint ter_after (recs : list pdbrec) (b : bool) : bool :=
  match recs with
  | [] => b
  | PAtom _ _ _ _ _ _ _ :: r => ter_after r false
  | PTer :: r => ter_after r true
  | PConect _ :: r => ter_after r b
  end.

Lemma pdb_atoms_of_app l1 l2 b : pdb_atoms_of (l1 ++ l2) b = pdb_atoms_of l1 b ++ pdb_atoms_of l2 (ter_after l1 b).
Proof.
  revert b; induction l1 as [|r l1 IH]; intros b; [reflexivity|].
  destruct r; simpl; rewrite IH; reflexivity.
Qed.

Lemma ter_after_app l1 l2 b : ter_after (l1 ++ l2) b = ter_after l2 (ter_after l1 b).
Proof. revert b; induction l1 as [|r l1 IH]; intros b; [reflexivity|]. destruct r; simpl; apply IH. Qed.

(* the atoms of one residue as the reader sees them, serials erased; [b]: a TER line precedes the first one *)
Definition zatom (cn rn : string) (rs : Z) (sg : string) (b : bool) (a : vatom) : patom :=
  {| pa_serial := 0%Z; pa_name := take 4 (va_name a); pa_resName := rn; pa_chain := cn; pa_resSeq := rs; pa_seg := sg;
     pa_elem := va_elem a; pa_after_ter := b |}.
Definition zatoms (cn rn : string) (rs : Z) (sg : string) (b : bool) (atoms : list vatom) : list patom :=
  match atoms with
  | [] => []
  | a :: r => zatom cn rn rs sg b a :: map (zatom cn rn rs sg false) r
  end.

Lemma res_reads single cn rn rs sg : forall atoms ai recs nums ai' b,
  pdb_atoms_res single cn rn rs sg atoms ai = (recs, nums, ai') ->
  map zero (pdb_atoms_of recs b) = zatoms cn rn (rs mod 10000)%Z (take 4 sg) b atoms /\
  ter_after recs b = match atoms with [] => b | _ => false end.
Proof.
  induction atoms as [|a atoms IH]; intros ai recs nums ai' b H; simpl in H.
  - inversion H; subst. split; reflexivity.
  - destruct (pdb_atoms_res single cn rn rs sg atoms (S ai)) as [[recs0 nums0] ai0] eqn:E.
    inversion H; subst recs nums ai'; clear H. destruct (IH _ _ _ _ false E) as [A T].
    split.
    + simpl. f_equal. rewrite A. destruct atoms; reflexivity.
    + simpl. rewrite T. destruct atoms; reflexivity.
Qed.

Definition res_z (cn : string) (b : bool) (r : vres) : list patom :=
  zatoms cn (take 3 (vr_name r)) (vr_resSeq r mod 10000)%Z (take 4 (vr_seg r)) b (vr_atoms r).

(* one chain, TER written: its residues (none empty) in order, the flag on the very first atom only; a TER follows *)
Lemma chain_reads single cn : forall rs ai recs nums ai' b,
  rs <> [] -> (forall r, In r rs -> vr_atoms r <> []) ->
  pdb_atoms_chain single true cn rs ai = (recs, nums, ai') ->
  map zero (pdb_atoms_of recs b) =
    match rs with [] => [] | r :: rest => res_z cn b r ++ concat (map (res_z cn false) rest) end /\
  ter_after recs b = true.
Proof.
  induction rs as [|r rs IH]; intros ai recs nums ai' b Hne Hat H; [contradiction|].
  cbn [pdb_atoms_chain] in H.
  destruct (pdb_atoms_res single cn (take 3 (vr_name r)) (vr_resSeq r) (vr_seg r) (vr_atoms r) ai) as [[recs0 nums0] ai0] eqn:E.
  assert (Hr : vr_atoms r <> []) by (apply Hat; left; reflexivity).
  destruct (res_reads _ _ _ _ _ _ _ _ _ _ b E) as [A T].
  assert (T' : ter_after recs0 b = false) by (rewrite T; destruct (vr_atoms r); [contradiction | reflexivity]).
  destruct rs as [|r2 rs'].
  - inversion H; subst recs nums ai'; clear H. rewrite pdb_atoms_of_app, map_app, A. simpl. rewrite !app_nil_r.
    split; [reflexivity|]. rewrite ter_after_app. reflexivity.
  - destruct (pdb_atoms_chain single true cn (r2 :: rs') ai0) as [[recs2 nums2] ai2] eqn:E2.
    inversion H; subst recs nums ai'; clear H.
    destruct (IH _ _ _ _ false ltac:(discriminate) ltac:(intros q Hq; apply Hat; right; exact Hq) E2) as [A2 T2].
    rewrite pdb_atoms_of_app, map_app, A, T', A2. split; [reflexivity|].
    rewrite ter_after_app, T'. exact T2.
Qed.

(* ------------------------------------------------------------------ several chains *)
Definition cname (c : vchain) (pos : nat) : string :=
  match vc_id c with
  | Some s => if String.eqb s "" then chain_letter pos else take 1 s
  | None => chain_letter pos
  end.
Definition chain_groups (cn : string) (b : bool) (c : vchain) : list (list patom) :=
  match vc_res c with [] => [] | r :: rest => res_z cn b r :: map (res_z cn false) rest end.
Definition chain_z (cn : string) (b : bool) (c : vchain) : list patom := concat (chain_groups cn b c).
Fixpoint chains_groups (cs : list vchain) (pos : nat) (b : bool) : list (list patom) :=
  match cs with
  | [] => []
  | c :: rest => chain_z (cname c pos) b c :: chains_groups rest (S pos) true
  end.

Definition full_chain (c : vchain) : Prop := vc_res c <> [] /\ forall r, In r (vc_res c) -> vr_atoms r <> [].

Lemma chains_read single : forall cs pos ai recs nums b,
  (forall c, In c cs -> full_chain c) ->
  pdb_atoms_chains single true cs pos ai = (recs, nums) ->
  map zero (pdb_atoms_of recs b) = concat (chains_groups cs pos b).
Proof.
  induction cs as [|c cs IH]; intros pos ai recs nums b Hf H.
  - simpl in H. inversion H; subst. reflexivity.
  - cbn [pdb_atoms_chains] in H. fold (cname c pos) in H.
    destruct (pdb_atoms_chain single true (cname c pos) (vc_res c) ai) as [[recs0 nums0] ai0] eqn:E.
    destruct (pdb_atoms_chains single true cs (S pos) ai0) as [recs2 nums2] eqn:E2.
    inversion H; subst recs nums; clear H.
    destruct (Hf c (or_introl eq_refl)) as [F1 F2].
    destruct (chain_reads single (cname c pos) (vc_res c) ai recs0 nums0 ai0 b F1 F2 E) as [A T].
    rewrite pdb_atoms_of_app, map_app, A, T. simpl. f_equal.
    + unfold chain_z, chain_groups. destruct (vc_res c); reflexivity.
    + eapply IH; [intros q Hq; apply Hf; right; exact Hq | exact E2].
Qed.

(* ------------------------------------------------------------------ grouping a concatenation of runs *)
Fixpoint bounded {A} (same : A -> A -> bool) (gs : list (list A)) : Prop :=
  match gs with
  | g :: ((g' :: _) as rest) => boundary same g g' /\ bounded same rest
  | _ => True
  end.

Lemma group_concat {A} (same : A -> A -> bool) gs :
  (forall g, In g gs -> g <> [] /\ adj_same same g = true) -> bounded same gs -> group_by same (concat gs) = gs.
Proof.
  induction gs as [|g gs IH]; intros Hg Hb; [reflexivity|].
  destruct (Hg g (or_introl eq_refl)) as [Hne Hadj]. simpl concat. rewrite group_by_split; [| exact Hne | exact Hadj |].
  - f_equal. apply IH; [intros q Hq; apply Hg; right; exact Hq|]. destruct gs; [exact I | simpl in Hb; tauto].
  - destruct gs as [|g' gs']; [exact I|]. destruct Hb as [Hb _].
    destruct (Hg g' (or_intror (or_introl eq_refl))) as [Hne' _]. destruct g' as [|y ys]; [contradiction|]. exact Hb.
Qed.

(* ------------------------------------------------------------------ residues inside a chain *)
Definition key_differs (r r' : vres) : Prop :=
  (Z.eqb (vr_resSeq r mod 10000) (vr_resSeq r' mod 10000) && String.eqb (take 3 (vr_name r)) (take 3 (vr_name r')))%Z = false.
Fixpoint res_distinct_pdb (l : list vres) : Prop :=
  match l with
  | r :: ((r' :: _) as rest) => key_differs r r' /\ res_distinct_pdb rest
  | _ => True
  end.

Lemma res_z_in cn b r x : In x (res_z cn b r) ->
  pa_resSeq x = (vr_resSeq r mod 10000)%Z /\ pa_resName x = take 3 (vr_name r) /\ pa_chain x = cn.
Proof.
  unfold res_z, zatoms. destruct (vr_atoms r) as [|a l]; [intros []|]. intros [<-|H]; [repeat split|].
  apply in_map_iff in H. destruct H as [a' [<- _]]. repeat split.
Qed.
Lemma res_z_nonempty cn b r : vr_atoms r <> [] -> res_z cn b r <> [].
Proof. unfold res_z, zatoms. destruct (vr_atoms r); [contradiction | discriminate]. Qed.
Lemma res_z_tail_flags cn b r : match res_z cn b r with [] => True | _ :: tl => forall x, In x tl -> pa_after_ter x = false end.
Proof.
  unfold res_z, zatoms. destruct (vr_atoms r) as [|a l]; [exact I|]. intros x H. apply in_map_iff in H. destruct H as [a' [<- _]]. reflexivity.
Qed.

Lemma adj_same_fields {A} (same : A -> A -> bool) (l : list A) :
  (forall x y, In x l -> In y l -> same x y = true) -> adj_same same l = true.
Proof.
  induction l as [|x [|y l] IH]; intros H; [reflexivity | reflexivity|].
  change (adj_same same (x :: y :: l)) with (same x y && adj_same same (y :: l)).
  rewrite (H x y (or_introl eq_refl) (or_intror (or_introl eq_refl))). apply IH. intros; apply H; right; assumption.
Qed.

Lemma res_z_rsame cn b r : adj_same rsame (res_z cn b r) = true.
Proof.
  apply adj_same_fields. intros x y Hx Hy. apply res_z_in in Hx. apply res_z_in in Hy.
  destruct Hx as [X1 [X2 _]]. destruct Hy as [Y1 [Y2 _]]. unfold rsame. rewrite X1, X2, Y1, Y2, Z.eqb_refl, String.eqb_refl. reflexivity.
Qed.

Lemma chain_groups_grouped cn b c :
  full_chain c -> res_distinct_pdb (vc_res c) -> group_by rsame (chain_z cn b c) = chain_groups cn b c.
Proof.
  intros [F1 F2] Hd. unfold chain_z. apply group_concat.
  - intros g Hg. unfold chain_groups in Hg. destruct (vc_res c) as [|r rest]; [contradiction|].
    destruct Hg as [<-|Hg]; [split; [apply res_z_nonempty; apply F2; left; reflexivity | apply res_z_rsame]|].
    apply in_map_iff in Hg. destruct Hg as [r' [<- Hr']]. split; [apply res_z_nonempty; apply F2; right; exact Hr' | apply res_z_rsame].
  - unfold chain_groups. destruct (vc_res c) as [|r rest]; [exact I|]. clear F1.
    assert (G : forall b0 r0 rest0, (forall q, In q (r0 :: rest0) -> vr_atoms q <> []) -> res_distinct_pdb (r0 :: rest0) ->
                bounded rsame (res_z cn b0 r0 :: map (res_z cn false) rest0)).
    { intros b0 r0 rest0. revert b0 r0. induction rest0 as [|r1 rest1 IHr]; intros b0 r0 Hat Hdd; [exact I|].
      destruct Hdd as [Hk Hdd]. split; [|apply IHr; [intros q Hq; apply Hat; right; exact Hq | exact Hdd]].
      unfold boundary. pose proof (res_z_nonempty cn false r1 (Hat r1 (or_intror (or_introl eq_refl)))) as N1.
      destruct (res_z cn false r1) as [|y ys] eqn:E1; [contradiction|].
      assert (Hy : In y (res_z cn false r1)) by (rewrite E1; left; reflexivity). apply res_z_in in Hy. destruct Hy as [Y1 [Y2 _]].
      pose proof (last_in (res_z cn b0 r0) y (res_z_nonempty cn b0 r0 (Hat r0 (or_introl eq_refl)))) as Hl.
      apply res_z_in in Hl. destruct Hl as [L1 [L2 _]]. unfold rsame. rewrite L1, L2, Y1, Y2. exact Hk. }
    apply G; assumption.
Qed.

(* ------------------------------------------------------------------ chains *)
Lemma chain_z_in cn b c x : In x (chain_z cn b c) -> pa_chain x = cn.
Proof.
  unfold chain_z, chain_groups. destruct (vc_res c) as [|r rest]; [intros []|]. simpl. intros H. apply in_app_or in H.
  destruct H as [H|H]; [apply res_z_in in H; tauto|]. apply in_concat in H. destruct H as [g [Hg Hx]].
  apply in_map_iff in Hg. destruct Hg as [r' [<- _]]. apply res_z_in in Hx. tauto.
Qed.

Lemma chain_z_nonempty cn b c : full_chain c -> chain_z cn b c <> [].
Proof.
  intros [F1 F2]. unfold chain_z, chain_groups. destruct (vc_res c) as [|r rest]; [contradiction|]. simpl.
  pose proof (res_z_nonempty cn b r (F2 r (or_introl eq_refl))) as N. destruct (res_z cn b r); [contradiction | discriminate].
Qed.

(* the first atom of a chain carries the flag b, every other atom of the chain the flag false *)
Lemma chain_z_flags cn b c : full_chain c ->
  exists x tl, chain_z cn b c = x :: tl /\ pa_after_ter x = b /\ forall y, In y tl -> pa_after_ter y = false.
Proof.
  intros [F1 F2]. unfold chain_z, chain_groups. destruct (vc_res c) as [|r rest]; [contradiction|]. simpl.
  pose proof (F2 r (or_introl eq_refl)) as Hr. unfold res_z at 1, zatoms. destruct (vr_atoms r) as [|a l] eqn:Ea; [contradiction|].
  eexists. eexists. split; [reflexivity|]. split; [reflexivity|].
  intros y Hy. apply in_app_or in Hy. destruct Hy as [Hy|Hy].
  - apply in_map_iff in Hy. destruct Hy as [a' [<- _]]. reflexivity.
  - apply in_concat in Hy. destruct Hy as [g [Hg Hy]]. apply in_map_iff in Hg. destruct Hg as [r' [<- _]].
    unfold res_z, zatoms in Hy. destruct (vr_atoms r') as [|a' l']; [destruct Hy|].
    destruct Hy as [<-|Hy]; [reflexivity|]. apply in_map_iff in Hy. destruct Hy as [a'' [<- _]]. reflexivity.
Qed.

Lemma chain_z_csame cn b c : full_chain c -> adj_same csame (chain_z cn b c) = true.
Proof.
  intros F. destruct (chain_z_flags cn b c F) as [x [tl [E [_ Ht]]]].
  assert (Hc : forall y, In y (chain_z cn b c) -> pa_chain y = cn) by (intros y; apply chain_z_in).
  rewrite E in *. clear E.
  assert (G : forall l : list patom, (forall y, In y l -> pa_chain y = cn) ->
              match l with [] => True | _ :: t => forall y, In y t -> pa_after_ter y = false end -> adj_same csame l = true).
  { induction l as [|u [|w l] IH]; intros H1 H2; [reflexivity | reflexivity|].
    change (adj_same csame (u :: w :: l)) with (csame u w && adj_same csame (w :: l)).
    unfold csame at 1. rewrite (H1 u (or_introl eq_refl)), (H1 w (or_intror (or_introl eq_refl))), String.eqb_refl.
    rewrite (H2 w (or_introl eq_refl)). simpl. apply IH; [intros; apply H1; right; assumption | intros y Hy; apply H2; right; exact Hy]. }
  apply G; [exact Hc | exact Ht].
Qed.

Lemma chains_grouped : forall cs pos b,
  (forall c, In c cs -> full_chain c) -> group_by csame (concat (chains_groups cs pos b)) = chains_groups cs pos b.
Proof.
  intros cs pos b Hf. apply group_concat.
  - revert pos b. induction cs as [|c cs IH]; intros pos b g Hg; [destruct Hg|].
    simpl in Hg. destruct Hg as [<-|Hg].
    + split; [apply chain_z_nonempty | apply chain_z_csame]; apply Hf; left; reflexivity.
    + eapply IH; [intros q Hq; apply Hf; right; exact Hq | exact Hg].
  - revert pos b. induction cs as [|c cs IH]; intros pos b; [exact I|].
    simpl. destruct cs as [|c' cs']; [exact I|]. split; [|apply IH; intros q Hq; apply Hf; right; exact Hq].
    simpl. destruct (chain_z_flags (cname c' (S pos)) true c' (Hf c' (or_intror (or_introl eq_refl)))) as [x [tl [E [Hx _]]]].
    rewrite E. unfold boundary, csame. rewrite Hx. apply andb_false_r.
Qed.

(* ------------------------------------------------------------------ the round trip of the ATOM/TER part *)
Definition expected_res (r : vres) : dres :=
  {| dr_name := take 3 (vr_name r); dr_resSeq := Some (vr_resSeq r mod 10000)%Z; dr_seg := take 4 (vr_seg r);
     dr_atoms := map (fun a => {| da_name := take 4 (va_name a); da_elem := va_elem a; da_serial := None |}) (vr_atoms r) |}.
Fixpoint expected_chains (cs : list vchain) (pos : nat) : list dchain :=
  match cs with
  | [] => []
  | c :: rest => {| dc_id := Some (cname c pos); dc_res := map expected_res (vc_res c) |} :: expected_chains rest (S pos)
  end.

Lemma strip_dres_z cn b r : vr_atoms r <> [] -> strip_dres (res_of_group (res_z cn b r)) = expected_res r.
Proof.
  intros H. unfold res_z, zatoms, expected_res. destruct (vr_atoms r) as [|a l]; [contradiction|].
  unfold res_of_group, strip_dres. simpl. f_equal. f_equal. rewrite !map_map. apply map_ext. intros y. reflexivity.
Qed.

Lemma strip_dchain_z cn b c :
  full_chain c -> res_distinct_pdb (vc_res c) ->
  strip_dchain (chain_of_group (chain_z cn b c)) = {| dc_id := Some cn; dc_res := map expected_res (vc_res c) |}.
Proof.
  intros F Hd. unfold chain_of_group, strip_dchain. simpl. f_equal.
  - destruct (chain_z_flags cn b c F) as [x [tl [E _]]]. pose proof (chain_z_in cn b c x) as Hx. rewrite E in *.
    f_equal. apply Hx. left; reflexivity.
  - rewrite (chain_groups_grouped cn b c F Hd). destruct F as [F1 F2]. unfold chain_groups.
    destruct (vc_res c) as [|r rest]; [contradiction|]. simpl. f_equal; [apply strip_dres_z; apply F2; left; reflexivity|].
    rewrite !map_map. apply map_ext_in. intros q Hq. apply strip_dres_z. apply F2. right. exact Hq.
Qed.

Definition pdb_exact (cs : list vchain) : Prop := forall c, In c cs -> full_chain c /\ res_distinct_pdb (vc_res c).

Theorem pdb_atoms_roundtrip single cs recs nums :
  pdb_exact cs -> pdb_atoms_chains single true cs 0 1 = (recs, nums) ->
  map strip_dchain (pdb_read_chains (pdb_atoms_of recs false)) = expected_chains cs 0.
Proof.
  intros He H. rewrite <- read_chains_zero.
  rewrite (chains_read single cs 0 1 recs nums false (fun c Hc => proj1 (He c Hc)) H).
  rewrite pdb_read_chains_eq, chains_grouped by (intros c Hc; apply (He c Hc)).
  clear H. generalize 0 at 1 2. generalize false. induction cs as [|c cs IH]; intros b pos; [reflexivity|].
  simpl. destruct (He c (or_introl eq_refl)) as [F D]. rewrite (strip_dchain_z _ _ _ F D). f_equal.
  apply IH. intros q Hq. apply He. right. exact Hq.
Qed.

(* non-vacuity: two chains with the SAME chain id, a repeated residue number across the chain boundary, a long
   residue name and a long atom name satisfy the hypothesis, and the writer runs on them *)
Definition exact_cs : list vchain :=
  [ {| vc_index := 0; vc_id := Some "A"%string;
       vc_res := [ {| vr_name := "LIGX"%string; vr_index := 0; vr_resSeq := 5%Z; vr_seg := ""%string;
                      vr_atoms := [ {| va_name := "C1"%string; va_elem := "C"%string; va_index := 0; va_serial := Some 7%Z |};
                                    {| va_name := "HX12L"%string; va_elem := "H"%string; va_index := 1; va_serial := None |} ] |};
                   {| vr_name := "LIGX"%string; vr_index := 1; vr_resSeq := 10006%Z; vr_seg := "S1"%string;
                      vr_atoms := [ {| va_name := "N"%string; va_elem := "N"%string; va_index := 2; va_serial := Some 9%Z |} ] |} ] |};
    {| vc_index := 1; vc_id := Some "A"%string;
       vc_res := [ {| vr_name := "LIGX"%string; vr_index := 2; vr_resSeq := 6%Z; vr_seg := ""%string;
                      vr_atoms := [ {| va_name := "OM"%string; va_elem := "VS"%string; va_index := 3; va_serial := Some 9%Z |} ] |} ] |} ].

Lemma exact_cs_ok :
  pdb_exact exact_cs /\ exists recs nums, pdb_atoms_chains false true exact_cs 0 1 = (recs, nums) /\ length nums = 4.
Proof.
  split.
  - intros c [<-|[<-|[]]]; (split; [split; [discriminate|]|]).
    + intros r [<-|[<-|[]]]; discriminate.
    + simpl. split; [vm_compute; reflexivity | exact I].
    + intros r [<-|[]]; discriminate.
    + exact I.
  - eexists. eexists. split; vm_compute; reflexivity.
Qed.
