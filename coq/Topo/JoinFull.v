(* C04: Topology.join(other, keep_resSeq=False) (repaired variant): other's residues are numbered
   on from the residue that holds self's last atom. *)
From Coq Require Import String Ascii.
From Coq Require Import List Arith ZArith Bool Lia Sorted Permutation.
Import ListNotations.
Require Import MD.Topo.Model MD.Topo.Basics MD.Topo.Build MD.Topo.AbsWalk MD.Topo.Copy MD.Topo.Subset MD.Topo.CarrierProofs MD.Topo.Join
  MD.Topo.Wf MD.Topo.Results.
Open Scope nat_scope.

(* ------------------------------------------------------------------ value level *)
Definition vres_seq (r : vres) (z : Z) : vres :=
  {| vr_name := vr_name r; vr_index := vr_index r; vr_resSeq := z; vr_seg := vr_seg r; vr_atoms := vr_atoms r |}.
Fixpoint reseq_res (s : Z) (l : list vres) : list vres * Z :=
  match l with
  | [] => ([], s)
  | r :: rest => let '(rs, fin) := reseq_res (s + 1) rest in (vres_seq r (s + 1) :: rs, fin)
  end.
Fixpoint reseq_chains (s : Z) (l : list vchain) : list vchain :=
  match l with
  | [] => []
  | c :: rest => let '(rs, fin) := reseq_res s (vc_res c) in
                 {| vc_index := vc_index c; vc_id := vc_id c; vc_res := rs |} :: reseq_chains fin rest
  end.

(* residue number of the residue that holds the last atom (chain-wise) *)
Definition last_resSeq (v : vtop) : option Z :=
  fold_left (fun acc r => match vr_atoms r with [] => acc | _ => Some (vr_resSeq r) end) (v_residues v) None.

Definition join_v_gen (keep : bool) (va vo : vtop) : option vtop :=
  if keep then Some (join_v va vo)
  else match last_resSeq va with
       | Some s => Some (join_v va {| vt_chains := reseq_chains s (vt_chains vo); vt_bonds := vt_bonds vo |})
       | None => None
       end.

(* ------------------------------------------------------------------ the same renumbering on a walk *)
Definition resid_seq (r : resid) (z : Z) : resid :=
  {| r_name := r_name r; r_index := r_index r; r_chain := r_chain r; r_resSeq := z; r_seg := r_seg r; r_atoms := r_atoms r |}.
Fixpoint reseq_rs (s : Z) (rs : list (resid * list (loc * atom))) : list (resid * list (loc * atom)) * Z :=
  match rs with
  | [] => ([], s)
  | ra :: rest => let '(rs', fin) := reseq_rs (s + 1) rest in ((resid_seq (fst ra) (s + 1), snd ra) :: rs', fin)
  end.
Fixpoint reseq_w (s : Z) (w : list (chain * list (resid * list (loc * atom)))) :=
  match w with
  | [] => []
  | cr :: rest => let '(rs', fin) := reseq_rs s (snd cr) in (fst cr, rs') :: reseq_w fin rest
  end.

Lemma join_desc_false kc s rs :
  join_desc kc false s rs = (map res_desc (fst (reseq_rs s rs)), snd (reseq_rs s rs)).
Proof.
  revert s; induction rs as [|ra rs IH]; intros s; [reflexivity|].
  simpl. rewrite IH. destruct (reseq_rs (s + 1) rs) as [rs' fin]. reflexivity.
Qed.

Lemma join_chains_false kc s w : join_chains kc false s w = copy_desc kc (reseq_w s w).
Proof.
  rewrite copy_desc_eq. revert s; induction w as [|[c rs] w IH]; intros s; [reflexivity|].
  simpl. rewrite join_desc_false. destruct (reseq_rs s rs) as [rs' fin]. simpl. rewrite IH. reflexivity.
Qed.

Lemma reseq_rs_atoms s rs : concat (map snd (fst (reseq_rs s rs))) = concat (map snd rs).
Proof. revert s; induction rs as [|ra rs IH]; intros s; [reflexivity|]. simpl. specialize (IH (s + 1)%Z). destruct (reseq_rs (s + 1) rs). simpl in *. rewrite IH. reflexivity. Qed.

Lemma walk_atoms_reseq s w : walk_atoms (reseq_w s w) = walk_atoms w.
Proof.
  unfold walk_atoms. revert s; induction w as [|[c rs] w IH]; intros s; [reflexivity|].
  simpl. pose proof (reseq_rs_atoms s rs) as E. destruct (reseq_rs s rs) as [rs' fin]. simpl in *. rewrite E, IH. reflexivity.
Qed.

Lemma reseq_rs_v s rs :
  map vres_of (fst (reseq_rs s rs)) = fst (reseq_res s (map vres_of rs)) /\ snd (reseq_rs s rs) = snd (reseq_res s (map vres_of rs)).
Proof.
  revert s; induction rs as [|ra rs IH]; intros s; [split; reflexivity|].
  simpl. destruct (IH (s + 1)%Z) as [E1 E2]. destruct (reseq_rs (s + 1) rs). destruct (reseq_res (s + 1) (map vres_of rs)). simpl in *.
  subst. split; reflexivity.
Qed.

Lemma vchain_of_reseq s w : map vchain_of (reseq_w s w) = reseq_chains s (map vchain_of w).
Proof.
  revert s; induction w as [|[c rs] w IH]; intros s; [reflexivity|].
  simpl. destruct (reseq_rs_v s rs) as [E1 E2]. destruct (reseq_rs s rs) as [rs' fin]. simpl in *.
  destruct (reseq_res s (map vres_of rs)) as [vr vfin]. simpl in *. subst. rewrite IH. reflexivity.
Qed.

(* ------------------------------------------------------------------ where the last atom lives *)
Lemma last_concat {A B} (f : A -> list B) (l : list A) d :
  concat (map f l) <> [] ->
  exists l1 x l2, l = l1 ++ x :: l2 /\ f x <> [] /\ (forall y, In y l2 -> f y = []) /\
                  last (concat (map f l)) d = last (f x) d.
Proof.
  induction l as [|a l IH]; intros Hne; [contradiction Hne; reflexivity|].
  simpl in *. destruct (concat (map f l)) as [|b r] eqn:E.
  - exists [], a, l. rewrite app_nil_r in *. split; [reflexivity|]. split; [exact Hne|]. split; [|reflexivity].
    intros y Hy. destruct (f y) as [|z zs] eqn:Ey; [reflexivity|].
    assert (In z (concat (map f l))) by (apply in_concat; exists (f y); split; [apply in_map; exact Hy | rewrite Ey; left; reflexivity]).
    rewrite E in H. destruct H.
  - destruct IH as [l1 [x [l2 [E1 [E2 [E3 E4]]]]]]; [discriminate|].
    exists (a :: l1), x, l2. split; [rewrite E1; reflexivity|]. split; [exact E2|]. split; [exact E3|].
    rewrite <- E4. clear. induction (f a) as [|z zs IHz]; [reflexivity|]. simpl. destruct (zs ++ b :: r) eqn:Ez; [destruct zs; discriminate | exact IHz].
Qed.

Lemma concat_nodup_home {A B} (f : A -> list B) l x y e :
  NoDup (concat (map f l)) -> In x l -> In y l -> In e (f x) -> In e (f y) -> x = y.
Proof.
  induction l as [|a l IH]; intros Hnd Hx Hy Ex Ey; [destruct Hx|].
  simpl in Hnd. apply NoDup_app_iff in Hnd. destruct Hnd as [N1 [N2 N3]].
  destruct Hx as [<-|Hx]; destruct Hy as [<-|Hy].
  - reflexivity.
  - exfalso. apply (N3 e Ex). apply in_concat. exists (f y). split; [apply in_map; exact Hy | exact Ey].
  - exfalso. apply (N3 e Ey). apply in_concat. exists (f x). split; [apply in_map; exact Hx | exact Ex].
  - apply (IH N2 Hx Hy Ex Ey).
Qed.

Lemma fold_last_resSeq (V1 V2 : list vres) vx acc :
  vr_atoms vx <> [] -> (forall y, In y V2 -> vr_atoms y = []) ->
  fold_left (fun acc r => match vr_atoms r with [] => acc | _ => Some (vr_resSeq r) end) (V1 ++ vx :: V2) acc = Some (vr_resSeq vx).
Proof.
  intros Hx H2. rewrite fold_left_app. simpl. destruct (vr_atoms vx) eqn:E; [contradiction|].
  clear - H2. generalize (Some (vr_resSeq vx)). induction V2 as [|y V2 IH]; intros acc; [reflexivity|].
  simpl. rewrite (H2 y (or_introl eq_refl)). apply IH. intros; apply H2; right; auto.
Qed.

Lemma nth_error_last {A} (l : list A) x d : nth_error l (pred (length l)) = Some x -> last l d = x.
Proof.
  induction l as [|y l IH]; intros H; [discriminate|]. destruct l as [|z l]; [simpl in H; inversion H; reflexivity|].
  simpl in *. apply IH. exact H.
Qed.

Lemma lay_res_atom_home n c nr na l x a :
  In (x, a) (lay_res_atoms (lay_res n c nr na l)) ->
  exists rr A, In (a_res a, (rr, A)) (lay_res n c nr na l) /\ In (x, a) A /\ r_atoms rr = map fst A.
Proof.
  revert n nr na; induction l as [|d l IH]; intros n nr na H; [destruct H|].
  unfold lay_res_atoms in H. simpl in H. apply in_app_or in H. destruct H as [H|H].
  - eexists; eexists. split; [left; rewrite (lay_atoms_res _ _ _ _ _ _ H); reflexivity|]. split; [exact H | reflexivity].
  - destruct (IH _ _ _ H) as [rr [A [H1 H2]]]. exists rr, A. split; [right; exact H1 | exact H2].
Qed.

Lemma lay_chains_atom_home desc : forall n nc nr na x a,
  In (x, a) (lay_chain_atoms (lay_chains n nc nr na desc)) ->
  exists cx ch Lr rr A, In (cx, (ch, map snd Lr)) (lay_chains n nc nr na desc) /\ c_res ch = map fst Lr /\
                        In (a_res a, (rr, A)) Lr /\ In (x, a) A /\ r_atoms rr = map fst A.
Proof.
  induction desc as [|d l IH]; intros n nc nr na x a H; [destruct H|].
  unfold lay_chain_atoms in H. simpl in H. apply in_app_or in H. destruct H as [H|H].
  - rewrite map_map in H. fold (lay_res_atoms (lay_res (S n) n nr na (dc_res d))) in H.
    destruct (lay_res_atom_home _ _ _ _ _ _ _ H) as [rr [A [H1 [H2 H3]]]].
    eexists; eexists; exists (lay_res (S n) n nr na (dc_res d)), rr, A. split; [left; reflexivity|]. split; [reflexivity|]. auto.
  - destruct (IH _ _ _ _ _ _ H) as [cx [ch [Lr [rr [A [H1 H2]]]]]]. exists cx, ch, Lr, rr, A. split; [right; exact H1 | exact H2].
Qed.

Lemma mapM_in_rev {A B} (f : A -> option B) l bl b : mapM f l = Some bl -> In b bl -> exists a, In a l /\ f a = Some b.
Proof.
  revert bl; induction l as [|x l IH]; intros bl H Hin; [inversion H; subst; destruct Hin|].
  apply mapM_cons_some in H. destruct H as [b' [br [Hb [Hl ->]]]]. destruct Hin as [<-|Hin].
  - exists x. split; [left; reflexivity | exact Hb].
  - destruct (IH _ Hl Hin) as [a [H1 H2]]. exists a. split; [right; exact H1 | exact H2].
Qed.

(* the residue number join() continues from is the one the specification names *)
Lemma join_start h t h1 out va l a r :
  wfo h t -> abs h t = Some va -> copy flags_fix h t = Some (h1, out) ->
  nth_error (t_atoms out) (pred (length (t_atoms out))) = Some l -> get_a h1 l = Some a -> get_r h1 (a_res a) = Some r ->
  last_resSeq va = Some (r_resSeq r).
Proof.
  intros Wt Ha Hcopy Hl Ga Gr.
  pose proof (copy_abs h t h1 out Wt Hcopy) as Habs. rewrite Ha in Habs.
  destruct Wt as [Hw _ _].
  destruct (copy_layout h t h1 out Hw Hcopy) as [w [_ HL]]. simpl in HL.
  set (L := lay_chains (h_next h) 0 0 0 (copy_desc true w)) in *.
  destruct HL as [Hw1 [_ [_ [HLw [Ec [Er [Ea _]]]]]]].
  destruct (chainwise_of_walk _ _ _ (walk_of_layout _ _ HLw)) as [CR CA].
  rewrite lay_chain_res_eq in CR. rewrite walk_atoms_layout in CA. rewrite <- Ec in CR, CA. rewrite <- Ea in CA.
  pose (RL := chainwise_residues h1 (t_chains out)).
  assert (EAL : concat (map (ratoms h1) RL) = t_atoms out) by (unfold RL; rewrite <- cw_atoms_eq; exact CA).
  assert (Hne : concat (map (ratoms h1) RL) <> []).
  { rewrite EAL. intros E. rewrite E in Hl. discriminate. }
  destruct (last_concat (ratoms h1) RL l Hne) as [R1 [x [R2 [ERL [Hx [HR2 Hlast]]]]]].
  rewrite EAL in Hlast. rewrite (nth_error_last _ l l Hl) in Hlast.
  assert (Hlx : In l (ratoms h1 x)) by (rewrite Hlast; destruct (ratoms h1 x); [contradiction | apply last_in; discriminate]).
  (* the home residue of l according to the layout *)
  assert (HlLA : In (l, a) (lay_chain_atoms L)).
  { assert (In l (map fst (lay_chain_atoms L))) by (rewrite <- Ea; eapply nth_error_In; eauto).
    apply in_map_iff in H. destruct H as [[l' a'] [Heq Hin]]. simpl in Heq; subst l'.
    assert (get_a h1 l = Some a') by (eapply layout_atoms_get; eauto). assert (a' = a) by congruence. subst a'. exact Hin. }
  destruct (lay_chains_atom_home _ _ _ _ _ _ _ HlLA) as [cx [ch [Lr [rr [A [HcL [Hcres [HrL [HinA Hrat]]]]]]]]].
  pose proof (HLw _ _ HcL) as Hwc. apply walk_chain_inv in Hwc. destruct Hwc as [Gc Hrs]. rewrite Hcres in Hrs.
  pose proof (mapM_pairs_inv _ _ Hrs _ _ HrL) as Hwr. apply walk_res_inv in Hwr. destruct Hwr as [Grr _].
  assert (rr = r) by congruence. subst rr.
  assert (Hhome : In (a_res a) RL).
  { unfold RL. rewrite cw_res_eq. apply in_concat. exists (cres h1 cx). split.
    - apply in_map. rewrite Ec. apply in_map_iff. exists (cx, (ch, map snd Lr)). auto.
    - unfold cres. rewrite Gc, Hcres. apply in_map_iff. exists (a_res a, (r, A)). auto. }
  assert (Hlr : In l (ratoms h1 (a_res a))) by (unfold ratoms; rewrite Gr, Hrat; apply in_map_iff; exists (l, a); auto).
  assert (Hnd : NoDup (concat (map (ratoms h1) RL))).
  { rewrite EAL, Ea. eapply sorted_in_nodup. apply lay_chain_atoms_sorted. }
  assert (Hxin : In x RL) by (rewrite ERL; apply in_or_app; right; left; reflexivity).
  assert (a_res a = x) by (eapply concat_nodup_home; eauto). subst x.
  (* the value level *)
  unfold abs in Habs. inv_bind Habs. inv_bind Habs. inversion Habs; subst va; clear Habs.
  pose proof (abs_chainwise_res _ _ _ E) as HR. fold RL in HR. rewrite ERL in HR.
  apply mapM_app_inv in HR. destruct HR as [V1 [V2' [H1 [H2 EV]]]].
  apply mapM_cons_some in H2. destruct H2 as [vx [V2 [Hvx [HV2 ->]]]].
  unfold last_resSeq, v_residues. simpl. rewrite EV.
  unfold abs_res in Hvx. rewrite Gr in Hvx. simpl in Hvx. inv_bind Hvx. inversion Hvx; subst vx; clear Hvx.
  rewrite fold_last_resSeq; [reflexivity | |].
  - simpl. intros Hnil. subst.
    match goal with H : mapM (abs_atom h1) (r_atoms r) = Some [] |- _ => apply mapM_length in H; simpl in H end.
    unfold ratoms in Hx. rewrite Gr in Hx. destruct (r_atoms r); [apply Hx; reflexivity | discriminate].
  - intros y Hy. destruct (mapM_in_rev _ _ _ _ HV2 Hy) as [ry [Hry Hay]]. specialize (HR2 ry Hry).
    unfold abs_res in Hay. destruct (get_r h1 ry) as [rry|] eqn:Gry; [|discriminate]. simpl in Hay.
    unfold ratoms in HR2. rewrite Gry in HR2. rewrite HR2 in Hay. simpl in Hay. inversion Hay; subst y. reflexivity.
Qed.

(* ------------------------------------------------------------------ join, both keep_resSeq values *)
Theorem join_abs_full h t other keep h' t' va vo :
  wfo h t -> wfo h other -> abs h t = Some va -> abs h other = Some vo ->
  join flags_fix h t other keep = Some (h', t') ->
  Some (abs h' t') = option_map Some (join_v_gen keep va vo) /\
  agree (h_next h) h h' /\ (forall l, In l (reach h' t') -> h_next h <= l).
Proof.
  intros Wt Wo Ha Ho Hj. destruct keep.
  - destruct (join_abs h t other h' t' va vo Wt Wo Ha Ho Hj) as [A [B C]]. split; [simpl; rewrite A; reflexivity | split; assumption].
  - unfold join in Hj. inv_bind Hj. destruct x as [h1 out]. rename E into Hcopy. cbn [obind] in Hj.
    inv_bind Hj. rename x into start. rename E into Hstart. inv_bind Hj. rename x into w2'. rename E into Hwalk2'.
    inv_bind Hj. destruct x as [[h2 t2] news2]. rename E into Hbuild.
    inv_bind Hj. rename x into t3. rename E into Hadd. inversion Hj; subst h' t'; clear Hj.
    change (f_cid_join flags_fix) with true in Hbuild.
    inv_bind Hstart. inv_bind Hstart. inv_bind Hstart. inversion Hstart; subst start; clear Hstart.
    pose proof (join_start h t h1 out va _ _ _ Wt Ha Hcopy E E0 E1) as Hs.
    destruct (join_abs_core h t other false (r_resSeq x1) (reseq_w (r_resSeq x1) w2') h1 out w2' h2 t2 news2 t3 va vo Wt Wo Ha Ho Hcopy Hwalk2'
                (join_chains_false true _ w2') (walk_atoms_reseq _ w2') Hbuild Hadd) as [A [B C]].
    split; [|split; assumption]. unfold join_v_gen. rewrite Hs. simpl. rewrite A. unfold join_v. simpl. repeat f_equal.
    rewrite vchain_of_reseq. f_equal.
    pose proof (copy_frame h t h1 out Wt Hcopy) as Hag1.
    destruct Wo as [Hwo _ [w2 [Hwalk2 _]]]. destruct Wt as [Hw _ _].
    assert (w2' = w2) by (pose proof (walk_agree h h1 other w2 Hw Hag1 Hwalk2); congruence). subst w2'.
    unfold abs in Ho. unfold walk in Hwalk2. rewrite (abs_chains_walk _ _ _ Hwalk2) in Ho. simpl in Ho. inv_bind Ho. inversion Ho. reflexivity.
Qed.
