(* C04: the abstraction [abs] is the chain-wise walk with locations forgotten; renumbering. *)
From Coq Require Import String Ascii.
From Coq Require Import List Arith ZArith Bool Lia.
Import ListNotations.
Require Import MD.Topo.Model MD.Topo.Basics MD.Topo.Build.
Open Scope nat_scope.

Definition vatom_of (a : atom) : vatom :=
  {| va_name := a_name a; va_elem := a_elem a; va_index := a_index a; va_serial := a_serial a |}.
Definition vres_of (rw : resid * list (loc * atom)) : vres :=
  {| vr_name := r_name (fst rw); vr_index := r_index (fst rw); vr_resSeq := r_resSeq (fst rw); vr_seg := r_seg (fst rw);
     vr_atoms := map (fun x => vatom_of (snd x)) (snd rw) |}.
Definition vchain_of (cw : chain * list (resid * list (loc * atom))) : vchain :=
  {| vc_index := c_index (fst cw); vc_id := c_id (fst cw); vc_res := map vres_of (snd cw) |}.

Lemma abs_res_walk h x rw : walk_res h x = Some rw -> abs_res h x = Some (vres_of rw).
Proof.
  destruct rw as [r A]. intros H. apply walk_res_inv in H. destruct H as [H1 [H2 H3]].
  unfold abs_res. rewrite H1. simpl. rewrite H2.
  assert (E : mapM (abs_atom h) (map fst A) = Some (map (fun x => vatom_of (snd x)) A)).
  { clear H2. induction A as [|[l a] A IH]; [reflexivity|].
    simpl. unfold abs_atom at 1. rewrite (H3 l a (or_introl eq_refl)). simpl.
    rewrite IH; [reflexivity|]. intros; apply H3; right; auto. }
  rewrite E. reflexivity.
Qed.

Lemma abs_chain_walk h x cw : walk_chain h x = Some cw -> abs_chain h x = Some (vchain_of cw).
Proof.
  unfold walk_chain, abs_chain. intros H. inv_bind H. inv_bind H. inversion H; subst cw; clear H.
  rewrite E. simpl.
  assert (E1 : mapM (abs_res h) (c_res x0) = Some (map vres_of x1)).
  { revert x1 E0. generalize (c_res x0). induction l as [|r l IH]; intros x1 E0.
    - inversion E0; reflexivity.
    - apply mapM_cons_some in E0. destruct E0 as [b [br [Hb [Hl ->]]]].
      simpl. rewrite (abs_res_walk _ _ _ Hb). rewrite (IH _ Hl). reflexivity. }
  rewrite E1. reflexivity.
Qed.

Lemma abs_chains_walk h cs w : mapM (walk_chain h) cs = Some w -> mapM (abs_chain h) cs = Some (map vchain_of w).
Proof.
  revert w; induction cs as [|c cs IH]; intros w H.
  - inversion H; reflexivity.
  - apply mapM_cons_some in H. destruct H as [b [br [Hb [Hl ->]]]].
    simpl. rewrite (abs_chain_walk _ _ _ Hb). rewrite (IH _ Hl). reflexivity.
Qed.

(* ------------------------------------------------------------------ renumbering *)
Definition vatom_idx (a : vatom) (i : nat) : vatom :=
  {| va_name := va_name a; va_elem := va_elem a; va_index := i; va_serial := va_serial a |}.
Fixpoint renum_atoms (na : nat) (l : list vatom) : list vatom :=
  match l with [] => [] | a :: r => vatom_idx a na :: renum_atoms (S na) r end.
Fixpoint renum_res (nr na : nat) (l : list vres) : list vres :=
  match l with
  | [] => []
  | r :: rest => {| vr_name := vr_name r; vr_index := nr; vr_resSeq := vr_resSeq r; vr_seg := vr_seg r;
                    vr_atoms := renum_atoms na (vr_atoms r) |}
                   :: renum_res (S nr) (na + length (vr_atoms r)) rest
  end.
Definition natoms_vres (l : list vres) : nat := list_sum (map (fun r => length (vr_atoms r)) l).
Fixpoint renum_chains (nc nr na : nat) (l : list vchain) : list vchain :=
  match l with
  | [] => []
  | c :: rest => {| vc_index := nc; vc_id := vc_id c; vc_res := renum_res nr na (vc_res c) |}
                   :: renum_chains (S nc) (nr + length (vc_res c)) (na + natoms_vres (vc_res c)) rest
  end.

(* indices are 0,1,2,... along the chain-wise walk *)
Definition normal (cs : list vchain) : Prop := renum_chains 0 0 0 cs = cs.

Definition res_desc (ra : resid * list (loc * atom)) : dres :=
  {| dr_name := r_name (fst ra); dr_resSeq := Some (r_resSeq (fst ra)); dr_seg := r_seg (fst ra);
     dr_atoms := map desc_atom (snd ra) |}.

Lemma lay_atoms_abs n r na A :
  map (fun x => vatom_of (snd x)) (lay_atoms n r na (map desc_atom A)) =
  renum_atoms na (map (fun x => vatom_of (snd x)) A).
Proof.
  revert n na; induction A as [|[l a] A IH]; intros n na; [reflexivity|].
  simpl. rewrite IH. reflexivity.
Qed.

Lemma lay_res_abs n c nr na RS :
  map (fun x => vres_of (snd x)) (lay_res n c nr na (map res_desc RS)) = renum_res nr na (map vres_of RS).
Proof.
  revert n nr na; induction RS as [|[r A] RS IH]; intros n nr na; [reflexivity|].
  simpl. rewrite !map_length. rewrite IH. f_equal.
  unfold vres_of at 1; simpl. unfold dres_seq; simpl. f_equal. apply lay_atoms_abs.
Qed.

Lemma natoms_res_desc RS : natoms_res (map res_desc RS) = natoms_vres (map vres_of RS).
Proof.
  unfold natoms_res, natoms_vres. rewrite !map_map. f_equal. apply map_ext. intros [r A]; simpl.
  rewrite !map_length. reflexivity.
Qed.

Definition chain_desc (keep : bool) (cr : chain * list (resid * list (loc * atom))) : dchain :=
  {| dc_id := if keep then c_id (fst cr) else None; dc_res := map res_desc (snd cr) |}.

Lemma copy_desc_eq keep w : copy_desc keep w = map (chain_desc keep) w.
Proof. reflexivity. Qed.

Lemma lay_chains_abs n nc nr na w :
  map (fun x => vchain_of (snd x)) (lay_chains n nc nr na (copy_desc true w)) = renum_chains nc nr na (map vchain_of w).
Proof.
  rewrite copy_desc_eq.
  revert n nc nr na; induction w as [|[c RS] w IH]; intros n nc nr na; [reflexivity|].
  simpl. rewrite !map_length. rewrite natoms_res_desc. rewrite IH. f_equal.
  unfold vchain_of at 1; simpl. f_equal. rewrite map_map. apply lay_res_abs.
Qed.
