(* C04: _topology_from_subset tests "atom.index in atom_indices": the result depends only on WHICH indices occur
   in the argument, not on their order or multiplicity.  So the theorems about [subset_v] (stated for an arbitrary
   list) cover unsorted index lists and lists with duplicates: they give what the sorted, duplicate-free list gives. *)
From Coq Require Import String Ascii.
From Coq Require Import List Arith ZArith Bool Lia.
Import ListNotations.
Require Import MD.Topo.Model MD.Topo.Basics MD.Topo.Copy MD.Topo.Subset.
Open Scope nat_scope.

Definition same_set (k1 k2 : list nat) : Prop := forall i, In i k1 <-> In i k2.

Lemma keepb_same_set k1 k2 a : same_set k1 k2 -> keepb k1 a = keepb k2 a.
Proof.
  intros H. unfold keepb. apply eq_true_iff_eq. rewrite !existsb_exists. split; intros [x [Hx E]]; exists x; (split; [apply H; exact Hx | exact E]).
Qed.

Lemma filter_ext_all {A} (f g : A -> bool) l : (forall a, f a = g a) -> filter f l = filter g l.
Proof. intros H. induction l as [|x l IH]; [reflexivity|]. simpl. rewrite H, IH. reflexivity. Qed.

Theorem subset_v_same_set k1 k2 v : same_set k1 k2 -> subset_v k1 v = subset_v k2 v.
Proof.
  intros H. pose proof (fun a => keepb_same_set k1 k2 a H) as K.
  assert (Hr : forall r, sub_res k1 r = sub_res k2 r).
  { intros r. unfold sub_res. rewrite (filter_ext_all _ _ _ K). reflexivity. }
  assert (Hc : forall c, sub_chain k1 c = sub_chain k2 c).
  { intros c. unfold sub_chain. rewrite (map_ext _ _ Hr). reflexivity. }
  assert (Hk : forall i, rank k1 v i = rank k2 v i).
  { intros i. unfold rank. rewrite (filter_ext_all _ _ _ K). reflexivity. }
  unfold subset_v, subset_chains, subset_bonds. rewrite (map_ext _ _ Hc). f_equal. f_equal. apply map_ext.
  intros b. rewrite !Hk. reflexivity.
Qed.

(* heap level: two calls of the repaired subset() with index lists that hold the same indices (one may be unsorted
   or repeat indices) return topologies that read the same *)
Corollary subset_same_set h t k1 k2 h1 t1 h2 t2 v :
  wfo h t -> abs h t = Some v -> same_set k1 k2 ->
  subset flags_fix h t k1 = Some (h1, t1) -> subset flags_fix h t k2 = Some (h2, t2) ->
  abs h1 t1 = abs h2 t2.
Proof.
  intros W A S E1 E2. rewrite (subset_abs h t k1 h1 t1 v W A E1), (subset_abs h t k2 h2 t2 v W A E2).
  rewrite (subset_v_same_set k1 k2 v S). reflexivity.
Qed.

Example same_set_witness : same_set [2; 0; 2; 1] [0; 1; 2].
Proof. intros i. simpl. tauto. Qed.
