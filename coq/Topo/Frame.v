(* C04: "editing either topology never changes the other".
   [edit_writes]: add_chain/add_residue/add_atom/add_bond/insert_atom/delete_atom_by_index applied to
   a topology t write only objects t can reach (or fresh ones); [abs_agree_on]: the abstraction and
   the reach of a topology u depend only on the objects u can reach.  Hence [edit_frame]. *)
From Coq Require Import String Ascii.
From Coq Require Import List Arith ZArith Bool Lia.
Import ListNotations.
Require Import MD.Topo.Model MD.Topo.Carriers MD.Topo.Run MD.Topo.Basics MD.Topo.Build.
Open Scope nat_scope.

Definition same_at (h h' : heap) (l : loc) : Prop :=
  get_a h' l = get_a h l /\ get_r h' l = get_r h l /\ get_c h' l = get_c h l.

(* ------------------------------------------------------------------ abs and reach read only reach *)
Lemma mapM_same {A B} (f g : A -> option B) l : (forall a, In a l -> f a = g a) -> mapM f l = mapM g l.
Proof. apply mapM_ext_in. Qed.

Lemma chainwise_residues_cons h c cs :
  chainwise_residues h (c :: cs) = match get_c h c with Some ch => c_res ch | None => [] end ++ chainwise_residues h cs.
Proof. reflexivity. Qed.

Lemma chainwise_same h h' cs :
  (forall l, In l cs -> get_c h' l = get_c h l) ->
  (forall l, In l (chainwise_residues h cs) -> get_r h' l = get_r h l) ->
  chainwise_residues h' cs = chainwise_residues h cs /\ chainwise_atoms h' cs = chainwise_atoms h cs.
Proof.
  intros Hc Hr.
  assert (E : chainwise_residues h' cs = chainwise_residues h cs).
  { unfold chainwise_residues. f_equal. apply map_ext_in. intros c Hin. rewrite Hc by exact Hin. reflexivity. }
  split; [exact E|]. unfold chainwise_atoms. rewrite E. f_equal. apply map_ext_in. intros r Hin.
  rewrite Hr by exact Hin. reflexivity.
Qed.

Lemma abs_agree_on h h' u :
  (forall l, In l (reach h u) -> same_at h h' l) ->
  abs h' u = abs h u /\ reach h' u = reach h u.
Proof.
  intros H.
  assert (Hc : forall l, In l (t_chains u) -> get_c h' l = get_c h l).
  { intros l Hin. apply H. unfold reach. apply in_or_app. left. exact Hin. }
  assert (Hr : forall l, In l (chainwise_residues h (t_chains u)) -> get_r h' l = get_r h l).
  { intros l Hin. apply H. unfold reach. apply in_or_app. right. apply in_or_app. right. apply in_or_app. left. exact Hin. }
  assert (Ha : forall l, In l (chainwise_atoms h (t_chains u)) -> get_a h' l = get_a h l).
  { intros l Hin. apply H. unfold reach. do 4 (apply in_or_app; right). apply in_or_app. left. exact Hin. }
  assert (Hb : forall l, In l (bond_ends u) -> get_a h' l = get_a h l).
  { intros l Hin. apply H. unfold reach. do 5 (apply in_or_app; right). exact Hin. }
  destruct (chainwise_same h h' (t_chains u) Hc Hr) as [CR CA].
  split; [|unfold reach; rewrite CR, CA; reflexivity].
  unfold abs.
  assert (E1 : mapM (abs_chain h') (t_chains u) = mapM (abs_chain h) (t_chains u)).
  { apply mapM_same. intros c Hin. unfold abs_chain. rewrite (Hc c Hin).
    destruct (get_c h c) as [ch|] eqn:G; [|reflexivity]. simpl.
    assert (Hres : forall r, In r (c_res ch) -> In r (chainwise_residues h (t_chains u))).
    { intros r Hr0. unfold chainwise_residues. apply in_concat. exists (c_res ch). split; [|exact Hr0].
      apply in_map_iff. exists c. rewrite G. split; [reflexivity | exact Hin]. }
    assert (E : mapM (abs_res h') (c_res ch) = mapM (abs_res h) (c_res ch)).
    { apply mapM_same. intros r Hr0. unfold abs_res. rewrite (Hr r (Hres r Hr0)).
      destruct (get_r h r) as [rr|] eqn:Gr; [|reflexivity]. simpl.
      assert (E : mapM (abs_atom h') (r_atoms rr) = mapM (abs_atom h) (r_atoms rr)).
      { apply mapM_same. intros a Ha0. unfold abs_atom. rewrite Ha; [reflexivity|].
        unfold chainwise_atoms. apply in_concat. exists (r_atoms rr). split; [|exact Ha0].
        apply in_map_iff. exists r. rewrite Gr. split; [reflexivity | apply Hres; exact Hr0]. }
      rewrite E. reflexivity. }
    rewrite E. reflexivity. }
  assert (E2 : mapM (abs_bond h') (t_bonds u) = mapM (abs_bond h) (t_bonds u)).
  { apply mapM_same. intros b Hin. unfold abs_bond.
    assert (In (b_a1 b) (bond_ends u) /\ In (b_a2 b) (bond_ends u)) as [B1 B2].
    { unfold bond_ends. split; apply in_concat; exists [b_a1 b; b_a2 b]; (split; [apply in_map_iff; exists b; auto | simpl; auto]). }
    rewrite (Hb _ B1), (Hb _ B2). reflexivity. }
  rewrite E1, E2. reflexivity.
Qed.

(* ------------------------------------------------------------------ what the edits write *)
Lemma shift_indices_frame ls : forall h up h',
  shift_indices h ls up = Some h' ->
  h_next h' = h_next h /\ (forall l, ~ In l ls -> get_a h' l = get_a h l) /\
  (forall l, get_r h' l = get_r h l) /\ (forall l, get_c h' l = get_c h l).
Proof.
  induction ls as [|x ls IH]; intros h up h' H.
  - inversion H; subst. repeat split; auto.
  - simpl in H. inv_bind H. apply IH in H. destruct H as [N [A [R C]]]. heap_simpl.
    split; [exact N|]. split; [|split].
    + intros l Hl. rewrite A by (intros Hin; apply Hl; right; exact Hin). heap_simpl.
      rewrite (eqb_false_ne x l) by (intros ->; apply Hl; left; reflexivity). reflexivity.
    + intros l. rewrite R. heap_simpl. reflexivity.
    + intros l. rewrite C. heap_simpl. reflexivity.
Qed.

Definition edit_slot (o : op) : option nat :=
  match o with
  | OAddChain s _ | OAddResidue s _ _ _ _ | OAddAtom s _ _ _ _ | OAddBond s _ _ _ _
  | OInsertAtom s _ _ _ _ _ _ | ODelete s _ => Some s
  | _ => None
  end.

Lemma nth_error_in {A} (l : list A) n x : nth_error l n = Some x -> In x l.
Proof. apply nth_error_In. Qed.

Lemma skipn_in {A} n (l : list A) x : In x (skipn n l) -> In x l.
Proof. revert l; induction n as [|n IH]; intros l H; [exact H|]. destruct l; [destruct H|]. right. apply IH. exact H. Qed.

Theorem edit_writes fl st o s t :
  edit_slot o = Some s -> nth_error (st_tops st) s = Some t -> back_ok (st_heap st) t ->
  h_next (st_heap st) <= h_next (st_heap (step fl st o)) /\
  forall l, l < h_next (st_heap st) -> ~ In l (t_chains t ++ t_residues t ++ t_atoms t) ->
            same_at (st_heap st) (st_heap (step fl st o)) l.
Proof.
  intros Ho Ht Hback.
  assert (Hrefl : h_next (st_heap st) <= h_next (st_heap st) /\
                  forall l, l < h_next (st_heap st) -> ~ In l (t_chains t ++ t_residues t ++ t_atoms t) ->
                            same_at (st_heap st) (st_heap st) l) by (split; [lia | intros; repeat split]).
  set (h := st_heap st) in *.
  destruct o; simpl in Ho; try discriminate; inversion Ho; subst s0; clear Ho; unfold step; fold h; rewrite Ht; cbn [obind].
  - (* add_chain *)
    simpl. split; [heap_simpl; lia|]. intros l Hl _. unfold same_at. heap_simpl.
    rewrite (eqb_false_lt (h_next h) l) by lia. auto.
  - (* add_residue *)
    destruct (nth_error (t_chains t) chain_pos) as [c|] eqn:Ec; cbn [obind]; [|exact Hrefl].
    unfold add_residue. destruct (get_c h c) as [ch|] eqn:Gc; cbn [obind]; [|exact Hrefl]. simpl.
    split; [heap_simpl; lia|]. intros l Hl Hn. unfold same_at. heap_simpl.
    rewrite (eqb_false_lt (h_next h) l) by lia.
    rewrite (eqb_false_ne c l); [auto|]. intros ->. apply Hn. apply in_or_app. left. eapply nth_error_in; eauto.
  - (* add_atom *)
    destruct (nth_error (t_residues t) res_pos) as [r|] eqn:Er; cbn [obind]; [|exact Hrefl].
    unfold add_atom. destruct (get_r h r) as [rr|] eqn:Gr; cbn [obind]; [|exact Hrefl]. simpl.
    split; [heap_simpl; lia|]. intros l Hl Hn. unfold same_at. heap_simpl.
    rewrite (eqb_false_lt (h_next h) l) by lia.
    rewrite (eqb_false_ne r l); [auto|]. intros ->. apply Hn. apply in_or_app. right. apply in_or_app. left.
    eapply nth_error_in; eauto.
  - (* add_bond: the heap is not written *)
    destruct (nth_error (t_atoms t) i); cbn [obind]; [|exact Hrefl].
    destruct (nth_error (t_atoms t) j); cbn [obind]; [|exact Hrefl].
    destruct (add_bond h t l l0 ty ord); cbn [obind]; exact Hrefl.
  - (* insert_atom *)
    destruct (nth_error (t_residues t) res_pos) as [r|] eqn:Er; cbn [obind]; [|exact Hrefl].
    assert (Hr_in : In r (t_chains t ++ t_residues t ++ t_atoms t)).
    { apply in_or_app. right. apply in_or_app. left. eapply nth_error_in; eauto. }
    unfold insert_atom. destruct index as [i|].
    + destruct (length (t_atoms t) <? i); cbn [obind]; [exact Hrefl|].
      match goal with |- context [shift_indices ?H ?L ?U] => destruct (shift_indices H L U) as [h2|] eqn:Es end;
        cbn [obind]; [|exact Hrefl].
      apply shift_indices_frame in Es. destruct Es as [N [A [R C]]].
      destruct (get_r h2 r) as [rr|] eqn:Gr; cbn [obind]; [|exact Hrefl].
      destruct (match rindex with Some k => if k <=? length (r_atoms rr) then Some (insert_at k (h_next h) (r_atoms rr)) else None
                                | None => Some (r_atoms rr ++ [h_next h]) end) as [ratoms|]; cbn [obind]; [|exact Hrefl].
      simpl. split; [heap_simpl; rewrite N; heap_simpl; lia|].
      intros l Hl Hn. unfold same_at. heap_simpl. rewrite R, C.
      rewrite A by (intros Hin; apply Hn; do 2 (apply in_or_app; right); eapply skipn_in; eauto).
      heap_simpl. rewrite (eqb_false_lt (h_next h) l) by lia.
      rewrite (eqb_false_ne r l) by (intros ->; apply Hn; exact Hr_in). auto.
    + destruct (get_r h r) as [rr|] eqn:Gr; cbn [obind]; [|exact Hrefl].
      destruct (match rindex with Some k => if k <=? length (r_atoms rr) then Some (insert_at k (h_next h) (r_atoms rr)) else None
                                | None => Some (r_atoms rr ++ [h_next h]) end) as [ratoms|]; cbn [obind]; [|exact Hrefl].
      simpl. split; [heap_simpl; lia|].
      intros l Hl Hn. unfold same_at. heap_simpl. rewrite (eqb_false_lt (h_next h) l) by lia.
      rewrite (eqb_false_ne r l) by (intros ->; apply Hn; exact Hr_in). auto.
  - (* delete_atom_by_index *)
    unfold delete_atom.
    destruct (nth_error (t_atoms t) index) as [x|] eqn:Ex; cbn [obind]; [|exact Hrefl].
    destruct (get_a h x) as [a|] eqn:Ga; cbn [obind]; [|exact Hrefl].
    destruct (negb (Nat.eqb (a_index a) index)); [exact Hrefl|].
    destruct (shift_indices h (skipn (S index) (t_atoms t)) false) as [h1|] eqn:Es; cbn [obind]; [|exact Hrefl].
    apply shift_indices_frame in Es. destruct Es as [N [A [R C]]].
    destruct (get_r h1 (a_res a)) as [rr|] eqn:Gr; cbn [obind]; [|exact Hrefl].
    destruct (remove_first (same_atom fl h1 x) (r_atoms rr)) as [ratoms|]; cbn [obind]; [|exact Hrefl].
    match goal with |- context [remove_first ?P (t_atoms t)] => destruct (remove_first P (t_atoms t)) as [tatoms|] end;
      cbn [obind]; [|exact Hrefl].
    simpl. split; [heap_simpl; lia|].
    intros l Hl Hn. unfold same_at. heap_simpl. rewrite R, C.
    rewrite A by (intros Hin; apply Hn; do 2 (apply in_or_app; right); eapply skipn_in; eauto).
    rewrite (eqb_false_ne (a_res a) l); [auto|]. intros <-. apply Hn. apply in_or_app. right. apply in_or_app. left.
    eapply Hback; [eapply nth_error_in; eauto | exact Ga].
Qed.

Lemma own_in_reach h t l : In l (t_chains t ++ t_residues t ++ t_atoms t) -> In l (reach h t).
Proof.
  intros H. unfold reach. apply in_app_or in H. destruct H as [H|H]; [apply in_or_app; left; exact H|].
  apply in_app_or in H. destruct H as [H|H].
  - apply in_or_app; right. apply in_or_app; left. exact H.
  - do 3 (apply in_or_app; right). apply in_or_app; left. exact H.
Qed.

(* one edit (add_chain, add_residue, add_atom, add_bond, insert_atom, delete_atom_by_index — in either
   variant) of topology t leaves the abstraction and the reach of every topology u that shares no
   reachable object with t unchanged *)
Theorem edit_frame fl st o s t u :
  edit_slot o = Some s -> nth_error (st_tops st) s = Some t -> back_ok (st_heap st) t ->
  (forall l, In l (reach (st_heap st) u) -> l < h_next (st_heap st) /\ ~ In l (reach (st_heap st) t)) ->
  abs (st_heap (step fl st o)) u = abs (st_heap st) u /\
  reach (st_heap (step fl st o)) u = reach (st_heap st) u.
Proof.
  intros Ho Ht Hb Hsep. destruct (edit_writes fl st o s t Ho Ht Hb) as [_ Hw].
  apply abs_agree_on. intros l Hin. destruct (Hsep l Hin) as [Hlt Hni].
  apply Hw; [exact Hlt|]. intros Hown. apply Hni. apply own_in_reach. exact Hown.
Qed.
